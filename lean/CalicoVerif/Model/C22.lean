import CalicoVerif.Model.CasIO
import CalicoVerif.Model.C19
/-!
C22 — the claim paths as backend-call SEQUENCES (step admissibility alone cannot see a
write that is missing): a thread may write a BlockAffinity to `confirmed` only if, since
its last `pending` write of an affinity, it has itself

* created the block (`claimAffineBlock`, create succeeded), or
* lost the create (`exists`) and then read the block (`claimAffineBlock`, "already claimed by
  this host" path), or
* rewritten the block it read (`getBlockFromAffinity`: "writing block to get a new
  revision" — the write that invalidates a concurrent `releaseBlockAffinity` holding the
  old block revision).

A BlockAffinity object is only ever CREATED in state `pending` (`getPendingAffinity`).

`step22` threads this "licence" next to `Cas.step`.  Core Lean only.
-/
namespace CalicoVerif.C22
open CalicoVerif.Cas CalicoVerif.Proto

structure Lic where
  lic : Nat → Option (Nat × Nat)   -- thread ↦ (host, block) it may confirm
  pre : Nat → Option Nat           -- thread ↦ block whose create it has just lost

def Lic.init : Lic := { lic := fun _ => none, pre := fun _ => none }

def affOf (s : St) (b : Nat) : Option Nat :=
  match s.blk b with
  | some (_, v) => v.aff
  | none => none

/-- Licence bookkeeping for one call, evaluated on the store BEFORE the call.
`none` = the call is a confirm without licence (a block write is missing). -/
def licStep (l : Lic) (s : St) (c : Call) : Option Lic :=
  let ok := casOutcome (s.curRev c.key) c.verb c.rev c.fault == .ok
  let exists_ := casOutcome (s.curRev c.key) c.verb c.rev c.fault == .exists_
  match c.key, c.verb, c.pl with
  | .aff x b, .update, .affSt .confirmed =>
    if ok then
      if l.lic c.t == some (x, b) then some { l with lic := upd l.lic c.t none } else none
    else some l
  | .aff _ _, _, .affSt .pending =>
    if ok then some { lic := upd l.lic c.t none, pre := upd l.pre c.t none } else some l
  | .aff _ _, .create, .affSt _ =>
    -- getPendingAffinity is the only creator of BlockAffinity objects: always `pending`
    if ok then none else some l
  | .blk b, .create, .blkCreate a _ =>
    if ok then some { l with lic := upd l.lic c.t (some (a, b)) } else some l
  | .blk b, .create, _ =>
    if exists_ then some { l with pre := upd l.pre c.t (some b) } else some l
  | .blk b, .update, .blkRmw _ .bump _ =>
    if ok then some { l with lic := upd l.lic c.t ((affOf s b).map (fun x => (x, b))) } else some l
  | .blk b, .get, _ =>
    if ok && l.pre c.t == some b then
      some { lic := upd l.lic c.t ((affOf s b).map (fun x => (x, b))), pre := upd l.pre c.t none }
    else some l
  | _, _, _ => some l

structure St22 where
  cas : St
  l : Lic

def step22 (s : St22) (e : Ev) : Option St22 :=
  match e with
  | .call c =>
    match licStep s.l s.cas c, step s.cas e with
    | some l', some cas' => some { cas := cas', l := l' }
    | _, _ => none
  | _ => (step s.cas e).map (fun cas' => { s with cas := cas' })

def run22 (s : St22) : List Ev → Option St22
  | [] => some s
  | e :: es => match step22 s e with
    | some s' => run22 s' es
    | none => none

/-! ### driver -/

structure DSt where
  cas : St
  l : Lic

def stepLine (d : DSt) (line : String) : DSt × String :=
  let ws := words line
  match ws with
  | "new" :: _ =>
    let (c, o) := driverStep C19.chk d.cas line
    ({ cas := c, l := Lic.init }, o)
  | "step" :: _ =>
    let (c, o) := driverStep C19.chk d.cas line
    match parseStep ws with
    | some cl =>
      match licStep d.l d.cas cl with
      | some l' => ({ cas := c, l := l' }, o)
      | none => ({ cas := c, l := d.l }, o ++ " NOLICENCE")
    | none => ({ d with cas := c }, o)
  | _ =>
    let (c, o) := driverStep C19.chk d.cas line
    ({ d with cas := c }, o)

end CalicoVerif.C22
