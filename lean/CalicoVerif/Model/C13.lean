/-
C13 — C record layout for the BPF target (what clang does for the structs in
felix/bpf-gpl/*.h), as an executable algorithm over flat field lists.

A record (`Rec`) is a struct or a union with an optional `packed` attribute and a list of fields.
A field has a type summarised by `(size, align)` in bytes (`Ty`) — a scalar, an array, or a
nested record whose `Ty` is computed by this same algorithm (`Rec.ty`) — and an optional bit-field
width.  Nesting is expressed by composition of Lean definitions (the translator emits records
bottom-up), so the algorithm itself is not recursive.

All offsets and sizes produced by `layout` are in BITS (bit-fields need them); `Rec.size`,
`Rec.align` are in bytes.

Algorithm = Itanium/SysV C ABI as implemented by clang's ItaniumRecordLayoutBuilder for a target
without special rules (BPF): fields in declaration order; a non-bit-field goes to the next
multiple of its alignment (1 if packed); a bit-field of width w and declared type (S, A) goes to
the current bit position unless it would straddle an A-aligned S-sized unit, in which case the
position is first rounded up to A (never for packed records); a union puts every member at 0; the
record's alignment is the largest field alignment (1 if packed) and its size is rounded up to it.
Not modelled (the translator refuses them): zero-width bit-fields, `aligned(n)` attributes,
`#pragma pack`, flexible array members.
Core Lean only.
-/
namespace CalicoVerif.C13

/-- Size and alignment of a complete object type, in bytes. -/
structure Ty where
  size : Nat
  align : Nat
deriving DecidableEq, Repr

structure Field where
  name : String
  ty : Ty
  bits : Option Nat := none     -- bit-field width
deriving DecidableEq, Repr

structure Rec where
  isUnion : Bool
  packed : Bool
  fields : List Field
deriving DecidableEq, Repr

/-- One laid-out field: offset and size in bits. -/
structure Slot where
  name : String
  off : Nat
  size : Nat
deriving DecidableEq, Repr

def roundUp (n a : Nat) : Nat := (n + a - 1) / a * a

/-- Alignment (bytes) a field imposes inside a record. -/
def Field.effAlign (packed : Bool) (f : Field) : Nat := if packed then 1 else f.ty.align

/-- Where a field goes when the struct is filled up to bit `pos`. -/
def placeField (packed : Bool) (pos : Nat) (f : Field) : Nat :=
  match f.bits with
  | none => roundUp pos (8 * f.effAlign packed)
  | some w =>
    if packed then pos
    else if pos % (8 * f.ty.align) + w > 8 * f.ty.size then roundUp pos (8 * f.ty.align) else pos

def Field.bitSize (f : Field) : Nat :=
  match f.bits with
  | none => 8 * f.ty.size
  | some w => w

/-- Struct layout: slots in declaration order and the final bit position. -/
def layoutStruct (packed : Bool) : List Field → Nat → List Slot × Nat
  | [], pos => ([], pos)
  | f :: fs, pos =>
    let off := placeField packed pos f
    let r := layoutStruct packed fs (off + f.bitSize)
    (⟨f.name, off, f.bitSize⟩ :: r.1, r.2)

def layoutUnion : List Field → List Slot × Nat
  | [] => ([], 0)
  | f :: fs =>
    let r := layoutUnion fs
    (⟨f.name, 0, f.bitSize⟩ :: r.1, max f.bitSize r.2)

/-- Alignment of the record in bytes. -/
def Rec.align (r : Rec) : Nat :=
  r.fields.foldl (fun a f => max a (f.effAlign r.packed)) 1

/-- Slots of the record's direct members (bits). -/
def Rec.layout (r : Rec) : List Slot :=
  if r.isUnion then (layoutUnion r.fields).1 else (layoutStruct r.packed r.fields 0).1

/-- Bits occupied before tail padding. -/
def Rec.dataBits (r : Rec) : Nat :=
  if r.isUnion then (layoutUnion r.fields).2 else (layoutStruct r.packed r.fields 0).2

/-- `sizeof` in bytes. -/
def Rec.size (r : Rec) : Nat := roundUp ((r.dataBits + 7) / 8) r.align

/-- The record used as a field type. -/
def Rec.ty (r : Rec) : Ty := ⟨r.size, r.align⟩

def Ty.array (t : Ty) (n : Nat) : Ty := ⟨t.size * n, t.align⟩

/-- Bit offset of a direct member. -/
def Rec.offOf (r : Rec) (name : String) : Option Nat :=
  (r.layout.find? (fun s => s.name == name)).map (·.off)

def Rec.slotOf (r : Rec) (name : String) : Option Slot :=
  r.layout.find? (fun s => s.name == name)

/-- Offset (bits) and size (bits) of a member reached through a chain of (record, member) steps,
e.g. `state->ct_result.flags` = [(cali_tc_state, "ct_result"), (calico_ct_result, "flags")]. -/
def pathSlot : List (Rec × String) → Option (Nat × Nat)
  | [] => none
  | [(r, n)] => (r.slotOf n).map (fun s => (s.off, s.size))
  | (r, n) :: rest =>
    match r.slotOf n, pathSlot rest with
    | some s, some (o, sz) => some (s.off + o, sz)
    | _, _ => none

end CalicoVerif.C13
