/-
C37 — model of libcalico-go/lib/hash/unique_id.go `GetLengthLimitedID`, its
wrappers in felix/rules (`PolicyChainName`, `ProfileChainName`,
`EndpointChainName`, `PolicyGroup.ChainName`) and felix/ipsets
(`combineAndTrunc`, `NameForMainIPSet`).

* Go strings are byte sequences: `Str := List Nat`.
* `hash : Str → Str` is base64.RawURLEncoding(sha256(·)) — an uninterpreted
  PARAMETER (43 characters in reality; theorems that need that say so).
* The Go panic (`log.Panicf` when there is no room for even one hash
  character) is modelled as `none`. Since /repo d3812f3 the number of hash
  characters kept is `min(charsLeftForHash, len(hash))`, so there is no
  out-of-range slice any more; since 6a0784d the marker guard compares with
  the length a shortened ID really has, `min(maxLength, len(prefix)+1+43)`.
Core Lean only (linked into the driver executable).
-/
namespace CalicoVerif.C37

abbrev Str := List Nat

/-- `shortenedPrefix = "_"`. -/
def us : Nat := 95

/-- `GetLengthLimitedID(fixedPrefix, suffix, maxLength)`; `none` = panic. -/
def getLengthLimitedID (hash : Str → Str) (fixedPrefix suffix : Str) (maxLength : Int) : Option Str :=
  let suffix := if suffix.length = 0 then [us] else suffix
  let totalLen : Int := (fixedPrefix.length : Int) + (suffix.length : Int)
  -- 6a0784d: the length a shortened ID will really have (43 = EncodedLen(sha256.Size))
  let shortenedLen : Int := min maxLength ((fixedPrefix.length : Int) + 1 + 43)
  if totalLen > maxLength ∨ (totalLen = shortenedLen ∧ suffix.take 1 = [us]) then
    let h := hash suffix
    let charsLeftForHash : Int := maxLength - 1 - (fixedPrefix.length : Int)
    if charsLeftForHash ≤ 0 then none                         -- log.Panicf
    else
      let charsLeftForHash := min charsLeftForHash (h.length : Int)   -- d3812f3
      some (fixedPrefix ++ [us] ++ h.take charsLeftForHash.toNat)
  else some (fixedPrefix ++ suffix)

/-- Did `GetLengthLimitedID` take the shortening branch? -/
def shortens (fixedPrefix suffix : Str) (maxLength : Int) : Bool :=
  let suffix := if suffix.length = 0 then [us] else suffix
  let totalLen : Int := (fixedPrefix.length : Int) + (suffix.length : Int)
  let shortenedLen : Int := min maxLength ((fixedPrefix.length : Int) + 1 + 43)
  decide (totalLen > maxLength ∨ (totalLen = shortenedLen ∧ suffix.take 1 = [us]))

/-- `PolicyChainName(prefix, polID, nft)` with `id = polID.ID()`;
`maxIpt`/`maxNft` are `iptables.MaxChainNameLength` / `nftables.MaxChainNameLength`. -/
def policyChainName (hash : Str → Str) (maxIpt maxNft : Int) (pfx id : Str) (nft : Bool) : Option Str :=
  getLengthLimitedID hash pfx id (if nft then maxNft else maxIpt)

/-- `ProfileChainName(prefix, profID, nft)` with `name = profID.Name`. -/
def profileChainName (hash : Str → Str) (maxIpt maxNft : Int) (pfx name : Str) (nft : Bool) : Option Str :=
  getLengthLimitedID hash pfx name (if nft then maxNft else maxIpt)

/-- `EndpointChainName(prefix, ifaceName, maxLen)`. -/
def endpointChainName (hash : Str → Str) (pfx iface : Str) (maxLen : Int) : Option Str :=
  getLengthLimitedID hash pfx iface maxLen

/-- `PolicyGroup.ChainName()`: direction prefix ++ `UniqueID()`. -/
def groupChainName (pfx uid : Str) : Str := pfx ++ uid

/-- `combineAndTrunc(prefix, suffix, maxLength)` (felix/ipsets). -/
def combineAndTrunc (pfx suffix : Str) (maxLength : Nat) : Str :=
  if (pfx ++ suffix).length > maxLength then (pfx ++ suffix).take maxLength else pfx ++ suffix

/-- `NewIPVersionConfig(family, namePrefix, …).mainSetNamePrefix`:
`namePrefix ++ "4"|"6" ++ mainIpsetToken`. -/
def mainSetNamePrefix (namePrefix : Str) (v6 : Bool) (mainToken : Str) : Str :=
  namePrefix ++ [if v6 then 54 else 52] ++ mainToken

/-- `IPVersionConfig.NameForMainIPSet(setID)`. -/
def nameForMainIPSet (namePrefix : Str) (v6 : Bool) (mainToken : Str) (maxIPSet : Nat) (setID : Str) : Str :=
  combineAndTrunc (mainSetNamePrefix namePrefix v6 mainToken) setID maxIPSet

/-- `a` is a prefix of `b` (executable). -/
def isPrefix : Str → Str → Bool
  | [], _ => true
  | _ :: _, [] => false
  | a :: as, b :: bs => a == b && isPrefix as bs

/-- Neither string is a prefix of the other. -/
def incomparable (a b : Str) : Bool := !isPrefix a b && !isPrefix b a

end CalicoVerif.C37
