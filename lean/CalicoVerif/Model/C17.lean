/-
C17 — model of the route reconciliation core of felix/routetable/route_table.go over the main
routing table: conflict resolution between desired routes for one destination
(`recalculateDesiredKernelRoute`: lowest route class wins, then highest interface index, only
interfaces that are up), ownership (`routeIsOurs` + `MainTableOwnershipPolicy.RouteIsOurs`),
full resync (`doFullResync`) and delta application (`applyUpdates`: delete owned routes that are
not desired, replace desired routes that differ) with per-route netlink failures and the inline
retry of `Apply`.

Not modelled: per-interface rescans (`ifacesToRescan`; the harness requests a full resync after
every interface event), grace periods, static ARP, conntrack-owner tracking, multi-path routes,
IPv6, TOS/priority in the route key, netlink EINTR retries.  The kernel-route payload other than
interface index and gateway (type/scope/flags/src/mtu) is an opaque `kind` string computed from the
target type by the harness.
Core Lean only.
-/
namespace CalicoVerif.C17

abbrev Map (α : Type) := List (String × α)
namespace Map
variable {α : Type}
def get (m : Map α) (k : String) : Option α := List.lookup k m
def has (m : Map α) (k : String) : Bool := (m.get k).isSome
def erase (m : Map α) (k : String) : Map α := m.filter (fun p => p.1 != k)
def set (m : Map α) (k : String) (v : α) : Map α := (k, v) :: m.erase k
def keys (m : Map α) : List String := m.map (·.1)
end Map

def sortS (l : List String) : List String := l.mergeSort (fun a b => a ≤ b)
def hasPrefix (s p : String) : Bool := p.toList.isPrefixOf s.toList

/-- A route in the kernel (`kernelRoute` + protocol), keyed by destination CIDR. -/
structure KRoute where
  ifindex : Nat
  gw : String
  proto : Nat
  kind : String
deriving DecidableEq, Repr, Inhabited

structure Iface where
  idx : Nat
  up : Bool
deriving DecidableEq, Repr, Inhabited

/-- One desired target: (route class, interface name, CIDR) ↦ gateway + kind. -/
structure Want where
  cls : Nat
  iface : String
  cidr : String
  gw : String
  kind : String
deriving DecidableEq, Repr, Inhabited

/-- `MainTableOwnershipPolicy`. -/
structure Policy where
  workloadPrefixes : List String
  removeNonCalico : Bool
  special : List String
  allProtos : List Nat
  exclusiveProtos : List Nat
deriving Repr, Inhabited

def Policy.isWorkload (p : Policy) (iface : String) : Bool := p.workloadPrefixes.any (hasPrefix iface)

/-- `MainTableOwnershipPolicy.RouteIsOurs` (interface-less routes and the BIRD clauses excluded). -/
def Policy.routeIsOurs (p : Policy) (iface : String) (proto : Nat) : Bool :=
  if p.exclusiveProtos.contains proto then true
  else if p.isWorkload iface then (if p.removeNonCalico then true else p.allProtos.contains proto)
  else p.special.contains iface

structure RT where
  pol : Policy
  defProto : Nat
  ifaces : Map Iface := []          -- ifaceNameToIndex / ifaceIndexToState
  wants : List Want := []           -- ifaceToRoutes
  dp : Map KRoute := []             -- kernelRoutes.Dataplane()
  fullResync : Bool := true
deriving Repr, Inhabited

def RT.ifaceName (t : RT) (idx : Nat) : Option String :=
  (t.ifaces.find? (fun p => p.2.idx == idx)).map (·.1)

/-- `routeIsOurs`: routes on unknown interfaces are ignored. -/
def RT.owns (t : RT) (r : KRoute) : Bool :=
  match t.ifaceName r.ifindex with
  | none => false
  | some n => t.pol.routeIsOurs n r.proto

/-- Is candidate `a` preferred over `b`?  (lower class, then higher ifindex). -/
def better (a b : Want × Nat) : Bool :=
  a.1.cls < b.1.cls || (a.1.cls == b.1.cls && a.2 > b.2)

/-- `recalculateDesiredKernelRoute`: the winning target for a CIDR, with its interface index. -/
def RT.best (t : RT) (cidr : String) : Option (Want × Nat) :=
  let cands := t.wants.filterMap (fun w =>
    if w.cidr == cidr then
      match t.ifaces.get w.iface with
      | some i => if i.up then some (w, i.idx) else none
      | none => none
    else none)
  cands.foldl (fun acc c => match acc with
    | none => some c
    | some b => if better c b then some c else some b) none

/-- `kernelRoutes.Desired().Get`. -/
def RT.desired (t : RT) (cidr : String) : Option KRoute :=
  (t.best cidr).map (fun p => ⟨p.2, p.1.gw, t.defProto, p.1.kind⟩)

def RT.desiredKeys (t : RT) : List String :=
  ((t.wants.map (·.cidr)).eraseDups).filter (fun c => (t.desired c).isSome)

/-- `SetRoutes` for one class/interface. -/
def RT.setRoutes (t : RT) (cls : Nat) (iface : String) (ws : List Want) : RT :=
  { t with wants := t.wants.filter (fun w => !(w.cls == cls && w.iface == iface)) ++ ws.eraseDups }

/-- `RouteUpdate`. -/
def RT.routeUpdate (t : RT) (w : Want) : RT :=
  { t with wants := t.wants.filter (fun x => !(x.cls == w.cls && x.iface == w.iface && x.cidr == w.cidr)) ++ [w] }

/-- `RouteRemove`. -/
def RT.routeRemove (t : RT) (cls : Nat) (iface cidr : String) : RT :=
  { t with wants := t.wants.filter (fun x => !(x.cls == cls && x.iface == iface && x.cidr == cidr)) }

/-- `OnIfaceStateChanged`. -/
def RT.setIface (t : RT) (name : String) (i : Option Iface) : RT :=
  match i with
  | some i => { t with ifaces := t.ifaces.set name i }
  | none => { t with ifaces := t.ifaces.erase name }

abbrev Kernel := Map KRoute

structure Fails where
  linkList : Bool := false
  routeList : Bool := false
  replace : Bool := false
  del : Bool := false
deriving Repr, Inhabited

structure W where
  t : RT
  K : Kernel := []
  kif : Map Iface := []     -- the kernel's interfaces (what LinkList returns)
  f : Fails := {}
deriving Repr, Inhabited

/-- `doFullResync`: refresh interface states from the kernel, then rebuild the dataplane view from
the routes we own.  `true` = error. -/
def W.fullResync (w : W) : W × Bool :=
  if w.f.linkList then ({ w with f := { w.f with linkList := false } }, true)
  else
    let t := { w.t with ifaces := w.kif }
    if w.f.routeList then ({ w with t := t, f := { w.f with routeList := false } }, true)
    else
      ({ w with t := { t with dp := w.K.filter (fun p => t.owns p.2), fullResync := false } }, false)

/-- Deletion pass of `applyUpdates` (canonical order; at most one injected failure). -/
def W.deletePass (w : W) : W × Bool :=
  let dels := sortS ((w.t.dp.keys.filter (fun k => (w.t.desired k).isNone)).eraseDups)
  dels.foldl (fun (acc : W × Bool) k =>
    let (w, err) := acc
    if w.f.del then ({ w with f := { w.f with del := false } }, true)
    else ({ w with K := w.K.erase k, t := { w.t with dp := w.t.dp.erase k } }, err)) (w, false)

/-- Update pass of `applyUpdates`. -/
def W.updatePass (w : W) : W × Bool :=
  let ups := sortS (w.t.desiredKeys.filter (fun k => w.t.desired k != w.t.dp.get k))
  ups.foldl (fun (acc : W × Bool) k =>
    let (w, err) := acc
    match w.t.desired k with
    | none => (w, err)
    | some r =>
      if w.f.replace then ({ w with f := { w.f with replace := false } }, true)
      else ({ w with K := w.K.set k r, t := { w.t with dp := w.t.dp.set k r } }, err)) (w, false)

/-- `attemptApply`. -/
def W.attempt (w : W) : W × Bool :=
  let (w, e) := if w.t.fullResync then w.fullResync else (w, false)
  if e then (w, true)
  else
    let (w, e1) := w.deletePass
    let (w, e2) := w.updatePass
    (w, e1 || e2)

/-- `Apply`: one attempt plus one inline retry on error.  `true` = error returned. -/
def W.apply (w : W) : W × Bool :=
  let (w, e) := w.attempt
  if e then w.attempt else (w, false)

end CalicoVerif.C17
