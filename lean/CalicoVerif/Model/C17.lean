/-
C17 — model of the route reconciliation core of felix/routetable/route_table.go over the main
routing table: conflict resolution between desired routes for one destination
(`recalculateDesiredKernelRoute`: lowest route class wins, then highest interface index, only
interfaces that are up), ownership (`routeIsOurs` + `MainTableOwnershipPolicy.RouteIsOurs`),
full resync (`doFullResync`) and delta application (`applyUpdates`: delete owned routes that are
not desired, replace desired routes that differ) with per-route netlink failures and the inline
retry of `Apply`.

Per-interface rescans (`ifacesToRescan`, `resyncIface`) are modelled (a failed route listing keeps the
interface queued, as repaired in /repo a84de56).  Interface knowledge is the three maps of the code
(`ifaceNameToIndex`, `ifaceIndexToName`, `ifaceIndexToState`) with `OnIfaceStateChanged` and the three passes of
`refreshAllIfaceStates` as written, so that links that appear, disappear, are renamed or re-use an index WITHOUT a
callback (learned only by a resync) are covered.
Not modelled: grace periods, static ARP, conntrack-owner tracking, multi-path routes, IPv6,
TOS/priority in the route key, netlink EINTR retries; the interface monitor and the kernel are assumed
to report the same interface states.  The kernel-route payload other than
interface index and gateway (type/scope/flags/src/mtu) is an opaque `kind` string computed from the
target type by the harness.
Core Lean only.
-/
namespace CalicoVerif.C17

abbrev Map (α : Type) := List (String × α)
namespace Map
variable {α : Type}
def get (m : Map α) (k : String) : Option α := List.lookup k m
def has (m : Map α) (k : String) : Bool := (m.get k).isSome
def erase (m : Map α) (k : String) : Map α := m.filter (fun p => p.1 != k)
def set (m : Map α) (k : String) (v : α) : Map α := (k, v) :: m.erase k
def keys (m : Map α) : List String := m.map (·.1)
end Map

/-- Maps keyed by interface index. -/
abbrev NMap (α : Type) := List (Nat × α)
namespace NMap
variable {α : Type}
def get (m : NMap α) (k : Nat) : Option α := List.lookup k m
def erase (m : NMap α) (k : Nat) : NMap α := m.filter (fun p => p.1 != k)
def set (m : NMap α) (k : Nat) (v : α) : NMap α := (k, v) :: m.erase k
end NMap

def sortS (l : List String) : List String := l.mergeSort (fun a b => a ≤ b)
def sAdd (s : List String) (x : String) : List String := if x ∈ s then s else s ++ [x]
def sErase (s : List String) (x : String) : List String := s.filter (· != x)
def hasPrefix (s p : String) : Bool := p.toList.isPrefixOf s.toList

/-- A route in the kernel (`kernelRoute` + protocol), keyed by destination CIDR. -/
structure KRoute where
  ifindex : Nat
  gw : String
  proto : Nat
  kind : String
deriving DecidableEq, Repr, Inhabited

structure Iface where
  idx : Nat
  up : Bool
deriving DecidableEq, Repr, Inhabited

/-- One desired target: (route class, interface name, route key) ↦ gateway + kind.  `cidr` is the key the target is
filed under (`normalizeRouteKey` of the key the caller gave, `raw`; a key is `<cidr>` for priority 0 and
`<cidr>@<priority>` otherwise). -/
structure Want where
  cls : Nat
  iface : String
  cidr : String
  gw : String
  kind : String
  raw : String
deriving DecidableEq, Repr, Inhabited

/-- `MainTableOwnershipPolicy`. -/
structure Policy where
  workloadPrefixes : List String
  removeNonCalico : Bool
  special : List String
  allProtos : List Nat
  exclusiveProtos : List Nat
deriving Repr, Inhabited

def Policy.isWorkload (p : Policy) (iface : String) : Bool := p.workloadPrefixes.any (hasPrefix iface)

/-- `MainTableOwnershipPolicy.RouteIsOurs` (interface-less routes and the BIRD clauses excluded). -/
def Policy.routeIsOurs (p : Policy) (iface : String) (proto : Nat) : Bool :=
  if p.exclusiveProtos.contains proto then true
  else if p.isWorkload iface then (if p.removeNonCalico then true else p.allProtos.contains proto)
  else p.special.contains iface

structure RT where
  pol : Policy
  defProto : Nat
  v6 : Bool := false                -- ipVersion == 6
  n2i : Map Nat := []               -- ifaceNameToIndex
  i2n : NMap String := []           -- ifaceIndexToName
  i2s : NMap Bool := []             -- ifaceIndexToState (true = up, false = down, absent = not present)
  wants : List Want := []           -- ifaceToRoutes
  des : Map KRoute := []            -- kernelRoutes.Desired(): a CACHE, recalculated per destination on the code's triggers
  dp : Map KRoute := []             -- kernelRoutes.Dataplane()
  fullResync : Bool := true
  rescan : List String := []        -- ifacesToRescan
deriving Repr, Inhabited

def RT.ifaceName (t : RT) (idx : Nat) : Option String := t.i2n.get idx

/-- `normalizeRouteKey`: for IPv6 the kernel reads priority 0 as 1024, so a key without a priority is filed under
priority 1024. -/
def RT.norm (t : RT) (key : String) : String :=
  if t.v6 && !(key.toList.contains '@') then key ++ "@1024" else key

/-- `routeIsOurs`: routes on unknown interfaces are ignored. -/
def RT.owns (t : RT) (r : KRoute) : Bool :=
  match t.ifaceName r.ifindex with
  | none => false
  | some n => t.pol.routeIsOurs n r.proto

/-- Is candidate `a` preferred over `b`?  (lower class, then higher ifindex). -/
def better (a b : Want × Nat) : Bool :=
  a.1.cls < b.1.cls || (a.1.cls == b.1.cls && a.2 > b.2)

/-- `recalculateDesiredKernelRoute`: the winning target for a CIDR, with its interface index. -/
def RT.best (t : RT) (cidr : String) : Option (Want × Nat) :=
  let cands := t.wants.filterMap (fun w =>
    if w.cidr == cidr then
      match t.n2i.get w.iface with
      | some idx => if t.i2s.get idx == some true then some (w, idx) else none
      | none => none
    else none)
  cands.foldl (fun acc c => match acc with
    | none => some c
    | some b => if better c b then some c else some b) none

/-- The kernel route for the winning target of a CIDR (what `recalculateDesiredKernelRoute` stores). -/
def RT.bestRoute (t : RT) (cidr : String) : Option KRoute :=
  (t.best cidr).map (fun p => ⟨p.2, p.1.gw, t.defProto, p.1.kind⟩)

/-- `recalculateDesiredKernelRoute(cidr)`: refresh the cached desired route of one destination. -/
def RT.recalc (t : RT) (cidr : String) : RT :=
  { t with des := match t.bestRoute cidr with | some r => t.des.set cidr r | none => t.des.erase cidr }

/-- `kernelRoutes.Desired().Get`. -/
def RT.desired (t : RT) (cidr : String) : Option KRoute := t.des.get cidr

def RT.desiredKeys (t : RT) : List String := t.des.keys

/-- `SetRoutes` for one class/interface: the destinations that were removed and all the new ones are recalculated. -/
def RT.setRoutes (t : RT) (cls : Nat) (iface : String) (ws : List Want) : RT :=
  let old := (t.wants.filter (fun w => w.cls == cls && w.iface == iface)).map (·.cidr)
  let new := (ws.map (fun w => { w with cidr := t.norm w.raw })).eraseDups
  let t := { t with wants := t.wants.filter (fun w => !(w.cls == cls && w.iface == iface)) ++ new }
  (old.filter (fun c => !(new.map (·.cidr)).contains c) ++ new.map (·.cidr)).foldl RT.recalc t

/-- `RouteUpdate`. -/
def RT.routeUpdate (t : RT) (w : Want) : RT :=
  let w : Want := { w with cidr := t.norm w.raw }
  ({ t with wants := t.wants.filter (fun x => !(x.cls == w.cls && x.iface == w.iface && x.cidr == w.cidr)) ++ [w] } : RT).recalc w.cidr

/-- `RouteRemove` (nothing happens, in particular no recalculation, if there is no such target). -/
def RT.routeRemove (t : RT) (cls : Nat) (iface rawKey : String) : RT :=
  let cidr := t.norm rawKey
  if t.wants.any (fun x => x.cls == cls && x.iface == iface && x.cidr == cidr) then
    ({ t with wants := t.wants.filter (fun x => !(x.cls == cls && x.iface == iface && x.cidr == cidr)) } : RT).recalc cidr
  else t

/-- `recheckRouteOwnershipsByIface(name)`. -/
def RT.recheck (t : RT) (name : String) : RT :=
  (((t.wants.filter (fun w => w.iface == name)).map (·.cidr)).eraseDups).foldl RT.recalc t

/-- `OnIfaceStateChanged(name, idx, state)`; `st = none` is `StateNotPresent` (then the index that is cleaned up
is the one recorded for the name, not the argument). -/
def RT.onIface (t : RT) (name : String) (idx : Nat) (st : Option Bool) : RT :=
  let t : RT := match st with
    | none =>
      let old := (t.n2i.get name).getD 0
      { t with i2n := t.i2n.erase old, i2s := t.i2s.erase old, n2i := t.n2i.erase name, rescan := sErase t.rescan name }
    | some up =>
      let i2n := match t.n2i.get name with
        | some o => if o != idx then t.i2n.erase o else t.i2n   -- renumbered: only the name of the old index is cleaned up
        | none => t.i2n
      { t with i2s := t.i2s.set idx up, n2i := t.n2i.set name idx, i2n := i2n.set idx name,
               rescan := if up then sAdd t.rescan name else t.rescan }
  t.recheck name

/-- First pass of `refreshAllIfaceStates`, first check: the link's name is known with another index. -/
def RT.dropRenumbered (t : RT) (n : String) (idx : Nat) : RT :=
  match t.n2i.get n with
  | some o => if o != idx then t.onIface n o none else t
  | none => t

/-- ... second check: the link's index is known under another name. -/
def RT.dropRenamed (t : RT) (n : String) (idx : Nat) : RT :=
  match t.i2n.get idx with
  | some on => if on != n then t.onIface on idx none else t
  | none => t

/-- First pass of `refreshAllIfaceStates` for one link: simulate the deletion of a renumbered or renamed interface. -/
def RT.refreshPass1 (kif : Map Iface) (t : RT) (n : String) : RT :=
  match kif.get n with
  | none => t
  | some ki => (t.dropRenumbered n ki.idx).dropRenamed n ki.idx

/-- Second pass for one link: report the link only if its state differs from the state recorded FOR ITS INDEX. -/
def RT.refreshPass2 (kif : Map Iface) (t : RT) (n : String) : RT :=
  match kif.get n with
  | none => t
  | some ki => if t.i2s.get ki.idx == some ki.up then t else t.onIface n ki.idx (some ki.up)

/-- `refreshAllIfaceStates` (links visited in name order). -/
def RT.refreshAll (t : RT) (kif : Map Iface) : RT :=
  let links := sortS kif.keys.eraseDups
  let t := links.foldl (RT.refreshPass1 kif) t
  let t := links.foldl (RT.refreshPass2 kif) t
  (sortS t.n2i.keys.eraseDups).foldl (fun t n => if kif.has n then t else t.onIface n 0 none) t

abbrev Kernel := Map KRoute

structure Fails where
  linkList : Bool := false
  routeList : Bool := false
  replace : Bool := false
  del : Bool := false
  linkByName : Bool := false
deriving Repr, Inhabited

structure W where
  t : RT
  K : Kernel := []
  kif : Map Iface := []     -- the kernel's interfaces (what LinkList / LinkByName return)
  pend : List (String × Nat × Option Bool) := []   -- interface-monitor callbacks not delivered yet (in order)
  f : Fails := {}
deriving Repr, Inhabited

/-- `doFullResync`: refresh interface states from the kernel, then rebuild the dataplane view from
the routes we own.  `true` = error. -/
def W.fullResync (w : W) : W × Bool :=
  if w.f.linkList then ({ w with f := { w.f with linkList := false } }, true)
  else
    let t := w.t.refreshAll w.kif
    if w.f.routeList then ({ w with t := t, f := { w.f with routeList := false } }, true)
    else
      ({ w with t := { t with dp := w.K.filter (fun p => t.owns p.2), fullResync := false, rescan := [] } }, false)

/-- `resyncIface`: refresh one interface and the routes on it.  `true` = it returns an error (the
interface stays queued): a failing `LinkByName`, or a failing route listing while the interface is up. -/
def W.resyncIface (w : W) (name : String) : W × Bool :=
  if w.f.linkByName then ({ w with f := { w.f with linkByName := false } }, true)
  else
    match w.kif.get name with
    | none => ({ w with t := w.t.onIface name 0 none }, false)
    | some ki =>
      let t := w.t.onIface name ki.idx (some ki.up)
      if w.f.routeList then
        -- the listing failed: an error (the interface stays queued) unless the interface is down in the kernel
        ({ w with t := t, f := { w.f with routeList := false } }, ki.up)
      else
        -- routes on this interface that pass `routeIsOurs` (only these count as "seen")
        let seen := w.K.filter (fun p => p.2.ifindex == ki.idx && t.owns p.2)
        let dp1 := seen.foldl (fun m p => m.set p.1 p.2) t.dp
        let t1 := { t with dp := dp1 }
        let missing := ((t.wants.filter (fun x => x.iface == name)).map (fun x => t.norm x.raw)).eraseDups.filter (fun c =>
          !(Map.has seen c) && (match t1.desired c with | some r => r.ifindex == ki.idx | none => false))
        ({ w with t := { t1 with dp := missing.foldl (fun m c => m.erase c) dp1 } }, false)

/-- `resyncIndividualInterfaces`. -/
def W.resyncIfaces (w : W) : W :=
  (sortS w.t.rescan).foldl (fun w name =>
    let r := w.resyncIface name
    if r.2 then r.1 else { r.1 with t := { r.1.t with rescan := sErase r.1.t.rescan name } }) w

/-- One deletion of the deletion pass of `applyUpdates`. -/
def W.delStep (acc : W × Bool) (k : String) : W × Bool :=
  if acc.1.f.del then ({ acc.1 with f := { acc.1.f with del := false } }, true)
  else ({ acc.1 with K := acc.1.K.erase k, t := { acc.1.t with dp := acc.1.t.dp.erase k } }, acc.2)

/-- Deletion pass of `applyUpdates` (canonical order; at most one injected failure). -/
def W.deletePass (w : W) : W × Bool :=
  (sortS ((w.t.dp.keys.filter (fun k => (w.t.desired k).isNone)).eraseDups)).foldl W.delStep (w, false)

/-- One `RouteReplace` of the update pass.  A failing RouteReplace is an error only if the interface is up in
the kernel; otherwise the interface is queued for a rescan (`filterErrorByIfaceState`). -/
def W.updStep (acc : W × Bool) (k : String) : W × Bool :=
  match acc.1.t.desired k with
  | none => acc
  | some r =>
    if acc.1.f.replace then
      let w := { acc.1 with f := { acc.1.f with replace := false } }
      match w.t.ifaceName r.ifindex with
      | none => (w, true)
      | some name =>
        match w.kif.get name with
        | some ki => if ki.up then (w, true) else ({ w with t := { w.t with rescan := sAdd w.t.rescan name } }, acc.2)
        | none => ({ w with t := { w.t with rescan := sAdd w.t.rescan name } }, acc.2)
    else ({ acc.1 with K := acc.1.K.set k r, t := { acc.1.t with dp := acc.1.t.dp.set k r } }, acc.2)

/-- Update pass of `applyUpdates`. -/
def W.updatePass (w : W) : W × Bool :=
  (sortS (w.t.desiredKeys.filter (fun k => w.t.desired k != w.t.dp.get k))).foldl W.updStep (w, false)

/-- `attemptApply`. -/
def W.attempt (w : W) : W × Bool :=
  let (w, e) := if w.t.fullResync then w.fullResync else (w.resyncIfaces, false)
  if e then (w, true)
  else
    let (w, e1) := w.deletePass
    let (w, e2) := w.updatePass
    (w, e1 || e2)

/-- `Apply`: one attempt, one inline retry on error or when interfaces are still queued for a rescan;
an error is also returned when interfaces remain queued.  `true` = error returned. -/
def W.apply (w : W) : W × Bool :=
  let (w1, e1) := w.attempt
  let (w2, e2) := if e1 || !w1.t.rescan.isEmpty then w1.attempt else (w1, e1)
  (w2, e2 || !w2.t.rescan.isEmpty)

/-! ### The operations the driver replays (the histories the theorems quantify over) -/

/-- A link change in the kernel: `st = some up?` creates/updates link `n` with index `i`, `none` removes it.
The kernel drops the routes of a link that goes down or away, those on the old index of a link that is re-created
with another index, and those of another link whose index is taken over. -/
def W.linkChange (w : W) (n : String) (i : Nat) (st : Option Bool) : W :=
  -- another link currently holding index i disappears
  let other := w.kif.filter (fun p => p.1 != n && p.2.idx == i)
  let kif := w.kif.filter (fun p => !(p.1 != n && p.2.idx == i))
  let K := if other.isEmpty then w.K else w.K.filter (fun p => p.2.ifindex != i)
  let K := if st == some true then K else K.filter (fun p => p.2.ifindex != i)
  let K := match w.kif.get n with
    | some old => if old.idx != i then K.filter (fun p => p.2.ifindex != old.idx) else K
    | none => K
  let kif : Map Iface := match st with | some up => Map.set kif n ⟨i, up⟩ | none => Map.erase kif n
  { w with kif := kif, K := K }

/-- The callbacks the interface monitor sends for that change, in order: a deletion for a link that lost its
index to the new one, a deletion for the old incarnation of a re-created link, then the new state. -/
def W.monitorCallbacks (w : W) (n : String) (i : Nat) (st : Option Bool) : List (String × Nat × Option Bool) :=
  ((w.kif.filter (fun p => p.1 != n && p.2.idx == i)).map (fun p => (p.1, i, (none : Option Bool)))) ++
  (match w.kif.get n with
    | some old => if old.idx != i then [(n, old.idx, none)] else []
    | none => []) ++
  [(n, i, st)]

/-- Deliver all pending callbacks. -/
def W.flush (w : W) : W :=
  { w with t := w.pend.foldl (fun t c => t.onIface c.1 c.2.1 c.2.2) w.t, pend := [] }

/-- A link change whose callbacks are delayed (Felix can learn it earlier only through a resync). -/
def W.linkEvent (w : W) (n : String) (i : Nat) (st : Option Bool) : W :=
  { w.linkChange n i st with pend := w.pend ++ w.monitorCallbacks n i st }

/-- A link change reported at once (after any callbacks that were still pending). -/
def W.ifaceEvent (w : W) (n : String) (i : Nat) (st : Option Bool) : W := (w.linkEvent n i st).flush

inductive Op where
  | iface (n : String) (idx : Nat) (st : Option Bool)   -- link change + monitor callbacks
  | link (n : String) (idx : Nat) (st : Option Bool)    -- link change whose callbacks are delayed
  | flush                                               -- the delayed callbacks arrive
  | kroute (c : String) (r : KRoute)        -- somebody else programs a route
  | kdel (c : String)                       -- somebody else deletes a route
  | set (cls : Nat) (ifc : String) (ws : List Want)
  | upd (x : Want)
  | rem (cls : Nat) (ifc c : String)
  | resync                                  -- `QueueResync`
  | apply (f : Fails)                       -- `Apply` with the given injected failures
deriving Repr

/-- One operation; for `apply` also whether it returned an error. -/
def W.stepOp (w : W) : Op → W × Option Bool
  | .iface n i st => (w.ifaceEvent n i st, none)
  | .link n i st => (w.linkEvent n i st, none)
  | .flush => (w.flush, none)
  | .kroute c r => ({ w with K := w.K.set c r }, none)
  | .kdel c => ({ w with K := w.K.erase c }, none)
  | .set cls ifc ws => ({ w with t := w.t.setRoutes cls ifc ws }, none)
  | .upd x => ({ w with t := w.t.routeUpdate x }, none)
  | .rem cls ifc c => ({ w with t := w.t.routeRemove cls ifc c }, none)
  | .resync => ({ w with t := { w.t with fullResync := true } }, none)
  | .apply f =>
    let r := ({ w with f := f } : W).apply
    ({ r.1 with f := {} }, some r.2)

/-- A whole history. -/
def W.run (w : W) (ops : List Op) : W := ops.foldl (fun w o => (w.stepOp o).1) w

end CalicoVerif.C17
