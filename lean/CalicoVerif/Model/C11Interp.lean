import CalicoVerif.Model.C11Split
/-
C11 — an interpreter for the eBPF subset that the policy-program builder
emits (TRUSTED: this is my reading of the kernel's semantics of those
instructions and of the two helpers).  Core Lean only.

* registers: 11 × `Option (BitVec 64)`; `none` = uninitialised (reading it is a
  fault — this is what the in-kernel verifier rejects).  Helper calls clobber
  R1–R5.
* memory: three regions at fixed, disjoint addresses: the 512-byte stack below
  R10 (a function index → byte; bytes may be uninitialised), the 512-byte `cali_tc_state` map value, and
  the read-only context (`skb->cb[0..1]` only).  Any other access is a fault.
* helper 1 `map_lookup_elem`: on the state map returns the state pointer (or 0
  when the environment says the lookup fails); on the IP-sets map it decodes
  the LPM key from the stack (prefix length must be the full key, padding byte
  0 — anything else is a fault) and answers from the environment's membership
  relation.
* helper 12 `tail_call`: ends the program when the environment says the jump
  succeeds, else falls through.
* all jumps must be forward (offset ≥ 0); a backward jump is a fault.  That is
  the termination argument: `execL` recurses on the remaining instruction
  list, no fuel.
-/
namespace CalicoVerif.C11

abbrev Word := BitVec 64
abbrev Byte := BitVec 8

def stackTop : Nat := 0x70000000
def stackSize : Nat := 512
def stateBase : Nat := 0x50000000
def stateSize : Nat := 512
def ctxBase : Nat := 0x30000000
def ipsetValPtr : Nat := 0x60000000
def mapHandleBase : Nat := 0x4000000000000000

structure Mach where
  regs : List (Option Word)        -- 11 entries
  stack : Nat → Option Byte        -- byte at address R10-512+i (i < 512); none = uninitialised
  st : List Byte                   -- the cali_tc_state value, 512 bytes

/-- What the program's environment answers. -/
structure Env where
  c : Cfg
  stateOK : Bool := true                       -- state-map lookup succeeds
  tailOK : Bool := true                        -- tail calls via the static jump map succeed
  polTailOK : Bool := true                     -- tail calls via the policy jump map succeed
  /-- IP-set membership of (set id, address words as loaded little-endian from
  the state, port, protocol). -/
  member : Nat → List (BitVec 32) → BitVec 16 → Byte → Bool := fun _ _ _ _ => false
  cb0 : BitVec 32 := 0
  cb1 : BitVec 32 := 0

def Mach.init (st : List Byte) : Mach :=
  { regs := [none, some (BitVec.ofNat 64 ctxBase), none, none, none, none, none, none, none, none,
             some (BitVec.ofNat 64 stackTop)],
    stack := fun _ => none, st := st }

def Mach.reg (m : Mach) (r : Nat) : Option Word := (m.regs.getD r none)
def Mach.setReg (m : Mach) (r : Nat) (v : Word) : Mach := { m with regs := m.regs.set r (some v) }
def Mach.clobber (m : Mach) : Mach :=
  { m with regs := ((((m.regs.set 1 none).set 2 none).set 3 none).set 4 none).set 5 none }

/-! ### bytes -/
def leNat : List Byte → Nat
  | [] => 0
  | b :: bs => b.toNat + 256 * leNat bs

def toLE (v : Nat) : Nat → List Byte
  | 0 => []
  | n + 1 => BitVec.ofNat 8 v :: toLE (v / 256) n

def getBytes {α : Type} (l : List α) (off n : Nat) : Option (List α) :=
  if off + n ≤ l.length then some ((l.drop off).take n) else none

def writeAt {α : Type} (l : List α) (off : Nat) (bs : List α) : List α :=
  l.take off ++ bs ++ l.drop (off + bs.length)

/-- Read `n` stack bytes starting at index `i` (`none` if one is uninitialised). -/
def readStack (s : Nat → Option Byte) (i : Nat) : Nat → Option (List Byte)
  | 0 => some []
  | n + 1 =>
    match s i, readStack s (i + 1) n with
    | some b, some bs => some (b :: bs)
    | _, _ => none

/-- Write bytes at stack index `i`. -/
def writeStack (s : Nat → Option Byte) (i : Nat) (bs : List Byte) : Nat → Option Byte :=
  fun j => if i ≤ j ∧ j < i + bs.length then bs[j - i]? else s j

inductive Region | stack (i : Nat) | state (i : Nat) | ctx (i : Nat)

/-- Decode an address + access size into a region index. -/
def region (addr : Word) (n : Nat) : Option Region :=
  let a := addr.toNat
  if stackTop - stackSize ≤ a ∧ a + n ≤ stackTop then some (.stack (a - (stackTop - stackSize)))
  else if stateBase ≤ a ∧ a + n ≤ stateBase + stateSize then some (.state (a - stateBase))
  else if ctxBase ≤ a ∧ a + n ≤ ctxBase + 192 then some (.ctx (a - ctxBase))
  else none

/-- Load `n` bytes little-endian. -/
def Mach.load (env : Env) (m : Mach) (addr : Word) (n : Nat) : Option Word :=
  match region addr n with
  | some (.stack i) => (readStack m.stack i n).map (fun bs => BitVec.ofNat 64 (leNat bs))
  | some (.state i) => (getBytes m.st i n).map (fun bs => BitVec.ofNat 64 (leNat bs))
  | some (.ctx i) =>
    if n = 4 ∧ i = 48 then some (env.cb0.setWidth 64)
    else if n = 4 ∧ i = 52 then some (env.cb1.setWidth 64)
    else none
  | none => none

def Mach.store (m : Mach) (addr : Word) (n : Nat) (v : Word) : Option Mach :=
  match region addr n with
  | some (.stack i) => some { m with stack := writeStack m.stack i (toLE v.toNat n) }
  | some (.state i) => some { m with st := writeAt m.st i (toLE v.toNat n) }
  | _ => none

/-! ### one instruction -/
inductive StepR
  | next (m : Mach)
  | next2 (m : Mach)                     -- LoadImm64: skip the second slot
  | taken (m : Mach)                     -- a jump whose condition holds
  | exit (r0 : Word) (m : Mach)
  | tail (fd : Int) (idx : Word) (m : Mach)
  | fault

def sext32 (imm : Int) : Word := BitVec.ofInt 64 imm
def imm32 (imm : Int) : BitVec 32 := BitVec.ofInt 32 imm

/-- ALU operation `code` (high nibble of the opcode) on width `w`. -/
def alu {w : Nat} (code : Nat) (d s : BitVec w) : Option (BitVec w) :=
  match code with
  | 0x0 => some (d + s)
  | 0x4 => some (d ||| s)
  | 0x5 => some (d &&& s)
  | 0x6 => some (d <<< (s.toNat % w))
  | 0xb => some s
  | _ => none

/-- Jump condition `code` on width `w` (unsigned comparisons only). -/
def cond {w : Nat} (code : Nat) (d s : BitVec w) : Option Bool :=
  match code with
  | 0x1 => some (d == s)
  | 0x2 => some (s.ult d)
  | 0x3 => some (s.ule d)
  | 0x5 => some (d != s)
  | 0xa => some (d.ult s)
  | 0xb => some (d.ule s)
  | _ => none

def mapHandle (fd : Int) : Word := BitVec.ofNat 64 mapHandleBase + BitVec.ofInt 64 fd

/-- Decode the IP-set LPM key at stack index `i`. -/
def ipsetLookup (env : Env) (m : Mach) (i : Nat) : Option Bool :=
  let n := if env.c.v6 then 32 else 20
  match readStack m.stack i n with
  | none => none
  | some k =>
    let pfx := leNat (k.take 4)
    let id := (rev64bv (BitVec.ofNat 64 (leNat ((k.drop 4).take 8)))).toNat
    let nw := if env.c.v6 then 4 else 1
    let addr := (List.range nw).map (fun j => BitVec.ofNat 32 (leNat ((k.drop (12 + 4 * j)).take 4)))
    let rest := k.drop (12 + 4 * nw)
    let port := BitVec.ofNat 16 (leNat (rest.take 2))
    let proto := (rest.drop 2).headD 0
    let pad := (rest.drop 3).headD 0
    if pfx = (if env.c.v6 then 224 else 128) ∧ pad = 0 then some (env.member id addr port proto) else none

def helperCall (env : Env) (m : Mach) (h : Int) : StepR :=
  if h = helperMapLookupElem then
    match m.reg 1, m.reg 2 with
    | some r1, some r2 =>
      if r1 = mapHandle env.c.stateMapFD then
        match m.load env r2 4 with
        | some k =>
          .next ((m.clobber).setReg 0
            (if k = 0 ∧ env.stateOK then BitVec.ofNat 64 stateBase else 0))
        | none => .fault
      else if r1 = mapHandle env.c.ipSetMapFD then
        match region r2 (if env.c.v6 then 32 else 20) with
        | some (.stack i) =>
          match ipsetLookup env m i with
          | some b => .next ((m.clobber).setReg 0 (if b then BitVec.ofNat 64 ipsetValPtr else 0))
          | none => .fault
        | _ => .fault
      else .fault
    | _, _ => .fault
  else if h = helperTailCall then
    match m.reg 1, m.reg 2, m.reg 3 with
    | some r1, some r2, some r3 =>
      if r1 ≠ BitVec.ofNat 64 ctxBase then .fault
      else if r2 = mapHandle env.c.staticJumpMapFD then
        if env.tailOK then .tail env.c.staticJumpMapFD ((r3.setWidth 32).setWidth 64) m
        else .next ((m.clobber).setReg 0 (BitVec.ofInt 64 (-2)))
      else if r2 = mapHandle env.c.policyJumpMapFD then
        if env.polTailOK then .tail env.c.policyJumpMapFD ((r3.setWidth 32).setWidth 64) m
        else .next ((m.clobber).setReg 0 (BitVec.ofInt 64 (-2)))
      else .fault
    | _, _, _ => .fault
  else .fault

/-- Execute one instruction (`nxt` = the following slot, needed by LoadImm64). -/
def step (env : Env) (i : Insn) (nxt : Option Insn) (m : Mach) : StepR :=
  let cls := i.op % 8
  let code := i.op / 16
  let srcReg := i.op / 8 % 2 == 1
  if i.op = opLoadImm64 then
    match nxt with
    | some n2 =>
      if n2.op = opLoadImm64Pt2 ∧ i.dst < 10 then
        if i.src = 1 then .next2 (m.setReg i.dst (mapHandle i.imm))
        else if i.src = 0 then
          .next2 (m.setReg i.dst ((imm32 n2.imm ++ imm32 i.imm : BitVec 64)))
        else .fault
      else .fault
    | none => .fault
  else if cls = 7 ∨ cls = 4 then
    -- ALU64 / ALU32
    if i.dst ≥ 10 then .fault else
    match m.reg i.dst, (if srcReg then m.reg i.src else some (sext32 i.imm)) with
    | d?, some s =>
      -- mov does not read dst
      let d? := if code = 0xb then some (d?.getD 0) else d?
      match d? with
      | some d =>
        if cls = 7 then
          match alu code d s with
          | some v => .next (m.setReg i.dst v)
          | none => .fault
        else
          match alu code (d.setWidth 32) (s.setWidth 32) with
          | some v => .next (m.setReg i.dst (v.setWidth 64))
          | none => .fault
      | none => .fault
    | _, none => .fault
  else if cls = 5 ∨ cls = 6 then
    if i.op = opJumpA then .taken m
    else if i.op = opExit then
      match m.reg 0 with
      | some r0 => .exit r0 m
      | none => .fault
    else if i.op = opCall then helperCall env m i.imm
    else
      match m.reg i.dst, (if srcReg then m.reg i.src else some (sext32 i.imm)) with
      | some d, some s =>
        let c := if cls = 5 then cond code d s else cond code (d.setWidth 32) (s.setWidth 32)
        match c with
        | some true => .taken m
        | some false => .next m
        | none => .fault
      | _, _ => .fault
  else if cls = 1 then
    -- LDX
    let n := if i.op = opLoadReg8 then 1 else if i.op = opLoadReg16 then 2
      else if i.op = opLoadReg32 then 4 else if i.op = opLoadReg64 then 8 else 0
    if n = 0 ∨ i.dst ≥ 10 then .fault else
    match m.reg i.src with
    | some p =>
      match m.load env (p + BitVec.ofInt 64 i.off) n with
      | some v => .next (m.setReg i.dst v)
      | none => .fault
    | none => .fault
  else if cls = 3 then
    -- STX
    let n := if i.op = opStoreReg8 then 1 else if i.op = opStoreReg16 then 2
      else if i.op = opStoreReg32 then 4 else if i.op = opStoreReg64 then 8 else 0
    if n = 0 then .fault else
    match m.reg i.dst, m.reg i.src with
    | some p, some v =>
      match m.store (p + BitVec.ofInt 64 i.off) n v with
      | some m' => .next m'
      | none => .fault
    | _, _ => .fault
  else .fault

inductive Outcome
  | exit (r0 : Word) (m : Mach)
  | tail (fd : Int) (idx : Word) (m : Mach)
  | fault

/-- Run an assembled program from its first instruction.  Jumps are relative
to the next instruction and must be forward. -/
def execL (env : Env) : List Insn → Mach → Outcome
  | [], _ => .fault
  | i :: rest, m =>
    match step env i rest.head? m with
    | .next m' => execL env rest m'
    | .next2 m' => execL env (rest.drop 1) m'
    | .taken m' => if i.off < 0 then .fault else execL env (rest.drop i.off.toNat) m'
    | .exit r0 m' => .exit r0 m'
    | .tail fd idx m' => .tail fd idx m'
    | .fault => .fault
termination_by l => l.length
decreasing_by all_goals simp_wf <;> (try simp only [List.length_drop]) <;> omega

/-- Which program a policy-jump-map slot holds: slot `policyMapIndex + k*stride` ↦ `k`. -/
def slotToProg (c : Cfg) (idx : Word) : Option Nat :=
  let d : Int := (idx.toNat : Int) - c.policyMapIndex
  if c.policyMapStride > 0 ∧ d ≥ 0 ∧ d % c.policyMapStride = 0 then some (d / c.policyMapStride).toNat
  else none

/-- Run the chain of programs produced by a split build: a successful tail
call through the policy jump map to slot `policyMapIndex + k*stride` continues
in program `k` (which must be a LATER program) with fresh registers and stack
and the same state. -/
def runChain (env : Env) (progs : List (List Insn)) (k : Nat) (st : List Byte) : Outcome :=
  match progs[k]? with
  | none => .fault
  | some p =>
    match execL env p (Mach.init st) with
    | .tail fd idx m =>
      if fd = env.c.policyJumpMapFD ∧ fd ≠ env.c.staticJumpMapFD then
        match slotToProg env.c idx with
        | some k' => if _h : k < k' ∧ k' < progs.length then runChain env progs k' m.st else .fault
        | none => .fault
      else .tail fd idx m
    | o => o
termination_by progs.length - k
decreasing_by omega

end CalicoVerif.C11
