import CalicoVerif.Model.Netfilter
/-!
Model/Policy — `proto.Rule` (the fields read by the iptables/nftables renderers) and the
*reference semantics* "does this policy rule match this packet" (`ruleMatches`), plus rule
actions.  Single reference oracle for C08–C12, C29, C30, C40 (owner: C08/a10).  Core Lean only.

The packet type and the lookup environment are shared with `Model/Netfilter` (`Packet`, `Env`):
IP sets are looked up by *dataplane set name*; `setName` maps an IP set ID to that name
(`ipsets.IPVersionConfig.NameForMainIPSet`).
-/
namespace CalicoVerif.Policy
open CalicoVerif.Netfilter

/-- `proto.Rule.icmp` / `proto.Rule.not_icmp` one-ofs. -/
inductive IcmpMatch where
  | none
  | type (t : Nat)
  | typeCode (t c : Nat)
  deriving DecidableEq, Repr, Inhabited

/-- `proto.Rule`, restricted to the fields the kernel-dataplane renderers read.
(HTTP / service-account matches are L7 and never rendered; `Original*` fields are informational.) -/
structure Rule where
  action : String := ""
  /-- 0 = any, 4, 6 -/
  ipVersion : Nat := 0
  protocol : Option Proto := none
  srcNet : List String := []
  srcPorts : List PortRange := []
  srcNamedPortIpSetIds : List String := []
  dstNet : List String := []
  dstPorts : List PortRange := []
  dstNamedPortIpSetIds : List String := []
  icmp : IcmpMatch := .none
  srcIpSetIds : List String := []
  dstIpSetIds : List String := []
  dstIpPortSetIds : List String := []
  notProtocol : Option Proto := none
  notSrcNet : List String := []
  notSrcPorts : List PortRange := []
  notDstNet : List String := []
  notDstPorts : List PortRange := []
  notIcmp : IcmpMatch := .none
  notSrcIpSetIds : List String := []
  notDstIpSetIds : List String := []
  notSrcNamedPortIpSetIds : List String := []
  notDstNamedPortIpSetIds : List String := []
  deriving DecidableEq, Repr, Inhabited

/-- `strings.Contains(net, ":")` — how Felix tells an IPv6 CIDR from an IPv4 one. -/
def cidrIsV6 (c : String) : Bool := c.toList.contains ':'

/-- A CIDR contains an address of the packet's family only if it is of that family. -/
def netHas (env : Env) (v6 : Bool) (c : String) (a : Nat) : Bool :=
  cidrIsV6 c == v6 && env.netContains c a

def isIcmpPkt (pkt : Packet) : Bool := pkt.proto == (if pkt.v6 then 58 else 1)

/-- positive port criterion: numeric ranges OR named-port (ip,proto,port) sets -/
def portsMatch (env : Env) (setName : String → String) (ranges : List PortRange) (named : List String)
    (proto addr port : Nat) : Bool :=
  (ranges.isEmpty && named.isEmpty) ||
  (isPortProto proto && inRanges ranges port) ||
  named.any (fun id => env.inIPPortSet (setName id) addr proto port)

def icmpMatches (pkt : Packet) : IcmpMatch → Bool
  | .none => true
  | .type t => isIcmpPkt pkt && pkt.icmpType == t % 256
  | .typeCode t c => isIcmpPkt pkt && (pkt.icmpType == t % 256 && pkt.icmpCode == c % 256)

def notIcmpMatches (pkt : Packet) : IcmpMatch → Bool
  | .none => true
  | .type t => isIcmpPkt pkt && !(pkt.icmpType == t % 256)
  | .typeCode t c => isIcmpPkt pkt && !(pkt.icmpType == t % 256 && pkt.icmpCode == c % 256)

/-- `uint8(p.Number)` truncation applied by the renderers to numeric protocols. -/
def protoTrunc : Proto → Proto
  | .name s => .name s
  | .num n => .num (n % 256)

/-- A CIDR list "speaks about" the packet's IP family if it is empty or holds a CIDR of that
family.  Felix's documented reading of a rule without explicit `ipVersion`
(`FilterRuleToIPVersion`): a rule all of whose CIDRs in some field are of the other family is a
rule for that other family — this also applies to the negated fields. -/
def familyOK (v6 : Bool) (nets : List String) : Bool :=
  nets.isEmpty || nets.any (fun c => cidrIsV6 c == v6)

/-- positive CIDR list: some CIDR of the packet's family contains the address (or no list) -/
def posNetOK (env : Env) (v6 : Bool) (nets : List String) (a : Nat) : Bool :=
  familyOK v6 nets && (nets.isEmpty || nets.any (fun c => netHas env v6 c a))

/-- negated CIDR list: no CIDR of the packet's family contains the address -/
def negNetOK (env : Env) (v6 : Bool) (nets : List String) (a : Nat) : Bool :=
  familyOK v6 nets && !nets.any (fun c => netHas env v6 c a)

/-- CIDR criteria (with the family reading above). -/
def netsMatch (env : Env) (r : Rule) (pkt : Packet) : Bool :=
  posNetOK env pkt.v6 r.srcNet pkt.src && negNetOK env pkt.v6 r.notSrcNet pkt.src &&
  posNetOK env pkt.v6 r.dstNet pkt.dst && negNetOK env pkt.v6 r.notDstNet pkt.dst

def protoOK (env : Env) (r : Rule) (pkt : Packet) : Bool :=
  match r.protocol with | none => true | some p => protoIs env (protoTrunc p) pkt.proto

/-- IP sets, (ip,port) sets, ICMP, negated protocol / ports / named ports / ICMP -/
def otherMatch (env : Env) (setName : String → String) (r : Rule) (pkt : Packet) : Bool :=
  r.srcIpSetIds.all (fun id => env.inIPSet (setName id) pkt.src) &&
  r.dstIpSetIds.all (fun id => env.inIPSet (setName id) pkt.dst) &&
  r.dstIpPortSetIds.all (fun id => env.inIPPortSet (setName id) pkt.dst pkt.proto pkt.dport) &&
  icmpMatches pkt r.icmp &&
  (match r.notProtocol with | none => true | some p => !protoIs env (protoTrunc p) pkt.proto) &&
  r.notSrcIpSetIds.all (fun id => !env.inIPSet (setName id) pkt.src) &&
  (r.notSrcPorts.isEmpty || (isPortProto pkt.proto && !inRanges r.notSrcPorts pkt.sport)) &&
  r.notSrcNamedPortIpSetIds.all (fun id => !env.inIPPortSet (setName id) pkt.src pkt.proto pkt.sport) &&
  r.notDstIpSetIds.all (fun id => !env.inIPSet (setName id) pkt.dst) &&
  (r.notDstPorts.isEmpty || (isPortProto pkt.proto && !inRanges r.notDstPorts pkt.dport)) &&
  r.notDstNamedPortIpSetIds.all (fun id => !env.inIPPortSet (setName id) pkt.dst pkt.proto pkt.dport) &&
  notIcmpMatches pkt r.notIcmp

/-- every criterion other than IP version and CIDRs -/
def restMatch (env : Env) (setName : String → String) (r : Rule) (pkt : Packet) : Bool :=
  protoOK env r pkt &&
  portsMatch env setName r.srcPorts r.srcNamedPortIpSetIds pkt.proto pkt.src pkt.sport &&
  portsMatch env setName r.dstPorts r.dstNamedPortIpSetIds pkt.proto pkt.dst pkt.dport &&
  otherMatch env setName r pkt

/-- **Reference semantics**: does policy rule `r` match packet `pkt`?
Every criterion that is present must hold (positive lists: any element; negated lists: no
element; IP set lists: every set / no set). -/
def ruleMatches (env : Env) (setName : String → String) (r : Rule) (pkt : Packet) : Bool :=
  (r.ipVersion == 0 || r.ipVersion == (if pkt.v6 then 6 else 4)) &&
  netsMatch env r pkt && restMatch env setName r pkt

/-- What a matching rule does. -/
inductive RuleAction where
  | allow | deny | pass | log
  deriving DecidableEq, Repr, Inhabited

/-- `proto.Rule.Action` strings (`none` = the renderer panics: "Unknown rule action"). -/
def parseAction : String → Option RuleAction
  | "" => some .allow
  | "allow" => some .allow
  | "deny" => some .deny
  | "pass" => some .pass
  | "next-tier" => some .pass
  | "log" => some .log
  | _ => none

end CalicoVerif.Policy
