/-!
C42 — executable model of `felix/bpf/proxy/syncer.go` (`Syncer.Apply`) over the
NAT frontend/backend maps, of `felix/cachingmap` (pending updates/deletions)
and of the four-phase write schedule of `Syncer.apply`.

Core Lean only.  Every definition names the Go function it models.

Not modelled (see checks/C42.json): Maglev LUT map, affinity map clean-up,
conntrack "active" maps, IPv6, excluded-CIDR trie, uint32/uint16 truncation
(unbounded `Nat` is used; the generator stays in range), the expand-NodePort
fix-up goroutine (it only re-triggers `Apply`).
-/
namespace CalicoVerif.C42

/-! ## Association-list finite maps (Go `map`, `cachingmap` desired/dataplane views) -/

abbrev AMap (K V : Type) := List (K × V)

namespace AMap
variable {K V : Type} [DecidableEq K]

def get : AMap K V → K → Option V
  | [], _ => none
  | (k', v) :: m, k => if k' = k then some v else get m k

def del (m : AMap K V) (k : K) : AMap K V := m.filter (fun p => decide (p.1 ≠ k))

def set (m : AMap K V) (k : K) (v : V) : AMap K V := (k, v) :: del m k

def has (m : AMap K V) (k : K) : Bool := (get m k).isSome

end AMap

/-! ## BPF map keys / values (`felix/bpf/nat/maps.go`) -/

/-- `nat.FrontendKey`: addr, port, proto and the LB source-range CIDR (`0/0` = `ZeroCIDR`). -/
structure FKey where
  ip : Nat
  port : Nat
  proto : Nat
  srcIp : Nat
  srcLen : Nat
deriving DecidableEq, Repr, Inhabited

/-- `nat.FrontendValue`: id, count, local count, affinity timeout (s), flags. -/
structure FVal where
  id : Nat
  count : Nat
  lcl : Nat
  aff : Nat
  flags : Nat
deriving DecidableEq, Repr, Inhabited

/-- `nat.BackendKey` = (service id, ordinal). -/
structure BKey where
  id : Nat
  idx : Nat
deriving DecidableEq, Repr, Inhabited

/-- `nat.BackendValue` = (addr, port). -/
structure BVal where
  ip : Nat
  port : Nat
deriving DecidableEq, Repr, Inhabited

/-- `nat.BlackHoleCount`. -/
def blackHole : Nat := 0xffffffff

def flgExternalLocal : Nat := 1
def flgInternalLocal : Nat := 2
def flgExclude : Nat := 4

/-- The two kernel maps (equally: the CachingMaps' dataplane caches, or their desired views). -/
structure DP where
  F : AMap FKey FVal
  B : AMap BKey BVal
deriving Repr, Inhabited

/-! ## Kubernetes-side inputs -/

/-- `k8sp.Endpoint` (`endpointInfo`). -/
structure Ep where
  ip : Nat
  port : Nat
  isLocal : Bool
  ready : Bool
  serving : Bool
  terminating : Bool
  zoneHints : List String
  nodeHints : List String
deriving DecidableEq, Repr, Inhabited

/-- `proxy.Service` = `k8sp.ServicePort` + annotations (`serviceInfo`, `servicePortAnnotations`). -/
structure Svc where
  clusterIP : Nat
  port : Nat
  proto : Nat
  nodePort : Nat
  extIPs : List Nat
  lbVIPs : List Nat
  /-- LoadBalancerSourceRanges: (addr, prefix length, isV6). -/
  srcRanges : List (Nat × Nat × Bool)
  /-- `some secs` = SessionAffinity ClientIP with StickyMaxAgeSeconds. -/
  affinity : Option Nat
  extLocal : Bool
  intLocal : Bool
  hcNodePort : Nat
  exclude : Bool
  reapUDP : Bool
  topoMode : String
deriving DecidableEq, Repr, Inhabited

/-- `svcKey.extra` (`getSvcKeyExtra`). -/
inductive Extra where
  | prim
  | extIP (ip : Nat)
  | nodePort (ip : Nat)
  | npRemote (ip : Nat)
  | lb (ip : Nat)
deriving DecidableEq, Repr, Inhabited

structure SvcKey where
  sname : String
  extra : Extra
deriving DecidableEq, Repr, Inhabited

/-- `svcInfo`. -/
structure SvcInfo where
  id : Nat
  count : Nat
  lcl : Nat
  svc : Svc
deriving Repr, Inhabited

/-- A route as seen through `Routes.Lookup`: workload / local flags and next hop. -/
structure Route where
  workload : Bool
  isLocal : Bool
  nextHop : Nat
deriving DecidableEq, Repr, Inhabited

/-- `DPSyncerState`.  `svcs` is the `SvcMap` in the order the Go `range` visits it. -/
structure KState where
  svcs : List (String × Svc)
  eps : AMap String (List Ep)
  host : String
  zone : String
deriving Repr, Inhabited

/-- `Syncer` (the fields that influence the frontend/backend maps) + the kernel maps. -/
structure Syncer where
  npIPs : List Nat
  routes : AMap Nat Route
  prevSvc : AMap SvcKey SvcInfo
  prevEps : AMap String (List Ep)
  newSvc : AMap SvcKey SvcInfo
  newEps : AMap String (List Ep)
  nextId : Nat
  synced : Bool
  dp : DP
deriving Repr, Inhabited

/-- `NewSyncer` over the given (possibly pre-populated) kernel maps. -/
def Syncer.new (npIPs : List Nat) (routes : AMap Nat Route) (dp : DP) : Syncer :=
  { npIPs, routes, prevSvc := [], prevEps := [], newSvc := [], newEps := [],
    nextId := 0, synced := false, dp }

/-! ## Endpoint filtering (`topology.go`) -/

/-- loop of `FilterEpsByTopologyAwareRouting`; `none` = an endpoint without zone hint was met. -/
def topoLoop (zone : String) : List Ep → List Ep → Option (List Ep)
  | [], acc => some acc.reverse
  | ep :: rest, acc =>
    if !ep.ready && !ep.terminating then topoLoop zone rest acc
    else if ep.zoneHints.isEmpty then none
    else if ep.zoneHints.contains zone then topoLoop zone rest (ep :: acc)
    else topoLoop zone rest acc

/-- `FilterEpsByTopologyAwareRouting`. -/
def filterTopo (eps : List Ep) (mode zone : String) : List Ep × Bool :=
  if mode.toLower != "auto" then (eps, false)
  else match topoLoop zone eps [] with
    | none => (eps, true)
    | some [] => (eps, true)
    | some r => (r, true)

/-- `filterEndpointsByHints`. -/
def filterHints (eps : List Ep) (target : String) (hints : Ep → List String) : List Ep :=
  eps.filter (fun ep => (ep.ready || ep.terminating) && (hints ep).contains target)

/-- `FilterEpsByTrafficDistribution`. -/
def filterTD (eps : List Ep) (node zone : String) : List Ep :=
  let a := filterHints eps node (·.nodeHints)
  if !a.isEmpty then a
  else
    let b := filterHints eps zone (·.zoneHints)
    if !b.isEmpty then b else eps

/-- `isKubernetesAPIServerService` on the printed `ServicePortName` ("ns/name[:port]"). -/
def isApiServer (sname : String) : Bool :=
  sname == "default/kubernetes" || sname.startsWith "default/kubernetes:"

/-- `apiServerFallbackEps`. -/
def apiFallback (prevEps : AMap String (List Ep)) (sname : String) : List Ep :=
  let prev := (prevEps.get sname).getD []
  let src := prev.filter (·.ready)
  let src := if src.isEmpty then prev else src
  src.map (fun ep => { ip := ep.ip, port := ep.port, isLocal := false, ready := true, serving := true,
                       terminating := false, zoneHints := [], nodeHints := [] })

/-! ## Building the desired maps (`apply` loop, `applySvc`, `updateService`, `applyDerived`, …) -/

/-- Mutable state of one `apply()` while the desired maps are rebuilt from scratch. -/
structure Bld where
  des : DP
  newSvc : AMap SvcKey SvcInfo
  newEps : AMap String (List Ep)
  nextId : Nat
  /-- the IDs handed out by `newSvcID` during this apply, latest first. -/
  fresh : List Nat
  /-- ghost: every `updateService` call of this apply (service key, ID, endpoints), latest first. -/
  calls : List (SvcKey × Nat × List Ep)
  /-- ghost: every `bpfSvcs.Desired().Set(key, val)` of this apply, latest first. -/
  fwrites : List (FKey × FVal)
deriving Repr, Inhabited

def affOf (svc : Svc) : Nat := svc.affinity.getD 0

def zeroKey (svc : Svc) : FKey :=
  { ip := svc.clusterIP, port := svc.port, proto := svc.proto, srcIp := 0, srcLen := 0 }

/-- `writeSvc`: one frontend entry for `svc.ClusterIP():svc.Port()` with a zero source CIDR. -/
def writeSvc (b : Bld) (svc : Svc) (id count loc flags : Nat) : Bld :=
  let flags := if svc.exclude then flags ||| flgExclude else flags
  let v : FVal := { id, count, lcl := loc, aff := affOf svc, flags }
  { b with des := { b.des with F := b.des.F.set (zeroKey svc) v }, fwrites := (zeroKey svc, v) :: b.fwrites }

/-- the keys of `getSvcNATKeyLBSrcRange` (family 4: IPv6 ranges are skipped). -/
def srcKeys (svc : Svc) : List FKey :=
  (svc.srcRanges.filter (fun r => !r.2.2)).map (fun r =>
    { ip := svc.clusterIP, port := svc.port, proto := svc.proto, srcIp := r.1, srcLen := r.2.1 })

/-- `writeLBSrcRangeSvcNATKeys` (only called with a non-empty range list). -/
def writeLBSrc (b : Bld) (svc : Svc) (id count loc flags : Nat) : Bld :=
  let val : FVal := { id, count, lcl := loc, aff := affOf svc, flags }
  let F1 := (srcKeys svc).foldl (fun F k => F.set k val) b.des.F
  let b1 : Bld := { b with des := { b.des with F := F1 },
                           fwrites := ((srcKeys svc).map (fun k => (k, val))).reverse ++ b.fwrites }
  let bh : FVal := { id, count := blackHole, lcl := 0, aff := 0, flags := 0 }
  if F1.has (zeroKey svc) then b1
  else { b1 with des := { b1.des with F := F1.set (zeroKey svc) bh }, fwrites := (zeroKey svc, bh) :: b1.fwrites }

/-- the backend writes of `updateService` (`writeSvcBackend` for ordinals `start, start+1, …`). -/
def writeBackends (B : AMap BKey BVal) (id : Nat) : Nat → List Ep → AMap BKey BVal
  | _, [] => B
  | i, ep :: rest => writeBackends (B.set ⟨id, i⟩ ⟨ep.ip, ep.port⟩) id (i + 1) rest

/-- the ready endpoints in the order `updateService` numbers them: local first, then remote. -/
def readyOrdered (eps : List Ep) : List Ep :=
  eps.filter (fun e => e.isLocal && e.ready) ++ eps.filter (fun e => !e.isLocal && e.ready)

def localReady (eps : List Ep) : Nat := (eps.filter (fun e => e.isLocal && e.ready)).length

/-- `updateService` (without Maglev / sticky bookkeeping). -/
def updateService (b : Bld) (skey : SvcKey) (svc : Svc) (id : Nat) (eps : List Ep) : Bld × Nat × Nat :=
  let ro := readyOrdered eps
  let cnt := ro.length
  let loc := localReady eps
  let b1 : Bld := { b with des := { b.des with B := writeBackends b.des.B id 0 ro },
                           calls := (skey, id, eps) :: b.calls }
  let flags := if svc.intLocal then flgInternalLocal else 0
  let b2 := writeSvc b1 svc id cnt loc flags
  let cp := eps.filter (·.isLocal) ++ eps.filter (fun e => !e.isLocal)
  let b3 := match skey.extra with
    | .npRemote _ => b2
    | _ => { b2 with newEps := b2.newEps.set skey.sname cp }
  (b3, cnt, loc)

/-- `cidrEqual` on already-canonical elements. -/
def cidrEqual {α : Type} [DecidableEq α] (a b : List α) : Bool :=
  if a.length != b.length then false
  else match a, b with
    | [x], [y] => decide (x = y)
    | _, _ => b.all (fun y => a.contains y)

/-- `ServicePortEqual` (the three derived predicates at its end are functions of the compared
fields and are omitted). -/
def svcEqual (a b : Svc) : Bool :=
  a.clusterIP == b.clusterIP && a.port == b.port && a.affinity.isSome == b.affinity.isSome &&
  affOf a == affOf b && cidrEqual a.extIPs b.extIPs && cidrEqual a.lbVIPs b.lbVIPs &&
  a.proto == b.proto && cidrEqual a.srcRanges b.srcRanges && a.hcNodePort == b.hcNodePort &&
  a.nodePort == b.nodePort && a.extLocal == b.extLocal && a.intLocal == b.intLocal

/-- the ID `applySvc` keeps: the previous one iff `ServicePortEqual(old.svc, sinfo)`. -/
def keepId (prevSvc : AMap SvcKey SvcInfo) (skey : SvcKey) (svc : Svc) : Option Nat :=
  match prevSvc.get skey with
  | some old => if svcEqual old.svc svc then some old.id else none
  | none => none

/-- `applySvc` once the ID is chosen: `updateService`, then record the `svcInfo`. -/
def applySvcWith (b : Bld) (skey : SvcKey) (svc : Svc) (id : Nat) (eps : List Ep) : Bld :=
  let r := updateService b skey svc id eps
  { r.1 with newSvc := r.1.newSvc.set skey { id, count := r.2.1, lcl := r.2.2, svc } }

/-- `applySvc`: keep the previous ID iff the service port is unchanged, else `newSvcID`.

The Go loop ranges over `state.SvcMap` (and over the per-node map of `expandNodePorts`) in an
arbitrary order, so *which* fresh ID a new service key receives is arbitrary.  `hint` resolves
that choice (the harness reads it off the real run); without a hint entry the next ID is used.
`Syncer.apply` checks that the hinted IDs are exactly the block `nextSvcID` would hand out. -/
def applySvc (prevSvc : AMap SvcKey SvcInfo) (hint : AMap SvcKey Nat) (b : Bld) (skey : SvcKey) (svc : Svc)
    (eps : List Ep) : Bld :=
  match keepId prevSvc skey svc with
  | some id => applySvcWith b skey svc id eps
  | none =>
    let id := (hint.get skey).getD b.nextId
    applySvcWith { b with nextId := b.nextId + 1, fresh := id :: b.fresh } skey svc id eps

inductive DType where | ext | np | lb
deriving DecidableEq, Repr

def DType.extra : DType → Nat → Extra
  | .ext, ip => .extIP ip
  | .np, ip => .nodePort ip
  | .lb, ip => .lb ip

/-- the flags `applyDerived` puts on a derived frontend. -/
def derivedFlags (t : DType) (sinfo : Svc) : Nat :=
  match t with
  | .ext => 0
  | _ => (if sinfo.extLocal then flgExternalLocal else 0) ||| (if sinfo.intLocal then flgInternalLocal else 0)

/-- `applyDerived` for ExternalIP / NodePort / LoadBalancer frontends (`sinfo` has the derived
address and port already substituted). -/
def applyDerived (b : Bld) (sname : String) (t : DType) (sinfo : Svc) : Bld :=
  match b.newSvc.get ⟨sname, .prim⟩ with
  | none => b
  | some p =>
    let flags := derivedFlags t sinfo
    let b1 := if (t = .lb || t = .ext) && !sinfo.srcRanges.isEmpty
      then writeLBSrc b sinfo p.id p.count p.lcl flags
      else writeSvc b sinfo p.id p.count p.lcl flags
    let info : SvcInfo := { id := p.id, count := p.count, lcl := p.lcl, svc := sinfo }
    { b1 with newSvc := b1.newSvc.set ⟨sname, t.extra sinfo.clusterIP⟩ info }

/-- `expandNodePorts`: remote-workload endpoints grouped by next hop, groups in order of first
appearance (the Go code ranges over a map: any order; IDs are compared up to renaming). -/
def groupAdd (g : List (Nat × List Ep)) (node : Nat) (ep : Ep) : List (Nat × List Ep) :=
  match g with
  | [] => [(node, [ep])]
  | (n, l) :: rest => if n = node then (n, l ++ [ep]) :: rest else (n, l) :: groupAdd rest node ep

def expandNodePorts (routes : AMap Nat Route) (eps : List Ep) : List (Nat × List Ep) :=
  eps.foldl (fun g ep => match routes.get ep.ip with
    | none => g
    | some rt => if rt.workload && !rt.isLocal then groupAdd g rt.nextHop ep else g) []

def podNPIP : Nat := 0xffffffff

/-- the endpoints `apply` hands to `applySvc` for a service: topology-aware routing, else traffic
distribution, and the API-server last-known-good fallback. -/
def epsFor (s : Syncer) (st : KState) (sname : String) (svc : Svc) : List Ep :=
  let all := (st.eps.get sname).getD []
  let r := filterTopo all svc.topoMode st.zone
  let eps := if r.2 then r.1 else filterTD all st.host st.zone
  if isApiServer sname && (eps.filter (·.ready)).isEmpty then
    let fb := apiFallback s.prevEps sname
    if !fb.isEmpty then fb else eps
  else eps

/-- the derived frontends of one service: LoadBalancer VIPs, external IPs, node ports and the
per-node NodePortRemote expansion (loop body of `apply` after the primary `applySvc`). -/
def applyRest (s : Syncer) (hint : AMap SvcKey Nat) (b : Bld) (sname : String) (svc : Svc) (eps : List Ep) : Bld :=
  let b := svc.lbVIPs.foldl (fun b ip => applyDerived b sname .lb { svc with clusterIP := ip }) b
  let b := svc.extIPs.foldl (fun b ip => applyDerived b sname .ext { svc with clusterIP := ip }) b
  if svc.nodePort != 0 then
    let b := s.npIPs.foldl (fun b ip =>
      if svc.intLocal && ip == podNPIP then b
      else applyDerived b sname .np { svc with clusterIP := ip, port := svc.nodePort }) b
    if svc.intLocal then
      (expandNodePorts s.routes eps).foldl (fun b g =>
        applySvc s.prevSvc hint b ⟨sname, .npRemote g.1⟩ { svc with clusterIP := g.1, port := svc.nodePort } g.2) b
    else b
  else b

/-- body of the `for sname, sinfo := range state.SvcMap` loop of `apply`. -/
def applyService (s : Syncer) (st : KState) (hint : AMap SvcKey Nat) (b : Bld) (sname : String) (svc : Svc) : Bld :=
  applyRest s hint (applySvc s.prevSvc hint b ⟨sname, .prim⟩ svc (epsFor s st sname svc)) sname svc
    (epsFor s st sname svc)

/-- the desired maps and bookkeeping computed by `apply` before anything is written. -/
def buildDesired (s : Syncer) (st : KState) (hint : AMap SvcKey Nat) : Bld :=
  st.svcs.foldl (fun b p => applyService s st hint b p.1 p.2)
    { des := ⟨[], []⟩, newSvc := [], newEps := [], nextId := s.nextId, fresh := [], calls := [], fwrites := [] }

/-- the fresh IDs of an apply are a permutation of the block `[nextId, nextId + n)`. -/
def freshOk (nextId : Nat) (fresh : List Nat) : Bool :=
  fresh.all (fun i => nextId ≤ i && i < nextId + fresh.length) && fresh.Nodup

/-! ## Start-up: adopt IDs found in the maps (`startupBuildPrev`, `matchBpfSvc`) -/

/-- `svcMapToIPPortProtoMap`: which service claims a dataplane key (first claimant in list order;
the generator keeps claims of different services disjoint). -/
def svcRefKeys (npIPs : List Nat) (svc : Svc) : List FKey :=
  let k (ip port : Nat) : FKey := { ip, port, proto := svc.proto, srcIp := 0, srcLen := 0 }
  [k svc.clusterIP svc.port] ++
  (if svc.nodePort != 0 then k svc.clusterIP svc.nodePort :: npIPs.map (fun ip => k ip svc.nodePort) else []) ++
  svc.extIPs.map (fun ip => k ip svc.port)

def svcRef (npIPs : List Nat) (svcs : List (String × Svc)) (key : FKey) : Option (String × Svc) :=
  svcs.find? (fun p => (svcRefKeys npIPs p.2).contains key)

/-- `matchBpfSvc`. -/
def matchBpfSvc (npIPs : List Nat) (key : FKey) (sname : String) (svc : Svc) : Option SvcKey :=
  let matchNP : Option SvcKey :=
    if key.port == svc.nodePort then
      (npIPs.find? (fun nip => key.ip == nip)).map (fun nip => ⟨sname, .nodePort nip⟩)
    else none
  if key.port != svc.port then matchNP
  else
    let zero := key.srcIp == 0 && key.srcLen == 0
    let matchSrc := zero || (!svc.srcRanges.isEmpty &&
      svc.srcRanges.any (fun r => !r.2.2 && r.1 == key.srcIp && r.2.1 == key.srcLen))
    if key.ip == svc.clusterIP && zero then some ⟨sname, .prim⟩
    else match svc.extIPs.find? (fun e => key.ip == e && matchSrc) with
      | some e => some ⟨sname, .extIP e⟩
      | none => match svc.lbVIPs.find? (fun e => key.ip == e && matchSrc) with
        | some e => some ⟨sname, .lb e⟩
        | none => matchNP

/-- first pass of `startupBuildPrev`: the matched frontends. -/
def matchedFrontends (npIPs : List Nat) (svcs : List (String × Svc)) (F : AMap FKey FVal) :
    List (SvcKey × FVal) :=
  F.filterMap (fun kv => match svcRef npIPs svcs kv.1 with
    | none => none
    | some (sname, svc) => (matchBpfSvc npIPs kv.1 sname svc).map (fun sk => (sk, kv.2)))

/-- an ID is a duplicate iff two matched frontends of *different* services carry it. -/
def isDupId (fes : List (SvcKey × FVal)) (id : Nat) : Bool :=
  fes.any (fun a => a.2.id == id && fes.any (fun b => b.2.id == id && a.1.sname != b.1.sname))

/-- inner loop reading the backends of an adopted primary frontend (stops at the first hole). -/
def readBackends (B : AMap BKey BVal) (id : Nat) : Nat → Nat → List Ep
  | 0, _ => []
  | n + 1, i => match B.get ⟨id, i⟩ with
    | none => []
    | some v => { ip := v.ip, port := v.port, isLocal := false, ready := false, serving := false,
                  terminating := false, zoneHints := [], nodeHints := [] } :: readBackends B id n (i + 1)

/-- `startupBuildPrev` (its error return is only logged by `startupSync`). -/
def startupBuildPrev (s : Syncer) (st : KState) : Syncer :=
  let fes := matchedFrontends s.npIPs st.svcs s.dp.F
  let nextId := fes.foldl (fun n fe => if fe.2.id ≥ n then fe.2.id + 1 else n) s.nextId
  let kept := fes.filter (fun fe => !isDupId fes fe.2.id)
  let prevSvc := kept.foldl (fun m fe =>
    match st.svcs.find? (fun p => p.1 == fe.1.sname) with
    | none => m
    | some p => m.set fe.1 { id := fe.2.id, count := fe.2.count, lcl := fe.2.lcl, svc := p.2 }) s.prevSvc
  let prevEps := kept.foldl (fun m fe =>
    match fe.1.extra with
    | .prim =>
      if fe.2.count > 0 then m.set fe.1.sname (readBackends s.dp.B fe.2.id fe.2.count 0) else m
    | _ => m) s.prevEps
  { s with nextId, prevSvc, prevEps }

/-! ## The write schedule (`cachingmap` pending sets + the five `Apply…Only` calls of `apply`) -/

inductive Write where
  | delF (k : FKey)
  | setB (k : BKey) (v : BVal)
  | setF (k : FKey) (v : FVal)
  | delB (k : BKey)
deriving DecidableEq, Repr

/-- effect of one successful map write on the kernel maps. -/
def Write.run (d : DP) : Write → DP
  | .delF k => { d with F := d.F.del k }
  | .setB k v => { d with B := d.B.set k v }
  | .setF k v => { d with F := d.F.set k v }
  | .delB k => { d with B := d.B.del k }

def runWrites (d : DP) (ws : List Write) : DP := ws.foldl Write.run d

/-- `PendingDeletions` of a CachingMap: keys in the dataplane that are not desired. -/
def pendingDels {K V : Type} [DecidableEq K] (dp des : AMap K V) : List K :=
  (dp.filter (fun kv => !des.has kv.1)).map (·.1)

/-- `PendingUpdates` of a CachingMap: desired pairs whose dataplane value is missing or differs.
(`des.get kv.1 == some kv.2` is true for every entry of a map built with `set`; it makes the
definition independent of that representation invariant.) -/
def pendingUpds {K V : Type} [DecidableEq K] [DecidableEq V] (dp des : AMap K V) : List (K × V) :=
  des.filter (fun kv => des.get kv.1 == some kv.2 && dp.get kv.1 != some kv.2)

/-- phase 1 `bpfSvcs.ApplyDeletionsOnly`. -/
def phase1 (d n : DP) : List Write := (pendingDels d.F n.F).map .delF
/-- phase 2 `bpfEps.ApplyUpdatesOnly`. -/
def phase2 (d n : DP) : List Write := (pendingUpds d.B n.B).map (fun kv => .setB kv.1 kv.2)
/-- phase 3 `bpfSvcs.ApplyUpdatesOnly` (after the Maglev map, which is not modelled). -/
def phase3 (d n : DP) : List Write := (pendingUpds d.F n.F).map (fun kv => .setF kv.1 kv.2)
/-- phase 4 `bpfEps.ApplyDeletionsOnly`. -/
def phase4 (d n : DP) : List Write := (pendingDels d.B n.B).map .delB

/-- The writes of one `apply`, phase by phase, when every write of phase `failPhase` (1..4; 0 = none)
fails: a failing phase changes nothing and `apply` returns its error after it, skipping the later
phases.  (A phase with nothing to write cannot fail.) -/
def schedule (d n : DP) (failPhase : Nat) : List (List Write) × Bool :=
  let p1 := phase1 d n
  if failPhase = 1 && !p1.isEmpty then ([], false) else
  let d1 := runWrites d p1
  let p2 := phase2 d1 n
  if failPhase = 2 && !p2.isEmpty then ([p1], false) else
  let d2 := runWrites d1 p2
  let p3 := phase3 d2 n
  if failPhase = 3 && !p3.isEmpty then ([p1, p2], false) else
  let d3 := runWrites d2 p3
  let p4 := phase4 d3 n
  if failPhase = 4 && !p4.isEmpty then ([p1, p2, p3], false) else
  ([p1, p2, p3, p4], true)

structure ApplyResult where
  syncer : Syncer
  /-- `Apply` returned nil. -/
  ok : Bool
  /-- the successful map writes, phase by phase. -/
  phases : List (List Write)
  /-- the ID hint was a legal outcome of `newSvcID` (always true without a hint). -/
  hintOk : Bool
deriving Repr, Inhabited

/-- `Syncer.Apply`. -/
def Syncer.apply (s : Syncer) (st : KState) (hint : AMap SvcKey Nat) (failPhase : Nat) : ApplyResult :=
  let s1 := if s.synced then { s with prevSvc := s.newSvc, prevEps := s.newEps }
            else startupBuildPrev s st
  let b := buildDesired s1 st hint
  let sch := schedule s1.dp b.des failPhase
  let dp := runWrites s1.dp sch.1.flatten
  { syncer := { s1 with newSvc := b.newSvc, newEps := b.newEps, nextId := b.nextId, dp,
                        synced := s1.synced || sch.2 },
    ok := sch.2, phases := sch.1, hintOk := freshOk s1.nextId b.fresh }

/-- the frontend → backends consistency the property is about. -/
def consistentB (d : DP) : Bool :=
  d.F.all (fun kv => kv.2.count == blackHole ||
    (List.range kv.2.count).all (fun i => d.B.has ⟨kv.2.id, i⟩))

end CalicoVerif.C42
