/-
C36 — model of felix/ip/trie.go (CIDRTrie) and of the CIDR arithmetic of
felix/ip/ip_addr.go it relies on.  Core Lean only; self-contained (reused by C39).

A CIDR of address family width `W` (32 for `V4CIDR`, 128 for `V6CIDR`) is a
pair `addr`/`len`: `addr` is the address read as a big-endian `W`-bit number
(`V4Addr.AsUint32`; for V6 the pair `AsUint64Pair` read as hi·2^64+lo), `len`
is `prefix`.  Every constructor of `ip.CIDR` masks the host bits
(`CIDRFromIPNet`, `CIDRFromPrefix`, `AsCIDR`), the fields are unexported, so
only masked values exist; that is the predicate `Pfx.WF`.

Each trie holds ONE address family (all callers keep separate v4/v6 tries; the
Go code panics on mixed versions) — `W` is a parameter of every definition.

Go pointers/mutation: `*CIDRNode` is an inductive tree, `nil` is `Node.nil`,
`data any` (nil = no data) is `Option α`.  `Update` (a loop that rewrites one
parent pointer) is the recursive function that rebuilds the path.
-/
namespace CalicoVerif.C36

/-- `ip.V4CIDR` / `ip.V6CIDR`. -/
structure Pfx where
  addr : Nat
  len : Nat
deriving DecidableEq, Repr, Inhabited

/-- `math/bits.Len`: number of bits needed to represent `x` (0 for 0). -/
def bitLen (x : Nat) : Nat := if x = 0 then 0 else Nat.log2 x + 1

/-- `bits.LeadingZeros32/64` of a `W`-bit value (V6: `LeadingZeros64(hi)`, or
`64 + LeadingZeros64(lo)` when `hi == 0`, which is the same number). -/
def clz (W x : Nat) : Nat := W - bitLen x

/-- `uint(0xff…f) << (W - n)` truncated to `W` bits (a shift by ≥ W gives 0 in Go). -/
def mask (W n : Nat) : Nat := ((2 ^ W - 1) <<< (W - n)) % 2 ^ W

/-- `V4CIDR.ContainsV4` / `V6CIDR.ContainsV6`: only the ADDRESS is compared. -/
def Pfx.contains (W : Nat) (c : Pfx) (a : Nat) : Bool :=
  decide (c.len ≤ clz W (c.addr ^^^ a))

/-- `Addr.NthBit(n)`: n-th bit counted from the most significant one, 1-based.
`n = 0` and `n > W` give 0 in Go (shift count ≥ width). -/
def nthBit (W a n : Nat) : Nat := if n ≤ W then (a >>> (W - n)) % 2 else 0

/-- `V4CommonPrefix` / `V6CommonPrefix`. -/
def commonPrefix (W : Nat) (a b : Pfx) : Pfx :=
  let l := min (clz W (a.addr ^^^ b.addr)) (min b.len a.len)
  { addr := mask W l &&& a.addr, len := l }

/-- Go `uint64(x) << sh` (0 when `sh ≥ 64`). -/
def shl64 (x sh : Nat) : Nat := if sh < 64 then (x <<< sh) % 2 ^ 64 else 0

/-- `V6CommonPrefix` literally, on the two `uint64` halves of each address. -/
def v6CommonPrefix (a b : Pfx) : Pfx :=
  let ah := a.addr / 2 ^ 64
  let al := a.addr % 2 ^ 64
  let bh := b.addr / 2 ^ 64
  let bl := b.addr % 2 ^ 64
  let xh := ah ^^^ bh
  let xl := al ^^^ bl
  let maxLen := min b.len a.len
  if xh = 0 then
    let l := min (64 + clz 64 xl) maxLen
    { addr := 2 ^ 64 * ah + (shl64 (2 ^ 64 - 1) (128 - l) &&& al), len := l }
  else
    let l := min (clz 64 xh) maxLen
    { addr := 2 ^ 64 * (shl64 (2 ^ 64 - 1) (64 - l) &&& ah), len := l }

/-- `V6CIDR.ContainsV6` literally, on the two `uint64` halves. -/
def v6Contains (c : Pfx) (a : Nat) : Bool :=
  let xh := c.addr / 2 ^ 64 ^^^ a / 2 ^ 64
  let xl := c.addr % 2 ^ 64 ^^^ a % 2 ^ 64
  let cpl := if xh = 0 then 64 + clz 64 xl else clz 64 xh
  decide (c.len ≤ cpl)

/-- `V6Addr.NthBit` literally, on the two `uint64` halves (`n > 128` wraps the shift count to ≥ 64, giving 0). -/
def v6NthBit (a n : Nat) : Nat :=
  let h := a / 2 ^ 64
  let l := a % 2 ^ 64
  if n ≤ 64 then (h >>> (64 - n)) % 2 else if n ≤ 128 then (l >>> (128 - n)) % 2 else 0

/-- The masked-CIDR invariant of `ip.CIDR` values. -/
def Pfx.WF (W : Nat) (p : Pfx) : Prop :=
  p.len ≤ W ∧ p.addr < 2 ^ W ∧ p.addr % 2 ^ (W - p.len) = 0

instance (W : Nat) (p : Pfx) : Decidable (p.WF W) := by unfold Pfx.WF; infer_instance

/-- "Plain prefix arithmetic": `p` covers `q` (q ⊆ p as address sets) iff `p` is
not longer and they agree on the first `p.len` bits.  This is the SPEC side;
the trie code never calls it. -/
def Pfx.covers (W : Nat) (p q : Pfx) : Bool :=
  decide (p.len ≤ q.len) && decide (q.addr / 2 ^ (W - p.len) = p.addr / 2 ^ (W - p.len))

/-- Two CIDRs share an address iff one covers the other. -/
def Pfx.overlaps (W : Nat) (p q : Pfx) : Bool := p.covers W q || q.covers W p

/-- `*CIDRNode`. -/
inductive Node (α : Type) where
  | nil : Node α
  | node (cidr : Pfx) (data : Option α) (c0 c1 : Node α) : Node α
deriving Repr, Inhabited

namespace Node
variable {α : Type}

def isNil : Node α → Bool
  | nil => true
  | node .. => false

/-- `CIDRTrie.Update(cidr, value)` (value ≠ nil). -/
def update (W : Nat) : Node α → Pfx → α → Node α
  | nil, p, v => node p (some v) nil nil
  | node c d l r, p, v =>
    if c = p then node c (some v) l r
    else
      let cp := commonPrefix W p c
      if cp.len = c.len then
        -- this node is a parent of the new CIDR
        if nthBit W p.addr (cp.len + 1) = 0 then node c d (update W l p v) r
        else node c d l (update W r p v)
      else if cp.len = p.len then
        -- this node is a child of the new CIDR
        if nthBit W c.addr (cp.len + 1) = 0 then node p (some v) (node c d l r) nil
        else node p (some v) nil (node c d l r)
      else
        -- disjoint: new intermediate node
        if nthBit W c.addr (cp.len + 1) = 0 then node cp none (node c d l r) (node p (some v) nil nil)
        else node cp none (node p (some v) nil nil) (node c d l r)

/-- `deleteInternal(n, cidr)`. -/
def deleteInternal (W : Nat) : Node α → Pfx → Node α
  | nil, _ => nil
  | node c d l r, p =>
    if !c.contains W p.addr then node c d l r
    else if p = c then
      match l, r with
      | nil, _ => r
      | _, nil => l
      | _, _ => node c none l r
    else if nthBit W p.addr (c.len + 1) = 0 then
      match l with
      | nil => node c d l r
      | _ =>
        match deleteInternal W l p with
        | nil => if d.isNone then r else node c d nil r
        | l' => node c d l' r
    else
      match r with
      | nil => node c d l r
      | _ =>
        match deleteInternal W r p with
        | nil => if d.isNone then l else node c d l nil
        | r' => node c d l r'

/-- `CIDRTrie.Delete(cidr)`. -/
def delete (W : Nat) (t : Node α) (p : Pfx) : Node α :=
  match t with
  | nil => nil
  | node c _ _ _ => if commonPrefix W c p ≠ c then t else deleteInternal W t p

/-- `getNode(cidr, includeIntermediates = true)`; `nil` = not found. -/
def getNode (W : Nat) : Node α → Pfx → Node α
  | nil, _ => nil
  | node c d l r, q =>
    if !c.contains W q.addr then nil
    else if q = c then node c d l r
    else if nthBit W q.addr (c.len + 1) = 0 then getNode W l q else getNode W r q

/-- `CIDRTrie.Get`: `getNode(cidr, false)` then `.data`. -/
def get (W : Nat) (t : Node α) (q : Pfx) : Option α :=
  match getNode W t q with
  | nil => none
  | node _ d _ _ => d

/-- `lookupPath(buffer, cidr)`; Go's `nil`, `buffer[:0]` are both the empty list. -/
def lookupPathGo (W : Nat) : Node α → Pfx → List (Pfx × α) → List (Pfx × α)
  | nil, _, _ => []
  | node c d l r, q, buf =>
    if !c.contains W q.addr then []
    else
      let buf' := match d with
        | some v => buf ++ [(c, v)]
        | none => buf
      if q = c then (if d.isNone then [] else buf')
      else if nthBit W q.addr (c.len + 1) = 0 then lookupPathGo W l q buf' else lookupPathGo W r q buf'

def lookupPath (W : Nat) (t : Node α) (q : Pfx) : List (Pfx × α) := lookupPathGo W t q []

/-- The loop of `CIDRTrie.LPM`; `m` is `match`. -/
def lpmGo (W : Nat) : Node α → Pfx → Option (Pfx × α) → Option (Pfx × α)
  | nil, _, m => m
  | node c d l r, q, m =>
    if !c.contains W q.addr then m
    else
      let m' := match d with
        | some v => some (c, v)
        | none => m
      if q = c then m'
      else if nthBit W q.addr (c.len + 1) = 0 then lpmGo W l q m' else lpmGo W r q m'

/-- `CIDRTrie.LPM(cidr)`; `none` = `(V4CIDR{}, nil)`. -/
def lpm (W : Nat) (t : Node α) (q : Pfx) : Option (Pfx × α) := lpmGo W t q none

/-- `(*CIDRNode).covers`. -/
def covers (W : Nat) : Node α → Pfx → Bool
  | nil, _ => false
  | node c d l r, q =>
    if commonPrefix W c q ≠ c then false
    else if d.isSome then true
    else if nthBit W q.addr (c.len + 1) = 0 then covers W l q else covers W r q

/-- `(*CIDRNode).intersects`. -/
def intersects (W : Nat) : Node α → Pfx → Bool
  | nil, _ => false
  | node c _ l r, q =>
    let common := commonPrefix W c q
    if common = q then true
    else if common ≠ c then false
    else if nthBit W q.addr (c.len + 1) = 0 then intersects W l q else intersects W r q

/-- `CIDRTrie.CoveredBy`; `none` = nil-pointer panic on the empty trie (`t.root.cidr`). -/
def coveredBy (W : Nat) (t : Node α) (q : Pfx) : Option Bool :=
  match t with
  | nil => none
  | node c _ _ _ => some (decide (commonPrefix W c q = q))

/-- `appendTo` / `ToSlice` / `Visit` order: pre-order, nodes with data only. -/
def toList : Node α → List (Pfx × α)
  | nil => []
  | node c d l r =>
    (match d with
      | some v => [(c, v)]
      | none => []) ++ toList l ++ toList r

/-- Contribution of one child in the loop of `ClosestDescendants`: the child
itself if it has data, otherwise (Go: `t.ClosestDescendants(buf, child.cidr)`,
which walks from the root back to that same child — see
`Proofs`: `getNode_subtree`) the contributions of its children. -/
def closestOf : Node α → List Pfx
  | nil => []
  | node c (some _) _ _ => [c]
  | node _ none l r => closestOf l ++ closestOf r

/-- `CIDRTrie.ClosestDescendants(nil, parent)`. -/
def closestDescendants (W : Nat) (t : Node α) (q : Pfx) : List Pfx :=
  match getNode W t q with
  | nil => []
  | node _ _ l r => closestOf l ++ closestOf r

/-- Every node CIDR (intermediate ones included) satisfies `P`. -/
def All (P : Pfx → Prop) : Node α → Prop
  | nil => True
  | node c _ l r => P c ∧ All P l ∧ All P r

/-- Structure dump for the correspondence check (intermediate nodes visible). -/
def dump (showP : Pfx → String) (showV : α → String) : Node α → String
  | nil => "-"
  | node c d l r =>
    "(" ++ showP c ++ "=" ++ (match d with | some v => showV v | none => "*") ++ ","
      ++ dump showP showV l ++ "," ++ dump showP showV r ++ ")"

end Node

/-- `x` lies strictly below `c` on the side selected by bit `c.len+1 = i`. -/
def Under (W : Nat) (c : Pfx) (i : Nat) (x : Pfx) : Prop :=
  c.covers W x = true ∧ c.len < x.len ∧ nthBit W x.addr (c.len + 1) = i

/-- The representation invariant of the trie: CIDRs are masked, children refine
their parent by the next bit, and a node without data has two children. -/
def Node.Inv {α : Type} (W : Nat) : Node α → Prop
  | .nil => True
  | .node c d l r =>
    c.WF W ∧ l.All (fun x => x.WF W ∧ Under W c 0 x) ∧ r.All (fun x => x.WF W ∧ Under W c 1 x) ∧
    Inv W l ∧ Inv W r ∧ (d = none → l.isNil = false ∧ r.isNil = false)

/-! ### Histories -/

inductive Op (α : Type) where
  | upd (p : Pfx) (v : α)
  | del (p : Pfx)
deriving Repr

def Op.WF {α : Type} (W : Nat) : Op α → Prop
  | .upd p _ => p.WF W
  | .del p => p.WF W

instance {α : Type} (W : Nat) (o : Op α) : Decidable (o.WF W) := by
  cases o <;> (unfold Op.WF; infer_instance)

def applyOp {α : Type} (W : Nat) (t : Node α) : Op α → Node α
  | .upd p v => t.update W p v
  | .del p => t.delete W p

/-- The trie after a history of `Update`/`Delete` calls on `NewCIDRTrie()`. -/
def run {α : Type} (W : Nat) (ops : List (Op α)) : Node α := ops.foldl (applyOp W) .nil

/-! ### Specification: a plain association list prefix ↦ value -/

abbrev SMap (α : Type) := List (Pfx × α)

def SMap.erase {α : Type} (m : SMap α) (p : Pfx) : SMap α := m.filter (fun e => e.1 ≠ p)
def SMap.insert {α : Type} (m : SMap α) (p : Pfx) (v : α) : SMap α := (p, v) :: m.erase p
def SMap.find {α : Type} (m : SMap α) (p : Pfx) : Option α := (m.find? (fun e => e.1 = p)).map (·.2)

def specApply {α : Type} (m : SMap α) : Op α → SMap α
  | .upd p v => m.insert p v
  | .del p => m.erase p

def specRun {α : Type} (ops : List (Op α)) : SMap α := ops.foldl specApply []

/-- Direct LPM over the stored prefixes: the longest stored prefix covering `q`
(first of the longest in list order; stored keys are distinct). -/
def SMap.lpm {α : Type} (W : Nat) (m : SMap α) (q : Pfx) : Option (Pfx × α) :=
  m.foldl (fun best e =>
    if e.1.covers W q then
      match best with
      | none => some e
      | some b => if b.1.len < e.1.len then some e else some b
    else best) none

def SMap.covers {α : Type} (W : Nat) (m : SMap α) (q : Pfx) : Bool := m.any (fun e => e.1.covers W q)
/-- What `Intersects` computes: some stored prefix lies inside `q`. -/
def SMap.within {α : Type} (W : Nat) (m : SMap α) (q : Pfx) : Bool := m.any (fun e => q.covers W e.1)
def SMap.overlaps {α : Type} (W : Nat) (m : SMap α) (q : Pfx) : Bool := m.any (fun e => e.1.overlaps W q)
def SMap.coveredBy {α : Type} (W : Nat) (m : SMap α) (q : Pfx) : Bool := m.all (fun e => q.covers W e.1)

/-- Closest stored strict descendants of `q`: stored `p ⊂ q` with no stored `r`, `p ⊂ r ⊂ q`. -/
def SMap.closest {α : Type} (W : Nat) (m : SMap α) (q : Pfx) : List Pfx :=
  (m.filter (fun e => q.covers W e.1 && decide (e.1 ≠ q) &&
      !(m.any (fun f => decide (f.1 ≠ q) && decide (f.1 ≠ e.1) && q.covers W f.1 && f.1.covers W e.1)))).map (·.1)

/-- Stored prefixes covering `q` (ancestors-or-self). -/
def SMap.path {α : Type} (W : Nat) (m : SMap α) (q : Pfx) : SMap α := m.filter (fun e => e.1.covers W q)

end CalicoVerif.C36
