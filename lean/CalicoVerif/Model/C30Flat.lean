import CalicoVerif.Model.C30
/-
C30 (part 2) — model of felix/dataplane/windows/flattener.go: flattenTiers, flattenTiersRecurse,
appendCombinedRules, combineRules, combineCIDRs, combinePorts (as repaired by /repo commit dea4f0a;
the pre-fix behaviour - "any port" on disjoint lists, panic at the end of the bitset - is kept as
`combinePortsBeforeFix` for the regression witnesses), rewritePriorities; plus the multi-tier
reference semantics.
`none` models a Go panic.  Core Lean only.
-/
namespace CalicoVerif.C30

/-! ## combinePorts -/

def PortRange.valid (r : PortRange) : Bool := r.first ≤ r.last

/-- Largest port set by parsePorts (0 if none). -/
def maxPort (l : List PortRange) : Nat :=
  l.foldl (fun m r => if r.valid then max m r.last else m) 0

def inPorts (l : List PortRange) (x : Nat) : Bool := l.any (fun r => r.contains x)

/-- Maximal runs of an ascending list of distinct numbers. -/
def runsGo (first last : Nat) : List Nat → List PortRange
  | [] => [⟨first, last⟩]
  | n :: rest => if n = last + 1 then runsGo first n rest else ⟨first, last⟩ :: runsGo n n rest

def runs : List Nat → List PortRange
  | [] => []
  | n :: rest => runsGo n n rest

/-- combinePorts(as, bs) as repaired (commit dea4f0a): `[]` is the empty string (= any port);
`none` = ErrRuleIsNoOp (no port in common).  The bitset capacity (65537) has no observable effect
any more: bit 65536 is always clear, so `NextClear` is always valid; the intersection is computed
here over `0 .. max port`. -/
def combinePorts (a b : List PortRange) : Option (List PortRange) :=
  if a.isEmpty then some b
  else if b.isEmpty then some a
  else
    let len := max (maxPort a) (maxPort b) + 1
    let s := (List.range len).filter (fun x => inPorts a x && inPorts b x)
    if s.isEmpty then none else some (runs s)

/-- `bitset.New(2 ^ 16 + 1)` before the fix: in Go `^` is XOR with the precedence of `+`: 19. -/
def bitsetInitialLen : Nat := 19

/-- combinePorts BEFORE commit dea4f0a (regression witness only; `none` = panic):
`aBitset.Len() == 0` tested the capacity, so an empty intersection returned "" (any port); and
`NextClear(start+1)` was invalid when the last run reached the capacity `max(19, maxA+1, maxB+1)`. -/
def combinePortsBeforeFix (a b : List PortRange) : Option (List PortRange) :=
  if a.isEmpty then some b
  else if b.isEmpty then some a
  else
    let len := max bitsetInitialLen (max (maxPort a + 1) (maxPort b + 1))
    let s := (List.range len).filter (fun x => inPorts a x && inPorts b x)
    match s.getLast? with
    | none => some []
    | some top => if top + 1 ≥ len then none else some (runs s)

/-! ## combineCIDRs / combineRules -/

/-- combineCIDRs: `none` = ErrRuleIsNoOp. -/
def combineCIDRs (a b : List Addr) : Option (List Addr) :=
  if a.isEmpty then some b
  else if b.isEmpty then some a
  else
    let i := intersectCIDRs a b
    if i.isEmpty then none else some i

/-- Result of combineRules.  `panic` is kept for the `panic(err)` sites of parsePorts (strconv.Atoi
on a malformed port string), which no generated rule reaches; the model never produces it. -/
inductive Comb (α : Type)
  | panic
  | noOp
  | ok (a : α)
deriving Repr

/-- `combined := *r2` with the combined match fields. -/
def mkComb (r2 : HRule) (pr : Nat) (la ra : List Addr) (lp rp : List PortRange) : HRule :=
  { r2 with proto := pr, lAddrs := la, rAddrs := ra, lPorts := lp, rPorts := rp }

/-- The protocol step of combineRules (256 = any); `none` = the rule would be a no-op. -/
def combineProto (p1 p2 : Nat) : Option Nat :=
  if p1 ≠ 256 then (if p2 = 256 then some p1 else if p1 ≠ p2 then none else some p2)
  else some p2

/-- combineRules(r1, r2): r1 && r2 with the action / id / priority of r2. -/
def combineRules (r1 r2 : HRule) : Comb HRule :=
  match combineProto r1.proto r2.proto with
  | none => .noOp
  | some pr =>
    match combineCIDRs r1.lAddrs r2.lAddrs with
    | none => .noOp
    | some la =>
      match combineCIDRs r1.rAddrs r2.rAddrs with
      | none => .noOp
      | some ra =>
        match combinePorts r1.lPorts r2.lPorts with
        | none => .noOp
        | some lp =>
          match combinePorts r1.rPorts r2.rPorts with
          | none => .noOp
          | some rp => .ok (mkComb r2 pr la ra lp rp)

/-- appendCombinedRules: `none` = panic. -/
def combineWithTier (rule : HRule) : List HRule → Option (List HRule)
  | [] => some []
  | r :: rest =>
    match combineRules rule r with
    | .panic => none
    | .noOp => combineWithTier rule rest
    | .ok c => (combineWithTier rule rest).map (c :: ·)

/-- The loop over the old first tier building the new first tier. -/
def buildFirst (second : List HRule) : List HRule → Option (List HRule)
  | [] => some []
  | r :: rest =>
    if r.action = .pass then
      match combineWithTier r second with
      | none => none
      | some cs => (buildFirst second rest).map (cs ++ ·)
    else (buildFirst second rest).map (r :: ·)

/-- flattenTiersRecurse on `first :: rest`. -/
def flattenRec : List HRule → List (List HRule) → Option (List HRule)
  | first, [] => some first
  | first, second :: rest =>
    if first.any (fun r => r.action == .pass) then
      match buildFirst second first with
      | none => none
      | some nf => flattenRec nf rest
    else some first

def passToBlock (r : HRule) : HRule := if r.action = .pass then { r with action := .block } else r

/-- Apply `f` to the last element only. -/
def mapLast {α : Type} (f : α → α) : List α → List α
  | [] => []
  | [x] => [f x]
  | x :: y :: rest => x :: mapLast f (y :: rest)

/-- flattenTiers: pass rules of the LAST tier become block, then the tiers are folded from the
front (Go panics on an empty list of tiers; the harness never passes one). -/
def flattenTiers (tiers : List (List HRule)) : Option (List HRule) :=
  match mapLast (fun t => t.map passToBlock) tiers with
  | [] => none
  | first :: rest => flattenRec first rest

/-- rewritePriorities(policies, limit). -/
def rewritePriorities (l : List HRule) (limit : Nat) : List HRule :=
  if l.length ≤ 1 then l
  else if l.length < limit - policyRuleBasePriority then
    l.zipIdx.map fun (r, i) => { r with prio := policyRuleBasePriority + i }
  else (bump policyRuleBasePriority none l).1

def policyRuleMaxPriority : Nat := 65000

/-! ## Multi-tier reference semantics -/

/-- Tiers in order; `pass` (from a rule or the end-of-tier action) moves on to the next tier and
means `block` in the last one. -/
def multiVerdict (s : IPSets) (inbound : Bool) (p : Pkt) : List (List PolicySet × Bool) → Action
  | [] => .block
  | [(sets, eot)] =>
    match tierVerdict s sets inbound eot p with
    | .pass => .block
    | a => a
  | (sets, eot) :: rest =>
    match tierVerdict s sets inbound eot p with
    | .pass => multiVerdict s inbound p rest
    | a => a

end CalicoVerif.C30
