/-
C43 — model of
  * felix/calc/l3_route_resolver.go  (L3RouteResolver + RouteTrie + nodeRoutes), both IP families
  * felix/dataplane/linux/route_mgr.go (routeManager) with the three tunnel
    functions of vxlan_mgr.go / ipip_mgr.go / noencap_mgr.go.

Conventions
  * an address is a `Nat` (< 2^32 for IPv4, < 2^128 for IPv6); `0` is Go's `emptyV4Addr` /
    `emptyV6Addr` / the empty string; a CIDR carries its family (`v6`), the two tries of the Go
    code (`v4T`, `v6T`) are one association list keyed by family-tagged CIDRs;
  * a node name is a `Nat` (the harness prints it with a fixed width, so that Go's
    string order on names is the order on `Nat`); `RouteUpdate.dstNode = none` is "";
  * Go maps / sets are association lists without duplicate keys; everything that
    leaves the model is sorted by the driver;
  * `ip.CIDRTrie` is an association list CIDR ↦ RouteInfo; `LookupPath c` is the list of
    the trie's entries at `c`'s ancestors (`ancKey c l`, l < len) followed by `c`'s own entry,
    and is empty when `c` itself is not in the trie (felix/ip/trie.go lookupPath).  The radix
    structure of the trie is C36's business, not modelled here.
  * `Spec.Addresses`, AWS subnets, IPv6 workload endpoint addresses are not modelled.
Core Lean only (linked into the driver executable).
-/
namespace CalicoVerif.C43

/-! ## CIDRs -/

structure Cidr where
  addr : Nat
  len : Nat
  v6 : Bool
deriving DecidableEq, Repr, Inhabited

/-- address width of the CIDR's family. -/
def Cidr.width (c : Cidr) : Nat := if c.v6 then 128 else 32

/-- the top `len` bits of a `w`-bit address (as a number). -/
def topBits (w a len : Nat) : Nat := a / 2 ^ (w - len)

/-- `V4CIDR.ContainsV4` / `V6CIDR.ContainsV6`: common prefix of the two addresses is at least `len` bits. -/
def Cidr.containsAddr (c : Cidr) (a : Nat) : Bool := topBits c.width a c.len == topBits c.width c.addr c.len

/-- `c` is a (non-strict) prefix of `d` in the same family: the trie ancestor relation. -/
def Cidr.covers (c d : Cidr) : Bool := c.v6 == d.v6 && c.len ≤ d.len && c.containsAddr d.addr

def Cidr.host (a : Nat) : Cidr := ⟨a, 32, false⟩
def Cidr.host6 (a : Nat) : Cidr := ⟨a, 128, true⟩
/-- the single-address CIDR of a family. -/
def Cidr.hostOf (v6 : Bool) (a : Nat) : Cidr := ⟨a, if v6 then 128 else 32, v6⟩

/-- Go's zero values `V4CIDR{}` / `V6CIDR{}`. -/
def Cidr.zero (v6 : Bool) : Cidr := ⟨0, 0, v6⟩

/-- `emptyV4Addr.AsCIDR()` / `emptyV6Addr.AsCIDR()`: never sent. -/
def zeroHost (c : Cidr) : Bool := c == Cidr.host 0 || c == Cidr.host6 0

/-! ## Association lists -/

def aget {κ α} [BEq κ] (m : List (κ × α)) (k : κ) : Option α := m.lookup k

def aset {κ α} [BEq κ] : List (κ × α) → κ → α → List (κ × α)
  | [], k, v => [(k, v)]
  | (k', v') :: m, k, v => if k' == k then (k, v) :: m else (k', v') :: aset m k v

def adel {κ α} [BEq κ] (m : List (κ × α)) (k : κ) : List (κ × α) := m.filter (fun p => !(p.1 == k))

def sinsert {α} [BEq α] (s : List α) (x : α) : List α := if s.contains x then s else s ++ [x]

/-! ## RouteTrie contents -/

/-- proto.IPPoolType -/
abbrev ptNone : Nat := 0
abbrev ptNoEncap : Nat := 1
abbrev ptVXLAN : Nat := 2
abbrev ptIPIP : Nat := 3

/-- proto.RouteType bits -/
abbrev tRemoteWorkload : Nat := 1
abbrev tRemoteHost : Nat := 2
abbrev tLocalWorkload : Nat := 4
abbrev tLocalHost : Nat := 8
abbrev tRemoteTunnel : Nat := 16
abbrev tLocalTunnel : Nat := 32

/-- RefType -/
abbrev refWEP : Nat := 0
abbrev refWireguard : Nat := 1
abbrev refIPIP : Nat := 2
abbrev refVXLAN : Nat := 3

structure Pool where
  typ : Nat
  nat : Bool
  cross : Bool
deriving DecidableEq, Repr

structure Ref where
  node : Nat
  typ : Nat
  count : Nat
deriving DecidableEq, Repr

/-- `RouteInfo`; `Pools`/`Blocks` never hold more than one element in the Go code. -/
structure RouteInfo where
  pool : Option Pool := none
  block : Option Nat := none
  hosts : List Nat := []
  refs : List Ref := []
  wasSent : Bool := false
deriving DecidableEq, Repr

def RouteInfo.isValidRoute (r : RouteInfo) : Bool :=
  r.pool.isSome || r.block.isSome || !r.hosts.isEmpty || !r.refs.isEmpty

def RouteInfo.isZero (r : RouteInfo) : Bool := !r.wasSent && !r.isValidRoute

structure NodeInfo where
  v4Addr : Nat
  cidr : Cidr          -- V4CIDR; `Cidr.zero false` is the Go zero value
  ipip : Nat
  vxlan : Nat
  wg : Nat
  v6Addr : Nat := 0
  cidr6 : Cidr := Cidr.zero true   -- V6CIDR
  vxlan6 : Nat := 0
  wg6 : Nat := 0
deriving DecidableEq, Repr

def NodeInfo.addrOf (i : NodeInfo) (v6 : Bool) : Nat := if v6 then i.v6Addr else i.v4Addr
def NodeInfo.cidrOf (i : NodeInfo) (v6 : Bool) : Cidr := if v6 then i.cidr6 else i.cidr

/-- `proto.RouteUpdate` (the fields the resolver fills). -/
structure RouteUpdate where
  dst : Cidr
  types : Nat := 0
  poolType : Nat := 0
  dstNode : Option Nat := none
  dstNodeIp : Nat := 0
  sameSubnet : Bool := false
  natOutgoing : Bool := false
  localWorkload : Bool := false
  borrowed : Bool := false
  tunnel : Option (Bool × Bool × Bool) := none   -- (ipip, vxlan, wireguard)
deriving DecidableEq, Repr

inductive Event where
  | update (r : RouteUpdate)
  | remove (dst : Cidr)
deriving DecidableEq, Repr

def Event.dst : Event → Cidr
  | .update r => r.dst
  | .remove d => d

/-! ## Resolver state -/

structure St where
  me : Nat
  trie : List (Cidr × RouteInfo) := []
  dirty : List Cidr := []
  nodes : List (Nat × NodeInfo) := []
  blockRoutes : List (Cidr × List (Nat × Cidr)) := []     -- blockToRoutes
  nodeRoutes : List ((Nat × Cidr) × Nat) := []            -- nodeRoutes refcounts
  pools : List (Cidr × Pool) := []                         -- allPools
  weps : List ((Nat × Nat) × List Nat) := []               -- workloadIDToCIDRs ((host, id) ↦ /32s)
deriving Repr

def St.get (s : St) (c : Cidr) : RouteInfo := (aget s.trie c).getD {}

def St.markDirty (s : St) (c : Cidr) : St := { s with dirty := sinsert s.dirty c }

/-- `RouteTrie.updateCIDR`: returns the new state and whether anything changed. -/
def St.updateCIDR (s : St) (c : Cidr) (f : RouteInfo → RouteInfo) : St × Bool :=
  let ri := s.get c
  let ri' := f ri
  if ri' = ri then (s, false)
  else
    let s := s.markDirty c
    if ri'.isZero then ({ s with trie := adel s.trie c }, true)
    else ({ s with trie := aset s.trie c ri' }, true)

/-- `markChildrenDirty`: NB the Go code tests address containment only (within the family's trie). -/
def St.markChildrenDirty (s : St) (c : Cidr) : St :=
  (s.trie.filter (fun e => e.1.v6 == c.v6 && c.containsAddr e.1.addr)).foldl (fun s e => s.markDirty e.1) s

def St.updatePool (s : St) (c : Cidr) (p : Pool) : St :=
  let (s, ch) := s.updateCIDR c (fun ri => { ri with pool := some p })
  if ch then s.markChildrenDirty c else s

def St.removePool (s : St) (c : Cidr) : St :=
  let (s, ch) := s.updateCIDR c (fun ri => { ri with pool := none })
  if ch then s.markChildrenDirty c else s

/-- `RouteTrie.descendants`: the CIDRs with data strictly inside `c`. -/
def St.descendants (s : St) (c : Cidr) : List Cidr :=
  (s.trie.filter (fun e => c.covers e.1 && e.1 != c)).map (·.1)

/-- `UpdateBlockRoute`: a changed block also marks the CIDRs below it dirty
(`markDescendantsDirty`, repo commit "recalculate routes inside an IPAM block when the block changes"). -/
def St.updateBlockRoute (s : St) (c : Cidr) (n : Nat) : St :=
  let (s', ch) := s.updateCIDR c (fun ri => { ri with block := some n })
  if ch then (s'.descendants c).foldl (fun s d => s.markDirty d) s' else s'

/-- `RemoveBlockRoute`: the descendants are collected before the update. -/
def St.removeBlockRoute (s : St) (c : Cidr) : St :=
  let ds := s.descendants c
  let (s', ch) := s.updateCIDR c (fun ri => { ri with block := none })
  if ch then ds.foldl (fun s d => s.markDirty d) s' else s'

/-- ordered insert (what append + sort.Strings does to an already sorted list). -/
def insertNat : List Nat → Nat → List Nat
  | [], x => [x]
  | y :: ys, x => if x ≤ y then x :: y :: ys else y :: insertNat ys x

def St.addHost (s : St) (c : Cidr) (n : Nat) : St :=
  (s.updateCIDR c (fun ri => { ri with hosts := insertNat ri.hosts n })).1

def St.removeHost (s : St) (c : Cidr) (n : Nat) : St :=
  (s.updateCIDR c (fun ri => { ri with hosts := ri.hosts.filter (· != n) })).1

def refLt (a b : Ref) : Bool := if a.node == b.node then a.typ < b.typ else a.node < b.node

/-- append + `sort.Slice` by (node, type) on a sorted list with unique keys. -/
def insertRef : List Ref → Ref → List Ref
  | [], x => [x]
  | y :: ys, x => if refLt x y then x :: y :: ys else y :: insertRef ys x

def addRefL : List Ref → Nat → Nat → List Ref
  | rs, n, t =>
    if rs.any (fun r => r.node == n && r.typ == t) then
      rs.map (fun r => if r.node == n && r.typ == t then { r with count := r.count + 1 } else r)
    else insertRef rs ⟨n, t, 1⟩

def removeRefL (rs : List Ref) (n t : Nat) : List Ref :=
  (rs.map (fun r => if r.node == n && r.typ == t then { r with count := r.count - 1 } else r)).filter
    (fun r => !(r.node == n && r.typ == t && r.count == 0))

def St.addRef (s : St) (c : Cidr) (n t : Nat) : St :=
  (s.updateCIDR c (fun ri => { ri with refs := addRefL ri.refs n t })).1

/-- the Go code panics when the ref is absent; that is unreachable from the resolver's own calls. -/
def St.removeRef (s : St) (c : Cidr) (n t : Nat) : St :=
  (s.updateCIDR c (fun ri => { ri with refs := removeRefL ri.refs n t })).1

def St.setRouteSent (s : St) (c : Cidr) (b : Bool) : St :=
  (s.updateCIDR c (fun ri => { ri with wasSent := b })).1

/-! ## nodeRoutes -/

def nrAdd (m : List ((Nat × Cidr) × Nat)) (k : Nat × Cidr) : List ((Nat × Cidr) × Nat) :=
  aset m k ((aget m k).getD 0 + 1)

def nrRemove (m : List ((Nat × Cidr) × Nat)) (k : Nat × Cidr) : List ((Nat × Cidr) × Nat) :=
  match aget m k with
  | some (n + 2) => aset m k (n + 1)
  | _ => adel m k

def St.markAllNodeRoutesDirty (s : St) (n : Nat) : St :=
  (s.nodeRoutes.filter (fun e => e.1.1 == n)).foldl (fun s e => s.markDirty e.1.2) s

/-! ## flush -/

/-- the ancestor of `c` at prefix length `l` (the trie node on `c`'s path at depth `l`). -/
def ancKey (c : Cidr) (l : Nat) : Cidr := ⟨(c.addr / 2 ^ (c.width - l)) * 2 ^ (c.width - l), l, c.v6⟩

/-- a RouteInfo without its bookkeeping flag. -/
def strip (ri : RouteInfo) : RouteInfo := { ri with wasSent := false }

/-- what the trie holds at `k`, as far as route calculation is concerned (absent = empty). -/
def St.view (s : St) (k : Cidr) : RouteInfo := strip (s.get k)

/-- `trie.LookupPath(c)` for a `c` that is in the trie: the nodes on the path from the root to `c`.
Trie nodes without data (and absent ones) are listed with an empty RouteInfo, which the loop in
`flush` passes over without effect; keys of the real trie are canonical (host bits zero), so the
ancestor at depth `l` is `ancKey c l`. -/
def fullPath (view : Cidr → RouteInfo) (c : Cidr) : List (Cidr × RouteInfo) :=
  (List.range c.len).map (fun l => (ancKey c l, view (ancKey c l))) ++ [(c, view c)]

/-- the local variables of the loop in `flush`. -/
structure Acc where
  poolType : Nat := 0
  nat : Bool := false
  cross : Bool := false
  blockSeen : Bool := false
  blockNode : Nat := 0
  blockTypes : Nat := 0
  blockMatches : Bool := false
  hasTunnelRef : Bool := false
  hasHostRef : Bool := false
  dstNode : Option Nat := none
  borrowed : Bool := false
  types : Nat := 0
  localWorkload : Bool := false
  tunnel : Option (Bool × Bool × Bool) := none
deriving DecidableEq, Repr

def accPool (a : Acc) (ri : RouteInfo) : Acc :=
  match ri.pool with
  | none => a
  | some p =>
    { a with poolType := if p.typ != ptNone then p.typ else a.poolType,
             nat := a.nat || p.nat, cross := a.cross || p.cross }

def accBlock (me : Nat) (c : Cidr) (a : Acc) (e : Cidr × RouteInfo) : Acc :=
  match e.2.block with
  | none => a
  | some n =>
    let a := if a.blockSeen && a.blockNode != n then { a with borrowed := true }
             else { a with blockSeen := true, blockNode := n }
    { a with dstNode := some n,
             blockMatches := a.blockMatches || e.1 == c,
             blockTypes := a.blockTypes ||| (if n == me then tLocalWorkload else tRemoteWorkload) }

def accHost (me : Nat) (a : Acc) (ri : RouteInfo) : Acc :=
  match ri.hosts with
  | [] => a
  | n :: _ =>
    { a with dstNode := some n, hasHostRef := true,
             types := a.types ||| (if n == me then tLocalHost else tRemoteHost) }

def accRefs (me : Nat) (a : Acc) (ri : RouteInfo) : Acc :=
  match ri.refs with
  | [] => a
  | r0 :: _ =>
    let a := { a with dstNode := some r0.node,
                      borrowed := a.borrowed || (a.blockSeen && a.blockNode != r0.node) }
    if r0.typ == refWEP then
      if r0.node == me then { a with localWorkload := true, types := a.types ||| tLocalWorkload }
      else { a with types := a.types ||| tRemoteWorkload }
    else
      let same := ri.refs.filter (fun r => r.node == r0.node)
      { a with hasTunnelRef := true,
               types := a.types ||| (if r0.node == me then tLocalTunnel else tRemoteTunnel),
               tunnel := some (same.any (·.typ == refIPIP), same.any (·.typ == refVXLAN),
                               same.any (·.typ == refWireguard)) }

def accStep (me : Nat) (c : Cidr) (a : Acc) (e : Cidr × RouteInfo) : Acc :=
  accRefs me (accHost me (accBlock me c (accPool a e.2) e) e.2) e.2

/-- "the node `o` is in the subnet of the local node whose info is `l`" for one family: the local
V4CIDR / V6CIDR is known, is not the zero value, and contains `o`'s address of that family. -/
def inSub (v6 : Bool) (l : Option NodeInfo) (o : NodeInfo) : Bool :=
  match l with
  | some l => l.cidrOf v6 != Cidr.zero v6 && (l.cidrOf v6).containsAddr (o.addrOf v6)
  | none => false

/-- `nodeInOurSubnet(name, ipFamily)`. -/
def nodeInOurSubnet (v6 : Bool) (me : Nat) (nodes : List (Nat × NodeInfo)) (n : Nat) : Bool :=
  match aget nodes n with
  | some o => inSub v6 (aget nodes me) o
  | none => false

/-- The route `flush` computes for `c` from its lookup path and the node table. -/
def routeOfPath (me : Nat) (nodes : List (Nat × NodeInfo)) (c : Cidr) (path : List (Cidr × RouteInfo)) :
    RouteUpdate :=
  let a := path.foldl (accStep me c) {}
  let types := if a.blockSeen && !a.hasHostRef && (a.blockMatches || !a.hasTunnelRef)
               then a.types ||| a.blockTypes else a.types
  let known := match a.dstNode with
    | some n => (aget nodes n).isSome
    | none => false
  let ip := match a.dstNode with
    | some n => match aget nodes n with
      | some ni => ni.addrOf c.v6
      | none => 0
    | none => 0
  let ss := a.cross && known && (match a.dstNode with
    | some n => nodeInOurSubnet c.v6 me nodes n
    | none => false)
  { dst := c, types := types, poolType := a.poolType, dstNode := a.dstNode, dstNodeIp := ip,
    sameSubnet := ss, natOutgoing := a.nat, localWorkload := a.localWorkload, borrowed := a.borrowed,
    tunnel := a.tunnel }

/-- the route `flush` computes for `c` in state `s`. -/
def St.route (s : St) (c : Cidr) : RouteUpdate := routeOfPath s.me s.nodes c (fullPath s.view c)

/-- one iteration of the loop in `flush` for the dirty CIDR `c`. -/
def St.flushOne (s : St) (c : Cidr) : St × List Event :=
  match aget s.trie c with
  | none => (s, [])
  | some last =>
    if last.wasSent && !last.isValidRoute then
      (s.setRouteSent c false, [Event.remove c])
    else if zeroHost c then (s, [])
    else
      (s.setRouteSent c true, [Event.update (s.route c)])

def cidrLe (a b : Cidr) : Bool :=
  (!a.v6 && b.v6) || (a.v6 == b.v6 && (a.addr < b.addr || (a.addr == b.addr && a.len ≤ b.len)))

def insertCidr (c : Cidr) : List Cidr → List Cidr
  | [] => [c]
  | x :: xs => if cidrLe c x then c :: x :: xs else x :: insertCidr c xs

/-- the loop of `flush` over the (sorted) dirty CIDRs. -/
def flushList : St → List Cidr → St × List Event
  | s, [] => (s, [])
  | s, c :: cs =>
    let r1 := s.flushOne c
    let r2 := flushList r1.1 cs
    (r2.1, r1.2 ++ r2.2)

/-- `flush`: every dirty CIDR is processed independently; the model walks them in
(addr, len) order so that the event list is canonical. -/
def St.flush (s : St) : St × List Event :=
  let r := flushList s (s.dirty.foldr insertCidr [])
  ({ r.1 with dirty := [] }, r.2)

/-! ## Update handlers -/

inductive Op where
  | node (n : Nat) (info : Option NodeInfo)
  | pool (c : Cidr) (p : Option Pool)          -- pool type already computed by `poolTypeForPool`
  | block (c : Cidr) (aff : Option Nat) (allocs : List (Nat × Option Nat)) -- (ordinal, owner) of non-nil allocations
  | blockDel (c : Cidr)
  | wep (host id : Nat) (ips : List Nat)       -- [] = deletion
deriving Repr

/-- `poolTypeForPool` + CrossSubnet of `getPoolInfo`.  modes: 0 never, 1 always, 2 cross-subnet. -/
def poolOf (ipipMode vxlanMode : Nat) (nat lbOnly : Bool) : Pool :=
  { typ := if lbOnly then ptNone else if vxlanMode != 0 then ptVXLAN else if ipipMode != 0 then ptIPIP else ptNoEncap,
    nat := nat, cross := ipipMode == 2 || vxlanMode == 2 }

/-- `routesFromBlock` (with `NonAffineAllocations` inlined): a map dst ↦ node. -/
def routesFromBlock (c : Cidr) (aff : Option Nat) (allocs : List (Nat × Option Nat)) : List (Cidr × Nat) :=
  let m := allocs.foldl (fun (m : List (Cidr × Nat)) a =>
    match a.2 with
    | none => m                                   -- attribute without a node: skipped with a warning
    | some h => if aff == some h then m else aset m (Cidr.hostOf c.v6 (c.addr + a.1)) h) []
  match aff with
  | some h => aset m c h
  | none => m

def St.onBlockUpdate (s : St) (c : Cidr) (aff : Option Nat) (allocs : List (Nat × Option Nat)) : St :=
  let new := routesFromBlock c aff allocs
  let cached := (aget s.blockRoutes c).getD []
  let deletes := cached.filter (fun r => !(aget new r.2 == some r.1))
  let kept := cached.filter (fun r => aget new r.2 == some r.1)
  let adds := (new.map (fun r => (r.2, r.1))).filter (fun r => !kept.contains r)
  let s := { s with blockRoutes := aset s.blockRoutes c (kept ++ adds) }
  let s := deletes.foldl (fun (s : St) r =>
    let s := s.removeBlockRoute r.2
    { s with nodeRoutes := nrRemove s.nodeRoutes r }) s
  adds.foldl (fun (s : St) r =>
    let s := s.updateBlockRoute r.2 r.1
    { s with nodeRoutes := nrAdd s.nodeRoutes r }) s

/-- block deletion: NB the Go code does not touch `nodeRoutes` here. -/
def St.onBlockDelete (s : St) (c : Cidr) : St :=
  let cached := (aget s.blockRoutes c).getD []
  let s := cached.foldl (fun (s : St) r => s.removeBlockRoute r.2) s
  { s with blockRoutes := adel s.blockRoutes c }

def St.onPoolUpdate (s : St) (c : Cidr) (p : Option Pool) : St :=
  match p with
  | some p => ({ s with pools := aset s.pools c p }).updatePool c p
  | none =>
    match aget s.pools c with
    | some _ => ({ s with pools := adel s.pools c }).removePool c
    | none => s

def St.onWorkloadUpdate (s : St) (host id : Nat) (ips : List Nat) : St :=
  let old := (aget s.weps (host, id)).getD []
  if old = ips then s
  else
    let s := ips.foldl (fun (s : St) a =>
      let s := s.addRef (Cidr.host a) host refWEP
      { s with nodeRoutes := nrAdd s.nodeRoutes (host, Cidr.host a) }) s
    let s := old.foldl (fun (s : St) a =>
      let s := s.removeRef (Cidr.host a) host refWEP
      { s with nodeRoutes := nrRemove s.nodeRoutes (host, Cidr.host a) }) s
    if ips.isEmpty then { s with weps := adel s.weps (host, id) }
    else { s with weps := aset s.weps (host, id) ips }

/-- entries visited by `visitAllRoutes`, with the node the Go code attributes to each (the same
precedence as `flush`: first ref, else the node whose own address it is, else the block's node). -/
def visitNode (ri : RouteInfo) : Option Nat :=
  match ri.refs with
  | r :: _ => some r.node
  | [] =>
    match ri.hosts with
    | h :: _ => some h
    | [] => ri.block

def addTunnelRefs (s : St) (n : Nat) (i : NodeInfo) : St :=
  let s := if i.ipip != 0 then s.addRef (Cidr.host i.ipip) n refIPIP else s
  let s := if i.vxlan != 0 then s.addRef (Cidr.host i.vxlan) n refVXLAN else s
  let s := if i.vxlan6 != 0 then s.addRef (Cidr.host6 i.vxlan6) n refVXLAN else s
  let s := if i.wg != 0 then s.addRef (Cidr.host i.wg) n refWireguard else s
  if i.wg6 != 0 then s.addRef (Cidr.host6 i.wg6) n refWireguard else s

def removeTunnelRefs (s : St) (n : Nat) (i : NodeInfo) : St :=
  let s := if i.ipip != 0 then s.removeRef (Cidr.host i.ipip) n refIPIP else s
  let s := if i.vxlan != 0 then s.removeRef (Cidr.host i.vxlan) n refVXLAN else s
  let s := if i.vxlan6 != 0 then s.removeRef (Cidr.host6 i.vxlan6) n refVXLAN else s
  let s := if i.wg != 0 then s.removeRef (Cidr.host i.wg) n refWireguard else s
  if i.wg6 != 0 then s.removeRef (Cidr.host6 i.wg6) n refWireguard else s

/-- the test inside the `visitAllRoutes` callbacks of `onNodeUpdate`: does the same-subnet status
of the node this trie entry is attributed to flip when the local node goes from `old` to `new`? -/
def subnetFlip (v6 : Bool) (s : St) (old new : Option NodeInfo) (ri : RouteInfo) : Bool :=
  match visitNode ri with
  | none => false
  | some other =>
    if other == s.me then false
    else match aget s.nodes other with
      | none => false
      | some oi => inSub v6 old oi != inSub v6 new oi

def cidrOf (v6 : Bool) (i : Option NodeInfo) : Cidr := match i with | some o => o.cidrOf v6 | none => Cidr.zero v6

/-- one of the two `visitAllRoutes` passes of `onNodeUpdate` (over the family's trie); `s0` is the
state the callbacks read (trie and node table before the update). -/
def St.nodeVisitFam (s : St) (v6 : Bool) (s0 : St) (n : Nat) (old new : Option NodeInfo) : St :=
  if n == s0.me && cidrOf v6 old != cidrOf v6 new then
    (s0.trie.filter (fun e => e.1.v6 == v6 && subnetFlip v6 s0 old new e.2)).foldl (fun s' e => s'.markDirty e.1) s
  else s

/-- `onNodeUpdate`, part 1: when OUR IPv4 cidr changes, re-evaluate the same-subnet status of every
IPv4 route; and — independently — the same for IPv6. -/
def St.nodeVisit (s : St) (n : Nat) (old new : Option NodeInfo) : St :=
  (s.nodeVisitFam false s n old new).nodeVisitFam true s n old new

/-- part 2: tunnel address refs, adds before removes. -/
def St.nodeRefs (s : St) (n : Nat) (old new : Option NodeInfo) : St :=
  let s := match new with | some i => addTunnelRefs s n i | none => s
  match old with | some i => removeTunnelRefs s n i | none => s

/-- part 3: the node table and the host entries. -/
def St.nodeHosts (s : St) (n : Nat) (old new : Option NodeInfo) : St :=
  let s := match old with
    | some o =>
      let s := { s with nodes := adel s.nodes n }
      let s := if o.v4Addr != 0 then s.removeHost (Cidr.host o.v4Addr) n else s
      if o.v6Addr != 0 then s.removeHost (Cidr.host6 o.v6Addr) n else s
    | none => s
  match new with
    | some i =>
      let s := { s with nodes := aset s.nodes n i }
      let s := if i.v4Addr != 0 then s.addHost (Cidr.host i.v4Addr) n else s
      if i.v6Addr != 0 then s.addHost (Cidr.host6 i.v6Addr) n else s
    | none => s

/-- `onNodeUpdate`. -/
def St.onNodeUpdate (s : St) (n : Nat) (new : Option NodeInfo) : St :=
  let old := aget s.nodes n
  if new = old then s
  else (((s.nodeVisit n old new).nodeRefs n old new).nodeHosts n old new).markAllNodeRoutesDirty n

def St.apply (s : St) (op : Op) : St :=
  match op with
  | .node n i => s.onNodeUpdate n i
  | .pool c p => s.onPoolUpdate c p
  | .block c aff allocs => s.onBlockUpdate c aff allocs
  | .blockDel c => s.onBlockDelete c
  | .wep h i ips => s.onWorkloadUpdate h i ips

/-- one datastore update followed by the deferred `flush()`. -/
def St.step (s : St) (op : Op) : St × List Event := (s.apply op).flush

/-- what the downstream has been told so far: dst ↦ last RouteUpdate (removed on OnRouteRemove). -/
def applyEvents (sent : List (Cidr × RouteUpdate)) (evs : List Event) : List (Cidr × RouteUpdate) :=
  evs.foldl (fun m e => match e with
    | .update r => aset m r.dst r
    | .remove d => adel m d) sent

def St.run (s : St) (sent : List (Cidr × RouteUpdate)) : List Op → St × List (Cidr × RouteUpdate)
  | [] => (s, sent)
  | op :: ops =>
    let (s', evs) := s.step op
    St.run s' (applyEvents sent evs) ops

/-! ## routeManager -/

inductive TargetType where
  | noEncap | vxlan | onLink | direct | blackhole
deriving DecidableEq, Repr

structure Target where
  cidr : Cidr
  typ : TargetType
  gw : Nat := 0
deriving DecidableEq, Repr

def isType (r : RouteUpdate) (t : Nat) : Bool := r.types &&& t == t

def isRemoteTunnelRoute (r : RouteUpdate) (pt : Nat) : Bool :=
  r.poolType == pt && isType r tRemoteTunnel && isType r tRemoteWorkload

def isBorrowedRoute (r : RouteUpdate) (pt : Nat) : Bool :=
  r.poolType == pt && isType r tRemoteTunnel && r.borrowed

/-- `routeIsLocalBlock`. -/
def routeIsLocalBlock (pt : Nat) (r : RouteUpdate) : Bool :=
  isType r tLocalWorkload && r.poolType == pt && !r.localWorkload && r.dst.len != r.dst.width

/-- route classes of felix/routetable/defs.go and the device a class is programmed on. -/
abbrev ifEmpty : Nat := 0    -- ""
abbrev ifParent : Nat := 1   -- the parent device
abbrev ifTunnel : Nat := 2   -- vxlan.calico / tunl0
abbrev ifNone : Nat := 3     -- routetable.InterfaceNone

structure RM where
  pt : Nat                       -- ippoolType of the manager (1 no-encap, 2 vxlan, 3 ipip)
  me : Nat
  eth0Addr : Nat                 -- the address the (mock) kernel has on eth0
  parent : Bool := false         -- parentDevice != ""
  parentAddr : Nat := 0
  routes : List (Cidr × RouteUpdate) := []        -- routesByDest
  localBlocks : List (Cidr × RouteUpdate) := []   -- localIPAMBlocks
  dirty : Bool := true
  vteps : List (Nat × Nat) := []                  -- vxlan: vtepsByNode ↦ VTEP address
  localVtep : Bool := false                       -- vxlan: myVTEP != nil
  hostIPs : List (Nat × Nat) := []                -- ipip: activeHostnameToIP
  table : List ((Nat × Nat) × List Target) := []  -- mock route table: (class, iface) ↦ last SetRoutes
deriving Repr

def RM.classTunnel (m : RM) : Nat := if m.pt == ptVXLAN then 4 else if m.pt == ptIPIP then 6 else 7
def RM.classSameSubnet (m : RM) : Nat := if m.pt == ptVXLAN then 3 else if m.pt == ptIPIP then 5 else 7
def RM.classBlackhole (m : RM) : Nat := if m.pt == ptVXLAN then 8 else if m.pt == ptIPIP then 9 else 10
def RM.tunnelIface (m : RM) : Nat := if m.pt == ptNoEncap then ifEmpty else ifTunnel

def RM.deleteRoute (m : RM) (d : Cidr) : RM :=
  let m := if (aget m.routes d).isSome then { m with routes := adel m.routes d, dirty := true } else m
  if (aget m.localBlocks d).isSome then { m with localBlocks := adel m.localBlocks d, dirty := true } else m

/-- `OnUpdate(*proto.RouteUpdate)`. -/
def RM.onRouteUpdate (m : RM) (r : RouteUpdate) : RM :=
  let m := m.deleteRoute r.dst
  let m := if (isType r tRemoteWorkload && r.poolType == m.pt) || isRemoteTunnelRoute r m.pt
              || isBorrowedRoute r m.pt
           then { m with routes := aset m.routes r.dst r, dirty := true } else m
  if routeIsLocalBlock m.pt r then { m with localBlocks := aset m.localBlocks r.dst r, dirty := true }
  else if (aget m.localBlocks r.dst).isSome then { m with localBlocks := adel m.localBlocks r.dst, dirty := true }
  else m

def RM.onEvent (m : RM) : Event → RM
  | .update r => m.onRouteUpdate r
  | .remove d => m.deleteRoute d

/-- `noEncapRoute`. -/
def RM.noEncapRoute (m : RM) (r : RouteUpdate) : Option Target :=
  if !m.parent then none
  else if m.pt != ptNoEncap && !r.sameSubnet then none
  else if r.dstNodeIp == 0 then none
  else some { cidr := r.dst, typ := .noEncap, gw := r.dstNodeIp }

/-- the three `tunnelRoute` functions. -/
def RM.tunnelRoute (m : RM) (r : RouteUpdate) : Option Target :=
  if m.pt == ptVXLAN then
    if isRemoteTunnelRoute r ptVXLAN || isBorrowedRoute r ptVXLAN then some { cidr := r.dst, typ := .direct }
    else match r.dstNode with
      | none => none
      | some n => (aget m.vteps n).map (fun a => { cidr := r.dst, typ := .vxlan, gw := a })
  else if m.pt == ptIPIP then
    match r.dstNode with
    | none => none
    | some n => (aget m.hostIPs n).map (fun a => { cidr := r.dst, typ := .onLink, gw := a })
  else none

/-- what `updateRoutes` decides for one stored route. -/
def RM.targetOf (m : RM) (r : RouteUpdate) : Option (Bool × Target) :=
  match m.noEncapRoute r with
  | some t => some (true, t)
  | none => (m.tunnelRoute r).map (fun t => (false, t))

def RM.setRoutes (m : RM) (cls ifc : Nat) (ts : List Target) : RM :=
  { m with table := aset m.table (cls, ifc) ts }

def RM.updateRoutes (m : RM) : RM :=
  let ts := m.routes.filterMap (fun e => m.targetOf e.2)
  let tun := (ts.filter (fun t => !t.1)).map (·.2)
  let dir := (ts.filter (fun t => t.1)).map (·.2)
  let bh := m.localBlocks.map (fun e => ({ cidr := e.1, typ := .blackhole } : Target))
  let m := m.setRoutes m.classTunnel m.tunnelIface tun
  let m := m.setRoutes m.classBlackhole ifNone bh
  if m.parent then m.setRoutes m.classSameSubnet ifParent dir else m

/-- `CompleteDeferredWork` (parent device detection against the mock kernel included). -/
def RM.complete (m : RM) : RM :=
  let m := if !m.parent && m.parentAddr != 0 && m.parentAddr == m.eth0Addr
           then { m with parent := true, dirty := true } else m
  if m.dirty then { m.updateRoutes with dirty := false } else m

/-- `OnParentDeviceUpdate("eth0")`. -/
def RM.onParent (m : RM) : RM := if m.parent then m else { m with parent := true, dirty := true }

/-- vxlan manager: VXLANTunnelEndpointUpdate / Remove.  `addr = 0` models the update without an
IPv4 address (the node has no IPv4 VTEP any more): the v4 manager forgets what it held for the node. -/
def RM.onVtep (m : RM) (n : Nat) (v : Option (Nat × Nat)) : RM :=
  if m.pt != ptVXLAN then m
  else match v with
    | some (addr, parentIp) =>
      if addr == 0 then
        if n == m.me then
          if m.localVtep then { m with localVtep := false, parentAddr := 0, dirty := true } else m
        else if (aget m.vteps n).isSome then { m with vteps := adel m.vteps n, dirty := true } else m
      else if n == m.me then { m with localVtep := true, parentAddr := parentIp, dirty := true }
      else { m with vteps := aset m.vteps n addr, dirty := true }
    | none =>
      if n == m.me then { m with localVtep := false, parentAddr := 0, dirty := true }
      else { m with vteps := adel m.vteps n, dirty := true }

/-- ipip / no-encap manager: HostMetadataUpdate / Remove. -/
def RM.onHostMeta (m : RM) (n : Nat) (a : Option Nat) : RM :=
  if m.pt == ptIPIP then
    match a with
    | some addr =>
      let m := if n == m.me then { m with parentAddr := addr } else m
      let m := if addr == 0 then { m with hostIPs := adel m.hostIPs n } else { m with hostIPs := aset m.hostIPs n addr }
      { m with dirty := true }
    | none =>
      let m := if n == m.me then { m with parentAddr := 0 } else m
      { m with hostIPs := adel m.hostIPs n, dirty := true }
  else if m.pt == ptNoEncap then
    if n == m.me then
      match a with
      | some addr => { m with parentAddr := addr, dirty := true }
      | none => { m with parentAddr := 0, dirty := true }
    else m
  else m

end CalicoVerif.C43
