import CalicoVerif.Model.CasIO
import CalicoVerif.Model.C19
/-!
C38 — the CNI IPAM plugin commands as sequences of IPAM client calls over the
C19 store (Model/Cas), with a datastore error possible at every backend call.

* `relByHandleSeq`: `ipamClient.ReleaseByHandle` executed sequentially (no other
  client in between), call by call, through `Cas.step` — so every state it
  passes through is a state of a `Cas.run`, and the C19 invariants apply.
* `delSeq`: `cmdDel` for an ordinary (non-KubeVirt) workload: release by the
  handle id, then by the legacy workload id; "does not exist" is success.
* `addDecision`: what `cmdAdd` does with the result of `AutoAssign` (dual-stack
  rollback, partial fulfilment).
Core Lean only.
-/
namespace CalicoVerif.C38
open CalicoVerif.Cas CalicoVerif.Proto

inductive RelRes where | ok | notExist | err
deriving DecidableEq, Repr

/-- Consume the fault flag of the next backend call (`true` = injected datastore error). -/
def pop : List Bool → Bool × List Bool
  | [] => (false, [])
  | f :: fs => (f, fs)

/-- Perform one backend call on the model (a call that is not an instance of the
protocol leaves the state unchanged). -/
def call (s : St) (c : Call) : St := (step s (.call c)).getD s

def coolOrds : Nat → List Slot → List Nat
  | _, [] => []
  | i, s :: ss => (if s == Slot.cool then [i] else []) ++ coolOrds (i + 1) ss

/-- The block write of `releaseByHandle`: compare-and-delete if the block ends up empty and
unaffine, else compare-and-swap. -/
def blockWriteCall (t h b r : Nat) (g1 g2 : List Nat) (res : BRes) : Call :=
  let del := res.v.empty && res.v.aff.isNone
  { t := t, fault := .none, verb := if del then .delete else .update, key := .blk b, rev := some r,
    pl := if del then .blkDelete g1 (some (.relh h)) g2 else .blkRmw g1 (.relh h) g2 }

/-- `decrementHandle(h, b, num)` as called by `releaseByHandle`: its failures are only logged. -/
def decHandle (t h b num : Nat) (s1 : St) (fs : List Bool) : St × List Bool :=
  let (f3, fs) := pop fs                       -- queryHandle
  if f3 then (s1, fs) else
  match s1.hdl h with
  | none => (s1, fs)
  | some (rh, m) =>
    let (f4, fs) := pop fs                     -- updateHandle / deleteHandle
    if f4 then (s1, fs) else
    let z := zeroMap (m.set b (cnt m b - num))
    (call s1 { t := t, fault := .none, verb := if z then .delete else .update, key := .hdl h,
               rev := some rh, pl := .hDec b num }, fs)

/-- `releaseByHandle(h)` on ONE block, then `decrementHandle`: returns the new state, the
remaining fault flags and whether the operation must stop with an error.  `imm` = the
cooldown is 0 (released and cooled ordinals are garbage collected at once). -/
def relBlock (imm : Bool) (t h b : Nat) (s : St) (fs : List Bool) : St × List Bool × Bool :=
  let (f1, fs) := pop fs                       -- queryBlock
  if f1 then (s, fs, true) else
  match s.blk b with
  | none => (s, fs, false)                     -- block gone: nothing allocated there
  | some (r, v) =>
    if liveCount h v.slots == 0 then (s, fs, false) else
    let g1 := if imm then coolOrds 0 v.slots else []
    let g2 := if imm then ordsOf h 0 v.slots else []
    match rmw g1 (.relh h) g2 v with
    | none => (s, fs, true)
    | some res =>
      let (f2, fs) := pop fs                   -- deleteBlock / updateBlock
      if f2 then (s, fs, true) else
      let d := decHandle t h b (liveCount h v.slots) (call s (blockWriteCall t h b r g1 g2 res)) fs
      (d.1, d.2, false)

def relBlocks (imm : Bool) (t h : Nat) : List Nat → St → List Bool → St × List Bool × Bool
  | [], s, fs => (s, fs, false)
  | b :: bs, s, fs =>
    match relBlock imm t h b s fs with
    | (s1, fs1, true) => (s1, fs1, true)
    | (s1, fs1, false) => relBlocks imm t h bs s1 fs1

/-- `ReleaseByHandle(h)`; `order` = the order in which the handle's blocks are visited
(Go map iteration order: any order covering the blocks with a non-zero count). -/
def relByHandleSeq (imm : Bool) (t h : Nat) (order : List Nat) (s : St) (fs : List Bool) :
    St × List Bool × RelRes :=
  let (f0, fs) := pop fs                       -- queryHandle
  if f0 then (s, fs, .err) else
  match s.hdl h with
  | none => (s, fs, .notExist)
  | some _ =>
    match relBlocks imm t h order s fs with
    | (s1, fs1, true) => (s1, fs1, .err)
    | (s1, fs1, false) => (s1, fs1, .ok)

/-- `cmdDel`: release by handle id `h1`, then by workload id `h2`; true = DEL succeeded. -/
def delSeq (imm : Bool) (t h1 h2 : Nat) (o1 o2 : List Nat) (s : St) (fs : List Bool) : St × Bool :=
  match relByHandleSeq imm t h1 o1 s fs with
  | (s1, _, .err) => (s1, false)
  | (s1, fs1, _) =>
    match relByHandleSeq imm t h2 o2 s1 fs1 with
    | (s2, _, .err) => (s2, false)
    | (s2, _, _) => (s2, true)

/-- What `cmdAdd` does with AutoAssign's answer (one address per requested family). -/
structure AddRes where
  ok : Bool
  rel4 : Bool     -- rolls the IPv4 address back
  rel6 : Bool
deriving DecidableEq, Repr

def addDecision (want4 want6 aaErr got4 got6 : Bool) : AddRes :=
  if aaErr then { ok := false, rel4 := false, rel6 := false }
  else
    let short4 := want4 && !got4
    let short6 := want6 && !got6
    { ok := !short4 && !short6,
      rel6 := short4 && want6 && got6,
      rel4 := short6 && want4 && got4 }

/-- Events a SUCCESSFUL `cmdAdd` for handle `h` may consist of: anything but a release
(claims, affinity writes, handle increments / decrements, allocations for `h`, deletes of
EMPTY blocks by `releaseBlockAffinity`). -/
def addEv (h : Nat) : Ev → Bool
  | .call c =>
    match c.pl with
    | .blkRmw _ (.assign h0 _ _) _ => h0 == h
    | .blkRmw _ (.assignIP h0 _) _ => h0 == h
    | .blkRmw _ .clearAff _ => true
    | .blkRmw _ .bump _ => true
    | .blkRmw _ _ _ => false
    | .blkDelete _ (some _) _ => false
    | _ => true
  | _ => true

/-! ### driver -/

structure DSt where
  cas : St
  snap : St            -- state when the running CNI command began
  imm : Bool
  addH : Nat := 0      -- handle of the running ADD
  nonrel : Bool := true -- every event of the running ADD so far satisfies `addEv addH`

def parseBools (s : String) : List Bool := s.toList.filterMap (fun c => if c == '1' then some true else if c == '0' then some false else none)

def b2s (b : Bool) : String := if b then "1" else "0"

def renderAll (s : St) : String :=
  joinWith ";" ((List.range s.nb).map (fun b => renderKey s (.blk b)) ++ (List.range 13).map (fun h => renderKey s (.hdl h)))

def stepLine (d : DSt) (line : String) : DSt × String :=
  let ws := words line
  match ws with
  | "new" :: rest =>
    let (c, o) := driverStep C19.chk d.cas line
    ({ cas := c, snap := c, imm := kvOf rest "cool" == some "0" }, o)
  | "begin" :: _ :: op :: rest =>
    let (c, o) := driverStep C19.chk d.cas line
    let hA := if op == "cniadd" then (match kvNat rest "c" with | some k => 3 * k + 1 | none => 0) else 0
    ({ d with cas := c, snap := c, addH := hA, nonrel := true }, o)
  | "step" :: _ =>
    let (c, o) := driverStep C19.chk d.cas line
    let nr := match parseStep ws with
      | some cl => addEv d.addH (.call cl)
      | none => false
    ({ d with cas := c, nonrel := d.nonrel && nr }, o)
  -- cni <tid> del <status> h1=<h> h2=<h> o1=<ords> o2=<ords> f=<fault flags>
  | "cni" :: t :: "del" :: status :: rest =>
    match t.toNat?, kvNat rest "h1", kvNat rest "h2", kvNats rest "o1", kvNats rest "o2", kvOf rest "f" with
    | some t, some h1, some h2, some o1, some o2, some f =>
      let (s', ok) := delSeq d.imm t h1 h2 o1 o2 d.snap (parseBools f)
      let same := renderAll s' == renderAll d.cas
      let rem := (List.range d.cas.nb).foldl (fun acc b =>
        acc + (match d.cas.blk b with | some (_, v) => liveCount h1 v.slots + liveCount h2 v.slots | none => 0)) 0
      (d, s!"{if ok then "ok" else "err"} prog={b2s same} remaining={rem}" ++ (if status == "" then "" else ""))
    | _, _, _, _, _, _ => (d, "bad-op")
  -- cni <tid> add w4=<0|1> w6=<0|1> aaerr=<0|1> g4=<0|1> g6=<0|1>
  | "cni" :: _ :: "add" :: rest =>
    match kvOf rest "w4", kvOf rest "w6", kvOf rest "aaerr", kvOf rest "g4", kvOf rest "g6" with
    | some w4, some w6, some e, some g4, some g6 =>
      let r := addDecision (w4 == "1") (w6 == "1") (e == "1") (g4 == "1") (g6 == "1")
      -- a successful ADD consists of non-releasing events only (hypothesis of add_success_all_families)
      let nr := if r.ok then b2s d.nonrel else "-"
      (d, s!"{if r.ok then "ok" else "err"} rel4={b2s r.rel4} rel6={b2s r.rel6} nonrel={nr}")
    | _, _, _, _, _ => (d, "bad-op")
  | _ =>
    let (c, o) := driverStep C19.chk d.cas line
    ({ d with cas := c }, o)

end CalicoVerif.C38
