/-
C04 — model of felix/labelindex/named_port_index.go (SelectorAndNamedPortIndex)
together with ipsetmember (member construction, protocol matching) and the
overlap suppressor (memberDeduplicator) over felix/ip's CIDR trie.

What is modelled one-to-one (each def names the Go function it models):
  UpdateIPSet / DeleteIPSet / UpdateEndpointOrSet / DeleteEndpoint /
  UpdateParentLabels / DeleteParentLabels, scanEndpointAgainstIPSets,
  RecalcCachedContributions, CalculateEndpointContribution, LookupNamedPorts,
  onMemberAdded / onMemberRemoved, memberDeduplicator.Add/Remove/DeleteIPSet,
  extractCIDRsFrom{Workload,Host}Endpoint / NetworkSet,
  Protocol.MatchesModelProtocol / ProtocolFrom, MakeIPPortProto / MakeCIDROrIPOnly.

What is abstracted (and why that is sound is argued in Props/C04.lean and checked
by the correspondence harness on the real code):
  * selector evaluation is a parameter `matchSel : Sel → Labels → Bool`
    (the harness supplies its graph from the real parser; C06/C07 are about it);
    `Selector.Equal` is `=` on `Sel`;
  * the scan strategies (`iterEndpointCandidates` + `labelnamevalueindex.StrategyFor`,
    `LabelRestrictionIndex.AllPotentialMatches`) are NOT modelled: the model visits every
    endpoint / every IP set, each once.  This is faithful iff the real strategies never skip an
    item whose selector evaluation is true and yield each item once (non-matching items have no
    effect in the loops that use them).  No theorem covers that (C07 proves pruning soundness only
    for its own `LabelRestrictionIndex` model); it is tied by the correspondence check (match
    caches and refcounts after every op) and the from-scratch oracle;
  * the CIDR trie is the set of stored CIDRs with `Covers` / `ClosestDescendants`
    given by plain prefix arithmetic on (version, addr, len) (C36 is about the trie);
  * Go maps are association lists; Go's random map iteration order is covered by
    the explicit `perm…` operations (a Go run with some iteration order = the model
    run with the corresponding permutation applied first);
  * parent (profile) bookkeeping (`getOrCreateParent`, `endpointIDs`,
    `discardParentIfEmpty`) is derived: a parent's endpoint set is "endpoints that
    list it", a missing parent has no labels.
  * Go panics / nil dereferences set the `panicked` flag: those guarding inconsistent
    bookkeeping, incl. the one in `DiscardEndpointID` (`discardPanics`), are proved
    unreachable (a repeated profile id is de-duplicated on update: `dedupParents`).

Core Lean only.
-/
namespace CalicoVerif.C04

/-! ## association lists (Go maps) -/

def alGet {κ β : Type} [DecidableEq κ] (k : κ) : List (κ × β) → Option β
  | [] => none
  | (k', v) :: l => if k' = k then some v else alGet k l

def alErase {κ β : Type} [DecidableEq κ] (k : κ) (l : List (κ × β)) : List (κ × β) :=
  l.filter (fun p => p.1 ≠ k)

/-- `m[k] = v` -/
def alSet {κ β : Type} [DecidableEq κ] (k : κ) (v : β) (l : List (κ × β)) : List (κ × β) :=
  (k, v) :: alErase k l

/-- in-place mutation of the value stored under `k` (pointer-typed map values). -/
def alMod {κ β : Type} [DecidableEq κ] (k : κ) (f : β → β) (l : List (κ × β)) : List (κ × β) :=
  l.map (fun p => if p.1 = k then (p.1, f p.2) else p)

/-- set insertion (`set.Add`). -/
def setAdd {α : Type} [DecidableEq α] (a : α) (l : List α) : List α :=
  if a ∈ l then l else a :: l

/-! ## CIDRs (felix/ip) -/

/-- `ip.CIDR`: IP version, address as a number, prefix length. Values built by
`ip.CIDRFrom…` are canonical (masked). -/
structure Cidr where
  v6 : Bool
  addr : Nat
  len : Nat
deriving DecidableEq, Repr

def width (v6 : Bool) : Nat := if v6 then 128 else 32

/-- The first `n` bits of the address. -/
def Cidr.pfx (c : Cidr) (n : Nat) : Nat := c.addr >>> (width c.v6 - n)

/-- `c` strictly contains `d`: same family, shorter prefix, `d`'s address inside `c`
(`CommonPrefix(c, d) == c` and `c != d` on canonical CIDRs). -/
def Cidr.sc (c d : Cidr) : Bool :=
  c.v6 == d.v6 && decide (c.len < d.len) && c.pfx c.len == d.pfx c.len

/-- `CIDRFromIPNet`: mask the address to the prefix length. -/
def Cidr.mask (v6 : Bool) (addr len : Nat) : Cidr :=
  let w := width v6
  { v6 := v6, addr := (addr >>> (w - len)) <<< (w - len), len := len }

/-- `CIDRTrie.Covers(c)` on the stored set: some stored CIDR equals or contains `c`. -/
def covers (t : List Cidr) (c : Cidr) : Bool := t.any (fun d => d == c || d.sc c)

/-- `CIDRTrie.ClosestDescendants(c)`: stored CIDRs strictly inside `c` with no stored
CIDR strictly between. -/
def closestDesc (t : List Cidr) (c : Cidr) : List Cidr :=
  t.filter (fun d => c.sc d && !(t.any (fun e => c.sc e && e.sc d)))

/-! ## IP set members (felix/labelindex/ipsetmember) -/

/-- `IPSetMember`: `cidr` is `CIDROrIPOnlyIPSetMember` (a single IP is the
full-length CIDR: `MakeCIDROrIPOnly` makes both map to one Go map key per CIDR);
`ipp` is `ipPortProtoIPSetMember`. -/
inductive Member where
  | cidr (c : Cidr)
  | ipp (v6 : Bool) (addr : Nat) (port : Nat) (proto : Nat)
deriving DecidableEq, Repr

def protoNone : Nat := 0
def protoTCP : Nat := 6
def protoUDP : Nat := 17
def protoSCTP : Nat := 132
def protoAny : Nat := 255

/-- `numorstring.Protocol` as stored in `model.EndpointPort`. -/
inductive PortProto where
  | num (n : Nat)
  | str (s : String)
deriving DecidableEq, Repr

/-- `Protocol.MatchesModelProtocol`.  For a set protocol outside
{TCP, UDP, SCTP, Any} and a string protocol the Go code panics; callers only pass
those four (guarded by `proto ≠ None` in `CalculateEndpointContribution`). -/
def protoMatches (p : Nat) : PortProto → Bool
  | .num n => if n = 0 then p == protoAny else n == p
  | .str s =>
    if p == protoTCP then s.toLower == "tcp"
    else if p == protoUDP then s.toLower == "udp"
    else if p == protoSCTP then s.toLower == "sctp"
    else if p == protoAny then true
    else false

/-- `ipsetmember.ProtocolFrom`. -/
def protoFrom (p : PortProto) : Nat :=
  if protoMatches protoUDP p then protoUDP
  else if protoMatches protoSCTP p then protoSCTP
  else protoTCP

/-- `MakeIPPortProto`. -/
def mkIPPortProto (v6 : Bool) (addr port proto : Nat) : Member :=
  if port = 0 ∧ proto = protoNone then .cidr { v6 := v6, addr := addr, len := width v6 }
  else .ipp v6 addr port proto

/-! ## index state -/

abbrev Labels := List (String × String)

/-- `model.EndpointPort`. -/
structure Port where
  name : String
  proto : PortProto
  port : Nat
deriving DecidableEq, Repr

/-- `endpointData` (parents by id instead of by pointer). -/
structure EpData where
  labels : Labels
  nets : List Cidr
  ports : List Port
  parents : List String
  cached : List String
deriving DecidableEq, Repr

/-- `ipSetData`. -/
structure IpSetData (Sel : Type) where
  sel : Sel
  proto : Nat
  port : String
  refc : List (Member × Nat)
deriving DecidableEq

/-- Callbacks seen by the consumer.  `cleared s` stands for the consumer being told
that the whole set is gone (`OnIPSetRemoved`, issued by the same calc-graph closure
that calls `DeleteIPSet`; the index itself deliberately emits no per-member removals
on that path). -/
inductive Event where
  | added (s : String) (m : Member)
  | removed (s : String) (m : Member)
  | cleared (s : String)
deriving DecidableEq, Repr

/-- `SelectorAndNamedPortIndex`. `out` is the log of every callback made so far. -/
structure Idx (Sel : Type) where
  suppress : Bool
  eps : List (String × EpData)
  parents : List (String × Labels)
  ipsets : List (String × IpSetData Sel)
  tries : List (String × List Cidr)
  out : List Event
  panicked : Bool
  /-- ghost: a `uint64` refcount was decremented at 0 (Go wraps silently to 2^64-1). -/
  underflow : Bool

def Idx.new (Sel : Type) (suppress : Bool) : Idx Sel :=
  { suppress := suppress, eps := [], parents := [], ipsets := [], tries := [], out := [], panicked := false,
    underflow := false }

section
variable {Sel : Type} [DecidableEq Sel]

def emit (e : Event) (st : Idx Sel) : Idx Sel := { st with out := st.out ++ [e] }

def trieOf (st : Idx Sel) (s : String) : List Cidr := (alGet s st.tries).getD []

/-- `OverlapSuppressor.Add`: returns the new state, whether to emit the add, and the
now-masked CIDRs to withdraw. -/
def supAdd (s : String) (c : Cidr) (st : Idx Sel) : Idx Sel × Bool × List Cidr :=
  if st.suppress then
    let t := trieOf st s
    let covered := covers t c
    let t' := setAdd c t
    let st' := { st with tries := alSet s t' st.tries }
    if covered then (st', false, []) else (st', true, closestDesc t' c)
  else (st, true, [])

/-- `OverlapSuppressor.Remove`. -/
def supRemove (s : String) (c : Cidr) (st : Idx Sel) : Idx Sel × Bool × List Cidr :=
  if st.suppress then
    let t := trieOf st s
    let masked := closestDesc t c
    let t' := t.filter (fun d => d ≠ c)
    let st' := { st with tries := alSet s t' st.tries }
    if covers t' c then (st', false, []) else (st', true, masked)
  else (st, true, [])

/-- `onMemberAdded`. -/
def onMemberAdded (s : String) (m : Member) (st : Idx Sel) : Idx Sel :=
  match m with
  | .cidr c =>
    let r := supAdd s c st
    let st1 := if r.2.1 then emit (.added s (.cidr c)) r.1 else r.1
    r.2.2.foldl (fun st x => emit (.removed s (.cidr x)) st) st1
  | .ipp .. => emit (.added s m) st

/-- `onMemberRemoved`. -/
def onMemberRemoved (s : String) (m : Member) (st : Idx Sel) : Idx Sel :=
  match m with
  | .cidr c =>
    let r := supRemove s c st
    let st1 := if r.2.1 then emit (.removed s (.cidr c)) r.1 else r.1
    r.2.2.foldl (fun st x => emit (.added s (.cidr x)) st) st1
  | .ipp .. => emit (.removed s m) st

def refOf (d : IpSetData Sel) (m : Member) : Nat := (alGet m d.refc).getD 0

def refCount (st : Idx Sel) (s : String) (m : Member) : Nat :=
  match alGet s st.ipsets with
  | some d => refOf d m
  | none => 0

/-- `refCount := memberToRefCount[m]; if refCount == 0 { onMemberAdded }; memberToRefCount[m] = refCount+1`. -/
def incref (s : String) (m : Member) (st : Idx Sel) : Idx Sel :=
  match alGet s st.ipsets with
  | none => { st with panicked := true }
  | some d =>
    let rc := refOf d m
    let st1 := if rc = 0 then onMemberAdded s m st else st
    { st1 with ipsets := alMod s (fun d => { d with refc := alSet m (rc + 1) d.refc }) st1.ipsets }

/-- `newRefCount := memberToRefCount[m] - 1` (uint64: wraps at 0);
`if newRefCount == 0 { onMemberRemoved; delete } else { store }`. -/
def decref (s : String) (m : Member) (st : Idx Sel) : Idx Sel :=
  match alGet s st.ipsets with
  | none => { st with panicked := true }
  | some d =>
    let rc := refOf d m
    if rc = 0 then
      { st with ipsets := alMod s (fun d => { d with refc := alSet m (2 ^ 64 - 1) d.refc }) st.ipsets,
                underflow := true }
    else if rc - 1 = 0 then
      let st1 := onMemberRemoved s m st
      { st1 with ipsets := alMod s (fun d => { d with refc := alErase m d.refc }) st1.ipsets }
    else
      { st with ipsets := alMod s (fun d => { d with refc := alSet m (rc - 1) d.refc }) st.ipsets }

def increfAll (s : String) (ms : List Member) (st : Idx Sel) : Idx Sel :=
  ms.foldl (fun st m => incref s m st) st

def decrefAll (s : String) (ms : List Member) (st : Idx Sel) : Idx Sel :=
  ms.foldl (fun st m => decref s m st) st

/-- `endpointData.LookupNamedPorts`. -/
def lookupNamedPorts (e : EpData) (name : String) (proto : Nat) : List (Nat × Nat) :=
  e.ports.filterMap (fun p =>
    if p.name = name ∧ protoMatches proto p.proto = true then some (protoFrom p.proto, p.port) else none)

/-- `CalculateEndpointContribution`. -/
def contrib (e : EpData) (d : IpSetData Sel) : List Member :=
  if d.proto ≠ protoNone then
    (lookupNamedPorts e d.port d.proto).flatMap (fun pp =>
      e.nets.map (fun c => mkIPPortProto c.v6 c.addr pp.2 pp.1))
  else e.nets.map Member.cidr

def parentLabels (st : Idx Sel) (p : String) : Labels := (alGet p st.parents).getD []

/-- What `endpointData.GetHandle` sees: own labels first, then each parent's in order
(first hit wins when `matchSel` looks a key up). -/
def effLabels (st : Idx Sel) (e : EpData) : Labels :=
  e.labels ++ e.parents.flatMap (parentLabels st)

/-- `RecalcCachedContributions`. -/
def recalc (e : EpData) (st : Idx Sel) : List (String × List Member) :=
  e.cached.map (fun s => (s, match alGet s st.ipsets with
    | some d => contrib e d
    | none => []))

/-- the Panic in `RecalcCachedContributions` (cached id of a nonexistent IP set). -/
def recalcPanics (e : EpData) (st : Idx Sel) : Bool :=
  e.cached.any (fun s => (alGet s st.ipsets).isNone)

def decrefOld (old : List (String × List Member)) (st : Idx Sel) : Idx Sel :=
  old.foldl (fun st p => decrefAll p.1 p.2 st) st

variable (matchSel : Sel → Labels → Bool)

/-- first loop of `scanEndpointAgainstIPSets` for one IP set id. -/
def scanOne (s : String) (p : Idx Sel × EpData) : Idx Sel × EpData :=
  match alGet s p.1.ipsets with
  | none => p
  | some d =>
    if matchSel d.sel (effLabels p.1 p.2) then
      let e := { p.2 with cached := setAdd s p.2.cached }
      (increfAll s (contrib e d) p.1, e)
    else p

/-- `scanEndpointAgainstIPSets(epData, oldIPSetContributions)`; returns the endpoint
data with its refreshed match cache. -/
def scanEp (e : EpData) (old : List (String × List Member)) (st : Idx Sel) : Idx Sel × EpData :=
  let p := (st.ipsets.map (·.1)).foldl (fun p s => scanOne matchSel s p) (st, { e with cached := [] })
  (decrefOld old p.1, p.2)

/-- `Equals` on `endpointData` (cache excluded). -/
def epEquals (a b : EpData) : Bool :=
  a.labels == b.labels && a.ports == b.ports && a.nets == b.nets && a.parents == b.parents

/-- The `panic("discard of unknown ID")` in `npParentData.DiscardEndpointID`, reached from the
parent clean-up loops of `UpdateEndpointOrSet` / `DeleteEndpoint`: the loop discards the
endpoint id once per occurrence of the parent in the OLD parent list; after the first discard
the parent's endpoint set is nil unless another endpoint lists that parent, and a second
discard on a nil set panics.  (A parent's endpoint set is exactly "the endpoints that list
it".) -/
def discardPanics (id : String) (discarded : List String) (st : Idx Sel) : Bool :=
  discarded.any (fun p =>
    decide (2 ≤ discarded.count p) && st.eps.all (fun q => q.1 == id || !(q.2.parents.contains p)))

/-- the loop that builds `newEndpointData.parents`: a parent that is already in the slice is
skipped, so a repeated profile id counts once (first occurrence wins for label inheritance). -/
def dedupParents (parentIDs : List String) : List String :=
  parentIDs.foldl (fun acc p => if p ∈ acc then acc else acc ++ [p]) []

/-- `UpdateEndpointOrSet` from the point where `newEndpointData` has been built (`parents` is the
de-duplicated list). -/
def updateEndpointCore (id : String) (labels : Labels) (nets : List Cidr) (ports : List Port)
    (parents : List String) (st : Idx Sel) : Idx Sel :=
  let new : EpData := { labels := labels, nets := nets, ports := ports, parents := parents, cached := [] }
  match alGet id st.eps with
  | some old =>
    if epEquals old new then st
    else
      let st0 := if recalcPanics old st then { st with panicked := true } else st
      let oldC := recalc old st0
      let st1 := { st0 with eps := alErase id st0.eps }
      let r := scanEp matchSel new oldC st1
      let st2 := { r.1 with eps := alSet id r.2 r.1.eps }
      if discardPanics id (old.parents.filter (fun p => !(parents.contains p))) st2 then
        { st2 with panicked := true }
      else st2
  | none =>
    let r := scanEp matchSel new [] st
    { r.1 with eps := alSet id r.2 r.1.eps }

/-- `UpdateEndpointOrSet`. -/
def updateEndpoint (id : String) (labels : Labels) (nets : List Cidr) (ports : List Port)
    (parentIDs : List String) (st : Idx Sel) : Idx Sel :=
  updateEndpointCore matchSel id labels nets ports (dedupParents parentIDs) st

/-- `DeleteEndpoint`. -/
def deleteEndpoint (id : String) (st : Idx Sel) : Idx Sel :=
  match alGet id st.eps with
  | none => st
  | some old =>
    let st0 := if recalcPanics old st then { st with panicked := true } else st
    let st1 := decrefOld (recalc old st0) st0
    let st2 := { st1 with eps := alErase id st1.eps }
    if discardPanics id old.parents st2 then { st2 with panicked := true } else st2

/-- body of the loop in `updateParent` for one endpoint id. -/
def rescanEp (id : String) (st : Idx Sel) : Idx Sel :=
  match alGet id st.eps with
  | none => st
  | some e =>
    let st0 := if recalcPanics e st then { st with panicked := true } else st
    let r := scanEp matchSel e (recalc e st0) st0
    { r.1 with eps := alMod id (fun _ => r.2) r.1.eps }

/-- `UpdateParentLabels` (+ `updateParent`).  `RecalcCachedContributions` does not read
labels, so reverting the parent's labels around it (as the Go code does) is a no-op and
the new labels are simply installed first. -/
def updateParentLabels (pid : String) (labels : Labels) (st : Idx Sel) : Idx Sel :=
  if parentLabels st pid = labels then st
  else
    let ids := (st.eps.filter (fun p => pid ∈ p.2.parents)).map (·.1)
    let st1 := { st with parents := alSet pid labels st.parents }
    ids.foldl (fun st id => rescanEp matchSel id st) st1

/-- `DeleteParentLabels`. -/
def deleteParentLabels (pid : String) (st : Idx Sel) : Idx Sel :=
  updateParentLabels matchSel pid [] st

/-- `DeleteIPSet` (no callbacks).  The candidate iteration is a superset of the
endpoints that have `s` cached. -/
def deleteIPSetCore (s : String) (st : Idx Sel) : Idx Sel :=
  match alGet s st.ipsets with
  | none => st
  | some _ =>
    { st with
      eps := st.eps.map (fun p => (p.1, { p.2 with cached := p.2.cached.filter (fun x => x ≠ s) }))
      ipsets := alErase s st.ipsets
      tries := alErase s st.tries }

/-- body of the scan loop of `UpdateIPSet` for one endpoint. -/
def addIPSetScanOne (s : String) (sel : Sel) (id : String) (st : Idx Sel) : Idx Sel :=
  match alGet id st.eps, alGet s st.ipsets with
  | some e, some d =>
    if matchSel sel (effLabels st e) then
      let c := contrib e d
      if c = [] then st
      else
        let st1 := { st with eps := alMod id (fun e => { e with cached := setAdd s e.cached }) st.eps }
        increfAll s c st1
    else st
  | _, _ => st

/-- second half of `UpdateIPSet`: install the new `ipSetData` and scan the endpoints. -/
def addIPSet (s : String) (sel : Sel) (proto : Nat) (port : String) (st : Idx Sel) : Idx Sel :=
  let d : IpSetData Sel := { sel := sel, proto := proto, port := port, refc := [] }
  let st1 := { st with ipsets := alSet s d st.ipsets }
  (st1.eps.map (·.1)).foldl (fun st id => addIPSetScanOne matchSel s sel id st) st1

/-- one iteration of `for m := range oldIPSetData.memberToRefCount { idx.onMemberRemoved(ipSetID, m) }`.
The real loop leaves the refcount map alone; it is dead afterwards (`DeleteIPSet` drops it
and nothing in between reads it), so the model erases the entry as it goes. -/
def forceRemove (s : String) (m : Member) (st : Idx Sel) : Idx Sel :=
  let st1 := onMemberRemoved s m st
  { st1 with ipsets := alMod s (fun d => { d with refc := alErase m d.refc }) st1.ipsets }

/-- `UpdateIPSet`. -/
def updateIPSet (s : String) (sel : Sel) (proto : Nat) (port : String) (st : Idx Sel) : Idx Sel :=
  match alGet s st.ipsets with
  | some d =>
    if d.sel = sel ∧ d.proto = proto ∧ d.port = port then st
    else
      let st1 := (d.refc.map (·.1)).foldl (fun st m => forceRemove s m st) st
      addIPSet matchSel s sel proto port (deleteIPSetCore s st1)
  | none => addIPSet matchSel s sel proto port st

/-- `DeleteIPSet` as driven by the calc graph (`OnIPSetInactive`): index deletion plus
the consumer's `OnIPSetRemoved`. -/
def deleteIPSet (s : String) (st : Idx Sel) : Idx Sel :=
  emit (.cleared s) (deleteIPSetCore s st)

/-! ## inputs -/

/-- `extractCIDRsFromWorkloadEndpoint` / `extractCIDRsFromHostEndpoint`: the IP as a
full-length CIDR (any prefix length in the input is ignored, the IP is not masked). -/
def extractIPs (nets : List Cidr) : List Cidr :=
  nets.map (fun c => { v6 := c.v6, addr := c.addr, len := width c.v6 })

/-- `extractCIDRsFromNetworkSet`: canonicalise, and split a /0 into two /1s. -/
def extractNetSet (nets : List Cidr) : List Cidr :=
  nets.flatMap (fun c =>
    let m := Cidr.mask c.v6 c.addr c.len
    if m.len = 0 then
      [{ v6 := c.v6, addr := 0, len := 1 }, { v6 := c.v6, addr := 2 ^ (width c.v6 - 1), len := 1 }]
    else [m])

/-- Operations = the exported API as the calc graph drives it, plus permutations that
stand for Go's unspecified map iteration order. -/
inductive Op (Sel : Type) where
  | updateIPSet (s : String) (sel : Sel) (proto : Nat) (port : String)
  | deleteIPSet (s : String)
  | updateEndpoint (id : String) (labels : Labels) (nets : List Cidr) (ports : List Port) (parents : List String)
  | deleteEndpoint (id : String)
  | updateParentLabels (pid : String) (labels : Labels)
  | deleteParentLabels (pid : String)
  | permEps (l : List (String × EpData))
  | permIPSets (l : List (String × IpSetData Sel))
  | permCached (id : String) (l : List String)
  | permRefc (s : String) (l : List (Member × Nat))

def step (st : Idx Sel) : Op Sel → Idx Sel
  | .updateIPSet s sel proto port => updateIPSet matchSel s sel proto port st
  | .deleteIPSet s => deleteIPSet s st
  | .updateEndpoint id labels nets ports parents => updateEndpoint matchSel id labels nets ports parents st
  | .deleteEndpoint id => deleteEndpoint id st
  | .updateParentLabels pid labels => updateParentLabels matchSel pid labels st
  | .deleteParentLabels pid => deleteParentLabels matchSel pid st
  | .permEps l => if l.Perm st.eps then { st with eps := l } else st
  | .permIPSets l => if l.Perm st.ipsets then { st with ipsets := l } else st
  | .permCached id l =>
    { st with eps := alMod id (fun e => if l.Perm e.cached then { e with cached := l } else e) st.eps }
  | .permRefc s l =>
    { st with ipsets := alMod s (fun d => if l.Perm d.refc then { d with refc := l } else d) st.ipsets }

def run (st : Idx Sel) (ops : List (Op Sel)) : Idx Sel := ops.foldl (step matchSel) st

/-- Step with its own output: the callbacks made by this operation. -/
def stepEvents (st : Idx Sel) (op : Op Sel) : Idx Sel × List Event :=
  let st' := step matchSel st op
  (st', st'.out.drop st.out.length)

end

/-! ## the consumer's view -/

/-- The downstream IP-set contents as (set, member) pairs. -/
abbrev Down := List (String × Member)

/-- Strict application of one callback: adding a present member or removing an absent
one is an error (`none`). -/
def applyEvent (d : Down) : Event → Option Down
  | .added s m => if (s, m) ∈ d then none else some ((s, m) :: d)
  | .removed s m => if (s, m) ∈ d then some (d.filter (fun x => x ≠ (s, m))) else none
  | .cleared s => some (d.filter (fun x => x.1 ≠ s))

def replayFrom (d : Down) : List Event → Option Down
  | [] => some d
  | e :: es => match applyEvent d e with
    | none => none
    | some d' => replayFrom d' es

def replay (es : List Event) : Option Down := replayFrom [] es


/-! ## Interface for composition (C01)

* **State**: `Idx Sel` (`Idx.new Sel suppress` = `NewSelectorAndNamedPortIndex(suppress)`).
  `Sel` is the selector type, evaluation is the parameter `matchSel : Sel → Labels → Bool`
  (`Selector.Equal` is `=` on `Sel`).
* **Inputs**: `Op Sel` — `updateIPSet` / `deleteIPSet` (from the rule scanner's
  `OnIPSetActive` / `OnIPSetInactive`), `updateEndpoint` / `deleteEndpoint` (WEP / HEP /
  NetworkSet KVs after `extractIPs` / `extractNetSet`), `updateParentLabels` /
  `deleteParentLabels` (profile `LabelsToApply`); the `perm…` ops are Go map iteration order.
* **Step**: `step matchSel : Idx Sel → Op Sel → Idx Sel`; `run matchSel st ops`;
  `stepEvents` returns the callbacks of one op.
* **Output**: `Event` (`added s m` = `OnMemberAdded`, `removed s m` = `OnMemberRemoved`,
  `cleared s` = the consumer's `OnIPSetRemoved` issued together with `DeleteIPSet`);
  `st.out` is the whole log, `replay st.out : Option Down` the consumer's IP sets under strict
  application (`none` = a callback did not alternate).
* **Spec refined** (below): `memberSpec matchSel st s m`, a function of the CURRENT inputs only
  (`st.eps` data, `st.parents`, `st.ipsets` selector/protocol/port).  `Props/C04.lean`:
  `ipset_members_eq_spec` — for every history `ops` with `∀ op ∈ ops, op.ok`,
  `replay (run … ops).out = some D`, `D.Nodup`, no panic / wrap, and
  `(s, m) ∈ D ↔ memberSpec … s m`;  `refcount_eq_card`;  `suppressed_cover_eq_spec`;
  `run_suppress`.  `Op.ok` (in `Proofs/C04Main.lean`): nets canonical (profile-id lists may
  repeat ids; they are de-duplicated by `UpdateEndpointOrSet`).
-/

section Spec
variable {Sel : Type} [DecidableEq Sel]

/-- Member `m` is contributed to set `s` by some endpoint / network set whose effective labels
match the set's selector (`contrib` = its CIDRs, or for a named-port set the (address, protocol,
port) combinations of its matching named ports). -/
def contributed (matchSel : Sel → Labels → Bool) (st : Idx Sel) (s : String) (m : Member) : Prop :=
  ∃ p ∈ st.eps, ∃ d, alGet s st.ipsets = some d ∧ matchSel d.sel (effLabels st p.2) = true ∧ m ∈ contrib p.2 d

/-- What the consumer must hold: the contributed members; with overlap suppression, minus the
CIDRs strictly inside another contributed CIDR of the same set. -/
def memberSpec (matchSel : Sel → Labels → Bool) (st : Idx Sel) (s : String) (m : Member) : Prop :=
  contributed matchSel st s m ∧
  (st.suppress = true → ∀ c, m = .cidr c → ∀ c', contributed matchSel st s (.cidr c') → c'.sc c = false)

end Spec

end CalicoVerif.C04
