/-
C24 — model of Typha's snapshot cache and per-connection sender.

  typha/pkg/snapcache/cache.go       Cache: fillBatchFromInputQueue, publishBreadcrumbs, publishBreadcrumb,
                                     Breadcrumb chain (SequenceNumber, Timestamp, KVs, Deltas, SyncStatus)
  typha/pkg/syncproto/sync_proto.go  SerializeUpdate / WouldBeNoOp (serialisation itself is opaque and injective:
                                     a SerializedUpdate is modelled by the update it serialises)
  typha/pkg/syncserver/sync_server.go writeSnapshotMessages, sendDeltaUpdatesToClient (incl. maybeSendStatus)

Modelled state (Go → model):
  inputC (channel)                → `inputQ : List In`
  pendingStatus / pendingUpdates  → same names
  kvs (btree ordered by key)      → `kvs : List SU`, ascending key order, one entry per key
  currentBreadcrumb + next links  → `chain : List Crumb`, oldest first, last = current
  Breadcrumb.Timestamp            → `ts : Nat` (the harness scripts the clock)
Not modelled: goroutines/condition variable (a blocked `Next` = end of the chain), metrics, health, ping/pong,
handshake, compression / binary snapshot path (snap_precalc.go), gob framing.  TTL is constant.  Keys are
naturals whose order is the order of the serialised key strings.

Core Lean only.
-/
namespace CalicoVerif.C24

abbrev utUnknown : Nat := 0
abbrev utNew : Nat := 1
abbrev utUpdated : Nat := 2
abbrev utDeleted : Nat := 3

abbrev stWait : Nat := 0
abbrev stResync : Nat := 1
abbrev stInSync : Nat := 2

/-- api.Update / syncproto.SerializedUpdate (`val = none` ⇔ `Value == nil`). -/
structure SU where
  key : Nat
  val : Option Nat
  rev : Nat
  ut : Nat
deriving DecidableEq, Repr

/-- An object on the cache's input channel. -/
inductive In where
  | st (s : Nat)
  | ups (us : List SU)
deriving DecidableEq, Repr

structure Crumb where
  seq : Nat
  ts : Nat
  kvs : List SU
  deltas : List SU
  status : Nat
deriving DecidableEq, Repr

structure Cache where
  maxBatch : Nat
  inputQ : List In
  pendingStatus : Nat
  pendingUpdates : List SU
  kvs : List SU
  /-- crumbs before the current one, oldest first -/
  older : List Crumb
  /-- `currentBreadcrumb` -/
  cur : Crumb
deriving Repr

def Cache.chain (c : Cache) : List Crumb := c.older ++ [c.cur]

/-- `snapcache.New(config)` (after `ApplyDefaults`). -/
def Cache.new (maxBatch : Nat) : Cache :=
  { maxBatch := if maxBatch = 0 then 100 else maxBatch, inputQ := [], pendingStatus := stWait, pendingUpdates := [],
    kvs := [], older := [], cur := { seq := 0, ts := 0, kvs := [], deltas := [], status := stWait } }

/-! ### the B-tree (ordered by key, one entry per key) -/

def kvsGet : List SU → Nat → Option SU
  | [], _ => none
  | x :: xs, k => if x.key = k then some x else kvsGet xs k

def kvsDelete : List SU → Nat → List SU
  | [], _ => []
  | x :: xs, k => if x.key = k then xs else x :: kvsDelete xs k

/-- `ReplaceOrInsert`. -/
def kvsInsert : List SU → SU → List SU
  | [], u => [u]
  | x :: xs, u =>
    if u.key < x.key then u :: x :: xs
    else if u.key = x.key then u :: xs
    else x :: kvsInsert xs u

/-- `newUpd.WouldBeNoOp(oldUpd)`: revisions ignored, a stored `New` compares as `Updated`. -/
def wouldBeNoOp (new old : SU) : Bool :=
  new.val == old.val && new.ut == (if old.ut == utNew then utUpdated else old.ut)

/-- Body of the `for _, upd := range updates` loop of `publishBreadcrumb`: state is (kvs, deltas). -/
def applyOne (st : List SU × List SU) (upd : SU) : List SU × List SU :=
  match upd.val with
  | none => (kvsDelete st.1 upd.key, st.2 ++ [upd])
  | some _ =>
    match kvsGet st.1 upd.key with
    | some old =>
      if wouldBeNoOp upd old then st
      else (kvsInsert st.1 { upd with ut := utNew }, st.2 ++ [upd])
    | none => (kvsInsert st.1 { upd with ut := utNew }, st.2 ++ [upd])

/-- `publishBreadcrumb()`; `ts` is the new crumb's timestamp. -/
def publishBreadcrumb (c : Cache) (ts : Nat) : Cache :=
  let big := c.pendingUpdates.length > c.maxBatch
  let updates := if big then c.pendingUpdates.take c.maxBatch else c.pendingUpdates
  let rest := if big then c.pendingUpdates.drop c.maxBatch else []
  let lastUpdate := !big
  let statusChanged := lastUpdate && c.pendingStatus != c.cur.status
  let status := if statusChanged then c.pendingStatus else c.cur.status
  let r := updates.foldl applyOne (c.kvs, [])
  if statusChanged || !r.2.isEmpty then
    { c with pendingUpdates := rest, kvs := r.1, older := c.older ++ [c.cur],
             cur := { seq := c.cur.seq + 1, ts := ts, kvs := r.1, deltas := r.2, status := status } }
  else
    { c with pendingUpdates := rest, kvs := r.1 }

/-- The `for len(c.pendingUpdates) > 0` loop of `publishBreadcrumbs`.  A minted crumb takes timestamp
`ts` and the next one `ts + 1`; a skipped crumb does not consume a timestamp. -/
def publishRest (c : Cache) (ts : Nat) : Nat → Cache
  | 0 => c
  | fuel + 1 =>
    if c.pendingUpdates.isEmpty then c
    else
      let c' := publishBreadcrumb c ts
      publishRest c' (if c'.cur.seq = c.cur.seq then ts else ts + 1) fuel

/-- `publishBreadcrumbs()`: always one call, then until `pendingUpdates` is empty. -/
def publishBreadcrumbs (c : Cache) (ts : Nat) : Cache :=
  let c1 := publishBreadcrumb c ts
  publishRest c1 (if c1.cur.seq = c.cur.seq then ts else ts + 1) c1.pendingUpdates.length

/-- `storePendingUpdate(obj)`: returns the cache and the amount added to `batchSize`. -/
def storePending (c : Cache) : In → Cache × Nat
  | .st s => ({ c with pendingStatus := s }, 1)
  | .ups us => ({ c with pendingUpdates := c.pendingUpdates ++ us }, us.length)

/-- The `batchLoop` of `fillBatchFromInputQueue`. -/
def batchLoop (c : Cache) (batchSize : Nat) : List In → Cache × List In
  | [] => (c, [])
  | o :: q =>
    if batchSize < c.maxBatch then
      let r := storePending c o
      batchLoop r.1 (batchSize + r.2) q
    else (c, o :: q)

/-- `fillBatchFromInputQueue` when the channel is non-empty. -/
def fillBatch (c : Cache) : Cache :=
  match c.inputQ with
  | [] => c
  | o :: q =>
    let r := storePending c o
    let r2 := batchLoop r.1 r.2 q
    { r2.1 with inputQ := r2.2 }

/-- One iteration of `Cache.loop`. -/
def loopOnce (c : Cache) (ts : Nat) : Cache := publishBreadcrumbs (fillBatch c) ts

/-- `OnUpdates` / `OnStatusUpdated`: push on the channel (0-length updates are ignored). -/
def push (c : Cache) (o : In) : Cache :=
  match o with
  | .ups [] => c
  | _ => { c with inputQ := c.inputQ ++ [o] }

/-! ### server side: one connection -/

inductive Msg where
  | kvs (l : List SU)
  | status (s : Nat)
deriving DecidableEq, Repr

/-- `writeSnapshotMessages`: the crumb's KVs in key order, in messages of `maxMsg` entries. -/
def chunks (maxMsg : Nat) : Nat → List SU → List (List SU)
  | 0, _ => []
  | fuel + 1, l =>
    if l.isEmpty then []
    else l.take (max maxMsg 1) :: chunks maxMsg fuel (l.drop (max maxMsg 1))

def snapshotMsgs (crumb : Crumb) (maxMsg : Nat) : List Msg :=
  (chunks maxMsg crumb.kvs.length crumb.kvs).map Msg.kvs

structure SrvCfg where
  maxMsg : Nat
  minBatchAge : Nat
  maxFallBehind : Nat
  /-- `time.Now().After(gracePeriodEndTime)` -/
  graceExpired : Bool
deriving Repr

inductive Inner where
  /-- `Next` would block: end of the chain reached with `acc` accumulated -/
  | blocked (pos : Nat) (acc : List SU) (lags : List Nat)
  /-- "Client fell behind. Disconnecting." -/
  | disconnected (pos : Nat)
  /-- inner loop left with `acc` to send -/
  | done (pos : Nat) (acc : List SU) (lags : List Nat)

/-- The inner `for len(deltas) < h.config.MaxMessageSize` loop of `sendDeltaUpdatesToClient`.
`pos` indexes the chain; each `Next` consumes one entry of `lags` (how many crumbs ahead of the
client's crumb `CurrentBreadcrumb()` is at that moment, clipped to the end of the chain). -/
def inner (chain : List Crumb) (cfg : SrvCfg) : Nat → Nat → List SU → List Nat → Inner
  | 0, pos, acc, lags => .blocked pos acc lags
  | fuel + 1, pos, acc, lags =>
    if acc.length < cfg.maxMsg then
      match chain[pos + 1]? with
      | none => .blocked pos acc lags
      | some crumb =>
        let lag := lags.headD 0
        let lags := lags.tail
        let latest := (chain[min (pos + 1 + lag) (chain.length - 1)]?).getD crumb
        let age := latest.ts - crumb.ts
        if age > cfg.maxFallBehind && cfg.graceExpired then .disconnected (pos + 1)
        else if age < cfg.minBatchAge && acc.isEmpty then .done (pos + 1) crumb.deltas lags
        else
          let acc := acc ++ crumb.deltas
          if age < cfg.minBatchAge then .done (pos + 1) acc lags
          else inner chain cfg fuel (pos + 1) acc lags
    else .done pos acc lags

structure SendResult where
  msgs : List Msg
  pos : Nat
  disconnected : Bool
  /-- deltas accumulated but not sent when `Next` blocked (empty whenever minBatchAge > 0) -/
  held : List SU
deriving Repr

/-- The outer `for h.cxt.Err() == nil` loop. -/
def outer (chain : List Crumb) (cfg : SrvCfg) : Nat → Nat → Nat → List Nat → List Msg → SendResult
  | 0, pos, _, _, out => { msgs := out, pos := pos, disconnected := false, held := [] }
  | fuel + 1, pos, lastSent, lags, out =>
    match inner chain cfg chain.length pos [] lags with
    | .blocked pos acc _ => { msgs := out, pos := pos, disconnected := false, held := acc }
    | .disconnected pos => { msgs := out, pos := pos, disconnected := true, held := [] }
    | .done pos acc lags =>
      let out := if acc.length > 0 then out ++ [Msg.kvs acc] else out
      let st := ((chain[pos]?).map (·.status)).getD lastSent
      if lastSent != st then outer chain cfg fuel pos st lags (out ++ [Msg.status st])
      else outer chain cfg fuel pos lastSent lags out

/-- `sendDeltaUpdatesToClient(breadcrumb)` started at chain index `start`, run until `Next` blocks at the
end of the chain or the client is disconnected. -/
def sendDeltas (chain : List Crumb) (cfg : SrvCfg) (start : Nat) (lags : List Nat) : SendResult :=
  let st0 := ((chain[start]?).map (·.status)).getD stWait
  let out := if stWait != st0 then [Msg.status st0] else []
  outer chain cfg (chain.length + 1) start st0 lags out

end CalicoVerif.C24
