import CalicoVerif.Model.C18
/-
C41 — model of felix/dataplane/linux/flowtable_mgr.go (flowtableExclusionManager,
workloadNeedsForwardHooks, stripSubnetMasks) and of the flow-offload rule that
felix/rules/static.go StaticFilterForwardChains puts at the top of the filter
FORWARD chain (rendered as felix/nftables renders it).

Go maps are the association lists of `CalicoVerif.C18` (`get`/`set`/`del`).
Endpoint ids are `Nat`s (the harness maps them to real proto ids), addresses are
strings.  The IP sets dataplane is the mock "remember the members of the last
AddOrReplaceIPSet call".  Core Lean only.
-/
namespace CalicoVerif.C41
open CalicoVerif.C18 (GoMap get set del)

/-- The `QoSControls` fields `workloadNeedsForwardHooks` reads, plus one it must ignore (`bw`). -/
structure QosControls where
  imc : Int   -- IngressMaxConnections
  emc : Int   -- EgressMaxConnections
  ipr : Int   -- IngressPacketRate
  epr : Int   -- EgressPacketRate
  bw : Int    -- IngressBandwidth (tc; deliberately not a reason to exclude)
deriving Repr, DecidableEq

/-- `*proto.WorkloadEndpoint` as far as the manager reads it. -/
structure Wep where
  present : Bool              -- msg.Endpoint != nil
  nQos : Nat                  -- len(QosPolicies) (DSCP marking)
  controls : Option QosControls
  nets4 : List String
  nets6 : List String
deriving Repr, DecidableEq

/-- `*proto.HostEndpoint` as far as the manager reads it. -/
structure Hep where
  nQos : Nat
  ips4 : List String
  ips6 : List String
deriving Repr, DecidableEq

/-- `workloadNeedsForwardHooks`. -/
def workloadNeedsForwardHooks (w : Wep) : Bool :=
  if !w.present then false
  else if w.nQos > 0 then true
  else match w.controls with
    | none => false
    | some q => q.imc != 0 || q.emc != 0 || q.ipr != 0 || q.epr != 0

/-- `strings.Split(addr, "/")[0]`. -/
def stripMask (addr : String) : String := (addr.splitOn "/").headD addr

/-- `stripSubnetMasks`. -/
def stripSubnetMasks (addrs : List String) : List String := addrs.map stripMask

structure Mgr where
  ipVersion : Nat
  wepIPs : GoMap Nat (List String)
  hepIPs : GoMap Nat (List String)
  dirty : Bool
  /-- mock IP sets dataplane: members of the last `AddOrReplaceIPSet`. -/
  last : Option (List String)

/-- `newFlowtableExclusionManager`. -/
def Mgr.new (ipVersion : Nat) : Mgr :=
  { ipVersion := ipVersion, wepIPs := [], hepIPs := [], dirty := true, last := none }

/-- `removeWorkload`. -/
def Mgr.removeWorkload (m : Mgr) (id : Nat) : Mgr :=
  match get m.wepIPs id with
  | some _ => { m with wepIPs := del m.wepIPs id, dirty := true }
  | none => m

/-- `removeHost`. -/
def Mgr.removeHost (m : Mgr) (id : Nat) : Mgr :=
  match get m.hepIPs id with
  | some _ => { m with hepIPs := del m.hepIPs id, dirty := true }
  | none => m

inductive Op
  | wepUpdate (id : Nat) (w : Wep)
  | wepRemove (id : Nat)
  | hepUpdate (id : Nat) (h : Hep)
  | hepRemove (id : Nat)
  | complete
deriving Repr

def Wep.nets (w : Wep) (ipVersion : Nat) : List String := if ipVersion = 6 then w.nets6 else w.nets4
def Hep.ips (h : Hep) (ipVersion : Nat) : List String := if ipVersion = 6 then h.ips6 else h.ips4

/-- All members handed to `AddOrReplaceIPSet` (map order = list order; only the SET matters). -/
def Mgr.members (m : Mgr) : List String :=
  (m.wepIPs.map (·.2)).flatten ++ (m.hepIPs.map (·.2)).flatten

/-- `OnUpdate` / `CompleteDeferredWork`. -/
def Mgr.step (m : Mgr) : Op → Mgr
  | .wepUpdate id w =>
    if !workloadNeedsForwardHooks w then m.removeWorkload id
    else { m with wepIPs := set m.wepIPs id (stripSubnetMasks (w.nets m.ipVersion)), dirty := true }
  | .wepRemove id => m.removeWorkload id
  | .hepUpdate id h =>
    if h.nQos = 0 then m.removeHost id
    else { m with hepIPs := set m.hepIPs id (stripSubnetMasks (h.ips m.ipVersion)), dirty := true }
  | .hepRemove id => m.removeHost id
  | .complete =>
    if !m.dirty then m
    else { m with last := some m.members, dirty := false }

def run (ipVersion : Nat) (ops : List Op) : Mgr := ops.foldl Mgr.step (Mgr.new ipVersion)

/-! ### The offload rule -/

inductive CtState | new | established | related | invalid | untracked
deriving DecidableEq, Repr

def CtState.name : CtState → String
  | .new => "new" | .established => "established" | .related => "related"
  | .invalid => "invalid" | .untracked => "untracked"

/-- The match clauses used by the offload rule. -/
inductive Clause
  | ctState (ss : List CtState)      -- ConntrackState("…")
  | notSrcSet (name : String)        -- NotSourceIPSet(name)
  | notDstSet (name : String)        -- NotDestIPSet(name)
deriving Repr

structure Rule where
  clauses : List Clause
  action : String

/-- `IPVersionConfig.NameForMainIPSet(IPSetIDNoFlowOffload)` for the "cali" prefix. -/
def noOffloadSetName (ipv : Nat) : String := s!"cali{ipv}0no-flow-offload"

/-- The rule `StaticFilterForwardChains` prepends when nft ∧ NFTablesFlowTableOffload. -/
def offloadRule (ipv : Nat) : Rule :=
  { clauses := [.ctState [.related, .established], .notSrcSet (noOffloadSetName ipv), .notDstSet (noOffloadSetName ipv)],
    action := "flow offload @calico" }

def ipvWord (ipv : Nat) : String := if ipv = 6 then "ip6" else "ip"

/-- nftMatch clause rendering + `insertIPVersion`. -/
def Clause.render (ipv : Nat) : Clause → String
  | .ctState ss => "ct state " ++ ",".intercalate (ss.map CtState.name)
  | .notSrcSet n => s!"{ipvWord ipv} saddr != @{n}"
  | .notDstSet n => s!"{ipvWord ipv} daddr != @{n}"

/-- `nftRenderer.renderRule`. -/
def Rule.render (ipv : Nat) (r : Rule) : String :=
  " ".intercalate (r.clauses.map (Clause.render ipv) ++ ["counter", r.action])

/-- A forwarded packet as the rule sees it. -/
structure Pkt where
  ct : CtState
  src : String
  dst : String

/-- nftables semantics of the three clause kinds; `sets name ip` = "ip is in set name". -/
def Clause.eval (sets : String → String → Bool) (p : Pkt) : Clause → Bool
  | .ctState ss => ss.contains p.ct
  | .notSrcSet n => !sets n p.src
  | .notDstSet n => !sets n p.dst

/-- A rule fires iff all its clauses match. -/
def Rule.fires (sets : String → String → Bool) (p : Pkt) (r : Rule) : Bool :=
  r.clauses.all (Clause.eval sets p)


/-! ### flowtableManager: the flowtable device set -/

/-- `flowtableManager` with the mock handlers' last `SetOverlayDevices` (one list per target) and
`SetExternalDevices` (the same list for every target).  `pattern` models `devicePattern.MatchString`. -/
structure FtMgr where
  targets : List (List String)      -- overlayDevices of each flowtableTarget
  activeOverlay : List String       -- set.Set[string]
  activeExternal : List String
  dirty : Bool
  last : Option (List (List String) × List String)

def FtMgr.new (targets : List (List String)) : FtMgr :=
  { targets := targets, activeOverlay := [], activeExternal := [], dirty := true, last := none }

/-- `isOverlayDevice`. -/
def FtMgr.isOverlayDevice (m : FtMgr) (name : String) : Bool := m.targets.any (fun t => t.contains name)

def sortStrings (l : List String) : List String := l.mergeSort (fun a b => a ≤ b)

/-- `OnUpdate(*ifaceStateUpdate)`. -/
def FtMgr.onIface (pattern : String → Bool) (m : FtMgr) (name : String) (up : Bool) : FtMgr :=
  if m.isOverlayDevice name then
    if up then
      if m.activeOverlay.contains name then m
      else { m with activeOverlay := name :: m.activeOverlay, dirty := true }
    else
      if !m.activeOverlay.contains name then m
      else { m with activeOverlay := m.activeOverlay.filter (· != name), dirty := true }
  else if pattern name then
    if up then
      if m.activeExternal.contains name then m
      else { m with activeExternal := name :: m.activeExternal, dirty := true }
    else
      if !m.activeExternal.contains name then m
      else { m with activeExternal := m.activeExternal.filter (· != name), dirty := true }
  else m

/-- `CompleteDeferredWork`. -/
def FtMgr.complete (m : FtMgr) : FtMgr :=
  if !m.dirty then m
  else
    let external := sortStrings m.activeExternal
    let overlays := m.targets.map (fun t => sortStrings (t.filter (fun d => m.activeOverlay.contains d)))
    { m with last := some (overlays, external), dirty := false }

inductive FtOp
  | iface (name : String) (up : Bool)
  | complete

def FtMgr.step (pattern : String → Bool) (m : FtMgr) : FtOp → FtMgr
  | .iface n u => m.onIface pattern n u
  | .complete => m.complete

def ftRun (pattern : String → Bool) (targets : List (List String)) (ops : List FtOp) : FtMgr :=
  ops.foldl (FtMgr.step pattern) (FtMgr.new targets)

/-- Specification: which interfaces are up = what the last state update of each said. -/
def ftUpStep (u : String → Bool) : FtOp → (String → Bool)
  | .iface n s => fun x => if x = n then s else u x
  | .complete => u

def ftUp (ops : List FtOp) : String → Bool := ops.foldl ftUpStep (fun _ => false)

end CalicoVerif.C41
