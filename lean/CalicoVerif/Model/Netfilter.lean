/-
Model/Netfilter — abstract iptables / nftables rules as Felix emits them
(`felix/generictables`, `felix/iptables/{match_builder,actions,renderer}.go`,
`felix/nftables/{match_builder,actions,renderer}.go`), with

* the two *printers* (`Rule.toIptables`, `Rule.toNft`) that reproduce, byte for
  byte, what `iptablesRenderer.RenderAppend` / `nftRenderer.Render(...).Rule`
  print for the same rule (this is what the correspondence checks compare), and
* the *packet semantics* of a rule list / chain graph (`runRules`, `evalChain`):
  first-match-wins per rule, non-terminating targets (MARK, LOG, NFLOG, NOTRACK)
  continue with the next rule, `jump` pushes a return point, `goto` does not,
  `RETURN`/end of chain returns to the caller.

Shared by C08, C09, C10 (owner) and reused by C40/C12/C11/C30.  Core Lean only.

The kernel's behaviour (xt_mark, xt_MARK, multiport, set, nft meta/payload
expressions, verdict maps) is *trusted semantics*: it is what this file says it is.
-/
namespace CalicoVerif.Netfilter

/-! ## Basic data -/

/-- Interface names are byte strings (Go strings; `sort.Strings` is bytewise). -/
abbrev Bytes := List UInt8

/-- Packet / rule mark values (`uint32` in Go). -/
abbrev Mark := BitVec 32

inductive Dataplane where
  | ipt | nft
  deriving DecidableEq, Repr, Inhabited

/-- `proto.Protocol`: either a name or a number. -/
inductive Proto where
  | name (s : String)
  | num (n : Nat)
  deriving DecidableEq, Repr, Inhabited

structure PortRange where
  first : Nat
  last : Nat
  deriving DecidableEq, Repr, Inhabited

inductive Dir where
  | src | dst
  deriving DecidableEq, Repr, Inhabited

/-- One match clause, one per call on `generictables.MatchCriteria`
(the Go builders append one text fragment per call, in call order). -/
inductive Clause where
  /-- `MarkMatchesWithMask(v, m)` (`neg = false`), `NotMarkMatchesWithMask` (`neg = true`);
      `MarkClear m` is `mark false 0 m`, `MarkNotClear m` is `mark true 0 m`,
      `MarkSingleBitSet m` is `mark false m m` (their rendered text coincides). -/
  | mark (neg : Bool) (value mask : Mark)
  | inIface (pat : Bytes)
  | outIface (pat : Bytes)
  | proto (neg : Bool) (p : Proto)
  | net (d : Dir) (neg : Bool) (cidr : String)
  | ipset (d : Dir) (neg : Bool) (name : String)
  | ipportset (d : Dir) (neg : Bool) (name : String)
  | ports (d : Dir) (neg : Bool) (rs : List PortRange)
  /-- `ICMPType`/`ICMPTypeAndCode`/`ICMPV6…` and their `Not…` forms. -/
  | icmp (v6 : Bool) (neg : Bool) (type : Nat) (code : Option Nat)
  /-- `ConntrackState("A,B")`: the comma separated state list, kept as a list -/
  | ctState (neg : Bool) (states : List String)
  | limit (rate : String) (burst : Nat)
  deriving DecidableEq, Repr, Inhabited

inductive Action where
  | none                         -- Go `Action == nil`
  | accept | drop | reject | ret
  | jump (target : String)
  | goto (target : String)
  | setMark (m : Mark)
  | setMaskedMark (value mask : Mark)
  | clearMark (m : Mark)
  | log (pfx : String)
  | nflog (group : Nat) (pfx : String)
  | notrack
  /-- nftables only: `InInterfaceVMAP` / `OutInterfaceVMAP` (Go: a match-builder call on a rule
      whose `Action` is nil).  Not a match but a verdict-map statement: if the interface name is a
      key of the map its verdict is taken, otherwise evaluation continues with the next rule. -/
  | vmap (d : Dir) (mapName : String)
  deriving DecidableEq, Repr, Inhabited

structure Rule where
  clauses : List Clause := []
  action : Action := .none
  comments : List String := []
  deriving DecidableEq, Repr, Inhabited

structure Chain where
  name : String
  rules : List Rule
  deriving DecidableEq, Repr, Inhabited

/-! ## Printers -/

def hexDigit (n : Nat) : Char :=
  if n < 10 then Char.ofNat (48 + n) else Char.ofNat (87 + n)

/-- Go `%#x` of an unsigned value: `0x…` lowercase (`0` prints as `0x0`). -/
def goHex (n : Nat) : String := "0x" ++ String.ofList ((Nat.toDigits 16 n))

def markHex (m : Mark) : String := goHex m.toNat

/-- The value of a mark *match*: `MarkClear`/`MarkNotClear` print a literal `0`
(`.mark _ 0 m` always denotes those two builders; Felix never calls `MarkMatchesWithMask(0, m)`). -/
def markValHex (v : Mark) : String := if v = 0 then "0" else markHex v

/-- Escape used on BOTH sides of the correspondence so that arbitrary bytes survive the
line protocol: printable ASCII except `%` is kept, anything else becomes `%XX`. -/
def escByte (b : UInt8) : String :=
  let n := b.toNat
  if 32 ≤ n ∧ n ≤ 126 ∧ n ≠ 37 then String.singleton (Char.ofNat n)
  else "%" ++ String.ofList [hexDigit (n / 16), hexDigit (n % 16)]

def escBytes (bs : Bytes) : String := String.join (bs.map escByte)

/-- Text that contains only bytes we never need to escape is passed through as `String`. -/
def Proto.text : Proto → String
  | .name s => s
  | .num n => toString n

def portsIpt (rs : List PortRange) : String :=
  ",".intercalate (rs.map fun r => if r.first = r.last then toString r.first else s!"{r.first}:{r.last}")

def portsNft (rs : List PortRange) : String :=
  "{ " ++ ", ".intercalate (rs.map fun r => if r.first = r.last then toString r.first else s!"{r.first}-{r.last}") ++ " }"

def bang (neg : Bool) : String := if neg then "! " else ""

/-- `iptables.matchCriteria` fragment for one clause (`none` = the Go builder panics). -/
def Clause.toIpt : Clause → Option String
  | .mark neg v m => some s!"-m mark {bang neg}--mark {markValHex v}/{markHex m}"
  | .inIface p => some s!"--in-interface {escBytes p}"
  | .outIface p => some s!"--out-interface {escBytes p}"
  | .proto neg p => some s!"{bang neg}-p {p.text}"
  | .net .src neg c => some s!"{bang neg}--source {c}"
  | .net .dst neg c => some s!"{bang neg}--destination {c}"
  | .ipset d neg n => some s!"-m set {bang neg}--match-set {n} {if d = .src then "src" else "dst"}"
  | .ipportset d neg n => some s!"-m set {bang neg}--match-set {n} {if d = .src then "src,src" else "dst,dst"}"
  | .ports d neg rs =>
      some s!"-m multiport {bang neg}--{if d = .src then "source" else "destination"}-ports {portsIpt rs}"
  | .icmp v6 neg t c =>
      let tc := match c with | some c => s!"{t}/{c}" | Option.none => toString t
      if v6 then some s!"-m icmp6 {bang neg}--icmpv6-type {tc}" else some s!"-m icmp {bang neg}--icmp-type {tc}"
  | .ctState neg s => some s!"-m conntrack {bang neg}--ctstate {",".intercalate s}"
  | .limit r b => if b = 0 then some s!"-m limit --limit {r}" else some s!"-m limit --limit {r} --limit-burst {b}"

def optAll : List (Option String) → Option (List String)
  | [] => some []
  | x :: xs => match x, optAll xs with
    | some a, some as => some (a :: as)
    | _, _ => Option.none

def iptActionText : Action → String
  | .none => ""
  | .accept => "--jump ACCEPT"
  | .drop => "--jump DROP"
  | .reject => "--jump REJECT"
  | .ret => "--jump RETURN"
  | .jump t => "--jump " ++ t
  | .goto t => "--goto " ++ t
  | .setMark m => s!"--jump MARK --set-mark {markHex m}/{markHex m}"
  | .setMaskedMark v m => s!"--jump MARK --set-mark {markHex v}/{markHex m}"
  | .clearMark m => s!"--jump MARK --set-mark 0/{markHex m}"
  | .log p => "--jump LOG --log-prefix \"" ++ p ++ ": \" --log-level 5"
  | .nflog g p => s!"--jump NFLOG --nflog-group {g} --nflog-prefix {p} --nflog-size 80"
  | .notrack => "--jump NOTRACK"
  | .vmap _ _ => "panic"

/-- `iptables.escapeComment`: anything outside word characters, space and `@%+=:,.` slash, dash
becomes `_` (ASCII input). -/
def escapeCommentChar (c : Char) : Char :=
  if c.isAlphanum || c = '_' || c = ' ' || c = '@' || c = '%' || c = '+' || c = '=' || c = ':' ||
     c = ',' || c = '.' || c = '/' || c = '-' then c else '_'

def escapeComment (s : String) : String := String.ofList (s.toList.map escapeCommentChar)

/-- `iptablesRenderer.RenderAppend(rule, chain, "", features)` (features.NFLogSize = true).
Comments longer than 256 bytes are not modelled (none of the modelled renderers emit one). -/
def Rule.toIptables (chain : String) (r : Rule) : Option String :=
  if (match r.action with | .vmap _ _ => true | _ => false) then Option.none else
  match optAll (r.clauses.map Clause.toIpt) with
  | Option.none => Option.none
  | some ms =>
    let frags := ["-A", chain]
      ++ r.comments.map (fun c => "-m comment --comment \"" ++ escapeComment c ++ "\"")
      ++ (let m := " ".intercalate ms; if m = "" then [] else [m])
      ++ (let a := iptActionText r.action; if a = "" then [] else [a])
    some (" ".intercalate frags)

/-- State threaded through the nft match builder: `nftMatch.proto` / `nftMatch.protoNum`. -/
structure NftProtoState where
  proto : String := ""
  protoNum : Nat := 0

/-- `nftMatch.transportProto` (`none` = panic). -/
def NftProtoState.transport (s : NftProtoState) : Option String :=
  if s.protoNum = 6 then some "tcp" else if s.protoNum = 17 then some "udp"
  else if s.protoNum = 132 then some "sctp"
  else if s.proto = "tcp" ∨ s.proto = "udp" ∨ s.proto = "sctp" then some s.proto
  else Option.none

def cmpNft (neg : Bool) : String := if neg then "!= " else ""

def legalizeSetName (s : String) : String := s.replace ":" "-"

/-- One nft clause.  `ipv` is the `<IPV>` replacement ("ip" / "ip6").  Returns the new
proto state and the text, `none` where the Go builder panics / calls `Fatal`. -/
def Clause.toNft (ipv : String) (st : NftProtoState) : Clause → Option (NftProtoState × String)
  | .mark neg v m => some (st, s!"meta mark & {markHex m} {if neg then "!=" else "=="} {markValHex v}")
  | .inIface p => some (st, s!"iifname {escBytes p}")
  | .outIface p => some (st, s!"oifname {escBytes p}")
  | .proto false p =>
      if st.proto ≠ "" ∨ st.protoNum ≠ 0 then Option.none
      else match p with
        | .name s => some ({ st with proto := s }, s!"meta l4proto {s}")
        | .num n =>
          -- `protocol()` panics when the number is 0 (neither field set)
          if n = 0 then Option.none else some ({ st with protoNum := n }, s!"meta l4proto {n}")
  | .proto true p => some (st, s!"meta l4proto != {p.text}")
  | .net d neg c => some (st, s!"{ipv} {if d = .src then "saddr" else "daddr"} {cmpNft neg}{c}")
  | .ipset d neg n =>
      some (st, s!"{ipv} {if d = .src then "saddr" else "daddr"} {cmpNft neg}@{legalizeSetName n}")
  | .ipportset d neg n =>
      some (st, s!"{ipv} {if d = .src then "saddr . meta l4proto . th sport" else "daddr . meta l4proto . th dport"} {cmpNft neg}@{legalizeSetName n}")
  | .ports d neg rs => match st.transport with
      | Option.none => Option.none
      | some tp => some (st, s!"{tp} {if d = .src then "sport" else "dport"} {cmpNft neg}{portsNft rs}")
  | .icmp v6 neg t c =>
      let fam := if v6 then "icmpv6" else "icmp"
      match c with
      | Option.none => some (st, s!"{fam} type {cmpNft neg}{t}")
      | some c => some (st, s!"{fam} type {cmpNft neg}{t} code {cmpNft neg}{c}")
  | .ctState neg s => some (st, s!"ct state {cmpNft neg}{(",".intercalate s).toLower}")
  | .limit r b => if b > 0 then some (st, s!"limit rate {r} burst {b} packets") else some (st, s!"limit rate {r}")

def clausesToNft (ipv : String) : NftProtoState → List Clause → Option (List String)
  | _, [] => some []
  | st, c :: cs => match c.toNft ipv st with
    | Option.none => Option.none
    | some (st', t) => match clausesToNft ipv st' cs with
      | Option.none => Option.none
      | some ts => some (t :: ts)

def nftActionText : Action → String
  | .none => ""
  | .accept => "accept"
  | .drop => "drop"
  | .reject => "reject"
  | .ret => "return"
  | .jump t => "jump " ++ t
  | .goto t => "goto " ++ t
  | .setMark m => s!"meta mark set mark or {markHex m}"
  | .setMaskedMark v m => s!"meta mark set mark & {markHex (~~~ m)} ^ {markHex v}"
  | .clearMark m => s!"meta mark set mark & {markHex (~~~ m)}"
  | .log p => "log prefix \"" ++ p ++ ": \" level info"
  | .nflog g p => "log prefix \"" ++ p ++ "\" snaplen 80 group " ++ toString g
  | .notrack => "notrack"
  | .vmap d n => s!"{if d = .src then "iifname" else "oifname"} vmap @-{legalizeSetName n}"

/-- `nftRenderer.Render(chain, "", rule, features).Rule` for IP version `v6`. -/
def Rule.toNft (v6 : Bool) (r : Rule) : Option String :=
  match clausesToNft (if v6 then "ip6" else "ip") {} r.clauses with
  | Option.none => Option.none
  | some ms =>
    let m := " ".intercalate ms
    let isVmap := match r.action with | .vmap _ _ => true | _ => false
    let frags := (if m = "" then [] else [m])
      ++ (if r.action = .none then [] else
            (if isVmap then [] else ["counter"]) ++ (let a := nftActionText r.action; if a = "" then [] else [a]))
    let inner := " ".intercalate frags
    some (if inner = "" then "continue" else inner)

def Rule.render (dp : Dataplane) (v6 : Bool) (chain : String) (r : Rule) : String :=
  match dp with
  | .ipt => (r.toIptables chain).getD "panic"
  | .nft => match r.toNft v6 with
    | some s => s!"{chain}: {s}"
    | Option.none => "panic"

/-! ## Packets and matching -/

structure Packet where
  v6 : Bool := false
  proto : Nat := 6
  src : Nat := 0
  dst : Nat := 0
  sport : Nat := 0
  dport : Nat := 0
  icmpType : Nat := 0
  icmpCode : Nat := 0
  inIface : Bytes := []
  outIface : Bytes := []
  /-- conntrack state of the packet, one of the names used in `--ctstate` lists -/
  ctState : String := "NEW"
  deriving DecidableEq, Repr, Inhabited

/-- Everything the kernel looks up outside the rule text. -/
structure Env where
  dp : Dataplane := .ipt
  /-- does the CIDR (as written in the rule) contain the address? -/
  netContains : String → Nat → Bool := fun _ _ => false
  /-- IP set membership by *dataplane set name* -/
  inIPSet : String → Nat → Bool := fun _ _ => false
  /-- (ip, proto, port) set membership by dataplane set name -/
  inIPPortSet : String → Nat → Nat → Nat → Bool := fun _ _ _ _ => false
  /-- protocol name → number (`/etc/protocols`) -/
  protoNum : String → Option Nat := fun _ => Option.none
  /-- nft verdict maps: map name → key → verdict -/
  vmap : String → Bytes → Option Action := fun _ _ => Option.none
  /-- outcome of `-m limit` for this packet (only used on LOG rules) -/
  limitPass : Bool := true

def wildcardByte : Dataplane → UInt8
  | .ipt => 43   -- '+'
  | .nft => 42   -- '*'

/-- Interface pattern match: a pattern ending in the wildcard byte is a prefix match
on the rest, anything else must be equal (`xt` `-i`, nft `iifname`). -/
def ifaceMatches (dp : Dataplane) (pat iface : Bytes) : Bool :=
  match pat.getLast? with
  | some b => if b = wildcardByte dp then pat.dropLast.isPrefixOf iface else pat == iface
  | Option.none => pat == iface

def protoIs (env : Env) (p : Proto) (n : Nat) : Bool :=
  match p with
  | .num k => k == n
  | .name s => env.protoNum s == some n

def isPortProto (n : Nat) : Bool := n == 6 || n == 17 || n == 132 || n == 33 || n == 136

def inRanges (rs : List PortRange) (p : Nat) : Bool := rs.any fun r => r.first ≤ p && p ≤ r.last

def xorb (neg b : Bool) : Bool := if neg then !b else b

def Clause.matches (env : Env) (pkt : Packet) (mark : Mark) : Clause → Bool
  | .mark neg v m => xorb neg (mark &&& m == v)
  | .inIface p => ifaceMatches env.dp p pkt.inIface
  | .outIface p => ifaceMatches env.dp p pkt.outIface
  | .proto neg p => xorb neg (protoIs env p pkt.proto)
  | .net .src neg c => xorb neg (env.netContains c pkt.src)
  | .net .dst neg c => xorb neg (env.netContains c pkt.dst)
  | .ipset .src neg n => xorb neg (env.inIPSet n pkt.src)
  | .ipset .dst neg n => xorb neg (env.inIPSet n pkt.dst)
  | .ipportset .src neg n => xorb neg (env.inIPPortSet n pkt.src pkt.proto pkt.sport)
  | .ipportset .dst neg n => xorb neg (env.inIPPortSet n pkt.dst pkt.proto pkt.dport)
  -- multiport / `tcp dport {…}` only ever match packets of a protocol that has ports
  | .ports .src neg rs => isPortProto pkt.proto && xorb neg (inRanges rs pkt.sport)
  | .ports .dst neg rs => isPortProto pkt.proto && xorb neg (inRanges rs pkt.dport)
  | .icmp v6 neg t c =>
      let isIcmp := pkt.v6 == v6 && pkt.proto == (if v6 then 58 else 1)
      match env.dp, c with
      | _, Option.none => isIcmp && xorb neg (pkt.icmpType == t)
      | .ipt, some c => isIcmp && xorb neg (pkt.icmpType == t && pkt.icmpCode == c)
      -- nft renders two payload comparisons, each negated on its own
      | .nft, some c => isIcmp && xorb neg (pkt.icmpType == t) && xorb neg (pkt.icmpCode == c)
  | .ctState neg s => xorb neg (s.contains pkt.ctState)
  | .limit _ _ => env.limitPass

def Rule.matches (env : Env) (pkt : Packet) (mark : Mark) (r : Rule) : Bool :=
  r.clauses.all (Clause.matches env pkt mark)

/-! ## Evaluation -/

inductive Verdict where
  | accept | drop | reject
  deriving DecidableEq, Repr, Inhabited

/-- Outcome of evaluating a rule list / chain. -/
inductive Result where
  /-- a terminating target fired (with the mark at that point) -/
  | verdict (v : Verdict) (mark : Mark)
  /-- fell off the end / RETURN: control goes back to the caller with this mark -/
  | returned (mark : Mark)
  /-- jump/goto to a chain that does not exist (iptables-restore would refuse the table) -/
  | missing (chain : String)
  | outOfFuel
  deriving DecidableEq, Repr, Inhabited

/-- Effect of the mark-writing targets.
iptables `MARK --set-mark v/m` is `--set-xmark v/(m|v)`: `(mark & ~(m|v)) ^ v`;
nft prints `mark & ~m ^ v`.  (They agree when `v ⊆ m`, which all Felix callers ensure.) -/
def applyMark (dp : Dataplane) (mark : Mark) : Action → Mark
  | .setMark m => mark ||| m
  | .clearMark m => mark &&& ~~~ m
  | .setMaskedMark v m => match dp with
    | .ipt => (mark &&& ~~~ (m ||| v)) ^^^ v
    | .nft => (mark &&& ~~~ m) ^^^ v
  | _ => mark

/-- A verdict-map statement resolves to the verdict stored for the packet's interface (or to
"no action" when the interface is not a key); every other action is itself. -/
def resolveAction (env : Env) (pkt : Packet) : Action → Action
  | .vmap d n => (env.vmap n (if d = .src then pkt.inIface else pkt.outIface)).getD .none
  | a => a

/-- Evaluate a rule list.  `call t mark` evaluates chain `t` (one level less fuel). -/
def runRules (env : Env) (call : String → Mark → Result) (pkt : Packet) :
    List Rule → Mark → Result
  | [], mark => .returned mark
  | r :: rs, mark =>
    if r.matches env pkt mark then
      match resolveAction env pkt r.action with
      | .accept => .verdict .accept mark
      | .drop => .verdict .drop mark
      | .reject => .verdict .reject mark
      | .ret => .returned mark
      | .goto t => call t mark
      | .jump t => match call t mark with
        | .returned mark' => runRules env call pkt rs mark'
        | other => other
      | a => runRules env call pkt rs (applyMark env.dp mark a)
    else runRules env call pkt rs mark

def lookupChain (chains : List Chain) (name : String) : Option (List Rule) :=
  (chains.find? fun c => c.name == name).map (·.rules)

/-- Evaluate chain `name` with at most `fuel` nested jumps/gotos. -/
def evalChain (env : Env) (chains : List Chain) (pkt : Packet) : Nat → String → Mark → Result
  | 0, _, _ => .outOfFuel
  | fuel + 1, name, mark =>
    match lookupChain chains name with
    | Option.none => .missing name
    | some rules => runRules env (evalChain env chains pkt fuel) pkt rules mark

end CalicoVerif.Netfilter
