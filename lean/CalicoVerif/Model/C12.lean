import CalicoVerif.Model.C11Ref
/-
C12 — model of app-policy/checker (`checkTiers`, `checkRules`,
`matchL4Protocol`, `matchSrcNet`/`matchDstNet`; L3/L4 subset = protocol / not-protocol and literal
CIDR criteria) and of the
iptables/nftables PROFILE semantics of felix/rules/endpoints.go (jump to each
profile chain, return only if the accept mark is set), over the C11 policy
types.  The BPF side is `C11.verdict`.  Core Lean only.
-/
namespace CalicoVerif.C12
open CalicoVerif.C11

/-- checker `Action`. -/
inductive CAct | allow | deny | log | pass | noMatch
deriving DecidableEq, Repr, Inhabited

/-- `actionFromString` (panics on anything else: modelled as `none`). -/
def actionFromString (s : String) : Option CAct :=
  let l := asciiLower s
  if l == "allow" then some .allow else if l == "deny" then some .deny
  else if l == "pass" || l == "next-tier" then some .pass else if l == "log" then some .log else none

/-- `stringToProto`. -/
def stringToProto (s : String) : Option Int :=
  let l := asciiLower s
  if l == "icmp" then some 1 else if l == "icmpv6" then some 58 else if l == "tcp" then some 6
  else if l == "udp" then some 17 else if l == "udplite" then some 136 else if l == "sctp" then some 132
  else none

/-- `checkStringInRuleProtocol`. -/
def checkProto (p : Option Proto) (n : Int) (dflt : Bool) : Bool :=
  match p with
  | none => dflt
  | some (.name s) => if s == "" then (0 : Int) == n else
      (match stringToProto s with
       | some k => k == n
       | none => false)
  | some (.num k) => k == n

/-- `matchL4Protocol`. -/
def matchL4Protocol (r : Rule) (n : Int) : Bool :=
  if n > 255 ∨ n < 1 then false
  else checkProto r.protocol n true && !checkProto r.notProtocol n false

/-- `checkRules`: first matching non-LOG rule; `none` = bad action (panic → INVALID_ARGUMENT). -/
def checkRules (n : Int) : List Rule → Option CAct
  | [] => some .noMatch
  | r :: rs =>
    if matchL4Protocol r n then
      match actionFromString r.action with
      | none => none
      | some .log => checkRules n rs
      | some a => some a
    else checkRules n rs

/-! ### The checker with literal CIDR matches (`matchSrcNet` / `matchDstNet`)

`net.IPNet.Contains` for an IPv4 address: the masked address equals the masked network (a CIDR of
the other family never contains it).  `matchNet`: an empty list matches; `matchNotNet`: no CIDR of
the list may contain the address.  The checker does NOT filter rules by IP version. -/

def cidrHas4 (a : Nat) (n : Net) : Bool :=
  !n.v6 && (BitVec.ofNat 32 a &&& mask32bv n.pfx == BitVec.ofNat 32 n.addr &&& mask32bv n.pfx)

def matchNetC (nets : List Net) (a : Nat) : Bool := nets.isEmpty || nets.any (cidrHas4 a)

def matchNotNetC (nets : List Net) (a : Nat) : Bool := !nets.any (cidrHas4 a)

/-- `match` restricted to the criteria modelled here: source nets, destination nets, protocol. -/
def matchRuleN (r : Rule) (n : Int) (src dst : Nat) : Bool :=
  (matchNetC r.srcNet src && matchNotNetC r.notSrcNet src) &&
  (matchNetC r.dstNet dst && matchNotNetC r.notDstNet dst) && matchL4Protocol r n

def checkRulesN (n : Int) (src dst : Nat) : List Rule → Option CAct
  | [] => some .noMatch
  | r :: rs =>
    if matchRuleN r n src dst then
      match actionFromString r.action with
      | none => none
      | some .log => checkRulesN n src dst rs
      | some a => some a
    else checkRulesN n src dst rs

/-- The policy loop of one tier in `checkTiers`: `some (some v)` = verdict
reached, `some none` = go on (with `matched` = a PASS broke out of the loop). -/
inductive TierRes | allow | deny | passed | noMatch | invalid
deriving DecidableEq, Repr, Inhabited

def checkPolicies (n : Int) : List Policy → TierRes
  | [] => .noMatch
  | pol :: ps =>
    match checkRules n pol.rules with
    | none => .invalid
    | some .noMatch => checkPolicies n ps
    | some .allow => .allow
    | some .deny => .deny
    | some .pass => .passed
    | some .log => .invalid

/-- `checkTiers`, profiles part. `true` = OK (allow). -/
def checkProfiles (n : Int) : List Policy → Option Bool
  | [] => some false
  | pr :: ps =>
    match checkRules n pr.rules with
    | none => none
    | some .noMatch => checkProfiles n ps
    | some .allow => some true
    | some .deny => some false
    | some .pass => some false
    | some .log => none

/-- `checkTiers`: `some true` = OK, `some false` = PERMISSION_DENIED, `none` =
INVALID_ARGUMENT.  Tiers without policies in this direction are skipped. -/
def checkTiers (n : Int) (profiles : List Policy) : List Tier → Option Bool
  | [] => checkProfiles n profiles
  | t :: ts =>
    if t.policies.isEmpty then checkTiers n profiles ts
    else
      match checkPolicies n t.policies with
      | .allow => some true
      | .deny => some false
      | .invalid => none
      | .passed => checkTiers n profiles ts
      | .noMatch =>
        match t.endAction with
        | .pass => checkTiers n profiles ts
        | _ => some false

def checkPoliciesN (n : Int) (src dst : Nat) : List Policy → TierRes
  | [] => .noMatch
  | pol :: ps =>
    match checkRulesN n src dst pol.rules with
    | none => .invalid
    | some .noMatch => checkPoliciesN n src dst ps
    | some .allow => .allow
    | some .deny => .deny
    | some .pass => .passed
    | some .log => .invalid

def checkProfilesN (n : Int) (src dst : Nat) : List Policy → Option Bool
  | [] => some false
  | pr :: ps =>
    match checkRulesN n src dst pr.rules with
    | none => none
    | some .noMatch => checkProfilesN n src dst ps
    | some .allow => some true
    | some .deny => some false
    | some .pass => some false
    | some .log => none

/-- `checkTiers` with the CIDR criteria. -/
def checkTiersN (n : Int) (src dst : Nat) (profiles : List Policy) : List Tier → Option Bool
  | [] => checkProfilesN n src dst profiles
  | t :: ts =>
    if t.policies.isEmpty then checkTiersN n src dst profiles ts
    else
      match checkPoliciesN n src dst t.policies with
      | .allow => some true
      | .deny => some false
      | .invalid => none
      | .passed => checkTiersN n src dst profiles ts
      | .noMatch =>
        match t.endAction with
        | .pass => checkTiersN n src dst profiles ts
        | _ => some false

/-! ### iptables/nftables (felix/rules/endpoints.go + policy.go), at the level of the mark bits

A policy/profile chain renders rule i as `[match] → set-mark X` followed by
`[mark X set] → return` (accept / pass mark) or `→ DROP` (drop mark).  The
endpoint chain clears the pass mark at the start of every TIER, enters a policy
only while the pass mark is clear, and after the tiers jumps to each profile
chain in turn, returning only if the ACCEPT mark is set.  It does NOT clear the
pass mark before the profiles, so the `[pass mark set] → return` check that
follows a pass rule of a profile also fires on a pass mark left over from the
last tier. -/

/-- Result of one profile chain: accepted, dropped, or returned (with the pass mark). -/
inductive PR | accept | drop | ret (pass : Bool)
deriving DecidableEq, Repr, Inhabited

def iptProfileRules (env : Env) (p : Pkt) (pass : Bool) : List Rule → PR
  | [] => .ret pass
  | r :: rs =>
    match filterRule env.c.v6 r with
    | none => iptProfileRules env p pass rs
    | some fr =>
      let m := ruleMatch env p .dest fr
      match actOf r.action with
      | .allow => if m then .accept else iptProfileRules env p pass rs
      | .deny => if m then .drop else iptProfileRules env p pass rs
      | .pass => if m || pass then .ret true else iptProfileRules env p pass rs
      | .log => iptProfileRules env p pass rs
      | .invalid => iptProfileRules env p pass rs

def iptProfiles (env : Env) (p : Pkt) : Bool → List Policy → Verdict
  | _, [] => .deny
  | pass, pr :: ps =>
    match iptProfileRules env p pass pr.rules with
    | .accept => .allow
    | .drop => .deny
    | .ret pass' => iptProfiles env p pass' ps

/-- Tiers: the decision, and whether the pass mark is still set when the tiers are left
(the last tier was left through a pass RULE). -/
def iptTiers (env : Env) (p : Pkt) : List Tier → Dec × Bool
  | [] => (.noMatch, false)
  | t :: ts =>
    match evalPolicies env p .dest t.policies with
    | .allow => (.allow, false)
    | .deny => (.deny, false)
    | .pass => if ts.isEmpty then (.noMatch, true) else iptTiers env p ts
    | .noMatch =>
      match t.endAction with
      | .pass => iptTiers env p ts
      | _ => (.deny, false)

def iptVerdict (env : Env) (r : Rules) (p : Pkt) : Verdict :=
  match iptTiers env p r.tiers with
  | (.allow, _) => .allow
  | (.deny, _) => .deny
  | (_, stale) => iptProfiles env p stale r.profiles

/-! ### Staged policies

An endpoint's tier lists policies of which some are STAGED (not enforced).  All three
implementations evaluate the ENFORCED VIEW: staged policies are skipped, and a tier left without
any enforced policy contributes nothing, its default action included (checker:
`policiesInScope == 0`; BPF: `extractTiers` gives such a tier an end-of-tier pass; iptables: no
end-of-tier drop rule without non-staged policies). -/

structure PolS where
  staged : Bool
  rules : List Rule

structure TierS where
  endAction : EndAction
  policies : List PolS

/-- The enforced view of a tier (a tier with no enforced policy becomes a pass-through tier
without policies). -/
def enforcedTier (t : TierS) : Tier :=
  let ps := (t.policies.filter (fun p => !p.staged)).map (fun p => Policy.mk p.rules)
  if ps.isEmpty then { endAction := .pass, endRuleID := 0, policies := [] }
  else { endAction := t.endAction, endRuleID := 0, policies := ps }

def enforcedView (ts : List TierS) : List Tier := ts.map enforcedTier

/-- BPF (workload interface, no host policy): `C11.workloadVerdict`. -/
def bpfVerdict (env : Env) (r : Rules) (p : Pkt) : Verdict := workloadVerdict env { r with forHostInterface := false } p

end CalicoVerif.C12
