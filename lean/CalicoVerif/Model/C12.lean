import CalicoVerif.Model.C11Ref
/-
C12 — model of app-policy/checker (`checkTiers`, `checkRules`,
`matchL4Protocol`; L3/L4 subset = protocol / not-protocol criteria) and of the
iptables/nftables PROFILE semantics of felix/rules/endpoints.go (jump to each
profile chain, return only if the accept mark is set), over the C11 policy
types.  The BPF side is `C11.verdict`.  Core Lean only.
-/
namespace CalicoVerif.C12
open CalicoVerif.C11

/-- checker `Action`. -/
inductive CAct | allow | deny | log | pass | noMatch
deriving DecidableEq, Repr, Inhabited

/-- `actionFromString` (panics on anything else: modelled as `none`). -/
def actionFromString (s : String) : Option CAct :=
  let l := asciiLower s
  if l == "allow" then some .allow else if l == "deny" then some .deny
  else if l == "pass" || l == "next-tier" then some .pass else if l == "log" then some .log else none

/-- `stringToProto`. -/
def stringToProto (s : String) : Option Int :=
  let l := asciiLower s
  if l == "icmp" then some 1 else if l == "icmpv6" then some 58 else if l == "tcp" then some 6
  else if l == "udp" then some 17 else if l == "udplite" then some 136 else if l == "sctp" then some 132
  else none

/-- `checkStringInRuleProtocol`. -/
def checkProto (p : Option Proto) (n : Int) (dflt : Bool) : Bool :=
  match p with
  | none => dflt
  | some (.name s) => if s == "" then (0 : Int) == n else
      (match stringToProto s with
       | some k => k == n
       | none => false)
  | some (.num k) => k == n

/-- `matchL4Protocol`. -/
def matchL4Protocol (r : Rule) (n : Int) : Bool :=
  if n > 255 ∨ n < 1 then false
  else checkProto r.protocol n true && !checkProto r.notProtocol n false

/-- `checkRules`: first matching non-LOG rule; `none` = bad action (panic → INVALID_ARGUMENT). -/
def checkRules (n : Int) : List Rule → Option CAct
  | [] => some .noMatch
  | r :: rs =>
    if matchL4Protocol r n then
      match actionFromString r.action with
      | none => none
      | some .log => checkRules n rs
      | some a => some a
    else checkRules n rs

/-- The policy loop of one tier in `checkTiers`: `some (some v)` = verdict
reached, `some none` = go on (with `matched` = a PASS broke out of the loop). -/
inductive TierRes | allow | deny | passed | noMatch | invalid
deriving DecidableEq, Repr, Inhabited

def checkPolicies (n : Int) : List Policy → TierRes
  | [] => .noMatch
  | pol :: ps =>
    match checkRules n pol.rules with
    | none => .invalid
    | some .noMatch => checkPolicies n ps
    | some .allow => .allow
    | some .deny => .deny
    | some .pass => .passed
    | some .log => .invalid

/-- `checkTiers`, profiles part. `true` = OK (allow). -/
def checkProfiles (n : Int) : List Policy → Option Bool
  | [] => some false
  | pr :: ps =>
    match checkRules n pr.rules with
    | none => none
    | some .noMatch => checkProfiles n ps
    | some .allow => some true
    | some .deny => some false
    | some .pass => some false
    | some .log => none

/-- `checkTiers`: `some true` = OK, `some false` = PERMISSION_DENIED, `none` =
INVALID_ARGUMENT.  Tiers without policies in this direction are skipped. -/
def checkTiers (n : Int) (profiles : List Policy) : List Tier → Option Bool
  | [] => checkProfiles n profiles
  | t :: ts =>
    if t.policies.isEmpty then checkTiers n profiles ts
    else
      match checkPolicies n t.policies with
      | .allow => some true
      | .deny => some false
      | .invalid => none
      | .passed => checkTiers n profiles ts
      | .noMatch =>
        match t.endAction with
        | .pass => checkTiers n profiles ts
        | _ => some false

/-- iptables/nftables: tiers as the reference, profiles with "pass ⇒ next profile". -/
def iptVerdict (env : Env) (r : Rules) (p : Pkt) : Verdict :=
  match evalTiers env p .dest r.tiers with
  | .allow => .allow
  | .deny => .deny
  | _ =>
    match evalProfiles false env p r.profiles with
    | .allow => .allow
    | _ => .deny

/-- BPF (workload interface, no host policy): `C11.workloadVerdict`. -/
def bpfVerdict (env : Env) (r : Rules) (p : Pkt) : Verdict := workloadVerdict env { r with forHostInterface := false } p

end CalicoVerif.C12
