import CalicoVerif.Model.C06Ast
/-
C06 (shared Selector model, part 3/3) — model of
libcalico-go/lib/selector/parser/parser.go.

`parseRoot(selector, validateOnly)` is modelled twice, by specialising the Go
code on the flag: `parse*` is the code with `validateOnly == false` (builds the
nodes), `validate*` is the code with `validateOnly == true` (same control flow,
no nodes).  `Props/C06.validate_iff_parse` proves they accept the same inputs.

Recursion: `parseOperation` is the only truly recursive function (through the
parenthesis case).  Its `fuel` bounds the parenthesis nesting depth and the
number of `&&`/`||` loop iterations; `parseRoot` supplies `len(tokens)` which
always suffices (`Props/C06.parse_ne_fuel`, `tokenize_ne_fuel`, `validate_ne_fuel`).

Token slices handed out by the tokenizer always end in `TokEOF` and the parser
never consumes it, so the Go code's unchecked `tokens[0]` accesses cannot go out
of range; on an empty list the model answers as for a non-matching token.

Core Lean only.
-/
namespace CalicoVerif.C06

abbrev PResult := Except Err (Node × List Token)

/-- The leading-`!` loop of `parseOperation`: `negated` toggles per `TokNot`. -/
def stripNots : List Token → Bool → Bool × List Token
  | .not :: ts, negated => stripNots ts (!negated)
  | ts, negated => (negated, ts)

/-- The value loop of the `TokIn, TokNotIn` case: string literals separated by
commas (a trailing comma is accepted by the Go loop); returns the values and
the tokens at which the loop stopped. -/
def parseSetValues : List Token → List Str × List Token
  | .str v :: .comma :: ts =>
    let (vs, rem) := parseSetValues ts
    (v :: vs, rem)
  | .str v :: ts => ([v], ts)
  | ts => ([], ts)

/-- The `case tokenizer.TokLabel` of `parseOperation`; `rest` = `tokens[1:]`. -/
def parseLabelOp (l : Str) (rest : List Token) : PResult :=
  match rest with
  | [] => .error .unexpectedEOF            -- len(tokens) < 3
  | [_] => .error .unexpectedEOF
  | op :: t2 :: rem =>
    let withString (mk : Str → Str → Node) : PResult :=
      match t2 with
      | .str v => .ok (mk l v, rem)
      | _ => .error .expectedString
    let withSet (mk : Str → List Str → Node) : PResult :=
      match t2 with
      | .lBrace =>
        let (values, rem') := parseSetValues rem
        match rem' with
        | .rBrace :: rem'' => .ok (mk l (convertToStringSet values), rem'')
        | _ => .error .expectedRBrace
      | _ => .error .expectedSetLit
    match op with
    | .eq => withString .eq
    | .ne => withString .ne
    | .contains => withString .contains
    | .startsWith => withString .startsWith
    | .endsWith => withString .endsWith
    | .in => withSet .inSet
    | .notIn => withSet .notInSet
    | _ => .error .expectedOp

/-- `sel = nodes[0]` if there is one node, else `&AndNode{nodes}`. -/
def mkAnd : List Node → Node
  | [n] => n
  | ns => .and ns

def mkOr : List Node → Node
  | [n] => n
  | ns => .or ns

/-- The `for` loop of `parseAndExpression`: the operations after the first. -/
def andRest (op : List Token → PResult) : Nat → List Token → Except Err (List Node × List Token)
  | fuel + 1, .and :: rem =>
    match op rem with
    | .error e => .error e
    | .ok (n, rem') =>
      match andRest op fuel rem' with
      | .error e => .error e
      | .ok (ns, rem'') => .ok (n :: ns, rem'')
  | 0, .and :: _ => .error .fuel
  | _, rem => .ok ([], rem)

/-- `parseAndExpression`, given the operation parser. -/
def parseAndWith (op : List Token → PResult) (fuel : Nat) (tokens : List Token) : PResult :=
  match op tokens with
  | .error e => .error e
  | .ok (n, rem) =>
    match andRest op fuel rem with
    | .error e => .error e
    | .ok (ns, rem') => .ok (mkAnd (n :: ns), rem')

/-- The `for` loop of `parseOrExpression`. -/
def orRest (op : List Token → PResult) (fuelAnd : Nat) : Nat → List Token → Except Err (List Node × List Token)
  | fuel + 1, .or :: rem =>
    match parseAndWith op fuelAnd rem with
    | .error e => .error e
    | .ok (n, rem') =>
      match orRest op fuelAnd fuel rem' with
      | .error e => .error e
      | .ok (ns, rem'') => .ok (n :: ns, rem'')
  | 0, .or :: _ => .error .fuel
  | _, rem => .ok ([], rem)

/-- `parseOrExpression`, given the operation parser. -/
def parseOrWith (op : List Token → PResult) (fuel : Nat) (tokens : List Token) : PResult :=
  match parseAndWith op fuel tokens with
  | .error e => .error e
  | .ok (n, rem) =>
    match orRest op fuel fuel rem with
    | .error e => .error e
    | .ok (ns, rem') => .ok (mkOr (n :: ns), rem')

/-- `parseOperation` (validateOnly = false). -/
def parseOperation : (fuel : Nat) → List Token → PResult
  | _, [] => .error .unexpectedEOF               -- len(tokens) == 0
  | 0, _ :: _ => .error .fuel
  | fuel + 1, t :: ts =>
    let (negated, toks) := stripNots (t :: ts) false
    let r : PResult :=
      match toks with
      | .has l :: rem => .ok (.has l, rem)
      | .all :: rem => .ok (.all, rem)
      | .global :: rem => .ok (.global, rem)
      | .label l :: rest => parseLabelOp l rest
      | .lParen :: rest =>
        match parseOrWith (parseOperation fuel) fuel rest with
        | .error e => .error e
        | .ok (n, rem) =>
          match rem with
          | .rParen :: rem' => .ok (n, rem')
          | _ => .error .expectedRParen
      | _ => .error .unexpectedToken
    match r with
    | .error e => .error e
    | .ok (n, rem) => .ok (if negated then .not n else n, rem)

/-- `parseAndExpression` / `parseOrExpression` (validateOnly = false). -/
def parseAndExpression (fuel : Nat) (tokens : List Token) : PResult :=
  parseAndWith (parseOperation fuel) fuel tokens

def parseOrExpression (fuel : Nat) (tokens : List Token) : PResult :=
  parseOrWith (parseOperation fuel) fuel tokens

/-- `Parser.parseRoot(selector, false)` = `parser.Parse`: the root node of the
returned `*Selector`. -/
def parse (selector : Str) : Except Err Node :=
  match tokenize selector with
  | .error e => .error e
  | .ok tokens =>
    match tokens with
    | .eof :: _ => .ok .all                       -- tokens[0].Kind == TokEOF
    | _ =>
      match parseOrExpression tokens.length tokens with
      | .error e => .error e
      | .ok (n, rem) => if rem.length ≠ 1 then .error .trailing else .ok n

/-! ### validateOnly = true -/

abbrev VResult := Except Err (List Token)

/-- `case tokenizer.TokLabel` with validateOnly (no node is built; the set values
are still collected and converted, which has no observable effect). -/
def validateLabelOp (rest : List Token) : VResult :=
  match rest with
  | [] => .error .unexpectedEOF
  | [_] => .error .unexpectedEOF
  | op :: t2 :: rem =>
    let withString : VResult :=
      match t2 with
      | .str _ => .ok rem
      | _ => .error .expectedString
    let withSet : VResult :=
      match t2 with
      | .lBrace =>
        match (parseSetValues rem).2 with
        | .rBrace :: rem'' => .ok rem''
        | _ => .error .expectedRBrace
      | _ => .error .expectedSetLit
    match op with
    | .eq => withString
    | .ne => withString
    | .contains => withString
    | .startsWith => withString
    | .endsWith => withString
    | .in => withSet
    | .notIn => withSet
    | _ => .error .expectedOp

def vAndRest (op : List Token → VResult) : Nat → List Token → VResult
  | fuel + 1, .and :: rem =>
    match op rem with
    | .error e => .error e
    | .ok rem' => vAndRest op fuel rem'
  | 0, .and :: _ => .error .fuel
  | _, rem => .ok rem

def validateAndWith (op : List Token → VResult) (fuel : Nat) (tokens : List Token) : VResult :=
  match op tokens with
  | .error e => .error e
  | .ok rem => vAndRest op fuel rem

def vOrRest (op : List Token → VResult) (fuelAnd : Nat) : Nat → List Token → VResult
  | fuel + 1, .or :: rem =>
    match validateAndWith op fuelAnd rem with
    | .error e => .error e
    | .ok rem' => vOrRest op fuelAnd fuel rem'
  | 0, .or :: _ => .error .fuel
  | _, rem => .ok rem

def validateOrWith (op : List Token → VResult) (fuel : Nat) (tokens : List Token) : VResult :=
  match validateAndWith op fuel tokens with
  | .error e => .error e
  | .ok rem => vOrRest op fuel fuel rem

/-- `parseOperation` (validateOnly = true). -/
def validateOperation : (fuel : Nat) → List Token → VResult
  | _, [] => .error .unexpectedEOF
  | 0, _ :: _ => .error .fuel
  | fuel + 1, t :: ts =>
    match (stripNots (t :: ts) false).2 with
    | .has _ :: rem => .ok rem
    | .all :: rem => .ok rem
    | .global :: rem => .ok rem
    | .label _ :: rest => validateLabelOp rest
    | .lParen :: rest =>
      match validateOrWith (validateOperation fuel) fuel rest with
      | .error e => .error e
      | .ok rem =>
        match rem with
        | .rParen :: rem' => .ok rem'
        | _ => .error .expectedRParen
    | _ => .error .unexpectedToken

/-- `Parser.parseRoot(selector, true)` = `parser.Validate`: `ok ()` = nil error. -/
def validate (selector : Str) : Except Err Unit :=
  match tokenize selector with
  | .error e => .error e
  | .ok tokens =>
    match tokens with
    | .eof :: _ => .ok ()
    | _ =>
      match validateOrWith (validateOperation tokens.length) tokens.length tokens with
      | .error e => .error e
      | .ok rem => if rem.length ≠ 1 then .error .trailing else .ok ()

/-! ### `parser.Selector` -/

/-- `parser.Selector`: `stringRep` and `hash` are functions of `root`
(`updateFields`). -/
structure Selector where
  root : Node
deriving Repr

def Selector.text (s : Selector) : Str := s.root.text                       -- String()
def Selector.uniqueID (H : Str → Str) (s : Selector) : Str := s.root.uniqueID H   -- UniqueID()
def Selector.evaluate (s : Selector) (labels : Labels) : Bool := s.root.eval labels  -- EvaluateLabels()

/-- `parser.Parse` returning the `Selector`. -/
def parseSelector (selector : Str) : Except Err Selector :=
  match parse selector with
  | .error e => .error e
  | .ok n => .ok ⟨n⟩

end CalicoVerif.C06
