import CalicoVerif.Model.C29
import CalicoVerif.Model.C06Parser
/-
C29 (part 2) — the v3 → v1 step of updateprocessors on the selector TEXT, built on the shared
selector model (Model/C06*: tokenizer, parser, canonical text, evaluation — other owner):

  parseSelectorAttachPrefix (selectors.go)      parse → PrefixVisitor → String()
  getEndpointSelector       (rules.go)          without service-account match and NotSelector
  ConvertNetworkPolicyV3ToV1Value               the policy selector

and a second evaluator of the converted policy, `calicoVerdictV1`, which PARSES these v1 strings
with the C06 parser and evaluates the parsed nodes (instead of evaluating the conjunct lists of
Model/C29).  The driver prints both verdicts; they must agree with each other and with the real
code, which ties the conjunct-list semantics of Model/C29 to the shared parser model.
Core Lean only.
-/
namespace CalicoVerif.C29

open CalicoVerif.C06 (Node Str)

mutual
/-- parser.PrefixVisitor: every label name gets the prefix (AcceptVisitor walks the whole tree). -/
def prefixNode (p : Str) : Node → Node
  | .eq l v => .eq (p ++ l) v
  | .ne l v => .ne (p ++ l) v
  | .contains l v => .contains (p ++ l) v
  | .startsWith l v => .startsWith (p ++ l) v
  | .endsWith l v => .endsWith (p ++ l) v
  | .inSet l vs => .inSet (p ++ l) vs
  | .notInSet l vs => .notInSet (p ++ l) vs
  | .has l => .has (p ++ l)
  | .all => .all
  | .global => .global
  | .not n => .not (prefixNode p n)
  | .and ns => .and (prefixNodes p ns)
  | .or ns => .or (prefixNodes p ns)
def prefixNodes (p : Str) : List Node → List Node
  | [] => []
  | n :: ns => prefixNode p n :: prefixNodes p ns
end

/-- parseSelectorAttachPrefix: "" when the selector does not parse. -/
def parseSelectorAttachPrefix (s : String) (pre : String) : String :=
  match CalicoVerif.C06.parse s.toList with
  | .error _ => ""
  | .ok n => String.ofList (prefixNode pre.toList n).text

/-- `strings.Replace(s, old, new, -1)` for a non-empty `old`. -/
def replaceAllAux (old new : List Char) : Nat → List Char → List Char
  | 0, s => s
  | _ + 1, [] => []
  | fuel + 1, c :: cs =>
    if old.isPrefixOf (c :: cs) then new ++ replaceAllAux old new fuel ((c :: cs).drop old.length)
    else c :: replaceAllAux old new fuel cs

def replaceAll (s old new : String) : String :=
  String.ofList (replaceAllAux old.toList new.toList (s.length + 1) s.toList)

/-- getEndpointSelector(namespaceSelector, endpointSelector, "", "", ns, _). -/
def getEndpointSelectorStr (namespaceSelector endpointSelector ns : String) : String :=
  let nsSelector : String :=
    if namespaceSelector ≠ "" then
      let s := parseSelectorAttachPrefix namespaceSelector nsLabelPrefix
      let s := replaceAll s "all()" ("has(" ++ labelNamespace ++ ")")
      replaceAll s "global()" ("!has(" ++ labelNamespace ++ ")")
    else if ns ≠ "" then labelNamespace ++ " == '" ++ ns ++ "'"
    else ""
  -- one selector only (no service-account selector): "it will be enclosed in () by the caller"
  let selector := endpointSelector
  if nsSelector ≠ "" ∧ (selector ≠ "" ∨ namespaceSelector ≠ "") then
    if selector ≠ "" then "(" ++ nsSelector ++ ") && (" ++ selector ++ ")" else nsSelector
  else selector

/-- ConvertNetworkPolicyV3ToV1Value: the v1 policy selector. -/
def policySelectorV1Str (p : CPolicy) : String :=
  let selector := p.sel.render
  if p.ns ≠ "" then
    let nsSelector := labelNamespace ++ " == '" ++ p.ns ++ "'"
    if selector = "" then nsSelector else "(" ++ selector ++ ") && " ++ nsSelector
  else selector

def Entity.v1Selector (e : Entity) (ns : String) : String :=
  getEndpointSelectorStr e.nsSel.render e.sel.render ns

def CPolicy.renderV1 (p : CPolicy) : String :=
  let rule (r : CRule) : String := r.src.v1Selector p.ns ++ "|" ++ r.dst.v1Selector p.ns
  "sel[" ++ policySelectorV1Str p ++ "] in[" ++ ";".intercalate (p.ingress.map rule) ++
    "] eg[" ++ ";".intercalate (p.egress.map rule) ++ "]"

/-! ## Evaluation through the shared parser -/

def toC06Labels (get : String → Option String) : CalicoVerif.C06.Labels :=
  fun k => (get (String.ofList k)).map String.toList

/-- Does the selector TEXT match the party: "" = no constraint; unparseable = matches nothing. -/
def selStrMatches (c : Cluster) (sel : String) (pa : Party) : Bool :=
  if sel = "" then true
  else match pa.ep.calicoGet c with
    | none => false
    | some get =>
      match CalicoVerif.C06.parse sel.toList with
      | .error _ => false
      | .ok n => n.eval (toC06Labels get)

def entityMatchesV1 (c : Cluster) (polNs : String) (e : Entity) (pa : Party) : Bool :=
  selStrMatches c (e.v1Selector polNs) pa &&
  (e.nets.isEmpty || e.nets.any (fun n => n.contains pa.ip)) &&
  e.notNets.all (fun n => !n.contains pa.ip)

def cruleMatchesV1 (c : Cluster) (polNs : String) (r : CRule) (conn : Conn) : Bool :=
  (match r.proto with
   | none => true
   | some p => protoNum p == some conn.proto) &&
  entityMatchesV1 c polNs r.src conn.src &&
  entityMatchesV1 c polNs r.dst conn.dst &&
  (r.dst.ports.isEmpty || r.dst.ports.any (fun p => cportMatches p conn))

/-- `calicoVerdict`, but every selector goes text → C06 parser → C06 evaluation. -/
def calicoVerdictV1 (c : Cluster) (p : CPolicy) (d : Dir) (conn : Conn) : Verdict :=
  let me := conn.self d
  match me.ep.calicoGet c with
  | some _ =>
    if selStrMatches c (policySelectorV1Str p) me && p.types.contains d then
      let rules := match d with | .ingress => p.ingress | .egress => p.egress
      if rules.any (fun r => cruleMatchesV1 c p.ns r conn) then .allow else .deny
    else .noOpinion
  | none => .noOpinion

end CalicoVerif.C29
