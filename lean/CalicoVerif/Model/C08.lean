import CalicoVerif.Model.Policy
/-!
C08 — model of `felix/rules/policy.go`: `filterNets`, `FilterRuleToIPVersion`, `SplitPortList`,
`matchBlockBuilder` (positive / negated blocks, both scratch marks), `CalculateRuleMatch`,
`CombineMatchAndActionsForProtoRule`, `ProtoRuleToIptablesRules`.
The output is a list of abstract `Netfilter.Rule`s; `Netfilter.Rule.toIptables` / `.toNft` print
them (compared byte for byte with the real renderers).
-/
namespace CalicoVerif.C08
open CalicoVerif.Netfilter CalicoVerif.Policy

structure Cfg where
  markAccept : Mark := 0x80
  markPass : Mark := 0x100
  markScratch0 : Mark := 0x200
  markScratch1 : Mark := 0x400
  markDrop : Mark := 0x800
  flowLogs : Bool := false
  /-- `FilterDenyAction = "REJECT"` -/
  reject : Bool := false
  logPrefix : String := "calico-packet"
  logRateLimit : String := ""
  logRateBurst : Nat := 0
  deriving Repr, Inhabited

/-- owner / direction / index / id of the rule, only used for the NFLOG prefix -/
structure Ctx where
  owner : Char := 'P'
  dir : Char := 'I'
  idx : Nat := 0
  id : String := ""
  untracked : Bool := false
  deriving Repr, Inhabited

def isCatchAll (c : String) (v6 : Bool) : Bool :=
  (!v6 && c == "0.0.0.0/0") || (v6 && c == "::/0")

/-- `filterNets`: (filtered, filteredAll). -/
def filterNets (nets : List String) (v6 : Bool) (neg : Bool) : List String × Bool :=
  if nets.isEmpty then ([], false) else
  let same := nets.filter (fun c => cidrIsV6 c == v6)
  if neg && same.any (fun c => isCatchAll c v6) then ([], true)
  else (same, same.isEmpty)

/-- `FilterRuleToIPVersion` (`none` = rule does not apply to this IP version). -/
def filterRuleToIPVersion (v6 : Bool) (r : Policy.Rule) : Option Policy.Rule :=
  if r.ipVersion ≠ 0 ∧ r.ipVersion ≠ (if v6 then 6 else 4) then none else
  let (sn, a1) := filterNets r.srcNet v6 false
  if a1 then none else
  let (nsn, a2) := filterNets r.notSrcNet v6 true
  if a2 then none else
  let (dn, a3) := filterNets r.dstNet v6 false
  if a3 then none else
  let (ndn, a4) := filterNets r.notDstNet v6 true
  if a4 then none else
  some { r with srcNet := sn, notSrcNet := nsn, dstNet := dn, notDstNet := ndn }

/-- `SplitPortList`, as a fold: state = (finished splits, current split, slots left). -/
def splitPortList (ports : List PortRange) : List (List PortRange) :=
  let step := fun (st : List (List PortRange) × List PortRange × Nat) (pr : PortRange) =>
    let (splits, cur, avail) := st
    let need := if pr.first = pr.last then 1 else 2
    if avail < need then (splits ++ [cur], [pr], 15 - need)
    else (splits, cur ++ [pr], avail - need)
  let (splits, cur, _) := ports.foldl step ([], [], 15)
  if cur.isEmpty then splits else splits ++ [cur]

/-- `matchBlockBuilder` -/
structure MBB where
  usingBlocks : Bool := false
  doneFirstPositive : Bool := false
  rules : List Netfilter.Rule := []
  deriving Repr, Inhabited

def MBB.maybeInit (b : MBB) (cfg : Cfg) (initial : Mark) : MBB :=
  if b.usingBlocks then b else
  { b with usingBlocks := true
           rules := b.rules ++ [{ action := .setMaskedMark initial (cfg.markScratch0 ||| cfg.markScratch1) }] }

/-- `positiveBlockMarkToSet` -/
def MBB.markToSet (b : MBB) (cfg : Cfg) : Mark :=
  if !b.doneFirstPositive then cfg.markScratch0 else cfg.markScratch1

/-- `finishPositiveBlock` -/
def MBB.finishPositive (b : MBB) (cfg : Cfg) : MBB :=
  if !b.doneFirstPositive then { b with doneFirstPositive := true } else
  { b with rules := b.rules ++ [{ clauses := [.mark false 0 cfg.markScratch1], action := .clearMark cfg.markScratch0 }] }

def protoClause (neg : Bool) : Option Proto → List Clause
  | none => []
  | some p => [.proto neg (protoTrunc p)]

/-- `AppendPortMatchBlock` -/
def MBB.appendPorts (b : MBB) (cfg : Cfg) (setName : String → String) (proto : Option Proto)
    (splits : List (List PortRange)) (named : List String) (d : Dir) : MBB :=
  let b := b.maybeInit cfg 0
  let m := b.markToSet cfg
  let rs := splits.map (fun s => ({ clauses := protoClause false proto ++ [.ports d false s], action := .setMark m } : Netfilter.Rule))
    ++ named.map (fun id => ({ clauses := [.ipportset d false (setName id)], action := .setMark m } : Netfilter.Rule))
  ({ b with rules := b.rules ++ rs }).finishPositive cfg

/-- `AppendCIDRMatchBlock` -/
def MBB.appendCIDRs (b : MBB) (cfg : Cfg) (cidrs : List String) (d : Dir) : MBB :=
  let b := b.maybeInit cfg 0
  let m := b.markToSet cfg
  let rs := cidrs.map (fun c => ({ clauses := [.net d false c], action := .setMark m } : Netfilter.Rule))
  ({ b with rules := b.rules ++ rs }).finishPositive cfg

/-- `AppendNegatedCIDRMatchBlock` -/
def MBB.appendNegCIDRs (b : MBB) (cfg : Cfg) (cidrs : List String) (d : Dir) : MBB :=
  let b := b.maybeInit cfg cfg.markScratch0
  let rs := cidrs.map (fun c => ({ clauses := [.net d false c], action := .clearMark cfg.markScratch0 } : Netfilter.Rule))
  { b with rules := b.rules ++ rs }

def icmpClause (v6 neg : Bool) : IcmpMatch → List Clause
  | .none => []
  | .type t => [.icmp v6 neg (t % 256) none]
  | .typeCode t c => [.icmp v6 neg (t % 256) (some (c % 256))]

/-- `CalculateRuleMatch` (`none` = one of its `Panic`s: a list that should have been moved to a
block still has more than one element). -/
def calculateRuleMatch (setName : String → String) (v6 : Bool) (r : Policy.Rule) : Option (List Clause) :=
  if r.srcNet.length > 1 ∨ r.dstNet.length > 1 ∨ r.notSrcNet.length > 1 ∨ r.notDstNet.length > 1 ∨
     r.srcNamedPortIpSetIds.length > 1 ∨ r.dstNamedPortIpSetIds.length > 1 then none else
  some (
    protoClause false r.protocol
    ++ r.srcNet.map (.net .src false)
    ++ r.srcIpSetIds.map (fun id => .ipset .src false (setName id))
    ++ (if r.srcPorts.isEmpty then [] else [.ports .src false r.srcPorts])
    ++ r.srcNamedPortIpSetIds.map (fun id => .ipportset .src false (setName id))
    ++ r.dstNet.map (.net .dst false)
    ++ r.dstIpSetIds.map (fun id => .ipset .dst false (setName id))
    ++ r.dstIpPortSetIds.map (fun id => .ipportset .dst false (setName id))
    ++ (if r.dstPorts.isEmpty then [] else [.ports .dst false r.dstPorts])
    ++ r.dstNamedPortIpSetIds.map (fun id => .ipportset .dst false (setName id))
    ++ icmpClause v6 false r.icmp
    ++ protoClause true r.notProtocol
    ++ r.notSrcNet.map (.net .src true)
    ++ r.notSrcIpSetIds.map (fun id => .ipset .src true (setName id))
    ++ (splitPortList r.notSrcPorts).map (.ports .src true)
    ++ r.notSrcNamedPortIpSetIds.map (fun id => .ipportset .src true (setName id))
    ++ r.notDstNet.map (.net .dst true)
    ++ r.notDstIpSetIds.map (fun id => .ipset .dst true (setName id))
    ++ (splitPortList r.notDstPorts).map (.ports .dst true)
    ++ r.notDstNamedPortIpSetIds.map (fun id => .ipportset .dst true (setName id))
    ++ icmpClause v6 true r.notIcmp)

def denyAction (cfg : Cfg) : Action := if cfg.reject then .reject else .drop

def nflogGroup (ctx : Ctx) : Nat := if ctx.dir = 'I' then 1 else 2

/-- `CalculateNFLOGPrefixStr` for prefixes short enough not to be hashed (< 63 bytes). -/
def nflogPrefix (a : Char) (ctx : Ctx) : String :=
  String.ofList [a, ctx.owner, ctx.dir] ++ toString ctx.idx ++ "|" ++ ctx.id

/-- `CombineMatchAndActionsForProtoRule` (`none` = "Unknown rule action" panic). -/
def combineMatchAndActions (cfg : Cfg) (ctx : Ctx) (action : String) (m : List Clause) :
    Option (List Netfilter.Rule) :=
  match parseAction action with
  | none => none
  | some act =>
    let logRules : List Netfilter.Rule :=
      if act = .log then
        [{ clauses := (if cfg.logRateLimit = "" then [] else [.limit cfg.logRateLimit cfg.logRateBurst]),
           action := .log cfg.logPrefix }]
      else []
    let nfl (a : Char) : List Netfilter.Rule :=
      if !ctx.untracked && cfg.flowLogs then [{ action := .nflog (nflogGroup ctx) (nflogPrefix a ctx) }] else []
    let (mark, rules) : Mark × List Netfilter.Rule := match act with
      | .allow => (cfg.markAccept, nfl 'A' ++ [{ action := .ret }])
      | .pass => (cfg.markPass, nfl 'P' ++ [{ action := .ret }])
      | .deny => (cfg.markDrop, nfl 'D' ++ [{ action := denyAction cfg }])
      | .log => (0, logRules)
    if mark ≠ 0 then
      some (({ clauses := m, action := .setMark mark } : Netfilter.Rule) ::
        rules.map (fun r => { r with clauses := r.clauses ++ [.mark false mark mark] }))
    else
      some (rules.map (fun r => { r with clauses := r.clauses ++ m }))

/-! The block-building part of `ProtoRuleToIptablesRules`, one step per `if` of the Go code; each
step maps (builder, remaining rule) to (builder, remaining rule). -/

def stepSrcPorts (cfg : Cfg) (setName : String → String) (s : MBB × Policy.Rule) : MBB × Policy.Rule :=
  if (splitPortList s.2.srcPorts).length + s.2.srcNamedPortIpSetIds.length > 1 then
    (s.1.appendPorts cfg setName s.2.protocol (splitPortList s.2.srcPorts) s.2.srcNamedPortIpSetIds .src,
     { s.2 with srcPorts := [], srcNamedPortIpSetIds := [] })
  else s

def stepDstPorts (cfg : Cfg) (setName : String → String) (s : MBB × Policy.Rule) : MBB × Policy.Rule :=
  if (splitPortList s.2.dstPorts).length + s.2.dstNamedPortIpSetIds.length > 1 then
    (s.1.appendPorts cfg setName s.2.protocol (splitPortList s.2.dstPorts) s.2.dstNamedPortIpSetIds .dst,
     { s.2 with dstPorts := [], dstNamedPortIpSetIds := [] })
  else s

def stepSrcNet (cfg : Cfg) (s : MBB × Policy.Rule) : MBB × Policy.Rule :=
  if s.2.srcNet.length > 1 then (s.1.appendCIDRs cfg s.2.srcNet .src, { s.2 with srcNet := [] }) else s

def stepDstNet (cfg : Cfg) (s : MBB × Policy.Rule) : MBB × Policy.Rule :=
  if s.2.dstNet.length > 1 then (s.1.appendCIDRs cfg s.2.dstNet .dst, { s.2 with dstNet := [] }) else s

def stepNegSrcNet (cfg : Cfg) (s : MBB × Policy.Rule) : MBB × Policy.Rule :=
  if s.2.srcNet.length + s.2.notSrcNet.length > 1 then
    (s.1.appendNegCIDRs cfg s.2.notSrcNet .src, { s.2 with notSrcNet := [] }) else s

def stepNegDstNet (cfg : Cfg) (s : MBB × Policy.Rule) : MBB × Policy.Rule :=
  if s.2.dstNet.length + s.2.notDstNet.length > 1 then
    (s.1.appendNegCIDRs cfg s.2.notDstNet .dst, { s.2 with notDstNet := [] }) else s

/-- all six block steps, in the order of the Go code -/
def buildBlocks (cfg : Cfg) (setName : String → String) (r : Policy.Rule) : MBB × Policy.Rule :=
  stepNegDstNet cfg (stepNegSrcNet cfg (stepDstNet cfg (stepSrcNet cfg
    (stepDstPorts cfg setName (stepSrcPorts cfg setName ({}, r))))))

/-- `ProtoRuleToIptablesRules` (without rule annotations). `none` = panic. -/
def protoRuleToRules (cfg : Cfg) (ctx : Ctx) (setName : String → String) (v6 : Bool) (pr : Policy.Rule) :
    Option (List Netfilter.Rule) :=
  match filterRuleToIPVersion v6 pr with
  | none => some []
  | some r =>
    let s := buildBlocks cfg setName r
    match calculateRuleMatch setName v6 s.2 with
    | none => none
    | some m =>
      let m := if s.1.usingBlocks then m ++ [.mark false cfg.markScratch0 cfg.markScratch0] else m
      match combineMatchAndActions cfg ctx s.2.action m with
      | none => none
      | some rs => some (s.1.rules ++ rs)

/-- `NameForMainIPSet`: `combineAndTrunc(prefix+"4"/"6"+"0", id, 31)`. -/
def setNameFor (v6 : Bool) (id : String) : String :=
  String.ofList (((if v6 then "cali60" else "cali40") ++ id).toList.take 31)

end CalicoVerif.C08
