import CalicoVerif.Model.C08
/-!
C09 — model of `felix/rules/endpoints.go`: `PolicyGroupToIptablesChains` (return stride 5),
`endpointIptablesChain` (tier loop, inline vs grouped policies, staged skip, end-of-tier
drop/pass, profile jumps, conntrack and admin-down preamble) and of
`ProtoRulesToIptablesRules` (policy / profile chains on top of C08's per-rule rendering),
plus the reference verdict semantics (`endpointVerdict`).
Chain names are inputs (they are hashes computed by the real code, cf. C37).
-/
namespace CalicoVerif.C09
open CalicoVerif.Netfilter CalicoVerif.Policy CalicoVerif.C08

/-- one policy of a group: the name of its chain and whether its kind is staged -/
structure Pol where
  chain : String
  staged : Bool
  deriving DecidableEq, Repr, Inhabited

structure Group where
  /-- `PolicyGroup.ChainName()` -/
  chain : String
  pols : List Pol
  deriving DecidableEq, Repr, Inhabited

def Group.nonStaged (g : Group) : List Pol := g.pols.filter (!·.staged)
/-- `ShouldBeInlined`: at most one non-staged policy -/
def Group.inlined (g : Group) : Bool := g.nonStaged.length ≤ 1
/-- `HasNonStagedPolicies` -/
def Group.hasNonStaged (g : Group) : Bool := !g.nonStaged.isEmpty

structure Tier where
  name : String
  /-- `DefaultAction == "Pass"` -/
  defaultPass : Bool
  groups : List Group
  deriving DecidableEq, Repr, Inhabited

inductive ChainType where
  | normal | untracked | preDNAT | forward
  deriving DecidableEq, Repr, Inhabited

/-! ### PolicyGroupToIptablesChains -/

def returnOnVerdict (cfg : Cfg) : Netfilter.Rule :=
  { clauses := [.mark true 0 (cfg.markPass ||| cfg.markAccept)], action := .ret, comments := ["Return on verdict"] }

def groupJump (cfg : Cfg) (k : Nat) (chain : String) : Netfilter.Rule :=
  { clauses := if k % 5 = 0 then [] else [.mark false 0 (cfg.markPass ||| cfg.markAccept)], action := .jump chain }

/-- rules for the policies from the `k`-th non-staged one on (`count` in the Go loop) -/
def groupRulesFrom (cfg : Cfg) : Nat → List Pol → List Netfilter.Rule
  | _, [] => []
  | k, p :: ps =>
    if p.staged then groupRulesFrom cfg k ps
    else (if k ≠ 0 ∧ k % 5 = 0 then [returnOnVerdict cfg] else []) ++ [groupJump cfg k p.chain]
      ++ groupRulesFrom cfg (k + 1) ps

def policyGroupChain (cfg : Cfg) (g : Group) : Chain :=
  { name := g.chain, rules := groupRulesFrom cfg 0 g.pols }

/-! ### endpointIptablesChain -/

structure EpCfg where
  chainType : ChainType := .normal
  adminUp : Bool := true
  /-- 'I' ingress / 'E' egress (only for NFLOG group and prefixes) -/
  dir : Char := 'I'
  /-- allow action is RETURN (`FilterAllowAction = RETURN`) instead of ACCEPT -/
  allowIsReturn : Bool := false
  failsafe : String := ""
  dropVXLAN : Bool := false
  vxlanPort : Nat := 4789
  dropIPIP : Bool := false
  disableCtInvalid : Bool := false
  deriving Repr, Inhabited

def denyName (cfg : Cfg) : String := if cfg.reject then "Reject" else "Drop"

def conntrackRules (cfg : Cfg) (e : EpCfg) : List Netfilter.Rule :=
  (if e.allowIsReturn then [{ clauses := [.ctState false ["RELATED", "ESTABLISHED"]], action := .setMark cfg.markAccept }] else [])
  ++ [{ clauses := [.ctState false ["RELATED", "ESTABLISHED"]], action := if e.allowIsReturn then .ret else .accept }]
  ++ (if e.disableCtInvalid then [] else [{ clauses := [.ctState false ["INVALID"]], action := C08.denyAction cfg }])

def nflogGrp (e : EpCfg) : Nat := if e.dir = 'I' then 1 else 2

/-- chains a group contributes to the endpoint chain -/
def Group.jumpTargets (g : Group) : List String :=
  if g.inlined then g.nonStaged.map (·.chain) else [g.chain]

def groupEpRules (cfg : Cfg) (e : EpCfg) (g : Group) : List Netfilter.Rule :=
  g.jumpTargets.flatMap fun t =>
    [({ clauses := [.mark false 0 cfg.markPass], action := .jump t } : Netfilter.Rule)]
    ++ (if g.hasNonStaged then
          (if e.chainType = .untracked then
            [({ clauses := [.mark false cfg.markAccept cfg.markAccept], action := .notrack } : Netfilter.Rule)] else [])
          ++ [{ clauses := [.mark false cfg.markAccept cfg.markAccept], action := .ret,
                comments := ["Return if policy accepted"] }]
        else [])

def tierRules (cfg : Cfg) (e : EpCfg) (t : Tier) : List Netfilter.Rule :=
  if t.groups.isEmpty then [] else
  let endOfTierDrop := t.groups.any (·.hasNonStaged)
  [({ action := .clearMark cfg.markPass, comments := ["Start of tier " ++ t.name] } : Netfilter.Rule)]
  ++ t.groups.flatMap (groupEpRules cfg e)
  ++ (if e.chainType = .normal ∨ e.chainType = .forward then
        if endOfTierDrop ∧ ¬ t.defaultPass then
          (if cfg.flowLogs then
            [({ clauses := [.mark false 0 cfg.markPass],
                action := .nflog (nflogGrp e) (String.ofList ['D', 'P', e.dir] ++ "|" ++ t.name) } : Netfilter.Rule)] else [])
          ++ [{ clauses := [.mark false 0 cfg.markPass], action := C08.denyAction cfg,
                comments := [s!"End of tier {t.name}. {denyName cfg} if no policies passed packet"] }]
        else if cfg.flowLogs then
          [{ clauses := [.mark false 0 cfg.markPass],
             action := .nflog (nflogGrp e) (String.ofList ['P', 'P', e.dir] ++ "|" ++ t.name) }]
        else []
      else [])

def profileRules (cfg : Cfg) (e : EpCfg) (profiles : List String) : List Netfilter.Rule :=
  profiles.flatMap (fun p =>
    [({ action := .jump p } : Netfilter.Rule),
     { clauses := [.mark false cfg.markAccept cfg.markAccept], action := .ret, comments := ["Return if profile accepted"] }])
  ++ (if cfg.flowLogs then [{ action := .nflog (nflogGrp e) (String.ofList ['D', 'R', e.dir]) }] else [])
  ++ [{ action := C08.denyAction cfg, comments := [s!"{denyName cfg} if no profiles matched"] }]

/-- `endpointIptablesChain` (without QoS controls) -/
def endpointChain (cfg : Cfg) (e : EpCfg) (name : String) (tiers : List Tier) (profiles : List String) : Chain :=
  if ¬ e.adminUp then
    { name := name, rules := [{ action := C08.denyAction cfg, comments := ["Endpoint admin disabled"] }] }
  else
  { name := name
    rules :=
      (if e.chainType ≠ .untracked then conntrackRules cfg e else [])
      ++ (if e.failsafe ≠ "" then [{ action := .jump e.failsafe }] else [])
      ++ [{ action := .clearMark (cfg.markAccept ||| cfg.markPass) }]
      ++ (if e.dropVXLAN then
            [{ clauses := [.proto false (.num 17), .ports .dst false [⟨e.vxlanPort, e.vxlanPort⟩]],
               action := C08.denyAction cfg,
               comments := [s!"{denyName cfg} VXLAN encapped packets originating in workloads"] }] else [])
      ++ (if e.dropIPIP then
            [{ clauses := [.proto false (.num 4)], action := C08.denyAction cfg,
               comments := [s!"{denyName cfg} IPinIP encapped packets originating in workloads"] }] else [])
      ++ tiers.flatMap (tierRules cfg e)
      ++ (if tiers.isEmpty ∧ e.chainType = .forward then
            [{ action := .setMark cfg.markAccept, comments := ["Allow forwarded traffic by default"] },
             { action := .ret, comments := ["Return for accepted forward traffic"] }] else [])
      ++ (if e.chainType = .normal then profileRules cfg e profiles else []) }

/-! ### ProtoRulesToIptablesRules (policy and profile chains) -/

def stripTrailingReturns (rs : List Netfilter.Rule) : List Netfilter.Rule :=
  (rs.reverse.dropWhile (fun r => r.action == .ret)).reverse

/-- `ProtoRulesToIptablesRules` with one chain comment; `none` = a rule panics. -/
def protoRulesToRules (cfg : Cfg) (ctx : Ctx) (v6 : Bool) (rules : List Policy.Rule) (comment : String) :
    Option (List Netfilter.Rule) :=
  let rec go (idx : Nat) : List Policy.Rule → Option (List Netfilter.Rule)
    | [] => some []
    | r :: rs => match protoRuleToRules cfg { ctx with idx := idx } (setNameFor v6) v6 r, go (idx + 1) rs with
      | some a, some b => some (a ++ b)
      | _, _ => none
  match go 0 rules with
  | none => none
  | some rs =>
    let rs := stripTrailingReturns rs
    match rs with
    | [] => some [{ comments := [comment] }]
    | r :: rest => some ({ r with comments := r.comments ++ [comment] } :: rest)

/-! ### Reference verdict semantics -/

inductive Verdict where
  | allow | deny
  deriving DecidableEq, Repr, Inhabited

/-- outcome of one policy / profile on a packet: first matching rule decides -/
inductive PolOutcome where
  | allow | deny | pass | noMatch
  deriving DecidableEq, Repr, Inhabited

def policyOutcome (env : Env) (v6 : Bool) (pkt : Packet) : List Policy.Rule → PolOutcome
  | [] => .noMatch
  | r :: rs =>
    if ruleMatches env (setNameFor v6) r pkt then
      match parseAction r.action with
      | some .allow => .allow
      | some .deny => .deny
      | some .pass => .pass
      | _ => policyOutcome env v6 pkt rs     -- log: keep going
    else policyOutcome env v6 pkt rs

/-- a tier for the reference semantics: its enforced (non-staged) policies' outcomes, in order -/
inductive TierResult where
  | allow | deny | nextTier
  deriving DecidableEq, Repr, Inhabited

/-- Tier semantics: the first enforced policy that allows/denies/passes decides; a tier holding an
enforced policy that matches nothing denies unless its default action is pass; a tier with only
staged policies (or none) is skipped. -/
def tierResult (outcomes : List PolOutcome) (defaultPass : Bool) : TierResult :=
  match outcomes.find? (· ≠ .noMatch) with
  | some .allow => .allow
  | some .deny => .deny
  | some .pass => .nextTier
  | _ => if outcomes.isEmpty ∨ defaultPass then .nextTier else .deny

/-- profiles: first profile whose first matching rule allows ⇒ allow, denies ⇒ deny; a `pass`
in a profile moves on to the next profile (as the iptables rendering does); nothing ⇒ deny -/
def profilesVerdict : List PolOutcome → Verdict
  | [] => .deny
  | .allow :: _ => .allow
  | .deny :: _ => .deny
  | _ :: rest => profilesVerdict rest

/-- `tiers`: per tier, the outcomes of its enforced policies and its default action. -/
def endpointVerdict : List (List PolOutcome × Bool) → List PolOutcome → Verdict
  | [], profiles => profilesVerdict profiles
  | (outs, dp) :: rest, profiles =>
    match tierResult outs dp with
    | .allow => .allow
    | .deny => .deny
    | .nextTier => endpointVerdict rest profiles

end CalicoVerif.C09
