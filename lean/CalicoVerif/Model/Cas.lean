/-
Model/Cas — compare-and-swap datastore + the IPAM client protocol over it
(shared by C19, C20, C22, C38).  Core Lean only.

What is modelled (the code that exists, libcalico-go/lib/ipam):

* The datastore (`backend/api.Client` with etcdv3 semantics): one global
  revision counter; every key holds (revision, value); `Create` succeeds iff the
  key is absent, `Update`/`Delete` with a revision succeed iff the key is
  present at exactly that revision.  An injected fault may turn a write into a
  spurious conflict, a datastore error without effect, or a crash of the calling
  thread before / after the write.
* The value types at the granularity the properties speak about:
  - allocation block (`model.AllocationBlock`): affinity host, one `Slot` per
    ordinal (`Allocations` + `Attributes` resolved: free / live for a handle /
    in cooldown) and the `Unallocated` queue;
  - handle (`model.IPAMHandle`): block ↦ count;
  - block affinity (`model.BlockAffinity`): state.
* The block-level functions of ipam_block.go that compute the new value of a
  block from the value the client read: `garbageCollect`, `autoAssign`,
  `assign`, `release`, `releaseByHandle`, clearing the affinity
  (`releaseBlockAffinity`), the no-op rewrite of `getBlockFromAffinity`.
* The order in which one client thread issues its writes, as far as it matters
  for the invariants, by *ghost tokens* held by threads (`Cred`):
  `incrementHandle(h,b,n)` gives the thread a token (t,h,b,n); the block write
  that allocates for `h` consumes it; a block write that releases addresses of
  `h` creates a token; `decrementHandle(h,b,n)` consumes one.  A crashed thread
  simply never spends its tokens.  (After the repair 9cd85f1 the increment is by
  the number of addresses actually taken, so the allocating write must take
  exactly the token's count; after repair e889066 `releaseByHandle` no longer
  decrements for a block somebody else deleted, so every decrement is backed by
  a token.)

A state transition is `step s ev`: it is `none` when the event is not an
instance of the protocol (inadmissible), otherwise the successor state.  Since
compare-and-swap makes "read value" = "current value" for every successful
write, reads are not state-changing events; every interleaving of client
threads, every conflict and every crash point is a sequence of events, and the
property theorems quantify over ALL event sequences (`run`).

Time is not modelled: a cooldown slot may be freed by any `garbageCollect`
(the event names which ordinals were freed).
-/
namespace CalicoVerif.Cas

/-- One ordinal of a block. `live 0` = allocated without a handle. -/
inductive Slot where
  | free
  | cool
  | live (h : Nat)
deriving DecidableEq, Repr, Inhabited

structure Blk where
  aff : Option Nat
  slots : List Slot
  unalloc : List Nat
deriving DecidableEq, Repr, Inhabited

inductive AffSt where
  | pending | confirmed | pendingDeletion | legacy
deriving DecidableEq, Repr, Inhabited

/-- Ghost token: thread `t` may still move `n` of handle `h`'s count for block `b`. -/
structure Cred where
  t : Nat
  h : Nat
  b : Nat
  n : Nat
deriving DecidableEq, Repr

def upd {α : Type} (f : Nat → α) (k : Nat) (v : α) : Nat → α :=
  fun x => if x = k then v else f x

def upd2 {α : Type} (f : Nat → Nat → α) (k1 k2 : Nat) (v : α) : Nat → Nat → α :=
  fun x y => if x = k1 ∧ y = k2 then v else f x y

structure St where
  rev : Nat
  nb : Nat
  blk : Nat → Option (Nat × Blk)
  hdl : Nat → Option (Nat × List Nat)   -- handle ↦ (revision, count per block id < nb)
  aff : Nat → Nat → Option (Nat × AffSt)
  creds : List Cred
  got : Nat → List (Nat × Nat)

def St.init (rev0 nb : Nat) : St :=
  { rev := rev0, nb := nb, blk := fun _ => none, hdl := fun _ => none, aff := fun _ _ => none,
    creds := [], got := fun _ => [] }

/-! ### Block functions (ipam_block.go) -/

def setSlots (v : Slot) (os : List Nat) (s : List Slot) : List Slot :=
  os.foldl (fun s o => s.set o v) s

def ascending : List Nat → Bool
  | [] => true
  | [_] => true
  | a :: b :: t => a < b && ascending (b :: t)

/-- `garbageCollect`: the ordinals `F` (ascending, as the loop visits them), all in
cooldown, become free and are appended to `Unallocated`. -/
def gc (F : List Nat) (b : Blk) : Option Blk :=
  if ascending F && F.all (fun o => b.slots[o]? == some Slot.cool) then
    some { b with slots := setSlots Slot.free F b.slots, unalloc := b.unalloc ++ F }
  else none

/-- The scan of `autoAssign` over `Unallocated`: take the first `k` ordinals not
reserved, keep the others in order.  Returns (picked, remaining). -/
def takeFree (rv : List Nat) : Nat → List Nat → List Nat × List Nat
  | 0, u => ([], u)
  | _ + 1, [] => ([], [])
  | k + 1, o :: u =>
    if rv.contains o then
      let r := takeFree rv (k + 1) u
      (r.1, o :: r.2)
    else
      let r := takeFree rv k u
      (o :: r.1, r.2)

/-- `autoAssign(num, handle, …, reservations)`; NOTE: like the Go code it does
not look at `Allocations` when it takes an ordinal from `Unallocated`. -/
def autoAssign (k h : Nat) (rv : List Nat) (b : Blk) : Blk × List Nat :=
  let r := takeFree rv k b.unalloc
  ({ b with slots := setSlots (Slot.live h) r.1 b.slots, unalloc := r.2 }, r.1)

/-- `assign(ip, handle)`: error if the ordinal is out of range or its allocation is non-nil. -/
def assignIP (h o : Nat) (b : Blk) : Option Blk :=
  if b.slots[o]? == some Slot.free then
    some { b with slots := b.slots.set o (Slot.live h), unalloc := b.unalloc.erase o }
  else none

def Slot.isLive : Slot → Bool
  | .live _ => true
  | _ => false

/-- Slots after `release` of the requested ordinals `R`: every live one goes to cooldown. -/
def relAux (R : List Nat) : Nat → List Slot → List Slot
  | _, [] => []
  | i, s :: ss => (if R.contains i && s.isLive then Slot.cool else s) :: relAux R (i + 1) ss

/-- Number of requested live ordinals that belong to handle `h`. -/
def relCnt (R : List Nat) (h : Nat) : Nat → List Slot → Nat
  | _, [] => 0
  | i, s :: ss => (if R.contains i && s == Slot.live h then 1 else 0) + relCnt R h (i + 1) ss

/-- Requested live ordinals whose handle differs from the non-empty requested handle
make `release` fail wholesale (ErrorBadHandle). -/
def relHandleOk (R : List Nat) (h : Nat) : Nat → List Slot → Bool
  | _, [] => true
  | i, s :: ss => (if R.contains i && s.isLive && h != 0 then s == Slot.live h else true) && relHandleOk R h (i + 1) ss

/-- `releaseByHandle`: every ordinal live for `h`. -/
def ordsOf (h : Nat) : Nat → List Slot → List Nat
  | _, [] => []
  | i, s :: ss => (if s == Slot.live h then [i] else []) ++ ordsOf h (i + 1) ss

/-- Slots after `releaseByHandle(h)`: every ordinal live for `h` goes to cooldown. -/
def relhAux (h : Nat) (ss : List Slot) : List Slot :=
  ss.map (fun s => if s == Slot.live h then Slot.cool else s)

def liveCount (h : Nat) (s : List Slot) : Nat := s.countP (· == Slot.live h)

def Blk.empty (b : Blk) : Bool := b.slots.all (· == Slot.free)

def newBlk (a n : Nat) : Blk := { aff := some a, slots := List.replicate n Slot.free, unalloc := List.range n }

/-- Block-level operation between the two garbage collections of one read-modify-write. -/
inductive BOp where
  | assign (h k : Nat) (rv : List Nat)
  | assignIP (h o : Nat)
  | release (h : Nat) (ords : List Nat)
  | relh (h : Nat)
  | clearAff
  | bump
deriving Repr

/-- The handle an allocating block operation allocates for — the caller's handle, carried
by the call (0 for operations that allocate nothing). -/
def opHandle : BOp → Nat
  | .assign h _ _ => h
  | .assignIP h _ => h
  | _ => 0

/-- Handles (other than 0) occurring live in a slot list, for debit tokens. -/
def liveHandles : List Slot → List Nat
  | [] => []
  | .live h :: ss => if h != 0 && !(liveHandles ss).contains h then h :: liveHandles ss else liveHandles ss
  | _ :: ss => liveHandles ss

/-- Result of a block operation: new value, addresses recorded for the caller,
debit tokens (handle, count) created, credit (handle, k) required. -/
structure BRes where
  v : Blk
  got : List Nat := []
  debits : List (Nat × Nat) := []
  need : Option (Nat × Nat) := none

def applyBOp (op : BOp) (b : Blk) : Option BRes :=
  match op with
  | .assign h k rv =>
    let r := autoAssign k h rv b
    if k ≥ 1 && r.2.length == k then
      some { v := r.1, got := r.2, need := if h = 0 then none else some (h, k) }
    else none
  | .assignIP h o =>
    match assignIP h o b with
    | some v => some { v := v, got := [o], need := if h = 0 then none else some (h, 1) }
    | none => none
  | .release h ords =>
    if relHandleOk ords h 0 b.slots then
      let hs := liveHandles b.slots
      let ds := (hs.map (fun h' => (h', relCnt ords h' 0 b.slots))).filter (fun p => p.2 != 0)
      some { v := { b with slots := relAux ords 0 b.slots }, debits := ds }
    else none
  | .relh h =>
    if h != 0 && liveCount h b.slots ≥ 1 then
      some { v := { b with slots := relhAux h b.slots }, debits := [(h, liveCount h b.slots)] }
    else none
  | .clearAff => some { v := { b with aff := none } }
  | .bump => some { v := b }

/-- One read-modify-write of a block: `blockFromBackend` (gc), the operation, gc again. -/
def rmw (g1 : List Nat) (op : BOp) (g2 : List Nat) (b : Blk) : Option BRes :=
  match gc g1 b with
  | none => none
  | some b1 =>
    match applyBOp op b1 with
    | none => none
    | some r =>
      match gc g2 r.v with
      | none => none
      | some b2 => some { r with v := b2 }

/-! ### Datastore calls -/

inductive Fault where
  | none | conflict | err | crashBefore | crashAfter
deriving DecidableEq, Repr

inductive Verb where
  | create | update | delete | get | list
deriving DecidableEq, Repr

inductive Outcome where
  | ok | exists_ | notfound | conflict | error | crashed | badreq
deriving DecidableEq, Repr

/-- Outcome of a call given the revision currently stored under the key (`none` = absent). -/
def casOutcome (cur : Option Nat) (verb : Verb) (rev : Option Nat) (f : Fault) : Outcome :=
  match f with
  | .crashBefore => .crashed
  | .err => .error
  | _ =>
    match verb with
    | .list => .ok
    | .get => if cur.isSome then .ok else .notfound
    | .create => if cur.isSome then .exists_ else .ok
    | .update =>
      match rev, cur with
      | none, _ => .badreq
      | some _, none => .notfound
      | some r, some c => if r != c then .conflict else if f == .conflict then .conflict else .ok
    | .delete =>
      match rev, cur with
      | _, none => .notfound
      | some r, some c => if r != c then .conflict else if f == .conflict then .conflict else .ok
      | none, some _ => if f == .conflict then .conflict else .ok

inductive Key where
  | blk (b : Nat)
  | hdl (h : Nat)
  | aff (host b : Nat)
  | other
deriving DecidableEq, Repr

inductive Payload where
  | blkCreate (a n : Nat)
  | blkRmw (g1 : List Nat) (op : BOp) (g2 : List Nat)
  | blkDelete (g1 : List Nat) (op : Option BOp) (g2 : List Nat)
  | hInc (b n : Nat)
  | hDec (b n : Nat)
  | affSt (st : AffSt)
  | affDel
  | noev
deriving Repr

structure Call where
  t : Nat
  fault : Fault
  verb : Verb
  key : Key
  rev : Option Nat
  pl : Payload
  /-- `some x`: the write is an allocation made with the affinity check enabled
  (StrictAffinity) by host `x`. -/
  own : Option Nat := none
deriving Repr

inductive Ev where
  | call (c : Call)
  | begin (t : Nat)
  | endOp (t : Nat) (addrs : List (Nat × Nat))
  | tick                       -- age / quiesce: no effect on the modelled state
deriving Repr

def St.curRev (s : St) : Key → Option Nat
  | .blk b => (s.blk b).map (·.1)
  | .hdl h => (s.hdl h).map (·.1)
  | .aff x b => (s.aff x b).map (·.1)
  | .other => none

def cnt (m : List Nat) (b : Nat) : Nat := (m[b]?).getD 0

def hcount (s : St) (h b : Nat) : Nat :=
  match s.hdl h with
  | some (_, m) => cnt m b
  | none => 0

def credTot (h b : Nat) : List Cred → Nat
  | [] => 0
  | c :: cs => (if c.h = h ∧ c.b = b then c.n else 0) + credTot h b cs

/-- Spend the credit needed by an allocating block write. -/
def spend (t b : Nat) (need : Option (Nat × Nat)) (cs : List Cred) : Option (List Cred) :=
  match need with
  | none => some cs
  | some (h, k) =>
    match cs.find? (fun c => c.t == t && c.h == h && c.b == b && c.n == k) with
    | some c => some (cs.erase c)
    | none => none

def addDebits (t b : Nat) (ds : List (Nat × Nat)) (cs : List Cred) : List Cred :=
  ds.map (fun d => { t := t, h := d.1, b := b, n := d.2 : Cred }) ++ cs

def zeroMap (m : List Nat) : Bool := m.all (· == 0)

/-- The effect of a successful write (the CAS outcome is `ok`).  `none` = the
write is not an instance of the client protocol. -/
def applyWrite (s : St) (c : Call) : Option St :=
  let r' := s.rev + 1
  match c.key, c.verb, c.pl with
  -- blocks -------------------------------------------------------------------
  | .blk b, .create, .blkCreate a n =>
    some { s with rev := r', blk := upd s.blk b (some (r', newBlk a n)) }
  | .blk b, .update, .blkRmw g1 op g2 =>
    match s.blk b with
    | none => none
    | some (_, v) =>
      match rmw g1 op g2 v with
      | none => none
      | some res =>
        match spend c.t b res.need s.creds with
        | none => none
        | some cs =>
          some { s with rev := r', blk := upd s.blk b (some (r', res.v)),
                        creds := addDebits c.t b res.debits cs,
                        got := upd s.got c.t (s.got c.t ++ res.got.map (fun o => (b, o))) }
  | .blk b, .delete, .blkDelete g1 op g2 =>
    match s.blk b with
    | none => none
    | some (_, v) =>
      match op with
      | none =>
        -- releaseBlockAffinity: the block it read (after gc) was empty
        match gc g1 v with
        | some v1 => if v1.empty && g2.isEmpty then some { s with rev := r', blk := upd s.blk b none } else none
        | none => none
      | some op =>
        -- releaseIPsFromBlock / releaseByHandle: empty and unaffine after the release
        match rmw g1 op g2 v with
        | none => none
        | some res =>
          if res.v.empty && res.v.aff.isNone && res.need.isNone then
            some { s with rev := r', blk := upd s.blk b none, creds := addDebits c.t b res.debits s.creds }
          else none
  -- handles ------------------------------------------------------------------
  | .hdl h, .create, .hInc b n =>
    if n ≥ 1 && b < s.nb then
      some { s with rev := r', hdl := upd s.hdl h (some (r', (List.replicate s.nb 0).set b n)),
                    creds := { t := c.t, h := h, b := b, n := n } :: s.creds }
    else none
  | .hdl h, .update, .hInc b n =>
    match s.hdl h with
    | none => none
    | some (_, m) =>
      if n ≥ 1 && b < m.length then
        some { s with rev := r', hdl := upd s.hdl h (some (r', m.set b (cnt m b + n))),
                      creds := { t := c.t, h := h, b := b, n := n } :: s.creds }
      else none
  | .hdl h, .update, .hDec b n =>
    match s.hdl h with
    | none => none
    | some (_, m) =>
      let cr : Cred := { t := c.t, h := h, b := b, n := n }
      if n ≤ cnt m b && b < m.length && s.creds.contains cr && !(zeroMap (m.set b (cnt m b - n))) then
        some { s with rev := r', hdl := upd s.hdl h (some (r', m.set b (cnt m b - n))), creds := s.creds.erase cr }
      else none
  | .hdl h, .delete, .hDec b n =>
    match s.hdl h with
    | none => none
    | some (_, m) =>
      let cr : Cred := { t := c.t, h := h, b := b, n := n }
      if n ≤ cnt m b && b < m.length && s.creds.contains cr && zeroMap (m.set b (cnt m b - n)) then
        some { s with rev := r', hdl := upd s.hdl h none, creds := s.creds.erase cr }
      else none
  -- affinities (plain compare-and-swap cells here; C22 adds the claim protocol) --
  | .aff x b, .create, .affSt st =>
    some { s with rev := r', aff := upd2 s.aff x b (some (r', st)) }
  | .aff x b, .update, .affSt st =>
    some { s with rev := r', aff := upd2 s.aff x b (some (r', st)) }
  | .aff x b, .delete, .affDel =>
    some { s with rev := r', aff := upd2 s.aff x b none }
  | _, _, _ => none

def Verb.isWrite : Verb → Bool
  | .create | .update | .delete => true
  | _ => false

/-- `autoAssign` / `assign` with `affinityCheck`: the block the client read (and
compare-and-swaps against) must record the allocating host as its affinity —
whatever the state of any BlockAffinity object. -/
def ownOk (s : St) (c : Call) : Bool :=
  match c.own, c.key with
  | some x, .blk b =>
    match s.blk b with
    | some (_, v) => v.aff == some x
    | none => false
  | _, _ => true

/-- The transition function of the model. -/
def step (s : St) : Ev → Option St
  | .tick => some s
  | .begin t => some { s with got := upd s.got t [] }
  | .endOp t addrs => if addrs.all (fun a => (s.got t).contains a) then some s else none
  | .call c =>
    match casOutcome (s.curRev c.key) c.verb c.rev c.fault with
    | .ok => if c.verb.isWrite then (if ownOk s c then applyWrite s c else none) else some s
    | _ => some s

def run (s : St) : List Ev → Option St
  | [] => some s
  | e :: es => match step s e with
    | some s' => run s' es
    | none => none

end CalicoVerif.Cas
