/-
C29 — Kubernetes NetworkPolicy keeps its Kubernetes meaning after conversion.

Executable model (core Lean only) of
  libcalico-go/lib/backend/k8s/conversion/conversion.go
    K8sNetworkPolicyToCalico, k8sSelectorToCalico, k8sRuleToCalico, SimplifyPorts,
    k8sPortToCalico(Fields), k8sPeerToCalicoFields, NamespaceToProfile (labels only)
  libcalico-go/lib/backend/k8s/conversion/workload_endpoint_default.go
    podToDefaultWorkloadEndpoint (the labels map only)
  api/pkg/lib/numorstring  PortFromString, Port.String, ProtocolFromString
  libcalico-go/lib/backend/syncersv1/updateprocessors
    ConvertNetworkPolicyV3ToV1Value (selector), getEndpointSelector (rules.go)
plus two small reference semantics written for this property only:
  * `k8sVerdict`     — what ONE Kubernetes NetworkPolicy says about a connection
  * `calicoVerdict`  — what ONE Calico policy (all rules `Allow`, default tier) says.

NOTE (to be unified later): selector *strings* are not parsed here.  The converter's output is
kept as a list of conjuncts (`Term`) together with the exact text the Go code prints (`Term.render`);
parsing that text back is the business of the shared selector model (C06, other owner) and is
tied here only by the correspondence run, which evaluates the real parser on the real text.
The policy semantics below is the minimal fragment this property needs (allow-only rules, one
tier); `Model/Policy.lean` (other owner) is the general one.
-/
namespace CalicoVerif.C29

/-! ## Labels -/

abbrev Labels := List (String × String)

/-- Go map lookup (`v, ok := m[k]`); the harness never sends duplicate keys. -/
def lget (l : Labels) (k : String) : Option String := List.lookup k l

/-! ## Kubernetes side: metav1.LabelSelector -/

inductive SelOp | opIn | opNotIn | opExists | opDoesNotExist | opOther
deriving DecidableEq, Repr

structure Expr where
  key : String
  op : SelOp
  values : List String
deriving Repr

structure LSel where
  ml : Labels
  me : List Expr
deriving Repr

/-- Kubernetes meaning of one matchExpression (k8s.io/apimachinery labels.Requirement.Matches). -/
def Expr.holds (get : String → Option String) (e : Expr) : Bool :=
  match e.op with
  | .opIn => match get e.key with | some v => e.values.contains v | none => false
  | .opNotIn => match get e.key with | some v => !e.values.contains v | none => true
  | .opExists => (get e.key).isSome
  | .opDoesNotExist => (get e.key).isNone
  | .opOther => false

/-- Kubernetes meaning of a LabelSelector on a label map. -/
def LSel.holds (s : LSel) (get : String → Option String) : Bool :=
  s.ml.all (fun kv => get kv.1 == some kv.2) && s.me.all (Expr.holds get)

/-! ## Calico side: the selector fragments the converter prints -/

inductive Term
  | eq (k v : String)
  | inSet (k : String) (vs : List String)
  | notIn (k : String) (vs : List String)
  | has (k : String)
  | notHas (k : String)
  | all
deriving Repr

/-- Conjunction of terms; `[]` is the empty selector string. -/
abbrev CSel := List Term

/-- Exactly the `fmt.Sprintf` texts of k8sSelectorToCalico. -/
def Term.render : Term → String
  | .eq k v => k ++ " == '" ++ v ++ "'"
  | .inSet k vs => k ++ " in { '" ++ "', '".intercalate vs ++ "' }"
  | .notIn k vs => k ++ " not in { '" ++ "', '".intercalate vs ++ "' }"
  | .has k => "has(" ++ k ++ ")"
  | .notHas k => "! has(" ++ k ++ ")"
  | .all => "all()"

def CSel.render (s : CSel) : String := " && ".intercalate (s.map Term.render)

/-- Meaning of a term (parser/ast.go `Evaluate` of Eq/In/NotIn/Has/!Has/All nodes). -/
def Term.holds (get : String → Option String) : Term → Bool
  | .eq k v => get k == some v
  | .inSet k vs => match get k with | some v => vs.contains v | none => false
  | .notIn k vs => match get k with | some v => !vs.contains v | none => true
  | .has k => (get k).isSome
  | .notHas k => (get k).isNone
  | .all => true

def CSel.holds (s : CSel) (get : String → Option String) : Bool := s.all (Term.holds get)

/-! ## Addresses -/

structure IP where
  v6 : Bool
  addr : Nat
deriving DecidableEq, Repr

structure Cidr where
  v6 : Bool
  addr : Nat
  len : Nat
deriving DecidableEq, Repr

def bitsOf (v6 : Bool) : Nat := if v6 then 128 else 32

/-- `cnet.ParseCIDR(s)` then `ipNet.String()`: the address is masked to the prefix. -/
def Cidr.norm (c : Cidr) : Cidr :=
  let h := bitsOf c.v6 - c.len
  { c with addr := (c.addr >>> h) <<< h }

def Cidr.contains (c : Cidr) (ip : IP) : Bool :=
  let h := bitsOf c.v6 - c.len
  c.v6 == ip.v6 && (c.addr >>> h) == (ip.addr >>> h)

/-! ## numorstring.Port / Protocol -/

structure CPort where
  min : Nat
  max : Nat
  name : String
deriving DecidableEq, Repr

def CPort.render (p : CPort) : String :=
  if p.name ≠ "" then p.name
  else if p.min = p.max then toString p.min
  else toString p.min ++ ":" ++ toString p.max

def allDigits (s : String) : Bool := !s.isEmpty && s.toList.all Char.isDigit

/-- `strconv.ParseUint(s, 10, 16)` on an all-digits string. -/
def parseU16 (s : String) : Option Nat :=
  let n := s.toList.foldl (fun acc c => acc * 10 + (c.toNat - '0'.toNat)) 0
  if n ≤ 65535 then some n else none

/-- uint16 range check of `strconv.ParseUint(strconv.Itoa(n), 10, 16)`. -/
def u16 (n : Int) : Option Nat := if 0 ≤ n ∧ n ≤ 65535 then some n.toNat else none

def nameChar (c : Char) : Bool :=
  c.isAlphanum || c == '_' || c == '.' || c == '-'

/-- `nameRegex = ^[a-zA-Z0-9_.-]{1,128}$`. -/
def validPortName (s : String) : Bool :=
  let l := s.toList
  1 ≤ l.length && l.length ≤ 128 && l.all nameChar

/-- The regex `^(\d+):(\d+)$` of PortFromString, on the character list. -/
def splitRange (l : List Char) : Option (List Char × List Char) :=
  let a := l.takeWhile Char.isDigit
  match l.dropWhile Char.isDigit with
  | ':' :: b => if !a.isEmpty && !b.isEmpty && b.all Char.isDigit then some (a, b) else none
  | _ => none

def digitsVal (l : List Char) : Nat := l.foldl (fun acc c => acc * 10 + (c.toNat - '0'.toNat)) 0

/-- `NamedPort(s)` -/
def namedPort (s : String) : Option CPort :=
  if validPortName s then some { min := 0, max := 0, name := s } else none

/-- `numorstring.PortFromString`. -/
def portFromString (s : String) : Option CPort :=
  if allDigits s then
    (parseU16 s).map fun n => { min := n, max := n, name := "" }
  else
    match splitRange s.toList with
    | some (a, b) =>
      let lo := digitsVal a
      let hi := digitsVal b
      if lo ≤ 65535 && hi ≤ 65535 then
        (if lo > hi then none else some { min := lo, max := hi, name := "" })
      else none
    | none => namedPort s

def allProtocolNames : List String := ["UDP", "TCP", "ICMP", "ICMPv6", "SCTP", "UDPLite"]

/-- `strings.EqualFold` restricted to ASCII case folding. -/
def equalFold (a b : String) : Bool := a.toList.map Char.toLower == b.toList.map Char.toLower

/-- `numorstring.ProtocolFromString(p).String()`. -/
def protocolFromString (p : String) : String :=
  match allProtocolNames.find? (fun n => equalFold n p) with
  | some n => n
  | none => p

/-- IP protocol number of a (v3-cased) protocol name; `none` = matches nothing. -/
def protoNum (p : String) : Option Nat :=
  if p = "TCP" then some 6 else if p = "UDP" then some 17 else if p = "ICMP" then some 1
  else if p = "ICMPv6" then some 58 else if p = "SCTP" then some 132 else if p = "UDPLite" then some 136
  else none

/-! ## Kubernetes NetworkPolicy -/

/-- intstr.IntOrString -/
inductive PortVal
  | int (n : Int)
  | str (s : String)
deriving Repr

def PortVal.toStr : PortVal → String
  | .int n => toString n
  | .str s => s

structure KPort where
  proto : Option String
  port : Option PortVal
  endPort : Option Int
deriving Repr

structure IPBlock where
  cidr : Cidr
  excepts : List Cidr
deriving Repr

structure Peer where
  podSel : Option LSel
  nsSel : Option LSel
  ipBlock : Option IPBlock
deriving Repr

structure KRule where
  peers : List Peer
  ports : List KPort
deriving Repr

structure NP where
  ns : String
  podSel : LSel
  ingress : List KRule
  egress : List KRule
  types : List String
deriving Repr

/-! ## Calico v3 policy (the fields the converter fills) -/

structure Entity where
  sel : CSel := []
  nsSel : CSel := []
  nets : List Cidr := []
  notNets : List Cidr := []
  ports : List CPort := []
deriving Repr

structure CRule where
  proto : Option String
  src : Entity
  dst : Entity
deriving Repr

inductive Dir | ingress | egress
deriving DecidableEq, Repr

structure CPolicy where
  ns : String
  sel : CSel
  ingress : List CRule
  egress : List CRule
  types : List Dir
deriving Repr

structure ConvResult where
  pol : CPolicy
  badIngress : Nat
  badEgress : Nat
deriving Repr

/-! ## The converter -/

def labelOrchestrator := "projectcalico.org/orchestrator"
def labelNamespace := "projectcalico.org/namespace"
def labelServiceAccount := "projectcalico.org/serviceaccount"
def nsLabelPrefix := "pcns."
def saLabelPrefix := "pcsa."
def nameLabel := "projectcalico.org/name"

def strLe (a b : String) : Bool := decide (a ≤ b)

/-- `sort.Strings(keys)` over the matchLabels map. -/
def sortByKey (l : Labels) : Labels := l.mergeSort (fun a b => strLe a.1 b.1)

/-- The values as the parser reads them back from `{ '%s' }` with the values joined by `', '`:
an EMPTY value list prints as `{ '' }`, i.e. the one-element set containing the empty string. -/
def printedValues (vs : List String) : List String := if vs.isEmpty then [""] else vs

def exprTerms (e : Expr) : List Term :=
  match e.op with
  | .opIn => [.inSet e.key (printedValues e.values)]
  | .opNotIn => [.notIn e.key (printedValues e.values)]
  | .opExists => [.has e.key]
  | .opDoesNotExist => [.notHas e.key]
  | .opOther => []

/-- k8sSelectorToCalico; `pod = true` is SelectorPod, `false` is SelectorNamespace. -/
def k8sSelectorToCalico (s : Option LSel) (pod : Bool) : CSel :=
  let pre : CSel := if pod then [.eq labelOrchestrator "k8s"] else []
  match s with
  | none => pre
  | some s =>
    if !pod && s.ml.isEmpty && s.me.isEmpty then [.all]
    else pre ++ (sortByKey s.ml).map (fun kv => Term.eq kv.1 kv.2) ++ s.me.flatMap exprTerms

/-- k8sPortToCalico: `none` = error, `some []` = nil list (all ports).
The int→decimal string→uint16 round trip (`intstr.String`, `fmt %d`, `ParseUint`) is not modelled
character by character: an int port takes the branch its decimal text takes in PortFromString. -/
def k8sPortToCalico (p : KPort) : Option (List CPort) :=
  match p.port, p.endPort with
  | none, _ => some []
  | some (.int n), none =>
    if n < 0 then (namedPort (toString n)).map fun cp => [cp]   -- "-5" is a legal Calico port NAME
    else (u16 n).map fun v => [{ min := v, max := v, name := "" }]
  | some (.int n), some e =>
    if n < 0 ∨ e < 0 then none    -- "-5:90" / "80:-1": not a range, and ':' is not a name character
    else match u16 n, u16 e with
      | some lo, some hi => if lo > hi then none else some [{ min := lo, max := hi, name := "" }]
      | _, _ => none
  | some (.str s), none => (portFromString s).map fun cp => [cp]
  | some (.str s), some e => (portFromString (s ++ ":" ++ toString e)).map fun cp => [cp]

/-- The numeric ports enumerated by the first loop of SimplifyPorts. -/
def expandPorts (ports : List CPort) : List Nat :=
  ports.flatMap fun p => if p.name ≠ "" then [] else List.range' p.min (p.max + 1 - p.min)

def namedPorts (ports : List CPort) : List CPort := ports.filter (fun p => p.name ≠ "")

/-- Inner/outer loop of SimplifyPorts on the sorted slice: current range is [first,last]. -/
def coalesceGo (first last : Nat) : List Nat → List CPort
  | [] => [{ min := first, max := last, name := "" }]
  | n :: rest =>
    if n > last + 1 then { min := first, max := last, name := "" } :: coalesceGo n n rest
    else coalesceGo first n rest

def coalesce : List Nat → List CPort
  | [] => []
  | n :: rest => coalesceGo n n rest

/-- conversion.SimplifyPorts -/
def simplifyPorts (ports : List CPort) : List CPort :=
  if ports.length ≤ 1 then ports
  else
    let nums := expandPorts ports
    if nums.length ≤ 1 then ports
    else namedPorts ports ++ coalesce (nums.mergeSort (fun a b => decide (a ≤ b)))

/-- One step of the `protocolPorts` map update in k8sRuleToCalico (value `[]` = nil = all ports). -/
def ppInsert (m : List (String × List CPort)) (p : String) (ports : List CPort) : List (String × List CPort) :=
  match m with
  | [] => [(p, ports)]
  | (k, v) :: rest =>
    if k = p then
      (if ports.isEmpty then (k, []) :: rest
       else if v.isEmpty then (k, v) :: rest
       else (k, v ++ ports) :: rest)
    else (k, v) :: ppInsert rest p ports

/-- The loop over `ports` building `protocolPorts`; `none` = a port failed to parse. -/
def buildProtocolPorts (ports : List KPort) : Option (List (String × List CPort)) :=
  ports.foldl (fun acc p =>
    match acc with
    | none => none
    | some m =>
      match k8sPortToCalico p with
      | none => none
      | some cps =>
        -- the rule copy always sets a protocol: the given one or TCP
        let proto := protocolFromString (p.proto.getD "TCP")
        some (ppInsert m proto cps)) (some [])

/-- k8sPeerToCalicoFields (CIDR strings are always well formed in this model). -/
def peerFields (peer : Option Peer) : Entity :=
  match peer with
  | none => {}
  | some peer =>
    match peer.ipBlock with
    | some b => { nets := [b.cidr.norm], notNets := b.excepts.map Cidr.norm }
    | none => { sel := k8sSelectorToCalico peer.podSel true, nsSel := k8sSelectorToCalico peer.nsSel false }

/-- k8sRuleToCalico -/
def k8sRuleToCalico (peers : List Peer) (ports : List KPort) (ingress : Bool) : Option (List CRule) :=
  let peers' : List (Option Peer) := if peers.isEmpty then [none] else peers.map some
  let pp : Option (List (String × List CPort)) :=
    if ports.isEmpty then some [("", [])] else buildProtocolPorts ports
  match pp with
  | none => none
  | some pp =>
    let pp := pp.mergeSort (fun a b => strLe a.1 b.1)
    some <| pp.flatMap fun (protoStr, cports) =>
      let cports := simplifyPorts cports
      let proto : Option String := if protoStr ≠ "" then some (protocolFromString protoStr) else none
      peers'.map fun peer =>
        let e := peerFields peer
        if ingress then
          { proto := proto, src := e, dst := { ports := cports } }
        else
          { proto := proto, src := {}, dst := { e with ports := cports } }

/-- Convert a list of k8s rules, counting those dropped with an error. -/
def convertRules (rs : List KRule) (ingress : Bool) : List CRule × Nat :=
  rs.foldl (fun (acc : List CRule × Nat) r =>
    match k8sRuleToCalico r.peers r.ports ingress with
    | none => (acc.1, acc.2 + 1)
    | some crs => (acc.1 ++ crs, acc.2)) ([], 0)

/-- K8sNetworkPolicyToCalico (Spec only; metadata/UID are not modelled). -/
def convert (np : NP) : ConvResult :=
  let (inRules, badIn) := convertRules np.ingress true
  let (egRules, badEg) := convertRules np.egress false
  let ingress := np.types.contains "Ingress"
  let egress := np.types.contains "Egress"
  let types : List Dir := (if ingress then [Dir.ingress] else []) ++ (if egress then [Dir.egress] else [])
  let types := if types.isEmpty then [Dir.ingress] else types
  { pol := { ns := np.ns, sel := k8sSelectorToCalico (some np.podSel) true,
             ingress := inRules, egress := egRules, types := types },
    badIngress := badIn, badEgress := badEg }

/-! ## v3 → v1 (updateprocessors) -/

/-- PrefixVisitor{pcns.} + the `all()` → `has(projectcalico.org/namespace)` replacement. -/
def prefixTerm : Term → Term
  | .eq k v => .eq (nsLabelPrefix ++ k) v
  | .inSet k vs => .inSet (nsLabelPrefix ++ k) vs
  | .notIn k vs => .notIn (nsLabelPrefix ++ k) vs
  | .has k => .has (nsLabelPrefix ++ k)
  | .notHas k => .notHas (nsLabelPrefix ++ k)
  | .all => .has labelNamespace

/-- getEndpointSelector (no service-account match, no NotSelector): the conjunction that the
v1 rule's selector denotes.  `[]` = empty selector = no constraint. -/
def endpointSelector (nsSel sel : CSel) (ns : String) : CSel :=
  let nsPart : CSel :=
    if !nsSel.isEmpty then nsSel.map prefixTerm
    else if ns ≠ "" then [.eq labelNamespace ns] else []
  if !nsPart.isEmpty && (!sel.isEmpty || !nsSel.isEmpty) then nsPart ++ sel else sel

/-- ConvertNetworkPolicyV3ToV1Value: the policy selector. -/
def policySelectorV1 (p : CPolicy) : CSel :=
  if p.ns ≠ "" then p.sel ++ [.eq labelNamespace p.ns] else p.sel

/-! ## Cluster state and connections -/

structure Pod where
  ns : String
  labels : Labels
  sa : String                       -- serviceAccountName, "" = none
  ports : List (String × Nat × Nat) -- containerPort name, protocol number, port
deriving Repr

inductive Endpoint
  | pod (p : Pod)
  | other (labels : Labels)         -- host endpoint / network set / non-k8s workload
  | none                            -- address that belongs to nothing Calico knows
deriving Repr

structure Party where
  ip : IP
  ep : Endpoint
deriving Repr

structure Conn where
  src : Party
  dst : Party
  proto : Nat
  dport : Nat
deriving Repr

/-- namespace name → Namespace.Labels -/
abbrev Cluster := List (String × Labels)

def Cluster.nsLabels (c : Cluster) (ns : String) : Labels := (List.lookup ns c).getD []

/-- podToDefaultWorkloadEndpoint: the WorkloadEndpoint's own labels. -/
def wepOwnGet (p : Pod) (k : String) : Option String :=
  if k = labelServiceAccount ∧ p.sa ≠ "" ∧ p.sa.length < 63 then some p.sa
  else if k = labelOrchestrator then some "k8s"
  else if k = labelNamespace then some p.ns
  else lget p.labels k

/-- NamespaceToProfile: LabelsToApply of profile kns.<ns>. -/
def profileLabels (nsName : String) (l : Labels) : Labels :=
  (nsLabelPrefix ++ nameLabel, nsName) :: l.map (fun kv => (nsLabelPrefix ++ kv.1, kv.2))

/-- felix labelindex itemData.GetHandle: own labels first, then the parents'. -/
def wepGet (c : Cluster) (p : Pod) (k : String) : Option String :=
  match wepOwnGet p k with
  | some v => some v
  | none => lget (profileLabels p.ns (c.nsLabels p.ns)) k

/-- Label view of an endpoint as seen by Calico selectors; `none` = not an endpoint. -/
def Endpoint.calicoGet (c : Cluster) : Endpoint → Option (String → Option String)
  | .pod p => some (wepGet c p)
  | .other l => some (lget l)
  | .none => Option.none

/-! ## Reference semantics 1: Kubernetes -/

def effTypes (np : NP) : List Dir :=
  if np.types.isEmpty then
    -- SetDefaults_NetworkPolicy
    [Dir.ingress] ++ (if np.egress.isEmpty then [] else [Dir.egress])
  else (if np.types.contains "Ingress" then [Dir.ingress] else []) ++
       (if np.types.contains "Egress" then [Dir.egress] else [])

def k8sPeerMatches (c : Cluster) (npNs : String) (peer : Peer) (pa : Party) : Bool :=
  match peer.ipBlock with
  | some b => b.cidr.contains pa.ip && b.excepts.all (fun e => !e.contains pa.ip)
  | none =>
    match pa.ep with
    | .pod p =>
      (match peer.nsSel with
       | none => p.ns == npNs
       | some s => s.holds (lget (c.nsLabels p.ns))) &&
      (match peer.podSel with
       | none => true
       | some s => s.holds (lget p.labels))
    | _ => false

def podHasPort (e : Endpoint) (name : String) (proto port : Nat) : Bool :=
  match e with
  | .pod p => p.ports.contains (name, proto, port)
  | _ => false

/-- Kubernetes meaning of one NetworkPolicyPort (protocol defaults to TCP). -/
def k8sPortMatches (kp : KPort) (conn : Conn) : Bool :=
  (protoNum (kp.proto.getD "TCP") == some conn.proto) &&
  (match kp.port with
   | none => true
   | some (.int n) =>
     (match kp.endPort with
      | none => n == (conn.dport : Int)
      | some e => n ≤ (conn.dport : Int) && (conn.dport : Int) ≤ e)
   | some (.str s) => podHasPort conn.dst.ep s conn.proto conn.dport)

def k8sRuleMatches (c : Cluster) (npNs : String) (r : KRule) (peerParty : Party) (conn : Conn) : Bool :=
  (r.peers.isEmpty || r.peers.any (fun p => k8sPeerMatches c npNs p peerParty)) &&
  (r.ports.isEmpty || r.ports.any (fun p => k8sPortMatches p conn))

inductive Verdict | noOpinion | allow | deny
deriving DecidableEq, Repr

def Conn.self (conn : Conn) : Dir → Party
  | .ingress => conn.dst
  | .egress => conn.src

def Conn.peer (conn : Conn) : Dir → Party
  | .ingress => conn.src
  | .egress => conn.dst

/-- What ONE Kubernetes NetworkPolicy says about a connection in one direction. -/
def k8sVerdict (c : Cluster) (np : NP) (d : Dir) (conn : Conn) : Verdict :=
  match (conn.self d).ep with
  | .pod p =>
    if p.ns == np.ns && np.podSel.holds (lget p.labels) && (effTypes np).contains d then
      let rules := match d with | .ingress => np.ingress | .egress => np.egress
      if rules.any (fun r => k8sRuleMatches c np.ns r (conn.peer d) conn) then .allow else .deny
    else .noOpinion
  | _ => .noOpinion

/-! ## Reference semantics 2: Calico (allow-only policy in one tier) -/

def selMatches (c : Cluster) (s : CSel) (pa : Party) : Bool :=
  s.isEmpty ||
  (match pa.ep.calicoGet c with
   | some get => s.holds get
   | none => false)

def cportMatches (p : CPort) (conn : Conn) : Bool :=
  if p.name ≠ "" then podHasPort conn.dst.ep p.name conn.proto conn.dport
  else p.min ≤ conn.dport && conn.dport ≤ p.max

def entityMatches (c : Cluster) (polNs : String) (e : Entity) (pa : Party) : Bool :=
  selMatches c (endpointSelector e.nsSel e.sel polNs) pa &&
  (e.nets.isEmpty || e.nets.any (fun n => n.contains pa.ip)) &&
  e.notNets.all (fun n => !n.contains pa.ip)

def cruleMatches (c : Cluster) (polNs : String) (r : CRule) (conn : Conn) : Bool :=
  (match r.proto with
   | none => true
   | some p => protoNum p == some conn.proto) &&
  entityMatches c polNs r.src conn.src &&
  entityMatches c polNs r.dst conn.dst &&
  (r.dst.ports.isEmpty || r.dst.ports.any (fun p => cportMatches p conn))

/-- What ONE converted policy says: applies ⇒ allow if a rule matches, else the tier's
end-of-tier drop; does not apply ⇒ no opinion. -/
def calicoVerdict (c : Cluster) (p : CPolicy) (d : Dir) (conn : Conn) : Verdict :=
  let me := conn.self d
  match me.ep.calicoGet c with
  | some get =>
    if (policySelectorV1 p).holds get && p.types.contains d then
      let rules := match d with | .ingress => p.ingress | .egress => p.egress
      if rules.any (fun r => cruleMatches c p.ns r conn) then .allow else .deny
    else .noOpinion
  | none => .noOpinion

/-- Several policies of one tier (all rules Allow): allow if any applying policy allows,
deny if some policy applies and none allows, otherwise no opinion. -/
def combine (vs : List Verdict) : Verdict :=
  if vs.contains .allow then .allow else if vs.contains .deny then .deny else .noOpinion

/-! ## Rendering (driver output = harness output) -/

def Cidr.render (c : Cidr) : String :=
  (if c.v6 then "6-" else "4-") ++ toString c.addr ++ "-" ++ toString c.len

def Entity.render (e : Entity) (withPorts : Bool) : String :=
  "(" ++ e.sel.render ++ "|" ++ e.nsSel.render ++ "|" ++ ",".intercalate (e.nets.map Cidr.render) ++ "|" ++
    ",".intercalate (e.notNets.map Cidr.render) ++
    (if withPorts then "|" ++ ",".intercalate (e.ports.map CPort.render) else "") ++ ")"

def CRule.render (r : CRule) : String :=
  "{" ++ r.proto.getD "-" ++ " src" ++ r.src.render false ++ " dst" ++ r.dst.render true ++ "}"

def Dir.render : Dir → String
  | .ingress => "ingress"
  | .egress => "egress"

def ConvResult.render (r : ConvResult) : String :=
  "sel[" ++ r.pol.sel.render ++ "] types[" ++ ",".intercalate (r.pol.types.map Dir.render) ++
  "] in[" ++ ";".intercalate (r.pol.ingress.map CRule.render) ++
  "] eg[" ++ ";".intercalate (r.pol.egress.map CRule.render) ++
  "] bad=" ++ toString r.badIngress ++ "/" ++ toString r.badEgress

def Verdict.render : Verdict → String
  | .noOpinion => "none"
  | .allow => "allow"
  | .deny => "deny"

end CalicoVerif.C29
