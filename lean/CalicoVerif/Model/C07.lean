import CalicoVerif.Model.C06Parser
/-
C07 — model of felix/labelindex/label_inheritance_index.go (InheritIndex), of
the `LabelRestrictions()` methods of libcalico-go/lib/selector/parser/ast.go and
of the candidate function of felix/labelindex/labelrestrictionindex.

Selectors, evaluation and canonical text are the shared model `CalicoVerif.C06`.

InheritIndex: item and selector ids are `Nat`s; Go maps are association lists
with unique keys.  An item's parents are held BY ID (the Go code holds
`*parentData` pointers; a parent record lives in `parentDataByParentID` exactly
as long as an item references it or it has labels, so pointer and id lookups
agree — this sharing is what the correspondence check exercises).  Iteration
over Go maps/sets is in unspecified order; the model fixes list order and the
driver prints the callbacks of one operation sorted.

Core Lean only.
-/
namespace CalicoVerif.C07
open CalicoVerif.C06

/-! ### InheritIndex -/

/-- `itemData`: own labels and the ordered parent (profile) ids. -/
structure Item where
  labels : List (Str × Str)
  parents : List Str
deriving Repr

/-- A match callback: `OnMatchStarted(sel, item)` / `OnMatchStopped(sel, item)`. -/
inductive Event
  | started (sel item : Nat)
  | stopped (sel item : Nat)
deriving DecidableEq, Repr

/-- `InheritIndex` (the `dirtyItemIDs` set is empty between calls). -/
structure Idx where
  items : List (Nat × Item) := []              -- itemDataByID
  parents : List (Str × List (Str × Str)) := []  -- parentDataByParentID[..].labels (non-nil ones)
  sels : List (Nat × Node) := []               -- selectorsById
  matched : List (Nat × Nat) := []             -- (selId, itemId): selIdsByLabelId / labelIdsBySelId
deriving Repr

def lookup {α β} [DecidableEq α] (k : α) : List (α × β) → Option β
  | [] => none
  | (k', v) :: rest => if k' = k then some v else lookup k rest

def erase {α β} [DecidableEq α] (k : α) (l : List (α × β)) : List (α × β) :=
  l.filter (fun kv => kv.1 ≠ k)

def insert {α β} [DecidableEq α] (k : α) (v : β) (l : List (α × β)) : List (α × β) :=
  (k, v) :: erase k l

/-- The labels of a parent (absent parent = no labels). -/
def parentLabels (st : Idx) (pid : Str) : List (Str × Str) :=
  (lookup pid st.parents).getD []

/-- `itemData.GetHandle`: own labels first, then the parents in order. -/
def firstParent (st : Idx) (k : Str) : List Str → Option Str
  | [] => none
  | p :: ps => match lookup k (parentLabels st p) with
    | some v => some v
    | none => firstParent st k ps

def effLabels (st : Idx) (it : Item) : Labels :=
  fun k => match lookup k it.labels with
    | some v => some v
    | none => firstParent st k it.parents

def hasMatch (ms : List (Nat × Nat)) (sel item : Nat) : Bool := ms.contains (sel, item)

/-- `storeMatch`. -/
def storeMatch (ms : List (Nat × Nat)) (sel item : Nat) : List (Nat × Nat) × List Event :=
  if hasMatch ms sel item then (ms, []) else ((sel, item) :: ms, [.started sel item])

/-- `deleteMatch`. -/
def deleteMatch (ms : List (Nat × Nat)) (sel item : Nat) : List (Nat × Nat) × List Event :=
  if hasMatch ms sel item then (ms.filter (· ≠ (sel, item)), [.stopped sel item]) else (ms, [])

/-- `updateMatches`. -/
def updateMatches (st : Idx) (ms : List (Nat × Nat)) (sel : Nat) (n : Node) (item : Nat) (it : Item) :
    List (Nat × Nat) × List Event :=
  if n.eval (effLabels st it) then storeMatch ms sel item else deleteMatch ms sel item

/-- `scanAllSelectors(item)` over the given selectors. -/
def scanSelectors (st : Idx) (item : Nat) (it : Item) :
    List (Nat × Node) → List (Nat × Nat) → List (Nat × Nat) × List Event
  | [], ms => (ms, [])
  | (sel, n) :: rest, ms =>
    let (ms1, e1) := updateMatches st ms sel n item it
    let (ms2, e2) := scanSelectors st item it rest ms1
    (ms2, e1 ++ e2)

/-- `scanAllLabels(sel)` over the given items. -/
def scanItems (st : Idx) (sel : Nat) (n : Node) :
    List (Nat × Item) → List (Nat × Nat) → List (Nat × Nat) × List Event
  | [], ms => (ms, [])
  | (item, it) :: rest, ms =>
    let (ms1, e1) := updateMatches st ms sel n item it
    let (ms2, e2) := scanItems st sel n rest ms1
    (ms2, e1 ++ e2)

/-- the "item deleted" branch of `flushUpdates`, and `DeleteSelector`: drop every
match satisfying `p`, one `OnMatchStopped` each. -/
def dropMatches (p : Nat × Nat → Bool) (ms : List (Nat × Nat)) : List (Nat × Nat) × List Event :=
  (ms.filter (fun m => !p m), (ms.filter p).map (fun m => .stopped m.1 m.2))

/-- `flushUpdates` for a list of dirty items that still exist (re-scan each). -/
def flushItems (st : Idx) : List (Nat × Item) → List (Nat × Nat) → List (Nat × Nat) × List Event
  | [], ms => (ms, [])
  | (item, it) :: rest, ms =>
    let (ms1, e1) := scanSelectors st item it st.sels ms
    let (ms2, e2) := flushItems st rest ms1
    (ms2, e1 ++ e2)

/-- `UpdateLabels(id, labels, parentIDs)`.  (The Go "no change" shortcut compares a
`[]*parentData` with a `[]string` via `reflect.DeepEqual` and so never fires;
firing would be unobservable anyway.) -/
def updateLabels (st : Idx) (id : Nat) (labels : List (Str × Str)) (parents : List Str) : Idx × List Event :=
  let it : Item := ⟨labels, parents⟩
  let st1 := { st with items := insert id it st.items }
  let (ms, ev) := scanSelectors st1 id it st1.sels st1.matched
  ({ st1 with matched := ms }, ev)

/-- `DeleteLabels(id)`. -/
def deleteLabels (st : Idx) (id : Nat) : Idx × List Event :=
  let (ms, ev) := dropMatches (fun m => m.2 = id) st.matched
  ({ st with items := erase id st.items, matched := ms }, ev)

/-- the children of a parent: `parentData.itemIDs`. -/
def children (st : Idx) (pid : Str) : List (Nat × Item) :=
  st.items.filter (fun kv => kv.2.parents.contains pid)

/-- `UpdateParentLabels(parentID, labels)`. -/
def updateParentLabels (st : Idx) (pid : Str) (labels : List (Str × Str)) : Idx × List Event :=
  let st1 := { st with parents := insert pid labels st.parents }
  let (ms, ev) := flushItems st1 (children st1 pid) st1.matched
  ({ st1 with matched := ms }, ev)

/-- `DeleteParentLabels(parentID)`. -/
def deleteParentLabels (st : Idx) (pid : Str) : Idx × List Event :=
  let st1 := { st with parents := erase pid st.parents }
  let (ms, ev) := flushItems st1 (children st1 pid) st1.matched
  ({ st1 with matched := ms }, ev)

/-- `UpdateSelector(id, sel)`: `oldSel.Equal(sel)` compares `UniqueID()`s, i.e.
(hash collisions aside) canonical texts. -/
def updateSelector (st : Idx) (id : Nat) (n : Node) : Idx × List Event :=
  match lookup id st.sels with
  | some old => if old.text = n.text then (st, []) else go
  | none => go
where
  go : Idx × List Event :=
    let (ms, ev) := scanItems st id n st.items st.matched
    ({ st with sels := insert id n st.sels, matched := ms }, ev)

/-- `DeleteSelector(id)`. -/
def deleteSelector (st : Idx) (id : Nat) : Idx × List Event :=
  let (ms, ev) := dropMatches (fun m => m.1 = id) st.matched
  ({ st with sels := erase id st.sels, matched := ms }, ev)

/-! ### `LabelRestrictions()` (parser/ast.go) -/

/-- `parser.LabelRestriction`; `values = none` is the nil slice. The slice is used
as a set (the Go code sorts it in place at will). -/
structure Restriction where
  mustBePresent : Bool := false
  mustBeAbsent : Bool := false
  values : Option (List Str) := none
deriving Repr, DecidableEq

abbrev Restrictions := List (Str × Restriction)

/-- `intersectStringSlicesInPlace(a, b)`: the elements of `a` that are in `b`. -/
def intersectValues (a b : List Str) : List Str := a.filter (fun v => b.contains v)

/-- `unionStringSlicesInPlace(a, b)`: `a` plus the elements of `b` not in `a`. -/
def unionValues (a b : List Str) : List Str := a ++ b.filter (fun v => !a.contains v)

/-- One step of the inner loop of `AndNode.LabelRestrictions`. -/
def andMerge1 (lr : Restrictions) (ln : Str) (r : Restriction) : Restrictions :=
  let base := (lookup ln lr).getD {}
  let vals := match base.values with
    | none => r.values
    | some bv => match r.values with
      | none => some bv
      | some rv => some (intersectValues bv rv)
  insert ln { mustBePresent := base.mustBePresent || r.mustBePresent,
              mustBeAbsent := base.mustBeAbsent || r.mustBeAbsent, values := vals } lr

def andMerge (lr opLR : Restrictions) : Restrictions :=
  opLR.foldl (fun acc kv => andMerge1 acc kv.1 kv.2) lr

/-- One step of the inner loop of `OrNode.LabelRestrictions` (`none` = delete). -/
def orMerge1 (r opr : Restriction) : Option Restriction :=
  let present := r.mustBePresent && opr.mustBePresent
  let vals := if !present then none else
    match r.values, opr.values with
    | some a, some b => some (unionValues a b)
    | _, _ => none
  let absent := r.mustBeAbsent && opr.mustBeAbsent
  if present || absent then some { mustBePresent := present, mustBeAbsent := absent, values := vals } else none

def orMerge (lr opLR : Restrictions) : Restrictions :=
  lr.filterMap (fun kv => (orMerge1 kv.2 ((lookup kv.1 opLR).getD {})).map (fun r => (kv.1, r)))

mutual
/-- `Node.LabelRestrictions()` (nil map = empty list). -/
def restrictions : Node → Restrictions
  | .eq l v => [(l, { mustBePresent := true, values := some [v] })]
  | .contains l _ => [(l, { mustBePresent := true })]
  | .startsWith l _ => [(l, { mustBePresent := true })]
  | .endsWith l _ => [(l, { mustBePresent := true })]
  | .inSet l vs =>
    -- `StringSet.SliceCopy` of the parser's nil slice for `{}` is nil: no value restriction
    [(l, { mustBePresent := true, values := if vs.isEmpty then none else some vs })]
  | .has l => [(l, { mustBePresent := true })]
  | .ne _ _ => []
  | .notInSet _ _ => []
  | .all => []
  | .global => []
  | .not (.has l) => [(l, { mustBeAbsent := true })]
  | .not _ => []
  | .and ns => restrictionsAnd [] ns
  | .or [] => []           -- Go would panic on Operands[0]; the parser never builds it
  | .or (n :: ns) => restrictionsOr (restrictions n) ns
/-- the operand loop of `AndNode.LabelRestrictions` (`lr` accumulates). -/
def restrictionsAnd (lr : Restrictions) : List Node → Restrictions
  | [] => lr
  | n :: ns => restrictionsAnd (andMerge lr (restrictions n)) ns
/-- the operand loop of `OrNode.LabelRestrictions`. -/
def restrictionsOr (lr : Restrictions) : List Node → Restrictions
  | [] => lr
  | n :: ns => restrictionsOr (orMerge lr (restrictions n)) ns
end

/-! ### labelrestrictionindex: which selectors are candidates for an item -/

/-- `LabelRestriction.PossibleToSatisfy`. -/
def Restriction.possible (r : Restriction) : Bool :=
  !(r.mustBePresent && r.mustBeAbsent) &&
  (match r.values with
   | some [] => false
   | _ => true)

/-- `math.MaxInt`. -/
def maxInt : Nat := 2 ^ 63 - 1

/-- `scoreLabelRestriction`. -/
def score (r : Restriction) : Nat :=
  if !r.possible then maxInt
  else (if r.mustBePresent then 10 else 0) +
    (match r.values with
     | some vs => max (10000 - vs.length) 100
     | none => 0)

/-- `findMostRestrictedLabel`: highest score, ties to the larger label (the result
does not depend on the map iteration order). -/
def findMostRestricted : Restrictions → Option (Str × Restriction)
  | [] => none
  | (l, r) :: rest =>
    match findMostRestricted rest with
    | none => some (l, r)
    | some (l', r') =>
      if score r > score r' || (score r = score r' && strLt l' l) then some (l, r) else some (l', r')

/-- How `AddSelector` files a selector. -/
inductive Filing
  | unoptimized                       -- in `unoptimizedIDs`: candidate for every item
  | impossible                        -- not indexed at all: never a candidate
  | values (label : Str) (vs : List Str)   -- under `label` → each value
  | wildcard (label : Str)            -- under `label` → wildcard
deriving Repr

def filing (n : Node) : Filing :=
  match findMostRestricted (restrictions n) with
  | none => .unoptimized
  | some (l, r) =>
    if !r.possible then .impossible
    else match r.values with
      | some vs => .values l vs
      | none => if r.mustBePresent then .wildcard l else .unoptimized

/-- `AllPotentialMatches(item)` emits the selector iff: (`ls` = the item's
effective labels, each key once). -/
def isCandidate (n : Node) (ls : List (Str × Str)) : Bool :=
  match filing n with
  | .unoptimized => true
  | .impossible => false
  | .values l vs => ls.any (fun kv => kv.1 = l && vs.contains kv.2)
  | .wildcard l => ls.any (fun kv => kv.1 = l)

/-- `LabelRestrictionIndex`, abstractly: the selectors by id (`AddSelector`
replaces, `DeleteSelector` removes). -/
abbrev RIdx := List (Nat × Node)

def RIdx.candidates (ri : RIdx) (ls : List (Str × Str)) : List Nat :=
  (ri.filter (fun kv => isCandidate kv.2 ls)).map (·.1)

/-! ### labelrestrictionindex, structurally

`LabelRestrictionIndex`: `selectorsByID`, `labelToValueToIDs` (label →
`valuesSubIndex`) and `unoptimizedIDs`.  Sets of ids are lists without
duplicates; the clean-up the Go code does (dropping a value's set when it becomes
empty, nil-ing the maps, deleting an `Empty()` sub-index) is modelled too. -/

/-- `valuesSubIndex`. -/
structure SubIdx where
  specific : List (Str × List Nat) := []   -- selsMatchingSpecificValues (nil = [])
  wildcard : List Nat := []                 -- selsMatchingWildcard (nil = [])
deriving Repr

def addId (id : Nat) (ids : List Nat) : List Nat := if ids.contains id then ids else id :: ids

/-- `valuesSubIndex.Add`. -/
def SubIdx.add (s : SubIdx) (v : Str) (id : Nat) : SubIdx :=
  { s with specific := insert v (addId id ((lookup v s.specific).getD [])) s.specific }

/-- `valuesSubIndex.Remove`. -/
def SubIdx.remove (s : SubIdx) (v : Str) (id : Nat) : SubIdx :=
  match lookup v s.specific with
  | none => s
  | some ids =>
    if (ids.filter (· ≠ id)).isEmpty then { s with specific := erase v s.specific }
    else { s with specific := insert v (ids.filter (· ≠ id)) s.specific }

/-- `valuesSubIndex.AddWildcard` / `RemoveWildcard`. -/
def SubIdx.addWildcard (s : SubIdx) (id : Nat) : SubIdx := { s with wildcard := addId id s.wildcard }
def SubIdx.removeWildcard (s : SubIdx) (id : Nat) : SubIdx := { s with wildcard := s.wildcard.filter (· ≠ id) }

/-- `valuesSubIndex.Empty`. -/
def SubIdx.isEmpty (s : SubIdx) : Bool := s.specific.isEmpty && s.wildcard.isEmpty

/-- `LabelRestrictionIndex`. -/
structure RIdxS where
  sels : List (Nat × Node) := []            -- selectorsByID
  byLabel : List (Str × SubIdx) := []       -- labelToValueToIDs
  unopt : List Nat := []                    -- unoptimizedIDs
deriving Repr

/-- write a sub-index back, deleting it from the map when `Empty()`. -/
def RIdxS.putSub (st : RIdxS) (l : Str) (sub : SubIdx) : RIdxS :=
  if sub.isEmpty then { st with byLabel := erase l st.byLabel }
  else { st with byLabel := insert l sub st.byLabel }

def RIdxS.getSub (st : RIdxS) (l : Str) : SubIdx := (lookup l st.byLabel).getD {}

/-- The un-filing half of `DeleteSelector` (the Go code keeps mutating the same
`*valuesSubIndex` through the value loop and deletes it from the map as soon as it
is `Empty()`; removal never makes it non-empty again, so that equals one
write-back at the end). -/
def RIdxS.unfile (st : RIdxS) (id : Nat) (n : Node) : RIdxS :=
  match filing n with
  | .impossible => st
  | .values l vs => st.putSub l (vs.foldl (fun sub v => sub.remove v id) (st.getSub l))
  | .wildcard l => st.putSub l ((st.getSub l).removeWildcard id)
  | .unoptimized => { st with unopt := st.unopt.filter (· ≠ id) }

/-- `DeleteSelector(id)`. -/
def RIdxS.deleteSelector (st : RIdxS) (id : Nat) : RIdxS :=
  match lookup id st.sels with
  | none => st
  | some n =>
    let st1 := st.unfile id n
    { st1 with sels := erase id st1.sels }

/-- `AddSelector(id, sel)`. -/
def RIdxS.addSelector (st : RIdxS) (id : Nat) (n : Node) : RIdxS :=
  let st0 := st.deleteSelector id
  let st1 := { st0 with sels := insert id n st0.sels }
  match filing n with
  | .impossible => st1
  | .values l vs => st1.putSub l (vs.foldl (fun sub v => sub.add v id) (st1.getSub l))
  | .wildcard l => st1.putSub l ((st1.getSub l).addWildcard id)
  | .unoptimized => { st1 with unopt := addId id st1.unopt }

/-- `AllPotentialMatches(item)`: the ids emitted, in emission order (duplicates
possible, as in Go); `kvs` = the item's effective labels, each key once. -/
def RIdxS.potentialMatches (st : RIdxS) (kvs : List (Str × Str)) : List Nat :=
  kvs.flatMap (fun kv =>
    match lookup kv.1 st.byLabel with
    | none => []
    | some sub => sub.wildcard ++ (lookup kv.2 sub.specific).getD []) ++ st.unopt

end CalicoVerif.C07
