import CalicoVerif.Gen.C37
/-
C37 — model of the IDENTITY STRINGS behind the names: what is used as the
`suffix` of `GetLengthLimitedID` and what `PolicyGroup.UniqueID()` feeds into
its hash.

* `PolicyID.String()`  = Sprintf("{Name: %s, Namespace: %s, Kind: %s}")  — literal
  segments taken from the GENERATED `Gen.policyStringSegments`;
* `PolicyID.ID()`      = short(kind)/namespace/name, or short(kind)/name when the
  namespace is empty; `short` = the generated `Gen.kindShortTable`, the kind
  itself when it is not in the table (Go's `default:` branch);
* `PolicyGroup.UniqueID()` hashes (SHA3-224, uninterpreted) the items
  selector, direction, decimal len(policies), each policy's `String()`, every
  item followed by the generated separator (`"\n"`), and keeps the first
  `MaxPolicyGroupUIDLength` characters of its base64;
* `ProfileID.ID()` = the name; endpoint identity = the interface name.
Core Lean only.
-/
namespace CalicoVerif.C37

abbrev Bytes := List Nat

structure PolicyID where
  name : Bytes
  namespace_ : Bytes
  kind : Bytes
deriving DecidableEq, Repr

/-- Sprintf with only `%s` verbs: literal segments interleaved with the arguments. -/
def sprintf : List Bytes → List Bytes → Bytes
  | [], _ => []
  | [seg], _ => seg
  | seg :: segs, [] => seg ++ sprintf segs []
  | seg :: segs, a :: as => seg ++ a ++ sprintf segs as

/-- `PolicyID.String()`. -/
def PolicyID.string (p : PolicyID) : Bytes :=
  sprintf Gen.policyStringSegments [p.name, p.namespace_, p.kind]

def tableLookup : List (Bytes × Bytes) → Bytes → Option Bytes
  | [], _ => none
  | (k, v) :: rest, x => if k = x then some v else tableLookup rest x

/-- `PolicyID.KindShortName()`. -/
def kindShortName (kind : Bytes) : Bytes := (tableLookup Gen.kindShortTable kind).getD kind

/-- `PolicyID.ID()`. -/
def PolicyID.id (p : PolicyID) : Bytes :=
  if p.namespace_ ≠ [] then kindShortName p.kind ++ [47] ++ p.namespace_ ++ [47] ++ p.name
  else kindShortName p.kind ++ [47] ++ p.name

/-- `strconv.Itoa` for a non-negative int. -/
def natDigits (n : Nat) : Bytes :=
  if h : n < 10 then [48 + n] else natDigits (n / 10) ++ [48 + n % 10]
decreasing_by omega

structure Group where
  outbound : Bool
  selector : Bytes
  policies : List PolicyID
deriving DecidableEq, Repr

def Group.direction (g : Group) : Bytes :=
  if g.outbound then Gen.directionOutbound else Gen.directionInbound

/-- The items `UniqueID()` writes, in order. -/
def Group.items (g : Group) : List Bytes :=
  g.selector :: g.direction :: natDigits g.policies.length :: g.policies.map PolicyID.string

/-- Every item followed by the separator. -/
def joinSep (sep : Bytes) : List Bytes → Bytes
  | [] => []
  | x :: xs => x ++ sep ++ joinSep sep xs

/-- The exact byte string fed to the hasher by `UniqueID()`. -/
def Group.preHash (g : Group) : Bytes := joinSep Gen.groupWriteSeparator g.items

/-- `UniqueID()` with `h3 = base64url ∘ SHA3-224` uninterpreted. -/
def Group.uniqueID (h3 : Bytes → Bytes) (g : Group) : Bytes :=
  (h3 g.preHash).take Gen.maxPolicyGroupUIDLength

/-- `PolicyGroup.ChainName()`. -/
def Group.chainName (h3 : Bytes → Bytes) (g : Group) : Bytes :=
  (if g.outbound then Gen.pfx_PolicyGroupOutboundPrefix else Gen.pfx_PolicyGroupInboundPrefix) ++
    g.uniqueID h3


/-- `IPVersionConfig.NameForTempIPSet(n)` = `fmt.Sprint(tempSetNamePrefix, n)` with
`tempSetNamePrefix = namePrefix ++ "4"|"6" ++ tempIpsetToken`. -/
def nameForTempIPSet (namePrefix : Bytes) (v6 : Bool) (tempToken : Bytes) (n : Nat) : Bytes :=
  namePrefix ++ [if v6 then 54 else 52] ++ tempToken ++ natDigits n

end CalicoVerif.C37
