/-
C02 — model of felix/calc/event_sequencer.go (EventSequencer) and of the
flush / in-sync logic of felix/calc/async_calc_graph.go (AsyncCalcGraph.loop /
maybeFlush).

Go maps / `set.Set`s are modelled as duplicate-free lists; the iteration order
of a Go map is arbitrary, the model iterates in list order and the driver (and
the harness) sort the messages inside every run of messages of one class, so
the order inside one flush phase is not observed (the theorems in Props/C02 do
not depend on it: they are proved from per-message conditions that are
invariant under permutation of a phase).

Payloads are abstracted to what the property speaks about:
 * `Rules`   (ParsedRules / proto.Policy|Profile): an opaque version tag + the
   IP-set ids referenced by the rules;
 * `EpData`  (model.WorkloadEndpoint|HostEndpoint): opaque tag + ProfileIDs;
 * `TierInfo`/`PolKV` are the PolicyResolver's output types (shared with C03);
 * `RouteData` (proto.RouteUpdate): opaque tag + the node whose VTEP it needs.
Upstream calls on which the real code panics return `none`.
Not modelled: OnConfigUpdate/flushConfigUpdate (config parsing is C27),
computedData / peerData of endpoints (passed through opaquely by the code).
Core Lean only.
-/
namespace CalicoVerif.C02

/-! ### finite sets / maps / multidicts as duplicate-free lists -/

/-- `set.Add`. -/
def sadd {α} [DecidableEq α] (a : α) (s : List α) : List α := if a ∈ s then s else s ++ [a]
/-- `set.Discard`. -/
def sdel {α} [DecidableEq α] (a : α) (s : List α) : List α := s.filter (fun x => decide (x ≠ a))

/-- `m[k]` (with ok flag). -/
def mget {κ β} [DecidableEq κ] : List (κ × β) → κ → Option β
  | [], _ => none
  | (k', v) :: t, k => if k' = k then some v else mget t k
/-- `delete(m, k)`. -/
def mdel {κ β} [DecidableEq κ] (k : κ) (m : List (κ × β)) : List (κ × β) :=
  m.filter (fun p => decide (p.1 ≠ k))
/-- `m[k] = v`. -/
def mset {κ β} [DecidableEq κ] (k : κ) (v : β) (m : List (κ × β)) : List (κ × β) :=
  mdel k m ++ [(k, v)]
def mkeys {κ β} (m : List (κ × β)) : List κ := m.map (·.1)

/-- multidict.Multidict as a duplicate-free list of (key, value) pairs. -/
abbrev MD := List (String × String)
def MD.put (md : MD) (k v : String) : MD := sadd (k, v) md
def MD.discard (md : MD) (k v : String) : MD := sdel (k, v) md
def MD.has (md : MD) (k v : String) : Bool := decide ((k, v) ∈ md)
def MD.discardKey (md : MD) (k : String) : MD := md.filter (fun p => decide (p.1 ≠ k))
def MD.iter (md : MD) (k : String) : List String := (md.filter (fun p => decide (p.1 = k))).map (·.2)
def MD.keys (md : MD) : List String := (md.map (·.1)).foldl (fun s k => sadd k s) []

/-! ### payload types -/

structure PolicyKey where
  name : String
  ns : String
  kind : String
deriving DecidableEq, Repr, Inhabited

/-- What the model keeps of `*ParsedRules`. -/
structure Rules where
  tag : String
  refs : List String
deriving DecidableEq, Repr, Inhabited

/-- `policyMetadata` (policy_sorter.go): order (`none` = default = +Inf), flag bits, tier. -/
structure PolMeta where
  order : Option Int
  doNotTrack : Bool
  preDNAT : Bool
  applyOnForward : Bool
  ingress : Bool
  egress : Bool
  tier : String
deriving DecidableEq, Repr, Inhabited

structure PolKV where
  key : PolicyKey
  val : PolMeta
deriving DecidableEq, Repr, Inhabited

/-- `TierInfo` as handed to `OnEndpointTierUpdate` (Name, Order, DefaultAction, OrderedPolicies). -/
structure TierInfo where
  name : String
  order : Option Int
  defaultAction : String
  valid : Bool
  policies : List PolKV
deriving DecidableEq, Repr, Inhabited

/-- `proto.TierInfo`. -/
structure ProtoTier where
  name : String
  defaultAction : String
  ingress : List PolicyKey
  egress : List PolicyKey
deriving DecidableEq, Repr, Inhabited

structure EpData where
  tag : String
  profiles : List String
deriving DecidableEq, Repr, Inhabited

inductive EpKey
  | wep (id : String)
  | hep (id : String)
deriving DecidableEq, Repr, Inhabited

structure EpUpd where
  ep : EpData
  tiers : List TierInfo
deriving DecidableEq, Repr, Inhabited

structure RouteData where
  tag : String
  vtep : Option String
deriving DecidableEq, Repr, Inhabited

/-- `model.Wireguard` as far as `flushHostWireguardUpdates` looks at it
(an absent address is the empty string, as in the emitted message). -/
structure WgData where
  pub4 : String
  addr4 : String
  pub6 : String
  addr6 : String
deriving DecidableEq, Repr, Inhabited

/-- Categories that share the plain update/delete/sent pattern and have no references. -/
inductive GenCat
  | sa | ns | host | pool | svc
deriving DecidableEq, Repr, Inhabited

inductive Msg
  | notReady
  | ipsetUpdate (id : String) (typ : Nat) (members : List String)
  | ipsetDelta (id : String) (added removed : List String)
  | ipsetRemove (id : String)
  | policyUpdate (k : PolicyKey) (r : Rules)
  | policyRemove (k : PolicyKey)
  | profileUpdate (k : String) (r : Rules)
  | profileRemove (k : String)
  | wepUpdate (id : String) (d : EpData) (tiers : List ProtoTier)
  | hepUpdate (id : String) (d : EpData) (tiers untracked preDNAT forward : List ProtoTier)
  | wepRemove (id : String)
  | hepRemove (id : String)
  | genUpdate (c : GenCat) (k : String) (tag : String)
  | genRemove (c : GenCat) (k : String)
  | routeUpdate (dst : String) (r : RouteData)
  | routeRemove (dst : String)
  | vtepUpdate (node : String) (tag : String)
  | vtepRemove (node : String)
  | wgUpdate (node pub addr : String)
  | wgRemove (node : String)
  | wg6Update (node pub addr : String)
  | wg6Remove (node : String)
  | encap (tag : String)
  | bgp (tag : String)
  | inSync
deriving DecidableEq, Repr, Inhabited

/-! ### tierInfoToProtoTierInfo / addPolicyToTierInfo -/

/-- `addPolicyToTierInfo`. -/
def addPolicyToTierInfo (pol : PolKV) (ti : ProtoTier) (egressAllowed : Bool) : ProtoTier :=
  let ti := if pol.val.ingress then { ti with ingress := ti.ingress ++ [pol.key] } else ti
  if egressAllowed && pol.val.egress then { ti with egress := ti.egress ++ [pol.key] } else ti

structure Split where
  normal : ProtoTier
  untracked : ProtoTier
  preDNAT : ProtoTier
  forward : ProtoTier

/-- Inner loop of `tierInfoToProtoTierInfo` over `ti.OrderedPolicies`. -/
def splitPolicies : List PolKV → Split → Split
  | [], s => s
  | pol :: ps, s =>
    if pol.val.doNotTrack then
      splitPolicies ps { s with untracked := addPolicyToTierInfo pol s.untracked true }
    else if pol.val.preDNAT then
      splitPolicies ps { s with preDNAT := addPolicyToTierInfo pol s.preDNAT false }
    else
      let s := if pol.val.applyOnForward then { s with forward := addPolicyToTierInfo pol s.forward true } else s
      splitPolicies ps { s with normal := addPolicyToTierInfo pol s.normal true }

def ProtoTier.nonEmpty (t : ProtoTier) : Bool := !t.ingress.isEmpty || !t.egress.isEmpty

structure ProtoTiers where
  normal : List ProtoTier := []
  untracked : List ProtoTier := []
  preDNAT : List ProtoTier := []
  forward : List ProtoTier := []
deriving Repr, DecidableEq

/-- `tierInfoToProtoTierInfo`. -/
def tierInfoToProto : List TierInfo → ProtoTiers
  | [] => {}
  | ti :: rest =>
    let s := splitPolicies ti.policies
      { normal := ⟨ti.name, ti.defaultAction, [], []⟩, untracked := ⟨ti.name, "Pass", [], []⟩,
        preDNAT := ⟨ti.name, "Pass", [], []⟩, forward := ⟨ti.name, ti.defaultAction, [], []⟩ }
    let r := tierInfoToProto rest
    { normal := (if s.normal.nonEmpty then [s.normal] else []) ++ r.normal
      untracked := (if s.untracked.nonEmpty then [s.untracked] else []) ++ r.untracked
      preDNAT := (if s.preDNAT.nonEmpty then [s.preDNAT] else []) ++ r.preDNAT
      forward := (if s.forward.nonEmpty then [s.forward] else []) ++ r.forward }

/-! ### the plain update/delete/sent category (policies, profiles, endpoints, routes, VTEPs,
hosts, pools, service accounts, namespaces, services) -/

structure Cat (κ β : Type) where
  upd : List (κ × β) := []
  del : List κ := []
  sent : List κ := []
deriving Repr

variable {κ β : Type} [DecidableEq κ]

/-- `OnXUpdate` / `OnXActive`: `pendingDeletes.Discard(k); pendingUpdates[k] = v`. -/
def Cat.onUpdate (c : Cat κ β) (k : κ) (v : β) : Cat κ β :=
  { c with del := sdel k c.del, upd := mset k v c.upd }

/-- `OnXRemove` / `OnXInactive`: `delete(pendingUpdates, k); if sent.Contains(k) { pendingDeletes.Add(k) }`. -/
def Cat.onRemove (c : Cat κ β) (k : κ) : Cat κ β :=
  { c with upd := mdel k c.upd, del := if k ∈ c.sent then sadd k c.del else c.del }

/-- `flushXUpdates`: emit every pending update, record it as sent, clear the buffer. -/
def Cat.flushUpd (c : Cat κ β) (f : κ → β → List Msg) : Cat κ β × List Msg :=
  ({ c with upd := [], sent := (mkeys c.upd).foldl (fun s k => sadd k s) c.sent },
   c.upd.flatMap (fun p => f p.1 p.2))

/-- `flushXDeletes`. -/
def Cat.flushDel (c : Cat κ β) (f : κ → Msg) : Cat κ β × List Msg :=
  ({ c with del := [], sent := c.del.foldl (fun s k => sdel k s) c.sent }, c.del.map f)

/-! ### EventSequencer state -/

structure State where
  notReady : Bool := false
  addedSets : List (String × Nat) := []
  removedSets : List String := []
  addedMem : MD := []
  removedMem : MD := []
  sentSets : List String := []
  pol : Cat PolicyKey Rules := {}
  prof : Cat String Rules := {}
  ep : Cat EpKey EpUpd := {}
  route : Cat String RouteData := {}
  vtep : Cat String String := {}
  gen : GenCat → Cat String String := fun _ => {}
  wgUpd : List (String × WgData) := []
  wgDel : List String := []
  sentWg : List String := []
  sentWg6 : List String := []
  encap : Option String := none
  bgp : Option String := none

/-- Upstream calls (the `On…` methods of EventSequencer). -/
inductive Call
  | ipsetAdded (id : String) (typ : Nat)
  | ipsetRemoved (id : String)
  | memberAdded (id m : String)
  | memberRemoved (id m : String)
  | notReady
  | policyActive (k : PolicyKey) (r : Rules)
  | policyInactive (k : PolicyKey)
  | profileActive (k : String) (r : Rules)
  | profileInactive (k : String)
  | endpointUpdate (k : EpKey) (u : Option EpUpd)
  | genUpdate (c : GenCat) (k tag : String)
  | genRemove (c : GenCat) (k : String)
  | routeUpdate (dst : String) (r : RouteData)
  | routeRemove (dst : String)
  | vtepUpdate (node tag : String)
  | vtepRemove (node : String)
  | wgUpdate (node : String) (d : WgData)
  | wgRemove (node : String)
  | encap (tag : String)
  | bgp (tag : String)
deriving Repr, DecidableEq

/-- The `sent || updatePending` test guarding the member calls and OnIPSetRemoved. -/
def State.setKnown (s : State) (id : String) : Bool :=
  decide (id ∈ s.sentSets) || (mget s.addedSets id).isSome

/-- One upstream call. `none` = the real code panics. -/
def State.call (s : State) : Call → Option State
  | .ipsetAdded id typ =>
    -- OnIPSetAdded
    if decide (id ∈ s.sentSets) && !decide (id ∈ s.removedSets) then none
    else some { s with addedSets := mset id typ s.addedSets, removedSets := sdel id s.removedSets,
                       addedMem := s.addedMem.discardKey id, removedMem := s.removedMem.discardKey id }
  | .ipsetRemoved id =>
    -- OnIPSetRemoved
    if !s.setKnown id then none
    else some { s with removedSets := if id ∈ s.sentSets then sadd id s.removedSets else s.removedSets,
                       addedSets := mdel id s.addedSets,
                       addedMem := s.addedMem.discardKey id, removedMem := s.removedMem.discardKey id }
  | .memberAdded id m =>
    -- OnIPSetMemberAdded
    if !s.setKnown id then none
    else if s.removedMem.has id m then some { s with removedMem := s.removedMem.discard id m }
    else some { s with addedMem := s.addedMem.put id m }
  | .memberRemoved id m =>
    -- OnIPSetMemberRemoved
    if !s.setKnown id then none
    else if s.addedMem.has id m then some { s with addedMem := s.addedMem.discard id m }
    else some { s with removedMem := s.removedMem.put id m }
  | .notReady => some { s with notReady := true }
  | .policyActive k r => some { s with pol := s.pol.onUpdate k r }
  | .policyInactive k => some { s with pol := s.pol.onRemove k }
  | .profileActive k r => some { s with prof := s.prof.onUpdate k r }
  | .profileInactive k => some { s with prof := s.prof.onRemove k }
  | .endpointUpdate k (some u) => some { s with ep := s.ep.onUpdate k u }
  | .endpointUpdate k none => some { s with ep := s.ep.onRemove k }
  | .genUpdate c k tag => some { s with gen := fun c' => if c' = c then (s.gen c).onUpdate k tag else s.gen c' }
  | .genRemove c k => some { s with gen := fun c' => if c' = c then (s.gen c).onRemove k else s.gen c' }
  | .routeUpdate dst r => some { s with route := s.route.onUpdate dst r }
  | .routeRemove dst => some { s with route := s.route.onRemove dst }
  | .vtepUpdate node tag => some { s with vtep := s.vtep.onUpdate node tag }
  | .vtepRemove node => some { s with vtep := s.vtep.onRemove node }
  | .wgUpdate node d =>
    -- OnWireguardUpdate
    some { s with wgDel := sdel node s.wgDel, wgUpd := mset node d s.wgUpd }
  | .wgRemove node =>
    -- OnWireguardRemove (no `sent` test here; the flush looks at sentWireguard/V6)
    some { s with wgUpd := mdel node s.wgUpd, wgDel := sadd node s.wgDel }
  | .encap tag => some { s with encap := some tag }
  | .bgp tag => some { s with bgp := some tag }

/-! ### Flush phases (same order as `EventSequencer.Flush`) -/

abbrev Phase := State → State × List Msg

/-- `flushReadyFlag`. -/
def flushReadyFlag : Phase := fun s =>
  if s.notReady then ({ s with notReady := false }, [Msg.notReady]) else (s, [])

/-- `flushAddedIPSets`. -/
def flushAddedIPSets : Phase := fun s =>
  let ids := mkeys s.addedSets
  ({ s with addedSets := [],
            addedMem := ids.foldl (fun md id => md.discardKey id) s.addedMem,
            sentSets := ids.foldl (fun ss id => sadd id ss) s.sentSets },
   s.addedSets.map (fun p => Msg.ipsetUpdate p.1 p.2 (s.addedMem.iter p.1)))

/-- `flushIPSetDeltas` (= `flushAddsOrRemoves` for every key of pendingRemovedIPSetMembers, then for
every remaining key of pendingAddedIPSetMembers). -/
def flushIPSetDeltas : Phase := fun s =>
  let k1 := s.removedMem.keys
  let k2 := (s.addedMem.keys).filter (fun k => decide (k ∉ k1))
  ({ s with addedMem := [], removedMem := [] },
   (k1 ++ k2).map (fun id => Msg.ipsetDelta id (s.addedMem.iter id) (s.removedMem.iter id)))

def polUpdMsg (k : PolicyKey) (r : Rules) : List Msg := [Msg.policyUpdate k r]
def profUpdMsg (k : String) (r : Rules) : List Msg := [Msg.profileUpdate k r]

/-- One iteration of `flushEndpointTierUpdates`. -/
def epUpdMsg (k : EpKey) (u : EpUpd) : List Msg :=
  let t := tierInfoToProto u.tiers
  match k with
  | .wep id => [Msg.wepUpdate id u.ep t.normal]
  | .hep id => [Msg.hepUpdate id u.ep t.normal t.untracked t.preDNAT t.forward]

def epDelMsg : EpKey → Msg
  | .wep id => Msg.wepRemove id
  | .hep id => Msg.hepRemove id

def flushPolicyUpdates : Phase := fun s => let (c, m) := s.pol.flushUpd polUpdMsg; ({ s with pol := c }, m)
def flushProfileUpdates : Phase := fun s => let (c, m) := s.prof.flushUpd profUpdMsg; ({ s with prof := c }, m)
def flushEndpointTierUpdates : Phase := fun s => let (c, m) := s.ep.flushUpd epUpdMsg; ({ s with ep := c }, m)
def flushEndpointTierDeletes : Phase := fun s => let (c, m) := s.ep.flushDel epDelMsg; ({ s with ep := c }, m)
def flushProfileDeletes : Phase := fun s => let (c, m) := s.prof.flushDel Msg.profileRemove; ({ s with prof := c }, m)
def flushPolicyDeletes : Phase := fun s => let (c, m) := s.pol.flushDel Msg.policyRemove; ({ s with pol := c }, m)

/-- `flushRemovedIPSets`. -/
def flushRemovedIPSets : Phase := fun s =>
  ({ s with removedSets := [],
            removedMem := s.removedSets.foldl (fun md id => md.discardKey id) s.removedMem,
            addedMem := s.removedSets.foldl (fun md id => md.discardKey id) s.addedMem,
            sentSets := s.removedSets.foldl (fun ss id => sdel id ss) s.sentSets },
   s.removedSets.map Msg.ipsetRemove)

/-- `flushServiceAccounts`, `flushNamespaces`, `flushServices`, `flushHostDeletes+flushHostUpdates`,
`flushIPPoolDeletes+flushIPPoolUpdates`: deletes first, then updates. -/
def flushGen (g : GenCat) : Phase := fun s =>
  let (c1, m1) := (s.gen g).flushDel (Msg.genRemove g)
  let (c2, m2) := c1.flushUpd (fun k v => [Msg.genUpdate g k v])
  ({ s with gen := fun g' => if g' = g then c2 else s.gen g' }, m1 ++ m2)

def flushRouteRemoves : Phase := fun s => let (c, m) := s.route.flushDel Msg.routeRemove; ({ s with route := c }, m)
def flushVTEPRemoves : Phase := fun s => let (c, m) := s.vtep.flushDel Msg.vtepRemove; ({ s with vtep := c }, m)
def flushVTEPAdds : Phase := fun s =>
  let (c, m) := s.vtep.flushUpd (fun k v => [Msg.vtepUpdate k v]); ({ s with vtep := c }, m)
def flushRouteAdds : Phase := fun s =>
  let (c, m) := s.route.flushUpd (fun k v => [Msg.routeUpdate k v]); ({ s with route := c }, m)

/-- `flushHostWireguardDeletes`. -/
def flushWgDeletes : Phase := fun s =>
  let step := fun (acc : List String × List String × List Msg) (k : String) =>
    let (s4, s6, ms) := acc
    let (s4, ms) := if k ∈ s4 then (sdel k s4, ms ++ [Msg.wgRemove k]) else (s4, ms)
    let (s6, ms) := if k ∈ s6 then (sdel k s6, ms ++ [Msg.wg6Remove k]) else (s6, ms)
    (s4, s6, ms)
  let (s4, s6, ms) := s.wgDel.foldl step (s.sentWg, s.sentWg6, [])
  ({ s with wgDel := [], sentWg := s4, sentWg6 := s6 }, ms)

/-- `flushHostWireguardUpdates`. -/
def flushWgUpdates : Phase := fun s =>
  let step := fun (acc : List String × List String × List Msg) (p : String × WgData) =>
    let (s4, s6, ms) := acc
    let (n, wg) := p
    let (s4, ms) :=
      if wg.pub4 ≠ "" then (sadd n s4, ms ++ [Msg.wgUpdate n wg.pub4 wg.addr4])
      else if n ∈ s4 then (sdel n s4, ms ++ [Msg.wgRemove n]) else (s4, ms)
    let (s6, ms) :=
      if wg.pub6 ≠ "" then (sadd n s6, ms ++ [Msg.wg6Update n wg.pub6 wg.addr6])
      else if n ∈ s6 then (sdel n s6, ms ++ [Msg.wg6Remove n]) else (s6, ms)
    (s4, s6, ms)
  let (s4, s6, ms) := s.wgUpd.foldl step (s.sentWg, s.sentWg6, [])
  ({ s with wgUpd := [], sentWg := s4, sentWg6 := s6 }, ms)

/-- `flushEncapUpdate`. -/
def flushEncap : Phase := fun s =>
  match s.encap with
  | some t => ({ s with encap := none }, [Msg.encap t])
  | none => (s, [])

def flushBGP : Phase := fun s =>
  match s.bgp with
  | some t => ({ s with bgp := none }, [Msg.bgp t])
  | none => (s, [])

/-- Run phases left to right, concatenating their messages. -/
def runPhases : List Phase → Phase
  | [], s => (s, [])
  | p :: ps, s =>
    let (s1, m1) := p s
    let (s2, m2) := runPhases ps s1
    (s2, m1 ++ m2)

/-- The phases of `EventSequencer.Flush`, in the order of the Go code. -/
def flushPhases : List Phase :=
  [ flushReadyFlag,
    -- flushConfigUpdate: not modelled
    flushAddedIPSets, flushIPSetDeltas, flushPolicyUpdates, flushProfileUpdates, flushEndpointTierUpdates,
    flushEndpointTierDeletes, flushProfileDeletes, flushPolicyDeletes, flushRemovedIPSets,
    flushGen .sa, flushGen .ns,
    flushRouteRemoves, flushVTEPAdds, flushRouteAdds, flushVTEPRemoves,
    flushWgDeletes, flushWgUpdates,
    flushGen .host, flushGen .pool,
    flushEncap, flushBGP,
    flushGen .svc ]

/-- `EventSequencer.Flush`. -/
def State.flush (s : State) : State × List Msg := runPhases flushPhases s

/-! ### AsyncCalcGraph: when is a flush done and when is `InSync` sent

`loop` handles one input event and then calls `maybeFlush`.  The calc graph
behind it is abstracted to the list of upstream calls it makes on the
sequencer while processing the event (`calls`). -/

inductive SyncStatus
  | waitForDatastore | resyncInProgress | inSync
deriving DecidableEq, Repr, Inhabited

structure Acg where
  seq : State := {}
  initialSyncCompleted : Bool := false
  needToSendInSync : Bool := false
  dirty : Bool := false
  bucket : Nat := 0
  /-- ghost: has the datastore reported in-sync (an `api.InSync` status was received). -/
  sawInSync : Bool := false

def leakyBucketSize : Nat := 10

inductive AcgEvent
  | updates (calls : List Call)
  | status (st : SyncStatus) (calls : List Call)
  | tick
deriving Repr

def applyCalls : State → List Call → Option State
  | s, [] => some s
  | s, c :: cs => match s.call c with
    | none => none
    | some s' => applyCalls s' cs

/-- `maybeFlush`. -/
def Acg.maybeFlush (a : Acg) : Acg × List Msg :=
  if !a.dirty then (a, [])
  else if a.bucket > 0 then
    let (s', ms) := a.seq.flush
    let ms := if a.needToSendInSync then ms ++ [Msg.inSync] else ms
    ({ a with seq := s', bucket := a.bucket - 1, needToSendInSync := false, dirty := false }, ms)
  else (a, [])

/-- One iteration of `AsyncCalcGraph.loop`. `none` = a panic in the sequencer. -/
def Acg.step (a : Acg) : AcgEvent → Option (Acg × List Msg)
  | .updates calls =>
    match applyCalls a.seq calls with
    | none => none
    | some s => some ({ a with seq := s, dirty := true }).maybeFlush
  | .status st calls =>
    match applyCalls a.seq calls with
    | none => none
    | some s =>
      let a := { a with seq := s }
      let a := if st = .inSync then { a with sawInSync := true } else a
      let a :=
        if st = .inSync && !a.initialSyncCompleted then
          { a with initialSyncCompleted := true, needToSendInSync := true, dirty := true,
                   bucket := if a.bucket = 0 then 1 else a.bucket }
        else a
      some ({ a with dirty := true }).maybeFlush
  | .tick =>
    let a := if a.bucket < leakyBucketSize then { a with bucket := a.bucket + 1 } else a
    some a.maybeFlush

end CalicoVerif.C02
