import CalicoVerif.Model.Cas
/-!
C19 — the invariants of the IPAM store as executable checks (re-evaluated by
the driver on every model state reached from the real client's write log).
The Prop versions and their inductive proofs are in `Props/C19.lean`.
-/
namespace CalicoVerif.C19
open CalicoVerif.Cas

def nodupB : List Nat → Bool
  | [] => true
  | a :: t => !t.contains a && nodupB t

/-- Structural well-formedness of a block: `Unallocated` has no duplicates and
holds exactly the ordinals whose allocation is nil. -/
def wfBlk (b : Blk) : Bool :=
  nodupB b.unalloc &&
  b.unalloc.all (fun o => b.slots[o]? == some Slot.free) &&
  (List.range b.slots.length).all (fun o => b.slots[o]? != some Slot.free || b.unalloc.contains o)

/-- Handle records agree with block records: count(h,b) = live(b,h) + outstanding tokens(h,b)
(the code after repair 9cd85f1 increments by the number of addresses actually taken). -/
def handleOk (s : St) (h b : Nat) : Bool :=
  let live := match s.blk b with | some (_, v) => liveCount h v.slots | none => 0
  live + credTot h b s.creds == hcount s h b

/-- Invariant verdict: "" if every check passes, else the name of the first failing one. -/
def chk (s : St) : String :=
  let bs := List.range s.nb
  if !(bs.all (fun b => match s.blk b with | some (_, v) => wfBlk v | none => true)) then "wf"
  else if !((List.range 9).all (fun h => h == 0 || bs.all (fun b => handleOk s h b))) then "handle-ne-block"
  else ""

end CalicoVerif.C19
