import CalicoVerif.Model.C40Nf
/-
C40 — model of the static chains of felix/rules/static.go that the property speaks about
(iptables mode, IPv4): `failsafeInChain` / `failsafeOutChain` (raw, mangle, filter),
`filterInputChain`, `filterWorkloadToHostChain`, `StaticFilterForwardChains`; of the host endpoint
chains of felix/rules/endpoints.go (`endpointIptablesChain` for the filter / raw / mangle host
endpoint chains, policies abstracted to their chain names); and of the flat (≤ 1 endpoint) workload
and host dispatch chains of felix/rules/dispatch.go with their "Unknown interface" end rule.
Mark bits are the fixed values the harness configures.  Core Lean only.
-/
namespace CalicoVerif.C40

abbrev markAccept : Nat := 2 ^ 16      -- 0x10000
abbrev markPass : Nat := 2 ^ 17        -- 0x20000
abbrev markScratch0 : Nat := 2 ^ 18    -- 0x40000
abbrev markScratch1 : Nat := 2 ^ 19    -- 0x80000
abbrev markAll : Nat := 2 ^ 16 ||| 2 ^ 17 ||| 2 ^ 18 ||| 2 ^ 19      -- allCalicoMarkBits() = 0xf0000
abbrev markAllButAccept : Nat := 2 ^ 17 ||| 2 ^ 18 ||| 2 ^ 19       -- 0xe0000
abbrev markAcceptPass : Nat := 2 ^ 16 ||| 2 ^ 17                     -- 0x30000

/-- `config.ProtoPort` with the net already parsed (IPv4 only; `netLen = none` = no net). -/
structure ProtoPort where
  protoName : String
  protoNum : Nat
  port : Nat
  net : Option (String × Nat × Nat) := none
  /-- the entry carries a net of the other IP family (IPv6): `failsafeInChain(_, 4)` skips it -/
  otherFamily : Bool := false
deriving Repr, DecidableEq

structure Config where
  ipip : Bool
  vxlan : Bool
  vxlanPort : Nat
  toHost : Action                -- inputAcceptActions (DROP | ACCEPT | RETURN)
  filterAllow : Action           -- filterAllowAction (ACCEPT | RETURN)
  mangleAllow : Action
  disableCtInvalid : Bool
  prefixes : List String         -- WorkloadIfacePrefixes
  failsafeIn : List ProtoPort
  failsafeOut : List ProtoPort
deriving Repr

def chFailsafeIn := "cali-failsafe-in"
def chFailsafeOut := "cali-failsafe-out"
def chInput := "cali-INPUT"
def chForward := "cali-FORWARD"
def chWlToHost := "cali-wl-to-host"
def chFromWlDispatch := "cali-from-wl-dispatch"
def chToWlDispatch := "cali-to-wl-dispatch"
def chFromHep := "cali-from-host-endpoint"
def chToHep := "cali-to-host-endpoint"
def chFromHepFwd := "cali-from-hep-forward"
def chToHepFwd := "cali-to-hep-forward"
def chCidrBlock := "cali-cidr-block"

/-- one failsafe rule: protocol, port (destination or source), optional net (source or destination). -/
def failsafeRule (pp : ProtoPort) (dstPort : Bool) (srcNet : Bool) : Rule :=
  { crits := [Crit.protoName pp.protoName pp.protoNum,
              if dstPort then Crit.dports pp.port else Crit.sports pp.port] ++
             (match pp.net with
              | some (t, a, l) => [if srcNet then Crit.srcNet t a l else Crit.dstNet t a l]
              | none => []),
    action := .accept }

/-- `failsafeInChain(table, 4)`: entries whose net is of the other IP family are skipped (an
unparseable net is skipped too, with an error log; the generator does not produce those). -/
def failsafeInChain (c : Config) (raw : Bool) : List Rule :=
  (c.failsafeIn.filter (fun pp => !pp.otherFamily)).map (fun pp => failsafeRule pp true true) ++
  (if raw then (c.failsafeOut.filter (fun pp => !pp.otherFamily)).map (fun pp => failsafeRule pp false true) else [])

/-- `failsafeOutChain(table, 4)`. -/
def failsafeOutChain (c : Config) (raw : Bool) : List Rule :=
  (c.failsafeOut.filter (fun pp => !pp.otherFamily)).map (fun pp => failsafeRule pp true false) ++
  (if raw then (c.failsafeIn.filter (fun pp => !pp.otherFamily)).map (fun pp => failsafeRule pp false false) else [])

def ipsetAllHosts := "cali40all-hosts-net"
def ipsetVXLAN := "cali40all-vxlan-net"

/-- the tunnel-source filter at the top of `filterInputChain`. -/
def inputTunnelRules (c : Config) : List Rule :=
  (if c.ipip then
    [{ comment := some "Allow IPIP packets from Calico hosts",
       crits := [.protoNum 4, .srcSet ipsetAllHosts, .dstLocal], action := c.filterAllow },
     { comment := some "Drop IPIP packets from non-Calico hosts",
       crits := [.protoNum 4], action := .drop }]
   else []) ++
  (if c.vxlan then
    [{ comment := some "Allow IPv4 VXLAN packets from allowed hosts",
       crits := [.protoNum 17, .dports c.vxlanPort, .srcSet ipsetVXLAN, .dstLocal], action := c.filterAllow },
     { comment := some "Drop IPv4 VXLAN packets from non-allowed hosts",
       crits := [.protoNum 17, .dports c.vxlanPort, .dstLocal], action := .drop }]
   else [])

def inputPrefixRule (pfx : String) : Rule := { crits := [.inIf (pfx ++ "+")], action := .goto chWlToHost }

def inputTail (c : Config) : List Rule :=
  [{ crits := [.markSet markAccept], action := c.filterAllow },
   { action := .clearMark markAll },
   { action := .jump chFromHep },
   { comment := some "Host endpoint policy accepted packet.", crits := [.markSet markAccept], action := c.filterAllow }]

/-- `filterInputChain(4)` (wireguard and kube-ipvs support off). -/
def filterInputChain (c : Config) : List Rule :=
  inputTunnelRules c ++ (c.prefixes.map inputPrefixRule ++ inputTail c)

/-- `filterWorkloadToHostChain(4)` (OpenStack special cases off). -/
def wlToHostChain (c : Config) : List Rule :=
  [{ action := .jump chFromWlDispatch },
   { comment := some "Configured DefaultEndpointToHostAction", action := c.toHost }]

def fwdInRule (pfx : String) : Rule := { crits := [.inIf (pfx ++ "+")], action := .jump chFromWlDispatch }
def fwdOutRule (pfx : String) : Rule := { crits := [.outIf (pfx ++ "+")], action := .jump chToWlDispatch }

def fwdPrefixRules : List String → List Rule
  | [] => []
  | pfx :: ps => fwdInRule pfx :: fwdOutRule pfx :: fwdPrefixRules ps

def fwdTail : List Rule := [{ action := .jump chToHepFwd }, { action := .jump chCidrBlock }]

/-- `StaticFilterForwardChains(4)` (no nft flow offload). -/
def filterForwardChain (c : Config) : List Rule :=
  { action := .clearMark markAllButAccept } ::
  { crits := [.markClear markAccept], action := .jump chFromHepFwd } ::
  (fwdPrefixRules c.prefixes ++ fwdTail)

def chRawPrerouting := "cali-PREROUTING"
def chRawOutput := "cali-OUTPUT"
def chRpfSkip := "cali-rpf-skip"
def chOutput := "cali-OUTPUT"

def vxlanNotrack (c : Config) : List Rule :=
  if c.vxlan then [{ crits := [.protoName "udp" 17, .dport1 c.vxlanPort], action := .notrack }] else []

/-- `StaticRawPreroutingChain(4)` (wireguard and OpenStack special cases off). -/
def rawPreroutingChain (c : Config) : List Rule :=
  { action := .clearMark markAll } ::
  (vxlanNotrack c ++
   (c.prefixes.map (fun pfx => ({ crits := [.inIf (pfx ++ "+")], action := .setMark markScratch0 } : Rule)) ++
    [{ crits := [.markSet markScratch0], action := .jump chRpfSkip },
     { crits := [.markSet markScratch0, .rpfFailed], action := .drop },
     { crits := [.markClear markScratch0], action := .jump chFromHep },
     { crits := [.markSet markAccept], action := .accept }]))

/-- `StaticRawOutputChain(0, 4)`. -/
def rawOutputChain (c : Config) : List Rule :=
  { action := .clearMark markAll } :: { action := .jump chToHep } ::
  (vxlanNotrack c ++ [{ crits := [.markSet markAccept], action := .accept }])

/-- `StaticManglePreroutingChain(4)`. -/
def manglePreroutingChain (c : Config) : List Rule :=
  [{ crits := [.ctEstablished], action := c.mangleAllow },
   { crits := [.markSet markAccept], action := c.mangleAllow },
   { action := .jump chFromHep },
   { comment := some "Host endpoint policy accepted packet.", crits := [.markSet markAccept], action := c.mangleAllow }]

def outputTunnelRules (c : Config) : List Rule :=
  (if c.ipip then
    [{ comment := some "Allow IPIP packets to other Calico hosts",
       crits := [.protoNum 4, .dstSet ipsetAllHosts, .srcLocal], action := c.filterAllow }]
   else []) ++
  (if c.vxlan then
    [{ comment := some "Allow IPv4 VXLAN packets to other allowed hosts",
       crits := [.protoNum 17, .dports c.vxlanPort, .srcLocal, .dstSet ipsetVXLAN], action := c.filterAllow }]
   else [])

def outputPrefixRule (pfx : String) : Rule := { crits := [.outIf (pfx ++ "+")], action := .ret }

def outputTail (c : Config) : List Rule :=
  [{ action := .clearMark markAll },
   { crits := [.notCtDNAT], action := .jump chToHep },
   { comment := some "Host endpoint policy accepted packet.", crits := [.markSet markAccept], action := c.filterAllow }]

/-- `filterOutputChain(4)` (kube-ipvs and wireguard off). -/
def filterOutputChain (c : Config) : List Rule :=
  { crits := [.markSet markAccept], action := c.filterAllow } ::
  (c.prefixes.map outputPrefixRule ++ (outputTunnelRules c ++ outputTail c))

/-- a tier as the host endpoint chain sees it: policies by chain name, staged ones are skipped. -/
structure Tier where
  name : String
  defaultPass : Bool
  pols : List (String × Bool)      -- (policy id, staged)
deriving Repr, DecidableEq

inductive HepKind where
  | filterIn | filterOut | rawIn | rawOut | mangleIn
deriving Repr, DecidableEq

def HepKind.untracked : HepKind → Bool
  | .rawIn | .rawOut => true
  | _ => false

def HepKind.normal : HepKind → Bool
  | .filterIn | .filterOut => true
  | _ => false

def HepKind.ingress : HepKind → Bool
  | .filterIn | .rawIn | .mangleIn => true
  | _ => false

def HepKind.allow (c : Config) : HepKind → Action
  | .filterIn | .filterOut => c.filterAllow
  | .rawIn | .rawOut => .accept
  | .mangleIn => c.mangleAllow

def hepChainName (k : HepKind) (iface : String) : String :=
  (if k.ingress then "cali-fh-" else "cali-th-") ++ iface

def polChainName (k : HepKind) (id : String) : String :=
  (if k.ingress then "cali-pi-" else "cali-po-") ++ "gnp/" ++ id

/-- `appendConntrackRules`. -/
def conntrackRules (c : Config) (allow : Action) : List Rule :=
  (if allow != .accept then [({ crits := [.ctEstablished], action := .setMark markAccept } : Rule)] else []) ++
  [{ crits := [.ctEstablished], action := allow }] ++
  (if c.disableCtInvalid then [] else [{ crits := [.ctInvalid], action := .drop }])

def tierRules (k : HepKind) (t : Tier) : List Rule :=
  if t.pols.isEmpty then [] else
  [({ comment := some ("Start of tier " ++ t.name), action := .clearMark markPass } : Rule)] ++
  ((t.pols.filter (fun p => !p.2)).map (fun p =>
    [({ crits := [.markClear markPass], action := .jump (polChainName k p.1) } : Rule)] ++
    (if k.untracked then [{ crits := [.markSet markAccept], action := .notrack }] else []) ++
    [{ comment := some "Return if policy accepted", crits := [.markSet markAccept], action := .ret }])).flatten ++
  (if k.normal && t.pols.any (fun p => !p.2) && !t.defaultPass then
    [{ comment := some ("End of tier " ++ t.name ++ ". Drop if no policies passed packet"),
       crits := [.markClear markPass], action := .drop }]
   else [])

/-- `endpointIptablesChain` for a host endpoint (admin up, no QoS, no profiles, flow logs off,
VXLAN/IPIP encap always allowed). -/
def hepChain (c : Config) (k : HepKind) (tiers : List Tier) : List Rule :=
  (if k.untracked then [] else conntrackRules c (k.allow c)) ++
  [{ action := .jump (if k.ingress then chFailsafeIn else chFailsafeOut) },
   { action := .clearMark markAcceptPass }] ++
  (tiers.map (tierRules k)).flatten ++
  (if k.normal then [{ comment := some "Drop if no profiles matched", action := .drop }] else [])

/-- `WorkloadDispatchChains` for a flat list of endpoints (the real code builds a prefix tree for
larger sets; the tie covers 0 and 1 endpoint). -/
def wlDispatchChain (from_ : Bool) (ifaces : List String) : List Rule :=
  ifaces.map (fun n => ({ crits := [if from_ then Crit.inIf n else Crit.outIf n],
                          action := .goto ((if from_ then "cali-fw-" else "cali-tw-") ++ n) } : Rule)) ++
  [{ comment := some "Unknown interface", action := .drop }]

/-- `HostDispatchChains` (no default/wildcard host endpoint), flat. -/
def hepDispatchChain (from_ : Bool) (ifaces : List String) : List Rule :=
  ifaces.map (fun n => ({ crits := [if from_ then Crit.inIf n else Crit.outIf n],
                          action := .goto ((if from_ then "cali-fh-" else "cali-th-") ++ n) } : Rule))

/-! ## BPF mode: the static rules `InternalDataplane.setUpIptablesBPF` (felix/dataplane/linux/int_dataplane.go)
programs straight into the kernel chains filter INPUT / FORWARD / OUTPUT (wireguard off, deny action DROP).
In BPF mode policy is enforced by the BPF programs attached to the interfaces Felix knows; a packet that
went through one carries the "seen" mark.  An interface that matches a workload prefix but that Felix does
not know has no program, so its packets arrive WITHOUT the seen mark: these rules are what drops them. -/

def markSeen : Nat := 0x1000000          -- tcdefs.MarkSeen (= MarkSeenMask)
def markSeenBypass : Nat := 0x3000000    -- tcdefs.MarkSeenBypass (= its mask)
def markSeenFallThrough : Nat := 0x5000000
def markCtEstablished : Nat := 0x8000000 -- tcdefs.MarkLinuxConntrackEstablished
def bpfOutDev := "bpfout.cali"

/-- `bpfMarkPreestablishedFlowsRules`. -/
def bpfMarkEstRule : Rule :=
  { comment := some "Mark pre-established flows.", crits := [.ctEstRel], action := .setMarkMasked markCtEstablished }

def bpfInputHead : List Rule :=
  [{ comment := some "Accept packets from flows that pre-date BPF.",
     crits := [.markSet markSeenFallThrough, .ctEstRel], action := .accept },
   { comment := some "REJECT/rst packets from unknown TCP flows.",
     crits := [.markSet markSeenFallThrough, .protoName "tcp" 6], action := .rejectRst },
   { comment := some "Drop packets from unknown non-TCP flows.",
     crits := [.markSet markSeenFallThrough], action := .drop }]

def bpfInputDropUnseen (pfx : String) : Rule :=
  { crits := [.inIf (pfx ++ "+"), .markNotSet markSeen], action := .drop }

def bpfInputPrefixRules (c : Config) (pfx : String) : List Rule :=
  (if c.toHost = .accept then [{ crits := [.inIf (pfx ++ "+"), .markSet markSeen], action := .accept }] else []) ++
  [bpfInputDropUnseen pfx]

/-- filter INPUT in BPF mode (either IP version). -/
def bpfInputRules (c : Config) : List Rule :=
  bpfInputHead ++ (c.prefixes.map (bpfInputPrefixRules c)).flatten

def bpfFwdBypass : Rule :=
  { comment := some "Pre-approved by BPF programs.", crits := [.markSet markSeenBypass], action := .accept }

def bpfFwdDropUnseen (pfx : String) : Rule :=
  { comment := some "From workload without BPF seen mark", crits := [.inIf (pfx ++ "+"), .markNotSet markSeen],
    action := .drop }

/-- the IPv6-only middle part: without BPF IPv6 support all IPv6 to pods is dropped; with it, router /
neighbour ICMPv6 is kept from being forwarded. -/
def bpfFwdV6Rules (c : Config) (bpf6 : Bool) : List Rule :=
  if bpf6 then
    [130, 131, 132, 133, 135, 136].map (fun t => ({ crits := [.protoNum 58, .icmp6Type t], action := .drop } : Rule))
  else
    c.prefixes.map (fun pfx => ({ comment := some "To workload, drop IPv6.", crits := [.outIf (pfx ++ "+")],
                                  action := .drop } : Rule))

/-- the part programmed when BPF handles this IP version. -/
def bpfFwdTail (c : Config) : List Rule :=
  bpfMarkEstRule ::
  (c.prefixes.map (fun pfx => ({ comment := some "To workload, check workload is known.",
                                 crits := [.outIf (pfx ++ "+")], action := .jump chToWlDispatch } : Rule)) ++
   (c.prefixes.map (fun pfx => ({ comment := some "To workload, mark has already been verified.",
                                  crits := [.inIf (pfx ++ "+")], action := .accept } : Rule)) ++
    [{ comment := some "From ", moreComments := [bpfOutDev, " device, mark verified, accept."],
       crits := [.inIf bpfOutDev], action := .accept }]))

/-- filter FORWARD in BPF mode for the IPv4 (`v6 = false`) or IPv6 table, with `BPFIpv6Enabled = bpf6`. -/
def bpfForwardRules (c : Config) (v6 bpf6 : Bool) : List Rule :=
  bpfFwdBypass ::
  (c.prefixes.map bpfFwdDropUnseen ++
   ((if v6 then bpfFwdV6Rules c bpf6 else []) ++ (if !v6 || bpf6 then bpfFwdTail c else [])))

/-- filter OUTPUT in BPF mode. -/
def bpfOutputRules : List Rule := [bpfMarkEstRule]

/-- `WorkloadInterfaceAllowChains`: the BPF-mode `cali-to-wl-dispatch` (flat: 0 or 1 known workload). -/
def wlAllowChain (ifaces : List String) : List Rule :=
  ifaces.map (fun n => ({ crits := [.outIf n], action := .accept } : Rule)) ++
  [{ comment := some "Unknown interface", action := .drop }]

end CalicoVerif.C40
