import CalicoVerif.Model.CasIO
import CalicoVerif.Model.C19
/-!
C20 — pool selection, reservations, block cap: the decision logic of
`determinePools` + `filterPoolsByUse` (ipam.go prepareAffinityBlocksForHost), the
reservation filter inside `autoAssign` (Cas.takeFree), and the per-host block cap
of `autoAssign` (`allowNewClaim`).  Selectors are modelled as already evaluated
match results for the label vocabulary the harness generates (zone / team
equality); the selector language itself is C06's subject.  Core Lean only.
-/
namespace CalicoVerif.C20
open CalicoVerif.Cas CalicoVerif.Proto

inductive Use where | workload | tunnel | lb
deriving DecidableEq, Repr

structure Pool where
  id : Nat
  enabled : Bool
  uses : List Use
  nodeSel : Nat      -- 0 = no selector, k = "zone == <k>"
  nsSel : Nat        -- 0 = no selector, k = "team == <k>"
  auto : Bool        -- AssignmentMode Automatic
deriving Repr

/-- `SelectsNode` / `SelectsNamespace` on the generated vocabulary: label value 0 = label absent. -/
def selOk (sel label : Nat) : Bool := sel == 0 || sel == label

/-- `determinePools` then `filterPoolsByUse`; `none` = the request fails
(ErrNoQualifiedPool, unknown/disabled requested pool, no pool selects the node, no pool allowed for the use). -/
def allowedPools (pools : List Pool) (req : List Nat) (zone team : Nat) (use : Use) : Option (List Nat) :=
  let en := pools.filter (·.enabled)
  if en.isEmpty then none
  else
    let matching : Option (List Pool) :=
      if req.isEmpty then
        some (en.filter (fun p => p.auto && selOk p.nodeSel zone && selOk p.nsSel team))
      else
        req.mapM (fun r => en.find? (fun p => p.id == r))
    match matching with
    | none => none
    | some m =>
      if m.isEmpty then none
      else
        let f := m.filter (fun p => p.uses.contains use)
        if f.isEmpty then none else some (f.map (·.id))

/-- Effective per-host block cap of `autoAssign` (global config merged with the request, default 20). -/
def effCap (cfgMax reqMax : Nat) : Nat :=
  let m := if cfgMax > 0 ∧ reqMax > 0 ∧ reqMax > cfgMax then cfgMax else if reqMax = 0 then cfgMax else reqMax
  if m = 0 then 20 else m

/-- `allowNewClaim` as computed at the top of every iteration of the allocation loop. -/
def allowNewClaim (owned cap : Nat) : Bool := !(cap > 0 && owned ≥ cap)

/-- The allocation loop as far as block ownership goes: each iteration may claim one new
block (`true`) only if `allowNewClaim`; otherwise it stops with ErrBlockLimit. -/
def claimLoop (cap : Nat) : Nat → List Bool → Nat
  | owned, [] => owned
  | owned, wantNew :: rest =>
    if wantNew then
      if allowNewClaim owned cap then claimLoop cap (owned + 1) rest else owned
    else claimLoop cap owned rest

/-- Ordinals of a block covered by a reservation (IPv4 addresses as numbers; a reservation
CIDR is the range `start, len`): the CIDR → ordinal step of `addrFilter.MatchesIP`. -/
def inRanges (ranges : List (Nat × Nat)) (a : Nat) : Bool :=
  ranges.any (fun r => r.1 ≤ a && a < r.1 + r.2)

def resvOrds (ranges : List (Nat × Nat)) (base size : Nat) : List Nat :=
  (List.range size).filter (fun o => inRanges ranges (base + o))

/-- The static world of a C20 run. -/
structure Env20 where
  poolOf : Nat → Nat        -- block ↦ pool id
  base : Nat → Nat          -- block ↦ first address
  size : Nat → Nat          -- block ↦ number of addresses
  ranges : List (Nat × Nat) -- reservations

/-- The AutoAssign request a thread is executing: the pools `allowedPools` selected for it. -/
structure Req where
  allowed : List Nat
  host : Nat
  strict : Bool
  /-- `numBlocksOwned` at the start of the request: the host's BlockAffinity objects — in ANY
  state (pending, confirmed, pendingDeletion: `getAffineBlocks` lists them all) — for blocks of
  the pools selected for the request. -/
  owned : Nat := 0
  cap : Nat := 20

/-- What `autoAssign` is given by its caller, as a guard on the model's events: the block lies
in a pool selected for the request, the reserved ordinals handed to the scan are the
block's reserved ordinals, and under strict affinity the affinity check is on. -/
def guard20 (env : Env20) (req : Nat → Option Req) : Ev → Bool
  | .call c =>
    match c.key, c.pl, req c.t with
    | .blk b, .blkRmw _ (.assign _ _ rv) _, some r =>
      r.allowed.contains (env.poolOf b) && rv == resvOrds env.ranges (env.base b) (env.size b) &&
        (!r.strict || c.own == some r.host)
    | _, _, _ => true
  | _ => true

/-! ### driver -/

structure DSt where
  cas : St
  pools : List Pool
  bpool : List Nat := []
  bbase : List Nat := []
  bsize : List Nat := []
  ranges : List (Nat × Nat) := []
  zones : List Nat := []
  strict : Bool := false
  cfgMax : Nat := 0
  reqs : List (Nat × Req) := []
  claimed : List (Nat × Nat) := []   -- thread ↦ new claims made so far by its request

def DSt.env (d : DSt) : Env20 :=
  { poolOf := fun b => d.bpool.getD b 0, base := fun b => d.bbase.getD b 0, size := fun b => d.bsize.getD b 0,
    ranges := d.ranges }

def DSt.req (d : DSt) (t : Nat) : Option Req := (d.reqs.find? (fun p => p.1 == t)).map (·.2)

def parseRanges (s : String) : List (Nat × Nat) :=
  if s == "-" || s == "" then [] else
  (s.splitOn ",").filterMap (fun p => match p.splitOn ":" with
    | [a, b] => match a.toNat?, b.toNat? with
      | some a, some b => some (a, b)
      | _, _ => none
    | _ => none)

def parseUse : String → Option Use
  | "W" => some .workload | "T" => some .tunnel | "L" => some .lb | _ => none

/-- `pool <id> <E|D> <uses e.g. WT> n<k> s<k> <A|M>` -/
def parsePool (ws : List String) : Option Pool :=
  match ws with
  | [id, en, uses, ns, ss, am] => do
    let id ← id.toNat?
    let us ← uses.toList.mapM (fun c => parseUse c.toString)
    let n ← (ns.drop 1).toString.toNat?
    let s ← (ss.drop 1).toString.toNat?
    some { id := id, enabled := en == "E", uses := us, nodeSel := n, nsSel := s, auto := am == "A" }
  | _ => none

def step (d : DSt) (line : String) : DSt × String :=
  match words line with
  | "new" :: rest =>
    let (c, o) := driverStep C19.chk d.cas line
    ({ cas := c, pools := [],
       bpool := ((kvOf rest "bpool").bind parseNats).getD [],
       bbase := ((kvOf rest "bbase").bind parseNats).getD [],
       bsize := ((kvOf rest "bsz").bind parseNats).getD [],
       ranges := parseRanges ((kvOf rest "rrange").getD "-"),
       zones := ((kvOf rest "zones").bind parseNats).getD [],
       strict := kvOf rest "strict" == some "1",
       cfgMax := (kvNat rest "maxblk").getD 0 }, o)
  | "begin" :: t :: "autoassign" :: rest =>
    let (c, o) := driverStep C19.chk d.cas line
    match t.toNat?, kvNat rest "host" with
    | some t, some host =>
      let use := if kvOf rest "use" == some "T" then Use.tunnel else Use.workload
      let req := ((kvOf rest "req").bind parseNats).getD []
      let team := (kvNat rest "ns").getD 0
      let allowed := (allowedPools d.pools req (d.zones.getD host 0) team use).getD []
      -- the host's affinity objects, whatever their state, inside the selected pools
      let owned := ((List.range d.cas.nb).filter (fun b =>
        (d.cas.aff host b).isSome && allowed.contains (d.bpool.getD b 0))).length
      let cap := effCap d.cfgMax ((kvNat rest "maxblk").getD 0)
      ({ d with cas := c, reqs := (t, { allowed := allowed, host := host, strict := d.strict, owned := owned, cap := cap }) :: d.reqs }, o)
    | _, _ => ({ d with cas := c }, o)
  | "step" :: _ =>
    let (c, o) := driverStep C19.chk d.cas line
    let g := match parseStep (words line) with
      | some cl => guard20 d.env d.req (.call cl)
      | none => true
    -- a NEW claim (the request's thread creates an affinity object of its host) is allowed only
    -- if `allowNewClaim (owned + claims so far) cap`
    -- `numBlocksOwned` is what the request's getAffineBlocks (its `list aff` call) sees
    let d := match words line, (parseStep (words line)) with
      | "step" :: _ :: _ :: "list" :: "list" :: "aff" :: _, some cl =>
        match d.req cl.t with
        | some r =>
          let owned := ((List.range d.cas.nb).filter (fun b =>
            (d.cas.aff r.host b).isSome && r.allowed.contains (d.bpool.getD b 0))).length
          { d with reqs := (cl.t, { r with owned := owned }) :: d.reqs, claimed := (cl.t, 0) :: d.claimed }
        | none => d
      | _, _ => d
    let (d', capOk) := match parseStep (words line) with
      | some cl =>
        match cl.key, cl.verb, d.req cl.t with
        | .aff x _, .create, some r =>
          if x == r.host && casOutcome (d.cas.curRev cl.key) cl.verb cl.rev cl.fault == Outcome.ok then
            let k : Nat := ((d.claimed.find? (fun (p : Nat × Nat) => p.1 == cl.t)).map (fun (p : Nat × Nat) => p.2)).getD 0
            ({ d with claimed := (cl.t, k + 1) :: d.claimed }, allowNewClaim (r.owned + k) r.cap)
          else (d, true)
        | _, _, _ => (d, true)
      | none => (d, true)
    ({ d' with cas := c }, (if g then o else o ++ " GUARD20") ++ (if capOk then "" else " CAPGUARD"))
  | "pool" :: rest =>
    match parsePool rest with
    | some p => ({ d with pools := d.pools ++ [p] }, "ok")
    | none => (d, "bad-op")
  | ["allowed", zone, team, use, req] =>
    match zone.toNat?, team.toNat?, parseUse use, parseNats req with
    | some z, some t, some u, some r =>
      (d, match allowedPools d.pools r z t u with
          | some l => "pools " ++ renderNats l
          | none => "err")
    | _, _, _, _ => (d, "bad-op")
  | ["cap", c, r] =>
    match c.toNat?, r.toNat? with
    | some c, some r => (d, toString (effCap c r))
    | _, _ => (d, "bad-op")
  | _ =>
    let (c, o) := driverStep C19.chk d.cas line
    ({ d with cas := c }, o)

end CalicoVerif.C20
