/-
C32 — model of goldmane/pkg/storage: `BucketRing` (bucket_ring.go), `AggregationBucket`
(bucket.go), `DiachronicFlow` windows (diachronic_flow.go), `FlowCollection` (utils.go) and
the time-sorted `RingIndex.List` (ring_index.go).

* times are `Int` seconds (Go int64, no overflow); the ring is a `List Bucket` + head index.
* a flow key is an opaque `Nat`; every summable statistic of a flow (packets, bytes, connection
  counts) is treated the same way by the code, so one counter `cnt` stands for all of them.
  Labels, policies, the per-bucket statistics index, secondary sort indices, pagination, filters
  and stream receivers are NOT modelled.
* `set.Set[*DiachronicFlow]` is a duplicate-free sorted `List Nat` of keys; the map
  `diachronics` is an association list sorted by key.
* the sentinel `0` ("no bound") of `FlowSet` / `Within` / `GetWindows` is modelled literally.
* `EmitFlowCollections` walks back window by window while the window's oldest bucket is less than `n`
  buckets back from the head (commit "bound the backward walk of goldmane's flow emission by the ring
  size"); the model's loop carries `n` units of fuel which are never what stops it
  (`emit_walk_terminates`).
Core Lean only.
-/
namespace CalicoVerif.C32

structure Win where
  start : Int
  stop : Int
  cnt : Int
deriving DecidableEq, Repr

structure Bucket where
  start : Int
  stop : Int
  pushed : Bool
  keys : List Nat
deriving DecidableEq, Repr

structure Ring where
  buckets : List Bucket
  head : Nat
  interval : Int
  pushAfter : Nat
  agg : Nat
  dia : List (Nat × List Win)
  /-- per ring slot: the flows (key, count) accepted into the bucket since its last reset, newest first. The
  code keeps a `statisticsIndex` per bucket instead; everything `Statistics` reads from it is a function of this
  list (`bucketStats`), and `Reset` replaces the index (`bflows[i] := []`). -/
  bflows : List (List (Nat × Int))
deriving DecidableEq, Repr

def emptyBucket : Bucket := { start := 0, stop := 0, pushed := false, keys := [] }

def Ring.n (r : Ring) : Nat := r.buckets.length
def Ring.bucket (r : Ring) (i : Nat) : Bucket := r.buckets.getD i emptyBucket

/-- `indexAdd` / `nextBucketIndex`. -/
def Ring.idxAdd (r : Ring) (i k : Nat) : Nat := (i + k) % r.n
/-- `indexSubtract` (for `k ≤ n`, as in every call site on a configured ring). -/
def Ring.idxSub (r : Ring) (i k : Nat) : Nat := (i + r.n - k) % r.n

/-- `BeginningOfHistory`. -/
def Ring.boh (r : Ring) : Int := (r.bucket (r.idxAdd r.head 1)).start
/-- `EndOfHistory`. -/
def Ring.eoh (r : Ring) : Int := (r.bucket r.head).stop

def Bucket.contains (b : Bucket) (t : Int) : Bool := decide (b.start ≤ t) && decide (t < b.stop)

/-- fallback linear scan of `findBucket`, from the head backwards (`k` steps left). -/
def Ring.scan (r : Ring) (t : Int) : Nat → Nat → Option Nat
  | 0, _ => none
  | k + 1, i => if (r.bucket i).contains t then some i else r.scan t k (r.idxSub i 1)

/-- `findBucket(t)`; `none` is Go's `(-1, nil)`. -/
def Ring.findBucket (r : Ring) (t : Int) : Option Nat :=
  if t ≥ r.eoh ∨ t < r.boh then none else
  let back := ((r.eoh - 1 - t) / r.interval).toNat
  let idx := r.idxSub r.head (back % r.n)
  if (r.bucket idx).contains t then some idx else r.scan t r.n r.head

/-- insert into a sorted duplicate-free list (a Go set). -/
def insertKey (k : Nat) : List Nat → List Nat
  | [] => [k]
  | x :: xs => if k < x then k :: x :: xs else if k = x then x :: xs else x :: insertKey k xs

def unionKeys (a b : List Nat) : List Nat := a.foldl (fun acc k => insertKey k acc) b

/-- `DiachronicFlow.AddFlow(flow, start, end)`: windows are sorted by start. -/
def addWin (start stop cnt : Int) : List Win → List Win
  | [] => [{ start := start, stop := stop, cnt := cnt }]
  | w :: ws =>
    if w.start ≥ start then
      (if w.start = start then { w with cnt := w.cnt + cnt } :: ws
       else { start := start, stop := stop, cnt := cnt } :: w :: ws)
    else w :: addWin start stop cnt ws

def lookupDia (dia : List (Nat × List Win)) (k : Nat) : Option (List Win) :=
  (dia.find? (fun p => p.1 == k)).map (·.2)

/-- update / insert / delete (`ws = []` deletes) in the key-sorted association list. -/
def setDia (k : Nat) (ws : List Win) : List (Nat × List Win) → List (Nat × List Win)
  | [] => if ws.isEmpty then [] else [(k, ws)]
  | p :: ps =>
    if k < p.1 then (if ws.isEmpty then p :: ps else (k, ws) :: p :: ps)
    else if k = p.1 then (if ws.isEmpty then ps else (k, ws) :: ps)
    else p :: setDia k ws ps

def Ring.setBucket (r : Ring) (i : Nat) (b : Bucket) : Ring := { r with buckets := r.buckets.set i b }

/-- `AddFlow(flow)`; returns whether the flow was accepted (sorted into a bucket). -/
def Ring.addFlow (r : Ring) (key : Nat) (t : Int) (cnt : Int) : Ring × Bool :=
  match r.findBucket t with
  | none => (r, false)
  | some i =>
    let b := r.bucket i
    let ws := (lookupDia r.dia key).getD []
    let r1 := { r with dia := setDia key (addWin b.start b.stop cnt ws) r.dia }
    ({ (r1.setBucket i { b with keys := insertKey key b.keys }) with
        bflows := r.bflows.set i ((key, cnt) :: r.bflows.getD i []) }, true)

/-- `DiachronicFlow.Rollover(limiter)`: drop the windows that end at or before the limiter. -/
def dropExpired (limiter : Int) : List Win → List Win
  | [] => []
  | w :: ws => if w.stop > limiter then w :: ws else dropExpired limiter ws

/-- `Within(startGte, startLt)`. -/
def within (ws : List Win) (gte lt : Int) : Bool :=
  ws.any (fun w => (gte == 0 || decide (w.start ≥ gte)) && (lt == 0 || decide (w.start < lt)))

/-- `GetWindows` + `AggregateWindows`: (count, StartTime, EndTime). -/
def aggregate (ws : List Win) (gte lt : Int) : Int × Int × Int :=
  let sel := ws.filter (fun w => (gte == 0 || decide (w.start ≥ gte)) && (lt == 0 || decide (w.stop ≤ lt)))
  sel.foldl (fun (acc : Int × Int × Int) w =>
    (acc.1 + w.cnt,
     (if acc.2.1 == 0 || decide (w.start < acc.2.1) then w.start else acc.2.1),
     (if acc.2.2 == 0 || decide (w.stop > acc.2.2) then w.stop else acc.2.2))) (0, 0, 0)

/-- A collection handed to the sink. -/
structure Coll where
  start : Int
  stop : Int
  flows : List (Nat × Int)       -- (key, count), sorted by key
  idxs : List Nat                -- ring indexes of the buckets it covers
deriving DecidableEq, Repr

/-- `iterBuckets(start, end)`: indexes from `start` up to but excluding `end`, wrapping. -/
def Ring.iterIdx (r : Ring) : Nat → Nat → Nat → List Nat
  | 0, _, _ => []
  | fuel + 1, i, e => if i = e then [] else i :: r.iterIdx fuel (r.idxAdd i 1) e

/-- `maybeBuildFlowCollection`. -/
def Ring.maybeBuild (r : Ring) (s e : Nat) : Option Coll :=
  if (r.bucket s).pushed then none else
  let st := (r.bucket s).start
  let en := (r.bucket e).start
  let idxs := r.iterIdx r.n s e
  let keys := idxs.foldl (fun acc i => unionKeys (r.bucket i).keys acc) []
  let flows := keys.filterMap (fun k =>
    let ws := (lookupDia r.dia k).getD []
    if within ws st en then some (k, (aggregate ws st en).1) else none)
  some { start := st, stop := en, flows := flows, idxs := idxs }

def Ring.markPushed (r : Ring) (idxs : List Nat) : Ring :=
  { r with buckets := idxs.foldl (fun bs i => bs.set i { (bs.getD i emptyBucket) with pushed := true }) r.buckets }

/-- the collection-building loop of `EmitFlowCollections`: `oldest` = how many buckets back from the head
the oldest bucket of the window `[s, e)` is; a window is only built while `oldest < n` (the oldest bucket
of the ring is `n - 1` back), and the walk ends at the first window whose oldest bucket is already pushed. -/
def Ring.buildLoop2 (r : Ring) : Nat → Nat → Nat → Nat → List Coll
  | 0, _, _, _ => []
  | fuel + 1, oldest, s, e =>
    if oldest < r.n then
      match r.maybeBuild s e with
      | none => []
      | some c => c :: r.buildLoop2 fuel (oldest + r.agg) (r.idxSub s r.agg) s
    else []

/-- the collections built by one `EmitFlowCollections`, newest first (`bucketsToAggregate < 1`: none) -/
def Ring.built (r : Ring) : List Coll :=
  let nowIdx := r.idxSub r.head 1
  let e := r.idxSub nowIdx r.pushAfter
  let s := r.idxSub e r.agg
  if r.agg < 1 then [] else r.buildLoop2 r.n (1 + r.pushAfter + r.agg) s e

/-- `EmitFlowCollections(sink)`: returns the ring and the collections received by the sink, in the
order received (oldest first); empty collections are neither sent nor completed. -/
def Ring.emit (r : Ring) : Ring × List Coll :=
  let sent := (r.built.reverse).filter (fun c => !c.flows.isEmpty)
  (sent.foldl (fun r c => r.markPushed c.idxs) r, sent)

/-- `Rollover(sink)`; returns (ring, returned start time, collections received by the sink). -/
def Ring.rollover (r : Ring) (sink : Bool) : Ring × Int × List Coll :=
  let st := (r.bucket r.head).stop
  let en := st + r.interval
  let h := r.idxAdd r.head 1
  let flows := (r.bucket h).keys
  let r1 : Ring := { r with head := h, buckets := r.buckets.set h { start := st, stop := en, pushed := false, keys := [] },
                            bflows := r.bflows.set h [] }
  let lim := r1.boh
  let dia := flows.foldl (fun dia k => setDia k (dropExpired lim ((lookupDia dia k).getD [])) dia) r1.dia
  let r2 := { r1 with dia := dia }
  if sink then let p := r2.emit; (p.1, st, p.2) else (r2, st, [])

def rollN (r : Ring) : Nat → Ring
  | 0 => r
  | k + 1 => rollN (r.rollover false).1 k

/-- `NewBucketRing(n, interval, now, WithPushAfter, WithBucketsToAggregate)`. -/
def newRing (n : Nat) (interval now : Int) (pushAfter agg : Nat) : Ring :=
  let newest := now + interval
  let oldest := newest - interval * n
  let bs := (List.replicate n emptyBucket).set 0 { start := oldest, stop := oldest + interval, pushed := false, keys := [] }
  rollN { buckets := bs, head := 0, interval := interval, pushAfter := pushAfter, agg := agg, dia := [], bflows := List.replicate n [] } n

/-- `FlowSet(startGt, startLt)` (note: `StartTime <= startLt`, inclusive, as in the code). -/
def Ring.flowSet (r : Ring) (gte lt : Int) : List Nat :=
  r.buckets.foldl (fun acc b =>
    if (gte == 0 || decide (b.start ≥ gte)) && (lt == 0 || decide (b.start ≤ lt)) then unionKeys b.keys acc else acc) []

/-- `List` through the default (time) index, no filter, no pagination: (key, count, StartTime, EndTime)
sorted by key (the code sorts by StartTime descending with ties in map order). -/
def Ring.list (r : Ring) (gte lt : Int) : List (Nat × Int × Int × Int) :=
  (r.flowSet gte lt).filterMap (fun k =>
    let ws := (lookupDia r.dia k).getD []
    if within ws gte lt then some (k, aggregate ws gte lt) else none)

/-! ### Statistics (stats.go, `BucketRing.Statistics`; `TimeSeries = false`, no `PolicyMatch`) -/

/-- one policy hit of a flow key: policy id, action (0 allow, 1 deny, 2 pass), `PolicyIndex` (which the code
copies into `StatisticsKey.RuleIndex`) -/
structure Hit where
  pol : Nat
  act : Nat
  idx : Nat
deriving DecidableEq, Repr

structure KeyInfo where
  ingress : Bool          -- reporter = Dst (direction "ingress"), else "egress"
  hits : List Hit         -- enforced ++ pending policy hits of the key's policy trace (no EndOfTier hits)
deriving Repr

/-- the flow keys the harness uses (same table in harness/cmd/c32) -/
def keyInfo : Nat → KeyInfo
  | 0 => ⟨false, [⟨1, 0, 0⟩]⟩
  | 1 => ⟨true, [⟨1, 0, 0⟩, ⟨2, 1, 1⟩]⟩
  | 2 => ⟨false, [⟨1, 2, 0⟩, ⟨2, 0, 1⟩, ⟨1, 0, 2⟩]⟩
  | 3 => ⟨true, [⟨3, 1, 0⟩, ⟨3, 1, 0⟩, ⟨2, 0, 3⟩]⟩
  | _ => ⟨false, []⟩

structure Counts where
  ain : Int
  aout : Int
  din : Int
  dout : Int
  pin : Int
  pout : Int
deriving DecidableEq, Repr

def Counts.zero : Counts := ⟨0, 0, 0, 0, 0, 0⟩
def Counts.add (a b : Counts) : Counts :=
  ⟨a.ain + b.ain, a.aout + b.aout, a.din + b.din, a.dout + b.dout, a.pin + b.pin, a.pout + b.pout⟩

/-- `statistics.add(flow, action)` restricted to one statistic type (0 packets, 1 bytes, 2 live connections).
A harness flow of count `c` has PacketsIn = c, PacketsOut = 2c, BytesIn = 3c, BytesOut = 4c, NumConnectionsLive = c. -/
def contrib (typ : Nat) (ingress : Bool) (act : Nat) (c : Int) : Counts :=
  let io : Int × Int := match typ with
    | 0 => (c, 2 * c)
    | 1 => (3 * c, 4 * c)
    | _ => (if ingress then c else 0, if ingress then 0 else c)
  match act with
  | 0 => ⟨io.1, io.2, 0, 0, 0, 0⟩
  | 1 => ⟨0, 0, io.1, io.2, 0, 0⟩
  | 2 => ⟨0, 0, 0, 0, io.1, io.2⟩
  | _ => Counts.zero

/-- result key: policy, action+1 (0 = unspecified), rule index, direction (0 any, 1 ingress, 2 egress) -/
abbrev SKey := Nat × Nat × Nat × Nat

/-- the distinct rule keys a flow of key `k` contributes to (`polToRules`) -/
def rulesOf (k : Nat) : List Hit := (keyInfo k).hits.eraseDups

/-- contributions of one accepted flow: (result key, counts); `groupByRule = false`: one entry per RULE hit,
keyed by the policy (the code adds the flow to the policy once per rule of that policy it hits) -/
def flowContribs (typ : Nat) (groupByRule : Bool) (f : Nat × Int) : List (SKey × Counts) :=
  let ki := keyInfo f.1
  (rulesOf f.1).map (fun h =>
    (if groupByRule then (h.pol, h.act + 1, h.idx, if ki.ingress then 1 else 2) else (h.pol, 0, 0, 0),
     contrib typ ki.ingress h.act f.2))

def skeyLt (a b : SKey) : Bool :=
  decide (a.1 < b.1) || (a.1 == b.1 && (decide (a.2.1 < b.2.1) || (a.2.1 == b.2.1 &&
    (decide (a.2.2.1 < b.2.2.1) || (a.2.2.1 == b.2.2.1 && decide (a.2.2.2 < b.2.2.2))))))

def insertS (x : SKey × Counts) : List (SKey × Counts) → List (SKey × Counts)
  | [] => [x]
  | y :: ys =>
    if x.1 = y.1 then (y.1, y.2.add x.2) :: ys
    else if skeyLt x.1 y.1 then x :: y :: ys
    else y :: insertS x ys

/-- sum per result key, sorted by key -/
def sumContribs (cs : List (SKey × Counts)) : List (SKey × Counts) := cs.foldl (fun acc x => insertS x acc) []

/-- `QueryStatistics` of every bucket in the range + the aggregation in `BucketRing.Statistics`: a function of
the lists of flows accepted into those buckets -/
def statsOfFlows (typ : Nat) (groupByRule : Bool) (fss : List (List (Nat × Int))) : List (SKey × Counts) :=
  sumContribs (fss.flatMap (fun fs => fs.flatMap (flowContribs typ groupByRule)))

/-- `iterBucketsTime(start, end)`: indexes from the bucket containing `start` (0: the oldest) up to but excluding
the bucket containing `end` (0: the head bucket); `none` = "failed to find bucket for time range". -/
def Ring.statRange (r : Ring) (gte lt : Int) : Option (List Nat) :=
  let s := if gte == 0 then some (r.idxAdd r.head 1) else r.findBucket gte
  let e := if lt == 0 then some r.head else r.findBucket lt
  match s, e with
  | some s, some e => some (r.iterIdx r.n s e)
  | _, _ => none

/-- `BucketRing.Statistics(req)` -/
def Ring.stats (r : Ring) (typ : Nat) (groupByRule : Bool) (gte lt : Int) : Option (List (SKey × Counts)) :=
  (r.statRange gte lt).map (fun idxs => statsOfFlows typ groupByRule (idxs.map (fun i => r.bflows.getD i [])))

end CalicoVerif.C32
