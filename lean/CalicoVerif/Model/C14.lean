/-!
C14 — executable model of the BPF conntrack clean-up:

* `expired`      — `entryDone(…, finishedOnly=false)` of felix/bpf/conntrack/cleanup.go
* `check`        — `LivenessScanner.Check`
* `handleNAT`, `scanEntry`, `scanEnd`, `scan` — `Scanner.Scan` / `handleNATEntries` / `updateCleanupMap`
  of felix/bpf/conntrack/scanner.go (what is put on the clean-up queue map)
* `cleanEntry`, `clean` — `process_ccq_entry` / `conntrack_cleanup` of felix/bpf-gpl/conntrack_cleanup.c

Core Lean only.  Time stamps are `Nat` nanoseconds.
-/
namespace CalicoVerif.C14

abbrev AMap (K V : Type) := List (K × V)

namespace AMap
variable {K V : Type} [DecidableEq K]
def get : AMap K V → K → Option V
  | [], _ => none
  | (k', v) :: m, k => if k' = k then some v else get m k
def del (m : AMap K V) (k : K) : AMap K V := m.filter (fun p => decide (p.1 ≠ k))
def set (m : AMap K V) (k : K) (v : V) : AMap K V := (k, v) :: del m k
end AMap

/-- `struct calico_ct_key`. -/
structure Key where
  proto : Nat
  a : Nat
  pa : Nat
  b : Nat
  pb : Nat
deriving DecidableEq, Repr, Inhabited

/-- the all-zero key the scanner uses for "no reverse key" (`dummyKey`). -/
def dummyKey : Key := ⟨0, 0, 0, 0, 0⟩

inductive Typ where | normal | fwd | rev
deriving DecidableEq, Repr, Inhabited

/-- `struct calico_ct_value`, reduced to what expiry and clean-up look at. -/
structure Entry where
  typ : Typ
  lastSeen : Nat
  /-- `rst_seen` time stamp (0 = none). -/
  rstTs : Nat
  /-- `nat_rev_key` (forward entries). -/
  revKey : Key
  established : Bool
  finsSeen : Bool
  finsSeenDSR : Bool
  rstSeen : Bool
  dsr : Bool
deriving DecidableEq, Repr, Inhabited

/-- `timeouts.Timeouts` (nanoseconds). -/
structure Timeouts where
  tcpSynSent : Nat
  tcpEstablished : Nat
  tcpFinsSeen : Nat
  tcpResetSeen : Nat
  udp : Nat
  generic : Nat
  icmp : Nat
deriving Repr, Inhabited

/-- `age > T` for `age = now - lastSeen` (a signed duration in Go). -/
def Entry.older (e : Entry) (now T : Nat) : Bool := decide (e.lastSeen + T < now)

/-- `entryDone(t, now, proto, entry, false)` = `EntryExpired`. -/
def expired (t : Timeouts) (now proto : Nat) (e : Entry) : Bool :=
  if proto = 6 then
    if e.rstSeen && e.older now t.tcpResetSeen then true
    else if ((e.dsr && e.finsSeenDSR) || e.finsSeen) && e.older now t.tcpFinsSeen then true
    else if e.established || e.dsr then
      (decide (e.rstTs ≠ 0) && e.older now 120000000000) || e.older now t.tcpEstablished
    else e.older now t.tcpSynSent
  else if proto = 1 || proto = 58 then e.older now t.icmp
  else if proto = 17 then e.older now t.udp
  else e.older now t.generic

/-- `cleanupv1.Value`: other NAT key, time stamp, reverse time stamp. -/
structure QVal where
  other : Key
  ts : Nat
  revTs : Nat
deriving DecidableEq, Repr, Inhabited

/-- scanner state during one `Scan`: the clean-up queue (desired `ctCleanupMap`) and
`revNATKeyToFwdNATInfo`. -/
structure ScanSt where
  queue : AMap Key QVal
  pend : AMap Key QVal
deriving Repr, Inhabited

/-- `LivenessScanner.Check`: (delete verdict?, time stamp handed to the scanner). -/
def check (t : Timeouts) (now : Nat) (ct : AMap Key Entry) (k : Key) (e : Entry) : Bool × Nat :=
  match e.typ with
  | .fwd =>
    match ct.get e.revKey with
    | none => (true, e.lastSeen)
    | some r => if expired t now k.proto r then (true, r.lastSeen) else (false, e.lastSeen)
  | _ => (expired t now k.proto e, e.lastSeen)

/-- `handleNATEntries`. -/
def handleNAT (sc : ScanSt) (k : Key) (e : Entry) (revTs : Nat) : ScanSt :=
  let ts := e.lastSeen
  match e.typ with
  | .fwd =>
    if ts = revTs then { sc with queue := sc.queue.set k ⟨dummyKey, ts, revTs⟩ }
    else match sc.pend.get e.revKey with
      | none => { sc with pend := sc.pend.set e.revKey ⟨k, ts, revTs⟩ }
      | some _ => { queue := sc.queue.set k ⟨e.revKey, ts, revTs⟩, pend := sc.pend.del e.revKey }
  | .rev =>
    match sc.pend.get k with
    | some pv => { queue := sc.queue.set pv.other ⟨k, pv.ts, ts⟩, pend := sc.pend.del k }
    | none => { sc with pend := sc.pend.set k ⟨dummyKey, ts, 0⟩ }
  | .normal => sc

/-- body of the `ctMap.Iter` callback of `Scan` (liveness scanner only, BPF cleaner present). -/
def scanEntry (t : Timeouts) (now : Nat) (ct : AMap Key Entry) (sc : ScanSt) (k : Key) (e : Entry) : ScanSt :=
  let r := check t now ct k e
  if !r.1 then sc
  else match e.typ with
    | .normal => { sc with queue := sc.queue.set k ⟨dummyKey, r.2, r.2⟩ }
    | _ => handleNAT sc k e r.2

/-- the loop over the left-over `revNATKeyToFwdNATInfo` at the end of `Scan`. -/
def scanEnd (sc : ScanSt) : AMap Key QVal :=
  sc.pend.foldl (fun q kv =>
    if kv.2.other ≠ dummyKey then q.set kv.2.other ⟨kv.1, kv.2.ts, kv.2.revTs⟩
    else q.set kv.1 ⟨kv.2.other, kv.2.ts, kv.2.revTs⟩) sc.queue

/-- one `Scan` over the entries `items` (in iteration order) of the map `ct`: the queue it builds. -/
def scan (t : Timeouts) (now : Nat) (ct : AMap Key Entry) (items : List (Key × Entry)) : AMap Key QVal :=
  scanEnd (items.foldl (fun sc kv => scanEntry t now ct sc kv.1 kv.2) ⟨[], []⟩)

/-- "the fwd key no longer points to the same reverse key" test of `process_ccq_entry`. -/
def fwdMismatch (ct : AMap Key Entry) (k other : Key) : Bool :=
  match ct.get k with
  | some f => decide (f.revKey ≠ other)
  | none => false

/-- `process_ccq_entry` (the lookup-compare-delete is one atomic step here). -/
def cleanEntry (ct : AMap Key Entry) (k : Key) (q : QVal) : AMap Key Entry :=
  if q.other.proto = 0 then
    match ct.get k with
    | some e => if e.lastSeen = q.ts then ct.del k else ct
    | none => ct
  else
    if fwdMismatch ct k q.other then ct
    else match ct.get q.other with
      | some r => if r.lastSeen = q.revTs then (ct.del q.other).del k else ct
      | none => ct

/-- `conntrack_cleanup`: one pass over the queue map. -/
def clean (ct : AMap Key Entry) (queue : AMap Key QVal) : AMap Key Entry :=
  queue.foldl (fun ct kq => cleanEntry ct kq.1 kq.2) ct

end CalicoVerif.C14
