import CalicoVerif.Model.C23
/-! C23 — helper lemmas: association lists, the frame of the allocation-side functions, and the
consistency of the block/node indexes (`nodesByBlock`, `blocksByNode`, `emptyBlocks`). -/
namespace CalicoVerif.C23

/-! ### association lists -/

theorem AMap.get_del {α : Type} (m : AMap α) (k k' : Nat) :
    (m.del k).get k' = if k' = k then none else m.get k' := by
  induction m with
  | nil => simp [AMap.del, AMap.get]
  | cons kv r ih =>
    obtain ⟨k'', v⟩ := kv
    simp only [AMap.del]
    by_cases h1 : k'' = k
    · simp only [h1, if_true, ih]
      by_cases h2 : k' = k
      · simp [h2]
      · have : ¬ k = k' := fun e => h2 e.symm
        simp [h2, AMap.get, this]
    · simp only [h1, if_false, AMap.get, ih]
      by_cases h3 : k'' = k'
      · have : ¬ k' = k := fun e => h1 (h3.trans e)
        simp [h3, this]
      · simp [h3]

theorem AMap.get_set {α : Type} (m : AMap α) (k k' : Nat) (v : α) :
    (m.set k v).get k' = if k' = k then some v else m.get k' := by
  simp only [AMap.set, AMap.get, AMap.get_del]
  by_cases h : k' = k
  · simp [h]
  · have : ¬ k = k' := fun e => h e.symm
    simp [h, this]

/-! ### frames: the allocation-side functions do not touch the block/node indexes -/

/-- `s'` has the same block/node indexes as `s` -/
def Fr (s s' : St) : Prop :=
  s'.nodesByBlock = s.nodesByBlock ∧ s'.blocksByNode = s.blocksByNode ∧ s'.emptyBlocks = s.emptyBlocks ∧ s'.seen = s.seen

theorem Fr.refl (s : St) : Fr s s := ⟨rfl, rfl, rfl, rfl⟩
theorem Fr.trans {a b c : St} (h1 : Fr a b) (h2 : Fr b c) : Fr a c :=
  ⟨h2.1.trans h1.1, h2.2.1.trans h1.2.1, h2.2.2.1.trans h1.2.2.1, h2.2.2.2.trans h1.2.2.2⟩

theorem fr_markDirty (s : St) (n : Nat) : Fr s (markDirty s n) := by
  unfold markDirty; split <;> exact ⟨rfl, rfl, rfl, rfl⟩
theorem fr_markClean (s : St) (n : Nat) : Fr s (markClean s n) := ⟨rfl, rfl, rfl, rfl⟩
theorem fr_releaseAlloc (s : St) (a : Alloc) : Fr s (releaseAlloc s a) :=
  Fr.trans (b := { s with allocs := s.allocs.filter (fun x => x.id != a.id), leaks := s.leaks.filter (· != a.id) })
    ⟨rfl, rfl, rfl, rfl⟩ (fr_markDirty _ _)

theorem fr_foldl {α : Type} (f : St → α → St) (hf : ∀ s x, Fr s (f s x)) (l : List α) (s : St) : Fr s (l.foldl f s) := by
  induction l generalizing s with
  | nil => exact Fr.refl s
  | cons x xs ih => exact Fr.trans (hf s x) (ih _)

theorem fr_releaseAll (s : St) (as : List Alloc) : Fr s (releaseAll s as) := fr_foldl _ fr_releaseAlloc as s

theorem fr_ite {c : Prop} [Decidable c] {s : St} {a b : St} (ha : Fr s a) (hb : Fr s b) : Fr s (if c then a else b) := by
  split <;> assumption

theorem fr_ite_fst {α : Type} {c : Prop} [Decidable c] {s : St} {a b : St × α} (ha : Fr s a.1) (hb : Fr s b.1) :
    Fr s (if c then a else b).1 := by
  split <;> assumption

theorem fr_upsert (s : St) (b : Nat) (e : Entry) (h : Nat) : Fr s (upsert s b e h) := by
  simp only [upsert]
  split
  · exact fr_ite ⟨rfl, rfl, rfl, rfl⟩ (Fr.refl s)
  · exact Fr.trans (b := { s with allocs := s.allocs ++ [{ block := b, ord := e.ord, handle := h, kind := e.kind, node := e.node, pod := e.pod, seq := e.seq }] })
      ⟨rfl, rfl, rfl, rfl⟩ (fr_markDirty _ _)

theorem fr_upsertAll (s : St) (b : Nat) (es : List Entry) : Fr s (upsertAll s b es) := by
  induction es generalizing s with
  | nil => exact Fr.refl s
  | cons e es ih =>
    simp only [upsertAll]
    split
    · exact ih s
    · exact Fr.trans (fr_upsert s b e _) (ih _)

theorem fr_applyVerdict (s : St) (v : Verdict) : Fr s (applyVerdict s v) := by
  unfold applyVerdict
  split <;> exact ⟨rfl, rfl, rfl, rfl⟩

theorem fr_checkNode (s : St) (n : Nat) : Fr s (checkNode s n).1 := by
  simp only [checkNode]
  split
  · exact fr_markClean s n
  · refine fr_ite_fst (fr_ite_fst ?_ ?_) ?_
    · exact Fr.trans (fr_foldl _ fr_applyVerdict _ s) (fr_markClean _ _)
    · exact Fr.trans (Fr.trans (fr_foldl _ fr_applyVerdict _ s) (fr_foldl _ (fun s v => fr_applyVerdict s _) _ _)) (fr_markDirty _ _)
    · exact Fr.trans (fr_foldl _ fr_applyVerdict _ s) (fr_markClean _ _)

theorem fr_checkNodes (s : St) (ns : List Nat) : Fr s (checkNodes s ns).1 := by
  induction ns generalizing s with
  | nil => exact Fr.refl s
  | cons n ns ih => exact Fr.trans (fr_checkNode s n) (ih _)

theorem fr_checkAllocations (s : St) : Fr s (checkAllocations s).1 :=
  Fr.trans (b := { s with fullSync := false }) ⟨rfl, rfl, rfl, rfl⟩ (fr_checkNodes _ _)

theorem fr_gcSelect (s : St) (ids : List Id) : Fr s (gcSelect s ids).1 := by
  induction ids generalizing s with
  | nil => exact Fr.refl s
  | cons id ids ih =>
    simp only [gcSelect]
    split
    · exact ih s
    · refine fr_ite_fst ?_ (fr_ite_fst (ih s) (ih s))
      refine Fr.trans ?_ (ih _)
      exact ⟨rfl, rfl, rfl, rfl⟩

theorem fr_gc (s : St) : Fr s (garbageCollectKnownLeaks s).1 := by
  unfold garbageCollectKnownLeaks
  simp only
  split
  · exact fr_gcSelect s _
  · exact Fr.trans (fr_gcSelect s _) (fr_releaseAll _ _)

/-! ### index consistency -/

def blocksOf (m : AMap (List Nat)) (n : Nat) : List Nat := (m.get n).getD []

/-- the block/node indexes agree: `blocksByNode[n]` is exactly the set of blocks whose latest seen
affinity is `n`, without duplicates, and an empty-block entry names the block's node. -/
structure IdxF (nbb : AMap Nat) (bbn : AMap (List Nat)) (em : AMap Nat) : Prop where
  mem : ∀ n b, b ∈ blocksOf bbn n ↔ nbb.get b = some n
  nodup : ∀ n, (blocksOf bbn n).Nodup
  empty : ∀ b n, em.get b = some n → nbb.get b = some n

def Idx (s : St) : Prop := IdxF s.nodesByBlock s.blocksByNode s.emptyBlocks

theorem Idx.of_fr {s s' : St} (h : Idx s) (f : Fr s s') : Idx s' := by
  unfold Idx at *; rw [f.1, f.2.1, f.2.2.1]; exact h

theorem mem_sins (l : List Nat) (x y : Nat) : y ∈ sins l x ↔ y = x ∨ y ∈ l := by
  simp only [sins, List.contains_iff_mem]
  split
  · next h => constructor
              · exact Or.inr
              · rintro (rfl | h')
                · exact h
                · exact h'
  · simp

theorem nodup_sins {l : List Nat} (h : l.Nodup) (x : Nat) : (sins l x).Nodup := by
  simp only [sins, List.contains_iff_mem]
  split
  · exact h
  · next hx => exact List.nodup_cons.2 ⟨hx, h⟩

theorem blocksOf_bbnAdd (m : AMap (List Nat)) (n b n' : Nat) :
    blocksOf (bbnAdd m n b) n' = if n' = n then sins (blocksOf m n) b else blocksOf m n' := by
  simp only [blocksOf, bbnAdd, AMap.get_set]
  by_cases h : n' = n <;> simp [h]

theorem blocksOf_bbnDel (m : AMap (List Nat)) (n b n' : Nat) :
    blocksOf (bbnDel m n b) n' = if n' = n then (blocksOf m n).filter (· != b) else blocksOf m n' := by
  simp only [blocksOf, bbnDel]
  cases hg : m.get n with
  | none =>
    by_cases h : n' = n
    · subst h; simp [hg]
    · simp [h]
  | some bs =>
    simp only
    by_cases he : (bs.filter (· != b)).isEmpty = true
    · simp only [he, if_true, AMap.get_del]
      by_cases h : n' = n
      · simp only [h, if_true, Option.getD_none, Option.getD_some]
        exact (List.isEmpty_iff.1 he).symm
      · simp [h]
    · have he' : (bs.filter (· != b)).isEmpty = false := by simpa using he
      simp only [he', Bool.false_eq_true, if_false, AMap.get_set]
      by_cases h : n' = n <;> simp [h]

/-- forgetting a block / clearing its affinity -/
theorem idxF_remove {nbb : AMap Nat} {bbn : AMap (List Nat)} {em : AMap Nat} (h : IdxF nbb bbn em) (b : Nat) :
    IdxF (nbb.del b) (match nbb.get b with | some n => bbnDel bbn n b | none => bbn) (em.del b) := by
  refine ⟨fun n x => ?_, fun n => ?_, fun x n hx => ?_⟩
  · rw [AMap.get_del]
    cases hg : nbb.get b with
    | none =>
      simp only
      rw [h.mem]
      by_cases hx : x = b
      · subst hx; simp [hg]
      · simp [hx]
    | some n0 =>
      simp only
      rw [blocksOf_bbnDel]
      by_cases hn : n = n0
      · subst hn
        simp only [if_true, List.mem_filter, bne_iff_ne, ne_eq, h.mem]
        by_cases hx : x = b
        · subst hx; simp
        · simp [hx]
      · simp only [hn, if_false, h.mem]
        by_cases hx : x = b
        · subst hx
          simp only [if_true, hg, Option.some.injEq]
          constructor
          · intro e; exact absurd e.symm hn
          · intro e; cases e
        · simp [hx]
  · cases hg : nbb.get b with
    | none => exact h.nodup n
    | some n0 =>
      simp only
      rw [blocksOf_bbnDel]
      split
      · exact List.Nodup.sublist List.filter_sublist (h.nodup _)
      · exact h.nodup n
  · rw [AMap.get_del] at hx ⊢
    by_cases hxb : x = b
    · simp [hxb] at hx
    · simp only [hxb, if_false] at hx ⊢
      exact h.empty x n hx

/-- a block update carrying a host affinity `n` (the repaired code: the old node's entry is dropped
when the affinity moved straight from another host) -/
theorem idxF_assign {nbb : AMap Nat} {bbn : AMap (List Nat)} {em : AMap Nat} (h : IdxF nbb bbn em) (b n : Nat) (e : Bool) :
    IdxF (nbb.set b n)
      (bbnAdd (dropOld nbb bbn b n) n b)
      (if e then em.set b n else em.del b) := by
  refine ⟨fun n' x => ?_, fun n' => ?_, fun x n' hx => ?_⟩
  · rw [blocksOf_bbnAdd, AMap.get_set]
    unfold dropOld
    cases hg : nbb.get b with
    | none =>
      simp only
      by_cases hn : n' = n
      · subst hn
        simp only [if_true, mem_sins, h.mem]
        by_cases hx : x = b
        · simp [hx]
        · simp [hx]
      · simp only [hn, if_false, h.mem]
        by_cases hx : x = b
        · subst hx
          simp only [hg, if_true, Option.some.injEq]
          constructor
          · intro e; cases e
          · intro e; exact absurd e.symm hn
        · simp [hx]
    | some old =>
      simp only
      by_cases ho : old = n
      · subst ho
        simp only [bne_self_eq_false, Bool.false_eq_true, if_false]
        by_cases hn : n' = old
        · subst hn
          simp only [if_true, mem_sins, h.mem]
          by_cases hx : x = b
          · simp [hx]
          · simp [hx]
        · simp only [hn, if_false, h.mem]
          by_cases hx : x = b
          · subst hx
            simp only [hg, if_true, Option.some.injEq]
          · simp [hx]
      · have hb : (old != n) = true := by simpa using ho
        simp only [hb, if_true]
        by_cases hn : n' = n
        · subst hn
          simp only [if_true, mem_sins]
          rw [blocksOf_bbnDel]
          have : ¬ n' = old := fun e => ho e.symm
          simp only [this, if_false, h.mem]
          by_cases hx : x = b
          · simp [hx]
          · simp [hx]
        · simp only [hn, if_false]
          rw [blocksOf_bbnDel]
          by_cases hno : n' = old
          · subst hno
            simp only [if_true, List.mem_filter, bne_iff_ne, ne_eq, h.mem]
            by_cases hx : x = b
            · subst hx
              simp only [not_true_eq_false, and_false, if_true, Option.some.injEq, false_iff]
              exact fun e => hn e.symm
            · simp [hx]
          · simp only [hno, if_false, h.mem]
            by_cases hx : x = b
            · subst hx
              simp only [hg, if_true, Option.some.injEq]
              constructor
              · intro e; exact absurd e.symm hno
              · intro e; exact absurd e.symm hn
            · simp [hx]
  · rw [blocksOf_bbnAdd]
    have hnd : ∀ m, (blocksOf (dropOld nbb bbn b n) m).Nodup := by
      intro m
      unfold dropOld
      cases hg : nbb.get b with
      | none => exact h.nodup m
      | some old =>
        simp only
        split
        · rw [blocksOf_bbnDel]
          split
          · exact List.Nodup.sublist List.filter_sublist (h.nodup _)
          · exact h.nodup m
        · exact h.nodup m
    split
    · exact nodup_sins (hnd _) _
    · exact hnd _
  · rw [AMap.get_set]
    by_cases hxb : x = b
    · subst hxb
      cases e with
      | true => simp only [if_true, AMap.get_set, Option.some.injEq] at hx ⊢; exact hx
      | false => simp [AMap.get_del] at hx
    · simp only [hxb, if_false]
      cases e with
      | true => simp only [if_true, AMap.get_set, hxb, if_false] at hx; exact h.empty x n' hx
      | false => simp only [Bool.false_eq_true, if_false, AMap.get_del, hxb] at hx; exact h.empty x n' hx

theorem idx_forgetBlock {s : St} (h : Idx s) (b : Nat) : Idx (forgetBlock s b) := by
  have f := fr_releaseAll s (s.allocs.filter (fun a => a.block == b))
  have h1 : Idx (releaseAll s (s.allocs.filter (fun a => a.block == b))) := h.of_fr f
  unfold forgetBlock
  exact idxF_remove h1 b

theorem idx_onBlockUpdated {s : St} (h : Idx s) (b : Nat) (aff : Option Nat) (es : List Entry) :
    Idx (onBlockUpdated s b aff es) := by
  unfold onBlockUpdated
  simp only
  refine Idx.of_fr (s := emptyStage (upsertAll (affinityStage s b aff) b es) b es.isEmpty aff) ?_
    (Fr.trans (fr_releaseAll _ _) ⟨rfl, rfl, rfl, rfl⟩)
  have f2 := fr_upsertAll (affinityStage s b aff) b es
  generalize upsertAll (affinityStage s b aff) b es = s2 at *
  cases aff with
  | some n =>
    have h1 := idxF_assign h b n es.isEmpty
    have e1 : (affinityStage s b (some n)).nodesByBlock = s.nodesByBlock.set b n ∧
        (affinityStage s b (some n)).blocksByNode = bbnAdd (dropOld s.nodesByBlock s.blocksByNode b n) n b ∧
        (affinityStage s b (some n)).emptyBlocks = s.emptyBlocks := ⟨rfl, rfl, rfl⟩
    unfold emptyStage
    by_cases he : es.isEmpty = true
    · simp only [he, if_true] at h1 ⊢
      show IdxF s2.nodesByBlock s2.blocksByNode (s2.emptyBlocks.set b n)
      rw [f2.1, f2.2.1, f2.2.2.1, e1.1, e1.2.1, e1.2.2]; exact h1
    · simp only [he] at h1 ⊢
      show IdxF s2.nodesByBlock s2.blocksByNode (s2.emptyBlocks.del b)
      rw [f2.1, f2.2.1, f2.2.2.1, e1.1, e1.2.1, e1.2.2]; exact h1
  | none =>
    have h1 := idxF_remove h b
    unfold emptyStage
    show IdxF s2.nodesByBlock s2.blocksByNode (s2.emptyBlocks.del b)
    rw [f2.1, f2.2.1, f2.2.2.1]
    unfold affinityStage
    cases hg : s.nodesByBlock.get b with
    | some n' => simp only [hg] at h1 ⊢; exact h1
    | none =>
      simp only [hg] at h1 ⊢
      -- nothing to delete: `del` of an absent key leaves every lookup unchanged, so use h directly
      exact ⟨fun n x => h.mem n x, h.nodup, fun x n hx => by
        have := h1.empty x n hx
        rw [AMap.get_del] at this
        by_cases hxb : x = b
        · simp [hxb] at this
        · simpa [hxb] using this⟩

/-! ### `garbageCollectKnownLeaks` relative to its INPUT state -/

/-- the allocations after some leaks were resurrected: those with an id in `R` are reset -/
def mv (R : List Id) (x : Alloc) : Alloc := if R.contains x.id then x.markValid else x

theorem markValid_id (x : Alloc) : x.markValid.id = x.id := rfl
theorem markValid_handle (x : Alloc) : x.markValid.handle = x.handle := rfl
theorem markValid_idem (x : Alloc) : x.markValid.markValid = x.markValid := rfl
theorem markValid_confirmed (x : Alloc) : x.markValid.confirmed = false := rfl

theorem mv_id (R : List Id) (x : Alloc) : (mv R x).id = x.id := by unfold mv; split <;> rfl
theorem mv_handle (R : List Id) (x : Alloc) : (mv R x).handle = x.handle := by unfold mv; split <;> rfl

theorem mv_cons (R : List Id) (id : Id) (x : Alloc) :
    (if (mv R x).id == id then (mv R x).markValid else mv R x) = mv (id :: R) x := by
  rw [mv_id]
  unfold mv
  by_cases h1 : x.id = id
  · have : (x.id == id) = true := by simpa using h1
    simp only [this, if_true, List.contains_cons, Bool.true_or]
    split <;> rfl
  · have : (x.id == id) = false := by simpa using h1
    simp only [this, Bool.false_eq_true, if_false, List.contains_cons, Bool.false_or]

/-- every allocation `gcSelect` selects is an allocation of the INPUT state (`s0`, before any resurrection of
this pass), fails the final re-validation, is a confirmed leak, and every allocation of the input state
sharing its handle is a confirmed leak. -/
theorem gcSelect_input (s0 : St) (R : List Id) (st : St) (ids : List Id) (henv : st.env = s0.env)
    (hall : st.allocs = s0.allocs.map (mv R)) :
    ∀ a ∈ (gcSelect st ids).2, a ∈ s0.allocs ∧ isValid s0.env a a.knode.isNone = false ∧ a.confirmed = true ∧
      ∀ c ∈ s0.allocs, c.handle = a.handle → c.confirmed = true := by
  induction ids generalizing st R with
  | nil => intro a ha; simp [gcSelect] at ha
  | cons id ids ih =>
    intro a ha
    simp only [gcSelect] at ha
    cases hf : st.allocs.find? (fun x => x.id == id) with
    | none => simp only [hf] at ha; exact ih R st henv hall a ha
    | some a0 =>
      simp only [hf] at ha
      by_cases hv : isValid st.env a0 a0.knode.isNone = true
      · simp only [hv, if_true] at ha
        refine ih (id :: R) { st with leaks := st.leaks.filter (· != id), allocs := st.allocs.map (fun x => if x.id == id then x.markValid else x) } henv ?_ a ha
        show st.allocs.map (fun x => if x.id == id then x.markValid else x) = s0.allocs.map (mv (id :: R))
        rw [hall, List.map_map]
        apply List.map_congr_left
        intro x _
        exact mv_cons R id x
      · simp only [hv] at ha
        by_cases hh : handleConfirmed st a0.handle = true
        · simp only [hh, Bool.not_true, Bool.false_eq_true, if_false] at ha
          rcases List.mem_cons.1 ha with rfl | ha
          · have hm : a ∈ st.allocs := List.mem_of_find?_eq_some hf
            have hallc : ∀ b ∈ st.allocs, b.handle = a.handle → b.confirmed = true := by
              intro b hb hbh
              simp only [handleConfirmed, Bool.and_eq_true, List.all_eq_true, List.mem_filter, beq_iff_eq, and_imp] at hh
              exact hh.2 b hb hbh
            -- a is an unmodified allocation of the input state
            rw [hall, List.mem_map] at hm
            obtain ⟨x, hx, hxa⟩ := hm
            have hconf : a.confirmed = true := hallc a (List.mem_of_find?_eq_some hf) rfl
            have hxeq : x = a := by
              unfold mv at hxa
              by_cases hr : R.contains x.id = true
              · simp only [hr, if_true] at hxa
                rw [← hxa] at hconf; cases hconf
              · simp only [hr] at hxa; exact hxa
            subst hxeq
            refine ⟨hx, by rw [← henv]; simpa using hv, hconf, fun c hc hch => ?_⟩
            have hmc : mv R c ∈ st.allocs := by rw [hall]; exact List.mem_map.2 ⟨c, hc, rfl⟩
            have := hallc (mv R c) hmc (by rw [mv_handle]; exact hch)
            unfold mv at this
            by_cases hr : R.contains c.id = true
            · simp only [hr, if_true] at this; cases this
            · simp only [hr] at this; exact this
          · exact ih R st henv hall a ha
        · simp only [hh, Bool.not_false, if_true] at ha
          exact ih R st henv hall a ha

theorem mv_nil (x : Alloc) : mv [] x = x := by simp [mv]

/-! ### the states in which block affinities are released -/

/-- GHOST trace of `releaseUnusedLoop`: the state AT THE MOMENT of each `ReleaseBlockAffinity`, with the block and node -/
def releaseTrace : St → List (Nat × Nat) → List (St × Nat × Nat)
  | _, [] => []
  | s, (b, node) :: rest =>
    if (s.emptyBlocks.get b).isNone then releaseTrace s rest
    else if ((s.blocksByNode.get node).getD []).length ≤ 1 then releaseTrace s rest
    else if s.cnodes.get node == some none then releaseTrace { s with tracker := s.tracker.del b } rest
    else
      let r := markEmpty s b
      if !r.2 then releaseTrace r.1 rest
      else if !r.1.allBlocks.contains b then releaseTrace r.1 rest
      else (r.1, b, node) :: releaseTrace (forgetBlock r.1 b) rest

/-- the calls of `releaseUnusedLoop` are exactly the entries of its trace, in order -/
theorem loop_calls_eq_trace (s : St) (l : List (Nat × Nat)) :
    (releaseUnusedLoop s l).2 = (releaseTrace s l).map (fun t => Call.releaseBlockAffinity t.2.1 t.2.2) := by
  induction l generalizing s with
  | nil => rfl
  | cons bn rest ih =>
    obtain ⟨b, node⟩ := bn
    simp only [releaseUnusedLoop, releaseTrace]
    split
    · exact ih _
    · split
      · exact ih _
      · split
        · exact ih _
        · split
          · exact ih _
          · split
            · exact ih _
            · simp only [List.map_cons, ih]

end CalicoVerif.C23
