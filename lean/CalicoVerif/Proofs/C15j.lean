import CalicoVerif.Proofs.C15i
set_option linter.unusedSimpArgs false
namespace CalicoVerif.C15

/-- Running delete-by-value lines for rules `ds` on chain `c`: every rule equal to one of them is gone. -/
theorem krestore_delVals (c : String) : ∀ (ds : List KRule) (K K' : Kernel) (rs : List KRule),
    K.get c = some rs → krestore K (ds.map (RLine.delVal c)) = some K' →
    K'.get c = some (rs.filter (fun r => !(ds.contains r))) ∧ ∀ x, x ≠ c → K'.get x = K.get x := by
  intro ds
  induction ds with
  | nil =>
    intro K K' rs hk h
    simp only [List.map_nil, krestore, Option.some.injEq] at h; subst h
    exact ⟨by rw [hk]; congr 1; exact (List.filter_eq_self.2 (fun _ _ => rfl)).symm, fun _ _ => rfl⟩
  | cons d ds ih =>
    intro K K' rs hk h
    simp only [List.map_cons, krestore, kline, hk] at h
    split at h
    · simp only [Option.bind_some] at h
      obtain ⟨h1, h2⟩ := ih (K.set c (rs.filter (· != d))) K' (rs.filter (· != d)) (by simp [Map.get_set]) h
      refine ⟨?_, ?_⟩
      · rw [h1, List.filter_filter]
        congr 1
        apply List.filter_congr
        intro r _
        by_cases hrd : r = d
        · subst hrd; simp
        · have h1' : (r != d) = true := by simp [hrd]
          have h2' : ((d :: ds).contains r) = ds.contains r := by
            simp only [List.contains_cons]
            have : (r == d) = false := by simp [hrd]
            simp [this]
          rw [h1', h2']; simp
      · intro x hx
        rw [h2 x hx, Map.get_set]; simp [hx]
    · simp at h

theorem krestore_inserts (c : String) : ∀ (xs : List KRule) (K K' : Kernel) (rs : List KRule),
    K.get c = some rs → krestore K (xs.map (RLine.insert c)) = some K' →
    K'.get c = some (xs.reverse ++ rs) ∧ ∀ x, x ≠ c → K'.get x = K.get x := by
  intro xs
  induction xs with
  | nil =>
    intro K K' rs hk h
    simp only [List.map_nil, krestore, Option.some.injEq] at h; subst h
    exact ⟨by simp [hk], fun _ _ => rfl⟩
  | cons a xs ih =>
    intro K K' rs hk h
    simp only [List.map_cons, krestore, kline, hk, Option.map_some, Option.bind_some] at h
    obtain ⟨h1, h2⟩ := ih (K.set c (a :: rs)) K' (a :: rs) (by simp [Map.get_set]) h
    refine ⟨by rw [h1]; simp, ?_⟩
    intro x hx
    rw [h2 x hx, Map.get_set]; simp [hx]

theorem krestore_appends (c : String) : ∀ (xs : List KRule) (K K' : Kernel) (rs : List KRule),
    K.get c = some rs → krestore K (xs.map (RLine.append c)) = some K' →
    K'.get c = some (rs ++ xs) ∧ ∀ x, x ≠ c → K'.get x = K.get x := by
  intro xs
  induction xs with
  | nil =>
    intro K K' rs hk h
    simp only [List.map_nil, krestore, Option.some.injEq] at h; subst h
    exact ⟨by simp [hk], fun _ _ => rfl⟩
  | cons a xs ih =>
    intro K K' rs hk h
    simp only [List.map_cons, krestore, kline, hk, Option.map_some, Option.bind_some] at h
    obtain ⟨h1, h2⟩ := ih (K.set c (rs ++ [a])) K' (rs ++ [a]) (by simp [Map.get_set]) h
    refine ⟨by rw [h1]; simp, ?_⟩
    intro x hx
    rw [h2 x hx, Map.get_set]; simp [hx]

end CalicoVerif.C15
