import CalicoVerif.Proofs.C03Exact
/-! C03: the sorter's tier attributes are the datastore's tier resources (deleted / never seen tiers
are invalid placeholders with no order and no default action). -/
namespace CalicoVerif.C03
open CalicoVerif.C02

abbrev TierDS := List (String × (Option Int × String))

structure TierAttr (ds : TierDS) (s : Sorter) : Prop where
  fromDS : ∀ n o a, mget ds n = some (o, a) →
    ∃ T, mget s.tiers n = some T ∧ T.valid = true ∧ T.order = o ∧ T.defaultAction = a
  notDS : ∀ n T, mget s.tiers n = some T → mget ds n = none → T.valid = false ∧ T.order = none ∧ T.defaultAction = ""

theorem TierAttr.init : TierAttr [] {} := ⟨by simp, by simp⟩

theorem TierAttr.removeFrom {ds : TierDS} {s : Sorter} (ta : TierAttr ds s) {t : TierSt}
    (ht : mget s.tiers t.name = some t) (k : PolicyKey) (old : PolMeta) : TierAttr ds (s.removeFrom t k old) := by
  refine ⟨?_, ?_⟩
  · intro n o a hds
    obtain ⟨T, hT, v, ho, ha⟩ := ta.fromDS n o a hds
    rw [removeFrom_tiers]
    by_cases hn : n = t.name
    · subst hn
      rw [ht] at hT; simp only [Option.some.injEq] at hT; subst hT
      have hcond : ((mdel k t.policies).isEmpty && !t.valid) = false := by simp [v]
      simp only [if_true, hcond, Bool.false_eq_true, if_false]
      exact ⟨_, rfl, v, ho, ha⟩
    · simp only [hn, if_false]; exact ⟨T, hT, v, ho, ha⟩
  · intro n T hT hds
    rw [removeFrom_tiers] at hT
    by_cases hn : n = t.name
    · subst hn
      simp only [if_true] at hT
      split at hT
      · cases hT
      · simp only [Option.some.injEq] at hT; subst hT
        exact ta.notDS _ t ht hds
    · simp only [hn, if_false] at hT; exact ta.notDS n T hT hds

theorem TierAttr.insertPolicy {ds : TierDS} {s : Sorter} (h : SInv s) (ta : TierAttr ds s)
    (k : PolicyKey) (np : PolMeta) (d : Bool) : TierAttr ds (s.insertPolicy k np d).1 := by
  have hname : ∀ t, mget s.tiers np.tier = some t → t.name = np.tier := fun t ht => (h.tiers _ _ ht).1
  refine ⟨?_, ?_⟩
  · intro n o a hds
    obtain ⟨T, hT, v, ho, ha⟩ := ta.fromDS n o a hds
    rw [insertPolicy_tiers' s k np d hname]
    by_cases hn : n = np.tier
    · subst hn
      simp only [if_true, hT]
      exact ⟨_, rfl, v, ho, ha⟩
    · simp only [hn, if_false]; exact ⟨T, hT, v, ho, ha⟩
  · intro n T hT hds
    rw [insertPolicy_tiers' s k np d hname] at hT
    by_cases hn : n = np.tier
    · subst hn
      simp only [if_true, Option.some.injEq] at hT
      subst hT
      cases ht : mget s.tiers np.tier with
      | some t => simp only [insTier]; exact ta.notDS _ t ht hds
      | none => simp [insTier]
    · simp only [hn, if_false] at hT; exact ta.notDS n T hT hds

theorem TierAttr.updatePolicy {ds : TierDS} {s : Sorter} (h : SInv s) (ta : TierAttr ds s)
    (k : PolicyKey) (v : Option PolMeta) : TierAttr ds (s.updatePolicy k v).1 := by
  cases v with
  | none =>
    simp only [Sorter.updatePolicy]
    cases hot : s.tierHolding k with
    | none => exact ta
    | some t =>
      obtain ⟨ht, _⟩ := tierHolding_holds h hot
      cases hp : mget t.policies k with
      | none => simp only [hp]; exact ta
      | some op => simp only [hp]; exact ta.removeFrom ht k op
  | some np =>
    simp only [Sorter.updatePolicy]
    cases hot : s.tierHolding k with
    | none => exact ta.insertPolicy h k np _
    | some ot =>
      obtain ⟨ht, _⟩ := tierHolding_holds h hot
      by_cases hc : ot.name = np.tier
      · simp only [hc, ne_eq, not_true_eq_false, if_false]
        exact ta.insertPolicy h k np _
      · simp only [ne_eq, hc, not_false_eq_true, if_true]
        cases hp : mget ot.policies k with
        | none => simp only [hp]; exact ta.insertPolicy h k np _
        | some op => simp only [hp]; exact (ta.removeFrom ht k op).insertPolicy (h.removeFrom ot ht k op) k np _

/-- the datastore's tier resources after a tier update -/
def dsTier (ds : TierDS) (name : String) : Option (Option Int × String) → TierDS
  | some v => mset name v ds
  | none => mdel name ds

theorem TierAttr.onTierUpdate {ds : TierDS} {s : Sorter} (h : SInv s) (ta : TierAttr ds s) (name : String)
    (v : Option (Option Int × String)) : TierAttr (dsTier ds name v) (s.onTierUpdate name v).1 := by
  unfold Sorter.onTierUpdate dsTier
  cases v with
  | some ov =>
    obtain ⟨order, act⟩ := ov
    simp only
    cases ht : mget s.tiers name with
    | none =>
      refine ⟨?_, ?_⟩
      · intro n o a hds
        simp only [mget_mset] at hds ⊢
        by_cases hn : n = name
        · simp only [hn, if_true, Option.some.injEq, Prod.mk.injEq] at hds ⊢
          obtain ⟨rfl, rfl⟩ := hds; exact ⟨_, rfl, rfl, rfl, rfl⟩
        · simp only [hn, if_false] at hds ⊢; exact ta.fromDS n o a hds
      · intro n T hT hds
        simp only [mget_mset] at hds hT
        by_cases hn : n = name
        · simp [hn] at hds
        · simp only [hn, if_false] at hds hT; exact ta.notDS n T hT hds
    | some t =>
      refine ⟨?_, ?_⟩
      · intro n o a hds
        simp only [mget_mset] at hds ⊢
        by_cases hn : n = name
        · simp only [hn, if_true, Option.some.injEq, Prod.mk.injEq] at hds ⊢
          obtain ⟨rfl, rfl⟩ := hds; exact ⟨_, rfl, rfl, rfl, rfl⟩
        · simp only [hn, if_false] at hds ⊢; exact ta.fromDS n o a hds
      · intro n T hT hds
        simp only [mget_mset] at hds hT
        by_cases hn : n = name
        · simp [hn] at hds
        · simp only [hn, if_false] at hds hT; exact ta.notDS n T hT hds
  | none =>
    simp only
    cases ht : mget s.tiers name with
    | none =>
      refine ⟨?_, ?_⟩
      · intro n o a hds
        simp only [mget_mdel] at hds
        by_cases hn : n = name
        · simp [hn] at hds
        · simp only [hn, if_false] at hds; exact ta.fromDS n o a hds
      · intro n T hT hds
        simp only [mget_mdel] at hds
        by_cases hn : n = name
        · subst hn; rw [ht] at hT; cases hT
        · simp only [hn, if_false] at hds; exact ta.notDS n T hT hds
    | some t =>
      simp only
      split
      · refine ⟨?_, ?_⟩
        · intro n o a hds
          simp only [mget_mdel] at hds ⊢
          by_cases hn : n = name
          · simp [hn] at hds
          · simp only [hn, if_false] at hds ⊢; exact ta.fromDS n o a hds
        · intro n T hT hds
          simp only [mget_mdel] at hds hT
          by_cases hn : n = name
          · simp [hn] at hT
          · simp only [hn, if_false] at hds hT; exact ta.notDS n T hT hds
      · refine ⟨?_, ?_⟩
        · intro n o a hds
          simp only [mget_mdel] at hds
          simp only [mget_mset]
          by_cases hn : n = name
          · simp [hn] at hds
          · simp only [hn, if_false] at hds ⊢; exact ta.fromDS n o a hds
        · intro n T hT hds
          simp only [mget_mdel] at hds
          simp only [mget_mset] at hT
          by_cases hn : n = name
          · simp only [hn, if_true, Option.some.injEq] at hT; subst hT; exact ⟨rfl, rfl, rfl⟩
          · simp only [hn, if_false] at hds hT; exact ta.notDS n T hT hds

/-- the datastore's tier resources after an event / a history -/
def dsEvent (ds : TierDS) : Event → TierDS
  | .tier name v => dsTier ds name v
  | _ => ds

def dsHist (ds : TierDS) : List RStep → TierDS
  | [] => ds
  | .ev e :: t => dsHist (dsEvent ds e) t
  | .flush :: t => dsHist ds t

theorem TierAttr.step {ds : TierDS} {r : Resolver} (h : SInv r.sorter) (ta : TierAttr ds r.sorter) (e : Event) :
    TierAttr (dsEvent ds e) (r.step e).sorter := by
  cases e with
  | endpoint k v => cases v <;> exact ta
  | policy k v =>
    simp only [Resolver.step, dsEvent]
    have h1 : SInv (r.recordPolicy k v).sorter := by cases v <;> exact h
    have t1 : TierAttr ds (r.recordPolicy k v).sorter := by cases v <;> exact ta
    rw [(applyPolicy_fields _ _ _).1]
    split
    · exact t1
    · exact t1.updatePolicy h1 k _
  | tier name v => exact ta.onTierUpdate h name v
  | status b =>
    simp only [Resolver.step, dsEvent]
    split <;> exact ta
  | matchStarted p e =>
    simp only [Resolver.step, dsEvent]
    split <;> exact ta
  | matchStopped p e =>
    simp only [Resolver.step, dsEvent]
    split
    · exact ta.updatePolicy h p none
    · exact ta

theorem TierAttr.foldPending {ds : TierDS} (all : List (PolicyKey × PolMeta)) (l : List PolicyKey)
    (s : Sorter) (hs : SInv s) (ta : TierAttr ds s) : TierAttr ds (l.foldl (Sorter.resolvePending all) s) := by
  induction l generalizing s with
  | nil => exact ta
  | cons k t ih =>
    simp only [List.foldl_cons]
    apply ih
    · unfold Sorter.resolvePending
      cases mget all k with
      | none => exact hs
      | some m => exact hs.updatePolicy k _
    · unfold Sorter.resolvePending
      cases mget all k with
      | none => exact ta
      | some m => exact ta.updatePolicy hs k _

theorem TierAttr.flush {ds : TierDS} {r r' : Resolver} {calls : List Call} (h : SInv r.sorter) (ta : TierAttr ds r.sorter)
    (hf : r.flush = some (r', calls)) : TierAttr ds r'.sorter := by
  unfold Resolver.flush at hf
  by_cases hs : r.inSync = true
  · simp only [hs, Bool.not_true, Bool.false_eq_true, if_false] at hf
    split at hf
    · cases hf
    · simp only [Option.some.injEq, Prod.mk.injEq] at hf
      obtain ⟨rfl, _⟩ := hf
      exact ta.foldPending _ _ _ h
  · simp only [hs, Bool.not_false, if_true, Option.some.injEq, Prod.mk.injEq] at hf
    obtain ⟨rfl, _⟩ := hf; exact ta

theorem runR_tiers {ds : TierDS} {r : Resolver} (h : SInv r.sorter) (ta : TierAttr ds r.sorter) (hist : List RStep)
    {r' : Resolver} {outs : List (List (PolicyKey × EpKey) × List Call)} (hr : runR r hist = some (r', outs)) :
    TierAttr (dsHist ds hist) r'.sorter := by
  induction hist generalizing r ds outs with
  | nil => simp only [runR, Option.some.injEq, Prod.mk.injEq] at hr; obtain ⟨rfl, _⟩ := hr; exact ta
  | cons st t ih =>
    cases st with
    | ev e => exact ih (h.step e) (ta.step h e) hr
    | flush =>
      simp only [runR] at hr
      cases hf : r.flush with
      | none => simp [hf] at hr
      | some x =>
        obtain ⟨r1, calls⟩ := x
        simp only [hf] at hr
        cases hr2 : runR r1 t with
        | none => simp [hr2] at hr
        | some y =>
          obtain ⟨r2, outs2⟩ := y
          simp only [hr2, Option.some.injEq, Prod.mk.injEq] at hr
          obtain ⟨rfl, _⟩ := hr
          obtain ⟨_, _, _, h1, _, _⟩ := flush_spec h
          have h1' : SInv r1.sorter := by
            obtain ⟨r1', calls', e1, hh, _, _⟩ := flush_spec h
            rw [hf] at e1; simp only [Option.some.injEq, Prod.mk.injEq] at e1
            obtain ⟨rfl, _⟩ := e1; exact hh
          exact ih h1' (ta.flush h hf) hr2

/-- The attributes of every tier a flush emits are those of the datastore's tier resource of that name;
a tier that does not exist in the datastore (deleted, or only named by a policy) is an invalid
placeholder with no order and no default action. -/
theorem emitted_tier_attrs {ds : TierDS} {r r' : Resolver} {calls : List Call} (h : SInv r.sorter) (ta : TierAttr ds r.sorter)
    (hs : r.inSync = true) (hf : r.flush = some (r', calls)) (e : EpKey) (u : EpUpd)
    (hu : Call.endpointUpdate e (some u) ∈ calls) (t' : TierInfo) (ht' : t' ∈ u.tiers) :
    match mget ds t'.name with
    | some (o, a) => t'.order = o ∧ t'.defaultAction = a
    | none => t'.order = none ∧ t'.defaultAction = "" := by
  have ta' := ta.flush h hf
  obtain ⟨ts, hts, hm, _, hcalls⟩ := flush_shape hs hf
  have hs' : SInv r'.sorter := by
    obtain ⟨r1', calls', e1, hh, _, _⟩ := flush_spec h
    rw [hf] at e1; simp only [Option.some.injEq, Prod.mk.injEq] at e1
    obtain ⟨rfl, _⟩ := e1; exact hh
  rw [hcalls, List.mem_map] at hu
  obtain ⟨e', _, he'⟩ := hu
  cases hep : mget r.endpoints e' with
  | none => rw [hep] at he'; simp at he'
  | some ep =>
    rw [hep] at he'
    simp only [Call.endpointUpdate.injEq, Option.some.injEq] at he'
    obtain ⟨rfl, rfl⟩ := he'
    obtain ⟨f1, _, _⟩ := filterTiers_spec r.matched e' ts
    obtain ⟨_, _, t, ht, hn, ho, ha, _⟩ := f1 t' ht'
    obtain ⟨n, T, hT, rfl⟩ := (sortedOut_mem hs' hts t).1 ht
    have hname : T.name = n := (hs'.tiers n T hT).1
    rw [hn, ho, ha]
    simp only [tierInfoOf, hname]
    cases hds : mget ds n with
    | none => exact (ta'.notDS n T hT hds).2
    | some oa =>
      obtain ⟨o, a⟩ := oa
      obtain ⟨T2, hT2, _, h2, h3⟩ := ta'.fromDS n o a hds
      rw [hT] at hT2; simp only [Option.some.injEq] at hT2; subst hT2
      exact ⟨h2, h3⟩

end CalicoVerif.C03
