import CalicoVerif.Proofs.C11Log
/-!
C11 — rule → policy → tier composition for the events the builder model
actually produces (`writeRule`, `writePolicyRules`, `writePolicies`,
`writeTiers`, `writeProfiles`), relative to a hypothesis on the match
fragments of the rules involved (`RuleGuarded`).
-/
namespace CalicoVerif.C11

theorem flat_append (a b : List BEv) : flat (a ++ b) = flat a ++ flat b := by
  induction a with
  | nil => rfl
  | cons e es ih => cases e <;> simp [flat, ih]

theorem flat_map_ev (es : List Ev) : flat (es.map BEv.ev) = es := by
  induction es with
  | nil => rfl
  | cons e es ih => simp [flat, ih]

/-- Labels private to one rule's match part. -/
def Label.isPart : Label → Bool
  | .rulePart _ _ => true
  | .cidrEnd _ _ => true
  | _ => false

/-- Labels that only rules define. -/
def Label.isRule : Label → Bool
  | .rulePart _ _ => true
  | .cidrEnd _ _ => true
  | .ruleNoMatch _ => true
  | _ => false

/-- The hypothesis on a rule's match fragment: it is a guard for the reference
`ruleMatch`, and defines only rule-private labels. -/
def RuleGuarded (env : Env) (st : List Byte) (p : Pkt) (r : Rule) : Prop :=
  ∀ fr, filterRule env.c.v6 r = some fr → ∀ rid destLeg,
    Guard env st (.ruleNoMatch rid) (flat (ruleMatches env.c rid fr destLeg)) (ruleMatch env p destLeg fr) ∧
    (∀ l ∈ labelsOf (flat (ruleMatches env.c rid fr destLeg)), l.isPart = true)

/-- What a rule decides: a matching rule continues at its action label — except a `log` rule,
which only sets a flag and falls through. -/
def ruleTarget (env : Env) (p : Pkt) (destLeg : Leg) (r : Rule) (a : Label) : Option Label :=
  match filterRule env.c.v6 r with
  | none => none
  | some fr => if ruleMatch env p destLeg fr then (if a = .log then none else some a) else none

theorem writeRule_flat (c : Cfg) (rid : Nat) (r : Rule) (a : Label) (leg : Leg) :
    flat (writeRule c rid r a leg).1 =
      match filterRule c.v6 r with
      | none => []
      | some fr => flat (ruleMatches c rid fr leg) ++ endOfRule c rid r.matchID a := by
  unfold writeRule
  cases filterRule c.v6 r with
  | none => simp [flat]
  | some fr => simp only [flat, flat_append, flat_map_ev]

theorem writeRule_rid (c : Cfg) (rid : Nat) (r : Rule) (a : Label) (leg : Leg) :
    (writeRule c rid r a leg).2 = match filterRule c.v6 r with | none => rid | some _ => rid + 1 := by
  unfold writeRule
  cases filterRule c.v6 r <;> rfl

/-- A `log` rule: guard, set the flag, fall through. -/
theorem rule_log_decides {env : Env} {st : List Byte} {L : Label} {M : List Ev} {b : Bool}
    (hg : Guard env st L M b) : Decides env st (M ++ (logEvs ++ [.label L])) none := by
  intro rest m hI
  obtain ⟨m1, hI1, e1⟩ := hg (logEvs ++ [.label L] ++ rest) m hI
  have hassoc : M ++ (logEvs ++ [.label L]) ++ rest = M ++ (logEvs ++ [.label L] ++ rest) := by
    simp only [List.append_assoc]
  rw [hassoc, e1]
  cases b with
  | true =>
    obtain ⟨m2, hI2, e2⟩ := decides_log env st ([.label L] ++ rest) m1 hI1
    refine ⟨m2, hI2, ?_⟩
    simp only [if_true, List.append_assoc]
    rw [e2]
    simp only [List.cons_append, List.nil_append]
    rw [lrun_label]
  | false =>
    refine ⟨m1, hI1, ?_⟩
    simp only [Bool.false_eq_true, if_false, List.append_assoc]
    rw [goto_append _ m1 (by simp [logEvs, labelsOf, load64, orImm64, store64, mk])]
    simp only [List.cons_append, List.nil_append]
    rw [goto_label_self]

/-- A rule with rule-hit recording: guard, record (or skip when the table is full), jump. -/
theorem rule_record_decides {env : Env} {st : List Byte} {L a : Label} {M : List Ev} {b : Bool} (id : Nat)
    (hg : Guard env st L M b) (ha : a ≠ L) :
    Decides env st (M ++ (recordRuleID id a ++ [jump a] ++ [.label L])) (if b then some a else none) := by
  intro rest m hI
  obtain ⟨m1, hI1, e1⟩ := hg (recordRuleID id a ++ [jump a] ++ [.label L] ++ rest) m hI
  have hassoc : M ++ (recordRuleID id a ++ [jump a] ++ [.label L]) ++ rest =
      M ++ (recordRuleID id a ++ [jump a] ++ [.label L] ++ rest) := by simp only [List.append_assoc]
  rw [hassoc, e1]
  cases b with
  | true =>
    obtain ⟨m2, hI2, e2⟩ := lrun_record env st id a ([jump a] ++ [.label L] ++ rest) m1 hI1
    refine ⟨m2, hI2, ?_⟩
    simp only [if_true, List.append_assoc] at e2 ⊢
    rcases e2 with e2 | e2
    · rw [e2]
      simp only [List.cons_append, List.nil_append]
      rw [lrun_jump, goto_cons_label_ne env rest m2 (fun e => ha e.symm)]
    · rw [e2]
      simp only [List.cons_append, List.nil_append]
      unfold jump mkJ
      rw [goto_cons_jmp, goto_cons_label_ne env rest m2 (fun e => ha e.symm)]
  | false =>
    refine ⟨m1, hI1, ?_⟩
    simp only [Bool.false_eq_true, if_false, List.append_assoc]
    rw [goto_append _ m1 (by rw [labelsOf_record]; simp)]
    simp only [List.cons_append, List.nil_append]
    unfold jump mkJ
    rw [goto_cons_jmp, goto_label_self]

theorem endOfRule_eq (c : Cfg) (rid id : Nat) (a : Label) :
    endOfRule c rid id a =
      if a = .log then logEvs ++ [.label (.ruleNoMatch rid)]
      else if c.record then recordRuleID id a ++ [jump a] ++ [.label (.ruleNoMatch rid)]
      else [jump a, .label (.ruleNoMatch rid)] := by
  unfold endOfRule logEvs
  by_cases h1 : a = .log
  · simp [h1]
  · by_cases h2 : c.record = true
    · simp [h1, h2]
    · simp [h1, h2]

theorem writeRule_decides {env : Env} {st : List Byte} {p : Pkt} (rid : Nat) (r : Rule) (a : Label) (leg : Leg)
    (hna : a.isRule = false) (hg : RuleGuarded env st p r) :
    Decides env st (flat (writeRule env.c rid r a leg).1) (ruleTarget env p leg r a) := by
  rw [writeRule_flat env.c rid r a leg]
  unfold ruleTarget
  cases hf : filterRule env.c.v6 r with
  | none => exact Decides.nil env st
  | some fr =>
    obtain ⟨g, _⟩ := hg fr hf rid leg
    have hne : a ≠ .ruleNoMatch rid := by intro e; rw [e] at hna; simp [Label.isRule] at hna
    simp only [endOfRule_eq]
    by_cases h1 : a = .log
    · simp only [h1, if_true]
      have := rule_log_decides (L := .ruleNoMatch rid) g
      cases hb : ruleMatch env p leg fr <;> simpa [hb] using this
    · by_cases h2 : env.c.record = true
      · simp only [h1, h2, if_false, if_true]
        exact rule_record_decides r.matchID g hne
      · simp only [h1, h2, if_false, Bool.false_eq_true]
        exact rule_decides g hne

theorem writeRule_labels {env : Env} {st : List Byte} {p : Pkt} (rid : Nat) (r : Rule) (a : Label) (leg : Leg)
    (hg : RuleGuarded env st p r) :
    ∀ l ∈ labelsOf (flat (writeRule env.c rid r a leg).1), l.isRule = true := by
  rw [writeRule_flat env.c rid r a leg]
  cases hf : filterRule env.c.v6 r with
  | none => intro l hl; simp [labelsOf] at hl
  | some fr =>
    obtain ⟨_, hl⟩ := hg fr hf rid leg
    intro l hmem
    simp only [labelsOf_append, List.mem_append] at hmem
    rcases hmem with h | h
    · have := hl l h
      cases l <;> simp_all [Label.isPart, Label.isRule]
    · rw [endOfRule_eq] at h
      by_cases h1 : a = .log
      · simp [h1, logEvs, labelsOf, labelsOf_append, load64, orImm64, store64, mk] at h
        subst h; rfl
      · by_cases h2 : env.c.record = true
        · simp [h1, h2, labelsOf_append, labelsOf_record, labelsOf, jump, mkJ] at h
          subst h; rfl
        · simp [h1, h2, labelsOf, jump, mkJ] at h
          subst h; rfl

/-- First non-fall-through target of a rule list, as the builder orders it. -/
def rulesTarget (env : Env) (p : Pkt) (leg : Leg) (lab : String → Label) : List Rule → Option Label
  | [] => none
  | r :: rs =>
    (ruleTarget env p leg r (lab r.action)).or (rulesTarget env p leg lab rs)

theorem writePolicyRules_decides {env : Env} {st : List Byte} {p : Pkt} (lab : String → Label) (leg : Leg) :
    ∀ (rs : List Rule) (rid : Nat),
      (∀ r ∈ rs, (lab r.action).isRule = false ∧ RuleGuarded env st p r) →
      Decides env st (flat (writePolicyRules env.c lab leg rs rid).1) (rulesTarget env p leg lab rs) ∧
      (∀ l ∈ labelsOf (flat (writePolicyRules env.c lab leg rs rid).1), l.isRule = true) := by
  intro rs
  induction rs with
  | nil => intro rid _; exact ⟨Decides.nil env st, by intro l hl; simp [writePolicyRules, flat, labelsOf] at hl⟩
  | cons r rs ih =>
    intro rid h
    obtain ⟨h2, h3⟩ := h r (List.mem_cons_self)
    have hrest := ih (writeRule env.c rid r (lab r.action) leg).2 (fun r' hr' => h r' (List.mem_cons_of_mem _ hr'))
    simp only [writePolicyRules, flat_append]
    have hd := writeRule_decides (env := env) (st := st) (p := p) rid r (lab r.action) leg h2 h3
    have hlab := writeRule_labels (env := env) (st := st) (p := p) rid r (lab r.action) leg h3
    refine ⟨?_, ?_⟩
    · have := Decides.seq hd hrest.1 (by
        intro l hl hmem
        have hr := hrest.2 l hmem
        unfold ruleTarget at hl
        split at hl
        · cases hl
        · split at hl
          · split at hl
            · cases hl
            · cases hl; rw [h2] at hr; cases hr
          · cases hl)
      simpa only [rulesTarget] using this
    · intro l hmem
      simp only [labelsOf_append, List.mem_append] at hmem
      rcases hmem with hm | hm
      · exact hlab l hm
      · exact hrest.2 l hm

def policiesTarget (env : Env) (p : Pkt) (leg : Leg) (lab : String → Label) : List Policy → Option Label
  | [] => none
  | pol :: ps => (rulesTarget env p leg lab pol.rules).or (policiesTarget env p leg lab ps)

/-- Every rule of the policies has a non-rule action label and a guarded match part. -/
def PoliciesOK (env : Env) (st : List Byte) (p : Pkt) (lab : String → Label) (ps : List Policy) : Prop :=
  ∀ pol ∈ ps, ∀ r ∈ pol.rules, (lab r.action).isRule = false ∧ RuleGuarded env st p r

theorem rulesTarget_not_rule {env : Env} {p : Pkt} {leg : Leg} {lab : String → Label} :
    ∀ (rs : List Rule), (∀ r ∈ rs, (lab r.action).isRule = false) →
      ∀ l, rulesTarget env p leg lab rs = some l → l.isRule = false := by
  intro rs
  induction rs with
  | nil => intro _ l h; simp [rulesTarget] at h
  | cons r rs ih =>
    intro h l hl
    simp only [rulesTarget] at hl
    cases ht : ruleTarget env p leg r (lab r.action) with
    | some l' =>
      simp [ht] at hl; subst hl
      unfold ruleTarget at ht
      split at ht
      · cases ht
      · split at ht
        · split at ht
          · cases ht
          · cases ht; exact h r (List.mem_cons_self)
        · cases ht
    | none =>
      simp [ht] at hl
      exact ih (fun r' hr' => h r' (List.mem_cons_of_mem _ hr')) l hl

theorem writePolicies_decides {env : Env} {st : List Byte} {p : Pkt} (lab : String → Label) (leg : Leg) :
    ∀ (ps : List Policy) (rid : Nat), PoliciesOK env st p lab ps →
      Decides env st (flat (writePolicies env.c lab leg ps rid).1) (policiesTarget env p leg lab ps) ∧
      (∀ l ∈ labelsOf (flat (writePolicies env.c lab leg ps rid).1), l.isRule = true) := by
  intro ps
  induction ps with
  | nil => intro rid _; exact ⟨Decides.nil env st, by intro l hl; simp [writePolicies, flat, labelsOf] at hl⟩
  | cons pol ps ih =>
    intro rid h
    have h1 := writePolicyRules_decides (env := env) (st := st) (p := p) lab leg pol.rules rid
      (fun r hr => h pol (List.mem_cons_self) r hr)
    have hrest := ih (writePolicyRules env.c lab leg pol.rules rid).2
      (fun pol' hp' => h pol' (List.mem_cons_of_mem _ hp'))
    simp only [writePolicies, flat_append]
    refine ⟨?_, ?_⟩
    · have := Decides.seq h1.1 hrest.1 (by
        intro l hl hmem
        have hr := hrest.2 l hmem
        have := rulesTarget_not_rule (env := env) (p := p) (leg := leg) (lab := lab) pol.rules
          (fun r hr => (h pol (List.mem_cons_self) r hr).1) l hl
        rw [this] at hr; cases hr)
      simpa only [policiesTarget] using this
    · intro l hmem
      simp only [labelsOf_append, List.mem_append] at hmem
      rcases hmem with hm | hm
      · exact h1.2 l hm
      · exact hrest.2 l hm

theorem policiesTarget_not_rule {env : Env} {p : Pkt} {leg : Leg} {lab : String → Label} :
    ∀ (ps : List Policy), (∀ pol ∈ ps, ∀ r ∈ pol.rules, (lab r.action).isRule = false) →
      ∀ l, policiesTarget env p leg lab ps = some l → l.isRule = false := by
  intro ps
  induction ps with
  | nil => intro _ l h; simp [policiesTarget] at h
  | cons pol ps ih =>
    intro h l hl
    simp only [policiesTarget] at hl
    cases ht : rulesTarget env p leg lab pol.rules with
    | some l' =>
      simp [ht] at hl; subst hl
      exact rulesTarget_not_rule pol.rules (fun r hr => h pol (List.mem_cons_self) r hr) l' ht
    | none =>
      simp [ht] at hl
      exact ih (fun pol' hp' => h pol' (List.mem_cons_of_mem _ hp')) l hl

theorem rulesTarget_range {env : Env} {p : Pkt} {leg : Leg} {lab : String → Label} :
    ∀ (rs : List Rule) l, rulesTarget env p leg lab rs = some l → ∃ a, l = lab a := by
  intro rs
  induction rs with
  | nil => intro l h; simp [rulesTarget] at h
  | cons r rs ih =>
    intro l hl
    simp only [rulesTarget] at hl
    cases ht : ruleTarget env p leg r (lab r.action) with
    | some l' =>
      simp [ht] at hl; subst hl
      unfold ruleTarget at ht
      split at ht
      · cases ht
      · split at ht
        · split at ht
          · cases ht
          · cases ht; exact ⟨r.action, rfl⟩
        · cases ht
    | none => simp [ht] at hl; exact ih l hl

theorem policiesTarget_range {env : Env} {p : Pkt} {leg : Leg} {lab : String → Label} :
    ∀ (ps : List Policy) l, policiesTarget env p leg lab ps = some l → ∃ a, l = lab a := by
  intro ps
  induction ps with
  | nil => intro l h; simp [policiesTarget] at h
  | cons pol ps ih =>
    intro l hl
    simp only [policiesTarget] at hl
    cases ht : rulesTarget env p leg lab pol.rules with
    | some l' => simp [ht] at hl; subst hl; exact rulesTarget_range pol.rules l' ht
    | none => simp [ht] at hl; exact ih l hl

/-! ### Tiers -/

def Label.isTierEnd : Label → Bool
  | .endOfTier _ => true
  | _ => false

def tierEndLabel (t : Tier) (tid : Nat) : Label :=
  match t.endAction with
  | .pass => .endOfTier tid
  | _ => .deny

def tierTarget (env : Env) (p : Pkt) (leg : Leg) (allowLabel : Label) (tid : Nat) (t : Tier) : Option Label :=
  let tP := (policiesTarget env p leg (tierActionLabel allowLabel tid) t.policies).or (some (tierEndLabel t tid))
  if tP = some (.endOfTier tid) then none else tP

def tiersTarget (env : Env) (p : Pkt) (leg : Leg) (allowLabel : Label) : List Tier → Nat → Option Label
  | [], _ => none
  | t :: ts, tid => (tierTarget env p leg allowLabel tid t).or (tiersTarget env p leg allowLabel ts (tid + 1))

/-- The implicit end-of-tier / end-of-profiles rule has no match criteria. -/
theorem emptyRule_guarded (env : Env) (st : List Byte) (p : Pkt) (id : Nat) :
    RuleGuarded env st p { action := "", matchID := id } := by
  intro fr hf rid leg
  have hfr : fr = { action := "", matchID := id } := by
    simp [filterRule, filterNets] at hf
    exact hf.symm
  subst hfr
  have hm : flat (ruleMatches env.c rid { action := "", matchID := id } leg) = [] := by
    simp [ruleMatches, optList, icmpMatch, ipSetMatch, flat]
  have hr : ruleMatch env p leg { action := "", matchID := id } = true := by
    simp [ruleMatch, icmpIs]
  rw [hm, hr]
  exact ⟨Guard.nil env st _, by intro l hl; simp [labelsOf] at hl⟩

def TiersOK (env : Env) (st : List Byte) (p : Pkt) (allowLabel : Label) (ts : List Tier) : Prop :=
  ∀ t ∈ ts, ∀ tid, PoliciesOK env st p (tierActionLabel allowLabel tid) t.policies

theorem tierActionLabel_tierEnd {allowLabel : Label} (tid : Nat) (a : String)
    (hat : allowLabel.isTierEnd = false) (h : (tierActionLabel allowLabel tid a).isTierEnd = true) :
    tierActionLabel allowLabel tid a = .endOfTier tid := by
  unfold tierActionLabel at h ⊢
  simp only at h ⊢
  repeat' split
  all_goals simp_all [Label.isTierEnd]

theorem tierEndLabel_props (t : Tier) (tid : Nat) :
    tierEndLabel t tid ≠ .log ∧ (tierEndLabel t tid).isRule = false := by
  unfold tierEndLabel; cases t.endAction <;> simp [Label.isRule]

theorem writeTiers_decides {env : Env} {st : List Byte} {p : Pkt} (leg : Leg) (allowLabel : Label)
    (hal : allowLabel.isRule = false) (hat : allowLabel.isTierEnd = false) :
    ∀ (ts : List Tier) (rid tid : Nat), TiersOK env st p allowLabel ts →
      Decides env st (flat (writeTiers env.c leg allowLabel ts rid tid).1) (tiersTarget env p leg allowLabel ts tid) ∧
      (∀ l ∈ labelsOf (flat (writeTiers env.c leg allowLabel ts rid tid).1), l.isRule = true ∨ l.isTierEnd = true) := by
  intro ts
  induction ts with
  | nil => intro rid tid _; exact ⟨Decides.nil env st, by intro l hl; simp [writeTiers, flat, labelsOf] at hl⟩
  | cons t ts ih =>
    intro rid tid h
    have hpol := h t (List.mem_cons_self) tid
    have hP := writePolicies_decides (env := env) (st := st) (p := p) (tierActionLabel allowLabel tid) leg
      t.policies rid hpol
    obtain ⟨hel, her⟩ := tierEndLabel_props t tid
    -- the end-of-tier rule
    have hE := writeRule_decides (env := env) (st := st) (p := p)
      (writePolicies env.c (tierActionLabel allowLabel tid) leg t.policies rid).2
      { action := "", matchID := t.endRuleID } (tierEndLabel t tid) leg her
      (emptyRule_guarded env st p t.endRuleID)
    have hElab := writeRule_labels (env := env) (st := st) (p := p)
      (writePolicies env.c (tierActionLabel allowLabel tid) leg t.policies rid).2
      { action := "", matchID := t.endRuleID } (tierEndLabel t tid) leg
      (emptyRule_guarded env st p t.endRuleID)
    have hEt : ruleTarget env p leg { action := "", matchID := t.endRuleID } (tierEndLabel t tid) =
        some (tierEndLabel t tid) := by
      simp [ruleTarget, filterRule, filterNets, ruleMatch, icmpIs, hel]
    rw [hEt] at hE
    have hPE := Decides.seq hP.1 hE (by
      intro l hl hmem
      have hr := hElab l hmem
      have := policiesTarget_not_rule (env := env) (p := p) (leg := leg) t.policies
        (fun pol hp r hr => (hpol pol hp r hr).1) l hl
      rw [this] at hr; cases hr)
    have hPEL := Decides.label (.endOfTier tid) hPE
    have hrest := ih
      (writeRule env.c (writePolicies env.c (tierActionLabel allowLabel tid) leg t.policies rid).2
        { action := "", matchID := t.endRuleID } (tierEndLabel t tid) leg).2 (tid + 1)
      (fun t' ht' => h t' (List.mem_cons_of_mem _ ht'))
    -- assemble
    have hshape : flat (writeTiers env.c leg allowLabel (t :: ts) rid tid).1 =
        ((flat (writePolicies env.c (tierActionLabel allowLabel tid) leg t.policies rid).1 ++
          flat (writeRule env.c (writePolicies env.c (tierActionLabel allowLabel tid) leg t.policies rid).2
            { action := "", matchID := t.endRuleID } (tierEndLabel t tid) leg).1) ++ [.label (.endOfTier tid)]) ++
        flat (writeTiers env.c leg allowLabel ts
          (writeRule env.c (writePolicies env.c (tierActionLabel allowLabel tid) leg t.policies rid).2
            { action := "", matchID := t.endRuleID } (tierEndLabel t tid) leg).2 (tid + 1)).1 := by
      simp only [writeTiers, flat_append, flat, tierEndLabel]
      cases t.endAction <;> simp
    rw [hshape]
    refine ⟨?_, ?_⟩
    · have := Decides.seq hPEL hrest.1 (by
        intro l hl hmem
        -- the target is the allow label, deny, or an end-of-tier label of THIS tier that is not the fall-through
        have hr := hrest.2 l hmem
        split at hl
        · cases hl
        · rename_i hne
          have hcases : l = tierEndLabel t tid ∨
              policiesTarget env p leg (tierActionLabel allowLabel tid) t.policies = some l := by
            cases hpt : policiesTarget env p leg (tierActionLabel allowLabel tid) t.policies with
            | none => simp [hpt] at hl; exact Or.inl hl.symm
            | some l' => simp [hpt] at hl; exact Or.inr (by rw [hl])
          rcases hcases with hc | hc
          · rw [hc] at hr hl
            unfold tierEndLabel at hr hl hne
            cases hea : t.endAction <;> simp [hea, Label.isRule, Label.isTierEnd] at hr hl hne
            exact hne hl
          · have hnr := policiesTarget_not_rule (env := env) (p := p) (leg := leg) t.policies
              (fun pol hp r hr => (hpol pol hp r hr).1) l hc
            rw [hnr] at hr
            simp only [Bool.false_eq_true, false_or] at hr
            obtain ⟨a, ha⟩ := policiesTarget_range t.policies l hc
            rw [ha] at hr
            have := tierActionLabel_tierEnd tid a hat hr
            rw [← ha] at this
            rw [hc, this] at hne
            simp at hne)
      simpa only [tiersTarget, tierTarget] using this
    · intro l hmem
      simp only [labelsOf_append, List.mem_append, labelsOf, List.mem_cons, List.not_mem_nil, or_false] at hmem
      rcases hmem with ((hm | hm) | hm) | hm
      · exact Or.inl (hP.2 l hm)
      · exact Or.inl (hElab l hm)
      · subst hm; exact Or.inr rfl
      · exact hrest.2 l hm

end CalicoVerif.C11
