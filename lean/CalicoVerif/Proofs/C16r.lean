import CalicoVerif.Proofs.C16q
set_option linter.unusedSimpArgs false
namespace CalicoVerif.C16

/-- The part of Felix's state that concerns one set name. -/
def SN (F : Felix) (n : String) : Option Meta × Option MT × Bool := (F.dp.get n, F.members.get n, decide (n ∈ F.dirty))

/-- Fields no resync step touches. -/
def Fixed (F F' : Felix) : Prop :=
  F'.allMeta = F.allMeta ∧ F'.desired = F.desired ∧ F'.filter = F.filter ∧ F'.fullReq = F.fullReq

theorem Fixed.refl (F : Felix) : Fixed F F := ⟨rfl, rfl, rfl, rfl⟩
theorem Fixed.trans {a b c : Felix} (h1 : Fixed a b) (h2 : Fixed b c) : Fixed a c :=
  ⟨h2.1.trans h1.1, h2.2.1.trans h1.2.1, h2.2.2.1.trans h1.2.2.1, h2.2.2.2.trans h1.2.2.2⟩

theorem updateDirtiness_eq (F : Felix) (m : String) : ∃ d, F.updateDirtiness m = { F with dirty := d } ∧
    (∀ n, n ≠ m → (n ∈ d ↔ n ∈ F.dirty)) := by
  unfold Felix.updateDirtiness
  split
  · exact ⟨_, rfl, fun n hn => by simp [mem_sErase_iff, hn]⟩
  · split
    · exact ⟨_, rfl, fun n hn => by simp [mem_sErase_iff, hn]⟩
    · split
      · exact ⟨_, rfl, fun n hn => by simp [mem_sErase_iff, hn]⟩
      · exact ⟨_, rfl, fun n hn => by simp [mem_sAdd, hn]⟩

theorem updateDirtiness_SN (F : Felix) {m n : String} (h : n ≠ m) : SN (F.updateDirtiness m) n = SN F n := by
  obtain ⟨d, hd, hmem⟩ := updateDirtiness_eq F m
  rw [hd]
  simp only [SN, Prod.mk.injEq, true_and, decide_eq_decide]
  exact hmem n h

theorem updateDirtiness_fixed (F : Felix) (m : String) : Fixed F (F.updateDirtiness m) := by
  obtain ⟨d, hd, _⟩ := updateDirtiness_eq F m
  rw [hd]; exact ⟨rfl, rfl, rfl, rfl⟩

/-- After `updateDirtiness n`, a needed set that is not marked dirty is in sync. -/
def FreshDirty (F : Felix) (n : String) : Prop :=
  n ∉ F.dirty → ∀ t, F.members.get n = some t → t.inSync = true

theorem updateDirtiness_fresh (F : Felix) (n : String) (hneed : F.needed n = true) :
    FreshDirty (F.updateDirtiness n) n ∧ (F.updateDirtiness n).members = F.members ∧
    (F.updateDirtiness n).dp = F.dp := by
  unfold Felix.updateDirtiness
  split
  · rename_i hnone
    refine ⟨?_, rfl, rfl⟩
    intro _ t ht
    simp only at ht
    rw [hnone] at ht; simp at ht
  · rename_i t0 ht0
    simp only [hneed, Bool.not_true, Bool.false_eq_true, if_false]
    split
    · rename_i hs
      refine ⟨?_, rfl, rfl⟩
      intro _ t ht
      simp only at ht
      rw [ht0] at ht; simp only [Option.some.injEq] at ht; subst ht; exact hs
    · refine ⟨?_, rfl, rfl⟩
      intro hnd
      exfalso; apply hnd
      simp [mem_sAdd]

theorem qAdd_SN (F : Felix) (m : String) (b : Bool) (n : String) : SN (F.qAdd m b) n = SN F n := by
  unfold Felix.qAdd
  split
  · rfl
  · split
    · split <;> rfl
    · split <;> rfl

theorem qAdd_fixed (F : Felix) (m : String) (b : Bool) : Fixed F (F.qAdd m b) := by
  unfold Felix.qAdd
  split
  · exact Fixed.refl F
  · split
    · split <;> exact ⟨rfl, rfl, rfl, rfl⟩
    · split <;> exact ⟨rfl, rfl, rfl, rfl⟩

theorem onMissing_SN (F : Felix) {m n : String} (h : n ≠ m) : SN (F.onMissing m) n = SN F n := by
  unfold Felix.onMissing
  dsimp only
  have e1 : ∀ G : Felix, SN (G.qRemove m) n = SN G n := fun G => rfl
  rw [e1, updateDirtiness_SN _ h]
  split
  · simp [SN, Map.get_erase, h]
  · split
    · simp [SN, Map.get_erase, h]
    · simp [SN, Map.get_erase, Map.get_set, h]

theorem onMissing_fixed (F : Felix) (m : String) : Fixed F (F.onMissing m) := by
  unfold Felix.onMissing
  dsimp only
  refine Fixed.trans ?_ (Fixed.trans (updateDirtiness_fixed _ m) ⟨rfl, rfl, rfl, rfl⟩)
  split
  · exact ⟨rfl, rfl, rfl, rfl⟩
  · split <;> exact ⟨rfl, rfl, rfl, rfl⟩

theorem needed_congr {F F' : Felix} (h : F'.filter = F.filter) (n : String) : F'.needed n = F.needed n := by
  unfold Felix.needed; rw [h]

theorem onMissing_self (F : Felix) {n : String} {t : MT} (ha : F.allMeta.has n = true)
    (ht : F.members.get n = some t) (hneed : F.needed n = true) :
    (F.onMissing n).dp.get n = none ∧ (F.onMissing n).members.get n = some { t with dp := [] } ∧
    FreshDirty (F.onMissing n) n := by
  unfold Felix.onMissing
  dsimp only
  simp only [ht, ha, Bool.not_true, Bool.false_eq_true, if_false]
  have hn2 : ({ F with dp := F.dp.erase n, members := F.members.set n { t with dp := [] } } : Felix).needed n = true := by
    exact hneed
  obtain ⟨hfresh, hmem, hdp⟩ := updateDirtiness_fresh
    ({ F with dp := F.dp.erase n, members := F.members.set n { t with dp := [] } } : Felix) n hn2
  refine ⟨?_, ?_, ?_⟩
  · show (Felix.updateDirtiness _ n).dp.get n = none
    rw [hdp]; simp [Map.get_erase]
  · show (Felix.updateDirtiness _ n).members.get n = _
    rw [hmem]; simp [Map.get_set]
  · intro hnd t' ht'
    exact hfresh hnd t' ht'

end CalicoVerif.C16
