import CalicoVerif.Proofs.C02Spec
/-! IP-set part of the C02 invariant: upstream calls. -/
namespace CalicoVerif.C02

@[simp] theorem mem_discardKey {md : MD} {k id m : String} :
    (k, m) ∈ MD.discardKey md id ↔ (k, m) ∈ md ∧ k ≠ id := by
  simp [MD.discardKey]

@[simp] theorem mem_put {md : MD} {k k' m m' : String} :
    (k', m') ∈ MD.put md k m ↔ (k' = k ∧ m' = m) ∨ (k', m') ∈ md := by
  simp [MD.put]

@[simp] theorem mem_discard {md : MD} {k k' m m' : String} :
    (k', m') ∈ MD.discard md k m ↔ (k', m') ∈ md ∧ ¬ (k' = k ∧ m' = m) := by
  simp [MD.discard]

theorem has_iff {md : MD} {k m : String} : MD.has md k m = true ↔ (k, m) ∈ md := by simp [MD.has]

/-- `OnIPSetAdded` on a set that upstream had not declared: no panic, invariant kept. -/
theorem IpsInv.ipsetAdded {a : List (String × Nat)} {r : List String} {am rm : MD} {st : List String} {U D}
    (h : IpsInv ⟨a, r, am, rm, st⟩ U D) (id : String) (typ : Nat) (hv : U id = none) :
    ¬ (id ∈ st ∧ id ∉ r) ∧
    IpsInv ⟨mset id typ a, sdel id r, am.discardKey id, rm.discardKey id, st⟩ (fupd U id (some (fun _ => false))) D := by
  obtain ⟨hsent, hdecl, hrs, hrn, hrna, han, hnew, hold, hmd⟩ := h
  dsimp only at hsent hdecl hrs hrn hrna han hnew hold hmd
  have hd := hdecl id
  rw [hv] at hd
  simp only [Option.isSome_none, Bool.false_eq_true, false_iff, not_or] at hd
  refine ⟨hd.2, ⟨hsent, ?_, ?_, nodup_sdel hrn, ?_, mkeys_mset_nodup han, ?_, ?_, ?_⟩⟩ <;> dsimp only
  · intro k
    by_cases hk : k = id
    · subst hk; simp [fupd, mget_mset]
    · simp only [fupd, hk, if_false, mget_mset, mem_sdel, ne_eq, not_false_eq_true, and_true]
      exact hdecl k
  · intro k hk; simp only [mem_sdel] at hk; exact hrs k hk.1
  · intro k hk
    simp only [mem_sdel] at hk
    simp only [mget_mset, hk.2, if_false]
    exact hrna k hk.1
  · intro k fu hu ha
    by_cases hk : k = id
    · subst hk
      simp only [fupd, if_true, Option.some.injEq] at hu
      subst hu
      simp
    · simp only [fupd, hk, if_false] at hu
      simp only [mget_mset, hk, if_false] at ha
      have := hnew k fu hu ha
      simp only [mem_discardKey, ne_eq, hk, not_false_eq_true, and_true]
      exact this
  · intro k fu hu ha
    by_cases hk : k = id
    · subst hk; simp [mget_mset] at ha
    · simp only [fupd, hk, if_false] at hu
      simp only [mget_mset, hk, if_false] at ha
      have := hold k fu hu ha
      simp only [mem_discardKey, ne_eq, hk, not_false_eq_true, and_true]
      exact this
  · intro k m hm
    simp only [mem_discardKey] at hm
    by_cases hk : k = id
    · simp [fupd, hk]
    · simp only [fupd, hk, if_false]
      exact hmd k m (by rcases hm with a | a; exact Or.inl a.1; exact Or.inr a.1)

/-- `OnIPSetRemoved` on a declared set: known to the sequencer (no panic), invariant kept. -/
theorem IpsInv.ipsetRemoved {a : List (String × Nat)} {r : List String} {am rm : MD} {st : List String} {U D}
    (h : IpsInv ⟨a, r, am, rm, st⟩ U D) (id : String) (hv : (U id).isSome) :
    (id ∈ st ∨ (mget a id).isSome) ∧
    IpsInv ⟨mdel id a, if id ∈ st then sadd id r else r, am.discardKey id, rm.discardKey id, st⟩ (fupd U id none) D := by
  obtain ⟨hsent, hdecl, hrs, hrn, hrna, han, hnew, hold, hmd⟩ := h
  dsimp only at hsent hdecl hrs hrn hrna han hnew hold hmd
  have hd := (hdecl id).1 hv
  refine ⟨by rcases hd with x | x; exact Or.inr x; exact Or.inl x.1,
    ⟨hsent, ?_, ?_, ?_, ?_, mkeys_mdel_nodup han, ?_, ?_, ?_⟩⟩ <;> dsimp only
  · intro k
    by_cases hk : k = id
    · subst hk
      by_cases hs : k ∈ st <;> simp [fupd, mget_mdel, hs]
    · simp only [fupd, hk, if_false, mget_mdel]
      rw [hdecl k]
      by_cases hs : id ∈ st <;> simp [hs, hk]
  · intro k hk
    by_cases hs : id ∈ st
    · simp only [hs, if_true, mem_sadd] at hk
      rcases hk with rfl | hk
      · exact hs
      · exact hrs k hk
    · simp only [hs, if_false] at hk; exact hrs k hk
  · by_cases hs : id ∈ st
    · simp only [hs, if_true]; exact nodup_sadd hrn
    · simp only [hs, if_false]; exact hrn
  · intro k hk
    rw [mget_mdel]
    by_cases hk' : k = id
    · simp [hk']
    · simp only [hk', if_false]
      by_cases hs : id ∈ st
      · simp only [hs, if_true, mem_sadd, hk', false_or] at hk; exact hrna k hk
      · simp only [hs, if_false] at hk; exact hrna k hk
  · intro k fu hu ha
    by_cases hk : k = id
    · subst hk; simp [fupd] at hu
    · simp only [fupd, hk, if_false] at hu
      simp only [mget_mdel, hk, if_false] at ha
      have := hnew k fu hu ha
      simp only [mem_discardKey, ne_eq, hk, not_false_eq_true, and_true]
      exact this
  · intro k fu hu ha
    by_cases hk : k = id
    · subst hk; simp [fupd] at hu
    · simp only [fupd, hk, if_false] at hu
      simp only [mget_mdel, hk, if_false] at ha
      have := hold k fu hu ha
      simp only [mem_discardKey, ne_eq, hk, not_false_eq_true, and_true]
      exact this
  · intro k m hm
    simp only [mem_discardKey] at hm
    have hk : k ≠ id := by rcases hm with x | x <;> exact x.2
    simp only [fupd, hk, if_false]
    exact hmd k m (by rcases hm with x | x; exact Or.inl x.1; exact Or.inr x.1)

/-- `OnIPSetMemberAdded` of an absent member of a declared set. -/
theorem IpsInv.memberAdded {a : List (String × Nat)} {r : List String} {am rm : MD} {st : List String} {U D}
    (h : IpsInv ⟨a, r, am, rm, st⟩ U D) (id m : String) (f : String → Bool) (hv : U id = some f) (hm : f m = false) :
    (id ∈ st ∨ (mget a id).isSome) ∧
    IpsInv ⟨a, r, if rm.has id m then am else am.put id m, if rm.has id m then rm.discard id m else rm, st⟩
      (fupd U id (some (fun m' => f m' || decide (m' = m)))) D := by
  obtain ⟨hsent, hdecl, hrs, hrn, hrna, han, hnew, hold, hmd⟩ := h
  dsimp only at hsent hdecl hrs hrn hrna han hnew hold hmd
  have hd := (hdecl id).1 (by simp [hv])
  have hdeclU : ∀ k, ((fupd U id (some (fun m' => f m' || decide (m' = m)))) k).isSome ↔ (U k).isSome := by
    intro k; by_cases hk : k = id <;> simp [fupd, hk, hv]
  refine ⟨by rcases hd with x | x; exact Or.inr x; exact Or.inl x.1, ?_⟩
  cases hh : rm.has id m
  · -- not pending-removed: the member goes to pendingAddedIPSetMembers
    have hin : (id, m) ∉ rm := fun x => by simp [MD.has, x] at hh
    simp only [Bool.false_eq_true, if_false]
    refine ⟨hsent, fun k => (hdeclU k).trans (hdecl k), hrs, hrn, hrna, han, ?_, ?_, ?_⟩ <;> dsimp only
    · intro k fu hu ha
      by_cases hk : k = id
      · subst hk
        simp only [fupd, if_true, Option.some.injEq] at hu
        subst hu
        have hn := hnew k f hv ha
        refine ⟨fun m' => ?_, hn.2⟩
        simp only [Bool.or_eq_true, decide_eq_true_eq, hn.1 m', mem_put, true_and]
        exact or_comm
      · simp only [fupd, hk, if_false] at hu
        have hn := hnew k fu hu ha
        refine ⟨fun m' => ?_, hn.2⟩
        rw [hn.1 m']; simp [hk]
    · intro k fu hu ha
      by_cases hk : k = id
      · subst hk
        simp only [fupd, if_true, Option.some.injEq] at hu
        subst hu
        obtain ⟨fd, hD, h1, h2, h3⟩ := hold k f hv ha
        have hfdm : fd m = false := by
          have := (not_congr (h1 m)).1 (by simp [hm])
          simp only [not_or, not_and, Decidable.not_not] at this
          cases hfd : fd m
          · rfl
          · exact absurd (this.1 hfd) hin
        refine ⟨fd, hD, ?_, ?_, h3⟩
        · intro m'
          simp only [Bool.or_eq_true, decide_eq_true_eq, h1 m', mem_put, true_and]
          constructor
          · rintro ((x | x) | x)
            · exact Or.inl x
            · exact Or.inr (Or.inr x)
            · exact Or.inr (Or.inl x)
          · rintro (x | x | x)
            · exact Or.inl (Or.inl x)
            · exact Or.inr x
            · exact Or.inl (Or.inr x)
        · intro m' hm'
          simp only [mem_put, true_and] at hm'
          rcases hm' with x | x
          · subst x; exact hfdm
          · exact h2 m' x
      · simp only [fupd, hk, if_false] at hu
        obtain ⟨fd, hD, h1, h2, h3⟩ := hold k fu hu ha
        refine ⟨fd, hD, ?_, ?_, h3⟩
        · intro m'; rw [h1 m']; simp [hk]
        · intro m' hm'
          simp only [mem_put, hk, false_and, false_or] at hm'; exact h2 m' hm'
    · intro k m' hm'
      rw [hdeclU]
      simp only [mem_put] at hm'
      rcases hm' with (⟨rfl, _⟩ | x) | x
      · simp [hv]
      · exact hmd k m' (Or.inl x)
      · exact hmd k m' (Or.inr x)
  · -- pending-removed: the pending removal is cancelled
    have hin : (id, m) ∈ rm := has_iff.1 hh
    simp only [if_true]
    refine ⟨hsent, fun k => (hdeclU k).trans (hdecl k), hrs, hrn, hrna, han, ?_, ?_, ?_⟩ <;> dsimp only
    · intro k fu hu ha
      by_cases hk : k = id
      · subst hk
        exact absurd hin ((hnew k f hv ha).2 m)
      · simp only [fupd, hk, if_false] at hu
        have hn := hnew k fu hu ha
        refine ⟨hn.1, fun m' => ?_⟩
        simp only [mem_discard, not_and]; exact fun x => absurd x (hn.2 m')
    · intro k fu hu ha
      by_cases hk : k = id
      · subst hk
        simp only [fupd, if_true, Option.some.injEq] at hu
        subst hu
        obtain ⟨fd, hD, h1, h2, h3⟩ := hold k f hv ha
        refine ⟨fd, hD, ?_, h2, fun m' hm' => h3 m' (mem_discard.1 hm').1⟩
        intro m'
        simp only [Bool.or_eq_true, decide_eq_true_eq, h1 m', mem_discard, true_and, not_and, Decidable.not_not]
        by_cases hmm : m' = m
        · subst hmm; simp [h3 m' hin]
        · simp [hmm]
      · simp only [fupd, hk, if_false] at hu
        obtain ⟨fd, hD, h1, h2, h3⟩ := hold k fu hu ha
        refine ⟨fd, hD, ?_, h2, fun m' hm' => h3 m' (mem_discard.1 hm').1⟩
        intro m'; rw [h1 m']; simp [hk]
    · intro k m' hm'
      rw [hdeclU]
      simp only [mem_discard] at hm'
      exact hmd k m' (by rcases hm' with x | x; exact Or.inl x; exact Or.inr x.1)

/-- `OnIPSetMemberRemoved` of a present member of a declared set. -/
theorem IpsInv.memberRemoved {a : List (String × Nat)} {r : List String} {am rm : MD} {st : List String} {U D}
    (h : IpsInv ⟨a, r, am, rm, st⟩ U D) (id m : String) (f : String → Bool) (hv : U id = some f) (hm : f m = true) :
    (id ∈ st ∨ (mget a id).isSome) ∧
    IpsInv ⟨a, r, if am.has id m then am.discard id m else am, if am.has id m then rm else rm.put id m, st⟩
      (fupd U id (some (fun m' => f m' && !decide (m' = m)))) D := by
  obtain ⟨hsent, hdecl, hrs, hrn, hrna, han, hnew, hold, hmd⟩ := h
  dsimp only at hsent hdecl hrs hrn hrna han hnew hold hmd
  have hd := (hdecl id).1 (by simp [hv])
  have hdeclU : ∀ k, ((fupd U id (some (fun m' => f m' && !decide (m' = m)))) k).isSome ↔ (U k).isSome := by
    intro k; by_cases hk : k = id <;> simp [fupd, hk, hv]
  refine ⟨by rcases hd with x | x; exact Or.inr x; exact Or.inl x.1, ?_⟩
  cases hh : am.has id m
  · -- not pending-added: the removal is queued
    have hin : (id, m) ∉ am := fun x => by simp [MD.has, x] at hh
    simp only [Bool.false_eq_true, if_false]
    refine ⟨hsent, fun k => (hdeclU k).trans (hdecl k), hrs, hrn, hrna, han, ?_, ?_, ?_⟩ <;> dsimp only
    · intro k fu hu ha
      by_cases hk : k = id
      · subst hk
        exact absurd (((hnew k f hv ha).1 m).1 hm) hin
      · simp only [fupd, hk, if_false] at hu
        have hn := hnew k fu hu ha
        refine ⟨hn.1, fun m' => ?_⟩
        simp only [mem_put, hk, false_and, false_or]; exact hn.2 m'
    · intro k fu hu ha
      by_cases hk : k = id
      · subst hk
        simp only [fupd, if_true, Option.some.injEq] at hu
        subst hu
        obtain ⟨fd, hD, h1, h2, h3⟩ := hold k f hv ha
        have hfdm : fd m = true ∧ (k, m) ∉ rm := by
          rcases (h1 m).1 hm with x | x
          · exact x
          · exact absurd x hin
        refine ⟨fd, hD, ?_, h2, ?_⟩
        · intro m'
          simp only [Bool.and_eq_true, Bool.not_eq_true', decide_eq_false_iff_not, h1 m', mem_put, true_and, not_or]
          by_cases hmm : m' = m
          · subst hmm; simp [hin]
          · simp [hmm]
        · intro m' hm'
          simp only [mem_put, true_and] at hm'
          rcases hm' with x | x
          · subst x; exact hfdm.1
          · exact h3 m' x
      · simp only [fupd, hk, if_false] at hu
        obtain ⟨fd, hD, h1, h2, h3⟩ := hold k fu hu ha
        refine ⟨fd, hD, ?_, h2, ?_⟩
        · intro m'; rw [h1 m']; simp [hk]
        · intro m' hm'
          simp only [mem_put, hk, false_and, false_or] at hm'; exact h3 m' hm'
    · intro k m' hm'
      rw [hdeclU]
      simp only [mem_put] at hm'
      rcases hm' with x | (⟨rfl, _⟩ | x)
      · exact hmd k m' (Or.inl x)
      · simp [hv]
      · exact hmd k m' (Or.inr x)
  · -- pending-added: the pending add is cancelled
    have hin : (id, m) ∈ am := has_iff.1 hh
    simp only [if_true]
    refine ⟨hsent, fun k => (hdeclU k).trans (hdecl k), hrs, hrn, hrna, han, ?_, ?_, ?_⟩ <;> dsimp only
    · intro k fu hu ha
      by_cases hk : k = id
      · subst hk
        simp only [fupd, if_true, Option.some.injEq] at hu
        subst hu
        have hn := hnew k f hv ha
        refine ⟨fun m' => ?_, hn.2⟩
        simp only [Bool.and_eq_true, Bool.not_eq_true', decide_eq_false_iff_not, hn.1 m', mem_discard, true_and]
      · simp only [fupd, hk, if_false] at hu
        have hn := hnew k fu hu ha
        refine ⟨fun m' => ?_, hn.2⟩
        rw [hn.1 m']; simp [hk]
    · intro k fu hu ha
      by_cases hk : k = id
      · subst hk
        simp only [fupd, if_true, Option.some.injEq] at hu
        subst hu
        obtain ⟨fd, hD, h1, h2, h3⟩ := hold k f hv ha
        refine ⟨fd, hD, ?_, fun m' hm' => h2 m' (mem_discard.1 hm').1, h3⟩
        intro m'
        simp only [Bool.and_eq_true, Bool.not_eq_true', decide_eq_false_iff_not, h1 m', mem_discard, true_and]
        by_cases hmm : m' = m
        · subst hmm
          have := h2 m' hin
          simp [this]
        · simp [hmm]
      · simp only [fupd, hk, if_false] at hu
        obtain ⟨fd, hD, h1, h2, h3⟩ := hold k fu hu ha
        refine ⟨fd, hD, ?_, fun m' hm' => h2 m' (mem_discard.1 hm').1, h3⟩
        intro m'; rw [h1 m']; simp [hk]
    · intro k m' hm'
      rw [hdeclU]
      simp only [mem_discard] at hm'
      exact hmd k m' (by rcases hm' with x | x; exact Or.inl x.1; exact Or.inr x)

end CalicoVerif.C02
