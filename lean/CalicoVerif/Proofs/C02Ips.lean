import CalicoVerif.Proofs.C02Spec
/-! IP-set part of the C02 invariant: upstream calls. -/
namespace CalicoVerif.C02

@[simp] theorem mem_discardKey {md : MD} {k id m : String} :
    (k, m) ∈ MD.discardKey md id ↔ (k, m) ∈ md ∧ k ≠ id := by
  simp [MD.discardKey]

@[simp] theorem mem_put {md : MD} {k k' m m' : String} :
    (k', m') ∈ MD.put md k m ↔ (k' = k ∧ m' = m) ∨ (k', m') ∈ md := by
  simp [MD.put]

@[simp] theorem mem_discard {md : MD} {k k' m m' : String} :
    (k', m') ∈ MD.discard md k m ↔ (k', m') ∈ md ∧ ¬ (k' = k ∧ m' = m) := by
  simp [MD.discard]

theorem has_iff {md : MD} {k m : String} : MD.has md k m = true ↔ (k, m) ∈ md := by simp [MD.has]

/-- `OnIPSetAdded` on a set that upstream had not declared: no panic, invariant kept. -/
theorem IpsInv.ipsetAdded {s : State} {U D} (h : IpsInv s.ipsSt U D) (id : String) (typ : Nat) (hv : U id = none) :
    ∃ s', s.call (.ipsetAdded id typ) = some s' ∧ IpsInv s'.ipsSt (fupd U id (some (fun _ => false))) D ∧
      s'.pol = s.pol ∧ s'.prof = s.prof ∧ s'.ep = s.ep ∧ s'.vtep = s.vtep ∧ s'.route = s.route ∧ s'.gen = s.gen := by
  have hd := (h.decl id)
  rw [hv] at hd
  simp only [Option.isSome_none, Bool.false_eq_true, false_iff, not_or, not_and, Decidable.not_not] at hd
  have hnp : ¬ (id ∈ s.sentSets ∧ id ∉ s.removedSets) := fun ⟨a, b⟩ => b (hd.2 a)
  refine ⟨_, ?_, ?_, rfl, rfl, rfl, rfl, rfl, rfl⟩
  · simp only [State.call]
    by_cases h1 : id ∈ s.sentSets
    · have := hd.2 h1; simp [h1, this]
    · simp [h1]
  · simp only [State.ipsSt] at h ⊢
    refine ⟨h.sent, ?_, ?_, nodup_sdel h.remNodup, ?_, mkeys_mset_nodup h.addNodup, ?_, ?_, ?_⟩
    · intro k
      by_cases hk : k = id
      · subst hk; simp [fupd, mget_mset]
      · simp only [fupd, hk, if_false, mget_mset, mem_sdel, ne_eq, not_false_eq_true, and_true]
        exact h.decl k
    · intro k hk; simp only [mem_sdel] at hk; exact h.remSent k hk.1
    · intro k hk
      simp only [mem_sdel] at hk
      simp only [mget_mset, hk.2, if_false]
      exact h.remNotAdded k hk.1
    · intro k fu hu ha
      by_cases hk : k = id
      · subst hk
        simp only [fupd, if_true, Option.some.injEq] at hu
        subst hu
        simp
      · simp only [fupd, hk, if_false] at hu
        simp only [mget_mset, hk, if_false] at ha
        have := h.memNew k fu hu ha
        simp only [mem_discardKey, ne_eq, hk, not_false_eq_true, and_true]
        exact this
    · intro k fu hu ha
      by_cases hk : k = id
      · subst hk; simp [mget_mset] at ha
      · simp only [fupd, hk, if_false] at hu
        simp only [mget_mset, hk, if_false] at ha
        have := h.memOld k fu hu ha
        simp only [mem_discardKey, ne_eq, hk, not_false_eq_true, and_true]
        exact this
    · intro k m hm
      simp only [mem_discardKey] at hm
      by_cases hk : k = id
      · simp [fupd, hk]
      · simp only [fupd, hk, if_false]
        exact h.memDecl k m (by rcases hm with a | a; exact Or.inl a.1; exact Or.inr a.1)

end CalicoVerif.C02
