import CalicoVerif.Proofs.C15m
set_option linter.unusedSimpArgs false
namespace CalicoVerif.C15

/-- What the refcounting API may do to the part of the table state that the convergence argument looks at: the
cache of programmed hashes is untouched, dirty chains stay dirty, and the desired state of every chain that is
not dirty afterwards is what it was. -/
structure Grow (a b : T) : Prop where
  dpHashes : b.dpHashes = a.dpHashes
  prefixes : b.prefixes = a.prefixes
  dirtyIA : b.dirtyIA = a.dirtyIA
  mono : ∀ c, c ∈ a.dirty → c ∈ b.dirty
  des : ∀ c, c ∉ b.dirty → b.desiredChain c = a.desiredChain c
  nodup : a.dirty.Nodup → b.dirty.Nodup

theorem Grow.refl (a : T) : Grow a a := ⟨rfl, rfl, rfl, fun _ h => h, fun _ _ => rfl, fun h => h⟩

theorem Grow.trans {a b c : T} (h1 : Grow a b) (h2 : Grow b c) : Grow a c :=
  ⟨h2.dpHashes.trans h1.dpHashes, h2.prefixes.trans h1.prefixes, h2.dirtyIA.trans h1.dirtyIA,
   fun x hx => h2.mono x (h1.mono x hx),
   fun x hx => (h2.des x hx).trans (h1.des x (fun h => hx (h2.mono x h))),
   fun h => h2.nodup (h1.nodup h)⟩

theorem Grow.fold (step : T → String → T) (hstep : ∀ t x, Grow t (step t x)) :
    ∀ (L : List String) (t : T), Grow t (L.foldl step t) := by
  intro L
  induction L with
  | nil => intro t; exact Grow.refl t
  | cons x L ih => intro t; exact (hstep t x).trans (ih _)

theorem desiredChain_congr {a b : T} (hc : b.chains = a.chains) (c : String) (hr : b.refd c = a.refd c) :
    b.desiredChain c = a.desiredChain c := by
  unfold T.desiredChain; rw [hr, hc]

theorem incref_grow : ∀ (f : Nat) (t : T) (n : String), Grow t (T.incref f t n) := by
  intro f
  induction f with
  | zero => intro t n; exact Grow.refl t
  | succ f ih =>
    intro t n
    unfold T.incref
    dsimp only
    by_cases h1 : ((t.refc.get n).getD 0 + 1 == 1) = true
    · rw [if_pos h1]
      -- the chain becomes referenced: it is marked dirty
      have g1 : Grow t { t with refc := t.refc.set n ((t.refc.get n).getD 0 + 1), dirty := sAdd t.dirty n } := by
        refine ⟨rfl, rfl, rfl, fun c hc => mem_sAdd.2 (Or.inl hc), ?_, fun h => sAdd_nodup h n⟩
        intro c hc
        have hcn : c ≠ n := fun e => hc (mem_sAdd.2 (Or.inr e))
        refine desiredChain_congr (a := t) (by rfl) c ?_
        simp only [T.refd, Map.get_set, hcn, if_false]
      refine g1.trans ?_
      split
      · exact Grow.fold _ (fun t x => ih t x) _ _
      · exact Grow.refl _
    · rw [if_neg h1]
      refine ⟨rfl, rfl, rfl, fun _ h => h, ?_, fun h => h⟩
      intro c _
      refine desiredChain_congr (a := t) (by rfl) c ?_
      simp only [T.refd, Map.get_set]
      by_cases hcn : c = n
      · subst hcn
        simp only [if_true, Option.getD_some]
        have : (t.refc.get c).getD 0 + 1 ≠ 1 := by simpa using h1
        generalize (t.refc.get c).getD 0 = v at this ⊢
        have hv : v ≠ 0 := fun e => this (by rw [e]; rfl)
        by_cases hp : v > 0
        · simp [hp]; omega
        · simp [hp]; omega
      · simp only [hcn, if_false]

theorem decref_grow : ∀ (f : Nat) (t : T) (n : String), Grow t (T.decref f t n) := by
  intro f
  induction f with
  | zero => intro t n; exact Grow.refl t
  | succ f ih =>
    intro t n
    unfold T.decref
    by_cases h1 : ((t.refc.get n).getD 0 == 1) = true
    · rw [if_pos h1]
      have last : ∀ t1 : T, Grow t1 { t1 with refc := t1.refc.erase n, dirty := sAdd t1.dirty n } := by
        intro t1
        refine ⟨rfl, rfl, rfl, fun c hc => mem_sAdd.2 (Or.inl hc), ?_, fun h => sAdd_nodup h n⟩
        intro c hc
        have hcn : c ≠ n := fun e => hc (mem_sAdd.2 (Or.inr e))
        refine desiredChain_congr (a := t1) (by rfl) c ?_
        simp only [T.refd, Map.get_erase, hcn, if_false]
      cases hch : t.chains.get n with
      | none => exact last t
      | some ch =>
        dsimp only
        exact (Grow.fold _ (fun t x => ih t x) _ _).trans (last _)
    · rw [if_neg h1]
      refine ⟨rfl, rfl, rfl, fun _ h => h, ?_, fun h => h⟩
      intro c _
      refine desiredChain_congr (a := t) (by rfl) c ?_
      simp only [T.refd, Map.get_set]
      by_cases hcn : c = n
      · subst hcn
        simp only [if_true, Option.getD_some]
        have : (t.refc.get c).getD 0 ≠ 1 := by simpa using h1
        generalize (t.refc.get c).getD 0 = v at this ⊢
        by_cases hp : v > 0
        · simp [hp]; omega
        · simp [hp]; omega
      · simp only [hcn, if_false]

theorem maybeIncref_grow (t : T) (name : String) (rules : List DRule) : Grow t (t.maybeIncref name rules) := by
  unfold T.maybeIncref
  split
  · exact Grow.fold _ (fun t x => incref_grow fuel t x) _ _
  · exact Grow.refl _

theorem maybeDecref_grow (t : T) (name : String) (rules : List DRule) : Grow t (t.maybeDecref name rules) := by
  unfold T.maybeDecref
  split
  · exact Grow.fold _ (fun t x => decref_grow fuel t x) _ _
  · exact Grow.refl _

/-- The invariant of the table state that the convergence argument needs. -/
structure TInv (t : T) : Prop where
  cache : CacheOK t
  nodup : t.dirty.Nodup
  iaForeign : ∀ c, t.ours c = true → c ∉ t.dirtyIA

theorem Grow.ours {a b : T} (h : Grow a b) (c : String) : b.ours c = a.ours c := by
  unfold T.ours; rw [h.prefixes]

theorem TInv.grow {a b : T} (h : TInv a) (g : Grow a b) : TInv b := by
  refine ⟨?_, g.nodup h.nodup, ?_⟩
  · intro c ho hnd
    rw [g.dpHashes, g.des c hnd]
    exact h.cache c (by rw [← g.ours]; exact ho) (fun hd => hnd (g.mono c hd))
  · intro c ho
    rw [g.dirtyIA]; exact h.iaForeign c (by rw [← g.ours]; exact ho)

theorem invalidate_grow (t : T) : Grow t t.invalidate := ⟨rfl, rfl, rfl, fun _ h => h, fun _ _ => rfl, fun h => h⟩

/-- Last step of `UpdateChain`/`RemoveChainByName`: the chain map changes at `name`; `name` is marked dirty if it
is referenced. -/
theorem setChain_grow (t : T) (name : String) (cs : Map Chain) (hcs : ∀ c, c ≠ name → cs.get c = t.chains.get c) :
    Grow t (if ({ t with chains := cs } : T).refd name then ({ { t with chains := cs } with dirty := sAdd t.dirty name } : T).invalidate
            else { t with chains := cs }) := by
  by_cases hr : ({ t with chains := cs } : T).refd name = true
  · rw [if_pos hr]
    refine ⟨rfl, rfl, rfl, fun c hc => mem_sAdd.2 (Or.inl hc), ?_, fun h => sAdd_nodup h name⟩
    intro c hc
    have hcn : c ≠ name := fun e => hc (mem_sAdd.2 (Or.inr e))
    show (if t.refd c then cs.get c else none) = (if t.refd c then t.chains.get c else none)
    rw [hcs c hcn]
  · rw [if_neg hr]
    refine ⟨rfl, rfl, rfl, fun _ h => h, ?_, fun h => h⟩
    intro c _
    show (if t.refd c then cs.get c else none) = (if t.refd c then t.chains.get c else none)
    by_cases hcn : c = name
    · subst hcn
      have : t.refd c = false := by
        have : ({ t with chains := cs } : T).refd c = t.refd c := rfl
        rw [← this]; simpa using hr
      simp [this]
    · rw [hcs c hcn]

theorem updateChain_grow (t : T) (name : String) (ch : Chain) : Grow t (t.updateChain name ch) := by
  unfold T.updateChain
  dsimp only
  have g1 : Grow t (if ch.force then T.incref fuel t name else t) := by
    split
    · exact incref_grow _ _ _
    · exact Grow.refl _
  generalize (if ch.force then T.incref fuel t name else t) = t1 at g1 ⊢
  refine g1.trans ?_
  cases hch : t1.chains.get name with
  | none =>
    dsimp only
    exact (maybeIncref_grow t1 name ch.rules).trans
      (setChain_grow _ name _ (fun c hc => by rw [Map.get_set]; simp [hc]))
  | some old =>
    dsimp only
    have g2 : Grow t1 (if old.force then T.decref fuel t1 name else t1) := by
      split
      · exact decref_grow _ _ _
      · exact Grow.refl _
    have g3 := maybeIncref_grow (if old.force then T.decref fuel t1 name else t1) name ch.rules
    have g4 := maybeDecref_grow ((if old.force then T.decref fuel t1 name else t1).maybeIncref name ch.rules) name old.rules
    exact ((g2.trans g3).trans g4).trans (setChain_grow _ name _ (fun c hc => by rw [Map.get_set]; simp [hc]))

theorem removeChain_grow (t : T) (name : String) : Grow t (t.removeChain name) := by
  unfold T.removeChain
  cases hch : t.chains.get name with
  | none => exact Grow.refl _
  | some old =>
    dsimp only
    have g3 : Grow t (if old.force then T.decref fuel t name else t) := by
      split
      · exact decref_grow _ _ _
      · exact Grow.refl _
    have g4 := maybeDecref_grow (if old.force then T.decref fuel t name else t) name old.rules
    exact (g3.trans g4).trans (setChain_grow _ name _ (fun c hc => by rw [Map.get_erase]; simp [hc]))

theorem TInv.updateChain {t : T} (h : TInv t) (name : String) (ch : Chain) : TInv (t.updateChain name ch) :=
  h.grow (updateChain_grow t name ch)
theorem TInv.removeChain {t : T} (h : TInv t) (name : String) : TInv (t.removeChain name) :=
  h.grow (removeChain_grow t name)
theorem TInv.invalidate {t : T} (h : TInv t) : TInv t.invalidate := h.grow (invalidate_grow t)

theorem TInv.setInserts {t : T} (h : TInv t) (c : String) (rules : List DRule) (hc : t.ours c = false) :
    TInv (t.setInserts c rules) := by
  unfold T.setInserts
  dsimp only
  have h0 : TInv ({ t with ins := t.ins.set c rules, dirtyIA := sAdd t.dirtyIA c } : T) := by
    refine ⟨h.cache, h.nodup, ?_⟩
    intro x hx hm
    rcases mem_sAdd.1 hm with hm | rfl
    · exact h.iaForeign x hx hm
    · have : t.ours x = true := hx
      rw [hc] at this; simp at this
  exact ((h0.grow (maybeIncref_grow _ c rules)).grow (maybeDecref_grow _ c _)).invalidate

theorem TInv.setAppends {t : T} (h : TInv t) (c : String) (rules : List DRule) (hc : t.ours c = false) :
    TInv (t.setAppends c rules) := by
  unfold T.setAppends
  dsimp only
  have h0 : TInv ({ t with app := t.app.set c rules, dirtyIA := sAdd t.dirtyIA c } : T) := by
    refine ⟨h.cache, h.nodup, ?_⟩
    intro x hx hm
    rcases mem_sAdd.1 hm with hm | rfl
    · exact h.iaForeign x hx hm
    · have : t.ours x = true := hx
      rw [hc] at this; simp at this
  exact ((h0.grow (maybeIncref_grow _ c rules)).grow (maybeDecref_grow _ c _)).invalidate

/-- A new table (start of day, restart): nothing cached, nothing dirty among Felix's chains; the kernel chains
queued for their hook rules are not Felix's (the historic prefixes do not match INPUT/FORWARD/OUTPUT). -/
theorem TInv.new (prefixes : List String) (mode : Bool)
    (hk : ∀ c ∈ kernelChains, (T.new prefixes mode).ours c = false) : TInv (T.new prefixes mode) := by
  refine ⟨?_, List.nodup_nil, ?_⟩
  · intro c ho _
    show Map.get [] c = _
    have : (T.new prefixes mode).desiredChain c = none := by
      unfold T.desiredChain; split <;> rfl
    rw [this]; rfl
  · intro c ho hm
    have := hk c hm
    rw [ho] at this; simp at this

end CalicoVerif.C15
