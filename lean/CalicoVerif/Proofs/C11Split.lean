import CalicoVerif.Model.C11Sem
/-!
C11 — when program splitting is disabled (`policyMapStride = 0`, i.e.
`WithPolicyMapIndexAndStride` not given) and the program is shorter than the
trampoline stride, `expand` is the identity on the builder's plain events:
one block, no inserted trampolines.
-/
namespace CalicoVerif.C11

theorem raw_out (b : BlockSt) (e : Ev) : (b.raw e).out = e :: b.out := by
  cases e <;> simp only [BlockSt.raw] <;> (try split) <;> rfl

theorem raw_len (b : BlockSt) (e : Ev) : (b.raw e).len ≤ b.len + 1 := by
  cases e <;> simp only [BlockSt.raw] <;> (try split) <;> simp

theorem raw_lastTramp (b : BlockSt) (e : Ev) : (b.raw e).lastTrampAddr = b.lastTrampAddr := by
  cases e <;> simp only [BlockSt.raw] <;> (try split) <;> rfl

theorem add_eq_raw (stride : Nat) (b : BlockSt) (e : Ev) (h : b.len - b.lastTrampAddr < stride) :
    b.add stride e = b.raw e := by
  unfold BlockSt.add
  cases evOp e with
  | none => rfl
  | some op =>
    have : ¬ (b.len - b.lastTrampAddr ≥ stride) := by omega
    simp [this]

theorem maybeSplit_noSplit (c : Cfg) (xdp : Bool) (s : SplitSt) (reload : List Ev)
    (h : c.policyMapStride = 0) : s.maybeSplit c xdp reload = s := by
  unfold SplitSt.maybeSplit
  split
  · rfl
  · simp [h]

theorem foldl_noSplit (c : Cfg) (xdp : Bool) (h : c.policyMapStride = 0) :
    ∀ (bevs : List BEv) (s : SplitSt) (pre : List Ev),
      s.done = [] → s.cur.out = pre.reverse → s.cur.len ≤ pre.length → s.cur.lastTrampAddr = 0 →
      pre.length + (flat bevs).length < c.trampolineStride →
      let s' := bevs.foldl (SplitSt.step c xdp) s
      s'.done = [] ∧ s'.cur.out = (pre ++ flat bevs).reverse := by
  intro bevs
  induction bevs with
  | nil => intro s pre hd ho _ _ _; simp [flat, hd, ho]
  | cons b bs ih =>
    intro s pre hd ho hl ht hlen
    cases b with
    | ev e =>
      simp only [List.foldl_cons, SplitSt.step, flat]
      simp only [flat, List.length_cons] at hlen
      have hadd : s.cur.add c.trampolineStride e = s.cur.raw e := by
        apply add_eq_raw; omega
      rw [hadd]
      have := ih { s with cur := s.cur.raw e } (pre ++ [e]) hd
        (by simp [raw_out, ho])
        (by have := raw_len s.cur e; simp only [List.length_append, List.length_cons, List.length_nil]; omega)
        (by simp [raw_lastTramp, ht])
        (by simp only [List.length_append, List.length_cons, List.length_nil]; omega)
      simpa using this
    | maybeSplit reload =>
      simp only [List.foldl_cons, SplitSt.step, flat, maybeSplit_noSplit c xdp s reload h]
      exact ih s pre hd ho hl ht (by simpa [flat] using hlen)

/-- Splitting disabled and program shorter than the trampoline stride: one block,
containing exactly the builder's plain events. -/
theorem expand_noSplit (c : Cfg) (xdp : Bool) (bevs : List BEv) (h : c.policyMapStride = 0)
    (hlen : (flat bevs).length < c.trampolineStride) : expand c xdp bevs = [flat bevs] := by
  unfold expand
  have := foldl_noSplit c xdp h bevs {} [] rfl rfl (Nat.le_refl _) rfl (by simpa using hlen)
  simp only [List.nil_append] at this
  obtain ⟨h1, h2⟩ := this
  simp [h1, h2]

end CalicoVerif.C11
