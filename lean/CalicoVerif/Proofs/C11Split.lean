import CalicoVerif.Model.C11Sem
/-!
C11 — when program splitting is disabled (`policyMapStride = 0`, i.e.
`WithPolicyMapIndexAndStride` not given) and the program is shorter than the
trampoline stride, `expand` is the identity on the builder's plain events:
one block, no inserted trampolines.
-/
namespace CalicoVerif.C11

theorem raw_out (b : BlockSt) (e : Ev) : (b.raw e).out = e :: b.out := by
  cases e <;> simp only [BlockSt.raw] <;> (try split) <;> rfl

theorem raw_len (b : BlockSt) (e : Ev) : (b.raw e).len ≤ b.len + 1 := by
  cases e <;> simp only [BlockSt.raw] <;> (try split) <;> simp

theorem raw_lastTramp (b : BlockSt) (e : Ev) : (b.raw e).lastTrampAddr = b.lastTrampAddr := by
  cases e <;> simp only [BlockSt.raw] <;> (try split) <;> rfl

theorem add_eq_raw (stride : Nat) (b : BlockSt) (e : Ev) (h : b.len - b.lastTrampAddr < stride) :
    b.add stride e = b.raw e := by
  unfold BlockSt.add
  cases evOp e with
  | none => rfl
  | some op =>
    have : ¬ (b.len - b.lastTrampAddr ≥ stride) := by omega
    simp [this]

theorem maybeSplit_noSplit (c : Cfg) (xdp : Bool) (s : SplitSt) (reload : List Ev)
    (h : c.policyMapStride = 0) : s.maybeSplit c xdp reload = s := by
  unfold SplitSt.maybeSplit
  split
  · rfl
  · simp [h]

theorem foldl_noSplit (c : Cfg) (xdp : Bool) (h : c.policyMapStride = 0) :
    ∀ (bevs : List BEv) (s : SplitSt) (pre : List Ev),
      s.done = [] → s.cur.out = pre.reverse → s.cur.len ≤ pre.length → s.cur.lastTrampAddr = 0 →
      pre.length + (flat bevs).length < c.trampolineStride →
      let s' := bevs.foldl (SplitSt.step c xdp) s
      s'.done = [] ∧ s'.cur.out = (pre ++ flat bevs).reverse := by
  intro bevs
  induction bevs with
  | nil => intro s pre hd ho _ _ _; simp [flat, hd, ho]
  | cons b bs ih =>
    intro s pre hd ho hl ht hlen
    cases b with
    | ev e =>
      simp only [List.foldl_cons, SplitSt.step, flat]
      simp only [flat, List.length_cons] at hlen
      have hadd : s.cur.add c.trampolineStride e = s.cur.raw e := by
        apply add_eq_raw; omega
      rw [hadd]
      have := ih { s with cur := s.cur.raw e } (pre ++ [e]) hd
        (by simp [raw_out, ho])
        (by have := raw_len s.cur e; simp only [List.length_append, List.length_cons, List.length_nil]; omega)
        (by simp [raw_lastTramp, ht])
        (by simp only [List.length_append, List.length_cons, List.length_nil]; omega)
      simpa using this
    | maybeSplit reload =>
      simp only [List.foldl_cons, SplitSt.step, flat, maybeSplit_noSplit c xdp s reload h]
      exact ih s pre hd ho hl ht (by simpa [flat] using hlen)

/-- Splitting disabled and program shorter than the trampoline stride: one block,
containing exactly the builder's plain events. -/
theorem expand_noSplit (c : Cfg) (xdp : Bool) (bevs : List BEv) (h : c.policyMapStride = 0)
    (hlen : (flat bevs).length < c.trampolineStride) : expand c xdp bevs = [flat bevs] := by
  unfold expand
  have := foldl_noSplit c xdp h bevs {} [] rfl rfl (Nat.le_refl _) rfl (by simpa using hlen)
  simp only [List.nil_append] at this
  obtain ⟨h1, h2⟩ := this
  simp [h1, h2]


/-! ### Splitting enabled but never triggered: fewer jumps than the per-program limit -/

/-- Number of jump-class instructions (conditional jumps, `JumpA`, `Call`, `Exit`) of an event list:
an upper bound for the `NumJumps` bookkeeping of the block. -/
def jumpCount : List Ev → Nat
  | [] => 0
  | .ins i :: r => (if i.isJumpClass then 1 else 0) + jumpCount r
  | .jmp i _ :: r => (if i.isJumpClass then 1 else 0) + jumpCount r
  | .label _ :: r => jumpCount r

theorem jumpCount_append (a b : List Ev) : jumpCount (a ++ b) = jumpCount a + jumpCount b := by
  induction a with
  | nil => simp [jumpCount]
  | cons e es ih => cases e <;> simp [jumpCount, ih, Nat.add_assoc]

theorem raw_numJumps (b : BlockSt) (e : Ev) : (b.raw e).numJumps ≤ b.numJumps + jumpCount [e] := by
  cases e <;> simp only [BlockSt.raw, jumpCount] <;> (try split) <;> simp

theorem maybeSplit_fewJumps (c : Cfg) (xdp : Bool) (s : SplitSt) (reload : List Ev)
    (h : s.cur.numJumps < c.maxJumps) : s.maybeSplit c xdp reload = s := by
  unfold SplitSt.maybeSplit
  simp [h]

theorem foldl_fewJumps (c : Cfg) (xdp : Bool) :
    ∀ (bevs : List BEv) (s : SplitSt) (pre : List Ev),
      s.done = [] → s.cur.out = pre.reverse → s.cur.len ≤ pre.length → s.cur.lastTrampAddr = 0 →
      s.cur.numJumps ≤ jumpCount pre →
      pre.length + (flat bevs).length < c.trampolineStride →
      jumpCount pre + jumpCount (flat bevs) < c.maxJumps →
      let s' := bevs.foldl (SplitSt.step c xdp) s
      s'.done = [] ∧ s'.cur.out = (pre ++ flat bevs).reverse := by
  intro bevs
  induction bevs with
  | nil => intro s pre hd ho _ _ _ _ _; simp [flat, hd, ho]
  | cons b bs ih =>
    intro s pre hd ho hl ht hj hlen hjc
    cases b with
    | ev e =>
      simp only [List.foldl_cons, SplitSt.step, flat]
      simp only [flat, List.length_cons] at hlen
      have hadd : s.cur.add c.trampolineStride e = s.cur.raw e := by
        apply add_eq_raw; omega
      rw [hadd]
      have hjc' : jumpCount (flat (BEv.ev e :: bs)) = jumpCount [e] + jumpCount (flat bs) := by
        rw [← jumpCount_append]; rfl
      have := ih { s with cur := s.cur.raw e } (pre ++ [e]) hd
        (by simp [raw_out, ho])
        (by have := raw_len s.cur e; simp only [List.length_append, List.length_cons, List.length_nil]; omega)
        (by simp [raw_lastTramp, ht])
        (by have := raw_numJumps s.cur e; rw [jumpCount_append]; simp only; omega)
        (by simp only [List.length_append, List.length_cons, List.length_nil]; omega)
        (by rw [jumpCount_append]; omega)
      simpa using this
    | maybeSplit reload =>
      simp only [List.foldl_cons, SplitSt.step, flat, maybeSplit_fewJumps c xdp s reload (by omega)]
      exact ih s pre hd ho hl ht hj (by simpa [flat] using hlen) (by simpa [flat] using hjc)

/-- Splitting ENABLED (any `policyMapStride`) but the program has fewer jump-class instructions
than the per-program limit and is shorter than the trampoline stride: still one block with exactly
the builder's plain events.  (The production case for all but huge policy sets.) -/
theorem expand_fewJumps (c : Cfg) (xdp : Bool) (bevs : List BEv) (hj : jumpCount (flat bevs) < c.maxJumps)
    (hlen : (flat bevs).length < c.trampolineStride) : expand c xdp bevs = [flat bevs] := by
  unfold expand
  have := foldl_fewJumps c xdp bevs {} [] rfl rfl (Nat.le_refl _) rfl (Nat.le_refl _) (by simpa using hlen)
    (by simpa [jumpCount] using hj)
  simp only [List.nil_append] at this
  obtain ⟨h1, h2⟩ := this
  simp [h1, h2]


/-- The program is not split: splitting is disabled, or it has fewer jump-class instructions than the
per-program limit. -/
def NoSplit (c : Cfg) (evs : List Ev) : Prop := c.policyMapStride = 0 ∨ jumpCount evs < c.maxJumps

theorem expand_one (c : Cfg) (xdp : Bool) (bevs : List BEv) (h : NoSplit c (flat bevs))
    (hlen : (flat bevs).length < c.trampolineStride) : expand c xdp bevs = [flat bevs] := by
  rcases h with h | h
  · exact expand_noSplit c xdp bevs h hlen
  · exact expand_fewJumps c xdp bevs h hlen

end CalicoVerif.C11
