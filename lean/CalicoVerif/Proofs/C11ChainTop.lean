import CalicoVerif.Proofs.C11ChainB
/-!
C11 — the chain theorem: the programs of a split build, run as a chain, end as the reference verdict
demands.
-/
namespace CalicoVerif.C11

/-- The policy body and the footer, as builder events. -/
def bodyB (c : Cfg) (r : Rules) : List BEv :=
  (hostPart c r).1 ++ (workloadPart c r (hostPart c r).2.1 (hostPart c r).2.2 ++ (footerEvs c r.forXDP).map BEv.ev)

theorem compile_bodyB (c : Cfg) (r : Rules) : compile c r = (headerEvs c).map BEv.ev ++ bodyB c r := by
  unfold compile bodyB
  cases hostPart c r with
  | mk h rt => cases rt with
    | mk a b => simp

theorem flat_bodyB (c : Cfg) (r : Rules) :
    flat (bodyB c r) = (flat (hostPart c r).1 ++ flat (workloadPart c r (hostPart c r).2.1 (hostPart c r).2.2)) ++
      footerEvs c r.forXDP := by
  simp [bodyB, flat_append, flat_map_ev]

/-- **The simulation invariant for the whole policy body.** -/
theorem GA.wholeBody (env : Env) (st : List Byte) (nmax : Nat) (he : ChainEnv env nmax) (r : Rules) (hok : ProgOK env st r) :
    GA env st r.forXDP nmax (verdictLabels r.forXDP) .none (bodyB env.c r) := by
  have hE : EOK r.forXDP (verdictLabels r.forXDP) := by
    refine ⟨?_, ?_, ?_⟩ <;> cases r.forXDP <;> simp [verdictLabels]
  have hNP : NoPart (verdictLabels r.forXDP) := by
    intro r' k; cases r.forXDP <;> simp [verdictLabels]
  have hd : Label.deny ∈ verdictLabels r.forXDP := by simp [verdictLabels]
  have ha : Label.allow ∈ verdictLabels r.forXDP := by simp [verdictLabels]
  have hx : r.forXDP = true → Label.xdpPass ∈ verdictLabels r.forXDP := by intro h; simp [verdictLabels, h]
  unfold bodyB
  exact GT.host he hok.ctx hE hNP r hd hx hok.gHP hok.gHF hok.gHN hok.gHPR _
    (GT.workload he hok.ctx hE hNP r _ _ ha hd hok.gT hok.gP _ (GA.footer env st r.forXDP nmax))

/-! ### One expected observation per outcome -/

theorem agrees_fields {e1 e2 o : Obs} (h1 : e1.agrees o = true) (h2 : e2.agrees o = true) :
    e1.kind = e2.kind ∧ e1.target = e2.target ∧ (e1.rc = none ∨ e2.rc = none ∨ e1.rc = e2.rc) := by
  simp only [Obs.agrees, Bool.and_eq_true, beq_iff_eq, Bool.or_eq_true, Option.isNone_iff_eq_none] at h1 h2
  refine ⟨h1.1.1.trans h2.1.1.symm, h1.1.2.trans h2.1.2.symm, ?_⟩
  rcases h1.2 with a | a
  · exact Or.inl a
  · rcases h2.2 with b | b
    · exact Or.inr (Or.inl b)
    · exact Or.inr (Or.inr (a.trans b.symm))

theorem agreesV_unique {env : Env} {xdp : Bool} {V v : Verdict} {o : Outcome}
    (h1 : agreesV env xdp V o) (h2 : agreesV env xdp v o) (hV : V = .xdpPass → xdp = true) (hv : v = .xdpPass → xdp = true) :
    expectedObs env xdp V = expectedObs env xdp v := by
  obtain ⟨o1, e1, a1⟩ := h1
  obtain ⟨o2, e2, a2⟩ := h2
  rw [e1] at e2; cases e2
  obtain ⟨hk, ht, hr⟩ := agrees_fields a1 a2
  by_cases htl : env.tailOK = true <;> cases V <;> cases v <;>
    first
    | rfl
    | (have hx := hV rfl; subst hx; simp [expectedObs, htl] at hk ht hr)
    | (have hx := hv rfl; subst hx; simp [expectedObs, htl] at hk ht hr)
    | (simp [expectedObs, htl] at hk ht hr)

/-! ### From the label-level chain to the assembled programs -/

theorem chainK_fault (env : Env) (bs : List (List Ev)) (base : Nat) : chainK env bs base .fault = .fault := by
  cases bs <;> rfl

theorem chainK_exit (env : Env) (bs : List (List Ev)) (base : Nat) (r0 : Word) (m : Mach) :
    chainK env bs base (.exit r0 m) = .exit r0 m := by
  cases bs <;> rfl

theorem mapM_assemble_get : ∀ (blocks : List (List Ev)) (progs : List (List Insn)),
    blocks.mapM assemble = some progs →
    progs.length = blocks.length ∧ ∀ k (h : k < blocks.length), ∃ p, progs[k]? = some p ∧ assemble blocks[k] = some p := by
  intro blocks
  induction blocks with
  | nil => intro progs h; simp at h; subst h; exact ⟨rfl, by intro k h; cases h⟩
  | cons b bs ih =>
    intro progs h
    simp only [List.mapM_cons] at h
    cases hb : assemble b with
    | none => simp [hb] at h
    | some p =>
      cases hbs : bs.mapM assemble with
      | none => simp [hb, hbs] at h
      | some ps =>
        simp [hb, hbs] at h
        subst h
        obtain ⟨h1, h2⟩ := ih ps hbs
        refine ⟨by simp [h1], ?_⟩
        intro k hk
        cases k with
        | zero => exact ⟨p, rfl, hb⟩
        | succ k =>
          simp only [List.length_cons] at hk
          obtain ⟨q, hq1, hq2⟩ := h2 k (by omega)
          exact ⟨q, by simpa using hq1, by simpa using hq2⟩

/-- A policy-jump tail call to a later slot skips the blocks in between. -/
theorem chainK_skip (env : Env) (blocks : List (List Ev)) (idx : Word) (m : Mach) (k' : Nat)
    (hne : env.c.policyJumpMapFD ≠ env.c.staticJumpMapFD) (hs : slotToProg env.c idx = some k') :
    ∀ (d j : Nat), k' - j = d → j ≤ k' →
      chainK env (blocks.drop j) j (.tail env.c.policyJumpMapFD idx m) =
        if h : k' < blocks.length then chainK env (blocks.drop (k' + 1)) (k' + 1) (lrun env blocks[k'] (Mach.init m.st))
        else .fault := by
  intro d
  induction d with
  | zero =>
    intro j hd hj
    have hjk : j = k' := by omega
    subst hjk
    by_cases h : j < blocks.length
    · rw [dif_pos h, List.drop_eq_getElem_cons h]
      simp [chainK, hne, hs]
    · rw [dif_neg h, List.drop_of_length_le (by omega)]
      simp [chainK, hne]
  | succ d ih =>
    intro j hd hj
    by_cases h : j < blocks.length
    · rw [List.drop_eq_getElem_cons h]
      have hnej : ¬ k' = j := by omega
      have hlt : j < k' := by omega
      have := ih (j + 1) (by omega) (by omega)
      simp [chainK, hne, hs, hnej, hlt, this]
    · rw [List.drop_of_length_le (by omega), dif_neg (by omega)]
      simp [chainK, hne]

/-- **The assembled chain runs as the label-level chain** (when that does not fault). -/
theorem runChain_chainK (env : Env) (blocks : List (List Ev)) (progs : List (List Insn))
    (hasm : blocks.mapM assemble = some progs) :
    ∀ (n k : Nat) (st : List Byte) (hk : k < blocks.length), blocks.length - k ≤ n →
      (chainK env (blocks.drop (k + 1)) (k + 1) (lrun env blocks[k] (Mach.init st))).isFault = false →
      runChain env progs k st = chainK env (blocks.drop (k + 1)) (k + 1) (lrun env blocks[k] (Mach.init st)) := by
  obtain ⟨hlen, hget⟩ := mapM_assemble_get blocks progs hasm
  intro n
  induction n with
  | zero => intro k st hk hn; omega
  | succ n ih =>
    intro k st hk hn hnf
    obtain ⟨p, hp1, hp2⟩ := hget k hk
    rw [runChain]
    simp only [hp1]
    have hnf0 : (lrun env blocks[k] (Mach.init st)).isFault = false := by
      cases hl : lrun env blocks[k] (Mach.init st) with
      | fault => rw [hl, chainK_fault] at hnf; simp [Outcome.isFault] at hnf
      | «exit» _ _ => rfl
      | tail _ _ _ => rfl
    rw [assemble_sound env _ p _ hp2 hnf0]
    cases hl : lrun env blocks[k] (Mach.init st) with
    | fault => rw [hl] at hnf0; simp [Outcome.isFault] at hnf0
    | «exit» r0 m => simp only [chainK_exit]
    | tail fd idx m =>
      rw [hl] at hnf
      simp only
      by_cases hpol : fd = env.c.policyJumpMapFD ∧ fd ≠ env.c.staticJumpMapFD
      · rw [if_pos hpol]
        obtain ⟨rfl, hne⟩ := hpol
        cases hs : slotToProg env.c idx with
        | none =>
          simp only
          by_cases hk1 : k + 1 < blocks.length
          · rw [List.drop_eq_getElem_cons hk1]; simp [chainK, hne, hs]
          · rw [List.drop_of_length_le (by omega)]; simp [chainK, hne]
        | some k' =>
          simp only
          by_cases hkk : k < k'
          · have hskip := chainK_skip env blocks idx m k' hne hs (k' - (k + 1)) (k + 1) rfl (by omega)
            rw [hskip] at hnf ⊢
            by_cases hk' : k' < blocks.length
            · rw [dif_pos hk'] at hnf ⊢
              rw [dif_pos ⟨hkk, by rw [hlen]; exact hk'⟩]
              exact ih k' m.st hk' (by omega) hnf
            · rw [dif_neg hk'] at hnf; simp [Outcome.isFault] at hnf
          · rw [dif_neg (by intro h; exact hkk h.1)]
            by_cases hk1 : k + 1 < blocks.length
            · rw [List.drop_eq_getElem_cons hk1]
              have h1 : ¬ k' = k + 1 := by omega
              have h2 : ¬ k + 1 < k' := by omega
              simp [chainK, hne, hs, h1, h2]
            · rw [List.drop_of_length_le (by omega)]; simp [chainK, hne]
      · rw [if_neg hpol]
        by_cases hk1 : k + 1 < blocks.length
        · rw [List.drop_eq_getElem_cons hk1]; simp [chainK, hpol]
        · rw [List.drop_of_length_le (by omega)]; simp [chainK, hpol]

/-- **The chain theorem** (label level and assembled): the programs of a split build, run as a
chain from the first one, end as the reference verdict demands. -/
theorem polprog_chain (env : Env) (st : List Byte) (r : Rules) (hok : ProgOK env st r) (nmax : Nat)
    (he : ChainEnv env nmax) (hsb : ShortBlocks env.c r.forXDP (compile env.c r) {})
    (hnb : (cont env.c r.forXDP (compile env.c r) {}).2.length ≤ nmax)
    (progs : List (List Insn)) (hi : instructions env.c r = some (some progs)) :
    ∃ o, (runChain env progs 0 st).obs = some o ∧
      (expectedObs env r.forXDP (verdict env r (pktOfD st))).agrees o = true := by
  -- the blocks
  have hexp := expand_cont env.c r.forXDP (compile env.c r) hsb
  have hasm : ((cont env.c r.forXDP (compile env.c r) {}).1 :: (cont env.c r.forXDP (compile env.c r) {}).2).mapM assemble =
      some progs := by
    unfold instructions at hi
    split at hi
    · cases hi
    · rw [hexp] at hi; simpa using hi
  -- the first block starts with the header
  have hcomp := compile_bodyB env.c r
  have hc1 := cont_evs env.c r.forXDP (bodyB env.c r) (headerEvs env.c) {}
  rw [← hcomp] at hc1
  generalize hsh : ({ ({} : SplitSt) with cur := rawAll ({} : SplitSt).cur (headerEvs env.c) } : SplitSt) = sh at hc1
  have hsb' : ShortBlocks env.c r.forXDP (bodyB env.c r) sh := by
    rw [← hsh]; rw [hcomp] at hsb; exact hsb.evs
  have hreach : sh.cur.reach = true := by rw [← hsh]; exact header_reach env.c
  have hdone : sh.done.length = 0 := by rw [← hsh]; rfl
  have hnb' : sh.done.length + (cont env.c r.forXDP (bodyB env.c r) sh).2.length ≤ nmax := by
    rw [hdone, Nat.zero_add]; rw [hc1] at hnb; exact hnb
  obtain ⟨mC, hIC, eC⟩ := lrun_header env st hok.ctx.len he.stateOK (cont env.c r.forXDP (bodyB env.c r) sh).1
  obtain ⟨mF, hIF, eF⟩ := lrun_header env st hok.ctx.len he.stateOK (flat (bodyB env.c r))
  obtain ⟨V, _, hVx, hCh, hFl⟩ := (GA.wholeBody env st nmax he r hok).start sh hreach hnb' hsb' mC mF
    (InvC.none hIC) (InvC.none hIF)
  -- the unsplit program's verdict
  obtain ⟨o, ho, hag⟩ := lrun_program env st r hok he.stateOK
  have hflat : flat (compile env.c r) = headerEvs env.c ++ flat (bodyB env.c r) := by
    rw [flat_compile, flat_bodyB]
  rw [hflat, eF] at ho
  have hv : agreesV env r.forXDP (verdict env r (pktOfD st)) (lrun env (flat (bodyB env.c r)) mF) := ⟨o, ho, hag⟩
  have heq := agreesV_unique hFl hv hVx (fun e => verdict_xdpPass env r _ e)
  obtain ⟨oc, hoc, hagc⟩ := hCh
  rw [heq] at hagc
  -- the assembled chain
  have hrun := runChain_chainK env _ progs hasm
    (((cont env.c r.forXDP (compile env.c r) {}).1 :: (cont env.c r.forXDP (compile env.c r) {}).2).length) 0 st
    (by simp) (by simp)
  simp only [List.drop_one, List.tail_cons, List.getElem_cons_zero, Nat.zero_add] at hrun
  have hch : chainK env (cont env.c r.forXDP (compile env.c r) {}).2 1
      (lrun env (cont env.c r.forXDP (compile env.c r) {}).1 (Mach.init st)) =
      chainK env (cont env.c r.forXDP (bodyB env.c r) sh).2 (0 + 1) (lrun env (cont env.c r.forXDP (bodyB env.c r) sh).1 mC) := by
    rw [hc1]; simp only; rw [eC]
  rw [hdone] at hoc
  rw [hch] at hrun
  have hnf : (chainK env (cont env.c r.forXDP (bodyB env.c r) sh).2 (0 + 1)
      (lrun env (cont env.c r.forXDP (bodyB env.c r) sh).1 mC)).isFault = false := by
    cases hx : chainK env (cont env.c r.forXDP (bodyB env.c r) sh).2 (0 + 1)
        (lrun env (cont env.c r.forXDP (bodyB env.c r) sh).1 mC) with
    | fault => rw [hx] at hoc; simp [Outcome.obs] at hoc
    | «exit» _ _ => rfl
    | tail _ _ _ => rfl
  rw [hrun hnf]
  exact ⟨oc, hoc, hagc⟩

end CalicoVerif.C11
