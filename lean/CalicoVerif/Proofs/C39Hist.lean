import CalicoVerif.Proofs.C39
/-!
C39 helper lemmas, part 2: incumbents in a configuration whose Allocatable=True pools are
pairwise disjoint, and preservation of that disjointness by the events of a history.
-/
namespace CalicoVerif.C39
open CalicoVerif.C36

/-- "Allocatable=True pools do not overlap" as a relation on two pools. -/
def TD (a b : Pool) : Prop := a.allocTrue = true → b.allocTrue = true → overlapP a b = false

/-- No two pools whose `Allocatable` condition is True overlap. -/
def TrueDisjoint (pools : List Pool) : Prop := pools.Pairwise TD

theorem overlapP_comm (a b : Pool) : overlapP a b = overlapP b a := by
  unfold overlapP
  cases ha : a.cidr with
  | none => cases hb : b.cidr <;> rfl
  | some fc =>
    cases hb : b.cidr with
    | none => rfl
    | some gd =>
      obtain ⟨f, c⟩ := fc
      obtain ⟨g, d⟩ := gd
      by_cases e : f = g
      · subst e; simp [Pfx.overlaps, Bool.or_comm]
      · cases f <;> cases g <;> simp_all

theorem TD.symm {a b : Pool} (h : TD a b) : TD b a := fun hb ha => by rw [overlapP_comm]; exact h ha hb

theorem category_zero_iff (p : Pool) : p.category = 0 ↔ p.allocTrue = true ∧ p.deleting = false := by
  unfold Pool.category
  cases p.allocTrue <;> cases p.deleting <;> simp <;> (try split) <;> omega

/-- In a sorted list whose True pools are pairwise disjoint, every incumbent (category 0)
that is not disabled and has a valid CIDR is judged active. -/
theorem loopSpec_incumbents : ∀ (ps : List Pool) (S : List Pool),
    ps.Pairwise (fun a b => a.le b = true) → ps.Pairwise TD →
    (∀ s ∈ S, s.category = 0) → (∀ s ∈ S, ∀ x ∈ ps, TD s x) →
    ∀ p ∈ ps, p.category = 0 → p.disabled = false → p.cidr ≠ none → (p, Verdict.active) ∈ loopSpec S ps
  | [], _, _, _, _, _, p, hp, _, _, _ => by cases hp
  | h :: ps, S, hs, hj, hS0, hSJ, p, hp, hp0, hpd, hpc => by
    have hs' := List.pairwise_cons.1 hs
    have hj' := List.pairwise_cons.1 hj
    have hSJ1 : ∀ s ∈ S, ∀ x ∈ ps, TD s x := fun s hs x hx => hSJ s hs x (List.mem_cons_of_mem _ hx)
    -- once the head is not an incumbent, nothing in the list is
    have vac : 1 ≤ h.category → False := by
      intro hc
      rcases List.mem_cons.1 hp with e | hp
      · subst e; omega
      · have := Pool.category_le_of_le (hs'.1 p hp); omega
    have tail : ∀ S', (∀ s ∈ S', s.category = 0) → (∀ s ∈ S', ∀ x ∈ ps, TD s x) → p ≠ h →
        (p, Verdict.active) ∈ loopSpec S' ps := by
      intro S' h1 h2 hne
      rcases List.mem_cons.1 hp with e | hp
      · exact absurd e hne
      · exact loopSpec_incumbents ps S' hs'.2 hj'.2 h1 h2 p hp hp0 hpd hpc
    unfold loopSpec
    split
    · rename_i hc
      exact List.mem_cons_of_mem _ (tail S hS0 hSJ1 (fun e => hpc (e ▸ hc)))
    · split
      · rename_i hd
        exact List.mem_cons_of_mem _ (tail S hS0 hSJ1 (fun e => by rw [e, hd] at hpd; cases hpd))
      · split
        · rename_i hdel
          exfalso; apply vac
          unfold Pool.category; rw [hdel]; simp
        · rename_i hdel
          have hdel' : h.deleting = false := by cases hh : h.deleting <;> simp_all
          by_cases h0 : h.category = 0
          · have hht := ((category_zero_iff h).1 h0).1
            have hno : (S.any fun q => overlapP q h) = false := by
              rw [List.any_eq_false]
              intro s hs
              have := hSJ s hs h (List.mem_cons_self ..) ((category_zero_iff s).1 (hS0 s hs)).1 hht
              rw [this]; simp
            rw [if_neg (by rw [hno]; simp)]
            by_cases e : p = h
            · subst e; exact List.mem_cons_self ..
            · refine List.mem_cons_of_mem _ (tail (h :: S) ?_ ?_ e)
              · intro s hs
                rcases List.mem_cons.1 hs with e | hs
                · subst e; exact h0
                · exact hS0 s hs
              · intro s hs x hx
                rcases List.mem_cons.1 hs with e | hs
                · subst e; exact hj'.1 x hx
                · exact hSJ1 s hs x hx
          · exfalso; exact vac (by omega)

/-- Events that keep every pool's condition and CIDR keep `TrueDisjoint`. -/
theorem trueDisjoint_map {pools : List Pool} (f : Pool → Pool)
    (hf : ∀ p, (f p).cond = p.cond ∧ (f p).cidr = p.cidr) (h : TrueDisjoint pools) :
    TrueDisjoint (pools.map f) := by
  unfold TrueDisjoint at *
  rw [List.pairwise_map]
  refine h.imp ?_
  intro a b hab ha hb
  have fa := hf a
  have fb := hf b
  unfold overlapP; rw [fa.2, fb.2]
  have : overlapP a b = false := hab (by unfold Pool.allocTrue at ha ⊢; rw [← fa.1]; exact ha)
    (by unfold Pool.allocTrue at hb ⊢; rw [← fb.1]; exact hb)
  unfold overlapP at this; exact this

theorem trueDisjoint_gc {pools : List Pool} (h : TrueDisjoint pools) : TrueDisjoint (gc pools) :=
  List.Pairwise.filter _ h


/-! ### small facts about the per-pool functions -/

theorem applyVerdict_cidr (p : Pool) (v : Verdict) : (applyVerdict p v).cidr = p.cidr := by cases v <;> rfl
theorem applyVerdict_name (p : Pool) (v : Verdict) : (applyVerdict p v).name = p.name := by cases v <;> rfl
theorem applyVerdict_deleting (p : Pool) (v : Verdict) : (applyVerdict p v).deleting = p.deleting := by cases v <;> rfl
theorem applyVerdict_fin (p : Pool) (v : Verdict) : (applyVerdict p v).fin = p.fin := by cases v <;> rfl

theorem applyVerdict_allocTrue (p : Pool) (v : Verdict) :
    (applyVerdict p v).allocTrue = true ↔ v = .active ∨ (v = .skipped ∧ p.allocTrue = true) := by
  cases v <;> simp [applyVerdict, Pool.allocTrue]

theorem reconcileFinalizer_keeps (b : List (Bool × Pfx)) (p : Pool) :
    (reconcileFinalizer b p).cidr = p.cidr ∧ (reconcileFinalizer b p).cond = p.cond ∧
    (reconcileFinalizer b p).name = p.name ∧ (reconcileFinalizer b p).deleting = p.deleting := by
  unfold reconcileFinalizer
  split
  · split <;> simp
  · split
    · simp
    · split
      · simp
      · split <;> simp

theorem overlapP_congr {a a' b b' : Pool} (h1 : a'.cidr = a.cidr) (h2 : b'.cidr = b.cidr) :
    overlapP a' b' = overlapP a b := by unfold overlapP; rw [h1, h2]

/-- **(1) No two allocatable pools overlap.**  After a reconcile of ANY configuration, any
two pools whose `Allocatable` condition is True have disjoint CIDRs. -/
theorem active_pairwise_disjoint_TD (pools : List Pool) (hw : ∀ p ∈ pools, p.WF) (blocks : List (Bool × Pfx)) :
    TrueDisjoint (reconcile blocks pools) := by
  unfold TrueDisjoint TD reconcile gc reconcileConditions
  refine List.Pairwise.sublist List.filter_sublist ?_
  rw [List.pairwise_map, List.pairwise_map]
  have hpw := loopSpec_pairwise (sortPools pools) []
  rw [← verdicts_eq_spec hw] at hpw
  refine List.Pairwise.imp_of_mem ?_ hpw
  intro a b ha hb hR hta htb
  have ka := reconcileFinalizer_keeps blocks (applyVerdict a.1 a.2)
  have kb := reconcileFinalizer_keeps blocks (applyVerdict b.1 b.2)
  rw [overlapP_congr (ka.1.trans (applyVerdict_cidr ..)) (kb.1.trans (applyVerdict_cidr ..))]
  have hta' : (applyVerdict a.1 a.2).allocTrue = true := by unfold Pool.allocTrue at hta ⊢; rw [← ka.2.1]; exact hta
  have htb' : (applyVerdict b.1 b.2).allocTrue = true := by unfold Pool.allocTrue at htb ⊢; rw [← kb.2.1]; exact htb
  rw [verdicts_eq_spec hw] at ha hb
  have va := loopSpec_verdict _ _ a ha
  have vb := loopSpec_verdict _ _ b hb
  rcases (applyVerdict_allocTrue ..).1 hta' with ea | ⟨ea, _⟩
  · rcases (applyVerdict_allocTrue ..).1 htb' with eb | ⟨eb, _⟩
    · exact hR (Or.inl ea) eb
    · have := va.1.1; have hb0 := vb.1.1 eb
      unfold overlapP; rw [hb0]; cases a.1.cidr <;> rfl
  · have ha0 := va.1.1 ea
    unfold overlapP; rw [ha0]

theorem loop_map_fst : ∀ (ps : List Pool) (ts : Tries), (loop ts ps).map (·.1) = ps
  | [], _ => rfl
  | p :: ps, ts => by
    unfold loop
    split
    · simp [loop_map_fst ps ts]
    · split
      · simp [loop_map_fst ps ts]
      · split
        · simp [loop_map_fst ps _]
        · split
          · simp [loop_map_fst ps ts]
          · simp [loop_map_fst ps _]

/-- Every pool after a reconcile is one of the pools before it, same name and CIDR. -/
theorem reconcile_origin {blocks : List (Bool × Pfx)} {pools : List Pool} {p' : Pool}
    (h : p' ∈ reconcile blocks pools) : ∃ p ∈ pools, p'.cidr = p.cidr ∧ p'.name = p.name := by
  unfold reconcile gc reconcileConditions at h
  obtain ⟨x, hx, e⟩ := List.mem_map.1 (List.mem_filter.1 h).1
  obtain ⟨pv, hpv, e2⟩ := List.mem_map.1 hx
  have hm : pv.1 ∈ (verdicts pools).map (·.1) := List.mem_map.2 ⟨pv, hpv, rfl⟩
  unfold verdicts at hm
  rw [loop_map_fst] at hm
  refine ⟨pv.1, mem_sortPools.1 hm, ?_, ?_⟩
  · subst e; subst e2
    exact (reconcileFinalizer_keeps blocks _).1.trans (applyVerdict_cidr ..)
  · subst e; subst e2
    exact (reconcileFinalizer_keeps blocks _).2.2.1.trans (applyVerdict_name ..)

/-! ### histories -/

/-- Events of a history in the sense of the property: everything except writing the
`Allocatable` condition behind the controller's back. -/
def Event.Benign : Event → Prop
  | .setCond _ _ => False
  | .reconcileF _ _ => False   -- passes with write failures: see `effDisjoint_pass` instead
  | .create _ c _ => match c with
    | none => True
    | some (v6, c) => c.WF (width v6)
  | _ => True

def runEvents (s : State) (es : List Event) : State := es.foldl State.step s

theorem updPool_eq_map (pools : List Pool) (n : Nat) (f : Pool → Pool) :
    updPool pools n f = pools.map (fun p => if p.name = n then f p else p) := rfl

theorem step_invariant (s : State) (hw : ∀ p ∈ s.pools, p.WF) (hJ : TrueDisjoint s.pools) (e : Event)
    (he : e.Benign) : (∀ p ∈ (s.step e).pools, p.WF) ∧ TrueDisjoint (s.step e).pools := by
  have hmap : ∀ (n : Nat) (f : Pool → Pool), (∀ p, (f p).cond = p.cond ∧ (f p).cidr = p.cidr) →
      (∀ p ∈ updPool s.pools n f, p.WF) ∧ TrueDisjoint (updPool s.pools n f) := by
    intro n f hf
    have hg : ∀ p, (if p.name = n then f p else p).cond = p.cond ∧ (if p.name = n then f p else p).cidr = p.cidr := by
      intro p; split
      · exact hf p
      · exact ⟨rfl, rfl⟩
    refine ⟨fun p hp => ?_, trueDisjoint_map _ hg hJ⟩
    obtain ⟨q, hq, e⟩ := List.mem_map.1 hp
    have := hw q hq
    unfold Pool.WF at this ⊢
    rw [← e, (hg q).2]; exact this
  have hgc : ∀ l : List Pool, ((∀ p ∈ l, p.WF) ∧ TrueDisjoint l) → (∀ p ∈ gc l, p.WF) ∧ TrueDisjoint (gc l) :=
    fun l h => ⟨fun p hp => h.1 p (List.mem_filter.1 hp).1, trueDisjoint_gc h.2⟩
  cases e with
  | create n c t =>
    simp only [State.step]
    split
    · exact ⟨hw, hJ⟩
    · refine ⟨fun p hp => ?_, ?_⟩
      · rcases List.mem_append.1 hp with hp | hp
        · exact hw p hp
        · rw [List.mem_singleton.1 hp]
          unfold Pool.WF
          cases c with
          | none => trivial
          | some fc => exact he
      · unfold TrueDisjoint
        rw [List.pairwise_append]
        refine ⟨hJ, List.pairwise_singleton .., fun a _ b hb _ hbt => ?_⟩
        rw [List.mem_singleton.1 hb] at hbt
        simp [Pool.allocTrue] at hbt
  | setDisabled n b => exact hmap n _ (fun p => ⟨rfl, rfl⟩)
  | delete n => exact hgc _ (hmap n _ (fun p => ⟨rfl, rfl⟩))
  | addBlock b =>
    simp only [State.step]
    split <;> exact ⟨hw, hJ⟩
  | delBlock b => exact ⟨hw, hJ⟩
  | reconcile =>
    refine ⟨fun p hp => ?_, ?_⟩
    · obtain ⟨q, hq, e, _⟩ := reconcile_origin hp
      have := hw q hq
      unfold Pool.WF at this ⊢
      rw [e]; exact this
    · exact active_pairwise_disjoint_TD s.pools hw s.blocks
  | setCond n c => exact absurd he id
  | reconcileF fs ff => exact absurd he id
  | setFin n b => exact hgc _ (hmap n _ (fun p => ⟨rfl, rfl⟩))

theorem history_invariant : ∀ (es : List Event) (s : State), (∀ p ∈ s.pools, p.WF) → TrueDisjoint s.pools →
    (∀ e ∈ es, e.Benign) →
    (∀ p ∈ (runEvents s es).pools, p.WF) ∧ TrueDisjoint (runEvents s es).pools
  | [], _, hw, hJ, _ => ⟨hw, hJ⟩
  | e :: es, s, hw, hJ, he => by
    have h1 := step_invariant s hw hJ e (he e (List.mem_cons_self ..))
    exact history_invariant es (s.step e) h1.1 h1.2 (fun e' h => he e' (List.mem_cons_of_mem _ h))

end CalicoVerif.C39
