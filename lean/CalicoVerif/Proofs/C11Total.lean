import CalicoVerif.Proofs.C11Whole
/-!
C11 — `Assemble` succeeds: an event list in which every jump targets a label
defined LATER in the list (`closedIn []`), and that is shorter than 32768,
assembles; and the builder's output for a valid configuration (IPv4 or IPv6) is such a list.
-/
namespace CalicoVerif.C11

/-- Every jump targets a label defined later in the list or in `ext` (labels the context defines
after this fragment). -/
def closedIn (ext : List Label) : List Ev → Bool
  | [] => true
  | .jmp _ l :: r => ((labelsOf r).contains l || ext.contains l) && closedIn ext r
  | .ins _ :: r => closedIn ext r
  | .label _ :: r => closedIn ext r

theorem closedIn_append (ext : List Label) (a b : List Ev) :
    closedIn ext (a ++ b) = (closedIn (labelsOf b ++ ext) a && closedIn ext b) := by
  induction a with
  | nil => simp [closedIn]
  | cons e es ih =>
    cases e with
    | jmp i l =>
      simp only [List.cons_append, closedIn, ih, labelsOf_append, List.contains_append, Bool.and_assoc, Bool.or_assoc]
    | ins i => simp only [List.cons_append, closedIn, ih]
    | label l => simp only [List.cons_append, closedIn, ih]

theorem closedIn_mono {ext ext' : List Label} (h : ∀ l, ext.contains l = true → ext'.contains l = true) :
    ∀ evs, closedIn ext evs = true → closedIn ext' evs = true := by
  intro evs
  induction evs with
  | nil => intro _; rfl
  | cons e es ih =>
    cases e with
    | jmp i l =>
      simp only [closedIn, Bool.and_eq_true, Bool.or_eq_true]
      rintro ⟨h1 | h1, h2⟩
      · exact ⟨Or.inl h1, ih h2⟩
      · exact ⟨Or.inr (h l h1), ih h2⟩
    | ins i => simpa only [closedIn] using ih
    | label l => simpa only [closedIn] using ih

/-- `dist` finds any label defined later, whatever the reachability state. -/
theorem dist_some {l : Label} :
    ∀ (r : List Ev) (last : Option Insn) (pend use : List Label), (labelsOf r).contains l = true →
      ∃ d, dist l r last pend use = some d ∧ d ≤ r.length := by
  intro r
  induction r with
  | nil => intro _ _ _ h; simp [labelsOf] at h
  | cons e es ih =>
    intro last pend use h
    cases e with
    | label l' =>
      simp only [dist]
      by_cases hll : l' = l
      · exact ⟨0, by simp [hll], by simp⟩
      · simp only [if_neg hll]
        have h' : (labelsOf es).contains l = true := by
          simp only [labelsOf, List.contains_cons, Bool.or_eq_true, beq_iff_eq] at h
          rcases h with h | h
          · exact absurd h.symm hll
          · exact h
        obtain ⟨d, hd, hle⟩ := ih last (l' :: pend) use h'
        exact ⟨d, hd, by simp only [List.length_cons]; omega⟩
    | ins j =>
      simp only [labelsOf] at h
      simp only [dist]
      by_cases hr : reachable last pend use = true
      · obtain ⟨d, hd, hle⟩ := ih (some j) [] use h
        exact ⟨d + 1, by simp [hr, hd], by simp only [List.length_cons]; omega⟩
      · obtain ⟨d, hd, hle⟩ := ih last [] use h
        exact ⟨d, by simp [hr, hd], by simp only [List.length_cons]; omega⟩
    | jmp j l2 =>
      simp only [labelsOf] at h
      simp only [dist]
      by_cases hr : reachable last pend use = true
      · obtain ⟨d, hd, hle⟩ := ih (some j) [] (l2 :: use) h
        exact ⟨d + 1, by simp [hr, hd], by simp only [List.length_cons]; omega⟩
      · obtain ⟨d, hd, hle⟩ := ih last [] use h
        exact ⟨d, by simp [hr, hd], by simp only [List.length_cons]; omega⟩

/-- **`Assemble` succeeds** on closed event lists of at most 32767 events. -/
theorem asm_total :
    ∀ (evs : List Ev) (last : Option Insn) (pend use : List Label),
      closedIn [] evs = true → evs.length ≤ 32767 → (asmGo evs last pend use).isSome = true := by
  intro evs
  induction evs with
  | nil => intro _ _ _ _ _; rfl
  | cons e es ih =>
    intro last pend use hc hlen
    have hlen' : es.length ≤ 32767 := by simp only [List.length_cons] at hlen; omega
    cases e with
    | label l =>
      simp only [closedIn] at hc
      simp only [asmGo]
      exact ih last (l :: pend) use hc hlen'
    | ins j =>
      simp only [closedIn] at hc
      simp only [asmGo]
      by_cases hr : reachable last pend use = true
      · simp only [hr, if_true]
        have := ih (some j) [] use hc hlen'
        cases h : asmGo es (some j) [] use with
        | none => rw [h] at this; cases this
        | some p => rfl
      · simp only [hr, Bool.false_eq_true, if_false]
        exact ih last [] use hc hlen'
    | jmp j l =>
      simp only [closedIn, List.contains_nil, Bool.or_false, Bool.and_eq_true] at hc
      simp only [asmGo]
      by_cases hr : reachable last pend use = true
      · simp only [hr, if_true]
        obtain ⟨d, hd, hle⟩ := dist_some es (some j) [] (l :: use) hc.1
        rw [hd]
        have hnb : ¬ d > maxInt16 := by simp only [maxInt16, List.length_cons] at *; omega
        simp only [if_neg hnb]
        have := ih (some j) [] (l :: use) hc.2 hlen'
        cases h : asmGo es (some j) [] (l :: use) with
        | none => rw [h] at this; cases this
        | some p => rfl
      · simp only [hr, Bool.false_eq_true, if_false]
        exact ih last [] use hc.2 hlen'


/-! ### The builder's fragments are closed -/

abbrev CL (ext : List Label) (F : List Ev) : Prop := closedIn ext F = true

theorem CL.nil (ext : List Label) : CL ext [] := rfl

theorem CL.mono {ext ext' : List Label} {F : List Ev} (h : CL ext F)
    (hsub : ∀ l ∈ ext, l ∈ ext') : CL ext' F :=
  closedIn_mono (fun l hl => List.contains_iff_mem.2 (hsub l (List.contains_iff_mem.1 hl))) F h

theorem CL.append {ext : List Label} {a b : List Ev} (ha : CL ext a) (hb : CL ext b) : CL ext (a ++ b) := by
  unfold CL
  rw [closedIn_append, Bool.and_eq_true]
  exact ⟨closedIn_mono (fun l h => by simp at h; simp [h]) a ha, hb⟩

/-- Append where the second part defines labels the first one jumps to. -/
theorem CL.append' {ext : List Label} {a b : List Ev} (ha : CL (labelsOf b ++ ext) a) (hb : CL ext b) :
    CL ext (a ++ b) := by
  unfold CL
  rw [closedIn_append, Bool.and_eq_true]
  exact ⟨ha, hb⟩

theorem CL.flatMap {α : Type} {ext : List Label} (f : α → List Ev) (l : List α) (h : ∀ x ∈ l, CL ext (f x)) :
    CL ext (l.flatMap f) := by
  induction l with
  | nil => rfl
  | cons x xs ih =>
    rw [List.flatMap_cons]
    exact (h x (by simp)).append (ih (fun y hy => h y (by simp [hy])))

theorem cl_lookup (ext : List Label) (c : Cfg) (id : Nat) (leg : Leg) :
    CL ext (ipSetLookup c id leg) := by
  cases hv6 : c.v6
  · rw [ipSetLookup_eq c id leg hv6]
    simp [CL, closedIn, labelsOf, lookupEvs, keyEvs, loadMapFD, movImm64, movImm32, mov64, call, mk, storeStack8, storeStack16,
      storeStack32, load8, load16, load32, addImm64]
  · rw [ipSetLookup_eq6 c id leg hv6]
    simp [CL, closedIn, labelsOf, lookupEvs6, keyEvs6, loadMapFD, movImm64, movImm32, mov64, call, mk]

theorem cl_jump1 (ext : List Label) (op dst : Nat) (imm : Int) (l : Label) (h : l ∈ ext) :
    CL ext [mkJ op dst imm l] := by
  simp [CL, closedIn, labelsOf, mkJ, h]

theorem cl_proto (ext : List Label) (rid : Nat) (neg : Bool) (o : Option Proto)
    (h : .ruleNoMatch rid ∈ ext) : CL ext (optList o (protoMatch rid neg)) := by
  cases o with
  | none => rfl
  | some p => cases neg <;> simp [CL, optList, protoMatch, closedIn, labelsOf, load8, mk, jumpEqImm64, jumpNEImm64, mkJ, h]

theorem cl_icmp (ext : List Label) (rid : Nat) (neg : Bool) (ic : Icmp)
    (h : .ruleNoMatch rid ∈ ext) : CL ext (icmpMatch rid neg ic) := by
  cases ic <;> cases neg <;>
    simp [CL, icmpMatch, icmpTypeMatch, icmpTypeCodeMatch, closedIn, labelsOf, load8, load16, mk, jumpEqImm64, jumpNEImm64, mkJ, h]

theorem cl_cidrV4 (ext : List Label) (leg : Leg) (P : Label) (n : Net) (h : P ∈ ext) :
    CL ext (cidrV4 leg P n) := by
  simp [CL, cidrV4, closedIn, labelsOf, load32, movImm32, and32, jumpEqImm32, mk, mkJ, h]

theorem cl_cidrV6 (ext : List Label) (leg : Leg) (rid idx : Nat) (P : Label) (n : Net) (h : P ∈ ext) :
    CL ext (cidrV6 leg rid idx P n) := by
  rw [cidrV6_eq]
  by_cases h1 : mask128Word n.pfx 1 = 0 <;> by_cases h2 : mask128Word n.pfx 2 = 0 <;>
    by_cases h3 : mask128Word n.pfx 3 = 0 <;>
    simp [h1, h2, h3, CL, closedIn, labelsOf, labelsOf_append, secFin, secNE, sec3, load32, movImm32, and32, jumpNEImm32,
      jumpEqImm32, mk, mkJ, h]

theorem cl_cidrs6 (ext : List Label) (leg : Leg) (rid : Nat) (P : Label) (h : P ∈ ext) :
    ∀ (nets : List Net) (idx : Nat), CL ext (cidrs6 leg rid P nets idx) := by
  intro nets
  induction nets with
  | nil => intro _; rfl
  | cons n ns ih => intro idx; exact (cl_cidrV6 ext leg rid idx P n h).append (ih _)

theorem cl_cidrs (ext : List Label) (v6 : Bool) (rid part : Nat) (neg : Bool) (leg : Leg) (nets : List Net)
    (h : .ruleNoMatch rid ∈ ext) : CL ext (flat (cidrsMatch v6 rid part neg leg nets).1) := by
  cases v6 with
  | false =>
    cases neg with
    | true =>
      simp only [cidrsMatch, if_true, flat_cidrLoop_v4]
      exact CL.flatMap _ _ (fun n _ => cl_cidrV4 ext leg _ n h)
    | false =>
      simp only [cidrsMatch, Bool.false_eq_true, if_false, flat_append, flat_cidrLoop_v4]
      refine CL.append' ?_ ?_
      · exact CL.flatMap _ _ (fun n _ => cl_cidrV4 _ leg _ n (by simp [flat, labelsOf, jump, mkJ]))
      · simp [CL, flat, closedIn, labelsOf, jump, mkJ, h]
  | true =>
    cases neg with
    | true =>
      simp only [cidrsMatch, if_true, flat_cidrLoop_v6]
      exact cl_cidrs6 ext leg rid _ h nets 0
    | false =>
      simp only [cidrsMatch, Bool.false_eq_true, if_false, flat_append, flat_cidrLoop_v6]
      refine CL.append' ?_ ?_
      · exact cl_cidrs6 _ leg rid _ (by simp [flat, labelsOf, jump, mkJ]) nets 0
      · simp [CL, flat, closedIn, labelsOf, jump, mkJ, h]

theorem cl_ipSetMatch (ext : List Label) (c : Cfg) (rid : Nat) (neg : Bool) (leg : Leg)
    (ids : List Nat) (h : .ruleNoMatch rid ∈ ext) : CL ext (ipSetMatch c rid neg leg ids) := by
  unfold ipSetMatch
  refine CL.flatMap _ _ (fun id _ => (cl_lookup ext c id leg).append ?_)
  cases neg
  · exact cl_jump1 ext _ _ _ _ h
  · exact cl_jump1 ext _ _ _ _ h

theorem cl_ipSetOr (ext : List Label) (c : Cfg) (rid part : Nat) (leg : Leg)
    (ids : List Nat) (h : .ruleNoMatch rid ∈ ext) : CL ext (ipSetOrMatch c rid part leg ids).1 := by
  unfold ipSetOrMatch
  refine CL.append' ?_ ?_
  · refine CL.flatMap _ _ (fun id _ => (cl_lookup _ c id leg).append ?_)
    exact cl_jump1 _ _ _ _ _ (by simp [labelsOf, jump, mkJ])
  · simp [CL, closedIn, labelsOf, jump, mkJ, h]

theorem cl_portHere (ext : List Label) (rid : Nat) (P : Label) (pr : PortRange) (part : Nat)
    (h : P ∈ ext) : CL ext (portHere rid P pr part).1 := by
  unfold portHere
  by_cases c1 : pr.first = pr.last
  · simp [c1, CL, closedIn, labelsOf, jumpEqImm64, mkJ, h]
  · by_cases c2 : pr.first > 0
    · simp [c1, c2, CL, closedIn, labelsOf, labelsOf, jumpLTImm64, jumpLEImm64, mkJ, h]
    · simp [c1, c2, CL, closedIn, labelsOf, jumpLEImm64, mkJ, h]

theorem cl_portLoop (ext : List Label) (rid : Nat) (leg : Leg) (P : Label) (h : P ∈ ext) :
    ∀ (ports : List PortRange) (part : Nat), CL ext (flat (portLoop rid leg P ports part).1) := by
  intro ports
  induction ports with
  | nil => intro _; rfl
  | cons pr rs ih =>
    intro part
    rw [(portLoop_cons rid leg P pr rs part).1]
    exact (cl_portHere ext rid P pr part h).append (ih _)

theorem cl_named (ext : List Label) (c : Cfg) (leg : Leg) (P : Label) (named : List Nat)
    (h : P ∈ ext) :
    CL ext (named.flatMap (fun id => ipSetLookup c id leg ++ [jumpNEImm64 R0 0 P])) :=
  CL.flatMap _ _ (fun id _ => (cl_lookup ext c id leg).append (cl_jump1 ext _ _ _ _ h))

theorem cl_ports (ext : List Label) (c : Cfg) (rid part : Nat) (neg : Bool) (leg : Leg)
    (ports : List PortRange) (named : List Nat) (h : .ruleNoMatch rid ∈ ext) :
    CL ext (flat (portsMatch c rid part neg leg ports named).1) := by
  cases neg with
  | true =>
    have hshape : flat (portsMatch c rid part true leg ports named).1 =
        [load16 R1 R9 leg.portOff] ++ (flat (portLoop rid leg (.ruleNoMatch rid) ports part).1 ++
          named.flatMap (fun id => ipSetLookup c id leg ++ [jumpNEImm64 R0 0 (.ruleNoMatch rid)])) := by
      simp only [portsMatch, if_true]
      cases portLoop rid leg (.ruleNoMatch rid) ports part with
      | mk nums p2 => simp [flat, flat_append, flat_named']
    rw [hshape]
    exact CL.append (by simp [CL, closedIn, labelsOf, load16, mk])
      ((cl_portLoop ext rid leg _ h ports part).append (cl_named ext c leg _ named h))
  | false =>
    have hshape : flat (portsMatch c rid part false leg ports named).1 =
        ([load16 R1 R9 leg.portOff] ++ (flat (portLoop rid leg (.rulePart rid part) ports (part + 1)).1 ++
          named.flatMap (fun id => ipSetLookup c id leg ++ [jumpNEImm64 R0 0 (.rulePart rid part)]))) ++
        [jump (.ruleNoMatch rid), .label (.rulePart rid part)] := by
      simp only [portsMatch, Bool.false_eq_true, if_false]
      cases portLoop rid leg (.rulePart rid part) ports (part + 1) with
      | mk nums p2 => simp [flat, flat_append, flat_named']
    rw [hshape]
    have hp : Label.rulePart rid part ∈ labelsOf [jump (.ruleNoMatch rid), Ev.label (.rulePart rid part)] ++ ext := by
      simp [labelsOf, jump, mkJ]
    refine CL.append' ?_ (by simp [CL, closedIn, labelsOf, jump, mkJ, h])
    exact CL.append (by simp [CL, closedIn, labelsOf, load16, mk])
      ((cl_portLoop _ rid leg _ hp ports (part + 1)).append (cl_named _ c leg _ named hp))


/-! ### Rules, policies, tiers, profiles -/

theorem cl_rmP (ext : List Label) (c : Cfg) (rid : Nat) (r : Rule) (leg : Leg)
    (h : .ruleNoMatch rid ∈ ext) :
    CL ext (flat (rmP2 c rid r).1) ∧ CL ext (flat (rmP3 c rid r).1) ∧ CL ext (flat (rmP4 c rid r leg).1) ∧
    CL ext (flat (rmP5 c rid r leg).1) ∧ CL ext (rmP7 c rid r leg).1 ∧ CL ext (flat (rmP9 c rid r leg).1) ∧
    CL ext (flat (rmP10 c rid r leg).1) ∧ CL ext (flat (rmP11 c rid r leg).1) ∧ CL ext (flat (rmP12 c rid r leg).1) := by
  refine ⟨?_, ?_, ?_, ?_, ?_, ?_, ?_, ?_, ?_⟩
  · unfold rmP2; split
    · exact CL.nil _
    · exact cl_cidrs ext _ rid _ _ _ _ h
  · unfold rmP3; split
    · exact CL.nil _
    · exact cl_cidrs ext _ rid _ _ _ _ h
  · unfold rmP4; split
    · exact CL.nil _
    · exact cl_cidrs ext _ rid _ _ _ _ h
  · unfold rmP5; split
    · exact CL.nil _
    · exact cl_cidrs ext _ rid _ _ _ _ h
  · unfold rmP7; split
    · exact CL.nil _
    · exact cl_ipSetOr ext c rid _ _ _ h
  · unfold rmP9; split
    · exact CL.nil _
    · exact cl_ports ext c rid _ _ _ _ _ h
  · unfold rmP10; split
    · exact CL.nil _
    · exact cl_ports ext c rid _ _ _ _ _ h
  · unfold rmP11; split
    · exact CL.nil _
    · exact cl_ports ext c rid _ _ _ _ _ h
  · unfold rmP12; split
    · exact CL.nil _
    · exact cl_ports ext c rid _ _ _ _ _ h

theorem cl_ruleMatches (ext : List Label) (c : Cfg) (rid : Nat) (r : Rule) (leg : Leg)
    (h : .ruleNoMatch rid ∈ ext) : CL ext (flat (ruleMatches c rid r leg)) := by
  obtain ⟨h2, h3, h4, h5, h7, h9, h10, h11, h12⟩ := cl_rmP ext c rid r leg h
  rw [ruleMatches_eq]
  simp only [flat_append, flat_map_ev]
  exact ((((((((((((((cl_proto ext rid false _ h).append (cl_proto ext rid true _ h)).append h2).append h3).append
    h4).append h5).append ((cl_ipSetMatch ext c rid false _ _ h).append
      (cl_ipSetMatch ext c rid true _ _ h))).append h7).append
    ((cl_ipSetMatch ext c rid true _ _ h).append (cl_ipSetMatch ext c rid false _ _ h))).append h9).append
    h10).append h11).append h12).append ((cl_icmp ext rid false _ h).append (cl_icmp ext rid true _ h)))

theorem endOfRule_labels (c : Cfg) (rid id : Nat) (a : Label) : labelsOf (endOfRule c rid id a) = [.ruleNoMatch rid] := by
  rw [endOfRule_eq]
  split
  · simp [logEvs, labelsOf, labelsOf_append, load64, orImm64, store64, mk]
  · split
    · simp [labelsOf, labelsOf_append, labelsOf_record, jump, mkJ]
    · simp [labelsOf, jump, mkJ]

theorem cl_endOfRule (ext : List Label) (c : Cfg) (rid id : Nat) (a : Label) (ha : a = .log ∨ a ∈ ext) :
    CL ext (endOfRule c rid id a) := by
  rw [endOfRule_eq]
  split
  · simp [CL, closedIn, logEvs, load64, orImm64, store64, mk]
  · rename_i hl
    have ha' : a ∈ ext := by rcases ha with h | h; exact absurd h hl; exact h
    split
    · simp [CL, closedIn, labelsOf, recordRuleID, loadImm64, load8, jumpGEImm64, mov64, addImm64, store8, shiftLImm64,
        add64, store64, mk, mkJ, jump, ha']
    · simp [CL, closedIn, labelsOf, jump, mkJ, ha']

theorem cl_writeRule (ext : List Label) (c : Cfg) (rid : Nat) (r : Rule) (a : Label) (leg : Leg)
    (ha : a = .log ∨ a ∈ ext) : CL ext (flat (writeRule c rid r a leg).1) := by
  rw [writeRule_flat]
  split
  · exact CL.nil _
  · refine CL.append' ?_ (cl_endOfRule ext c rid _ a ha)
    exact cl_ruleMatches _ c rid _ leg (by rw [endOfRule_labels]; simp)

theorem cl_policyRules (ext : List Label) (c : Cfg) (lab : String → Label) (leg : Leg) :
    ∀ (rs : List Rule) (rid : Nat), (∀ r ∈ rs, lab r.action = .log ∨ lab r.action ∈ ext) →
      CL ext (flat (writePolicyRules c lab leg rs rid).1) := by
  intro rs
  induction rs with
  | nil => intro _ _; exact CL.nil _
  | cons r rs ih =>
    intro rid h
    simp only [writePolicyRules, flat_append]
    exact (cl_writeRule ext c rid r _ leg (h r List.mem_cons_self)).append
      (ih _ (fun r' hr' => h r' (List.mem_cons_of_mem _ hr')))

theorem cl_policies (ext : List Label) (c : Cfg) (lab : String → Label) (leg : Leg) :
    ∀ (ps : List Policy) (rid : Nat), (∀ pol ∈ ps, ∀ r ∈ pol.rules, lab r.action = .log ∨ lab r.action ∈ ext) →
      CL ext (flat (writePolicies c lab leg ps rid).1) := by
  intro ps
  induction ps with
  | nil => intro _ _; exact CL.nil _
  | cons pol ps ih =>
    intro rid h
    simp only [writePolicies, flat_append]
    exact (cl_policyRules ext c lab leg pol.rules rid (h pol List.mem_cons_self)).append
      (ih _ (fun p' hp' => h p' (List.mem_cons_of_mem _ hp')))

/-- Policy rules have a valid action (allow/deny/pass/next-tier/log). -/
def TiersAct (ts : List Tier) : Prop := ∀ t ∈ ts, ∀ pol ∈ t.policies, ∀ r ∈ pol.rules, r.tierAction = true
/-- Profile rules have a valid action (allow/deny/pass/next-tier/log). -/
def ProfsAct (ps : List Policy) : Prop := ∀ pol ∈ ps, ∀ r ∈ pol.rules, r.tierAction = true

theorem tierLabel_mem (al : Label) (tid : Nat) (r : Rule) (h : r.tierAction = true) :
    tierActionLabel al tid r.action = .log ∨ tierActionLabel al tid r.action = al ∨
      tierActionLabel al tid r.action = .deny ∨ tierActionLabel al tid r.action = .endOfTier tid := by
  rw [tierActionLabel_actOf]
  unfold Rule.tierAction at h
  cases ha : actOf r.action <;> simp [ha] at h ⊢

theorem profileLabel_mem (al : Label) (r : Rule) (h : r.tierAction = true) :
    profileActionLabel al r.action = .log ∨ profileActionLabel al r.action = al ∨ profileActionLabel al r.action = .deny := by
  unfold Rule.tierAction at h
  rw [profileActionLabel_actOf al r.action]
  cases ha : actOf r.action <;> simp [ha] at h ⊢

theorem cl_tier_body (E : List Label) (c : Cfg) (leg : Leg) (al : Label) (tid : Nat) (t : Tier)
    (rid : Nat) (hal : al ∈ E) (hd : Label.deny ∈ E) (he : Label.endOfTier tid ∈ E)
    (h : ∀ pol ∈ t.policies, ∀ r ∈ pol.rules, r.tierAction = true) :
    CL E (flat (writePolicies c (tierActionLabel al tid) leg t.policies rid).1 ++
      flat (writeRule c (writePolicies c (tierActionLabel al tid) leg t.policies rid).2
        { action := "", matchID := t.endRuleID } (tierEndLabel t tid) leg).1) := by
  refine CL.append ?_ ?_
  · refine cl_policies _ c _ leg t.policies rid ?_
    intro pol hp r hr
    rcases tierLabel_mem al tid r (h pol hp r hr) with e | e | e | e
    · exact Or.inl e
    · exact Or.inr (by rw [e]; exact hal)
    · exact Or.inr (by rw [e]; exact hd)
    · exact Or.inr (by rw [e]; exact he)
  · refine cl_writeRule _ c _ _ _ leg (Or.inr ?_)
    have : tierEndLabel t tid = .endOfTier tid ∨ tierEndLabel t tid = .deny := by
      unfold tierEndLabel; cases t.endAction <;> simp
    rcases this with e | e
    · rw [e]; exact he
    · rw [e]; exact hd

theorem cl_tiers (ext : List Label) (c : Cfg) (leg : Leg) (al : Label)
    (hal : al ∈ ext) (hd : Label.deny ∈ ext) :
    ∀ (ts : List Tier) (rid tid : Nat), TiersAct ts → CL ext (flat (writeTiers c leg al ts rid tid).1) := by
  intro ts
  induction ts with
  | nil => intro _ _ _; exact CL.nil _
  | cons t ts ih =>
    intro rid tid h
    have hshape : flat (writeTiers c leg al (t :: ts) rid tid).1 =
        ((flat (writePolicies c (tierActionLabel al tid) leg t.policies rid).1 ++
          flat (writeRule c (writePolicies c (tierActionLabel al tid) leg t.policies rid).2
            { action := "", matchID := t.endRuleID } (tierEndLabel t tid) leg).1) ++ [.label (.endOfTier tid)]) ++
        flat (writeTiers c leg al ts
          (writeRule c (writePolicies c (tierActionLabel al tid) leg t.policies rid).2
            { action := "", matchID := t.endRuleID } (tierEndLabel t tid) leg).2 (tid + 1)).1 := by
      simp only [writeTiers, flat_append, flat, tierEndLabel]
      cases t.endAction <;> simp
    rw [hshape]
    refine CL.append' (CL.append' ?_ rfl) (ih _ _ (fun t' ht' => h t' (List.mem_cons_of_mem _ ht')))
    exact cl_tier_body _ c leg al tid t rid (by simp [hal]) (by simp [hd]) (by simp [labelsOf])
      (h t List.mem_cons_self)

theorem cl_profiles (ext : List Label) (c : Cfg) (al : Label) (hal : al ∈ ext)
    (hd : Label.deny ∈ ext) (ps : List Policy) (noMatchID rid : Nat) (h : ProfsAct ps) :
    CL ext (flat (writeProfiles c al ps noMatchID rid).1) := by
  simp only [writeProfiles, flat_append]
  refine CL.append ?_ (cl_writeRule ext c _ _ _ _ (Or.inr hd))
  refine cl_policies ext c _ _ ps rid ?_
  intro pol hp r hr
  rcases profileLabel_mem al r (h pol hp r hr) with e | e | e
  · exact Or.inl e
  · exact Or.inr (by rw [e]; exact hal)
  · exact Or.inr (by rw [e]; exact hd)


/-! ### The whole program is closed -/

def footerLabels (xdp : Bool) : List Label := [.deny, .exit] ++ ((if xdp then [.xdpPass] else []) ++ [.allow])

theorem labelsOf_footer (c : Cfg) (xdp : Bool) : labelsOf (footerEvs c xdp) = footerLabels xdp := by
  rw [footerEvs_eq]
  cases xdp <;>
    simp [footerLabels, labelsOf, labelsOf_append, labelsOf_verdictBlock, exitTargetEvs, movImm64, movImm32, store32, exitI, mk]

theorem cl_verdictBlock (ext : List Label) (c : Cfg) (v jmp cb : Int) : CL ext (verdictBlock c v jmp cb) := by
  unfold verdictBlock
  cases c.useJmps <;>
    simp [CL, closedIn, loadMapFD, movImm32, store32, mov64, load32, call, mk]

theorem cl_footer (c : Cfg) (xdp : Bool) : CL [] (footerEvs c xdp) := by
  rw [footerEvs_eq]
  have e1 : CL [] (exitTargetEvs xdp) := by simp [CL, closedIn, exitTargetEvs, movImm64, exitI, mk]
  have e2 : CL [] (if xdp then [Ev.label Label.xdpPass, movImm64 R0 2, exitI] else []) := by
    cases xdp <;> simp [CL, closedIn, movImm64, exitI, mk]
  have e3 : CL [] [movImm32 R1 policyTailCallFailed, store32 R9 R1 stateOffPolResult,
      movImm64 R0 (if xdp then 1 else 2), exitI] := by simp [CL, closedIn, movImm32, store32, movImm64, exitI, mk]
  have := ((cl_verdictBlock [] c policyDeny c.denyJmp skbCb1).append (e1.append (e2.append
    (show CL [] (Ev.label Label.allow :: (verdictBlock c policyAllow c.allowJmp skbCb0 ++ _)) from
      ((cl_verdictBlock [] c policyAllow c.allowJmp skbCb0).append e3)))))
  exact this

theorem cl_workload (ext : List Label) (c : Cfg) (r : Rules) (rid tid : Nat)
    (ha : Label.allow ∈ ext) (hd : Label.deny ∈ ext)
    (hT : r.forHostInterface = false → TiersAct r.tiers ∧ ProfsAct r.profiles) :
    CL ext (flat (workloadPart c r rid tid)) := by
  unfold workloadPart
  by_cases hh : r.forHostInterface = true
  · simp only [hh, if_true, flat]
    exact cl_jump1 ext _ _ _ _ ha
  · have hh' : r.forHostInterface = false := by simpa using hh
    simp only [hh', Bool.false_eq_true, if_false]
    have hshape : flat (match writeTiers c Leg.dest Label.allow r.tiers rid tid with
        | (e, rid', _) =>
          match writeProfiles c Label.allow r.profiles r.noProfileMatchID rid' with
          | (p, _) => e ++ p) =
        flat (writeTiers c .dest .allow r.tiers rid tid).1 ++
        flat (writeProfiles c .allow r.profiles r.noProfileMatchID (writeTiers c .dest .allow r.tiers rid tid).2.1).1 := by
      rw [← flat_append]
    rw [hshape]
    exact (cl_tiers ext c .dest .allow ha hd r.tiers rid tid (hT hh').1).append
      (cl_profiles ext c .allow ha hd r.profiles _ _ (hT hh').2)

theorem cl_tofh (ext : List Label) (l : Label) (h : l ∈ ext) : CL ext (jumpIfToOrFromHost l) := by
  simp [CL, closedIn, jumpIfToOrFromHost, load64, andImm64, jumpNEImm64, mk, mkJ, h]

theorem cl_host (ext : List Label) (c : Cfg) (r : Rules)
    (hd : Label.deny ∈ ext) (hx : r.forXDP = true → Label.xdpPass ∈ ext)
    (hN : r.suppressNormalHostPolicy = false → TiersAct r.hostNormalTiers)
    (hPF : r.forXDP = false → TiersAct r.hostPreDnatTiers ∧ TiersAct r.hostForwardTiers)
    (hPR : r.forXDP = false → r.suppressNormalHostPolicy = false → ProfsAct r.hostProfiles) :
    CL ext (flat (hostPart c r).1) := by
  have hA : AHP ∈ labelsOf [Ev.label AHP] ++ ext := by simp [labelsOf]
  have hD : Label.deny ∈ labelsOf [Ev.label AHP] ++ ext := by simp [hd]
  cases h1 : r.forXDP <;> cases h2 : r.suppressNormalHostPolicy
  · obtain ⟨rid3, tid3, rid5, e⟩ := hostPart_nosup c r h1 h2
    rw [e]
    refine CL.append' ?_ rfl
    refine (cl_tiers _ c _ AHP hA hD _ _ _ (hPF h1).1).append ?_
    refine CL.append' (CL.append' ?_ rfl) ?_
    · refine (cl_tofh _ TOFH (by simp [labelsOf])).append ((cl_tiers _ c _ AHP ?_ ?_ _ _ _ (hPF h1).2).append
        (cl_jump1 _ _ _ _ _ ?_))
      · simp [labelsOf]
      · simp [hd]
      · simp [labelsOf]
    · exact (cl_tiers _ c _ AHP hA hD _ _ _ (hN h2)).append (cl_profiles _ c AHP hA hD _ _ _ (hPR h1 h2))
  · rw [hostPart_sup c r h1 h2]
    refine CL.append' ?_ rfl
    exact (cl_tiers _ c _ AHP hA hD _ _ _ (hPF h1).1).append ((cl_tofh _ AHP hA).append
      ((cl_tiers _ c _ AHP hA hD _ _ _ (hPF h1).2).append (cl_jump1 _ _ _ _ _ hA)))
  · rw [hostPart_xdp c r h1 h2]
    refine CL.append' ?_ rfl
    exact (show CL _ ([Ev.label TOFH] ++ _) from CL.append rfl ((cl_tiers _ c _ AHP hA hD _ _ _ (hN h2)).append
      (cl_jump1 _ _ _ _ _ (by simp [hx h1]))))
  · rw [hostPart_xdp_sup c r h1 h2]
    rfl

/-- What `Builder.Instructions` needs from its input not to panic and to assemble. -/
def RuleIds (r : Rule) : Prop := r.dstIpSetIds.length ≤ 1 ∧ ∀ id ∈ r.ipSetIDs, id ≠ 0
def TiersBuild (ts : List Tier) : Prop :=
  ∀ t ∈ ts, ∀ pol ∈ t.policies, ∀ r ∈ pol.rules, r.tierAction = true ∧ RuleIds r
def ProfsBuild (ps : List Policy) : Prop := ∀ pol ∈ ps, ∀ r ∈ pol.rules, r.tierAction = true ∧ RuleIds r

structure Buildable (r : Rules) : Prop where
  gT : TiersBuild r.tiers
  gHP : TiersBuild r.hostPreDnatTiers
  gHF : TiersBuild r.hostForwardTiers
  gHN : TiersBuild r.hostNormalTiers
  gP : ProfsBuild r.profiles
  gHPR : ProfsBuild r.hostProfiles

theorem TiersBuild.act {ts : List Tier} (h : TiersBuild ts) : TiersAct ts :=
  fun t ht pol hp r hr => (h t ht pol hp r hr).1
theorem ProfsBuild.act {ps : List Policy} (h : ProfsBuild ps) : ProfsAct ps :=
  fun pol hp r hr => (h pol hp r hr).1

theorem compile_closed_act (c : Cfg) (r : Rules)
    (hb : TiersAct r.tiers ∧ TiersAct r.hostPreDnatTiers ∧ TiersAct r.hostForwardTiers ∧ TiersAct r.hostNormalTiers ∧
      ProfsAct r.profiles ∧ ProfsAct r.hostProfiles) :
    CL [] (flat (compile c r)) := by
  obtain ⟨aT, aHP, aHF, aHN, aP, aHPR⟩ := hb
  rw [flat_compile]
  have hF := labelsOf_footer c r.forXDP
  have hd : Label.deny ∈ footerLabels r.forXDP := by simp [footerLabels]
  have ha : Label.allow ∈ footerLabels r.forXDP := by simp [footerLabels]
  have hx : r.forXDP = true → Label.xdpPass ∈ footerLabels r.forXDP := by intro h; simp [footerLabels, h]
  have hbody : CL [] ((flat (hostPart c r).1 ++ flat (workloadPart c r (hostPart c r).2.1 (hostPart c r).2.2)) ++
      footerEvs c r.forXDP) := by
    refine CL.append' ?_ (cl_footer c r.forXDP)
    rw [hF, List.append_nil]
    exact (cl_host _ c r hd hx (fun _ => aHN) (fun _ => ⟨aHP, aHF⟩)
      (fun _ _ => aHPR)).append
      (cl_workload _ c r _ _ ha hd (fun _ => ⟨aT, aP⟩))
  refine CL.append' ?_ hbody
  have : Label.exit ∈ labelsOf ((flat (hostPart c r).1 ++ flat (workloadPart c r (hostPart c r).2.1 (hostPart c r).2.2)) ++
      footerEvs c r.forXDP) ++ [] := by
    simp [labelsOf_append, hF, footerLabels]
  simp [CL, closedIn, labelsOf, headerEvs, loadMapFD, mov64, movImm64, storeStack32, addImm64, call, jumpEqImm64, mk, mkJ]
  simpa [labelsOf_append, hF, footerLabels] using this

theorem compile_closed (c : Cfg) (r : Rules) (hb : Buildable r) : CL [] (flat (compile c r)) :=
  compile_closed_act c r ⟨hb.gT.act, hb.gHP.act, hb.gHF.act, hb.gHN.act, hb.gP.act, hb.gHPR.act⟩

/-! ### No panic -/

theorem filterRule_ids {r fr : Rule} {v6 : Bool} (h : filterRule v6 r = some fr) :
    fr.dstIpSetIds = r.dstIpSetIds ∧ fr.ipSetIDs = r.ipSetIDs := by
  unfold filterRule at h
  repeat' split at h
  all_goals first | (cases h; done) | skip
  all_goals (
    cases h
    exact ⟨rfl, rfl⟩)

theorem ruleOK_of (c : Cfg) (lab : Label) (r : Rule) (hl : lab ≠ .none) (hr : RuleIds r) : ruleOK c lab r = true := by
  unfold ruleOK
  rw [Bool.and_eq_true]
  refine ⟨by simpa using hl, ?_⟩
  split
  · rfl
  · rename_i fr hf
    obtain ⟨e1, e2⟩ := filterRule_ids hf
    rw [e1, e2, Bool.and_eq_true]
    refine ⟨by simpa using hr.1, ?_⟩
    rw [List.all_eq_true]
    intro id hid
    simpa using hr.2 id hid

theorem tiersOK_of (c : Cfg) (al : Label) (hal : al ≠ .none) :
    ∀ (ts : List Tier) (tid : Nat), TiersBuild ts → tiersOK c al ts tid = true := by
  intro ts
  induction ts with
  | nil => intro _ _; rfl
  | cons t ts ih =>
    intro tid h
    unfold tiersOK
    rw [Bool.and_eq_true]
    refine ⟨?_, ih _ (fun t' ht' => h t' (List.mem_cons_of_mem _ ht'))⟩
    rw [List.all_eq_true]
    intro pol hp
    rw [List.all_eq_true]
    intro r hr
    obtain ⟨ha, hi⟩ := h t List.mem_cons_self pol hp r hr
    refine ruleOK_of c _ r ?_ hi
    rcases tierLabel_mem al tid r ha with e | e | e | e <;> rw [e]
    · simp
    · exact hal
    · simp
    · simp

theorem profilesOK_of (c : Cfg) (ps : List Policy) (h : ProfsBuild ps) : profilesOK c ps = true := by
  unfold profilesOK
  rw [List.all_eq_true]
  intro pol hp
  rw [List.all_eq_true]
  intro r hr
  obtain ⟨ha, hi⟩ := h pol hp r hr
  refine ruleOK_of c _ r ?_ hi
  rcases profileLabel_mem .allow r ha with e | e | e <;> rw [e] <;> simp

theorem noPanic_of (c : Cfg) (r : Rules) (hb : Buildable r) : noPanic c r = true := by
  have t := fun ts h => tiersOK_of c .allow (by simp) ts 0 h
  have p := profilesOK_of c
  unfold noPanic
  simp [t _ hb.gT, t _ hb.gHP, t _ hb.gHF, t _ hb.gHN, p _ hb.gP, p _ hb.gHPR]

/-- **`Builder.Instructions` neither panics nor fails to assemble** on a buildable input (IPv4 or IPv6) whose
program fits one unsplit block. -/
theorem instructions_total (c : Cfg) (r : Rules) (hb : Buildable r)
    (hnosplit : NoSplit c (flat (compile c r))) (hshort : (flat (compile c r)).length < c.trampolineStride)
    (hstride : c.trampolineStride ≤ 32768) :
    ∃ prog, instructions c r = some (some [prog]) := by
  have hsome := asm_total (flat (compile c r)) none [] [] (compile_closed c r hb) (by omega)
  have : ∃ prog, assemble (flat (compile c r)) = some prog := by
    unfold assemble
    cases h : asmGo (flat (compile c r)) none [] [] with
    | none => rw [h] at hsome; cases hsome
    | some p => exact ⟨_, rfl⟩
  obtain ⟨prog, hp⟩ := this
  refine ⟨prog, ?_⟩
  unfold instructions
  rw [noPanic_of c r hb, expand_one c r.forXDP (compile c r) hnosplit hshort]
  simp [hp]

end CalicoVerif.C11
