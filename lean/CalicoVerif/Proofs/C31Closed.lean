import CalicoVerif.Proofs.C31Step
/-! C31 — "never references something not yet sent": every PREFIX of every stream leaves the client
referentially closed.  A message is `guard`ed when what it needs is already (still) there; bursts are
guarded segment by segment. -/
namespace CalicoVerif.C31

/-- what must already hold at the client for message `m` to keep it referentially closed -/
def guard (v : View) : Msg → Prop
  | .polUpd _ r => ∀ x ∈ r.refs, (v.ipsets x).isSome
  | .profUpd _ r => ∀ x ∈ r.refs, (v.ipsets x).isSome
  | .epUpd _ e => (∀ id ∈ e.pols, (v.pols id).isSome) ∧ (∀ id ∈ e.profs, (v.profs id).isSome)
  | .polRm id => ∀ w e, v.ep = some (w, e) → id ∉ e.pols
  | .profRm id => ∀ w e, v.ep = some (w, e) → id ∉ e.profs
  | .ipRm x => (∀ id r, v.pols id = some r → x ∉ r.refs) ∧ (∀ id r, v.profs id = some r → x ∉ r.refs)
  | _ => True

theorem closed_step {v : View} (hc : Closed v) (m : Msg) (hg : guard v m) : Closed (applyMsg v m) := by
  cases m with
  | inSync => exact ⟨hc.pols, hc.profs, hc.polRefs, hc.profRefs⟩
  | saUpd id x => exact ⟨hc.pols, hc.profs, hc.polRefs, hc.profRefs⟩
  | saRm id => exact ⟨hc.pols, hc.profs, hc.polRefs, hc.profRefs⟩
  | nsUpd id x => exact ⟨hc.pols, hc.profs, hc.polRefs, hc.profRefs⟩
  | nsRm id => exact ⟨hc.pols, hc.profs, hc.polRefs, hc.profRefs⟩
  | epUpd w e =>
    refine ⟨fun w' e' h => ?_, fun w' e' h => ?_, hc.polRefs, hc.profRefs⟩
    · simp only [applyMsg, Option.some.injEq, Prod.mk.injEq] at h; obtain ⟨_, rfl⟩ := h; exact hg.1
    · simp only [applyMsg, Option.some.injEq, Prod.mk.injEq] at h; obtain ⟨_, rfl⟩ := h; exact hg.2
  | epRm w =>
    exact ⟨fun w' e' h => by simp [applyMsg] at h, fun w' e' h => by simp [applyMsg] at h, hc.polRefs, hc.profRefs⟩
  | polUpd id r =>
    refine ⟨fun w' e' h k hk => ?_, hc.profs, fun k r' h x hx => ?_, hc.profRefs⟩
    · show (upd v.pols id (some r) k).isSome
      simp only [upd]; split
      · rfl
      · exact hc.pols w' e' h k hk
    · have h' : upd v.pols id (some r) k = some r' := h
      simp only [upd] at h'
      by_cases hk : k = id
      · simp only [hk, if_true, Option.some.injEq] at h'; subst h'; exact hg x hx
      · simp only [hk, if_false] at h'; exact hc.polRefs k r' h' x hx
  | profUpd id r =>
    refine ⟨hc.pols, fun w' e' h k hk => ?_, hc.polRefs, fun k r' h x hx => ?_⟩
    · show (upd v.profs id (some r) k).isSome
      simp only [upd]; split
      · rfl
      · exact hc.profs w' e' h k hk
    · have h' : upd v.profs id (some r) k = some r' := h
      simp only [upd] at h'
      by_cases hk : k = id
      · simp only [hk, if_true, Option.some.injEq] at h'; subst h'; exact hg x hx
      · simp only [hk, if_false] at h'; exact hc.profRefs k r' h' x hx
  | polRm id =>
    refine ⟨fun w' e' h k hk => ?_, hc.profs, fun k r' h x hx => ?_, hc.profRefs⟩
    · show (upd v.pols id none k).isSome
      have hne : k ≠ id := fun e => hg w' e' h (e ▸ hk)
      simp only [upd, hne, if_false]; exact hc.pols w' e' h k hk
    · have h' : upd v.pols id none k = some r' := h
      simp only [upd] at h'
      by_cases hk : k = id
      · simp [hk] at h'
      · simp only [hk, if_false] at h'; exact hc.polRefs k r' h' x hx
  | profRm id =>
    refine ⟨hc.pols, fun w' e' h k hk => ?_, hc.polRefs, fun k r' h x hx => ?_⟩
    · show (upd v.profs id none k).isSome
      have hne : k ≠ id := fun e => hg w' e' h (e ▸ hk)
      simp only [upd, hne, if_false]; exact hc.profs w' e' h k hk
    · have h' : upd v.profs id none k = some r' := h
      simp only [upd] at h'
      by_cases hk : k = id
      · simp [hk] at h'
      · simp only [hk, if_false] at h'; exact hc.profRefs k r' h' x hx
  | ipUpd id ms =>
    refine ⟨hc.pols, hc.profs, fun k r' h x hx => ?_, fun k r' h x hx => ?_⟩
    · show (upd v.ipsets id (some _) x).isSome
      simp only [upd]; split
      · rfl
      · exact hc.polRefs k r' h x hx
    · show (upd v.ipsets id (some _) x).isSome
      simp only [upd]; split
      · rfl
      · exact hc.profRefs k r' h x hx
  | ipDelta id a d =>
    have key : ∀ x, (v.ipsets x).isSome → ((applyMsg v (Msg.ipDelta id a d)).ipsets x).isSome := by
      intro x hx
      show (upd v.ipsets id _ x).isSome
      simp only [upd]
      by_cases h : x = id
      · subst h; simp only [if_true]
        cases hv : v.ipsets x with
        | none => rw [hv] at hx; cases hx
        | some s => rfl
      · simp only [h, if_false]; exact hx
    exact ⟨hc.pols, hc.profs, fun k r' h x hx => key x (hc.polRefs k r' h x hx), fun k r' h x hx => key x (hc.profRefs k r' h x hx)⟩
  | ipRm id =>
    refine ⟨hc.pols, hc.profs, fun k r' h x hx => ?_, fun k r' h x hx => ?_⟩
    · show (upd v.ipsets id none x).isSome
      have hne : x ≠ id := fun e => hg.1 k r' h (e ▸ hx)
      simp only [upd, hne, if_false]; exact hc.polRefs k r' h x hx
    · show (upd v.ipsets id none x).isSome
      have hne : x ≠ id := fun e => hg.2 k r' h (e ▸ hx)
      simp only [upd, hne, if_false]; exact hc.profRefs k r' h x hx

/-- the client is referentially closed before the burst and after every message of it -/
def ClosedAlong : View → List Msg → Prop
  | v, [] => Closed v
  | v, m :: ms => Closed v ∧ ClosedAlong (applyMsg v m) ms

/-- every message of the burst is guarded when it arrives -/
def Guarded : View → List Msg → Prop
  | _, [] => True
  | v, m :: ms => guard v m ∧ Guarded (applyMsg v m) ms

theorem closedAlong_of_guarded {v : View} {ms : List Msg} (hc : Closed v) (hg : Guarded v ms) : ClosedAlong v ms := by
  induction ms generalizing v with
  | nil => exact hc
  | cons m ms ih => exact ⟨hc, ih (closed_step hc m hg.1) hg.2⟩

theorem closedAlong_first {v : View} {ms : List Msg} (h : ClosedAlong v ms) : Closed v := by
  cases ms with
  | nil => exact h
  | cons m ms => exact h.1

theorem closedAlong_last {v : View} {ms : List Msg} (h : ClosedAlong v ms) : Closed (applyMsgs v ms) := by
  induction ms generalizing v with
  | nil => exact h
  | cons m ms ih => exact ih h.2

theorem closedAlong_append {v : View} {a b : List Msg} (ha : ClosedAlong v a) (hb : ClosedAlong (applyMsgs v a) b) :
    ClosedAlong v (a ++ b) := by
  induction a generalizing v with
  | nil => exact hb
  | cons m a ih => exact ⟨ha.1, ih ha.2 hb⟩

/-- every prefix of the burst leaves the client closed -/
theorem closedAlong_take {v : View} {ms : List Msg} (h : ClosedAlong v ms) (k : Nat) : Closed (applyMsgs v (ms.take k)) := by
  induction ms generalizing v k with
  | nil => simp only [List.take_nil, applyMsgs_nil]; exact h
  | cons m ms ih =>
    cases k with
    | zero => exact h.1
    | succ k => exact ih h.2 k

theorem guarded_append {v : View} {a b : List Msg} (ha : Guarded v a) (hb : Guarded (applyMsgs v a) b) : Guarded v (a ++ b) := by
  induction a generalizing v with
  | nil => exact hb
  | cons m a ih => exact ⟨ha.1, ih ha.2 hb⟩

/-! ### segments of one kind -/

/-- `v'` agrees with `v` on the four referential components, except possibly component `k` -/
def AgreeExcept (k : Kind) (v v' : View) : Prop :=
  (k ≠ .ep → v'.ep = v.ep) ∧ (k ≠ .pol → v'.pols = v.pols) ∧ (k ≠ .prof → v'.profs = v.profs) ∧ (k ≠ .ip → v'.ipsets = v.ipsets)

theorem agree_refl (k : Kind) (v : View) : AgreeExcept k v v := ⟨fun _ => rfl, fun _ => rfl, fun _ => rfl, fun _ => rfl⟩

theorem agree_trans {k : Kind} {a b c : View} (h1 : AgreeExcept k a b) (h2 : AgreeExcept k b c) : AgreeExcept k a c :=
  ⟨fun h => (h2.1 h).trans (h1.1 h), fun h => (h2.2.1 h).trans (h1.2.1 h), fun h => (h2.2.2.1 h).trans (h1.2.2.1 h),
   fun h => (h2.2.2.2 h).trans (h1.2.2.2 h)⟩

theorem applyMsg_agree (v : View) (m : Msg) : AgreeExcept m.kind v (applyMsg v m) := by
  cases m <;> exact ⟨fun h => by first | rfl | exact absurd rfl h, fun h => by first | rfl | exact absurd rfl h,
    fun h => by first | rfl | exact absurd rfl h, fun h => by first | rfl | exact absurd rfl h⟩

theorem guard_congr {k : Kind} {v v' : View} {m : Msg} (hk : m.kind = k) (ha : AgreeExcept k v v') (hg : guard v m) : guard v' m := by
  subst hk
  obtain ⟨a1, a2, a3, a4⟩ := ha
  cases m with
  | polUpd id r => have := a4 (by simp [Msg.kind]); simp only [guard] at hg ⊢; rw [this]; exact hg
  | profUpd id r => have := a4 (by simp [Msg.kind]); simp only [guard] at hg ⊢; rw [this]; exact hg
  | epUpd w e =>
    have h2 := a2 (by simp [Msg.kind]); have h3 := a3 (by simp [Msg.kind])
    simp only [guard] at hg ⊢; rw [h2, h3]; exact hg
  | polRm id => have := a1 (by simp [Msg.kind]); simp only [guard] at hg ⊢; rw [this]; exact hg
  | profRm id => have := a1 (by simp [Msg.kind]); simp only [guard] at hg ⊢; rw [this]; exact hg
  | ipRm x =>
    have h2 := a2 (by simp [Msg.kind]); have h3 := a3 (by simp [Msg.kind])
    simp only [guard] at hg ⊢; rw [h2, h3]; exact hg
  | inSync => trivial
  | epRm w => trivial
  | saUpd id x => trivial
  | saRm id => trivial
  | nsUpd id x => trivial
  | nsRm id => trivial
  | ipUpd id ms => trivial
  | ipDelta id a d => trivial

/-- a segment of messages of one kind whose guards all hold at its start is guarded throughout -/
theorem seg_guarded {k : Kind} {v : View} {ms : List Msg} (hk : ∀ m ∈ ms, m.kind = k) (hg : ∀ m ∈ ms, guard v m) :
    ∀ v', AgreeExcept k v v' → Guarded v' ms := by
  induction ms with
  | nil => intro _ _; trivial
  | cons m ms ih =>
    intro v' ha
    have hkm := hk m (by simp)
    refine ⟨guard_congr hkm ha (hg m (by simp)), ?_⟩
    apply ih (fun m' h => hk m' (List.mem_cons_of_mem _ h)) (fun m' h => hg m' (List.mem_cons_of_mem _ h))
    exact agree_trans ha (hkm ▸ applyMsg_agree v' m)

theorem seg_guarded' {k : Kind} {v : View} {ms : List Msg} (hk : ∀ m ∈ ms, m.kind = k) (hg : ∀ m ∈ ms, guard v m) :
    Guarded v ms := seg_guarded hk hg v (agree_refl k v)

/-! ### what the bursts consist of -/

theorem ipAddMsgs_guard {p : Proc} {ids : List Nat} {ms : List Msg} (h : ipAddMsgs p ids = some ms) (v : View) :
    ∀ m ∈ ms, guard v m := by
  induction ids generalizing ms with
  | nil => simp [ipAddMsgs] at h; subst h; simp
  | cons id ids ih =>
    simp only [ipAddMsgs] at h
    cases h1 : p.ipsets.get id with
    | none => simp only [h1] at h; cases h
    | some mem =>
      cases h2 : ipAddMsgs p ids with
      | none => simp only [h1, h2] at h; cases h
      | some rest =>
        simp only [h1, h2, Option.some.injEq] at h
        subst h
        intro m hm
        rcases List.mem_cons.1 hm with rfl | hm
        · trivial
        · exact ih h2 m hm

theorem ipSync_msgs {p : Proc} {ei ei1 : EpInfo} {adds dels : List Msg} (h : ipSync p ei = some (ei1, adds, dels)) :
    (∀ v, ∀ m ∈ adds, guard v m) ∧ (∀ m ∈ dels, ∃ x, m = Msg.ipRm x ∧ x ∈ ei.syncedIP ∧ x ∉ ei1.syncedIP) := by
  unfold ipSync at h
  cases h1 : wantedIP p ei.ep with
  | none => simp only [h1] at h; cases h
  | some newS =>
    simp only [h1] at h
    cases h2 : ipAddMsgs p (newS.filter (fun x => !ei.syncedIP.contains x)) with
    | none => simp only [h2] at h; cases h
    | some adds' =>
      simp only [h2, Option.some.injEq, Prod.mk.injEq] at h
      obtain ⟨rfl, rfl, rfl⟩ := h
      refine ⟨fun v => ipAddMsgs_guard h2 v, fun m hm => ?_⟩
      simp only [List.mem_map, List.mem_filter] at hm
      obtain ⟨x, ⟨hx1, hx2⟩, rfl⟩ := hm
      exact ⟨x, rfl, hx1, by simpa using hx2⟩

theorem syncAdded_msgs {m : AMap Rules} {mk : Nat → Rules → Msg} {ids synced s' : List Nat} {ms : List Msg}
    (h : syncAdded m mk ids synced = some (s', ms)) :
    (∀ x ∈ ms, ∃ id r, x = mk id r ∧ id ∈ ids ∧ m.get id = some r) ∧ (∀ id ∈ ids, id ∈ synced ∨ (m.get id).isSome) := by
  induction ids generalizing synced s' ms with
  | nil => simp [syncAdded] at h; obtain ⟨rfl, rfl⟩ := h; simp
  | cons i ids ih =>
    simp only [syncAdded, List.contains_iff_mem] at h
    by_cases hi : i ∈ synced
    · simp only [hi, if_true] at h
      obtain ⟨a, b⟩ := ih h
      refine ⟨fun x hx => ?_, fun id hid => ?_⟩
      · obtain ⟨id, r, e, hid, hr⟩ := a x hx; exact ⟨id, r, e, List.mem_cons_of_mem _ hid, hr⟩
      · rcases List.mem_cons.1 hid with rfl | hid
        · exact Or.inl hi
        · exact b id hid
    · simp only [hi, if_false] at h
      cases h1 : m.get i with
      | none => simp only [h1] at h; cases h
      | some r =>
        simp only [h1] at h
        cases h2 : syncAdded m mk ids (i :: synced) with
        | none => simp only [h2] at h; cases h
        | some res =>
          obtain ⟨s2, ms2⟩ := res
          simp only [h2, Option.some.injEq, Prod.mk.injEq] at h
          obtain ⟨rfl, rfl⟩ := h
          obtain ⟨a, b⟩ := ih h2
          refine ⟨fun x hx => ?_, fun id hid => ?_⟩
          · rcases List.mem_cons.1 hx with rfl | hx
            · exact ⟨i, r, rfl, by simp, h1⟩
            · obtain ⟨id, r', e, hid, hr⟩ := a x hx; exact ⟨id, r', e, List.mem_cons_of_mem _ hid, hr⟩
          · rcases List.mem_cons.1 hid with rfl | hid
            · exact Or.inr (by simp [h1])
            · rcases b id hid with h' | h'
              · rcases List.mem_cons.1 h' with rfl | h'
                · exact Or.inr (by simp [h1])
                · exact Or.inl h'
              · exact Or.inr h'

/-- **the `maybeSyncEndpoint` burst is guarded**: IP sets, then the policies and profiles naming them, then the
endpoint naming those, then the removals of what the endpoint no longer names, IP sets last. -/
theorem maybeSync_guarded {p : Proc} {w : Nat} {ei ei' : EpInfo} {ms : List Msg} {v : View} {e : Endpoint} {c : Nat}
    (hc : Core p ei v) (he : ei.ep = some e) (ho : ei.output = some c)
    (hexI : ∀ x ∈ ei.syncedIP, (p.ipsets.get x).isSome) (hexP : ∀ id ∈ ei.syncedPol, (p.pols.get id).isSome)
    (hexF : ∀ id ∈ ei.syncedProf, (p.profs.get id).isSome)
    (h : maybeSync p w ei = some (ei', ms)) : Guarded v ms := by
  unfold maybeSync at h
  simp only [he, ho] at h
  cases h1 : ipSync p ei with
  | none => simp only [h1] at h; cases h
  | some r1 =>
    obtain ⟨ei1, adds, dels⟩ := r1
    have ho1 := ipSync_output h1
    simp only [h1] at h
    cases h2 : syncAdded p.pols Msg.polUpd e.pols ei1.syncedPol with
    | none => simp only [h2] at h; cases h
    | some r2 =>
      obtain ⟨sp, polMsgs⟩ := r2
      simp only [h2] at h
      cases h3 : syncAdded p.profs Msg.profUpd e.profs ei1.syncedProf with
      | none => simp only [h3] at h; cases h
      | some r3 =>
        obtain ⟨sf, profMsgs⟩ := r3
        simp only [h3] at h
        cases h4 : syncRemovedLoop e.pols sp [] with
        | none => simp only [h4] at h; cases h
        | some r4 =>
          obtain ⟨oldP, newP⟩ := r4
          cases h5 : syncRemovedLoop e.profs sf [] with
          | none => simp only [h4, h5] at h; cases h
          | some r5 =>
            obtain ⟨oldF, newF⟩ := r5
            simp only [h4, h5, Option.some.injEq, Prod.mk.injEq] at h
            obtain ⟨rfl, rfl⟩ := h
            obtain ⟨kA, kD, eIP, vA, vD, xIP⟩ := ipSync_spec h1 v
            obtain ⟨gA, dD⟩ := ipSync_msgs h1
            have fA := frame_kind kA v
            obtain ⟨kP, sP, vP⟩ := syncAdded_pol_view h2 (applyMsgs v adds)
            obtain ⟨mP, iP⟩ := syncAdded_msgs h2
            have fP := frame_kind kP (applyMsgs v adds)
            obtain ⟨kF, sF, vF⟩ := syncAdded_prof_view h3 (applyMsgs (applyMsgs v adds) polMsgs)
            obtain ⟨mF, iF⟩ := syncAdded_msgs h3
            have fF := frame_kind kF (applyMsgs (applyMsgs v adds) polMsgs)
            obtain ⟨nP, oP, _⟩ := syncRemovedLoop_spec h4
            obtain ⟨nF, oF, _⟩ := syncRemovedLoop_spec h5
            have kE : ∀ m ∈ [Msg.epUpd w e], m.kind = .ep := by intro m hm; simp at hm; subst hm; rfl
            have hsp : ei1.syncedPol = ei.syncedPol := ho1.2.2.2.1
            have hsf : ei1.syncedProf = ei.syncedProf := ho1.2.2.2.2
            rw [he] at eIP
            -- IP sets present after `doAdd`
            have ipOK : ∀ x, neededIP p (some e) x → ((applyMsgs v adds).ipsets x).isSome := by
              intro x hx
              have hx1 := (eIP x).2 hx
              rw [vA x]
              by_cases hx0 : x ∈ ei.syncedIP
              · simp only [hx0, not_true_eq_false, and_false, if_false, hc.ipsets x, if_true]
                have := hexI x hx0
                cases hg : p.ipsets.get x with
                | none => rw [hg] at this; cases this
                | some l => rfl
              · simp only [hx1, hx0, not_false_eq_true, and_self, if_true]
                have := xIP x hx1 hx0
                cases hg : p.ipsets.get x with
                | none => rw [hg] at this; cases this
                | some l => rfl
            have polsC : ∀ id, (applyMsgs (applyMsgs v adds) polMsgs).pols id =
                if id ∈ sp then (if id ∈ ei.syncedPol then v.pols id else p.pols.get id) else v.pols id := by
              intro id
              rw [vP id, fA.2.1 (by decide), hsp]
              by_cases a1 : id ∈ sp <;> by_cases a2 : id ∈ ei.syncedPol <;> simp [a1, a2]
            have profsC : ∀ id, (applyMsgs (applyMsgs (applyMsgs v adds) polMsgs) profMsgs).profs id =
                if id ∈ sf then (if id ∈ ei.syncedProf then v.profs id else p.profs.get id) else v.profs id := by
              intro id
              rw [vF id, fP.2.2.1 (by decide), fA.2.2.1 (by decide), hsf]
              by_cases a1 : id ∈ sf <;> by_cases a2 : id ∈ ei.syncedProf <;> simp [a1, a2]
            -- segment 1: IP set updates
            have g1 : Guarded v adds := seg_guarded' kA (gA v)
            -- segment 2: policies
            have g2 : Guarded (applyMsgs v adds) polMsgs := by
              refine seg_guarded' kP (fun m hm => ?_)
              obtain ⟨id, r, rfl, hid, hr⟩ := mP m hm
              exact fun x hx => ipOK x (Or.inr ⟨id, hid, r, hr, hx⟩)
            -- segment 3: profiles
            have g3 : Guarded (applyMsgs (applyMsgs v adds) polMsgs) profMsgs := by
              refine seg_guarded' kF (fun m hm => ?_)
              obtain ⟨id, r, rfl, hid, hr⟩ := mF m hm
              intro x hx
              rw [fP.2.2.2.1 (by decide)]
              exact ipOK x (Or.inl ⟨id, hid, r, hr, hx⟩)
            -- segment 4: the endpoint
            have g4 : Guarded (applyMsgs (applyMsgs (applyMsgs v adds) polMsgs) profMsgs) [Msg.epUpd w e] := by
              refine ⟨⟨fun id hid => ?_, fun id hid => ?_⟩, trivial⟩
              · rw [fF.2.1 (by decide), polsC id]
                have h1' : id ∈ sp := (sP id).2 (Or.inr hid)
                simp only [h1', if_true]
                by_cases a2 : id ∈ ei.syncedPol
                · simp only [a2, if_true, hc.pols id]; exact hexP id a2
                · simp only [a2, if_false]
                  rcases iP id hid with h' | h'
                  · rw [hsp] at h'; exact absurd h' a2
                  · exact h'
              · rw [profsC id]
                have h1' : id ∈ sf := (sF id).2 (Or.inr hid)
                simp only [h1', if_true]
                by_cases a2 : id ∈ ei.syncedProf
                · simp only [a2, if_true, hc.profs id]; exact hexF id a2
                · simp only [a2, if_false]
                  rcases iF id hid with h' | h'
                  · rw [hsf] at h'; exact absurd h' a2
                  · exact h'
            generalize hC : applyMsgs (applyMsgs (applyMsgs v adds) polMsgs) profMsgs = C at *
            have fE := frame_kind kE C
            have epD : (applyMsgs C [Msg.epUpd w e]).ep = some (w, e) := rfl
            generalize hD : applyMsgs C [Msg.epUpd w e] = D at *
            -- segment 5: policy removals
            have g5 : Guarded D (oldP.map Msg.polRm) := by
              refine seg_guarded' (kind_map_polRm oldP) (fun m hm => ?_)
              simp only [List.mem_map] at hm
              obtain ⟨id, hid, rfl⟩ := hm
              intro w' e' hep
              rw [epD] at hep; cases hep
              exact ((oP id).1 hid).2
            have fRP := frame_kind (kind_map_polRm oldP) D
            have vRP := polRm_view oldP D
            generalize hE : applyMsgs D (oldP.map Msg.polRm) = E at *
            -- segment 6: profile removals
            have g6 : Guarded E (oldF.map Msg.profRm) := by
              refine seg_guarded' (kind_map_profRm oldF) (fun m hm => ?_)
              simp only [List.mem_map] at hm
              obtain ⟨id, hid, rfl⟩ := hm
              intro w' e' hep
              rw [fRP.1 (by decide), epD] at hep; cases hep
              exact ((oF id).1 hid).2
            have fRF := frame_kind (kind_map_profRm oldF) E
            have vRF := profRm_view oldF E
            generalize hF : applyMsgs E (oldF.map Msg.profRm) = F at *
            -- segment 7: IP set removals
            have g7 : Guarded F dels := by
              refine seg_guarded' kD (fun m hm => ?_)
              obtain ⟨x, rfl, hx0, hx1⟩ := dD m hm
              refine ⟨fun id r hr hxr => ?_, fun id r hr hxr => ?_⟩
              · rw [fRF.2.1 (by decide), vRP id] at hr
                by_cases hio : id ∈ oldP
                · simp [hio] at hr
                · simp only [hio, if_false] at hr
                  rw [fE.2.1 (by decide), fF.2.1 (by decide), polsC id] at hr
                  have hget : p.pols.get id = some r ∧ id ∈ sp := by
                    by_cases a1 : id ∈ sp
                    · by_cases a2 : id ∈ ei.syncedPol
                      · simp only [a1, a2, if_true, hc.pols id] at hr; exact ⟨hr, a1⟩
                      · simp only [a1, a2, if_true, if_false] at hr; exact ⟨hr, a1⟩
                    · simp only [a1, if_false, hc.pols id] at hr
                      by_cases a2 : id ∈ ei.syncedPol
                      · exact absurd ((sP id).2 (Or.inl (hsp ▸ a2))) a1
                      · simp [a2] at hr
                  have hin : id ∈ e.pols := by
                    by_cases h' : id ∈ e.pols
                    · exact h'
                    · exact absurd ((oP id).2 ⟨hget.2, h'⟩) hio
                  exact hx1 ((eIP x).2 (Or.inr ⟨id, hin, r, hget.1, hxr⟩))
              · rw [vRF id] at hr
                by_cases hio : id ∈ oldF
                · simp [hio] at hr
                · simp only [hio, if_false] at hr
                  rw [fRP.2.2.1 (by decide), fE.2.2.1 (by decide), profsC id] at hr
                  have hget : p.profs.get id = some r ∧ id ∈ sf := by
                    by_cases a1 : id ∈ sf
                    · by_cases a2 : id ∈ ei.syncedProf
                      · simp only [a1, a2, if_true, hc.profs id] at hr; exact ⟨hr, a1⟩
                      · simp only [a1, a2, if_true, if_false] at hr; exact ⟨hr, a1⟩
                    · simp only [a1, if_false, hc.profs id] at hr
                      by_cases a2 : id ∈ ei.syncedProf
                      · exact absurd ((sF id).2 (Or.inl (hsf ▸ a2))) a1
                      · simp [a2] at hr
                  have hin : id ∈ e.profs := by
                    by_cases h' : id ∈ e.profs
                    · exact h'
                    · exact absurd ((oF id).2 ⟨hget.2, h'⟩) hio
                  exact hx1 ((eIP x).2 (Or.inl ⟨id, hin, r, hget.1, hxr⟩))
            -- glue the seven segments
            have a2 : Guarded v (adds ++ polMsgs) := guarded_append g1 g2
            have a3 : Guarded v (adds ++ polMsgs ++ profMsgs) := guarded_append a2 (by rw [applyMsgs_append]; exact g3)
            have a4 : Guarded v (adds ++ polMsgs ++ profMsgs ++ [Msg.epUpd w e]) :=
              guarded_append a3 (by rw [applyMsgs_append, applyMsgs_append, hC]; exact g4)
            have a5 : Guarded v (adds ++ polMsgs ++ profMsgs ++ [Msg.epUpd w e] ++ oldP.map Msg.polRm) :=
              guarded_append a4 (by rw [applyMsgs_append, applyMsgs_append, applyMsgs_append, hC, hD]; exact g5)
            have a6 : Guarded v (adds ++ polMsgs ++ profMsgs ++ [Msg.epUpd w e] ++ oldP.map Msg.polRm ++ oldF.map Msg.profRm) :=
              guarded_append a5 (by rw [applyMsgs_append, applyMsgs_append, applyMsgs_append, applyMsgs_append, hC, hD, hE]; exact g6)
            exact guarded_append a6 (by
              rw [applyMsgs_append, applyMsgs_append, applyMsgs_append, applyMsgs_append, applyMsgs_append, hC, hD, hE, hF]; exact g7)

theorem guarded_of_trivial {ms : List Msg} (h : ∀ x ∈ ms, ∀ v, guard v x) (v : View) : Guarded v ms := by
  induction ms generalizing v with
  | nil => trivial
  | cons m ms ih => exact ⟨h m (by simp) v, ih (fun x hx => h x (List.mem_cons_of_mem _ hx)) _⟩

/-- **a policy update's burst is guarded**: new IP sets first, then the policy, then the IP sets nobody names any more -/
theorem refreshPol_guarded {p : Proc} {w id : Nat} {r : Rules} {ei ei' : EpInfo} {ms : List Msg} {v : View}
    (hok : EpOK p w ei v) (hexI : ∀ x ∈ ei.syncedIP, (p.ipsets.get x).isSome)
    (h : refreshOne { p with pols := p.pols.set id r } true id (Msg.polUpd id r) ei = some (ei', ms)) :
    Guarded v ms := by
  unfold refreshOne at h
  by_cases hl : (epList true ei.ep).contains id = true
  · simp only [hl, if_true] at h
    cases h1 : ipSync { p with pols := p.pols.set id r } ei with
    | none => simp only [h1] at h; cases h
    | some r1 =>
      obtain ⟨ei1, adds, dels⟩ := r1
      simp only [h1, Option.some.injEq, Prod.mk.injEq] at h
      obtain ⟨rfl, rfl⟩ := h
      obtain ⟨kA, kD, eIP, vA, vD, xIP⟩ := ipSync_spec h1 v
      obtain ⟨gA, dD⟩ := ipSync_msgs h1
      have fA := frame_kind kA v
      have hlid : id ∈ epPols ei.ep := by simpa [epList] using hl
      have hgetid : ({ p with pols := p.pols.set id r } : Proc).pols.get id = some r := AMap.get_set_eq _ _ _
      have g1 : Guarded v adds := seg_guarded' kA (gA v)
      have g2 : Guarded (applyMsgs v adds) [Msg.polUpd id r] := by
        refine ⟨fun x hx => ?_, trivial⟩
        have hx1 : x ∈ ei1.syncedIP := (eIP x).2 (Or.inr ⟨id, hlid, r, hgetid, hx⟩)
        rw [vA x]
        by_cases hx0 : x ∈ ei.syncedIP
        · simp only [hx0, not_true_eq_false, and_false, if_false, hok.core.ipsets x, if_true]
          have := hexI x hx0
          cases hg : p.ipsets.get x with
          | none => rw [hg] at this; cases this
          | some l => rfl
        · simp only [hx1, hx0, not_false_eq_true, and_self, if_true]
          have := xIP x hx1 hx0
          cases hg : ({ p with pols := p.pols.set id r } : Proc).ipsets.get x with
          | none => rw [hg] at this; cases this
          | some l => rfl
      have g3 : Guarded (applyMsgs (applyMsgs v adds) [Msg.polUpd id r]) dels := by
        refine seg_guarded' kD (fun m hm => ?_)
        obtain ⟨x, rfl, hx0, hx1⟩ := dD m hm
        refine ⟨fun k r' hr hxr => ?_, fun k r' hr hxr => ?_⟩
        · have hr' : upd (applyMsgs v adds).pols id (some r) k = some r' := hr
          rw [fA.2.1 (by decide)] at hr'
          simp only [upd] at hr'
          by_cases hk : k = id
          · simp only [hk, if_true, Option.some.injEq] at hr'; subst hr'
            exact hx1 ((eIP x).2 (Or.inr ⟨id, hlid, r, hgetid, hxr⟩))
          · simp only [hk, if_false, hok.core.pols k] at hr'
            by_cases hks : k ∈ ei.syncedPol
            · simp only [hks, if_true] at hr'
              have hkin : k ∈ epPols ei.ep := (hok.exact.pols k).1 hks
              have hget : ({ p with pols := p.pols.set id r } : Proc).pols.get k = some r' := by
                show (p.pols.set id r).get k = some r'
                rw [AMap.get_set_ne _ _ hk]; exact hr'
              exact hx1 ((eIP x).2 (Or.inr ⟨k, hkin, r', hget, hxr⟩))
            · simp [hks] at hr'
        · have hr' : (applyMsgs v adds).profs k = some r' := hr
          rw [fA.2.2.1 (by decide), hok.core.profs k] at hr'
          by_cases hks : k ∈ ei.syncedProf
          · simp only [hks, if_true] at hr'
            exact hx1 ((eIP x).2 (Or.inl ⟨k, (hok.exact.profs k).1 hks, r', hr', hxr⟩))
          · simp [hks] at hr'
      exact guarded_append (guarded_append g1 g2) (by rw [applyMsgs_append]; exact g3)
  · simp only [hl] at h
    simp only [Bool.false_eq_true, if_false, Option.some.injEq, Prod.mk.injEq] at h
    obtain ⟨_, rfl⟩ := h
    trivial

/-- **a profile update's burst is guarded** -/
theorem refreshProf_guarded {p : Proc} {w id : Nat} {r : Rules} {ei ei' : EpInfo} {ms : List Msg} {v : View}
    (hok : EpOK p w ei v) (hexI : ∀ x ∈ ei.syncedIP, (p.ipsets.get x).isSome)
    (h : refreshOne { p with profs := p.profs.set id r } false id (Msg.profUpd id r) ei = some (ei', ms)) :
    Guarded v ms := by
  unfold refreshOne at h
  by_cases hl : (epList false ei.ep).contains id = true
  · simp only [hl, if_true] at h
    cases h1 : ipSync { p with profs := p.profs.set id r } ei with
    | none => simp only [h1] at h; cases h
    | some r1 =>
      obtain ⟨ei1, adds, dels⟩ := r1
      simp only [h1, Option.some.injEq, Prod.mk.injEq] at h
      obtain ⟨rfl, rfl⟩ := h
      obtain ⟨kA, kD, eIP, vA, vD, xIP⟩ := ipSync_spec h1 v
      obtain ⟨gA, dD⟩ := ipSync_msgs h1
      have fA := frame_kind kA v
      have hlid : id ∈ epProfs ei.ep := by simpa [epList] using hl
      have hgetid : ({ p with profs := p.profs.set id r } : Proc).profs.get id = some r := AMap.get_set_eq _ _ _
      have g1 : Guarded v adds := seg_guarded' kA (gA v)
      have g2 : Guarded (applyMsgs v adds) [Msg.profUpd id r] := by
        refine ⟨fun x hx => ?_, trivial⟩
        have hx1 : x ∈ ei1.syncedIP := (eIP x).2 (Or.inl ⟨id, hlid, r, hgetid, hx⟩)
        rw [vA x]
        by_cases hx0 : x ∈ ei.syncedIP
        · simp only [hx0, not_true_eq_false, and_false, if_false, hok.core.ipsets x, if_true]
          have := hexI x hx0
          cases hg : p.ipsets.get x with
          | none => rw [hg] at this; cases this
          | some l => rfl
        · simp only [hx1, hx0, not_false_eq_true, and_self, if_true]
          have := xIP x hx1 hx0
          cases hg : ({ p with profs := p.profs.set id r } : Proc).ipsets.get x with
          | none => rw [hg] at this; cases this
          | some l => rfl
      have g3 : Guarded (applyMsgs (applyMsgs v adds) [Msg.profUpd id r]) dels := by
        refine seg_guarded' kD (fun m hm => ?_)
        obtain ⟨x, rfl, hx0, hx1⟩ := dD m hm
        refine ⟨fun k r' hr hxr => ?_, fun k r' hr hxr => ?_⟩
        · have hr' : (applyMsgs v adds).pols k = some r' := hr
          rw [fA.2.1 (by decide), hok.core.pols k] at hr'
          by_cases hks : k ∈ ei.syncedPol
          · simp only [hks, if_true] at hr'
            exact hx1 ((eIP x).2 (Or.inr ⟨k, (hok.exact.pols k).1 hks, r', hr', hxr⟩))
          · simp [hks] at hr'
        · have hr' : upd (applyMsgs v adds).profs id (some r) k = some r' := hr
          rw [fA.2.2.1 (by decide)] at hr'
          simp only [upd] at hr'
          by_cases hk : k = id
          · simp only [hk, if_true, Option.some.injEq] at hr'; subst hr'
            exact hx1 ((eIP x).2 (Or.inl ⟨id, hlid, r, hgetid, hxr⟩))
          · simp only [hk, if_false, hok.core.profs k] at hr'
            by_cases hks : k ∈ ei.syncedProf
            · simp only [hks, if_true] at hr'
              have hkin : k ∈ epProfs ei.ep := (hok.exact.profs k).1 hks
              have hget : ({ p with profs := p.profs.set id r } : Proc).profs.get k = some r' := by
                show (p.profs.set id r).get k = some r'
                rw [AMap.get_set_ne _ _ hk]; exact hr'
              exact hx1 ((eIP x).2 (Or.inl ⟨k, hkin, r', hget, hxr⟩))
            · simp [hks] at hr'
      exact guarded_append (guarded_append g1 g2) (by rw [applyMsgs_append]; exact g3)
  · simp only [hl] at h
    simp only [Bool.false_eq_true, if_false, Option.some.injEq, Prod.mk.injEq] at h
    obtain ⟨_, rfl⟩ := h
    trivial

theorem ipUpdOne_guarded {p1 : Proc} {id : Nat} {ms0 : List Nat} {ei ei' : EpInfo} {ms : List Msg}
    (h : ipUpdOne p1 id ms0 ei = some (ei', ms)) (v : View) : Guarded v ms := by
  unfold ipUpdOne at h
  cases h1 : referencesIP p1 ei id with
  | none => simp only [h1] at h; cases h
  | some b =>
    cases b <;> (simp only [h1, Option.some.injEq, Prod.mk.injEq] at h; obtain ⟨_, rfl⟩ := h)
    · trivial
    · exact ⟨trivial, trivial⟩

theorem ipDeltaOne_guarded {p1 : Proc} {id : Nat} {a d : List Nat} {ei ei' : EpInfo} {ms : List Msg}
    (h : ipDeltaOne p1 id a d ei = some (ei', ms)) (v : View) : Guarded v ms := by
  unfold ipDeltaOne at h
  cases h1 : referencesIP p1 ei id with
  | none => simp only [h1] at h; cases h
  | some b =>
    cases b <;> (simp only [h1, Option.some.injEq, Prod.mk.injEq] at h; obtain ⟨_, rfl⟩ := h)
    · trivial
    · exact ⟨trivial, trivial⟩

end CalicoVerif.C31
