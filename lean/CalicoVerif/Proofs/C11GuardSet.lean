import CalicoVerif.Proofs.C11IpSet6
/-!
C11 — guards for the IP-set match fragments (`writeIPSetMatch`,
`writeIPSetOrMatch`) and the ports fragment (`writePortsMatch`, numeric ranges
and named-port IP sets), IPv4 and IPv6.
-/
namespace CalicoVerif.C11

theorem labelsOf_lookup (c : Cfg) (id : Nat) (leg : Leg) (hv6 : c.v6 = false) : labelsOf (ipSetLookup c id leg) = [] := by
  rw [ipSetLookup_eq c id leg hv6]
  simp [lookupEvs, keyEvs, loadMapFD, labelsOf, movImm64, movImm32, mov64, call, mk]

theorem step_jne_r0 (env : Env) (m : Mach) (b : Bool)
    (h : m.reg 0 = some (if b then BitVec.ofNat 64 ipsetValPtr else 0)) :
    step env ⟨opJumpNEImm64, 0, 0, 0, 0⟩ none m = if b then .taken m else .next m := by
  rw [step_jcond64 (env := env) opJumpNEImm64 0 0 0 none _ (Or.inr (Or.inl rfl)) h]
  cases b <;> simp [cond, opJumpNEImm64, sext32, ipsetValPtr]

theorem step_jeq_r0 (env : Env) (m : Mach) (b : Bool)
    (h : m.reg 0 = some (if b then BitVec.ofNat 64 ipsetValPtr else 0)) :
    step env ⟨opJumpEqImm64, 0, 0, 0, 0⟩ none m = if b then .next m else .taken m := by
  rw [step_jcond64 (env := env) opJumpEqImm64 0 0 0 none _ (Or.inl rfl) h]
  cases b <;> simp [cond, opJumpEqImm64, sext32, ipsetValPtr]

/-- Hypotheses shared by the IP-set lemmas. -/
structure SetCtx (env : Env) (st : List Byte) : Prop where
  len : st.length = 512
  fd : mapHandle env.c.ipSetMapFD ≠ mapHandle env.c.stateMapFD

/-- One IP set as an independent criterion. -/
theorem guard_ipset1 (env : Env) (st : List Byte) (hc : SetCtx env st) (L : Label) (neg : Bool) (leg : Leg) (id : Nat)
    (hid : id < 2 ^ 64) :
    Guard env st L (ipSetLookup env.c id leg ++
        [if neg then jumpNEImm64 R0 0 L else jumpEqImm64 R0 0 L])
      (if neg then !(memRef env (pktOfD st) leg id) else memRef env (pktOfD st) leg id) := by
  intro rest m hI
  obtain ⟨m', hI', hr, he⟩ := lrun_ipSetLookup' env st id leg
    ([if neg then jumpNEImm64 R0 0 L else jumpEqImm64 R0 0 L] ++ rest) m hI hc.fd hid
  refine ⟨m', hI', ?_⟩
  rw [List.append_assoc, he]
  cases neg with
  | true =>
    simp only [if_true, List.cons_append, List.nil_append, jumpNEImm64, mkJ, R0]
    have hs := step_jne_r0 env m' _ hr
    cases hb : memRef env (pktOfD st) leg id with
    | true => rw [hb] at hs; simpa using lrun_jmp_taken (by decide) hs
    | false => rw [hb] at hs; simpa using lrun_jmp_next (by decide) hs
  | false =>
    simp only [Bool.false_eq_true, if_false, List.cons_append, List.nil_append, jumpEqImm64, mkJ, R0]
    have hs := step_jeq_r0 env m' _ hr
    cases hb : memRef env (pktOfD st) leg id with
    | true => rw [hb] at hs; simpa using lrun_jmp_next (by decide) hs
    | false => rw [hb] at hs; simpa using lrun_jmp_taken (by decide) hs

/-- `writeIPSetMatch`: all sets must (not) match. -/
theorem guard_ipSetMatch (env : Env) (st : List Byte) (hc : SetCtx env st) (rid : Nat) (neg : Bool) (leg : Leg) :
    ∀ ids : List Nat, (∀ id ∈ ids, id < 2 ^ 64) →
      Guard env st (.ruleNoMatch rid) (ipSetMatch env.c rid neg leg ids)
        (ids.all (fun id => if neg then !(memRef env (pktOfD st) leg id) else memRef env (pktOfD st) leg id)) ∧
      labelsOf (ipSetMatch env.c rid neg leg ids) = [] := by
  intro ids
  induction ids with
  | nil => intro _; exact ⟨Guard.nil env st _, rfl⟩
  | cons id ids ih =>
    intro h
    obtain ⟨g, hl⟩ := ih (fun i hi => h i (List.mem_cons_of_mem _ hi))
    have g1 := guard_ipset1 env st hc (.ruleNoMatch rid) neg leg id (h id (List.mem_cons_self))
    have hshape : ipSetMatch env.c rid neg leg (id :: ids) =
        (ipSetLookup env.c id leg ++ [if neg then jumpNEImm64 R0 0 (.ruleNoMatch rid) else jumpEqImm64 R0 0 (.ruleNoMatch rid)]) ++
          ipSetMatch env.c rid neg leg ids := by
      simp [ipSetMatch]
    rw [hshape]
    refine ⟨?_, ?_⟩
    · have := Guard.append g1 g (by rw [hl]; simp)
      simpa [List.all_cons] using this
    · rw [labelsOf_append, labelsOf_append, labelsOf_lookup' env.c id leg, hl]
      cases neg <;> simp [labelsOf, jumpNEImm64, jumpEqImm64, mkJ]

/-! ### From "tests that jump on a hit" to guards -/

/-- Negated criterion: a hit jumps to the rule's no-match label. -/
theorem Guard.of_decides_neg {env : Env} {st : List Byte} {L : Label} {T : List Ev} {hit : Bool}
    (h : Decides env st T (if hit then some L else none)) : Guard env st L T (!hit) := by
  intro rest m hI
  obtain ⟨m', hI', e⟩ := h rest m hI
  refine ⟨m', hI', ?_⟩
  rw [e]; cases hit <;> simp

/-- Positive criterion: a hit jumps to the fresh label `P` placed after the
"no hit ⇒ no match" jump. -/
theorem Guard.of_decides_pos {env : Env} {st : List Byte} {L P : Label} {T : List Ev} {hit : Bool}
    (h : Decides env st T (if hit then some P else none)) (hne : P ≠ L) :
    Guard env st L (T ++ [jump L, .label P]) hit := by
  intro rest m hI
  obtain ⟨m', hI', e⟩ := h ([jump L, .label P] ++ rest) m hI
  refine ⟨m', hI', ?_⟩
  rw [List.append_assoc, e]
  cases hit with
  | true =>
    simp only [if_true, List.cons_append, List.nil_append]
    unfold jump mkJ
    rw [goto_cons_jmp, goto_label_self]
  | false =>
    simp only [Bool.false_eq_true, if_false, List.cons_append, List.nil_append]
    rw [lrun_jump, goto_cons_label_ne env rest m' hne]

/-- One "jump to `P` if the packet is in the set" test. -/
theorem decides_ipset_test (env : Env) (st : List Byte) (hc : SetCtx env st) (P : Label) (leg : Leg) (id : Nat)
    (hid : id < 2 ^ 64) :
    Decides env st (ipSetLookup env.c id leg ++ [jumpNEImm64 R0 0 P])
      (if memRef env (pktOfD st) leg id then some P else none) := by
  intro rest m hI
  obtain ⟨m', hI', hr, he⟩ := lrun_ipSetLookup' env st id leg ([jumpNEImm64 R0 0 P] ++ rest) m hI hc.fd hid
  refine ⟨m', hI', ?_⟩
  rw [List.append_assoc, he]
  simp only [List.cons_append, List.nil_append, jumpNEImm64, mkJ, R0]
  have hs := step_jne_r0 env m' _ hr
  cases hb : memRef env (pktOfD st) leg id with
  | true => rw [hb] at hs; simpa using lrun_jmp_taken (by decide) hs
  | false => rw [hb] at hs; simpa using lrun_jmp_next (by decide) hs

/-- A list of such tests: first hit jumps. -/
theorem decides_ipset_tests (env : Env) (st : List Byte) (hc : SetCtx env st) (P : Label) (leg : Leg) :
    ∀ ids : List Nat, (∀ id ∈ ids, id < 2 ^ 64) →
      Decides env st (ids.flatMap (fun id => ipSetLookup env.c id leg ++ [jumpNEImm64 R0 0 P]))
        (if ids.any (memRef env (pktOfD st) leg) then some P else none) ∧
      labelsOf (ids.flatMap (fun id => ipSetLookup env.c id leg ++ [jumpNEImm64 R0 0 P])) = [] := by
  intro ids
  induction ids with
  | nil => intro _; exact ⟨Decides.nil env st, rfl⟩
  | cons id ids ih =>
    intro h
    obtain ⟨d, hl⟩ := ih (fun i hi => h i (List.mem_cons_of_mem _ hi))
    have d1 := decides_ipset_test env st hc P leg id (h id (List.mem_cons_self))
    simp only [List.flatMap_cons]
    refine ⟨?_, ?_⟩
    · have := Decides.seq d1 d (by intro l _; rw [hl]; simp)
      cases hb : memRef env (pktOfD st) leg id <;> simpa [List.any_cons, hb] using this
    · rw [labelsOf_append, labelsOf_append, labelsOf_lookup' env.c id leg, hl]
      simp [labelsOf, jumpNEImm64, mkJ]

/-- `writeIPSetOrMatch`. -/
theorem guard_ipSetOrMatch (env : Env) (st : List Byte) (hc : SetCtx env st) (rid part : Nat) (leg : Leg)
    (ids : List Nat) (h : ∀ id ∈ ids, id < 2 ^ 64) :
    Guard env st (.ruleNoMatch rid) (ipSetOrMatch env.c rid part leg ids).1 (ids.any (memRef env (pktOfD st) leg)) ∧
    labelsOf (ipSetOrMatch env.c rid part leg ids).1 = [.rulePart rid part] := by
  obtain ⟨d, hl⟩ := decides_ipset_tests env st hc (.rulePart rid part) leg ids h
  refine ⟨?_, ?_⟩
  · exact Guard.of_decides_pos d (by simp)
  · simp only [ipSetOrMatch, labelsOf_append, hl]
    simp [labelsOf, jump, mkJ]

end CalicoVerif.C11
