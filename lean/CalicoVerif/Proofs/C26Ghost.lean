import CalicoVerif.Proofs.C26Loop
/-!
C26 — the resync loop with two ghosts: the LAST successfully listed snapshot consumed, and whether any
List completed (ok or "API not installed").  The ghosts do not influence the run (`resyncLoopG_proj`); they
let the theorems say WHICH snapshot the cache holds when the watch is created, and that InSync is only
ever announced after a completed List.
-/
namespace CalicoVerif.C26

def ghostList (lo : ListOut) (g : Option (List KV)) : Option (List KV) :=
  match lo with
  | .ok kvs _ => some kvs
  | .pollStop => some []
  | _ => g

def ghostListed (lo : ListOut) (b : Bool) : Bool :=
  match lo with
  | .ok _ _ => true
  | .notFound => true
  | .pollStop => true
  | _ => b

/-- `resyncLoop` carrying the ghosts `g` (last successful List) and `b` (some List completed). -/
def resyncLoopG (fin : List KV × Nat) :
    Nat → WC → Bool → List ListOut → List WatchOut → Option (List KV) → Bool → Option (WC × Option (List KV) × Bool)
  | 0, _, _, _, _, _, _ => none
  | fuel + 1, wc, full, lists, watches, g, b =>
    let full := full || wc.rev = 0
    let lo := lists.headD (ListOut.ok fin.1 fin.2)
    let r : WC × Bool × Bool := if full then listStep wc lo else (wc, false, true)
    let g := if full then ghostList lo g else g
    let b := if full then ghostListed lo b else b
    let lists := if full then lists.tail else lists
    if full && lo.isPollStop then some (r.1, g, b)
    else if !r.2.2 then resyncLoopG fin fuel r.1 r.2.1 lists watches g b
    else
      let w := watchStep r.1 r.2.1 (watches.headD WatchOut.ok)
      if w.2.2 then some (w.1, g, b) else resyncLoopG fin fuel w.1 w.2.1 lists watches.tail g b

/-- The ghosts are only observers. -/
theorem resyncLoopG_proj (fin : List KV × Nat) :
    ∀ (fuel : Nat) (wc : WC) (full : Bool) (lists : List ListOut) (watches : List WatchOut)
      (g : Option (List KV)) (b : Bool),
      (resyncLoopG fin fuel wc full lists watches g b).map (·.1) = resyncLoop fin fuel wc full lists watches := by
  intro fuel
  induction fuel with
  | zero => intros; rfl
  | succ n ih =>
    intro wc full lists watches g b
    unfold resyncLoopG resyncLoop
    simp only
    generalize (if (full || decide (wc.rev = 0)) = true then listStep wc (lists.headD (ListOut.ok fin.1 fin.2))
      else (wc, false, true)) = r
    generalize (if (full || decide (wc.rev = 0)) = true then lists.tail else lists) = ls
    generalize (if (full || decide (wc.rev = 0)) = true then ghostList (lists.headD (ListOut.ok fin.1 fin.2)) g
      else g) = g'
    generalize (if (full || decide (wc.rev = 0)) = true then ghostListed (lists.headD (ListOut.ok fin.1 fin.2)) b
      else b) = b'
    split
    · rfl
    · split
      · exact ih _ _ _ _ _ _
      · split
        · rfl
        · exact ih _ _ _ _ _ _

/-- The cache holds exactly the conversion of `L` by a FRESH processor, and the processor's state is the one a
fresh processor has after `L`. -/
def ViewIs (p : Option Proc) (L : List KV) (wc : WC) : Prop :=
  (∀ k, view wc k = (convSeq p [] L).foldl applyKV emptyView k) ∧ wc.pst = convState p [] L

theorem ViewIs.of_eq {p : Option Proc} {L : List KV} {wc w : WC} (h : ViewIs p L wc)
    (hr : w.res = wc.res) (ho : w.old = wc.old) (hp : w.pst = wc.pst) : ViewIs p L w := by
  refine ⟨fun k => ?_, by rw [hp]; exact h.2⟩
  rw [← h.1 k]
  simp [view, oldLookup, hr, ho]

/-! ### results that are not a new InSync -/

/-- Every result `w` has emitted beyond `wc` is something other than `status InSync`. -/
def NoNewInSync (wc w : WC) : Prop := ∀ r ∈ w.out, r ∈ wc.out ∨ r ≠ Res.status stInSync

theorem NoNewInSync.refl (wc : WC) : NoNewInSync wc wc := fun _ h => Or.inl h

theorem NoNewInSync.of_out {wc w : WC} (h : w.out = wc.out) : NoNewInSync wc w := fun r hr => Or.inl (h ▸ hr)

theorem NoNewInSync.trans {a b c : WC} (h1 : NoNewInSync a b) (h2 : NoNewInSync b c) : NoNewInSync a c := by
  intro r hr
  rcases h2 r hr with h | h
  · exact h1 r h
  · exact Or.inr h

theorem NoNewInSync.send {wc : WC} (r : Res) (hr : r ≠ Res.status stInSync) : NoNewInSync wc (wc.send r) := by
  intro x hx
  cases r with
  | status s =>
    simp only [WC.send] at hx
    split at hx
    · exact Or.inl hx
    · rcases List.mem_append.mp hx with h | h
      · exact Or.inl h
      · simp only [List.mem_singleton] at h; right; rw [h]; exact hr
  | updates us =>
    rcases List.mem_append.mp hx with h | h
    · exact Or.inl h
    · simp only [List.mem_singleton] at h; right; rw [h]; exact hr
  | convErr =>
    rcases List.mem_append.mp hx with h | h
    · exact Or.inl h
    · simp only [List.mem_singleton] at h; right; rw [h]; exact hr
  | backendErr =>
    rcases List.mem_append.mp hx with h | h
    · exact Or.inl h
    · simp only [List.mem_singleton] at h; right; rw [h]; exact hr

theorem nn_handleConverted (wc : WC) (kv : KV) : NoNewInSync wc (wc.handleConverted kv) := by
  have hm : NoNewInSync wc (wc.markAsValid kv.key) := NoNewInSync.of_out (markAsValid_out _ _)
  unfold WC.handleConverted WC.handleDeleted WC.handleAddMod
  split
  · simp only
    split
    · refine hm.trans (NoNewInSync.trans (NoNewInSync.send _ (by simp)) (NoNewInSync.of_out rfl))
    · exact hm
  · simp only
    split
    · split
      · exact hm
      · refine hm.trans (NoNewInSync.trans (NoNewInSync.send _ (by simp)) (NoNewInSync.of_out rfl))
    · refine hm.trans (NoNewInSync.trans (NoNewInSync.send _ (by simp)) (NoNewInSync.of_out rfl))

theorem nn_handleWatchListEvent (wc : WC) (kv : KV) : NoNewInSync wc (wc.handleWatchListEvent kv) := by
  have fold : ∀ (c : List KV) (w : WC), NoNewInSync w (c.foldl WC.handleConverted w) := by
    intro c
    induction c with
    | nil => intro w; exact NoNewInSync.refl w
    | cons x xs ih => intro w; simp only [List.foldl_cons]; exact (nn_handleConverted w x).trans (ih _)
  have h0 : NoNewInSync wc { wc with rev := kv.rev, errCount := 0, pst := (procRun wc.proc wc.pst kv).1 } :=
    NoNewInSync.of_out rfl
  unfold WC.handleWatchListEvent
  simp only
  split
  · exact h0.trans ((fold _ _).trans (NoNewInSync.send _ (by simp)))
  · exact h0.trans (fold _ _)

theorem nn_eventLoop (evs : List Ev) (wc : WC) : NoNewInSync wc (eventLoop wc evs) := by
  induction evs generalizing wc with
  | nil => exact NoNewInSync.refl wc
  | cons ev evs ih =>
    cases ev with
    | upsert kv => simp only [eventLoop]; exact (nn_handleWatchListEvent wc kv).trans (ih _)
    | delete kv => simp only [eventLoop]; exact (nn_handleWatchListEvent wc _).trans (ih _)
    | bookmark r =>
      simp only [eventLoop]
      exact (NoNewInSync.of_out (wc := wc) (w := { wc with rev := r, errCount := 0 }) rfl).trans (ih _)
    | errExpired => simp only [eventLoop]; exact NoNewInSync.of_out rfl
    | errOther => simp only [eventLoop]; split <;> exact NoNewInSync.of_out rfl
    | unknown => simp only [eventLoop]; exact ih wc

theorem nn_sendDels (wc : WC) : NoNewInSync wc wc.sendDels := by
  unfold WC.sendDels
  generalize sortKeys (keysOf wc.res) = ks
  induction ks generalizing wc with
  | nil => exact NoNewInSync.refl wc
  | cons k ks ih =>
    simp only [List.foldl_cons]
    exact (NoNewInSync.send (wc := wc) (.updates [delUpd k]) (by simp)).trans (ih _)

theorem nn_sendDeletionsForAll (wc : WC) : NoNewInSync wc wc.sendDeletionsForAll := by
  unfold WC.sendDeletionsForAll
  have h1 : NoNewInSync wc wc.leaveWaitIfAny := by
    unfold WC.leaveWaitIfAny
    split
    · exact NoNewInSync.send _ (by simp [stResync, stInSync])
    · exact NoNewInSync.refl wc
  exact h1.trans ((nn_sendDels _).trans (NoNewInSync.of_out rfl))

theorem nn_beginFull (wc : WC) : NoNewInSync wc wc.beginFull := by
  unfold WC.beginFull
  simp only
  have h0 : NoNewInSync wc { wc with listPolling := false, watchPolling := false } := NoNewInSync.of_out rfl
  split
  · split
    · exact h0.trans (NoNewInSync.send _ (by simp [stResync, stInSync]))
    · exact h0.trans (NoNewInSync.send _ (by simp [stWait, stInSync]))
  · exact h0

theorem nn_watchStep (wc : WC) (full : Bool) (wo : WatchOut) : NoNewInSync wc (watchStep wc full wo).1 := by
  unfold watchStep
  cases wo with
  | ok => exact NoNewInSync.refl wc
  | expired => exact NoNewInSync.of_out rfl
  | connRefused e => simp only; split <;> first | exact NoNewInSync.of_out rfl | exact NoNewInSync.refl wc
  | notSupported => exact NoNewInSync.of_out rfl
  | other => exact NoNewInSync.of_out rfl

/-- A List step that did not complete a List emits no InSync. -/
theorem nn_listStep (wc : WC) (lo : ListOut) (h : ghostListed lo false = false) :
    NoNewInSync wc (listStep wc lo).1 := by
  unfold listStep
  simp only
  cases lo with
  | notFound => simp [ghostListed] at h
  | ok kvs r => simp [ghostListed] at h
  | pollStop => simp [ghostListed] at h
  | expired =>
    simp only [WC.onListExpired]
    exact (nn_beginFull wc).trans (NoNewInSync.of_out rfl)
  | other e =>
    simp only [WC.onListOther]
    refine (nn_beginFull wc).trans ?_
    split
    · have hx : ∀ w : WC, w.out = wc.beginFull.out →
          NoNewInSync wc.beginFull (if (w.send .backendErr).sendDeletesOnConnFail then
            (w.send .backendErr).sendDeletionsForAll else w.send .backendErr) := by
        intro w hw
        have h1 : NoNewInSync wc.beginFull (w.send .backendErr) :=
          (NoNewInSync.of_out hw).trans (NoNewInSync.send _ (by simp))
        split
        · exact h1.trans (nn_sendDeletionsForAll _)
        · exact h1
      exact hx _ rfl
    · exact NoNewInSync.of_out rfl

/-- "Either a List has completed, or no InSync has been emitted so far." -/
def ListedOrSilent (wc : WC) (b : Bool) : Prop := b = true ∨ Res.status stInSync ∉ wc.out

theorem ListedOrSilent.step {wc w : WC} {b : Bool} (h : ListedOrSilent wc b) (hn : NoNewInSync wc w) :
    ListedOrSilent w b := by
  rcases h with h | h
  · exact Or.inl h
  · right
    intro c
    rcases hn _ c with h1 | h1
    · exact h h1
    · exact h1 rfl

theorem resyncLoopG_insync (fin : List KV × Nat) :
    ∀ (fuel : Nat) (wc : WC) (full : Bool) (lists : List ListOut) (watches : List WatchOut)
      (g : Option (List KV)) (b : Bool), ListedOrSilent wc b →
      ∀ r, resyncLoopG fin fuel wc full lists watches g b = some r → ListedOrSilent r.1 r.2.2 := by
  intro fuel
  induction fuel with
  | zero => intro wc full lists watches g b _ r hr; simp [resyncLoopG] at hr
  | succ n ih =>
    intro wc full lists watches g b h r hr
    unfold resyncLoopG at hr
    simp only at hr
    -- state and ghost after the list part
    have hlist : ListedOrSilent
        (if (full || decide (wc.rev = 0)) = true then listStep wc (lists.headD (ListOut.ok fin.1 fin.2))
          else (wc, false, true)).1
        (if (full || decide (wc.rev = 0)) = true then ghostListed (lists.headD (ListOut.ok fin.1 fin.2)) b else b) := by
      split
      · cases hb : ghostListed (lists.headD (ListOut.ok fin.1 fin.2)) false with
        | true =>
          left
          revert hb
          cases lists.headD (ListOut.ok fin.1 fin.2) <;> simp [ghostListed]
        | false =>
          have hn := nn_listStep wc _ hb
          have hsame : ghostListed (lists.headD (ListOut.ok fin.1 fin.2)) b = b := by
            revert hb
            cases lists.headD (ListOut.ok fin.1 fin.2) <;> simp [ghostListed]
          rw [hsame]
          exact h.step hn
      · exact h
    generalize (if (full || decide (wc.rev = 0)) = true then listStep wc (lists.headD (ListOut.ok fin.1 fin.2))
      else (wc, false, true)) = r1 at hr hlist
    generalize (if (full || decide (wc.rev = 0)) = true then lists.tail else lists) = ls at hr
    generalize (if (full || decide (wc.rev = 0)) = true then ghostList (lists.headD (ListOut.ok fin.1 fin.2)) g
      else g) = g' at hr
    generalize (if (full || decide (wc.rev = 0)) = true then ghostListed (lists.headD (ListOut.ok fin.1 fin.2)) b
      else b) = b' at hr hlist
    split at hr
    · simp only [Option.some.injEq] at hr
      subst hr
      exact hlist
    split at hr
    · exact ih _ _ _ _ _ _ hlist r hr
    · have hw := hlist.step (nn_watchStep r1.1 r1.2.1 (watches.headD WatchOut.ok))
      split at hr
      · simp only [Option.some.injEq] at hr
        subst hr
        exact hw
      · exact ih _ _ _ _ _ _ hw r hr

/-- **Which snapshot**: when the watch is created, the ghost holds the LAST successfully listed snapshot and the
cache holds exactly its conversion — for every scripted sequence of failures. -/
theorem resyncLoopG_last {m0 : View} {st0 : Nat} (fin : List KV × Nat) (mode : Option Proc) :
    ∀ (fuel : Nat) (wc : WC) (full : Bool) (lists : List ListOut) (watches : List WatchOut)
      (g : Option (List KV)) (b : Bool),
      Good m0 st0 wc → (wc.status = stWait → full = true ∨ wc.rev = 0) → wc.proc = mode →
      ((∃ L, g = some L ∧ ViewIs mode L wc) ∨ full = true ∨ wc.rev = 0) →
      ∀ r, resyncLoopG fin fuel wc full lists watches g b = some r →
        ∃ L, r.2.1 = some L ∧ ViewIs mode L r.1 ∧ r.1.proc = mode := by
  intro fuel
  induction fuel with
  | zero => intro wc full lists watches g b _ _ _ _ r hr; simp [resyncLoopG] at hr
  | succ n ih =>
    intro wc full lists watches g b hg ho hm hq r hr
    unfold resyncLoopG at hr
    simp only at hr
    by_cases hstop : ((full || decide (wc.rev = 0)) && (lists.headD (ListOut.ok fin.1 fin.2)).isPollStop) = true
    · simp only [hstop, if_true, Option.some.injEq] at hr
      have hf : (full || decide (wc.rev = 0)) = true := (Bool.and_eq_true _ _ ▸ hstop).1
      have hlo := isPollStop_eq _ (Bool.and_eq_true _ _ ▸ hstop).2
      simp only [hf, if_true, hlo] at hr
      subst hr
      obtain ⟨hv, hp⟩ := listStep_pollStop_view hg
      refine ⟨[], rfl, ⟨fun k => by rw [hv k, hm], by rw [hp, hm]⟩, by rw [listStep_mode]; exact hm⟩
    have hstop' : ((full || decide (wc.rev = 0)) && (lists.headD (ListOut.ok fin.1 fin.2)).isPollStop) = false := by
      simpa using hstop
    simp only [hstop', Bool.false_eq_true, if_false] at hr
    have watchPart : ∀ (w1 : WC) (f : Bool) (ls : List ListOut) (g1 : Option (List KV)) (b1 : Bool) (L : List KV),
        Good m0 st0 w1 → w1.status ≠ stWait → w1.proc = mode → g1 = some L → ViewIs mode L w1 →
        (if (watchStep w1 f (watches.headD WatchOut.ok)).2.2 = true then
            some ((watchStep w1 f (watches.headD WatchOut.ok)).1, g1, b1)
          else resyncLoopG fin n (watchStep w1 f (watches.headD WatchOut.ok)).1
            (watchStep w1 f (watches.headD WatchOut.ok)).2.1 ls watches.tail g1 b1) = some r →
        ∃ L, r.2.1 = some L ∧ ViewIs mode L r.1 ∧ r.1.proc = mode := by
      intro w1 f ls g1 b1 L gd hs1 hm1 hg1 hv1 hw1
      obtain ⟨pm, rs, ol, ps⟩ := watchStep_same w1 f (watches.headD WatchOut.ok)
      have hwk := watchStep_ok gd f (watches.headD WatchOut.ok)
      have hv2 : ViewIs mode L (watchStep w1 f (watches.headD WatchOut.ok)).1 := hv1.of_eq rs ol ps
      split at hw1
      · simp only [Option.some.injEq] at hw1
        subst hw1
        exact ⟨L, hg1, hv2, by rw [pm]; exact hm1⟩
      · exact ih _ _ _ _ _ _ hwk.1 (fun c => by rw [hwk.2] at c; exact absurd c hs1) (by rw [pm]; exact hm1)
          (Or.inl ⟨L, hg1, hv2⟩) r hw1
    by_cases hf : (full || decide (wc.rev = 0)) = true
    · simp only [hf, if_true] at hr
      have hls := listStep_ok hg (lists.headD (ListOut.ok fin.1 fin.2))
      have hmode : (listStep wc (lists.headD (ListOut.ok fin.1 fin.2))).1.proc = mode := by
        rw [listStep_mode]; exact hm
      by_cases hgo : (listStep wc (lists.headD (ListOut.ok fin.1 fin.2))).2.2 = true
      · simp only [hgo, Bool.not_true, Bool.false_eq_true, if_false] at hr
        obtain ⟨kvs, lrev, elo, hv, hps⟩ := listStep_listed hg _ hgo
        have hgl : ghostList (lists.headD (ListOut.ok fin.1 fin.2)) g = some kvs := by rw [elo]; rfl
        exact watchPart _ _ _ _ _ kvs hls.good (hls.go hgo) hmode hgl
          ⟨fun k => by rw [hv k, hm], by rw [hps, hm]⟩ hr
      · have hgo' : (listStep wc (lists.headD (ListOut.ok fin.1 fin.2))).2.2 = false := by simpa using hgo
        simp only [hgo', Bool.not_false, if_true] at hr
        have hfull : (listStep wc (lists.headD (ListOut.ok fin.1 fin.2))).2.1 = true := by
          revert hgo'
          unfold listStep
          simp only
          cases lists.headD (ListOut.ok fin.1 fin.2) with
          | notFound => intro _; rfl
          | expired => intro _; rfl
          | other e => intro _; rfl
          | pollStop => intro _; rfl
          | ok kvs lrev =>
            simp only
            split
            · intro _; rfl
            · intro c; cases c
        exact ih _ _ _ _ _ _ hls.good hls.owed hmode (Or.inr (Or.inl hfull)) r hr
    · simp only [hf, Bool.false_eq_true, if_false, Bool.not_true] at hr
      have hnf : full = false ∧ wc.rev ≠ 0 := by
        simp only [Bool.or_eq_true, decide_eq_true_eq, not_or] at hf
        exact ⟨by simpa using hf.1, hf.2⟩
      have hl : ∃ L, g = some L ∧ ViewIs mode L wc := by
        rcases hq with h1 | h1 | h1
        · exact h1
        · rw [hnf.1] at h1; cases h1
        · exact absurd h1 hnf.2
      have hs : wc.status ≠ stWait := by
        intro c
        rcases ho c with h1 | h1
        · rw [hnf.1] at h1; cases h1
        · exact absurd h1 hnf.2
      obtain ⟨L, hgL, hvL⟩ := hl
      exact watchPart _ _ _ _ _ L hg hs hm hgL hvL hr

/-- General form of `resyncLoopG_last` (no assumption that a resync is owed at the start): whenever the ghost
names a snapshot when the watch is created, the cache holds exactly its fresh conversion. -/
theorem resyncLoopG_last' {m0 : View} {st0 : Nat} (fin : List KV × Nat) (mode : Option Proc) :
    ∀ (fuel : Nat) (wc : WC) (full : Bool) (lists : List ListOut) (watches : List WatchOut)
      (g : Option (List KV)) (b : Bool),
      Good m0 st0 wc → (wc.status = stWait → full = true ∨ wc.rev = 0) → wc.proc = mode →
      (∀ L, g = some L → ViewIs mode L wc ∨ full = true ∨ wc.rev = 0) →
      ∀ r, resyncLoopG fin fuel wc full lists watches g b = some r →
        (∀ L, r.2.1 = some L → ViewIs mode L r.1) ∧ r.1.proc = mode := by
  intro fuel
  induction fuel with
  | zero => intro wc full lists watches g b _ _ _ _ r hr; simp [resyncLoopG] at hr
  | succ n ih =>
    intro wc full lists watches g b hg ho hm hq r hr
    unfold resyncLoopG at hr
    simp only at hr
    by_cases hstop : ((full || decide (wc.rev = 0)) && (lists.headD (ListOut.ok fin.1 fin.2)).isPollStop) = true
    · simp only [hstop, if_true, Option.some.injEq] at hr
      have hf : (full || decide (wc.rev = 0)) = true := (Bool.and_eq_true _ _ ▸ hstop).1
      have hlo := isPollStop_eq _ (Bool.and_eq_true _ _ ▸ hstop).2
      simp only [hf, if_true, hlo] at hr
      subst hr
      obtain ⟨hv, hp⟩ := listStep_pollStop_view hg
      refine ⟨fun L hL => ?_, by rw [listStep_mode]; exact hm⟩
      have : L = [] := by simp [ghostList] at hL; exact hL
      subst this
      exact ⟨fun k => by rw [hv k, hm], by rw [hp, hm]⟩
    have hstop' : ((full || decide (wc.rev = 0)) && (lists.headD (ListOut.ok fin.1 fin.2)).isPollStop) = false := by
      simpa using hstop
    simp only [hstop', Bool.false_eq_true, if_false] at hr
    have watchPart : ∀ (w1 : WC) (f : Bool) (ls : List ListOut) (g1 : Option (List KV)) (b1 : Bool),
        Good m0 st0 w1 → w1.status ≠ stWait → w1.proc = mode → (∀ L, g1 = some L → ViewIs mode L w1) →
        (if (watchStep w1 f (watches.headD WatchOut.ok)).2.2 = true then
            some ((watchStep w1 f (watches.headD WatchOut.ok)).1, g1, b1)
          else resyncLoopG fin n (watchStep w1 f (watches.headD WatchOut.ok)).1
            (watchStep w1 f (watches.headD WatchOut.ok)).2.1 ls watches.tail g1 b1) = some r →
        (∀ L, r.2.1 = some L → ViewIs mode L r.1) ∧ r.1.proc = mode := by
      intro w1 f ls g1 b1 gd hs1 hm1 hv1 hw1
      obtain ⟨pm, rs, ol, ps⟩ := watchStep_same w1 f (watches.headD WatchOut.ok)
      have hwk := watchStep_ok gd f (watches.headD WatchOut.ok)
      have hv2 : ∀ L, g1 = some L → ViewIs mode L (watchStep w1 f (watches.headD WatchOut.ok)).1 :=
        fun L hL => (hv1 L hL).of_eq rs ol ps
      split at hw1
      · simp only [Option.some.injEq] at hw1
        subst hw1
        exact ⟨hv2, by rw [pm]; exact hm1⟩
      · exact ih _ _ _ _ _ _ hwk.1 (fun c => by rw [hwk.2] at c; exact absurd c hs1) (by rw [pm]; exact hm1)
          (fun L hL => Or.inl (hv2 L hL)) r hw1
    by_cases hf : (full || decide (wc.rev = 0)) = true
    · simp only [hf, if_true] at hr
      have hls := listStep_ok hg (lists.headD (ListOut.ok fin.1 fin.2))
      have hmode : (listStep wc (lists.headD (ListOut.ok fin.1 fin.2))).1.proc = mode := by
        rw [listStep_mode]; exact hm
      by_cases hgo : (listStep wc (lists.headD (ListOut.ok fin.1 fin.2))).2.2 = true
      · simp only [hgo, Bool.not_true, Bool.false_eq_true, if_false] at hr
        obtain ⟨kvs, lrev, elo, hv, hps⟩ := listStep_listed hg _ hgo
        have hgl : ghostList (lists.headD (ListOut.ok fin.1 fin.2)) g = some kvs := by rw [elo]; rfl
        refine watchPart _ _ _ _ _ hls.good (hls.go hgo) hmode ?_ hr
        intro L hL
        rw [hgl] at hL
        have : L = kvs := (Option.some.inj hL).symm
        subst this
        exact ⟨fun k => by rw [hv k, hm], by rw [hps, hm]⟩
      · have hgo' : (listStep wc (lists.headD (ListOut.ok fin.1 fin.2))).2.2 = false := by simpa using hgo
        simp only [hgo', Bool.not_false, if_true] at hr
        have hfull : (listStep wc (lists.headD (ListOut.ok fin.1 fin.2))).2.1 = true := by
          revert hgo'
          unfold listStep
          simp only
          cases lists.headD (ListOut.ok fin.1 fin.2) with
          | notFound => intro _; rfl
          | expired => intro _; rfl
          | other e => intro _; rfl
          | pollStop => intro _; rfl
          | ok kvs lrev =>
            simp only
            split
            · intro _; rfl
            · intro c; cases c
        exact ih _ _ _ _ _ _ hls.good hls.owed hmode (fun _ _ => Or.inr (Or.inl hfull)) r hr
    · simp only [hf, Bool.false_eq_true, if_false, Bool.not_true] at hr
      have hnf : full = false ∧ wc.rev ≠ 0 := by
        simp only [Bool.or_eq_true, decide_eq_true_eq, not_or] at hf
        exact ⟨by simpa using hf.1, hf.2⟩
      have hl : ∀ L, g = some L → ViewIs mode L wc := by
        intro L hL
        rcases hq L hL with h1 | h1 | h1
        · exact h1
        · rw [hnf.1] at h1; cases h1
        · exact absurd h1 hnf.2
      have hs : wc.status ≠ stWait := by
        intro c
        rcases ho c with h1 | h1
        · rw [hnf.1] at h1; cases h1
        · exact absurd h1 hnf.2
      exact watchPart _ _ _ _ _ hg hs hm hl hr

/-! ### a call that does not list leaves the cache and the processor untouched until the watch resumes -/

/-- Same resources / processor state as `wc0`. -/
def SameAs (wc0 wc : WC) : Prop := wc.res = wc0.res ∧ wc.old = wc0.old ∧ wc.pst = wc0.pst ∧ wc.proc = wc0.proc

theorem resyncLoopG_nolist (fin : List KV × Nat) (wc0 : WC) :
    ∀ (fuel : Nat) (wc : WC) (full : Bool) (lists : List ListOut) (watches : List WatchOut)
      (g : Option (List KV)) (b : Bool),
      (g = none → SameAs wc0 wc ∨ full = true ∨ wc.rev = 0) →
      ∀ r, resyncLoopG fin fuel wc full lists watches g b = some r → r.2.1 = none → SameAs wc0 r.1 := by
  intro fuel
  induction fuel with
  | zero => intro wc full lists watches g b _ r hr; simp [resyncLoopG] at hr
  | succ n ih =>
    intro wc full lists watches g b hq r hr hnone
    unfold resyncLoopG at hr
    simp only at hr
    by_cases hf : (full || decide (wc.rev = 0)) = true
    · -- a List is attempted: afterwards either the ghost is set, or a full resync is still owed
      simp only [hf, if_true, Bool.true_and] at hr
      have howed : ghostList (lists.headD (ListOut.ok fin.1 fin.2)) g = none →
          (listStep wc (lists.headD (ListOut.ok fin.1 fin.2))).2.1 = true ∧
            (listStep wc (lists.headD (ListOut.ok fin.1 fin.2))).2.2 = false ∧
            (lists.headD (ListOut.ok fin.1 fin.2)).isPollStop = false := by
        cases lists.headD (ListOut.ok fin.1 fin.2) with
        | ok kvs lrev => intro c; simp [ghostList] at c
        | pollStop => intro c; simp [ghostList] at c
        | notFound => intro _; exact ⟨rfl, rfl, rfl⟩
        | expired => intro _; exact ⟨rfl, rfl, rfl⟩
        | other e => intro _; exact ⟨rfl, rfl, rfl⟩
      split at hr
      · simp only [Option.some.injEq] at hr
        subst hr
        rename_i hps
        have := howed hnone
        rw [this.2.2] at hps; cases hps
      · split at hr
        · exact ih _ _ _ _ _ _ (fun hg => Or.inr (Or.inl (howed hg).1)) r hr hnone
        · rename_i hgo
          split at hr
          · simp only [Option.some.injEq] at hr
            subst hr
            have := howed hnone
            exact absurd (by rw [this.2.1]; rfl) hgo
          · -- the ghost must already be set here (the List step went on to the Watch)
            refine ih _ _ _ _ _ _ (fun hg => ?_) r hr hnone
            have := howed hg
            exact absurd (by rw [this.2.1]; rfl) hgo
    · simp only [hf, Bool.false_eq_true, if_false, Bool.not_true, Bool.false_and] at hr
      have hnf : full = false ∧ wc.rev ≠ 0 := by
        simp only [Bool.or_eq_true, decide_eq_true_eq, not_or] at hf
        exact ⟨by simpa using hf.1, hf.2⟩
      obtain ⟨pm, rs, ol, ps⟩ := watchStep_same wc false (watches.headD WatchOut.ok)
      have hsame : g = none → SameAs wc0 (watchStep wc false (watches.headD WatchOut.ok)).1 := by
        intro hg
        rcases hq hg with h1 | h1 | h1
        · exact ⟨rs.trans h1.1, ol.trans h1.2.1, ps.trans h1.2.2.1, pm.trans h1.2.2.2⟩
        · rw [hnf.1] at h1; cases h1
        · exact absurd h1 hnf.2
      split at hr
      · simp only [Option.some.injEq] at hr
        subst hr
        exact hsame hnone
      · exact ih _ _ _ _ _ _ (fun hg => Or.inl (hsame hg)) r hr hnone

/-! ### the processor's state through the event loop -/

theorem handleWatchListEvent_pst (wc : WC) (kv : KV) :
    (wc.handleWatchListEvent kv).pst = (procRun wc.proc wc.pst kv).1 := by
  unfold WC.handleWatchListEvent
  simp only
  split
  · rw [send_pst, foldl_handleConverted_pst]
  · rw [foldl_handleConverted_pst]

theorem eventLoop_pst (evs : List Ev) (wc : WC) :
    (eventLoop wc evs).pst = convState wc.proc wc.pst (processed evs) ∧ (eventLoop wc evs).proc = wc.proc := by
  induction evs generalizing wc with
  | nil => exact ⟨rfl, rfl⟩
  | cons ev evs ih =>
    cases ev with
    | upsert kv =>
      simp only [eventLoop, processed, convState]
      obtain ⟨a, b⟩ := ih (wc.handleWatchListEvent kv)
      rw [handleWatchListEvent_pst, handleWatchListEvent_mode] at a
      exact ⟨a, b.trans (handleWatchListEvent_mode wc kv)⟩
    | delete kv =>
      simp only [eventLoop, processed, convState]
      obtain ⟨a, b⟩ := ih (wc.handleWatchListEvent { kv with del := true })
      rw [handleWatchListEvent_pst, handleWatchListEvent_mode] at a
      exact ⟨a, b.trans (handleWatchListEvent_mode wc _)⟩
    | bookmark r => simp only [eventLoop, processed]; exact ih _
    | errExpired => simp only [eventLoop, processed, convState]; exact ⟨by trivial, by trivial⟩
    | errOther => simp only [eventLoop, processed, convState]; split <;> exact ⟨by trivial, by trivial⟩
    | unknown => simp only [eventLoop, processed]; exact ih wc

end CalicoVerif.C26
