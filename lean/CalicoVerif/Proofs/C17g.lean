import CalicoVerif.Proofs.C17f
set_option linter.unusedSimpArgs false
namespace CalicoVerif.C17

theorem resyncIface_K (w : W) (name : String) : (w.resyncIface name).1.K = w.K ∧ (w.resyncIface name).1.kif = w.kif := by
  unfold W.resyncIface
  split
  · exact ⟨rfl, rfl⟩
  · split
    · exact ⟨rfl, rfl⟩
    · dsimp only; split <;> exact ⟨rfl, rfl⟩

theorem resyncIfaces_K (w : W) : w.resyncIfaces.K = w.K ∧ w.resyncIfaces.kif = w.kif := by
  unfold W.resyncIfaces
  apply foldl_inv' (fun a : W => a.K = w.K ∧ a.kif = w.kif) _ _ _ w ⟨rfl, rfl⟩
  intro a name ha
  obtain ⟨h1, h2⟩ := resyncIface_K a name
  dsimp only
  split
  · exact ⟨h1.trans ha.1, h2.trans ha.2⟩
  · exact ⟨h1.trans ha.1, h2.trans ha.2⟩

theorem attempt_nodup (w : W) (hn : w.K.keys.Nodup) : w.attempt.1.K.keys.Nodup := by
  cases hf : w.t.fullResync with
  | true =>
    rw [attempt_full w hf]
    split
    · show (Map.keys w.fullResync.1.K).Nodup
      rw [(fullResync_K w).1]; exact hn
    · exact (passes_pres _).2.2.2.1 (by rw [(fullResync_K w).1]; exact hn)
  | false =>
    rw [attempt_incr w hf]
    exact (passes_pres _).2.2.2.1 (by rw [(resyncIfaces_K w).1]; exact hn)

theorem apply_nodup (w : W) (hn : w.K.keys.Nodup) : w.apply.1.K.keys.Nodup := by
  rw [apply_eq]
  split
  · exact attempt_nodup _ (attempt_nodup w hn)
  · exact attempt_nodup w hn

theorem linkChange_nodup (w : W) (n : String) (i : Nat) (st : Option Bool) (hn : w.K.keys.Nodup) :
    (w.linkChange n i st).K.keys.Nodup := by
  unfold W.linkChange
  dsimp only
  have h0 : (Map.keys (if (w.kif.filter (fun p => p.1 != n && p.2.idx == i)).isEmpty then w.K
      else w.K.filter (fun p => p.2.ifindex != i))).Nodup := by
    split
    · exact hn
    · exact keys_filter_nodup _ _ hn
  generalize (if (w.kif.filter (fun p => p.1 != n && p.2.idx == i)).isEmpty then w.K
      else w.K.filter (fun p => p.2.ifindex != i)) = K0 at h0 ⊢
  have h1 : (Map.keys (if st == some true then K0 else K0.filter (fun p => p.2.ifindex != i))).Nodup := by
    split
    · exact h0
    · exact keys_filter_nodup _ _ h0
  split
  · split
    · exact keys_filter_nodup _ _ h1
    · exact h1
  · exact h1

theorem linkEvent_K (w : W) (n : String) (i : Nat) (st : Option Bool) : (w.linkEvent n i st).K = (w.linkChange n i st).K := rfl
theorem flush_K (w : W) : w.flush.K = w.K := rfl

theorem stepOp_nodup (w : W) (o : Op) (hn : w.K.keys.Nodup) : (w.stepOp o).1.K.keys.Nodup := by
  cases o with
  | iface n i st => exact linkChange_nodup w n i st hn
  | link n i st => exact linkChange_nodup w n i st hn
  | flush => exact hn
  | kroute c r => exact keys_set_nodup _ _ _ hn
  | kdel c => exact keys_erase_nodup _ _ hn
  | set cls ifc ws => exact hn
  | upd x => exact hn
  | rem cls ifc c => exact hn
  | resync => exact hn
  | apply f => exact apply_nodup { w with f := f } hn

/-- Kernel route keys stay unique along every history. -/
theorem run_nodup (ops : List Op) : ∀ (w : W), w.K.keys.Nodup → (w.run ops).K.keys.Nodup := by
  unfold W.run
  induction ops with
  | nil => intro w h; exact h
  | cons o ops ih => intro w h; exact ih _ (stepOp_nodup w o h)

/-! ### Routes that are not Felix's -/

/-- One attempt with a full resync, whatever fails: a kernel route that is not Felix's (as judged with the
interface states the attempt ends with) at a destination Felix has no route for is still there. -/
theorem attempt_full_unowned (w : W) (hf : w.t.fullResync = true) (hn : w.K.keys.Nodup) (c : String) (r : KRoute)
    (hk : w.K.get c = some r) (ho : w.attempt.1.t.owns r = false) (hd : w.attempt.1.t.desired c = none) :
    w.attempt.1.K.get c = some r := by
  rw [attempt_full w hf] at ho hd ⊢
  cases hfr : w.fullResync.2 with
  | true =>
    simp only [hfr, if_true]
    rw [(fullResync_K w).1]; exact hk
  | false =>
    simp only [hfr, Bool.false_eq_true, if_false] at ho hd ⊢
    have hp := passes_pres w.fullResync.1
    rw [owns_congr hp.1 r] at ho
    rw [desired_congr hp.1 c] at hd
    rw [passes_other _ c hd, (fullResync_K w).1]
    · exact hk
    · rw [fullResync_ok w hfr] at ho ⊢
      show Map.get (w.K.filter (fun p => (w.t.refreshAll w.kif).owns p.2)) c = none
      rw [filter_get_nodup _ w.K hn c, hk]
      have ho' : (w.t.refreshAll w.kif).owns r = false := ho
      simp [ho']

/-- A successful full resync attempt leaves nothing of that destination in Felix's view either. -/
theorem attempt_full_unowned_view (w : W) (hf : w.t.fullResync = true) (hn : w.K.keys.Nodup) (c : String) (r : KRoute)
    (hfr : w.fullResync.2 = false)
    (hk : w.K.get c = some r) (ho : w.attempt.1.t.owns r = false) (hd : w.attempt.1.t.desired c = none) :
    w.attempt.1.t.dp.get c = none := by
  rw [attempt_full w hf] at ho hd ⊢
  simp only [hfr, Bool.false_eq_true, if_false] at ho hd ⊢
  have hp := passes_pres w.fullResync.1
  rw [owns_congr hp.1 r] at ho
  rw [desired_congr hp.1 c] at hd
  apply hp.2.2.2.2.2 c hd
  rw [fullResync_ok w hfr] at ho ⊢
  show Map.get (w.K.filter (fun p => (w.t.refreshAll w.kif).owns p.2)) c = none
  rw [filter_get_nodup _ w.K hn c, hk]
  have ho' : (w.t.refreshAll w.kif).owns r = false := ho
  simp [ho']

/-- Apply with a full resync pending (partial: same restriction as `apply_converges_full`). -/
theorem apply_full_unowned (w : W) (hf : w.t.fullResync = true) (hn : w.K.keys.Nodup)
    (hq : w.attempt.1.t.rescan = []) (c : String) (r : KRoute)
    (hk : w.K.get c = some r) (ho : w.apply.1.t.owns r = false) (hd : w.apply.1.t.desired c = none) :
    w.apply.1.K.get c = some r := by
  rw [apply_eq] at ho hd ⊢
  cases he : w.attempt.2 with
  | false =>
    simp only [he, hq, List.isEmpty_nil, Bool.not_true, Bool.or_false, Bool.false_eq_true, if_false] at ho hd ⊢
    exact attempt_full_unowned w hf hn c r hk ho hd
  | true =>
    simp only [he, Bool.true_or, if_true] at ho hd ⊢
    cases hfr : w.fullResync.2 with
    | true =>
      have e1 : w.attempt.1 = w.fullResync.1 := by rw [attempt_full w hf]; simp [hfr]
      obtain ⟨f1, f2, _⟩ := fullResync_fail w hfr
      rw [e1] at ho hd ⊢
      exact attempt_full_unowned _ (by rw [f2]; exact hf) (by rw [f1]; exact hn) c r (by rw [f1]; exact hk) ho hd
    | false =>
      have e1 : w.attempt.1 = w.fullResync.1.passes.1 := by rw [attempt_full w hf]; simp [hfr]
      have hp := passes_pres w.fullResync.1
      have hf1 : w.attempt.1.t.fullResync = false := by
        rw [e1, hp.2.2.1, fullResync_ok w hfr]; rfl
      rw [attempt_incr _ hf1, resyncIfaces_nil _ hq] at ho hd ⊢
      have hp2 := passes_pres w.attempt.1
      rw [owns_congr hp2.1 r] at ho
      rw [desired_congr hp2.1 c] at hd
      rw [passes_other _ c hd (attempt_full_unowned_view w hf hn c r hfr hk ho hd)]
      exact attempt_full_unowned w hf hn c r hk ho hd

end CalicoVerif.C17
