import CalicoVerif.Proofs.C17c
set_option linter.unusedSimpArgs false
namespace CalicoVerif.C17

theorem foldl_inv' {α β : Type} (P : α → Prop) (f : α → β → α) (h : ∀ a b, P a → P (f a b)) :
    ∀ (l : List β) (a : α), P a → P (l.foldl f a) := by
  intro l; induction l with
  | nil => intro a ha; exact ha
  | cons x xs ih => intro a ha; exact ih _ (h a x ha)

def FrameRT (t a : RT) : Prop :=
  a.wants = t.wants ∧ a.defProto = t.defProto ∧ a.pol = t.pol ∧ a.dp = t.dp ∧ a.fullResync = t.fullResync

theorem FrameRT.refl (t : RT) : FrameRT t t := ⟨rfl, rfl, rfl, rfl, rfl⟩
theorem FrameRT.trans {a b c : RT} (h1 : FrameRT a b) (h2 : FrameRT b c) : FrameRT a c :=
  ⟨h2.1.trans h1.1, h2.2.1.trans h1.2.1, h2.2.2.1.trans h1.2.2.1, h2.2.2.2.1.trans h1.2.2.2.1, h2.2.2.2.2.trans h1.2.2.2.2⟩

theorem recalc_frame (t : RT) (c : String) : FrameRT t (t.recalc c) := ⟨rfl, rfl, rfl, rfl, rfl⟩

theorem recheck_frame (t : RT) (name : String) : FrameRT t (t.recheck name) := by
  unfold RT.recheck
  exact foldl_inv' (FrameRT t) _ (fun a c ha => ha.trans (recalc_frame a c)) _ t (FrameRT.refl t)

theorem onIface_frame (t : RT) (n : String) (i : Nat) (st : Option Bool) : FrameRT t (t.onIface n i st) := by
  unfold RT.onIface
  cases st with
  | none => exact FrameRT.trans ⟨rfl, rfl, rfl, rfl, rfl⟩ (recheck_frame _ n)
  | some up => exact FrameRT.trans ⟨rfl, rfl, rfl, rfl, rfl⟩ (recheck_frame _ n)

theorem FrameRT.onIface {t a : RT} (h : FrameRT t a) (n : String) (i : Nat) (st : Option Bool) : FrameRT t (a.onIface n i st) :=
  h.trans (onIface_frame a n i st)

theorem dropRenumbered_frame (t : RT) (n : String) (idx : Nat) : FrameRT t (t.dropRenumbered n idx) := by
  unfold RT.dropRenumbered
  split
  · split
    · exact onIface_frame _ _ _ _
    · exact FrameRT.refl t
  · exact FrameRT.refl t

theorem dropRenamed_frame (t : RT) (n : String) (idx : Nat) : FrameRT t (t.dropRenamed n idx) := by
  unfold RT.dropRenamed
  split
  · split
    · exact onIface_frame _ _ _ _
    · exact FrameRT.refl t
  · exact FrameRT.refl t

theorem refreshPass1_frame (kif : Map Iface) (t : RT) (n : String) : FrameRT t (t.refreshPass1 kif n) := by
  unfold RT.refreshPass1
  split
  · exact FrameRT.refl t
  · exact (dropRenumbered_frame t n _).trans (dropRenamed_frame _ n _)

theorem refreshPass2_frame (kif : Map Iface) (t : RT) (n : String) : FrameRT t (t.refreshPass2 kif n) := by
  unfold RT.refreshPass2
  split
  · exact FrameRT.refl t
  · split
    · exact FrameRT.refl t
    · exact onIface_frame _ _ _ _

theorem refreshAll_frame (t : RT) (kif : Map Iface) : FrameRT t (t.refreshAll kif) := by
  unfold RT.refreshAll
  dsimp only
  have h1 : FrameRT t ((sortS kif.keys.eraseDups).foldl (RT.refreshPass1 kif) t) :=
    foldl_inv' (FrameRT t) _ (fun a n ha => ha.trans (refreshPass1_frame kif a n)) _ t (FrameRT.refl t)
  have h2 := foldl_inv' (FrameRT t) (RT.refreshPass2 kif) (fun a n ha => ha.trans (refreshPass2_frame kif a n))
    (sortS kif.keys.eraseDups) _ h1
  apply foldl_inv' (FrameRT t) _ _ _ _ h2
  intro a n ha
  split
  · exact ha
  · exact ha.onIface n 0 none

/-- The table state after a successful full resync. -/
def RT.afterFull (t : RT) (K : Kernel) : RT :=
  { t with dp := K.filter (fun p => t.owns p.2), fullResync := false, rescan := [] }

theorem afterFull_owns (t : RT) (K : Kernel) (r : KRoute) : (t.afterFull K).owns r = t.owns r := rfl

/-- Description of a successful full resync. -/
theorem fullResync_ok (w : W) (hok : w.fullResync.2 = false) :
    w.fullResync.1 = { w with t := (w.t.refreshAll w.kif).afterFull w.K } := by
  unfold W.fullResync at hok ⊢
  by_cases h1 : w.f.linkList = true
  · rw [if_pos h1] at hok; simp at hok
  · rw [if_neg h1] at hok ⊢
    dsimp only at hok ⊢
    by_cases h2 : w.f.routeList = true
    · rw [if_pos h2] at hok; simp at hok
    · rw [if_neg h2]; rfl

/-- A successful full resync makes Felix's view of its own routes exact (kernel keys are unique). -/
theorem fullResync_view (w : W) (hn : w.K.keys.Nodup) (hok : w.fullResync.2 = false) :
    ViewExact w.fullResync.1 := by
  rw [fullResync_ok w hok]
  refine ⟨?_, ?_⟩
  · intro c r hdp
    have hdp' : Map.get (w.K.filter (fun p => (w.t.refreshAll w.kif).owns p.2)) c = some r := hdp
    rw [filter_get_nodup _ w.K hn c] at hdp'
    show Map.get w.K c = some r
    cases hk : Map.get w.K c with
    | none => rw [hk] at hdp'; simp at hdp'
    | some r' =>
      rw [hk] at hdp'
      dsimp only at hdp'
      split at hdp'
      · simpa using hdp'
      · simp at hdp'
  · intro c r hk ho
    have hk' : Map.get w.K c = some r := hk
    have ho' : (w.t.refreshAll w.kif).owns r = true := ho
    show Map.get (w.K.filter (fun p => (w.t.refreshAll w.kif).owns p.2)) c = some r
    rw [filter_get_nodup _ w.K hn c, hk']
    simp [ho']

end CalicoVerif.C17
