import CalicoVerif.Proofs.C17c
set_option linter.unusedSimpArgs false
namespace CalicoVerif.C17

theorem foldl_inv' {α β : Type} (P : α → Prop) (f : α → β → α) (h : ∀ a b, P a → P (f a b)) :
    ∀ (l : List β) (a : α), P a → P (l.foldl f a) := by
  intro l; induction l with
  | nil => intro a ha; exact ha
  | cons x xs ih => intro a ha; exact ih _ (h a x ha)

theorem setIface_frame (t : RT) (n : String) (i : Option Iface) :
    (t.setIface n i).wants = t.wants ∧ (t.setIface n i).defProto = t.defProto ∧ (t.setIface n i).pol = t.pol ∧
    (t.setIface n i).dp = t.dp ∧ (t.setIface n i).fullResync = t.fullResync := by
  unfold RT.setIface; split <;> exact ⟨rfl, rfl, rfl, rfl, rfl⟩

def FrameRT (t a : RT) : Prop :=
  a.wants = t.wants ∧ a.defProto = t.defProto ∧ a.pol = t.pol ∧ a.dp = t.dp ∧ a.fullResync = t.fullResync

theorem FrameRT.setIface {t a : RT} (h : FrameRT t a) (n : String) (i : Option Iface) : FrameRT t (a.setIface n i) := by
  obtain ⟨f1, f2, f3, f4, f5⟩ := setIface_frame a n i
  exact ⟨f1.trans h.1, f2.trans h.2.1, f3.trans h.2.2.1, f4.trans h.2.2.2.1, f5.trans h.2.2.2.2⟩

theorem refreshAll_frame (t : RT) (kif : Map Iface) : FrameRT t (t.refreshAll kif) := by
  unfold RT.refreshAll
  dsimp only
  have h1 : FrameRT t ((sortS kif.keys.eraseDups).foldl (fun t n =>
      match kif.get n with
      | some ki => if t.ifaces.get n == some ki then t else t.setIface n (some ki)
      | none => t) t) := by
    apply foldl_inv' (FrameRT t) _ _ _ t ⟨rfl, rfl, rfl, rfl, rfl⟩
    intro a n ha
    split
    · split
      · exact ha
      · exact ha.setIface n _
    · exact ha
  apply foldl_inv' (FrameRT t) _ _ _ _ h1
  intro a n ha
  split
  · exact ha
  · exact ha.setIface n none

/-- The table state after a successful full resync. -/
def RT.afterFull (t : RT) (K : Kernel) : RT :=
  { t with dp := K.filter (fun p => t.owns p.2), fullResync := false, rescan := [] }

theorem afterFull_owns (t : RT) (K : Kernel) (r : KRoute) : (t.afterFull K).owns r = t.owns r := rfl

/-- Description of a successful full resync. -/
theorem fullResync_ok (w : W) (hok : w.fullResync.2 = false) :
    w.fullResync.1 = { w with t := (w.t.refreshAll w.kif).afterFull w.K } := by
  unfold W.fullResync at hok ⊢
  by_cases h1 : w.f.linkList = true
  · rw [if_pos h1] at hok; simp at hok
  · rw [if_neg h1] at hok ⊢
    dsimp only at hok ⊢
    by_cases h2 : w.f.routeList = true
    · rw [if_pos h2] at hok; simp at hok
    · rw [if_neg h2]; rfl

/-- A successful full resync makes Felix's view of its own routes exact (kernel keys are unique). -/
theorem fullResync_view (w : W) (hn : w.K.keys.Nodup) (hok : w.fullResync.2 = false) :
    ViewExact w.fullResync.1 := by
  rw [fullResync_ok w hok]
  refine ⟨?_, ?_⟩
  · intro c r hdp
    have hdp' : Map.get (w.K.filter (fun p => (w.t.refreshAll w.kif).owns p.2)) c = some r := hdp
    rw [filter_get_nodup _ w.K hn c] at hdp'
    show Map.get w.K c = some r
    cases hk : Map.get w.K c with
    | none => rw [hk] at hdp'; simp at hdp'
    | some r' =>
      rw [hk] at hdp'
      dsimp only at hdp'
      split at hdp'
      · simpa using hdp'
      · simp at hdp'
  · intro c r hk ho
    have hk' : Map.get w.K c = some r := hk
    have ho' : (w.t.refreshAll w.kif).owns r = true := ho
    show Map.get (w.K.filter (fun p => (w.t.refreshAll w.kif).owns p.2)) c = some r
    rw [filter_get_nodup _ w.K hn c, hk']
    simp [ho']

end CalicoVerif.C17
