import CalicoVerif.Proofs.C15d
set_option linter.unusedSimpArgs false
namespace CalicoVerif.C15

theorem filter_map_chain (mk : String → RLine) (hmk : ∀ x, (mk x).chain = x) (L : List String) (c : String) :
    (L.map mk).filter (fun l => l.chain == c) = (L.filter (fun x => x == c)).map mk := by
  induction L with
  | nil => rfl
  | cons a L ih =>
    simp only [List.map_cons, List.filter_cons, hmk]
    split <;> simp [ih]

theorem filter_flatMap_chain {β : Type} (f : String × β → List RLine) (hf : ∀ g, ∀ l ∈ f g, l.chain = g.1)
    (G : List (String × β)) (c : String) :
    (G.flatMap f).filter (fun l => l.chain == c) = (G.filter (fun g => g.1 == c)).flatMap f := by
  induction G with
  | nil => rfl
  | cons g G ih =>
    simp only [List.flatMap_cons, List.filter_append, List.filter_cons]
    by_cases hg : g.1 = c
    · have h1 : (f g).filter (fun l => l.chain == c) = f g := by
        apply List.filter_eq_self.2
        intro l hl; simp [hf g l hl, hg]
      simp [hg, h1, ih]
    · have h1 : (f g).filter (fun l => l.chain == c) = [] := by
        apply List.filter_eq_nil_iff.2
        intro l hl; simp [hf g l hl, hg]
      have : (g.1 == c) = false := by simp [hg]
      simp [this, h1, ih]

theorem filter_none_chain (ls : List RLine) (c : String) (h : ∀ l ∈ ls, l.chain ≠ c) :
    ls.filter (fun l => l.chain == c) = [] := by
  apply List.filter_eq_nil_iff.2
  intro l hl; simp [h l hl]

theorem delLines_chain (c : String) : ∀ (hs : List String) (frs : List FR) (ls : List RLine),
    delLines c hs frs = some ls → ∀ l ∈ ls, l.chain = c ∨ l.chain = "" := by
  intro hs
  induction hs with
  | nil => intro frs ls h l hl; simp only [delLines, Option.some.injEq] at h; subst h; simp at hl
  | cons h hs ih =>
    intro frs ls hd l hl
    simp only [delLines] at hd
    split at hd
    · exact ih frs.tail ls hd l hl
    · cases frs with
      | nil => simp at hd
      | cons fr rest =>
        simp only [Option.map_eq_some_iff] at hd
        obtain ⟨ls', hls', rfl⟩ := hd
        simp only [List.mem_cons] at hl
        rcases hl with rfl | hl
        · cases fr <;> simp [RLine.chain]
        · exact ih rest ls' hls' l hl

theorem iaLines_chain {t : T} {c : String} {ls : List RLine} {u}
    (h : t.iaLines c = some (ls, u)) : ∀ l ∈ ls, l.chain = c ∨ l.chain = "" := by
  unfold T.iaLines at h
  dsimp only at h
  split at h
  · simp only [Option.some.injEq, Prod.mk.injEq] at h; intro l hl; rw [← h.1] at hl; simp at hl
  · split at h
    · simp at h
    · rename_i dels hdel
      simp only [Option.some.injEq, Prod.mk.injEq] at h
      intro l hl
      rw [← h.1] at hl
      rcases List.mem_append.1 hl with hl | hl
      · rcases List.mem_append.1 hl with hl | hl
        · exact delLines_chain c _ _ _ hdel l hl
        · left
          split at hl
          · obtain ⟨r, _, rfl⟩ := List.mem_map.1 hl; rfl
          · obtain ⟨r, _, rfl⟩ := List.mem_map.1 hl; rfl
      · left
        obtain ⟨r, _, rfl⟩ := List.mem_map.1 hl; rfl

end CalicoVerif.C15
