import CalicoVerif.Proofs.C31Chan
/-! C31 — helper lemmas (frames, bursts, handlers). -/
namespace CalicoVerif.C31

/-! ### frame lemmas: a message only touches its own component -/

inductive Kind | ep | pol | prof | ip | sa | ns | sync
deriving DecidableEq

def Msg.kind : Msg → Kind
  | .inSync => .sync
  | .epUpd _ _ => .ep
  | .epRm _ => .ep
  | .polUpd _ _ => .pol
  | .polRm _ => .pol
  | .profUpd _ _ => .prof
  | .profRm _ => .prof
  | .saUpd _ _ => .sa
  | .saRm _ => .sa
  | .nsUpd _ _ => .ns
  | .nsRm _ => .ns
  | .ipUpd _ _ => .ip
  | .ipDelta _ _ _ => .ip
  | .ipRm _ => .ip

theorem applyMsgs_nil (v : View) : applyMsgs v [] = v := rfl
theorem applyMsgs_cons (v : View) (m : Msg) (ms : List Msg) : applyMsgs v (m :: ms) = applyMsgs (applyMsg v m) ms := rfl
theorem applyMsgs_append (v : View) (a b : List Msg) : applyMsgs v (a ++ b) = applyMsgs (applyMsgs v a) b := by
  simp [applyMsgs, List.foldl_append]

theorem frame_ep (v : View) (ms : List Msg) (h : ∀ m ∈ ms, m.kind ≠ .ep) : (applyMsgs v ms).ep = v.ep := by
  induction ms generalizing v with
  | nil => rfl
  | cons m ms ih =>
    rw [applyMsgs_cons, ih _ (fun m' hm' => h m' (List.mem_cons_of_mem _ hm'))]
    have := h m (by simp)
    cases m <;> simp_all [applyMsg, Msg.kind]

theorem frame_pols (v : View) (ms : List Msg) (h : ∀ m ∈ ms, m.kind ≠ .pol) : (applyMsgs v ms).pols = v.pols := by
  induction ms generalizing v with
  | nil => rfl
  | cons m ms ih =>
    rw [applyMsgs_cons, ih _ (fun m' hm' => h m' (List.mem_cons_of_mem _ hm'))]
    have := h m (by simp)
    cases m <;> simp_all [applyMsg, Msg.kind]

theorem frame_profs (v : View) (ms : List Msg) (h : ∀ m ∈ ms, m.kind ≠ .prof) : (applyMsgs v ms).profs = v.profs := by
  induction ms generalizing v with
  | nil => rfl
  | cons m ms ih =>
    rw [applyMsgs_cons, ih _ (fun m' hm' => h m' (List.mem_cons_of_mem _ hm'))]
    have := h m (by simp)
    cases m <;> simp_all [applyMsg, Msg.kind]

theorem frame_ipsets (v : View) (ms : List Msg) (h : ∀ m ∈ ms, m.kind ≠ .ip) : (applyMsgs v ms).ipsets = v.ipsets := by
  induction ms generalizing v with
  | nil => rfl
  | cons m ms ih =>
    rw [applyMsgs_cons, ih _ (fun m' hm' => h m' (List.mem_cons_of_mem _ hm'))]
    have := h m (by simp)
    cases m <;> simp_all [applyMsg, Msg.kind]

theorem frame_sas (v : View) (ms : List Msg) (h : ∀ m ∈ ms, m.kind ≠ .sa) : (applyMsgs v ms).sas = v.sas := by
  induction ms generalizing v with
  | nil => rfl
  | cons m ms ih =>
    rw [applyMsgs_cons, ih _ (fun m' hm' => h m' (List.mem_cons_of_mem _ hm'))]
    have := h m (by simp)
    cases m <;> simp_all [applyMsg, Msg.kind]

theorem frame_nss (v : View) (ms : List Msg) (h : ∀ m ∈ ms, m.kind ≠ .ns) : (applyMsgs v ms).nss = v.nss := by
  induction ms generalizing v with
  | nil => rfl
  | cons m ms ih =>
    rw [applyMsgs_cons, ih _ (fun m' hm' => h m' (List.mem_cons_of_mem _ hm'))]
    have := h m (by simp)
    cases m <;> simp_all [applyMsg, Msg.kind]

theorem frame_inSync (v : View) (ms : List Msg) (h : ∀ m ∈ ms, m.kind ≠ .sync) : (applyMsgs v ms).inSync = v.inSync := by
  induction ms generalizing v with
  | nil => rfl
  | cons m ms ih =>
    rw [applyMsgs_cons, ih _ (fun m' hm' => h m' (List.mem_cons_of_mem _ hm'))]
    have := h m (by simp)
    cases m <;> simp_all [applyMsg, Msg.kind]

/-! ### bursts -/

def setOf (ms : List Nat) : Nat → Bool := fun m => ms.contains m

/-- effect of `doAdd` (B2) -/
theorem ipAdd_view {p : Proc} {ids : List Nat} {ms : List Msg} (h : ipAddMsgs p ids = some ms) (v : View) :
    (∀ m ∈ ms, m.kind = .ip) ∧
    ∀ x, (applyMsgs v ms).ipsets x = if x ∈ ids then (p.ipsets.get x).map setOf else v.ipsets x := by
  induction ids generalizing ms v with
  | nil => simp [ipAddMsgs] at h; subst h; simp [applyMsgs]
  | cons id ids ih =>
    simp only [ipAddMsgs] at h
    cases h1 : p.ipsets.get id with
    | none => simp only [h1] at h; cases h
    | some mem =>
      cases h2 : ipAddMsgs p ids with
      | none => simp only [h1, h2] at h; cases h
      | some rest =>
        simp only [h1, h2, Option.some.injEq] at h
        subst h
        obtain ⟨k, e⟩ := ih h2 (applyMsg v (Msg.ipUpd id mem))
        refine ⟨?_, ?_⟩
        · intro m hm
          rcases List.mem_cons.1 hm with rfl | hm
          · rfl
          · exact k m hm
        · intro x
          rw [applyMsgs_cons, e x]
          by_cases hx : x ∈ ids
          · simp [hx]
          · by_cases hxi : x = id
            · subst hxi; simp [hx, applyMsg, upd, h1]; funext m; simp [setOf]
            · simp [hx, hxi, applyMsg, upd]

theorem ipAddMsgs_isSome {p : Proc} {ids : List Nat} {ms : List Msg} (h : ipAddMsgs p ids = some ms) :
    ∀ x ∈ ids, (p.ipsets.get x).isSome := by
  induction ids generalizing ms with
  | nil => simp
  | cons id ids ih =>
    simp only [ipAddMsgs] at h
    cases h1 : p.ipsets.get id with
    | none => simp only [h1] at h; cases h
    | some mem =>
      cases h2 : ipAddMsgs p ids with
      | none => simp only [h1, h2] at h; cases h
      | some rest =>
        intro x hx
        rcases List.mem_cons.1 hx with rfl | hx
        · simp [h1]
        · exact ih h2 x hx

/-- effect of `syncAddedPolicies` (B3) -/
theorem syncAdded_pol_view {m : AMap Rules} {ids synced s' : List Nat} {ms : List Msg}
    (h : syncAdded m Msg.polUpd ids synced = some (s', ms)) (v : View) :
    (∀ x ∈ ms, x.kind = .pol) ∧ (∀ id, id ∈ s' ↔ id ∈ synced ∨ id ∈ ids) ∧
    ∀ id, (applyMsgs v ms).pols id = if id ∈ s' ∧ id ∉ synced then m.get id else v.pols id := by
  induction ids generalizing synced s' ms v with
  | nil => simp [syncAdded] at h; obtain ⟨rfl, rfl⟩ := h; simp [applyMsgs]
  | cons i ids ih =>
    simp only [syncAdded, List.contains_iff_mem] at h
    by_cases hi : i ∈ synced
    · simp only [hi, if_true] at h
      obtain ⟨a, b, c⟩ := ih h v
      refine ⟨a, fun id => ?_, c⟩
      rw [b id]; simp only [List.mem_cons]
      constructor
      · rintro (h1 | h1); exact Or.inl h1; exact Or.inr (Or.inr h1)
      · rintro (h1 | rfl | h1); exact Or.inl h1; exact Or.inl hi; exact Or.inr h1
    · simp only [hi, if_false] at h
      cases h1 : m.get i with
      | none => simp only [h1] at h; cases h
      | some r =>
        simp only [h1] at h
        cases h2 : syncAdded m Msg.polUpd ids (i :: synced) with
        | none => simp only [h2] at h; cases h
        | some res =>
          obtain ⟨s2, ms2⟩ := res
          simp only [h2, Option.some.injEq, Prod.mk.injEq] at h
          obtain ⟨rfl, rfl⟩ := h
          obtain ⟨a, b, c⟩ := ih h2 (applyMsg v (Msg.polUpd i r))
          refine ⟨?_, fun id => ?_, fun id => ?_⟩
          · intro x hx
            rcases List.mem_cons.1 hx with rfl | hx
            · rfl
            · exact a x hx
          · rw [b id]; simp only [List.mem_cons]
            constructor
            · rintro ((rfl | h1) | h1); exact Or.inr (Or.inl rfl); exact Or.inl h1; exact Or.inr (Or.inr h1)
            · rintro (h1 | rfl | h1); exact Or.inl (Or.inr h1); exact Or.inl (Or.inl rfl); exact Or.inr h1
          · rw [applyMsgs_cons, c id]
            have hb := b id
            simp only [List.mem_cons] at hb ⊢
            by_cases hid : id = i
            · subst hid
              have : id ∈ s2 := hb.2 (Or.inl (Or.inl rfl))
              simp [this, hi, applyMsg, upd, h1]
            · simp only [hid, false_or, applyMsg, upd, if_false]

/-- effect of `syncAddedProfiles` (B3) -/
theorem syncAdded_prof_view {m : AMap Rules} {ids synced s' : List Nat} {ms : List Msg}
    (h : syncAdded m Msg.profUpd ids synced = some (s', ms)) (v : View) :
    (∀ x ∈ ms, x.kind = .prof) ∧ (∀ id, id ∈ s' ↔ id ∈ synced ∨ id ∈ ids) ∧
    ∀ id, (applyMsgs v ms).profs id = if id ∈ s' ∧ id ∉ synced then m.get id else v.profs id := by
  induction ids generalizing synced s' ms v with
  | nil => simp [syncAdded] at h; obtain ⟨rfl, rfl⟩ := h; simp [applyMsgs]
  | cons i ids ih =>
    simp only [syncAdded, List.contains_iff_mem] at h
    by_cases hi : i ∈ synced
    · simp only [hi, if_true] at h
      obtain ⟨a, b, c⟩ := ih h v
      refine ⟨a, fun id => ?_, c⟩
      rw [b id]; simp only [List.mem_cons]
      constructor
      · rintro (h1 | h1); exact Or.inl h1; exact Or.inr (Or.inr h1)
      · rintro (h1 | rfl | h1); exact Or.inl h1; exact Or.inl hi; exact Or.inr h1
    · simp only [hi, if_false] at h
      cases h1 : m.get i with
      | none => simp only [h1] at h; cases h
      | some r =>
        simp only [h1] at h
        cases h2 : syncAdded m Msg.profUpd ids (i :: synced) with
        | none => simp only [h2] at h; cases h
        | some res =>
          obtain ⟨s2, ms2⟩ := res
          simp only [h2, Option.some.injEq, Prod.mk.injEq] at h
          obtain ⟨rfl, rfl⟩ := h
          obtain ⟨a, b, c⟩ := ih h2 (applyMsg v (Msg.profUpd i r))
          refine ⟨?_, fun id => ?_, fun id => ?_⟩
          · intro x hx
            rcases List.mem_cons.1 hx with rfl | hx
            · rfl
            · exact a x hx
          · rw [b id]; simp only [List.mem_cons]
            constructor
            · rintro ((rfl | h1) | h1); exact Or.inr (Or.inl rfl); exact Or.inl h1; exact Or.inr (Or.inr h1)
            · rintro (h1 | rfl | h1); exact Or.inl (Or.inr h1); exact Or.inl (Or.inl rfl); exact Or.inr h1
          · rw [applyMsgs_cons, c id]
            have hb := b id
            simp only [List.mem_cons] at hb ⊢
            by_cases hid : id = i
            · subst hid
              have : id ∈ s2 := hb.2 (Or.inl (Or.inl rfl))
              simp [this, hi, applyMsg, upd, h1]
            · simp only [hid, false_or, applyMsg, upd, if_false]

/-- result of the loop of `syncRemoved*` (B4) -/
theorem syncRemovedLoop_spec {ids old new old' new' : List Nat} (h : syncRemovedLoop ids old new = some (old', new')) :
    (∀ id, id ∈ new' ↔ id ∈ new ∨ id ∈ ids) ∧ (∀ id, id ∈ old' ↔ id ∈ old ∧ id ∉ ids) ∧ (∀ id ∈ ids, id ∈ old) := by
  induction ids generalizing old new with
  | nil => simp [syncRemovedLoop] at h; obtain ⟨rfl, rfl⟩ := h; simp
  | cons i ids ih =>
    simp only [syncRemovedLoop, List.contains_iff_mem] at h
    by_cases hi : i ∈ old
    · simp only [hi, if_true] at h
      obtain ⟨a, b, c⟩ := ih h
      refine ⟨fun id => ?_, fun id => ?_, fun id hid => ?_⟩
      · rw [a id]; simp only [List.mem_cons]
        constructor
        · rintro ((rfl | h1) | h1); exact Or.inr (Or.inl rfl); exact Or.inl h1; exact Or.inr (Or.inr h1)
        · rintro (h1 | rfl | h1); exact Or.inl (Or.inr h1); exact Or.inl (Or.inl rfl); exact Or.inr h1
      · rw [b id]; simp only [List.mem_filter, List.mem_cons, bne_iff_ne, ne_eq, not_or]
        constructor
        · rintro ⟨⟨h1, h2⟩, h3⟩; exact ⟨h1, h2, h3⟩
        · rintro ⟨h1, h2, h3⟩; exact ⟨⟨h1, h2⟩, h3⟩
      · rcases List.mem_cons.1 hid with rfl | hid
        · exact hi
        · have := c id hid
          simp only [List.mem_filter] at this
          exact this.1
    · simp only [hi, if_false] at h; cases h

theorem polRm_view (ids : List Nat) (v : View) :
    ∀ id, (applyMsgs v (ids.map Msg.polRm)).pols id = if id ∈ ids then none else v.pols id := by
  induction ids generalizing v with
  | nil => simp [applyMsgs]
  | cons i ids ih =>
    intro id
    rw [List.map_cons, applyMsgs_cons, ih]
    by_cases h1 : id ∈ ids
    · simp [h1]
    · by_cases h2 : id = i <;> simp [h1, h2, applyMsg, upd]

theorem profRm_view (ids : List Nat) (v : View) :
    ∀ id, (applyMsgs v (ids.map Msg.profRm)).profs id = if id ∈ ids then none else v.profs id := by
  induction ids generalizing v with
  | nil => simp [applyMsgs]
  | cons i ids ih =>
    intro id
    rw [List.map_cons, applyMsgs_cons, ih]
    by_cases h1 : id ∈ ids
    · simp [h1]
    · by_cases h2 : id = i <;> simp [h1, h2, applyMsg, upd]

theorem ipRm_view (ids : List Nat) (v : View) :
    ∀ id, (applyMsgs v (ids.map Msg.ipRm)).ipsets id = if id ∈ ids then none else v.ipsets id := by
  induction ids generalizing v with
  | nil => simp [applyMsgs]
  | cons i ids ih =>
    intro id
    rw [List.map_cons, applyMsgs_cons, ih]
    by_cases h1 : id ∈ ids
    · simp [h1]
    · by_cases h2 : id = i <;> simp [h1, h2, applyMsg, upd]

theorem refsOf_mem {m : AMap Rules} {ids l : List Nat} (h : refsOf m ids = some l) (x : Nat) :
    x ∈ l ↔ ∃ id ∈ ids, ∃ r, m.get id = some r ∧ x ∈ r.refs := by
  induction ids generalizing l with
  | nil => simp [refsOf] at h; subst h; simp
  | cons i ids ih =>
    simp only [refsOf] at h
    cases h1 : m.get i with
    | none => simp only [h1] at h; cases h
    | some r =>
      cases h2 : refsOf m ids with
      | none => simp only [h1, h2] at h; cases h
      | some rest =>
        simp only [h1, h2, Option.some.injEq] at h
        subst h
        simp only [List.mem_append, ih h2, List.mem_cons]
        constructor
        · rintro (hx | ⟨id, hid, r', hr', hx⟩)
          · exact ⟨i, Or.inl rfl, r, h1, hx⟩
          · exact ⟨id, Or.inr hid, r', hr', hx⟩
        · rintro ⟨id, (rfl | hid), r', hr', hx⟩
          · rw [h1] at hr'; cases hr'; exact Or.inl hx
          · exact Or.inr ⟨id, hid, r', hr', hx⟩

theorem wantedIP_mem {p : Proc} {e : Option Endpoint} {l : List Nat} (h : wantedIP p e = some l) (x : Nat) :
    x ∈ l ↔ neededIP p e x := by
  unfold wantedIP at h
  cases h1 : refsOf p.profs (epProfs e) with
  | none => simp only [h1] at h; cases h
  | some a =>
    cases h2 : refsOf p.pols (epPols e) with
    | none => simp only [h1, h2] at h; cases h
    | some b =>
      simp only [h1, h2, Option.some.injEq] at h
      subst h
      rw [mem_dedup, List.mem_append, refsOf_mem h1, refsOf_mem h2]
      rfl

/-! ### maybeSyncEndpoint -/

theorem frame_kind {ms : List Msg} {k : Kind} (h : ∀ m ∈ ms, m.kind = k) (v : View) :
    (k ≠ .ep → (applyMsgs v ms).ep = v.ep) ∧ (k ≠ .pol → (applyMsgs v ms).pols = v.pols) ∧
    (k ≠ .prof → (applyMsgs v ms).profs = v.profs) ∧ (k ≠ .ip → (applyMsgs v ms).ipsets = v.ipsets) ∧
    (k ≠ .sa → (applyMsgs v ms).sas = v.sas) ∧ (k ≠ .ns → (applyMsgs v ms).nss = v.nss) ∧
    (k ≠ .sync → (applyMsgs v ms).inSync = v.inSync) :=
  ⟨fun hk => frame_ep v ms (fun m hm => by rw [h m hm]; exact hk),
   fun hk => frame_pols v ms (fun m hm => by rw [h m hm]; exact hk),
   fun hk => frame_profs v ms (fun m hm => by rw [h m hm]; exact hk),
   fun hk => frame_ipsets v ms (fun m hm => by rw [h m hm]; exact hk),
   fun hk => frame_sas v ms (fun m hm => by rw [h m hm]; exact hk),
   fun hk => frame_nss v ms (fun m hm => by rw [h m hm]; exact hk),
   fun hk => frame_inSync v ms (fun m hm => by rw [h m hm]; exact hk)⟩

theorem kind_map_ipRm (ids : List Nat) : ∀ m ∈ ids.map Msg.ipRm, m.kind = .ip := by
  intro m hm; simp only [List.mem_map] at hm; obtain ⟨_, _, rfl⟩ := hm; rfl
theorem kind_map_polRm (ids : List Nat) : ∀ m ∈ ids.map Msg.polRm, m.kind = .pol := by
  intro m hm; simp only [List.mem_map] at hm; obtain ⟨_, _, rfl⟩ := hm; rfl
theorem kind_map_profRm (ids : List Nat) : ∀ m ∈ ids.map Msg.profRm, m.kind = .prof := by
  intro m hm; simp only [List.mem_map] at hm; obtain ⟨_, _, rfl⟩ := hm; rfl

/-- the client's policies, profiles and IP sets are exactly the synced ones, in the Processor's latest version -/
structure Core (p : Proc) (ei : EpInfo) (v : View) : Prop where
  pols : ∀ id, v.pols id = if id ∈ ei.syncedPol then p.pols.get id else none
  profs : ∀ id, v.profs id = if id ∈ ei.syncedProf then p.profs.get id else none
  ipsets : ∀ x, v.ipsets x = if x ∈ ei.syncedIP then (p.ipsets.get x).map setOf else none

/-- the synced sets are exactly what the endpoint needs -/
structure Exact (p : Proc) (ei : EpInfo) : Prop where
  pols : ∀ id, id ∈ ei.syncedPol ↔ id ∈ epPols ei.ep
  profs : ∀ id, id ∈ ei.syncedProf ↔ id ∈ epProfs ei.ep
  ipsets : ∀ x, x ∈ ei.syncedIP ↔ neededIP p ei.ep x

theorem ipSync_spec {p : Proc} {ei ei1 : EpInfo} {adds dels : List Msg} (h : ipSync p ei = some (ei1, adds, dels)) (v : View) :
    (∀ m ∈ adds, m.kind = .ip) ∧ (∀ m ∈ dels, m.kind = .ip) ∧ (∀ x, x ∈ ei1.syncedIP ↔ neededIP p ei.ep x) ∧
    (∀ x, (applyMsgs v adds).ipsets x =
      if x ∈ ei1.syncedIP ∧ x ∉ ei.syncedIP then (p.ipsets.get x).map setOf else v.ipsets x) ∧
    (∀ (v' : View) x, (applyMsgs v' dels).ipsets x = if x ∈ ei.syncedIP ∧ x ∉ ei1.syncedIP then none else v'.ipsets x) ∧
    (∀ x, x ∈ ei1.syncedIP → x ∉ ei.syncedIP → (p.ipsets.get x).isSome) := by
  unfold ipSync at h
  cases h1 : wantedIP p ei.ep with
  | none => simp only [h1] at h; cases h
  | some newS =>
    simp only [h1] at h
    cases h2 : ipAddMsgs p (newS.filter (fun x => !ei.syncedIP.contains x)) with
    | none => simp only [h2] at h; cases h
    | some adds' =>
      simp only [h2, Option.some.injEq, Prod.mk.injEq] at h
      obtain ⟨rfl, rfl, rfl⟩ := h
      obtain ⟨k, e⟩ := ipAdd_view h2 v
      refine ⟨k, kind_map_ipRm _, fun x => wantedIP_mem h1 x, fun x => ?_, fun v' x => ?_, fun x a b => ?_⟩
      · rw [e x]; simp [List.mem_filter]
      · rw [ipRm_view]; simp [List.mem_filter]
      · exact ipAddMsgs_isSome h2 x (by simp [List.mem_filter]; exact ⟨a, b⟩)

theorem maybeSync_core {p : Proc} {w : Nat} {ei ei' : EpInfo} {ms : List Msg} {v : View} {e : Endpoint} {c : Nat}
    (hc : Core p ei v) (he : ei.ep = some e) (ho : ei.output = some c) (h : maybeSync p w ei = some (ei', ms)) :
    Core p ei' (applyMsgs v ms) ∧ Exact p ei' ∧ (applyMsgs v ms).ep = some (w, e) ∧
    (applyMsgs v ms).sas = v.sas ∧ (applyMsgs v ms).nss = v.nss ∧ (applyMsgs v ms).inSync = v.inSync ∧
    (∀ x, x ∈ ei'.syncedIP → x ∉ ei.syncedIP → (p.ipsets.get x).isSome) := by
  unfold maybeSync at h
  simp only [he, ho] at h
  cases h1 : ipSync p ei with
  | none => simp only [h1] at h; cases h
  | some r1 =>
    obtain ⟨ei1, adds, dels⟩ := r1
    have ho1 := ipSync_output h1
    simp only [h1] at h
    cases h2 : syncAdded p.pols Msg.polUpd e.pols ei1.syncedPol with
    | none => simp only [h2] at h; cases h
    | some r2 =>
      obtain ⟨sp, polMsgs⟩ := r2
      simp only [h2] at h
      cases h3 : syncAdded p.profs Msg.profUpd e.profs ei1.syncedProf with
      | none => simp only [h3] at h; cases h
      | some r3 =>
        obtain ⟨sf, profMsgs⟩ := r3
        simp only [h3] at h
        cases h4 : syncRemovedLoop e.pols sp [] with
        | none => simp only [h4] at h; cases h
        | some r4 =>
          obtain ⟨oldP, newP⟩ := r4
          cases h5 : syncRemovedLoop e.profs sf [] with
          | none => simp only [h4, h5] at h; cases h
          | some r5 =>
            obtain ⟨oldF, newF⟩ := r5
            simp only [h4, h5, Option.some.injEq, Prod.mk.injEq] at h
            obtain ⟨rfl, rfl⟩ := h
            -- the seven segments
            obtain ⟨kA, kD, eIP, vA, vD, xIP⟩ := ipSync_spec h1 v
            have fA := frame_kind kA v
            obtain ⟨kP, sP, vP⟩ := syncAdded_pol_view h2 (applyMsgs v adds)
            have fP := frame_kind kP (applyMsgs v adds)
            obtain ⟨kF, sF, vF⟩ := syncAdded_prof_view h3 (applyMsgs (applyMsgs v adds) polMsgs)
            have fF := frame_kind kF (applyMsgs (applyMsgs v adds) polMsgs)
            obtain ⟨nP, oP, _⟩ := syncRemovedLoop_spec h4
            obtain ⟨nF, oF, _⟩ := syncRemovedLoop_spec h5
            have kE : ∀ m ∈ [Msg.epUpd w e], m.kind = .ep := by intro m hm; simp at hm; subst hm; rfl
            simp only [applyMsgs_append]
            generalize hv3 : applyMsgs (applyMsgs (applyMsgs v adds) polMsgs) profMsgs = v3 at *
            have fE := frame_kind kE v3
            generalize hv4 : applyMsgs v3 [Msg.epUpd w e] = v4 at *
            have fRP := frame_kind (kind_map_polRm oldP) v4
            have vRP := polRm_view oldP v4
            generalize hv5 : applyMsgs v4 (oldP.map Msg.polRm) = v5 at *
            have fRF := frame_kind (kind_map_profRm oldF) v5
            have vRF := profRm_view oldF v5
            generalize hv6 : applyMsgs v5 (oldF.map Msg.profRm) = v6 at *
            have fD := frame_kind kD v6
            have vD6 := vD v6
            generalize hv7 : applyMsgs v6 dels = v7 at *
            have hsp : ei1.syncedPol = ei.syncedPol := ho1.2.2.2.1
            have hsf : ei1.syncedProf = ei.syncedProf := ho1.2.2.2.2
            refine ⟨⟨fun id => ?_, fun id => ?_, fun x => ?_⟩, ⟨fun id => ?_, fun id => ?_, fun x => ?_⟩, ?_, ?_, ?_, ?_, xIP⟩
            · -- pols
              rw [fD.2.1 (by decide), fRF.2.1 (by decide), vRP id, fE.2.1 (by decide), fF.2.1 (by decide), vP id,
                fA.2.1 (by decide), hc.pols id]
              have := sP id; have := nP id; have := oP id
              simp only [List.not_mem_nil, false_or, hsp] at *
              by_cases a1 : id ∈ e.pols <;> by_cases a2 : id ∈ ei.syncedPol <;> simp_all
            · -- profs
              rw [fD.2.2.1 (by decide), vRF id, fRP.2.2.1 (by decide), fE.2.2.1 (by decide), vF id,
                fP.2.2.1 (by decide), fA.2.2.1 (by decide), hc.profs id]
              have := sF id; have := nF id; have := oF id
              simp only [List.not_mem_nil, false_or, hsf] at *
              by_cases a1 : id ∈ e.profs <;> by_cases a2 : id ∈ ei.syncedProf <;> simp_all
            · -- ipsets
              rw [vD6 x, fRF.2.2.2.1 (by decide), fRP.2.2.2.1 (by decide), fE.2.2.2.1 (by decide),
                fF.2.2.2.1 (by decide), fP.2.2.2.1 (by decide), vA x, hc.ipsets x]
              by_cases a1 : x ∈ ei1.syncedIP <;> by_cases a2 : x ∈ ei.syncedIP <;> simp_all
            · simp only [ho1.2.1, he, epPols]; rw [nP id]; simp
            · simp only [ho1.2.1, he, epProfs]; rw [nF id]; simp
            · simp only [ho1.2.1]; exact eIP x
            · rw [fD.1 (by decide), fRF.1 (by decide), fRP.1 (by decide), ← hv4]; rfl
            · rw [fD.2.2.2.2.1 (by decide), fRF.2.2.2.2.1 (by decide), fRP.2.2.2.2.1 (by decide), fE.2.2.2.2.1 (by decide),
                fF.2.2.2.2.1 (by decide), fP.2.2.2.2.1 (by decide), fA.2.2.2.2.1 (by decide)]
            · rw [fD.2.2.2.2.2.1 (by decide), fRF.2.2.2.2.2.1 (by decide), fRP.2.2.2.2.2.1 (by decide), fE.2.2.2.2.2.1 (by decide),
                fF.2.2.2.2.2.1 (by decide), fP.2.2.2.2.2.1 (by decide), fA.2.2.2.2.2.1 (by decide)]
            · rw [fD.2.2.2.2.2.2 (by decide), fRF.2.2.2.2.2.2 (by decide), fRP.2.2.2.2.2.2 (by decide), fE.2.2.2.2.2.2 (by decide),
                fF.2.2.2.2.2.2 (by decide), fP.2.2.2.2.2.2 (by decide), fA.2.2.2.2.2.2 (by decide)]

/-! ### service accounts, namespaces, stream extraction -/

theorem saUpd_view (m : AMap Nat) (hn : m.NodupKeys) (v : View) :
    (∀ x ∈ m.map (fun kv => Msg.saUpd kv.1 kv.2), x.kind = .sa) ∧
    ∀ id, (applyMsgs v (m.map (fun kv => Msg.saUpd kv.1 kv.2))).sas id = match m.get id with | some x => some x | none => v.sas id := by
  induction m generalizing v with
  | nil => simp [applyMsgs, AMap.get]
  | cons kv r ih =>
    obtain ⟨k, x⟩ := kv
    simp only [AMap.NodupKeys, List.map_cons, List.nodup_cons, List.mem_map, not_exists, not_and] at hn
    obtain ⟨a, b⟩ := ih hn.2 (applyMsg v (Msg.saUpd k x))
    refine ⟨?_, fun id => ?_⟩
    · intro y hy
      simp only [List.map_cons, List.mem_cons] at hy
      rcases hy with rfl | hy
      · rfl
      · exact a y hy
    · simp only [List.map_cons, applyMsgs_cons]
      rw [b id]
      by_cases hk : k = id
      · subst hk
        have : AMap.get r k = none := by
          cases hg : AMap.get r k with
          | none => rfl
          | some y => exact absurd rfl (hn.1 (k, y) (AMap.mem_of_get hg))
        simp [AMap.get, this, applyMsg, upd]
      · have hk' : ¬ id = k := fun e => hk e.symm
        simp [AMap.get, hk, hk', applyMsg, upd]

theorem nsUpd_view (m : AMap Nat) (hn : m.NodupKeys) (v : View) :
    (∀ x ∈ m.map (fun kv => Msg.nsUpd kv.1 kv.2), x.kind = .ns) ∧
    ∀ id, (applyMsgs v (m.map (fun kv => Msg.nsUpd kv.1 kv.2))).nss id = match m.get id with | some x => some x | none => v.nss id := by
  induction m generalizing v with
  | nil => simp [applyMsgs, AMap.get]
  | cons kv r ih =>
    obtain ⟨k, x⟩ := kv
    simp only [AMap.NodupKeys, List.map_cons, List.nodup_cons, List.mem_map, not_exists, not_and] at hn
    obtain ⟨a, b⟩ := ih hn.2 (applyMsg v (Msg.nsUpd k x))
    refine ⟨?_, fun id => ?_⟩
    · intro y hy
      simp only [List.map_cons, List.mem_cons] at hy
      rcases hy with rfl | hy
      · rfl
      · exact a y hy
    · simp only [List.map_cons, applyMsgs_cons]
      rw [b id]
      by_cases hk : k = id
      · subst hk
        have : AMap.get r k = none := by
          cases hg : AMap.get r k with
          | none => rfl
          | some y => exact absurd rfl (hn.1 (k, y) (AMap.mem_of_get hg))
        simp [AMap.get, this, applyMsg, upd]
      · have hk' : ¬ id = k := fun e => hk e.symm
        simp [AMap.get, hk, hk', applyMsg, upd]

theorem msgsOf_append (a b : List Ev) (c : Nat) : msgsOf (a ++ b) c = msgsOf a c ++ msgsOf b c := by
  simp [msgsOf, List.filterMap_append]

theorem msgsOf_tag (c : Nat) (ms : List Msg) : msgsOf (tag c ms) c = ms := by
  induction ms with
  | nil => rfl
  | cons m ms ih => simp only [tag, List.map_cons, msgsOf, List.filterMap_cons] at ih ⊢; simp [ih]

theorem msgsOf_tag_ne {c c' : Nat} (h : c' ≠ c) (ms : List Msg) : msgsOf (tag c' ms) c = [] := by
  induction ms with
  | nil => rfl
  | cons m ms ih => simp only [tag, List.map_cons, msgsOf, List.filterMap_cons] at ih ⊢; simp [ih, h]

theorem msgsOf_closeEv (o : Option Nat) (c : Nat) : msgsOf (closeEv o) c = [] := by
  cases o with
  | none => rfl
  | some oc => by_cases h : oc = c <;> simp [closeEv, msgsOf, h]

/-- Core + Exact + the other components give the property's `Complete`. -/
theorem complete_of {p : Proc} {w : Nat} {ei : EpInfo} {v : View} (hc : Core p ei v) (hx : Exact p ei)
    (hep : v.ep = ei.ep.map (fun e => (w, e))) (hsa : ∀ id, v.sas id = p.sas.get id) (hns : ∀ id, v.nss id = p.nss.get id)
    (hsy : v.inSync = p.inSync) (hex : ∀ x, x ∈ ei.syncedIP → (p.ipsets.get x).isSome) :
    Complete p w ei.ep v := by
  refine ⟨hep, fun id => ?_, fun id => ?_, fun x hn => ?_, fun x hn => ?_, hsa, hns, hsy⟩
  · rw [hc.pols id]; simp only [hx.pols id]
  · rw [hc.profs id]; simp only [hx.profs id]
  · have hm := (hx.ipsets x).2 hn
    have := hex x hm
    cases hg : p.ipsets.get x with
    | none => simp [hg] at this
    | some ms =>
      refine ⟨ms, rfl, setOf ms, ?_, fun m => rfl⟩
      rw [hc.ipsets x]; simp [hm, hg]
  · have hm : x ∉ ei.syncedIP := fun h => hn ((hx.ipsets x).1 h)
    rw [hc.ipsets x]; simp [hm]

end CalicoVerif.C31
