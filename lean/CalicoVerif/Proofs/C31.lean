import CalicoVerif.Proofs.C31Base
/-! C31 — helper lemmas (frames, bursts, handlers). -/
namespace CalicoVerif.C31

/-! ### frame lemmas: a message only touches its own component -/

inductive Kind | ep | pol | prof | ip | sa | ns | sync
deriving DecidableEq

def Msg.kind : Msg → Kind
  | .inSync => .sync
  | .epUpd _ _ => .ep
  | .epRm _ => .ep
  | .polUpd _ _ => .pol
  | .polRm _ => .pol
  | .profUpd _ _ => .prof
  | .profRm _ => .prof
  | .saUpd _ _ => .sa
  | .saRm _ => .sa
  | .nsUpd _ _ => .ns
  | .nsRm _ => .ns
  | .ipUpd _ _ => .ip
  | .ipDelta _ _ _ => .ip
  | .ipRm _ => .ip

theorem applyMsgs_nil (v : View) : applyMsgs v [] = v := rfl
theorem applyMsgs_cons (v : View) (m : Msg) (ms : List Msg) : applyMsgs v (m :: ms) = applyMsgs (applyMsg v m) ms := rfl
theorem applyMsgs_append (v : View) (a b : List Msg) : applyMsgs v (a ++ b) = applyMsgs (applyMsgs v a) b := by
  simp [applyMsgs, List.foldl_append]

theorem frame_ep (v : View) (ms : List Msg) (h : ∀ m ∈ ms, m.kind ≠ .ep) : (applyMsgs v ms).ep = v.ep := by
  induction ms generalizing v with
  | nil => rfl
  | cons m ms ih =>
    rw [applyMsgs_cons, ih _ (fun m' hm' => h m' (List.mem_cons_of_mem _ hm'))]
    have := h m (by simp)
    cases m <;> simp_all [applyMsg, Msg.kind]

theorem frame_pols (v : View) (ms : List Msg) (h : ∀ m ∈ ms, m.kind ≠ .pol) : (applyMsgs v ms).pols = v.pols := by
  induction ms generalizing v with
  | nil => rfl
  | cons m ms ih =>
    rw [applyMsgs_cons, ih _ (fun m' hm' => h m' (List.mem_cons_of_mem _ hm'))]
    have := h m (by simp)
    cases m <;> simp_all [applyMsg, Msg.kind]

theorem frame_profs (v : View) (ms : List Msg) (h : ∀ m ∈ ms, m.kind ≠ .prof) : (applyMsgs v ms).profs = v.profs := by
  induction ms generalizing v with
  | nil => rfl
  | cons m ms ih =>
    rw [applyMsgs_cons, ih _ (fun m' hm' => h m' (List.mem_cons_of_mem _ hm'))]
    have := h m (by simp)
    cases m <;> simp_all [applyMsg, Msg.kind]

theorem frame_ipsets (v : View) (ms : List Msg) (h : ∀ m ∈ ms, m.kind ≠ .ip) : (applyMsgs v ms).ipsets = v.ipsets := by
  induction ms generalizing v with
  | nil => rfl
  | cons m ms ih =>
    rw [applyMsgs_cons, ih _ (fun m' hm' => h m' (List.mem_cons_of_mem _ hm'))]
    have := h m (by simp)
    cases m <;> simp_all [applyMsg, Msg.kind]

theorem frame_sas (v : View) (ms : List Msg) (h : ∀ m ∈ ms, m.kind ≠ .sa) : (applyMsgs v ms).sas = v.sas := by
  induction ms generalizing v with
  | nil => rfl
  | cons m ms ih =>
    rw [applyMsgs_cons, ih _ (fun m' hm' => h m' (List.mem_cons_of_mem _ hm'))]
    have := h m (by simp)
    cases m <;> simp_all [applyMsg, Msg.kind]

theorem frame_nss (v : View) (ms : List Msg) (h : ∀ m ∈ ms, m.kind ≠ .ns) : (applyMsgs v ms).nss = v.nss := by
  induction ms generalizing v with
  | nil => rfl
  | cons m ms ih =>
    rw [applyMsgs_cons, ih _ (fun m' hm' => h m' (List.mem_cons_of_mem _ hm'))]
    have := h m (by simp)
    cases m <;> simp_all [applyMsg, Msg.kind]

theorem frame_inSync (v : View) (ms : List Msg) (h : ∀ m ∈ ms, m.kind ≠ .sync) : (applyMsgs v ms).inSync = v.inSync := by
  induction ms generalizing v with
  | nil => rfl
  | cons m ms ih =>
    rw [applyMsgs_cons, ih _ (fun m' hm' => h m' (List.mem_cons_of_mem _ hm'))]
    have := h m (by simp)
    cases m <;> simp_all [applyMsg, Msg.kind]

end CalicoVerif.C31
