import CalicoVerif.Proofs.C43Inv3
/-!
C43 — dirty-marking completeness: `flush` and whole histories.
-/
namespace CalicoVerif.C43

local macro "triv" : tactic => `(tactic| first | rfl | trivial)

theorem setRouteSent_facts (s : St) (c : Cidr) (b : Bool) :
    (∀ k, (s.setRouteSent c b).view k = s.view k) ∧ (s.setRouteSent c b).nodes = s.nodes ∧
    (s.setRouteSent c b).me = s.me ∧ (s.setRouteSent c b).nodeRoutes = s.nodeRoutes := by
  unfold St.setRouteSent
  obtain ⟨h1, h2, h3, _, _, _, hv, _⟩ := updateCIDR_facts s c (fun ri => { ri with wasSent := b })
  refine ⟨fun k => ?_, h2, h1, h3⟩
  rw [hv k]
  by_cases h : c = k
  · subst h; simp only [if_true]; rfl
  · simp [h]

theorem route_of_view (s s' : St) (hv : ∀ k, s'.view k = s.view k) (hn : s'.nodes = s.nodes) (hme : s'.me = s.me)
    (c : Cidr) : s'.route c = s.route c :=
  route_congr s s' c hme hn (hv c) (fun l _ => hv _)

theorem routeOfPath_dst (me : Nat) (nodes : List (Nat × NodeInfo)) (c : Cidr) (path : List (Cidr × RouteInfo)) :
    (routeOfPath me nodes c path).dst = c := rfl

/-- one iteration of the flush loop. -/
theorem flushOne_facts (s : St) (c : Cidr) :
    (∀ k, (s.flushOne c).1.view k = s.view k) ∧ (s.flushOne c).1.nodes = s.nodes ∧
    (s.flushOne c).1.me = s.me ∧ (s.flushOne c).1.nodeRoutes = s.nodeRoutes ∧
    (∀ e ∈ (s.flushOne c).2, e.dst = c) ∧
    (∀ n, (s.view c).block = some n → zeroHost c = false → (s.flushOne c).2 = [Event.update (s.route c)]) := by
  unfold St.flushOne
  cases hg : aget s.trie c with
  | none =>
    simp only []
    refine ⟨fun _ => by triv, by triv, by triv, by triv, fun e he => by simp at he, ?_⟩
    intro n hb _
    simp [St.view, St.get, hg, strip] at hb
  | some last =>
    simp only []
    have hget : s.get c = last := by simp [St.get, hg]
    by_cases h1 : (last.wasSent && !last.isValidRoute) = true
    · simp only [h1, if_true]
      obtain ⟨f1, f2, f3, f4⟩ := setRouteSent_facts s c false
      refine ⟨f1, f2, f3, f4, fun e he => by simp at he; subst he; rfl, ?_⟩
      intro n hb _
      have : last.block = some n := by simpa [St.view, hget, strip] using hb
      simp [RouteInfo.isValidRoute, this] at h1
    · simp only [h1]
      by_cases h2 : zeroHost c = true
      · simp only [h2, if_true]
        refine ⟨fun _ => by triv, by triv, by triv, by triv, fun e he => by simp at he, ?_⟩
        intro n _ hne; cases hne
      · simp only [h2, if_false]
        obtain ⟨f1, f2, f3, f4⟩ := setRouteSent_facts s c true
        refine ⟨f1, f2, f3, f4, fun e he => by simp at he; subst he; rfl, ?_⟩
        intro n _ _; rfl

theorem applyEvents_append (sent : List (Cidr × RouteUpdate)) (a b : List Event) :
    applyEvents sent (a ++ b) = applyEvents (applyEvents sent a) b := by
  simp [applyEvents, List.foldl_append]

theorem applyEvents_other (sent : List (Cidr × RouteUpdate)) (evs : List Event) (c : Cidr)
    (h : ∀ e ∈ evs, e.dst ≠ c) : aget (applyEvents sent evs) c = aget sent c := by
  induction evs generalizing sent with
  | nil => rfl
  | cons e evs ih =>
    have he := h e List.mem_cons_self
    have := ih (applyEvents sent [e]) (fun x hx => h x (List.mem_cons_of_mem _ hx))
    have hcons : applyEvents sent (e :: evs) = applyEvents (applyEvents sent [e]) evs := by
      simp [applyEvents]
    rw [hcons, this]
    cases e with
    | update r =>
      simp only [applyEvents, List.foldl_cons, List.foldl_nil]
      rw [aget_aset]; simp only [Event.dst] at he; simp [he]
    | remove d =>
      simp only [applyEvents, List.foldl_cons, List.foldl_nil]
      rw [aget_adel]; simp only [Event.dst] at he; simp [he]

/-- the flush loop: every tracked CIDR in the list ends up sent with its current route; the others
keep what they had. -/
theorem flushList_facts (cs : List Cidr) (s : St) :
    (∀ k, (flushList s cs).1.view k = s.view k) ∧ (flushList s cs).1.nodes = s.nodes ∧
    (flushList s cs).1.me = s.me ∧ (flushList s cs).1.nodeRoutes = s.nodeRoutes ∧
    (∀ (sent : List (Cidr × RouteUpdate)) c n, (s.view c).block = some n → zeroHost c = false →
      (c ∈ cs ∨ aget sent c = some (s.route c)) →
      aget (applyEvents sent (flushList s cs).2) c = some (s.route c)) := by
  induction cs generalizing s with
  | nil =>
    simp only [flushList]
    refine ⟨fun _ => by triv, by triv, by triv, by triv, ?_⟩
    intro sent c n _ _ h
    rcases h with h | h
    · simp at h
    · exact h
  | cons d ds ih =>
    simp only [flushList]
    obtain ⟨f1, f2, f3, f4, f5, f6⟩ := flushOne_facts s d
    obtain ⟨g1, g2, g3, g4, g5⟩ := ih (s.flushOne d).1
    refine ⟨fun k => (g1 k).trans (f1 k), g2.trans f2, g3.trans f3, g4.trans f4, ?_⟩
    intro sent c n hb h0 hc
    rw [applyEvents_append]
    have hr : (s.flushOne d).1.route c = s.route c := route_of_view s _ f1 f2 f3 c
    rw [← hr]
    apply g5 _ c n (by rw [f1]; exact hb) h0
    by_cases hcd : c = d
    · right
      subst hcd
      rw [f6 n hb h0, hr]
      simp only [applyEvents, List.foldl_cons, List.foldl_nil]
      rw [aget_aset]; simp [St.route, routeOfPath_dst]
    · rcases hc with hc | hc
      · rcases List.mem_cons.1 hc with e | e
        · exact absurd e hcd
        · exact Or.inl e
      · right
        rw [applyEvents_other sent _ c (fun e he => by rw [f5 e he]; exact fun x => hcd x.symm), hr]
        exact hc

theorem mem_insertCidr (c x : Cidr) (l : List Cidr) : x ∈ insertCidr c l ↔ x = c ∨ x ∈ l := by
  induction l with
  | nil => simp [insertCidr]
  | cons y ys ih =>
    simp only [insertCidr]
    split
    · simp
    · simp only [List.mem_cons, ih]
      constructor
      · rintro (h | h | h)
        · exact Or.inr (Or.inl h)
        · exact Or.inl h
        · exact Or.inr (Or.inr h)
      · rintro (h | h | h)
        · exact Or.inr (Or.inl h)
        · exact Or.inl h
        · exact Or.inr (Or.inr h)

theorem mem_sorted_dirty (l : List Cidr) (x : Cidr) : x ∈ l.foldr insertCidr [] ↔ x ∈ l := by
  induction l with
  | nil => simp
  | cons y ys ih => simp only [List.foldr_cons, mem_insertCidr, ih, List.mem_cons]

/-- between updates: nothing is dirty and every tracked route downstream is current. -/
structure Inv (s : St) (sent : List (Cidr × RouteUpdate)) : Prop where
  clean : s.dirty = []
  aux : Aux s
  cur : ∀ c n, Tracked s c n → zeroHost c = false → aget sent c = some (s.route c)

theorem Aux.of_view (s s' : St) (hv : ∀ k, s'.view k = s.view k) (hn : s'.nodeRoutes = s.nodeRoutes) (h : Aux s) :
    Aux s' := by
  refine ⟨fun k => ?_, fun k => ?_, fun c n => ?_⟩
  · rw [hv]; exact h.h32 k
  · rw [hv]; exact h.l32 k
  · rw [hv, hn]; exact h.nr c n

theorem flush_inv (s : St) (sent : List (Cidr × RouteUpdate)) (h : MA s sent) :
    Inv (s.flush).1 (applyEvents sent (s.flush).2) := by
  obtain ⟨hm, ha⟩ := h
  unfold St.flush
  simp only []
  obtain ⟨g1, g2, g3, g4, g5⟩ := flushList_facts (s.dirty.foldr insertCidr []) s
  have hv : ∀ k, ({ (flushList s (s.dirty.foldr insertCidr [])).1 with dirty := [] } : St).view k = s.view k :=
    fun k => (view_congr (flushList s (s.dirty.foldr insertCidr [])).1 _ rfl k).trans (g1 k)
  refine ⟨rfl, Aux.of_view s _ hv g4 ha, ?_⟩
  intro c n ht h0
  have ht' : Tracked s c n := by unfold Tracked at ht ⊢; rw [← hv]; exact ht
  rw [route_of_view s _ hv g2 g3 c]
  apply g5 sent c n ht'.1 h0
  by_cases hd : c ∈ s.dirty
  · exact Or.inl ((mem_sorted_dirty _ _).2 hd)
  · exact Or.inr (hm c n ht' hd h0)

/-- the updates the theorem speaks about: node, pool and block updates with CIDRs no longer than their family's address width. -/
def Op.ok : Op → Prop
  | .node _ _ => True
  | .pool c _ => c.len ≤ c.width
  | .block c _ _ => c.len ≤ c.width
  | .blockDel _ => True
  | .wep _ _ _ => False

theorem Inv.toMA (s : St) (sent : List (Cidr × RouteUpdate)) (h : Inv s sent) : MA s sent :=
  ⟨fun c n ht _ h0 => h.cur c n ht h0, h.aux⟩

theorem step_inv (s : St) (sent : List (Cidr × RouteUpdate)) (op : Op) (hok : op.ok) (h : Inv s sent) :
    Inv (s.step op).1 (applyEvents sent (s.step op).2) := by
  unfold St.step
  apply flush_inv
  have hma := h.toMA
  cases op with
  | node n i => exact node_step s sent n i hma
  | pool c p => exact pool_step s sent c p hok hma
  | block c aff allocs => exact block_step s sent c aff allocs hok hma
  | blockDel c => exact blockDel_step s sent c hma
  | wep _ _ _ => exact absurd hok (by simp [Op.ok])

theorem run_inv (ops : List Op) (s : St) (sent : List (Cidr × RouteUpdate)) (hok : ∀ op ∈ ops, op.ok)
    (h : Inv s sent) : Inv (St.run s sent ops).1 (St.run s sent ops).2 := by
  induction ops generalizing s sent with
  | nil => exact h
  | cons op ops ih =>
    simp only [St.run]
    exact ih _ _ (fun o ho => hok o (List.mem_cons_of_mem _ ho)) (step_inv s sent op (hok op List.mem_cons_self) h)

theorem inv_init (me : Nat) : Inv { me := me } [] := by
  refine ⟨rfl, ⟨fun k h => ?_, fun k h => ?_, fun c n h => ?_⟩, fun c n ht _ => ?_⟩
  · simp [St.view, St.get, aget, strip] at h
  · exact absurd rfl h
  · simp [St.view, St.get, aget, strip] at h
  · simp [Tracked, St.view, St.get, aget, strip] at ht

end CalicoVerif.C43
