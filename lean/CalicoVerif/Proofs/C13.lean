import CalicoVerif.Model.C13
/-! C13 — lemmas about the layout algorithm. -/
namespace CalicoVerif.C13

theorem roundUp_mod (n a : Nat) : roundUp n a % a = 0 := by
  unfold roundUp; exact Nat.mul_mod_left _ _

theorem roundUp_ge (n a : Nat) (ha : 0 < a) : n ≤ roundUp n a := by
  unfold roundUp
  have h1 := Nat.div_add_mod (n + a - 1) a
  have h2 := Nat.mod_lt (n + a - 1) ha
  have h3 : (n + a - 1) / a * a = a * ((n + a - 1) / a) := Nat.mul_comm _ _
  omega

/-- Well-formed field: positive alignment (every C object type). -/
def Field.wf (f : Field) : Prop := 0 < f.ty.align

theorem effAlign_pos (packed : Bool) (f : Field) (h : f.wf) : 0 < f.effAlign packed := by
  unfold Field.effAlign; cases packed <;> simp <;> exact h

theorem placeField_ge (packed : Bool) (pos : Nat) (f : Field) (h : f.wf) :
    pos ≤ placeField packed pos f := by
  unfold placeField
  cases f.bits with
  | none =>
    simp only []
    exact roundUp_ge _ _ (by have := effAlign_pos packed f h; omega)
  | some w =>
    simp only []
    split
    · exact Nat.le_refl _
    · split
      · exact roundUp_ge _ _ (by unfold Field.wf at h; omega)
      · exact Nat.le_refl _

theorem layoutStruct_bounds (packed : Bool) (fs : List Field) (pos : Nat) (hwf : ∀ f ∈ fs, f.wf) :
    pos ≤ (layoutStruct packed fs pos).2 ∧
    ∀ s ∈ (layoutStruct packed fs pos).1, pos ≤ s.off ∧ s.off + s.size ≤ (layoutStruct packed fs pos).2 := by
  induction fs generalizing pos with
  | nil => simp [layoutStruct]
  | cons f fs ih =>
    have hf : f.wf := hwf f (by simp)
    have hge := placeField_ge packed pos f hf
    have ih' := ih (placeField packed pos f + f.bitSize) (fun g hg => hwf g (by simp [hg]))
    simp only [layoutStruct]
    refine ⟨by omega, ?_⟩
    intro s hs
    rcases List.mem_cons.1 hs with rfl | hs'
    · simp only; omega
    · have := ih'.2 s hs'; omega

theorem layoutStruct_pairwise (packed : Bool) (fs : List Field) (pos : Nat) (hwf : ∀ f ∈ fs, f.wf) :
    (layoutStruct packed fs pos).1.Pairwise (fun a b => a.off + a.size ≤ b.off) := by
  induction fs generalizing pos with
  | nil => simp [layoutStruct]
  | cons f fs ih =>
    simp only [layoutStruct, List.pairwise_cons]
    refine ⟨?_, ih _ (fun g hg => hwf g (by simp [hg]))⟩
    intro s hs
    have := (layoutStruct_bounds packed fs (placeField packed pos f + f.bitSize)
      (fun g hg => hwf g (by simp [hg]))).2 s hs
    show placeField packed pos f + f.bitSize ≤ s.off
    omega

theorem layoutStruct_aligned (packed : Bool) (fs : List Field) (pos : Nat) :
    ∀ p ∈ fs.zip (layoutStruct packed fs pos).1, p.1.bits = none →
      p.2.off % (8 * p.1.effAlign packed) = 0 := by
  induction fs generalizing pos with
  | nil => simp [layoutStruct]
  | cons f fs ih =>
    intro p hp hb
    simp only [layoutStruct, List.zip_cons_cons, List.mem_cons] at hp
    rcases hp with rfl | hp
    · simp only at hb ⊢
      simp only [placeField, hb]
      exact roundUp_mod _ _
    · exact ih _ p hp hb

theorem layoutStruct_names (packed : Bool) (fs : List Field) (pos : Nat) :
    (layoutStruct packed fs pos).1.map (·.name) = fs.map (·.name) := by
  induction fs generalizing pos with
  | nil => rfl
  | cons f fs ih => simp [layoutStruct, ih]

theorem layoutUnion_zero (fs : List Field) :
    ∀ s ∈ (layoutUnion fs).1, s.off = 0 ∧ s.size ≤ (layoutUnion fs).2 := by
  induction fs with
  | nil => simp [layoutUnion]
  | cons f fs ih =>
    intro s hs
    simp only [layoutUnion, List.mem_cons] at hs ⊢
    rcases hs with rfl | hs
    · exact ⟨rfl, Nat.le_max_left _ _⟩
    · have := ih s hs
      exact ⟨this.1, Nat.le_trans this.2 (Nat.le_max_right _ _)⟩

theorem foldl_max_ge {α : Type} (g : α → Nat) (xs : List α) (a : Nat) :
    a ≤ xs.foldl (fun a x => max a (g x)) a := by
  induction xs generalizing a with
  | nil => exact Nat.le_refl _
  | cons x xs ih => exact Nat.le_trans (Nat.le_max_left _ _) (ih _)

theorem Rec.align_pos (r : Rec) : 0 < r.align := by
  unfold Rec.align
  exact Nat.lt_of_lt_of_le (by decide : 0 < 1) (foldl_max_ge _ _ _)

theorem foldl_max_ge_mem {α : Type} (g : α → Nat) (xs : List α) (a : Nat) (x : α) (hx : x ∈ xs) :
    g x ≤ xs.foldl (fun a x => max a (g x)) a := by
  induction xs generalizing a with
  | nil => cases hx
  | cons y ys ih =>
    rcases List.mem_cons.1 hx with rfl | h
    · exact Nat.le_trans (Nat.le_max_right _ _) (foldl_max_ge _ _ _)
    · exact ih _ h

end CalicoVerif.C13
