import CalicoVerif.Proofs.C30Rule
/-! Helper lemmas for C30, part 3: IntersectCIDRs and the address side of a rule. -/
namespace CalicoVerif.C30

theorem contains_v4 (a : Addr) (h : a.v6 = false) (ip : Nat) :
    a.contains ip = ((a.addr >>> (32 - a.len)) == (ip >>> (32 - a.len))) := by
  simp [Addr.contains, h]

theorem canon_v6 (a : Addr) : a.canon.v6 = false := rfl
theorem canon_len (a : Addr) : a.canon.len = a.len := rfl
theorem canon_prefix (a : Addr) : a.canon.addr >>> (32 - a.len) = a.addr >>> (32 - a.len) := by
  simp [Addr.canon, Nat.shiftLeft_shiftRight]
theorem canon_addr (a : Addr) : a.canon.addr = (a.addr >>> (32 - a.len)) <<< (32 - a.len) := rfl

theorem canon_contains (a : Addr) (h : a.v6 = false) (ip : Nat) : a.canon.contains ip = a.contains ip := by
  rw [contains_v4 _ (canon_v6 a), contains_v4 _ h, canon_len, canon_prefix]

theorem shift_split (x big small : Nat) (h : small ≤ big) : x >>> big = (x >>> small) >>> (big - small) := by
  rw [← Nat.shiftRight_add]; congr 1; omega

/-- One step of IntersectCIDRs: the result contains exactly the addresses in both CIDRs. -/
theorem intersectPair_contains (a b : Addr) (ha : a.v6 = false) (hb : b.v6 = false) (ip : Nat) :
    (match intersectPair a b with
     | some c => c.contains ip
     | none => false) = (a.contains ip && b.contains ip) := by
  rw [← canon_contains a ha, ← canon_contains b hb]
  unfold intersectPair
  simp only [canon_len]
  have hA := canon_prefix a
  have hB := canon_prefix b
  by_cases hl : a.len = b.len
  · simp only [hl, if_true]
    by_cases he : a.canon.addr = b.canon.addr
    · simp only [he, if_true]
      rw [contains_v4 _ (canon_v6 a), contains_v4 _ (canon_v6 b), canon_len, canon_len, hl, he]
      simp
    · simp only [he, if_false]
      rw [contains_v4 _ (canon_v6 a), contains_v4 _ (canon_v6 b), canon_len, canon_len, hl]
      rw [Bool.eq_iff_iff]
      simp only [Bool.false_eq_true, Bool.and_eq_true, beq_iff_eq, false_iff, not_and]
      intro h1 h2
      apply he
      rw [canon_addr, canon_addr, hl]
      have e1 := canon_prefix a
      have e2 := canon_prefix b
      rw [hl] at e1
      rw [← e1, ← e2, h1, h2]
  · simp only [hl, if_false]
    by_cases hlt : a.len < b.len
    · simp only [hlt, if_true]
      have hsh : 32 - b.len ≤ 32 - a.len := by omega
      rw [contains_v4 _ (canon_v6 a) b.canon.addr, canon_len]
      rw [contains_v4 _ (canon_v6 a) ip, contains_v4 _ (canon_v6 b) ip, canon_len, canon_len]
      rw [shift_split b.canon.addr _ _ hsh, shift_split ip _ _ hsh]
      by_cases hc : (a.canon.addr >>> (32 - a.len)) = (b.canon.addr >>> (32 - b.len)) >>> (32 - a.len - (32 - b.len))
      · simp only [hc, beq_self_eq_true, if_true]
        rw [contains_v4 _ (canon_v6 b) ip, canon_len]
        rw [Bool.eq_iff_iff]
        simp only [beq_iff_eq, Bool.and_eq_true]
        constructor
        · intro h; exact ⟨by rw [h], h⟩
        · intro h; exact h.2
      · have : (a.canon.addr >>> (32 - a.len) == (b.canon.addr >>> (32 - b.len)) >>> (32 - a.len - (32 - b.len))) = false := by
          simpa using hc
        simp only [this, Bool.false_eq_true, if_false]
        rw [Bool.eq_iff_iff]
        simp only [Bool.false_eq_true, Bool.and_eq_true, beq_iff_eq, false_iff, not_and]
        intro h1 h2
        apply hc
        rw [h1, h2]
    · simp only [hlt, if_false]
      have hsh : 32 - a.len ≤ 32 - b.len := by omega
      rw [contains_v4 _ (canon_v6 b) a.canon.addr, canon_len]
      rw [contains_v4 _ (canon_v6 a) ip, contains_v4 _ (canon_v6 b) ip, canon_len, canon_len]
      rw [shift_split a.canon.addr _ _ hsh, shift_split ip _ _ hsh]
      by_cases hc : (b.canon.addr >>> (32 - b.len)) = (a.canon.addr >>> (32 - a.len)) >>> (32 - b.len - (32 - a.len))
      · simp only [hc, beq_self_eq_true, if_true]
        rw [contains_v4 _ (canon_v6 a) ip, canon_len]
        rw [Bool.eq_iff_iff]
        simp only [beq_iff_eq, Bool.and_eq_true]
        constructor
        · intro h; exact ⟨h, by rw [h]⟩
        · intro h; exact h.1
      · have : (b.canon.addr >>> (32 - b.len) == (a.canon.addr >>> (32 - a.len)) >>> (32 - b.len - (32 - a.len))) = false := by
          simpa using hc
        simp only [this, Bool.false_eq_true, if_false]
        rw [Bool.eq_iff_iff]
        simp only [Bool.false_eq_true, Bool.and_eq_true, beq_iff_eq, false_iff, not_and]
        intro h1 h2
        apply hc
        rw [h2, h1]

/-- IntersectCIDRs: an address is in some output CIDR iff it is in some CIDR of each input list. -/
theorem intersectCIDRs_any (as bs : List Addr) (ha : ∀ a ∈ as, a.v6 = false) (hb : ∀ b ∈ bs, b.v6 = false) (ip : Nat) :
    (intersectCIDRs as bs).any (·.contains ip) = (as.any (·.contains ip) && bs.any (·.contains ip)) := by
  unfold intersectCIDRs
  dsimp only
  rw [(List.mergeSort_perm _ _).any_eq]
  have hdups : ∀ l : List Addr, l.eraseDups.any (·.contains ip) = l.any (·.contains ip) := by
    intro l
    rw [Bool.eq_iff_iff]
    simp only [List.any_eq_true, List.mem_eraseDups]
  rw [hdups, List.any_flatMap]
  have : ∀ a ∈ as, (bs.filterMap fun b => intersectPair a b).any (·.contains ip) = (a.contains ip && bs.any (·.contains ip)) := by
    intro a hamem
    rw [List.any_filterMap, ← any_const_and]
    apply any_congr_mem
    intro b hbmem
    have h := intersectPair_contains a b (ha a hamem) (hb b hbmem) ip
    cases hx : intersectPair a b <;> simp only [hx] at h ⊢ <;> exact h
  rw [any_congr_mem this, any_and_const]


/-! ### filterNets and the nets ∩ IP-set combination -/

/-- What the real IP set cache guarantees and the converter relies on. -/
structure IPSets.wf (s : IPSets) : Prop where
  /-- `GetIPSetMembers` returns nil (not an empty slice) for a set without members -/
  nonempty : ∀ id m, s.get id = some m → m ≠ []
  /-- only IPv4 members (the Windows dataplane tracks IPv4 sets only) -/
  v4 : ∀ id m, s.get id = some m → ∀ a ∈ m, a.v6 = false

theorem addrsOK_v6 (nets : List Addr) (h : ∀ a ∈ nets, a.v6 = true) (hne : nets ≠ []) (ip : Nat) :
    addrsOK nets ip = false := by
  cases nets with
  | nil => exact absurd rfl hne
  | cons a rest =>
    simp only [addrsOK, List.isEmpty_cons, Bool.false_or]
    rw [Bool.eq_false_iff]
    intro hany
    obtain ⟨x, hx, hc⟩ := List.any_eq_true.1 hany
    simp [Addr.contains, h x hx] at hc

theorem filterNets_sem (nets : List Addr) (ip : Nat) :
    ((filterNets nets).2 = true → addrsOK nets ip = false) ∧
    ((filterNets nets).2 = false → addrsOK (filterNets nets).1 ip = addrsOK nets ip) ∧
    (∀ a ∈ (filterNets nets).1, a.v6 = false) := by
  unfold filterNets
  cases nets with
  | nil => simp [addrsOK]
  | cons a rest =>
    simp only [List.isEmpty_cons, Bool.false_eq_true, if_false]
    refine ⟨?_, ?_, ?_⟩
    · intro hall
      apply addrsOK_v6 _ _ (by simp)
      intro x hx
      have hnil : List.filter (fun a => !a.v6) (a :: rest) = [] := by simpa using hall
      have := List.filter_eq_nil_iff.1 hnil x hx
      simpa using this
    · intro hne
      have hne' : (List.filter (fun a => !a.v6) (a :: rest)).isEmpty = false := hne
      simp only [addrsOK, hne', List.isEmpty_cons, Bool.false_or, List.any_filter]
      apply any_congr_mem
      intro x _
      cases hx : x.v6 <;> simp [Addr.contains, hx]
    · intro x hx
      simpa using (List.mem_filter.1 hx).2

theorem inSet_some (s : IPSets) (id : String) (m : List Addr) (h : s.get id = some m) (ip : Nat) :
    inSet s id ip = m.any (·.contains ip) := by simp [inSet, h]

theorem inSet_none (s : IPSets) (id : String) (h : s.get id = none) (ip : Nat) : inSet s id ip = false := by
  simp [inSet, h]

/-- Meaning of the address list computed for one side of the rule (nets already filtered to v4). -/
theorem sideAddrs_sem (s : IPSets) (hs : s.wf) (nets : List Addr) (hv4 : ∀ a ∈ nets, a.v6 = false)
    (ids : List String) (hone : ids.length ≤ 1) (ip : Nat) :
    match sideAddrs s nets ids with
    | .ok A => addrsOK A ip = (addrsOK nets ip && ids.all (fun id => inSet s id ip))
    | .error _ => (addrsOK nets ip && ids.all (fun id => inSet s id ip)) = false := by
  cases ids with
  | nil => simp [sideAddrs]
  | cons id rest =>
    have hrest : rest = [] := by
      cases rest with
      | nil => rfl
      | cons _ _ => simp at hone
    subst hrest
    cases hg : s.get id with
    | none =>
      simp [sideAddrs, getIPSetAddresses, hg, inSet_none s id hg]
    | some m =>
      have hm := hs.nonempty id m hg
      have hmv := hs.v4 id m hg
      have hin := inSet_some s id m hg ip
      cases hn : nets with
      | nil =>
        have hme : m.isEmpty = false := by cases m <;> simp_all
        simp [sideAddrs, getIPSetAddresses, hg, addrsOK, hin, hme]
      | cons a restn =>
        rw [← hn]
        have hne : nets.isEmpty = false := by rw [hn]; rfl
        have hi := intersectCIDRs_any nets m hv4 hmv ip
        simp only [sideAddrs, List.isEmpty_cons, Bool.false_eq_true, if_false, getIPSetAddresses, hg,
          Option.map_some, List.append_nil, hne, Bool.not_false, if_true]
        cases hie : (intersectCIDRs nets m).isEmpty with
        | true =>
          have : intersectCIDRs nets m = [] := by simpa using hie
          rw [this] at hi
          simp only [Bool.true_eq_false, if_true]
          simp only [addrsOK, hne, Bool.false_or, List.all_cons, List.all_nil, Bool.and_true, hin]
          simpa using hi.symm
        | false =>
          simp only [Bool.false_eq_true, if_false]
          simp only [addrsOK, hie, hne, Bool.false_or, List.all_cons, List.all_nil, Bool.and_true, hin]
          exact hi

end CalicoVerif.C30
