import CalicoVerif.Proofs.C16m
set_option linter.unusedSimpArgs false
namespace CalicoVerif.C16

theorem setEq.symm {a b : List String} (h : setEq a b) : setEq b a := fun x => (h x).symm
theorem setEq.trans {a b c : List String} (h1 : setEq a b) (h2 : setEq b c) : setEq a c :=
  fun x => (h1 x).trans (h2 x)

/-- What the restore pass needs to know about Felix's state and the kernel. -/
structure WInv (c : Cfg) (F : Felix) (K : Kernel) : Prop where
  notTemp : ∀ n, F.desired.has n = true → c.isTemp n = false
  tracked : ∀ n, F.desired.has n = true → F.members.has n = true
  acc : ∀ n, Acc F K n

structure AllPost (c : Cfg) (F F' : Felix) (K K' : Kernel) (order : List String) : Prop where
  desired : F'.desired = F.desired
  allMeta : F'.allMeta = F.allMeta
  filter : F'.filter = F.filter
  fullReq : F'.fullReq = F.fullReq
  queues : F'.qMust = F.qMust ∧ F'.qBg = F.qBg ∧ F'.bgReq = F.bgReq
  inv : WInv c F' K'
  exactNew : ∀ n ∈ order, Exact F' K' n
  exactKeep : ∀ n, Exact F K n → Exact F' K' n
  covK : ∀ b, K'.has b = true → K.has b = true ∨ F'.dp.has b = true
  covDp : ∀ b, F.dp.has b = true → F'.dp.has b = true
  dpNew : ∀ b, F'.dp.has b = true → F.dp.has b = true ∨ b ∈ order ∨ c.isTemp b = true
  desKeep : ∀ n t, F.members.get n = some t → ∃ t', F'.members.get n = some t' ∧ t'.des = t.des

theorem writeAll_post {c : Cfg} (hc : CfgOK c) {ord : List String → List String}
    (hord : ∀ l x, x ∈ ord l ↔ x ∈ l) : ∀ (order : List String) (F F' : Felix) (K K' : Kernel) (lines : List Line),
    WInv c F K → (∀ n ∈ order, F.desired.has n = true) →
    writeAll c ord F order = some (F', lines) → kall K lines = some K' →
    AllPost c F F' K K' order := by
  intro order
  induction order with
  | nil =>
    intro F F' K K' lines hinv _ hw hk
    simp only [writeAll, Option.some.injEq, Prod.mk.injEq] at hw
    obtain ⟨rfl, rfl⟩ := hw
    simp only [kall, Option.some.injEq] at hk
    subst hk
    exact ⟨rfl, rfl, rfl, rfl, ⟨rfl, rfl, rfl⟩, hinv, by simp, fun _ h => h, fun _ h => Or.inl h, fun _ h => h,
      fun _ h => Or.inl h, fun n t h => ⟨t, h, rfl⟩⟩
  | cons a rest ih =>
    intro F F' K K' lines hinv hdes hw hk
    simp only [writeAll] at hw
    split at hw
    · simp at hw
    · rename_i F1 l1 hw1
      split at hw
      · simp at hw
      · rename_i F2 l2 hw2
        simp only [Option.some.injEq, Prod.mk.injEq] at hw
        obtain ⟨rfl, rfl⟩ := hw
        rw [kall_append] at hk
        cases hk1 : kall K l1 with
        | none => rw [hk1] at hk; simp at hk
        | some K1 =>
          rw [hk1] at hk
          simp only [Option.bind_some] at hk
          have hda := hdes a List.mem_cons_self
          obtain ⟨dm, hdm⟩ := Map.get_isSome_of_has hda
          obtain ⟨t, ht⟩ := Map.get_isSome_of_has (hinv.tracked a hda)
          have hnt := hinv.notTemp a hda
          have gp := group_step hc hord hdm ht hnt (hinv.acc a) hw1 hk1
          -- invariant at (F1, K1)
          have hinv1 : WInv c F1 K1 := by
            refine ⟨?_, ?_, ?_⟩
            · intro n hn; rw [gp.desired] at hn; exact hinv.notTemp n hn
            · intro n hn
              rw [gp.desired] at hn
              by_cases hna : n = a
              · subst hna; obtain ⟨t', ht', _⟩ := gp.trA; exact Map.has_of_get ht'
              · have := (gp.other n hna (hinv.notTemp n hn)).2.2
                simp only [Map.has, this]; exact hinv.tracked n hn
            · intro n dm' t' hdm' ht'
              rw [gp.desired] at hdm'
              by_cases hna : n = a
              · subst hna
                obtain ⟨k, hk, hm, hmem⟩ := gp.exact
                obtain ⟨t'', ht'', _, htdp⟩ := gp.trA
                rw [ht''] at ht'; simp only [Option.some.injEq] at ht'; subst ht'
                rw [hdm] at hdm'; simp only [Option.some.injEq] at hdm'; subst hdm'
                rw [hk]
                exact ⟨dm, gp.dpA, fun _ => ⟨hm, htdp.trans hmem.symm⟩⟩
              · have hnd : F.desired.has n = true := Map.has_of_get hdm'
                obtain ⟨h1, h2, h3⟩ := gp.other n hna (hinv.notTemp n hnd)
                rw [h3] at ht'
                have := hinv.acc n dm' t' hdm' ht'
                rw [h1, h2]; exact this
          have hdes1 : ∀ n ∈ rest, F1.desired.has n = true := by
            intro n hn; rw [gp.desired]; exact hdes n (List.mem_cons_of_mem _ hn)
          have post := ih F1 F2 K1 K' l2 hinv1 hdes1 hw2 hk
          -- exactness of a at (F1, K1)
          have hexA : Exact F1 K1 a := by
            obtain ⟨k, hk, hm, hmem⟩ := gp.exact
            obtain ⟨t'', ht'', hdes'', _⟩ := gp.trA
            exact ⟨dm, t'', k, by rw [gp.desired]; exact hdm, ht'', hk, hm, by rw [hdes'']; exact hmem⟩
          have keep1 : ∀ n, Exact F K n → Exact F1 K1 n := by
            intro n hex
            by_cases hna : n = a
            · subst hna; exact hexA
            · obtain ⟨dm', t', k', h1, h2, h3, h4, h5⟩ := hex
              obtain ⟨g1, _, g3⟩ := gp.other n hna (hinv.notTemp n (Map.has_of_get h1))
              exact ⟨dm', t', k', by rw [gp.desired]; exact h1, by rw [g3]; exact h2, by rw [g1]; exact h3, h4, h5⟩
          refine ⟨post.desired.trans gp.desired, post.allMeta.trans gp.allMeta, post.filter.trans gp.filter,
            post.fullReq.trans gp.fullReq,
            ⟨post.queues.1.trans gp.queues.1, post.queues.2.1.trans gp.queues.2.1, post.queues.2.2.trans gp.queues.2.2⟩,
            post.inv, ?_, ?_, ?_, ?_, ?_, ?_⟩
          · intro n hn
            rcases List.mem_cons.1 hn with rfl | hn
            · exact post.exactKeep _ hexA
            · exact post.exactNew n hn
          · intro n hex; exact post.exactKeep n (keep1 n hex)
          · intro b hb
            rcases post.covK b hb with h | h
            · rcases gp.covK b h with h' | h'
              · exact Or.inl h'
              · exact Or.inr (post.covDp b h')
            · exact Or.inr h
          · intro b hb; exact post.covDp b (gp.covDp b hb)
          · intro b hb
            rcases post.dpNew b hb with h | h | h
            · rcases gp.dpNew b h with h' | h' | h'
              · exact Or.inl h'
              · exact Or.inr (Or.inl (h' ▸ List.mem_cons_self))
              · exact Or.inr (Or.inr h')
            · exact Or.inr (Or.inl (List.mem_cons_of_mem _ h))
            · exact Or.inr (Or.inr h)
          · intro n t0 ht0
            have h1 : ∃ t1, F1.members.get n = some t1 ∧ t1.des = t0.des := by
              by_cases hna : n = a
              · subst hna
                obtain ⟨t'', ht'', hd'', _⟩ := gp.trA
                rw [ht] at ht0; simp only [Option.some.injEq] at ht0; subst ht0
                exact ⟨t'', ht'', hd''⟩
              · rw [gp.memOther n hna]; exact ⟨t0, ht0, rfl⟩
            obtain ⟨t1, ht1, hd1⟩ := h1
            obtain ⟨t2, ht2, hd2⟩ := post.desKeep n t1 ht1
            exact ⟨t2, ht2, hd2.trans hd1⟩

end CalicoVerif.C16
