import CalicoVerif.Model.C14
/-!
C14 — helper lemmas: association maps, what one cleaner step can delete, soundness of the queue
built by one scan.
-/
namespace CalicoVerif.C14

namespace AMap
variable {K V : Type} [DecidableEq K]

theorem get_del_self (m : AMap K V) (k : K) : (del m k).get k = none := by
  induction m with
  | nil => rfl
  | cons p m ih =>
    obtain ⟨k', v⟩ := p
    by_cases h : k' = k
    · simp [del, List.filter, h]; simpa [del] using ih
    · simp [del, List.filter, h, get]; simpa [del] using ih

theorem get_del_ne (m : AMap K V) {k k' : K} (h : k' ≠ k) : (del m k).get k' = m.get k' := by
  induction m with
  | nil => rfl
  | cons p m ih =>
    obtain ⟨k'', v⟩ := p
    by_cases h2 : k'' = k
    · subst h2
      have : k'' ≠ k' := fun e => h e.symm
      simp [del, List.filter, get, this]; simpa [del] using ih
    · simp [del, List.filter, h2, get]
      by_cases h3 : k'' = k'
      · simp [h3]
      · simp [h3]; simpa [del] using ih

theorem get_del (m : AMap K V) (k k' : K) :
    (del m k).get k' = if k' = k then none else m.get k' := by
  by_cases h : k' = k
  · subst h; simp [get_del_self]
  · simp [h, get_del_ne m h]

theorem get_set (m : AMap K V) (k k' : K) (v : V) :
    (set m k v).get k' = if k' = k then some v else m.get k' := by
  by_cases h : k' = k
  · subst h; simp [set, get]
  · have : k ≠ k' := fun e => h e.symm
    simp [set, get, this, h, get_del_ne m h]

theorem mem_del {m : AMap K V} {k : K} {p : K × V} (h : p ∈ del m k) : p ∈ m ∧ p.1 ≠ k := by
  simpa [del, List.mem_filter] using h

theorem mem_set {m : AMap K V} {k : K} {v : V} {p : K × V} (h : p ∈ set m k v) : p = (k, v) ∨ (p ∈ m ∧ p.1 ≠ k) := by
  rcases List.mem_cons.1 h with h | h
  · exact Or.inl h
  · exact Or.inr (mem_del h)

theorem mem_of_get {m : AMap K V} {k : K} {v : V} (h : m.get k = some v) : (k, v) ∈ m := by
  induction m with
  | nil => simp [get] at h
  | cons p m ih =>
    obtain ⟨k', v'⟩ := p
    by_cases e : k' = k
    · subst e; simp [get] at h; subst h; simp
    · simp [get, e] at h; exact List.mem_cons_of_mem _ (ih h)

end AMap

/-! ## Expiry -/

theorem older_lt {e : Entry} {now T : Nat} (h : e.older now T = true) : e.lastSeen < now := by
  simp [Entry.older] at h; omega

/-- an entry judged expired was last seen strictly before the judgement time. -/
theorem expired_lt {t : Timeouts} {now p : Nat} {e : Entry} (h : expired t now p e = true) : e.lastSeen < now := by
  unfold expired at h
  repeat' split at h
  all_goals (try simp only [Bool.and_eq_true, Bool.or_eq_true] at *)
  all_goals (try (first
    | exact older_lt h
    | (rcases h with h | h <;> first | exact older_lt h | exact older_lt h.2)
    | (rename_i h1; first | exact older_lt h1.2)))
  all_goals (try (rename_i h1 _; exact older_lt h1.2))

/-! ## The cleaner only deletes, and only what matches -/

/-- `Sub a b`: every entry of `a` is an (identical) entry of `b`. -/
def Sub (a b : AMap Key Entry) : Prop := ∀ k e, a.get k = some e → b.get k = some e

theorem Sub.refl (a : AMap Key Entry) : Sub a a := fun _ _ h => h
theorem Sub.trans {a b c : AMap Key Entry} (h1 : Sub a b) (h2 : Sub b c) : Sub a c := fun k e h => h2 k e (h1 k e h)

theorem sub_del (ct : AMap Key Entry) (k : Key) : Sub (ct.del k) ct := by
  intro x e h
  rw [AMap.get_del] at h
  split at h
  · simp at h
  · exact h

theorem cleanEntry_sub (ct : AMap Key Entry) (k : Key) (q : QVal) : Sub (cleanEntry ct k q) ct := by
  unfold cleanEntry
  split
  · split
    · split
      · exact sub_del _ _
      · exact Sub.refl _
    · exact Sub.refl _
  · split
    · exact Sub.refl _
    · split
      · split
        · exact (sub_del _ _).trans (sub_del _ _)
        · exact Sub.refl _
      · exact Sub.refl _

/-- why one cleaner step (`process_ccq_entry`) removed the entry `e` stored under `x`. -/
def StepReason (ct : AMap Key Entry) (k : Key) (q : QVal) (x : Key) (e : Entry) : Prop :=
  (q.other.proto = 0 ∧ x = k ∧ e.lastSeen = q.ts) ∨
  (q.other.proto ≠ 0 ∧ ∃ r, ct.get q.other = some r ∧ r.lastSeen = q.revTs ∧
      (x = q.other ∨ (x = k ∧ e.revKey = q.other)))

/-- **compare-then-delete**: a step deletes an entry only if the recorded time stamp still matches —
its own for a plain queue item, the reverse entry's for a NAT pair (and the forward entry must still
point at that reverse entry). -/
theorem cleanEntry_deleted (ct : AMap Key Entry) (k : Key) (q : QVal) (x : Key) (e : Entry)
    (hx : ct.get x = some e) (hd : (cleanEntry ct k q).get x = none) : StepReason ct k q x e := by
  unfold cleanEntry at hd
  split at hd
  · rename_i hp
    split at hd
    · rename_i e0 hk
      split at hd
      · rename_i hl
        rw [AMap.get_del] at hd
        split at hd
        · rename_i hxk; subst hxk
          rw [hk] at hx; cases hx
          exact Or.inl ⟨hp, rfl, hl⟩
        · rw [hx] at hd; cases hd
      · rw [hx] at hd; cases hd
    · rw [hx] at hd; cases hd
  · rename_i hp
    split at hd
    · rw [hx] at hd; cases hd
    · rename_i hmis
      split at hd
      · rename_i r hr
        split at hd
        · rename_i hl
          refine Or.inr ⟨hp, r, hr, hl, ?_⟩
          rw [AMap.get_del, AMap.get_del] at hd
          by_cases hxk : x = k
          · subst hxk
            by_cases hxo : x = q.other
            · exact Or.inl hxo
            · refine Or.inr ⟨rfl, ?_⟩
              unfold fwdMismatch at hmis
              rw [hx] at hmis
              simpa using hmis
          · by_cases hxo : x = q.other
            · exact Or.inl hxo
            · simp [hxk, hxo, hx] at hd
        · rw [hx] at hd; cases hd
      · rw [hx] at hd; cases hd

theorem clean_sub (queue : AMap Key QVal) (ct : AMap Key Entry) : Sub (clean ct queue) ct := by
  induction queue generalizing ct with
  | nil => exact Sub.refl _
  | cons kq rest ih =>
    simp only [clean, List.foldl_cons]
    exact (ih (cleanEntry ct kq.1 kq.2)).trans (cleanEntry_sub _ _ _)

/-- whatever the order in which the kernel walks the queue: an entry that is gone after the pass was
removed by the step of some queue item, on a map that only lost entries in between. -/
theorem clean_deleted (queue : AMap Key QVal) (ct : AMap Key Entry) (x : Key) (e : Entry)
    (hx : ct.get x = some e) (hd : (clean ct queue).get x = none) :
    ∃ kq ∈ queue, ∃ ct1, Sub ct1 ct ∧ ct1.get x = some e ∧ StepReason ct1 kq.1 kq.2 x e := by
  induction queue generalizing ct with
  | nil => simp [clean] at hd; rw [hx] at hd; cases hd
  | cons kq rest ih =>
    simp only [clean, List.foldl_cons] at hd
    cases hstep : (cleanEntry ct kq.1 kq.2).get x with
    | none =>
      exact ⟨kq, List.mem_cons_self .., ct, Sub.refl _, hx, cleanEntry_deleted ct kq.1 kq.2 x e hx hstep⟩
    | some e' =>
      have he' : e' = e := by
        have := cleanEntry_sub ct kq.1 kq.2 x e' hstep
        rw [hx] at this; cases this; rfl
      subst he'
      obtain ⟨kq', hm, ct1, hs, hg, hr⟩ := ih (cleanEntry ct kq.1 kq.2) hstep hd
      exact ⟨kq', List.mem_cons_of_mem _ hm, ct1, hs.trans (cleanEntry_sub _ _ _), hg, hr⟩

/-- variant of `clean_deleted` exposing the deleting step itself. -/
theorem clean_deleted' (queue : AMap Key QVal) (ct : AMap Key Entry) (x : Key) (e : Entry)
    (hx : ct.get x = some e) (hd : (clean ct queue).get x = none) :
    ∃ kq ∈ queue, ∃ ct1, Sub ct1 ct ∧ ct1.get x = some e ∧ (cleanEntry ct1 kq.1 kq.2).get x = none := by
  induction queue generalizing ct with
  | nil => simp [clean] at hd; rw [hx] at hd; cases hd
  | cons kq rest ih =>
    simp only [clean, List.foldl_cons] at hd
    cases hstep : (cleanEntry ct kq.1 kq.2).get x with
    | none => exact ⟨kq, List.mem_cons_self .., ct, Sub.refl _, hx, hstep⟩
    | some e' =>
      have he' : e' = e := by
        have := cleanEntry_sub ct kq.1 kq.2 x e' hstep
        rw [hx] at this; cases this; rfl
      subst he'
      obtain ⟨kq', hm, ct1, hs, hg, hr⟩ := ih (cleanEntry ct kq.1 kq.2) hstep hd
      exact ⟨kq', List.mem_cons_of_mem _ hm, ct1, hs.trans (cleanEntry_sub _ _ _), hg, hr⟩

/-! ## What the scanner puts on the queue -/

/-- the judgement recorded for a plain (no reverse key) queue item about the entry `e0` under `k`. -/
def Judged (t : Timeouts) (now : Nat) (ct : AMap Key Entry) (k : Key) (e0 : Entry) : Prop :=
  match e0.typ with
  | .fwd => ct.get e0.revKey = none ∨
      ∃ r, ct.get e0.revKey = some r ∧ expired t now k.proto r = true ∧ r.lastSeen = e0.lastSeen
  | _ => expired t now k.proto e0 = true

/-- a queue item is backed by a judgement made on the map `ct` the scan looked at. -/
def QSound (t : Timeouts) (now : Nat) (ct : AMap Key Entry) (kq : Key × QVal) : Prop :=
  if kq.2.other = dummyKey then
    ∃ e0, ct.get kq.1 = some e0 ∧ e0.lastSeen = kq.2.ts ∧ Judged t now ct kq.1 e0
  else
    ∃ f r, ct.get kq.1 = some f ∧ f.typ = .fwd ∧ f.revKey = kq.2.other ∧
      ct.get kq.2.other = some r ∧ r.lastSeen = kq.2.revTs ∧ expired t now kq.1.proto r = true

/-- invariant of `revNATKeyToFwdNATInfo`. -/
def PSound (t : Timeouts) (now : Nat) (ct : AMap Key Entry) (done : List Key) (kp : Key × QVal) : Prop :=
  if kp.2.other = dummyKey then
    kp.1 ∈ done ∧ ∃ e0, ct.get kp.1 = some e0 ∧ e0.typ = .rev ∧ e0.lastSeen = kp.2.ts ∧ expired t now kp.1.proto e0 = true
  else
    kp.1 ≠ dummyKey ∧ ∃ f r, ct.get kp.2.other = some f ∧ f.typ = .fwd ∧ f.revKey = kp.1 ∧ f.lastSeen = kp.2.ts ∧
      ct.get kp.1 = some r ∧ r.lastSeen = kp.2.revTs ∧ expired t now kp.2.other.proto r = true

structure ScanInv (t : Timeouts) (now : Nat) (ct : AMap Key Entry) (done : List Key) (sc : ScanSt) : Prop where
  q : ∀ kq ∈ sc.queue, QSound t now ct kq
  p : ∀ kp ∈ sc.pend, PSound t now ct done kp

theorem PSound.mono {t : Timeouts} {now : Nat} {ct : AMap Key Entry} {done : List Key} {kp : Key × QVal} (k : Key)
    (h : PSound t now ct done kp) : PSound t now ct (k :: done) kp := by
  unfold PSound at *
  split
  · rename_i hd; rw [if_pos hd] at h; exact ⟨List.mem_cons_of_mem _ h.1, h.2⟩
  · rename_i hd; rw [if_neg hd] at h; exact h

theorem queue_set_sound {t : Timeouts} {now : Nat} {ct : AMap Key Entry} {queue : AMap Key QVal} {k : Key} {v : QVal}
    (hq : ∀ kq ∈ queue, QSound t now ct kq) (hv : QSound t now ct (k, v)) :
    ∀ kq ∈ queue.set k v, QSound t now ct kq := by
  intro kq hm
  rcases AMap.mem_set hm with h | h
  · rw [h]; exact hv
  · exact hq kq h.1

theorem pend_set_sound {t : Timeouts} {now : Nat} {ct : AMap Key Entry} {done : List Key} {pend : AMap Key QVal}
    {k : Key} {v : QVal}
    (hp : ∀ kp ∈ pend, PSound t now ct done kp) (hv : PSound t now ct done (k, v)) :
    ∀ kp ∈ pend.set k v, PSound t now ct done kp := by
  intro kp hm
  rcases AMap.mem_set hm with h | h
  · rw [h]; exact hv
  · exact hp kp h.1

theorem pend_del_sound {t : Timeouts} {now : Nat} {ct : AMap Key Entry} {done : List Key} {pend : AMap Key QVal} {k : Key}
    (hp : ∀ kp ∈ pend, PSound t now ct done kp) : ∀ kp ∈ pend.del k, PSound t now ct done kp :=
  fun kp hm => hp kp (AMap.mem_del hm).1

theorem scanEntry_keep {t : Timeouts} {now : Nat} {ct : AMap Key Entry} {sc : ScanSt} {k : Key} {e : Entry}
    (h : (check t now ct k e).1 = false) : scanEntry t now ct sc k e = sc := by
  unfold scanEntry; simp [h]

theorem scanEntry_normal {t : Timeouts} {now : Nat} {ct : AMap Key Entry} {sc : ScanSt} {k : Key} {e : Entry}
    (h : (check t now ct k e).1 = true) (ht : e.typ = .normal) :
    scanEntry t now ct sc k e =
      { sc with queue := sc.queue.set k ⟨dummyKey, (check t now ct k e).2, (check t now ct k e).2⟩ } := by
  unfold scanEntry; simp [h, ht]

theorem scanEntry_nat {t : Timeouts} {now : Nat} {ct : AMap Key Entry} {sc : ScanSt} {k : Key} {e : Entry}
    (h : (check t now ct k e).1 = true) (ht : e.typ ≠ .normal) :
    scanEntry t now ct sc k e = handleNAT sc k e (check t now ct k e).2 := by
  unfold scanEntry
  cases hte : e.typ <;> simp_all

/-- one iteration step of `Scan` preserves the invariant.  `k` is a key of the map with a non-zero
protocol that has not been visited yet (a map iteration visits each key once). -/
theorem scanEntry_inv {t : Timeouts} {now : Nat} {ct : AMap Key Entry} {done : List Key} {sc : ScanSt}
    (inv : ScanInv t now ct done sc) (k : Key) (e : Entry) (hk : ct.get k = some e) (hnew : k ∉ done)
    (hkd : k ≠ dummyKey) (hrd : e.typ = .fwd → e.revKey ≠ dummyKey) :
    ScanInv t now ct (k :: done) (scanEntry t now ct sc k e) := by
  have mono : ∀ kp ∈ sc.pend, PSound t now ct (k :: done) kp := fun kp h => (inv.p kp h).mono k
  cases hdel' : (check t now ct k e).1 with
  | false => rw [scanEntry_keep hdel']; exact ⟨inv.q, mono⟩
  | true =>
    cases htyp : e.typ with
    | normal =>
      rw [scanEntry_normal hdel' htyp]
      refine ⟨queue_set_sound inv.q ?_, mono⟩
      unfold QSound
      rw [if_pos rfl]
      refine ⟨e, hk, ?_, ?_⟩
      · simp [check, htyp]
      · unfold Judged; simp only [htyp]
        simpa [check, htyp] using hdel'
    | rev =>
      rw [scanEntry_nat hdel' (by simp [htyp])]
      simp only [handleNAT, htyp]
      have hexp : expired t now k.proto e = true := by simpa [check, htyp] using hdel'
      cases hpk : sc.pend.get k with
      | none =>
        simp only []
        refine ⟨inv.q, pend_set_sound mono ?_⟩
        unfold PSound
        rw [if_pos rfl]
        exact ⟨List.mem_cons_self .., e, hk, htyp, rfl, hexp⟩
      | some pv =>
        simp only []
        have hps := inv.p (k, pv) (AMap.mem_of_get hpk)
        unfold PSound at hps
        by_cases hpd : pv.other = dummyKey
        · rw [if_pos hpd] at hps
          exact absurd hps.1 hnew
        · rw [if_neg hpd] at hps
          obtain ⟨_, f, r, hf, hft, hfr, hfl, hr, hrl, hre⟩ := hps
          refine ⟨queue_set_sound inv.q ?_, pend_del_sound mono⟩
          unfold QSound
          rw [if_neg hkd]
          rw [hk] at hr; cases hr
          exact ⟨f, e, hf, hft, hfr, hk, by simp [check, htyp], hre⟩
    | fwd =>
      rw [scanEntry_nat hdel' (by simp [htyp])]
      simp only [handleNAT, htyp]
      have hrk := hrd htyp
      -- what `check` established for the forward entry
      have hchk : (ct.get e.revKey = none ∧ (check t now ct k e).2 = e.lastSeen) ∨
          ∃ r, ct.get e.revKey = some r ∧ expired t now k.proto r = true ∧ (check t now ct k e).2 = r.lastSeen := by
        unfold check at hdel' ⊢
        simp only [htyp] at hdel' ⊢
        cases hr : ct.get e.revKey with
        | none => left; simp
        | some r =>
          right
          simp only [hr] at hdel' ⊢
          by_cases hx : expired t now k.proto r = true
          · exact ⟨r, rfl, hx, by simp [hx]⟩
          · simp [hx] at hdel'
      split
      · rename_i hts
        refine ⟨queue_set_sound inv.q ?_, mono⟩
        unfold QSound
        rw [if_pos rfl]
        refine ⟨e, hk, rfl, ?_⟩
        unfold Judged; simp only [htyp]
        rcases hchk with ⟨hn, _⟩ | ⟨r, hr, hx, hl⟩
        · exact Or.inl hn
        · exact Or.inr ⟨r, hr, hx, by omega⟩
      · rename_i hts
        -- the time stamps differ, so the reverse entry exists
        have hex : ∃ r, ct.get e.revKey = some r ∧ expired t now k.proto r = true ∧ (check t now ct k e).2 = r.lastSeen := by
          rcases hchk with ⟨_, hl⟩ | h
          · exact absurd hl.symm hts
          · exact h
        obtain ⟨r, hr, hx, hl⟩ := hex
        cases hpk : sc.pend.get e.revKey with
        | none =>
          simp only []
          refine ⟨inv.q, pend_set_sound mono ?_⟩
          unfold PSound
          rw [if_neg hkd]
          exact ⟨hrk, e, r, hk, htyp, rfl, rfl, hr, hl.symm, hx⟩
        | some pv =>
          simp only []
          refine ⟨queue_set_sound inv.q ?_, pend_del_sound mono⟩
          unfold QSound
          rw [if_neg hrk]
          exact ⟨e, r, hk, htyp, rfl, hr, hl.symm, hx⟩

/-- the hypotheses under which a scan is analysed: `items` are entries of `ct`, each key once, with
real (non-dummy) keys. -/
structure ItemsOK (ct : AMap Key Entry) (items : List (Key × Entry)) : Prop where
  mem : ∀ kv ∈ items, ct.get kv.1 = some kv.2
  nodup : (items.map (·.1)).Nodup
  keys : ∀ kv ∈ items, kv.1 ≠ dummyKey
  revs : ∀ kv ∈ items, kv.2.typ = .fwd → kv.2.revKey ≠ dummyKey

theorem scan_loop_inv {t : Timeouts} {now : Nat} {ct : AMap Key Entry} (items : List (Key × Entry))
    (done : List Key) (sc : ScanSt) (inv : ScanInv t now ct done sc) (ok : ItemsOK ct items)
    (hdisj : ∀ kv ∈ items, kv.1 ∉ done) :
    ∃ done', ScanInv t now ct done' (items.foldl (fun sc kv => scanEntry t now ct sc kv.1 kv.2) sc) := by
  induction items generalizing done sc with
  | nil => exact ⟨done, inv⟩
  | cons kv rest ih =>
    simp only [List.foldl_cons]
    have h1 := scanEntry_inv inv kv.1 kv.2 (ok.mem kv (List.mem_cons_self ..)) (hdisj kv (List.mem_cons_self ..))
      (ok.keys kv (List.mem_cons_self ..)) (ok.revs kv (List.mem_cons_self ..))
    have nd := ok.nodup
    simp only [List.map_cons, List.nodup_cons] at nd
    refine ih (kv.1 :: done) _ h1
      ⟨fun x hx => ok.mem x (List.mem_cons_of_mem _ hx), nd.2,
       fun x hx => ok.keys x (List.mem_cons_of_mem _ hx), fun x hx => ok.revs x (List.mem_cons_of_mem _ hx)⟩ ?_
    intro x hx
    simp only [List.mem_cons, not_or]
    refine ⟨?_, hdisj x (List.mem_cons_of_mem _ hx)⟩
    intro e; exact nd.1 (List.mem_map.2 ⟨x, hx, e⟩)

theorem scanEnd_sound {t : Timeouts} {now : Nat} {ct : AMap Key Entry} {done : List Key} {sc : ScanSt}
    (inv : ScanInv t now ct done sc) : ∀ kq ∈ scanEnd sc, QSound t now ct kq := by
  unfold scanEnd
  have : ∀ (pend : AMap Key QVal) (queue : AMap Key QVal),
      (∀ kp ∈ pend, PSound t now ct done kp) → (∀ kq ∈ queue, QSound t now ct kq) →
      ∀ kq ∈ pend.foldl (fun q kv =>
        if kv.2.other ≠ dummyKey then q.set kv.2.other ⟨kv.1, kv.2.ts, kv.2.revTs⟩
        else q.set kv.1 ⟨kv.2.other, kv.2.ts, kv.2.revTs⟩) queue, QSound t now ct kq := by
    intro pend
    induction pend with
    | nil => intro queue _ hq; exact hq
    | cons kp rest ih =>
      intro queue hp hq
      simp only [List.foldl_cons]
      apply ih _ (fun x hx => hp x (List.mem_cons_of_mem _ hx))
      have hps := hp kp (List.mem_cons_self ..)
      unfold PSound at hps
      split
      · rename_i hnd
        rw [if_neg hnd] at hps
        obtain ⟨hkd, f, r, hf, hft, hfr, hfl, hr, hrl, hre⟩ := hps
        apply queue_set_sound hq
        unfold QSound
        rw [if_neg hkd]
        exact ⟨f, r, hf, hft, hfr, hr, hrl, hre⟩
      · rename_i hd
        have hd' : kp.2.other = dummyKey := by simpa using hd
        rw [if_pos hd'] at hps
        obtain ⟨_, e0, he, het, hel, hex⟩ := hps
        apply queue_set_sound hq
        unfold QSound
        simp only [hd', if_true]
        refine ⟨e0, he, hel, ?_⟩
        unfold Judged; simp only [het]; exact hex
  exact this sc.pend sc.queue inv.p inv.q

/-! ## Liveness: a queued plain item survives to the end of the scan and the cleaner acts on it -/

theorem AMap.mem_set_of_ne {K V : Type} [DecidableEq K] {m : AMap K V} {p : K × V} {k : K} (v : V)
    (h : p ∈ m) (hne : p.1 ≠ k) : p ∈ AMap.set m k v := by
  unfold AMap.set AMap.del
  exact List.mem_cons_of_mem _ (List.mem_filter.2 ⟨h, by simpa using hne⟩)

theorem AMap.mem_set_self {K V : Type} [DecidableEq K] (m : AMap K V) (k : K) (v : V) : (k, v) ∈ AMap.set m k v :=
  List.mem_cons_self ..

/-- a queued plain item for the normal entry under `k` survives the visit of another key. -/
theorem scanEntry_keeps {t : Timeouts} {now : Nat} {ct : AMap Key Entry} {done : List Key} {sc : ScanSt}
    (inv : ScanInv t now ct done sc) {k : Key} {e : Entry} {v : QVal}
    (hk : ct.get k = some e) (hn : e.typ = .normal) (hkd : k ≠ dummyKey) (hv : (k, v) ∈ sc.queue)
    (k' : Key) (e' : Entry) (hne : k' ≠ k) (hnew : k' ∉ done) :
    (k, v) ∈ (scanEntry t now ct sc k' e').queue := by
  have hne' : (k, v).1 ≠ k' := fun h => hne h.symm
  cases hdel : (check t now ct k' e').1 with
  | false => rw [scanEntry_keep hdel]; exact hv
  | true =>
    cases htyp : e'.typ with
    | normal => rw [scanEntry_normal hdel htyp]; exact AMap.mem_set_of_ne _ hv hne'
    | rev =>
      rw [scanEntry_nat hdel (by simp [htyp])]
      simp only [handleNAT, htyp]
      cases hpk : sc.pend.get k' with
      | none => exact hv
      | some pv =>
        simp only []
        apply AMap.mem_set_of_ne _ hv
        have hps := inv.p (k', pv) (AMap.mem_of_get hpk)
        unfold PSound at hps
        by_cases hpd : pv.other = dummyKey
        · rw [if_pos hpd] at hps; exact absurd hps.1 hnew
        · rw [if_neg hpd] at hps
          obtain ⟨_, f, r, hf, hft, _⟩ := hps
          intro h
          simp only at h
          rw [← h, hk] at hf; cases hf
          rw [hn] at hft; cases hft
    | fwd =>
      rw [scanEntry_nat hdel (by simp [htyp])]
      simp only [handleNAT, htyp]
      split
      · exact AMap.mem_set_of_ne _ hv hne'
      · cases hpk : sc.pend.get e'.revKey with
        | none => exact hv
        | some pv => exact AMap.mem_set_of_ne _ hv hne'

theorem scan_loop_has {t : Timeouts} {now : Nat} {ct : AMap Key Entry} {k : Key} {e : Entry}
    (hk : ct.get k = some e) (hn : e.typ = .normal) (hkd : k ≠ dummyKey) (hexp : expired t now k.proto e = true)
    (items : List (Key × Entry)) (done : List Key) (sc : ScanSt) (inv : ScanInv t now ct done sc)
    (ok : ItemsOK ct items) (hdisj : ∀ kv ∈ items, kv.1 ∉ done)
    (h : ((k, (⟨dummyKey, e.lastSeen, e.lastSeen⟩ : QVal)) ∈ sc.queue ∧ k ∉ items.map (·.1)) ∨ (k, e) ∈ items) :
    ∃ done', ScanInv t now ct done' (items.foldl (fun sc kv => scanEntry t now ct sc kv.1 kv.2) sc) ∧
      (k, (⟨dummyKey, e.lastSeen, e.lastSeen⟩ : QVal)) ∈ (items.foldl (fun sc kv => scanEntry t now ct sc kv.1 kv.2) sc).queue := by
  induction items generalizing done sc with
  | nil =>
    rcases h with h | h
    · exact ⟨done, inv, h.1⟩
    · simp at h
  | cons kv rest ih =>
    simp only [List.foldl_cons]
    have hmem := ok.mem kv (List.mem_cons_self ..)
    have hnew := hdisj kv (List.mem_cons_self ..)
    have h1 := scanEntry_inv inv kv.1 kv.2 hmem hnew (ok.keys kv (List.mem_cons_self ..)) (ok.revs kv (List.mem_cons_self ..))
    have nd := ok.nodup
    simp only [List.map_cons, List.nodup_cons] at nd
    have ok' : ItemsOK ct rest := ⟨fun x hx => ok.mem x (List.mem_cons_of_mem _ hx), nd.2,
       fun x hx => ok.keys x (List.mem_cons_of_mem _ hx), fun x hx => ok.revs x (List.mem_cons_of_mem _ hx)⟩
    have hdisj' : ∀ x ∈ rest, x.1 ∉ kv.1 :: done := by
      intro x hx
      simp only [List.mem_cons, not_or]
      refine ⟨?_, hdisj x (List.mem_cons_of_mem _ hx)⟩
      intro e'; exact nd.1 (List.mem_map.2 ⟨x, hx, e'⟩)
    apply ih (kv.1 :: done) _ h1 ok' hdisj'
    rcases h with ⟨hq, hnk⟩ | h
    · left
      simp only [List.map_cons, List.mem_cons, not_or] at hnk
      exact ⟨scanEntry_keeps inv hk hn hkd hq kv.1 kv.2 (fun h => hnk.1 h.symm) hnew, hnk.2⟩
    · rcases List.mem_cons.1 h with h | h
      · left
        subst h
        refine ⟨?_, nd.1⟩
        have hc : (check t now ct k e).1 = true := by simp [check, hn, hexp]
        simp only
        rw [scanEntry_normal hc hn]
        have : (check t now ct k e).2 = e.lastSeen := by simp [check, hn]
        rw [this]
        exact AMap.mem_set_self _ _ _
      · right; exact h

theorem scanEnd_has {t : Timeouts} {now : Nat} {ct : AMap Key Entry} {done : List Key} {sc : ScanSt}
    (inv : ScanInv t now ct done sc) {k : Key} {e : Entry} {v : QVal}
    (hk : ct.get k = some e) (hn : e.typ = .normal) (hv : (k, v) ∈ sc.queue) : (k, v) ∈ scanEnd sc := by
  unfold scanEnd
  have : ∀ (pend : AMap Key QVal) (queue : AMap Key QVal),
      (∀ kp ∈ pend, PSound t now ct done kp) → (k, v) ∈ queue →
      (k, v) ∈ pend.foldl (fun q kv =>
        if kv.2.other ≠ dummyKey then q.set kv.2.other ⟨kv.1, kv.2.ts, kv.2.revTs⟩
        else q.set kv.1 ⟨kv.2.other, kv.2.ts, kv.2.revTs⟩) queue := by
    intro pend
    induction pend with
    | nil => intro queue _ hq; exact hq
    | cons kp rest ih =>
      intro queue hp hq
      simp only [List.foldl_cons]
      apply ih _ (fun x hx => hp x (List.mem_cons_of_mem _ hx))
      have hps := hp kp (List.mem_cons_self ..)
      unfold PSound at hps
      split
      · rename_i hnd
        rw [if_neg hnd] at hps
        obtain ⟨_, f, r, hf, hft, _⟩ := hps
        apply AMap.mem_set_of_ne _ hq
        intro h; simp only at h
        rw [← h, hk] at hf; cases hf
        rw [hn] at hft; cases hft
      · rename_i hd
        have hd' : kp.2.other = dummyKey := by simpa using hd
        rw [if_pos hd'] at hps
        obtain ⟨_, e0, he, het, _⟩ := hps
        apply AMap.mem_set_of_ne _ hq
        intro h; simp only at h
        rw [← h, hk] at he; cases he
        rw [hn] at het; cases het
  exact this sc.pend sc.queue inv.p hv

/-- the cleaner pass removes an entry for which the queue holds a plain item with the matching time stamp. -/
theorem clean_live (order : AMap Key QVal) (ct : AMap Key Entry) (k : Key) (v : QVal)
    (hv : (k, v) ∈ order) (hp : v.other.proto = 0)
    (hm : ∀ e, ct.get k = some e → e.lastSeen = v.ts) : (clean ct order).get k = none := by
  induction order generalizing ct with
  | nil => simp at hv
  | cons kq rest ih =>
    simp only [clean, List.foldl_cons]
    have gone : ∀ ct1 : AMap Key Entry, ct1.get k = none → (rest.foldl (fun ct kq => cleanEntry ct kq.1 kq.2) ct1).get k = none := by
      intro ct1 h1
      cases h2 : (rest.foldl (fun ct kq => cleanEntry ct kq.1 kq.2) ct1).get k with
      | none => rfl
      | some e2 => have := clean_sub rest ct1 k e2 h2; rw [h1] at this; cases this
    rcases List.mem_cons.1 hv with h | h
    · subst h
      apply gone
      cases hk : ct.get k with
      | none =>
        cases h2 : (cleanEntry ct k v).get k with
        | none => rfl
        | some e2 => have := cleanEntry_sub ct k v k e2 h2; rw [hk] at this; cases this
      | some e =>
        unfold cleanEntry
        simp [hp, hk, hm e hk, AMap.get_del_self]
    · apply ih _ h
      intro e he
      exact hm e (cleanEntry_sub ct kq.1 kq.2 k e he)

/-! ## Packets interleaved INSIDE the scan's map iteration

Visit `j` of the iteration reads the entry `(k, e)` and (for a forward entry) looks its reverse entry
up in the map `ct_j` as it is at that moment; between visits the map changes arbitrarily.  A queue
item is then backed by a judgement made on the map of ONE of the visits. -/

/-- a queue item backed by a judgement on the map `ct` of some visit. -/
def QSoundI (t : Timeouts) (now : Nat) (ct : AMap Key Entry) (kq : Key × QVal) : Prop :=
  if kq.2.other = dummyKey then
    ∃ e0, ct.get kq.1 = some e0 ∧ e0.lastSeen = kq.2.ts ∧ Judged t now ct kq.1 e0
  else
    ∃ r, ct.get kq.2.other = some r ∧ r.lastSeen = kq.2.revTs ∧
      ((r.typ ≠ .fwd ∧ expired t now kq.2.other.proto r = true) ∨
       (∃ f, ct.get kq.1 = some f ∧ f.typ = .fwd ∧ f.revKey = kq.2.other ∧ expired t now kq.1.proto r = true))

def PSoundI (t : Timeouts) (now : Nat) (hist : List (AMap Key Entry)) (done : List Key) (kp : Key × QVal) : Prop :=
  if kp.2.other = dummyKey then
    kp.1 ∈ done ∧ ∃ ct ∈ hist, ∃ e0, ct.get kp.1 = some e0 ∧ e0.typ = .rev ∧ e0.lastSeen = kp.2.ts ∧
      expired t now kp.1.proto e0 = true
  else
    kp.1 ≠ dummyKey ∧ ∃ ct ∈ hist, ∃ f r, ct.get kp.2.other = some f ∧ f.typ = .fwd ∧ f.revKey = kp.1 ∧
      ct.get kp.1 = some r ∧ r.lastSeen = kp.2.revTs ∧ expired t now kp.2.other.proto r = true

structure ScanInvI (t : Timeouts) (now : Nat) (hist : List (AMap Key Entry)) (done : List Key) (sc : ScanSt) : Prop where
  q : ∀ kq ∈ sc.queue, ∃ ct ∈ hist, QSoundI t now ct kq
  p : ∀ kp ∈ sc.pend, PSoundI t now hist done kp

theorem PSoundI.mono {t : Timeouts} {now : Nat} {hist : List (AMap Key Entry)} {done : List Key} {kp : Key × QVal}
    (k : Key) (c : AMap Key Entry) (h : PSoundI t now hist done kp) : PSoundI t now (c :: hist) (k :: done) kp := by
  unfold PSoundI at *
  split
  · rename_i hd; rw [if_pos hd] at h
    obtain ⟨h1, ct, hc, h2⟩ := h
    exact ⟨List.mem_cons_of_mem _ h1, ct, List.mem_cons_of_mem _ hc, h2⟩
  · rename_i hd; rw [if_neg hd] at h
    obtain ⟨h1, ct, hc, h2⟩ := h
    exact ⟨h1, ct, List.mem_cons_of_mem _ hc, h2⟩

theorem queueI_set {t : Timeouts} {now : Nat} {hist : List (AMap Key Entry)} {queue : AMap Key QVal} {k : Key} {v : QVal}
    (c : AMap Key Entry)
    (hq : ∀ kq ∈ queue, ∃ ct ∈ hist, QSoundI t now ct kq) (hv : QSoundI t now c (k, v)) :
    ∀ kq ∈ queue.set k v, ∃ ct ∈ c :: hist, QSoundI t now ct kq := by
  intro kq hm
  rcases AMap.mem_set hm with h | h
  · rw [h]; exact ⟨c, List.mem_cons_self .., hv⟩
  · obtain ⟨ct, hc, hs⟩ := hq kq h.1
    exact ⟨ct, List.mem_cons_of_mem _ hc, hs⟩

theorem queueI_keep {t : Timeouts} {now : Nat} {hist : List (AMap Key Entry)} {queue : AMap Key QVal}
    (c : AMap Key Entry) (hq : ∀ kq ∈ queue, ∃ ct ∈ hist, QSoundI t now ct kq) :
    ∀ kq ∈ queue, ∃ ct ∈ c :: hist, QSoundI t now ct kq := by
  intro kq hm
  obtain ⟨ct, hc, hs⟩ := hq kq hm
  exact ⟨ct, List.mem_cons_of_mem _ hc, hs⟩

/-- one visit, on the map `ct` as it is at that moment. -/
theorem scanEntry_invI {t : Timeouts} {now : Nat} {hist : List (AMap Key Entry)} {done : List Key} {sc : ScanSt}
    (inv : ScanInvI t now hist done sc) (ct : AMap Key Entry) (k : Key) (e : Entry) (hk : ct.get k = some e)
    (hnew : k ∉ done) (hkd : k ≠ dummyKey) (hrd : e.typ = .fwd → e.revKey ≠ dummyKey) :
    ScanInvI t now (ct :: hist) (k :: done) (scanEntry t now ct sc k e) := by
  have mono : ∀ kp ∈ sc.pend, PSoundI t now (ct :: hist) (k :: done) kp := fun kp h => (inv.p kp h).mono k ct
  have hq0 := queueI_keep ct inv.q
  cases hdel' : (check t now ct k e).1 with
  | false => rw [scanEntry_keep hdel']; exact ⟨hq0, mono⟩
  | true =>
    cases htyp : e.typ with
    | normal =>
      rw [scanEntry_normal hdel' htyp]
      refine ⟨queueI_set ct inv.q ?_, mono⟩
      unfold QSoundI
      rw [if_pos rfl]
      refine ⟨e, hk, ?_, ?_⟩
      · simp [check, htyp]
      · unfold Judged; simp only [htyp]
        simpa [check, htyp] using hdel'
    | rev =>
      rw [scanEntry_nat hdel' (by simp [htyp])]
      simp only [handleNAT, htyp]
      have hexp : expired t now k.proto e = true := by simpa [check, htyp] using hdel'
      cases hpk : sc.pend.get k with
      | none =>
        simp only []
        refine ⟨hq0, ?_⟩
        intro kp hm
        rcases AMap.mem_set hm with h | h
        · rw [h]; unfold PSoundI; rw [if_pos rfl]
          exact ⟨List.mem_cons_self .., ct, List.mem_cons_self .., e, hk, htyp, rfl, hexp⟩
        · exact mono kp h.1
      | some pv =>
        simp only []
        have hps := inv.p (k, pv) (AMap.mem_of_get hpk)
        unfold PSoundI at hps
        by_cases hpd : pv.other = dummyKey
        · rw [if_pos hpd] at hps
          exact absurd hps.1 hnew
        · refine ⟨queueI_set ct inv.q ?_, fun kp hm => mono kp (AMap.mem_del hm).1⟩
          unfold QSoundI
          rw [if_neg hkd]
          exact ⟨e, hk, by simp [check, htyp], Or.inl ⟨by simp [htyp], hexp⟩⟩
    | fwd =>
      rw [scanEntry_nat hdel' (by simp [htyp])]
      simp only [handleNAT, htyp]
      have hrk := hrd htyp
      have hchk : (ct.get e.revKey = none ∧ (check t now ct k e).2 = e.lastSeen) ∨
          ∃ r, ct.get e.revKey = some r ∧ expired t now k.proto r = true ∧ (check t now ct k e).2 = r.lastSeen := by
        unfold check at hdel' ⊢
        simp only [htyp] at hdel' ⊢
        cases hr : ct.get e.revKey with
        | none => left; simp
        | some r =>
          right
          simp only [hr] at hdel' ⊢
          by_cases hx : expired t now k.proto r = true
          · exact ⟨r, rfl, hx, by simp [hx]⟩
          · simp [hx] at hdel'
      split
      · rename_i hts
        refine ⟨queueI_set ct inv.q ?_, mono⟩
        unfold QSoundI
        rw [if_pos rfl]
        refine ⟨e, hk, rfl, ?_⟩
        unfold Judged; simp only [htyp]
        rcases hchk with ⟨hn, _⟩ | ⟨r, hr, hx, hl⟩
        · exact Or.inl hn
        · exact Or.inr ⟨r, hr, hx, by omega⟩
      · rename_i hts
        have hex : ∃ r, ct.get e.revKey = some r ∧ expired t now k.proto r = true ∧ (check t now ct k e).2 = r.lastSeen := by
          rcases hchk with ⟨_, hl⟩ | h
          · exact absurd hl.symm hts
          · exact h
        obtain ⟨r, hr, hx, hl⟩ := hex
        cases hpk : sc.pend.get e.revKey with
        | none =>
          simp only []
          refine ⟨hq0, ?_⟩
          intro kp hm
          rcases AMap.mem_set hm with h | h
          · rw [h]; unfold PSoundI; rw [if_neg hkd]
            exact ⟨hrk, ct, List.mem_cons_self .., e, r, hk, htyp, rfl, hr, hl.symm, hx⟩
          · exact mono kp h.1
        | some pv =>
          simp only []
          refine ⟨queueI_set ct inv.q ?_, fun kp hm => mono kp (AMap.mem_del hm).1⟩
          unfold QSoundI
          rw [if_neg hrk]
          exact ⟨r, hr, hl.symm, Or.inr ⟨e, hk, htyp, rfl, hx⟩⟩

/-- the visits of one scan: the map as it was at the visit, and the entry read. -/
abbrev Visit := AMap Key Entry × Key × Entry

/-- `Scan` with the map changing between the visits of its iteration. -/
def scanI (t : Timeouts) (now : Nat) (visits : List Visit) : AMap Key QVal :=
  scanEnd (visits.foldl (fun sc v => scanEntry t now v.1 sc v.2.1 v.2.2) ⟨[], []⟩)

structure VisitsOK (visits : List Visit) : Prop where
  mem : ∀ v ∈ visits, v.1.get v.2.1 = some v.2.2
  nodup : (visits.map (·.2.1)).Nodup
  keys : ∀ v ∈ visits, v.2.1 ≠ dummyKey
  revs : ∀ v ∈ visits, v.2.2.typ = .fwd → v.2.2.revKey ≠ dummyKey

theorem scanI_loop_inv {t : Timeouts} {now : Nat} (visits : List Visit) (hist : List (AMap Key Entry))
    (done : List Key) (sc : ScanSt) (inv : ScanInvI t now hist done sc) (ok : VisitsOK visits)
    (hdisj : ∀ v ∈ visits, v.2.1 ∉ done) :
    ∃ done', ScanInvI t now ((visits.map (·.1)).reverse ++ hist) done'
      (visits.foldl (fun sc v => scanEntry t now v.1 sc v.2.1 v.2.2) sc) := by
  induction visits generalizing hist done sc with
  | nil => exact ⟨done, by simpa using inv⟩
  | cons v rest ih =>
    simp only [List.foldl_cons, List.map_cons, List.reverse_cons, List.append_assoc, List.singleton_append]
    have h1 := scanEntry_invI inv v.1 v.2.1 v.2.2 (ok.mem v (List.mem_cons_self ..)) (hdisj v (List.mem_cons_self ..))
      (ok.keys v (List.mem_cons_self ..)) (ok.revs v (List.mem_cons_self ..))
    have nd := ok.nodup
    simp only [List.map_cons, List.nodup_cons] at nd
    refine ih (v.1 :: hist) (v.2.1 :: done) _ h1
      ⟨fun x hx => ok.mem x (List.mem_cons_of_mem _ hx), nd.2,
       fun x hx => ok.keys x (List.mem_cons_of_mem _ hx), fun x hx => ok.revs x (List.mem_cons_of_mem _ hx)⟩ ?_
    intro x hx
    simp only [List.mem_cons, not_or]
    refine ⟨?_, hdisj x (List.mem_cons_of_mem _ hx)⟩
    intro e; exact nd.1 (List.mem_map.2 ⟨x, hx, e⟩)

theorem scanEnd_soundI {t : Timeouts} {now : Nat} {hist : List (AMap Key Entry)} {done : List Key} {sc : ScanSt}
    (inv : ScanInvI t now hist done sc) : ∀ kq ∈ scanEnd sc, ∃ ct ∈ hist, QSoundI t now ct kq := by
  unfold scanEnd
  have : ∀ (pend : AMap Key QVal) (queue : AMap Key QVal),
      (∀ kp ∈ pend, PSoundI t now hist done kp) → (∀ kq ∈ queue, ∃ ct ∈ hist, QSoundI t now ct kq) →
      ∀ kq ∈ pend.foldl (fun q kv =>
        if kv.2.other ≠ dummyKey then q.set kv.2.other ⟨kv.1, kv.2.ts, kv.2.revTs⟩
        else q.set kv.1 ⟨kv.2.other, kv.2.ts, kv.2.revTs⟩) queue, ∃ ct ∈ hist, QSoundI t now ct kq := by
    intro pend
    induction pend with
    | nil => intro queue _ hq; exact hq
    | cons kp rest ih =>
      intro queue hp hq
      simp only [List.foldl_cons]
      apply ih _ (fun x hx => hp x (List.mem_cons_of_mem _ hx))
      have hps := hp kp (List.mem_cons_self ..)
      unfold PSoundI at hps
      intro kq hm
      split at hm
      · rename_i hnd
        rw [if_neg hnd] at hps
        obtain ⟨hkd, ct, hc, f, r, hf, hft, hfr, hr, hrl, hre⟩ := hps
        rcases AMap.mem_set hm with h | h
        · refine ⟨ct, hc, ?_⟩
          rw [h]; unfold QSoundI; rw [if_neg hkd]
          exact ⟨r, hr, hrl, Or.inr ⟨f, hf, hft, hfr, hre⟩⟩
        · exact hq kq h.1
      · rename_i hd
        have hd' : kp.2.other = dummyKey := by simpa using hd
        rw [if_pos hd'] at hps
        obtain ⟨_, ct, hc, e0, he, het, hel, hex⟩ := hps
        rcases AMap.mem_set hm with h | h
        · refine ⟨ct, hc, ?_⟩
          rw [h]; unfold QSoundI
          simp only [hd', if_true]
          refine ⟨e0, he, hel, ?_⟩
          unfold Judged; simp only [het]; exact hex
        · exact hq kq h.1
  exact this sc.pend sc.queue inv.p inv.q

/-- every queue item of an interleaved scan is backed by a judgement on the map of one of its visits. -/
theorem scanI_queue_sound (t : Timeouts) (now : Nat) (visits : List Visit) (ok : VisitsOK visits) :
    ∀ kq ∈ scanI t now visits, ∃ v ∈ visits, QSoundI t now v.1 kq := by
  unfold scanI
  obtain ⟨done, inv⟩ := scanI_loop_inv (t := t) (now := now) visits [] [] ⟨[], []⟩
    ⟨fun _ h => by simp at h, fun _ h => by simp at h⟩ ok (fun _ _ => by simp)
  intro kq hm
  obtain ⟨ct, hc, hs⟩ := scanEnd_soundI inv kq hm
  simp only [List.append_nil, List.mem_reverse, List.mem_map] at hc
  obtain ⟨v, hv, rfl⟩ := hc
  exact ⟨v, hv, hs⟩

/-! ## Liveness of a NAT pair -/

theorem AMap.keys_del {K V : Type} [DecidableEq K] (m : AMap K V) (k : K) (h : (m.map (·.1)).Nodup) :
    ((AMap.del m k).map (·.1)).Nodup := by
  unfold AMap.del
  exact (List.Nodup.sublist ((List.filter_sublist (l := m)).map _) h)

theorem AMap.keys_set {K V : Type} [DecidableEq K] (m : AMap K V) (k : K) (v : V) (h : (m.map (·.1)).Nodup) :
    ((AMap.set m k v).map (·.1)).Nodup := by
  unfold AMap.set
  simp only [List.map_cons, List.nodup_cons]
  refine ⟨?_, AMap.keys_del m k h⟩
  intro hm
  obtain ⟨p, hp, he⟩ := List.mem_map.1 hm
  exact (AMap.mem_del hp).2 he

theorem AMap.get_of_mem_nodup {K V : Type} [DecidableEq K] {m : AMap K V} {k : K} {v : V}
    (h : (m.map (·.1)).Nodup) (hm : (k, v) ∈ m) : m.get k = some v := by
  induction m with
  | nil => simp at hm
  | cons p rest ih =>
    obtain ⟨k', v'⟩ := p
    simp only [List.map_cons, List.nodup_cons] at h
    rcases List.mem_cons.1 hm with e | hm'
    · cases e; simp [AMap.get]
    · have : k' ≠ k := fun e => h.1 (e ▸ List.mem_map_of_mem (f := fun x : K × V => x.1) hm')
      simp [AMap.get, this, ih h.2 hm']

theorem AMap.get_set_ne' {K V : Type} [DecidableEq K] (m : AMap K V) {k k' : K} (v : V) (h : k' ≠ k) :
    (AMap.set m k v).get k' = m.get k' := by
  rw [AMap.get_set]; simp [h]

/-- the pair under consideration. -/
structure Pair (t : Timeouts) (now : Nat) (ct : AMap Key Entry) (items : List (Key × Entry))
    (kF kR : Key) (f r : Entry) : Prop where
  hf : ct.get kF = some f
  hr : ct.get kR = some r
  tf : f.typ = .fwd
  tr : r.typ = .rev
  rk : f.revKey = kR
  ef : expired t now kF.proto r = true
  er : expired t now kR.proto r = true
  /-- no other forward entry points at the same reverse entry -/
  uniq : ∀ kv ∈ items, kv.2.typ = .fwd → kv.2.revKey = kR → kv.1 = kF

/-- what the scanner state holds for the pair, depending on which of its two entries were visited. -/
structure PairInv (kF kR : Key) (f r : Entry) (done : List Key) (sc : ScanSt) : Prop where
  pn : (sc.pend.map (·.1)).Nodup
  pend : sc.pend.get kR =
    if f.lastSeen = r.lastSeen then (if kR ∈ done then some ⟨dummyKey, r.lastSeen, 0⟩ else none)
    else if kF ∈ done then (if kR ∈ done then none else some ⟨kF, f.lastSeen, r.lastSeen⟩)
    else (if kR ∈ done then some ⟨dummyKey, r.lastSeen, 0⟩ else none)
  qeq : f.lastSeen = r.lastSeen → kF ∈ done → (kF, (⟨dummyKey, f.lastSeen, f.lastSeen⟩ : QVal)) ∈ sc.queue
  qne : f.lastSeen ≠ r.lastSeen → kF ∈ done → kR ∈ done → (kF, (⟨kR, f.lastSeen, r.lastSeen⟩ : QVal)) ∈ sc.queue

theorem scanEntry_pn {t : Timeouts} {now : Nat} {ct : AMap Key Entry} {sc : ScanSt} (k : Key) (e : Entry)
    (h : (sc.pend.map (·.1)).Nodup) : ((scanEntry t now ct sc k e).pend.map (·.1)).Nodup := by
  cases hdel : (check t now ct k e).1 with
  | false => rw [scanEntry_keep hdel]; exact h
  | true =>
    cases htyp : e.typ with
    | normal => rw [scanEntry_normal hdel htyp]; exact h
    | rev =>
      rw [scanEntry_nat hdel (by simp [htyp])]
      simp only [handleNAT, htyp]
      cases sc.pend.get k with
      | none => exact AMap.keys_set _ _ _ h
      | some pv => exact AMap.keys_del _ _ h
    | fwd =>
      rw [scanEntry_nat hdel (by simp [htyp])]
      simp only [handleNAT, htyp]
      split
      · exact h
      · cases sc.pend.get e.revKey with
        | none => exact AMap.keys_set _ _ _ h
        | some pv => exact AMap.keys_del _ _ h

/-- visiting any other entry leaves the pair's pending record and its queued item alone. -/
theorem other_visit {t : Timeouts} {now : Nat} {ct : AMap Key Entry} {items : List (Key × Entry)} {kF kR : Key} {f r : Entry}
    (pr : Pair t now ct items kF kR f r) {done : List Key} {sc : ScanSt} (inv : ScanInv t now ct done sc)
    (k : Key) (e : Entry) (hmem : (k, e) ∈ items) (hnew : k ∉ done) (h1 : k ≠ kF) (h2 : k ≠ kR) :
    (scanEntry t now ct sc k e).pend.get kR = sc.pend.get kR ∧
    ∀ v, (kF, v) ∈ sc.queue → (kF, v) ∈ (scanEntry t now ct sc k e).queue := by
  have hne : ∀ v : QVal, (kF, v).1 ≠ k := fun v h => h1 h.symm
  cases hdel : (check t now ct k e).1 with
  | false => rw [scanEntry_keep hdel]; exact ⟨rfl, fun v h => h⟩
  | true =>
    cases htyp : e.typ with
    | normal => rw [scanEntry_normal hdel htyp]; exact ⟨rfl, fun v h => AMap.mem_set_of_ne _ h (hne v)⟩
    | rev =>
      rw [scanEntry_nat hdel (by simp [htyp])]
      simp only [handleNAT, htyp]
      cases hpk : sc.pend.get k with
      | none => exact ⟨by simp only []; exact AMap.get_set_ne' _ _ (fun e => h2 e.symm), fun v h => h⟩
      | some pv =>
        refine ⟨by simp only []; exact AMap.get_del_ne _ (fun e => h2 e.symm), fun v h => ?_⟩
        simp only []
        apply AMap.mem_set_of_ne _ h
        have hps := inv.p (k, pv) (AMap.mem_of_get hpk)
        unfold PSound at hps
        by_cases hpd : pv.other = dummyKey
        · rw [if_pos hpd] at hps; exact absurd hps.1 hnew
        · rw [if_neg hpd] at hps
          obtain ⟨_, f', r', hf', _, hfr', _⟩ := hps
          intro he; simp only at he
          rw [← he, pr.hf] at hf'; cases hf'
          exact h2 (by have := hfr'; simp only at this; rw [← this, pr.rk])
    | fwd =>
      rw [scanEntry_nat hdel (by simp [htyp])]
      simp only [handleNAT, htyp]
      have hrk : e.revKey ≠ kR := fun he => h1 (pr.uniq (k, e) hmem htyp he)
      split
      · exact ⟨rfl, fun v h => AMap.mem_set_of_ne _ h (hne v)⟩
      · cases hpk : sc.pend.get e.revKey with
        | none => exact ⟨by simp only []; exact AMap.get_set_ne' _ _ (fun e' => hrk e'.symm), fun v h => h⟩
        | some pv =>
          exact ⟨by simp only []; exact AMap.get_del_ne _ (fun e' => hrk e'.symm), fun v h => AMap.mem_set_of_ne _ h (hne v)⟩

theorem mem_cons_ne {k x : Key} {done : List Key} (h : x ≠ k) : x ∈ k :: done ↔ x ∈ done := by
  simp [List.mem_cons, h]

theorem pair_visit {t : Timeouts} {now : Nat} {ct : AMap Key Entry} {items : List (Key × Entry)} {kF kR : Key} {f r : Entry}
    (pr : Pair t now ct items kF kR f r) {done : List Key} {sc : ScanSt} (inv : ScanInv t now ct done sc)
    (pi : PairInv kF kR f r done sc) (k : Key) (e : Entry) (hk : ct.get k = some e) (hmem : (k, e) ∈ items)
    (hnew : k ∉ done) : PairInv kF kR f r (k :: done) (scanEntry t now ct sc k e) := by
  have hFR : kF ≠ kR := by
    intro h; have := pr.hf; rw [h, pr.hr] at this; cases this
    have := pr.tf; rw [pr.tr] at this; cases this
  by_cases hkF : k = kF
  · -- the forward entry is visited
    subst hkF
    have he : e = f := by rw [pr.hf] at hk; cases hk; rfl
    rw [he]
    have hRk : kR ≠ k := fun h => hFR h.symm
    have hc1 : (check t now ct k f).1 = true := by simp [check, pr.tf, pr.rk, pr.hr, pr.ef]
    have hc2 : (check t now ct k f).2 = r.lastSeen := by simp [check, pr.tf, pr.rk, pr.hr, pr.ef]
    have hpend := pi.pend
    simp only [hnew, if_false] at hpend
    rw [scanEntry_nat hc1 (by simp [pr.tf])]
    simp only [handleNAT, pr.tf, hc2, pr.rk]
    by_cases heq : f.lastSeen = r.lastSeen
    · simp only [heq, if_true]
      refine ⟨pi.pn, ?_, ?_, fun h => absurd heq h⟩
      · simp only [heq, if_true, mem_cons_ne hRk] at hpend ⊢; exact hpend
      · intro _ _; rw [← heq]; exact AMap.mem_set_self _ _ _
    · simp only [heq, if_false] at hpend ⊢
      by_cases hR : kR ∈ done
      · simp only [hR, if_true] at hpend
        simp only [hpend]
        refine ⟨AMap.keys_del _ _ pi.pn, ?_, fun h => absurd h heq, fun _ _ _ => AMap.mem_set_self _ _ _⟩
        simp [heq, hR, AMap.get_del_self]
      · simp only [hR, if_false] at hpend
        simp only [hpend]
        refine ⟨AMap.keys_set _ _ _ pi.pn, ?_, fun h => absurd h heq, fun _ _ h => absurd ((mem_cons_ne hRk).1 h) hR⟩
        simp [heq, hR, mem_cons_ne hRk, AMap.get_set]
  · by_cases hkR : k = kR
    · -- the reverse entry is visited
      subst hkR
      have he : e = r := by rw [pr.hr] at hk; cases hk; rfl
      rw [he]
      have hFk : kF ≠ k := hFR
      have hc1 : (check t now ct k r).1 = true := by simp [check, pr.tr, pr.er]
      have hc2 : (check t now ct k r).2 = r.lastSeen := by simp [check, pr.tr]
      have hpend := pi.pend
      simp only [hnew, if_false] at hpend
      rw [scanEntry_nat hc1 (by simp [pr.tr])]
      simp only [handleNAT, pr.tr, hc2]
      by_cases heq : f.lastSeen = r.lastSeen
      · simp only [heq, if_true] at hpend
        simp only [hpend]
        refine ⟨AMap.keys_set _ _ _ pi.pn, ?_, ?_, fun h => absurd heq h⟩
        · simp [heq, AMap.get_set]
        · intro h hm; exact pi.qeq h ((mem_cons_ne hFk).1 hm)
      · simp only [heq, if_false] at hpend
        by_cases hF : kF ∈ done
        · simp only [hF, if_true] at hpend
          simp only [hpend]
          refine ⟨AMap.keys_del _ _ pi.pn, ?_, fun h => absurd h heq, fun _ _ _ => AMap.mem_set_self _ _ _⟩
          simp [heq, hF, mem_cons_ne hFk, AMap.get_del_self]
        · simp only [hF, if_false] at hpend
          simp only [hpend]
          refine ⟨AMap.keys_set _ _ _ pi.pn, ?_, fun h => absurd h heq, fun _ h _ => absurd ((mem_cons_ne hFk).1 h) hF⟩
          simp [heq, hF, mem_cons_ne hFk, AMap.get_set]
    · -- some other entry is visited
      obtain ⟨hp, hq⟩ := other_visit pr inv k e hmem hnew hkF hkR
      have m1 : kF ∈ k :: done ↔ kF ∈ done := mem_cons_ne (fun h => hkF h.symm)
      have m2 : kR ∈ k :: done ↔ kR ∈ done := mem_cons_ne (fun h => hkR h.symm)
      refine ⟨scanEntry_pn k e pi.pn, ?_, ?_, ?_⟩
      · rw [hp, pi.pend]; simp only [m1, m2]
      · intro h hm; exact hq _ (pi.qeq h (m1.1 hm))
      · intro h hm1 hm2; exact hq _ (pi.qne h (m1.1 hm1) (m2.1 hm2))

theorem pair_loop {t : Timeouts} {now : Nat} {ct : AMap Key Entry} {all : List (Key × Entry)} {kF kR : Key} {f r : Entry}
    (pr : Pair t now ct all kF kR f r) (items : List (Key × Entry)) (hsub : ∀ kv ∈ items, kv ∈ all)
    (done : List Key) (sc : ScanSt) (inv : ScanInv t now ct done sc) (pi : PairInv kF kR f r done sc)
    (ok : ItemsOK ct items) (hdisj : ∀ kv ∈ items, kv.1 ∉ done) :
    ∃ done', ScanInv t now ct done' (items.foldl (fun sc kv => scanEntry t now ct sc kv.1 kv.2) sc) ∧
      PairInv kF kR f r done' (items.foldl (fun sc kv => scanEntry t now ct sc kv.1 kv.2) sc) ∧
      (∀ kv ∈ items, kv.1 ∈ done') ∧ (∀ k ∈ done, k ∈ done') := by
  induction items generalizing done sc with
  | nil => exact ⟨done, inv, pi, fun _ h => by simp at h, fun _ h => h⟩
  | cons kv rest ih =>
    simp only [List.foldl_cons]
    have hm := ok.mem kv (List.mem_cons_self ..)
    have hn := hdisj kv (List.mem_cons_self ..)
    have h1 := scanEntry_inv inv kv.1 kv.2 hm hn (ok.keys kv (List.mem_cons_self ..)) (ok.revs kv (List.mem_cons_self ..))
    have p1 := pair_visit pr inv pi kv.1 kv.2 hm (hsub kv (List.mem_cons_self ..)) hn
    have nd := ok.nodup
    simp only [List.map_cons, List.nodup_cons] at nd
    obtain ⟨done', i2, p2, m2, d2⟩ := ih (fun x hx => hsub x (List.mem_cons_of_mem _ hx)) (kv.1 :: done) _ h1 p1
      ⟨fun x hx => ok.mem x (List.mem_cons_of_mem _ hx), nd.2,
       fun x hx => ok.keys x (List.mem_cons_of_mem _ hx), fun x hx => ok.revs x (List.mem_cons_of_mem _ hx)⟩
      (by
        intro x hx
        simp only [List.mem_cons, not_or]
        refine ⟨?_, hdisj x (List.mem_cons_of_mem _ hx)⟩
        intro e; exact nd.1 (List.mem_map.2 ⟨x, hx, e⟩))
    refine ⟨done', i2, p2, ?_, fun k hk => d2 k (List.mem_cons_of_mem _ hk)⟩
    intro x hx
    rcases List.mem_cons.1 hx with rfl | hx
    · exact d2 _ (List.mem_cons_self ..)
    · exact m2 x hx

def endKey (kp : Key × QVal) : Key := if kp.2.other ≠ dummyKey then kp.2.other else kp.1
def endVal (kp : Key × QVal) : QVal :=
  if kp.2.other ≠ dummyKey then ⟨kp.1, kp.2.ts, kp.2.revTs⟩ else ⟨kp.2.other, kp.2.ts, kp.2.revTs⟩

theorem scanEnd_eq (sc : ScanSt) : scanEnd sc = sc.pend.foldl (fun q kp => q.set (endKey kp) (endVal kp)) sc.queue := by
  unfold scanEnd endKey endVal
  congr 1
  funext q kp
  split <;> rfl

theorem endFold_keep (P : QVal → Prop) (key : Key) (pend : AMap Key QVal)
    (hstep : ∀ kp ∈ pend, endKey kp = key → P (endVal kp)) (q : AMap Key QVal)
    (h : ∃ v, (key, v) ∈ q ∧ P v) :
    ∃ v, (key, v) ∈ pend.foldl (fun q kp => q.set (endKey kp) (endVal kp)) q ∧ P v := by
  induction pend generalizing q with
  | nil => exact h
  | cons kp rest ih =>
    simp only [List.foldl_cons]
    apply ih (fun x hx => hstep x (List.mem_cons_of_mem _ hx))
    by_cases hk : endKey kp = key
    · exact ⟨endVal kp, hk ▸ AMap.mem_set_self _ _ _, hstep kp (List.mem_cons_self ..) hk⟩
    · obtain ⟨v, hm, hp⟩ := h
      exact ⟨v, AMap.mem_set_of_ne _ hm (fun e => hk e.symm), hp⟩

theorem endFold_create (P : QVal → Prop) (key : Key) (pend : AMap Key QVal)
    (hstep : ∀ kp ∈ pend, endKey kp = key → P (endVal kp)) (q : AMap Key QVal)
    (kp0 : Key × QVal) (h0 : kp0 ∈ pend) (hk0 : endKey kp0 = key) :
    ∃ v, (key, v) ∈ pend.foldl (fun q kp => q.set (endKey kp) (endVal kp)) q ∧ P v := by
  induction pend generalizing q with
  | nil => simp at h0
  | cons kp rest ih =>
    simp only [List.foldl_cons]
    rcases List.mem_cons.1 h0 with rfl | h0'
    · exact endFold_keep P key rest (fun x hx => hstep x (List.mem_cons_of_mem _ hx)) _
        ⟨endVal kp0, hk0 ▸ AMap.mem_set_self _ _ _, hstep kp0 (List.mem_cons_self ..) hk0⟩
    · exact ih (fun x hx => hstep x (List.mem_cons_of_mem _ hx)) _ h0'

/-- the cleaner removes the reverse entry of a queued pair whose time stamp still matches. -/
theorem clean_live_pair (order : AMap Key QVal) (ct : AMap Key Entry) (kF kR : Key) (tsF tsR : Nat)
    (hv : (kF, (⟨kR, tsF, tsR⟩ : QVal)) ∈ order) (hp : kR.proto ≠ 0)
    (hF : ∀ e, ct.get kF = some e → e.revKey = kR)
    (hR : ∀ e, ct.get kR = some e → e.lastSeen = tsR) : (clean ct order).get kR = none := by
  induction order generalizing ct with
  | nil => simp at hv
  | cons kq rest ih =>
    simp only [clean, List.foldl_cons]
    have gone : ∀ ct1 : AMap Key Entry, ct1.get kR = none → (rest.foldl (fun ct kq => cleanEntry ct kq.1 kq.2) ct1).get kR = none := by
      intro ct1 h1
      cases h2 : (rest.foldl (fun ct kq => cleanEntry ct kq.1 kq.2) ct1).get kR with
      | none => rfl
      | some e2 => have := clean_sub rest ct1 kR e2 h2; rw [h1] at this; cases this
    rcases List.mem_cons.1 hv with h | h
    · subst h
      apply gone
      have hmis : fwdMismatch ct kF kR = false := by
        unfold fwdMismatch
        cases hk : ct.get kF with
        | none => rfl
        | some e => simp [hF e hk]
      unfold cleanEntry
      simp only [hp, if_false, hmis, Bool.false_eq_true]
      cases hk : ct.get kR with
      | none => simp [hk]
      | some e =>
        simp only [hR e hk, if_true]
        rw [AMap.get_del]
        split
        · rfl
        · exact AMap.get_del_self _ _
    · apply ih _ h
      · intro e he; exact hF e (cleanEntry_sub ct kq.1 kq.2 kF e he)
      · intro e he; exact hR e (cleanEntry_sub ct kq.1 kq.2 kR e he)

end CalicoVerif.C14
