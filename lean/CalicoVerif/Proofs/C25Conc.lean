import CalicoVerif.Proofs.C25Inv2
/-!
C25 — the real sender releases the lock between pulling a batch and delivering it (`dropLockAndSendBatch`),
so upstream calls interleave with the deliveries of a batch.  `Sys2` makes that explicit (an in-flight batch
delivered one element at a time); it is simulated by the atomic system `Sys` of `Proofs/C25.lean`:
abstracting "deliver the rest of the in-flight batch now" commutes with every step.
-/
namespace CalicoVerif.C25

structure Sys2 where
  buf : Buf
  /-- pulled from the queue (lock released) but not yet handed to the sink -/
  inflight : List Item
  down : View
  view : View
  insync : Bool
  wf : Bool
  log : List (Upd × Bool)

def Sys2.init : Sys2 :=
  { buf := Buf.new, inflight := [], down := fun _ => none, view := fun _ => none, insync := false, wf := true,
    log := [] }

/-- Interleaving alphabet of the concurrent system. -/
inductive Op2 where
  | upd (us : List Upd)
  | status (s : Nat) (order : List Key)
  | restart
  /-- the sender takes the lock and pulls a batch (only when the previous batch is fully delivered) -/
  | pullOnly (n : Nat)
  /-- the sender hands the next element of the in-flight batch to the sink -/
  | deliverOne

/-- One upstream update's bookkeeping (same as `Sys.upd1`). -/
def Sys2.upd1 (s : Sys2) (u : Upd) : Sys2 :=
  { s with buf := onUpdate s.buf u, view := applyUpd s.view u,
           wf := s.wf && (u.val.isSome || (s.view u.key).isSome) }

def Sys2.step (s : Sys2) : Op2 → Sys2
  | .upd us => us.foldl Sys2.upd1 s
  | .status st order => { s with buf := onStatus s.buf st order, insync := s.insync || st == inSync }
  | .restart => { s with buf := onRestart s.buf, view := fun _ => none, insync := false }
  | .pullOnly n =>
    if s.inflight.isEmpty then
      let r := pullNextBatch s.buf n
      { s with buf := r.1, inflight := r.2 }
    else s
  | .deliverOne =>
    match s.inflight with
    | [] => s
    | .st _ :: r => { s with inflight := r }
    | .up u :: r =>
      { s with inflight := r, down := applyUpd s.down u, log := s.log ++ [(u, (s.down u.key).isSome)] }

def Sys2.run (s : Sys2) (ops : List Op2) : Sys2 := ops.foldl Sys2.step s

/-- Abstraction: deliver the rest of the in-flight batch at once. -/
def Sys2.abs (s : Sys2) : Sys :=
  { buf := s.buf, down := (deliver s.down s.log s.inflight).1, view := s.view, insync := s.insync, wf := s.wf,
    log := (deliver s.down s.log s.inflight).2 }

/-- The atomic op a concurrent op corresponds to (`none` = a stutter step). -/
def Op2.abs (s : Sys2) : Op2 → Option Op
  | .upd us => some (.upd us)
  | .status st order => some (.status st order)
  | .restart => some .restart
  | .pullOnly n => if s.inflight.isEmpty then some (.pull n) else none
  | .deliverOne => none

def stepOpt (s : Sys) : Option Op → Sys
  | none => s
  | some op => s.step op

theorem upd1_abs (s : Sys2) (u : Upd) : (s.upd1 u).abs = s.abs.upd1 u := rfl

theorem foldl_upd1_abs (us : List Upd) (s : Sys2) : (us.foldl Sys2.upd1 s).abs = us.foldl Sys.upd1 s.abs := by
  induction us generalizing s with
  | nil => rfl
  | cons u us ih => simp only [List.foldl_cons]; rw [ih, upd1_abs]

/-- **Simulation**: every step of the concurrent system is the corresponding atomic step (or no step) of the
atomic system, under the abstraction. -/
theorem step_abs (s : Sys2) (op : Op2) : (s.step op).abs = stepOpt s.abs (op.abs s) := by
  cases op with
  | upd us => exact foldl_upd1_abs us s
  | status st order => rfl
  | restart => rfl
  | pullOnly n =>
    simp only [Sys2.step, Op2.abs]
    split
    · rename_i he
      have : s.inflight = [] := by simpa using he
      simp only [stepOpt, Sys.step, Sys2.abs, this, deliver]
    · rfl
  | deliverOne =>
    simp only [Sys2.step, Op2.abs, stepOpt]
    cases hi : s.inflight with
    | nil => simp only [Sys2.abs, hi]
    | cons i r =>
      cases i with
      | st x => simp only [Sys2.abs, hi, deliver]
      | up u => simp only [Sys2.abs, hi, deliver]

/-- The atomic history a concurrent history stands for. -/
def absOps : Sys2 → List Op2 → List Op
  | _, [] => []
  | s, op :: ops => (match op.abs s with
    | some o => [o]
    | none => []) ++ absOps (s.step op) ops

theorem run_abs (ops : List Op2) (s : Sys2) : (s.run ops).abs = s.abs.run (absOps s ops) := by
  induction ops generalizing s with
  | nil => rfl
  | cons op ops ih =>
    simp only [Sys2.run, List.foldl_cons, absOps]
    have := ih (s.step op)
    simp only [Sys2.run] at this
    rw [this, step_abs]
    cases op.abs s with
    | none => simp [stepOpt, Sys.run]
    | some o => simp [stepOpt, Sys.run]

theorem init_abs : Sys2.init.abs = Sys.init := rfl

/-- What has really been delivered so far is a prefix of what the abstraction delivers. -/
theorem deliver_log_prefix (down : View) (log : List (Upd × Bool)) (items : List Item) :
    ∃ rest, (deliver down log items).2 = log ++ rest := by
  induction items generalizing down log with
  | nil => exact ⟨[], by simp [deliver]⟩
  | cons i r ih =>
    cases i with
    | st x => exact ih down log
    | up u =>
      obtain ⟨rest, h⟩ := ih (applyUpd down u) (log ++ [(u, (down u.key).isSome)])
      exact ⟨(u, (down u.key).isSome) :: rest, by simp only [deliver]; rw [h]; simp⟩

end CalicoVerif.C25
