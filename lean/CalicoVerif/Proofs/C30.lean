import CalicoVerif.Model.C30
/-! Helper lemmas for C30, part 1: priorities (core Lean only). -/
namespace CalicoVerif.C30

/-! ### A priority-ordered rule list in which an action change always bumps the priority -/

def good : List HRule → Prop
  | [] => True
  | [_] => True
  | a :: b :: rest => a.prio ≤ b.prio ∧ (a.action ≠ b.action → a.prio < b.prio) ∧ good (b :: rest)

theorem good_tail_of_cons {a : HRule} {l : List HRule} (h : good (a :: l)) : good l := by
  cases l with
  | nil => trivial
  | cons b rest => exact h.2.2

theorem good_of_append_right (pre l : List HRule) (h : good (pre ++ l)) : good l := by
  induction pre with
  | nil => exact h
  | cons a rest ih => exact ih (good_tail_of_cons h)

/-- In a good list every later rule has priority ≥ the head's, and equal priority forces equal action. -/
theorem good_head (x : HRule) (post : List HRule) (h : good (x :: post)) :
    ∀ y ∈ post, x.prio ≤ y.prio ∧ (y.prio = x.prio → y.action = x.action) := by
  induction post generalizing x with
  | nil => intro y hy; simp at hy
  | cons b rest ih =>
    intro y hy
    obtain ⟨h1, h2, h3⟩ := h
    simp only [List.mem_cons] at hy
    rcases hy with rfl | hy
    · refine ⟨h1, fun he => ?_⟩
      apply Classical.byContradiction
      intro hne
      have := h2 (fun e => hne e.symm)
      omega
    · have := ih b h3 y hy
      refine ⟨by omega, fun he => ?_⟩
      have hb : b.prio = x.prio := by omega
      have hyb : y.prio = b.prio := by omega
      have e1 := this.2 hyb
      have e2 : b.action = x.action := by
        apply Classical.byContradiction
        intro hne
        have := h2 (fun e => hne e.symm)
        omega
      rw [e1, e2]

def firstAction (l : List HRule) (p : Pkt) : Option Action := (l.find? (·.matches p)).map (·.action)

/-- In a good list the verdict does not depend on how HNS breaks ties: all decisive rules carry
the action of the first matching rule of the list. -/
theorem first_match_decides (l : List HRule) (hg : good l) (p : Pkt) (a : Action)
    (hf : firstAction l p = some a) :
    hnsActions l p ≠ [] ∧ ∀ b ∈ hnsActions l p, b = a := by
  unfold firstAction at hf
  cases hfx : l.find? (·.matches p) with
  | none => simp [hfx] at hf
  | some x =>
    simp only [hfx, Option.map_some, Option.some.injEq] at hf
    obtain ⟨pre, post, hl, hpre⟩ := List.find?_eq_some_iff_append.1 hfx |>.2
    have hxm : x.matches p = true := (List.find?_eq_some_iff_append.1 hfx).1
    have hgx : good (x :: post) := good_of_append_right pre _ (hl ▸ hg)
    have hhead := good_head x post hgx
    -- every matching rule is x or later
    have hlater : ∀ g ∈ l, g.matches p = true → g = x ∨ g ∈ post := by
      intro g hgmem hgm
      rw [hl] at hgmem
      simp only [List.mem_append, List.mem_cons] at hgmem
      rcases hgmem with h | h | h
      · have := hpre g h; simp [hgm] at this
      · exact Or.inl h
      · exact Or.inr h
    have hxdec : decisive l p x = true := by
      simp only [decisive, hxm, Bool.true_and, List.all_eq_true, Bool.or_eq_true, Bool.not_eq_eq_eq_not,
        Bool.not_true, decide_eq_true_eq]
      intro g hgmem
      by_cases hgm : g.matches p = true
      · right
        rcases hlater g hgmem hgm with rfl | h
        · exact Nat.le_refl _
        · exact (hhead g h).1
      · left; simpa using hgm
    have hxmem : x ∈ l := by rw [hl]; simp
    constructor
    · intro hnil
      have : x.action ∈ hnsActions l p := by
        simp only [hnsActions, List.mem_map, List.mem_filter]
        exact ⟨x, ⟨hxmem, hxdec⟩, rfl⟩
      rw [hnil] at this; simp at this
    · intro b hb
      simp only [hnsActions, List.mem_map, List.mem_filter] at hb
      obtain ⟨g, ⟨hgmem, hgdec⟩, rfl⟩ := hb
      simp only [decisive, Bool.and_eq_true, List.all_eq_true, Bool.or_eq_true, Bool.not_eq_eq_eq_not,
        Bool.not_true, decide_eq_true_eq] at hgdec
      obtain ⟨hgm, hgmin⟩ := hgdec
      have hle : g.prio ≤ x.prio := by
        rcases hgmin x hxmem with h | h
        · simp [hxm] at h
        · exact h
      rcases hlater g hgmem hgm with rfl | h
      · exact hf
      · have := hhead g h
        rw [this.2 (by omega)]; exact hf


/-! ### `bump` (the priority assignment of GetPolicySetRules) -/

def nextPrio (cur : Nat) (last : Option Action) (a : Action) : Nat :=
  match last with
  | some l => if l ≠ a then cur + 1 else cur
  | none => cur

theorem bump_cons (cur : Nat) (last : Option Action) (m : HRule) (ms : List HRule) :
    bump cur last (m :: ms) =
      ({ m with prio := nextPrio cur last m.action } :: (bump (nextPrio cur last m.action) (some m.action) ms).1,
       (bump (nextPrio cur last m.action) (some m.action) ms).2) := by
  cases last <;> simp [bump, nextPrio]

theorem matches_prio (m : HRule) (k : Nat) (p : Pkt) : ({ m with prio := k } : HRule).matches p = m.matches p := rfl

theorem nextPrio_ge (cur : Nat) (last : Option Action) (a : Action) : cur ≤ nextPrio cur last a := by
  unfold nextPrio; cases last <;> simp <;> split <;> omega

theorem bump_bounds (ms : List HRule) : ∀ (cur : Nat) (last : Option Action),
    cur ≤ (bump cur last ms).2 ∧ ∀ r ∈ (bump cur last ms).1, cur ≤ r.prio ∧ r.prio ≤ (bump cur last ms).2 := by
  induction ms with
  | nil => intro cur last; simp [bump]
  | cons m ms ih =>
    intro cur last
    rw [bump_cons]
    have hn := nextPrio_ge cur last m.action
    have := ih (nextPrio cur last m.action) (some m.action)
    refine ⟨by omega, ?_⟩
    intro r hr
    simp only [List.mem_cons] at hr
    rcases hr with rfl | hr
    · exact ⟨hn, this.1⟩
    · have := this.2 r hr
      exact ⟨by omega, this.2⟩

theorem bump_head (ms : List HRule) (cur : Nat) (last : Option Action) (r : HRule) (rest : List HRule)
    (h : (bump cur last ms).1 = r :: rest) :
    ∃ m ms', ms = m :: ms' ∧ r.action = m.action ∧ r.prio = nextPrio cur last m.action := by
  cases ms with
  | nil => simp [bump] at h
  | cons m ms' =>
    rw [bump_cons] at h
    simp only [List.cons.injEq] at h
    exact ⟨m, ms', rfl, by rw [← h.1], by rw [← h.1]⟩

theorem bump_good (ms : List HRule) : ∀ (cur : Nat) (last : Option Action), good (bump cur last ms).1 := by
  induction ms with
  | nil => intro cur last; simp [bump, good]
  | cons m ms ih =>
    intro cur last
    rw [bump_cons]
    have hrest := ih (nextPrio cur last m.action) (some m.action)
    cases hb : (bump (nextPrio cur last m.action) (some m.action) ms).1 with
    | nil => simp [good]
    | cons b rest =>
      obtain ⟨m2, ms2, _, ha, hp⟩ := bump_head ms _ _ b rest hb
      rw [hb] at hrest
      refine ⟨?_, ?_, hrest⟩
      · show nextPrio cur last m.action ≤ b.prio
        rw [hp]; exact nextPrio_ge _ _ _
      · show m.action ≠ b.action → nextPrio cur last m.action < b.prio
        intro hne
        rw [hp, ha] at *
        simp only [nextPrio]
        rw [if_pos hne]; omega

theorem bump_firstAction (ms : List HRule) (p : Pkt) : ∀ (cur : Nat) (last : Option Action),
    firstAction (bump cur last ms).1 p = firstAction ms p := by
  induction ms with
  | nil => intro cur last; simp [bump, firstAction]
  | cons m ms ih =>
    intro cur last
    rw [bump_cons]
    have := ih (nextPrio cur last m.action) (some m.action)
    unfold firstAction at *
    simp only [List.find?_cons, matches_prio]
    cases hm : m.matches p
    · simpa using this
    · simp

theorem good_snoc (l : List HRule) (e : HRule) (hg : good l) (hlt : ∀ r ∈ l, r.prio < e.prio) : good (l ++ [e]) := by
  induction l with
  | nil => simp [good]
  | cons a rest ih =>
    cases rest with
    | nil =>
      have := hlt a (by simp)
      exact ⟨by omega, fun _ => this, trivial⟩
    | cons b rest' =>
      obtain ⟨h1, h2, h3⟩ := hg
      exact ⟨h1, h2, ih h3 (fun r hr => hlt r (by simp [hr]))⟩

theorem firstAction_append (a b : List HRule) (p : Pkt) :
    firstAction (a ++ b) p = (firstAction a p).or (firstAction b p) := by
  unfold firstAction
  rw [List.find?_append]
  cases List.find? (fun x => x.matches p) a <;> simp

/-- The rule list built by GetPolicySetRules is good, and its first matching rule is the first
matching gathered member, else the end-of-tier rule. -/
theorem getPolicySetRules_spec (sets : List (Option (List HRule))) (inbound eotDrop : Bool) (p : Pkt) :
    good (getPolicySetRules sets inbound eotDrop) ∧
    firstAction (getPolicySetRules sets inbound eotDrop) p =
      some ((firstAction (gatherMembers inbound sets) p).getD (if eotDrop then .block else .pass)) := by
  unfold getPolicySetRules
  have hb := bump_bounds (gatherMembers inbound sets) policyRuleBasePriority none
  have hg := bump_good (gatherMembers inbound sets) policyRuleBasePriority none
  have hf := bump_firstAction (gatherMembers inbound sets) p policyRuleBasePriority none
  cases hbm : bump policyRuleBasePriority none (gatherMembers inbound sets) with
  | mk rs cur =>
    rw [hbm] at hb hg hf
    simp only at hb hg hf ⊢
    constructor
    · apply good_snoc _ _ hg
      intro r hr
      have := (hb.2 r hr).2
      show r.prio < (eotRule inbound eotDrop (cur + 1)).prio
      simp only [eotRule]
      omega
    · rw [firstAction_append, hf]
      have he : firstAction [eotRule inbound eotDrop (cur + 1)] p = some (if eotDrop then Action.block else Action.pass) := by
        simp [firstAction, eotRule, HRule.matches, addrsOK, portsOK]
      rw [he]
      cases firstAction (gatherMembers inbound sets) p <;> simp

end CalicoVerif.C30
