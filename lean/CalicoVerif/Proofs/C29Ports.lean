import CalicoVerif.Proofs.C29
/-! Helper lemmas for C29: SimplifyPorts and the protocol/port grouping of k8sRuleToCalico. -/
namespace CalicoVerif.C29

/-! ### SimplifyPorts -/

theorem mem_expandPorts (ps : List CPort) (d : Nat) :
    d ∈ expandPorts ps ↔ ∃ p ∈ ps, p.name = "" ∧ p.min ≤ d ∧ d ≤ p.max := by
  simp only [expandPorts, List.mem_flatMap]
  constructor
  · rintro ⟨p, hp, hd⟩
    by_cases hn : p.name = ""
    · simp only [hn, ne_eq, not_true_eq_false, if_false, List.mem_range'_1] at hd
      exact ⟨p, hp, hn, by omega, by omega⟩
    · simp [hn] at hd
  · rintro ⟨p, hp, hn, h1, h2⟩
    refine ⟨p, hp, ?_⟩
    simp only [hn, ne_eq, not_true_eq_false, if_false, List.mem_range'_1]
    omega

theorem cportMatches_numeric (f l : Nat) (conn : Conn) :
    cportMatches { min := f, max := l, name := "" } conn = (decide (f ≤ conn.dport) && decide (conn.dport ≤ l)) := by
  simp [cportMatches]

theorem coalesceGo_any (conn : Conn) (rest : List Nat) :
    ∀ (f l : Nat), f ≤ l → (∀ x ∈ rest, l ≤ x) → rest.Pairwise (· ≤ ·) →
      ((coalesceGo f l rest).any (fun p => cportMatches p conn) = true ↔
        ((f ≤ conn.dport ∧ conn.dport ≤ l) ∨ conn.dport ∈ rest)) := by
  induction rest with
  | nil =>
    intro f l _ _ _
    simp [coalesceGo, cportMatches_numeric]
  | cons n rest ih =>
    intro f l hfl hge hs
    have hln : l ≤ n := hge n (by simp)
    have hs' := List.pairwise_cons.1 hs
    by_cases hgap : n > l + 1
    · simp only [coalesceGo, hgap, if_true, List.any_cons, Bool.or_eq_true, cportMatches_numeric,
        Bool.and_eq_true, decide_eq_true_eq, List.mem_cons]
      rw [ih n n (Nat.le_refl n) hs'.1 hs'.2]
      constructor
      · rintro (h | h | h)
        · exact Or.inl h
        · exact Or.inr (Or.inl (by omega))
        · exact Or.inr (Or.inr h)
      · rintro (h | h | h)
        · exact Or.inl h
        · exact Or.inr (Or.inl (by omega))
        · exact Or.inr (Or.inr h)
    · simp only [coalesceGo, hgap, if_false, List.mem_cons]
      rw [ih f n (by omega) hs'.1 hs'.2]
      constructor
      · rintro (h | h)
        · by_cases hd : conn.dport = n
          · exact Or.inr (Or.inl hd)
          · exact Or.inl ⟨h.1, by omega⟩
        · exact Or.inr (Or.inr h)
      · rintro (h | h | h)
        · exact Or.inl ⟨h.1, by omega⟩
        · exact Or.inl ⟨by omega, by omega⟩
        · exact Or.inr h

theorem coalesce_any (conn : Conn) (l : List Nat) (hs : l.Pairwise (· ≤ ·)) :
    ((coalesce l).any (fun p => cportMatches p conn) = true ↔ conn.dport ∈ l) := by
  cases l with
  | nil => simp [coalesce]
  | cons n rest =>
    have hs' := List.pairwise_cons.1 hs
    simp only [coalesce]
    rw [coalesceGo_any conn rest n n (Nat.le_refl n) hs'.1 hs'.2]
    simp only [List.mem_cons]
    constructor
    · rintro (h | h)
      · exact Or.inl (by omega)
      · exact Or.inr h
    · rintro (h | h)
      · exact Or.inl (by omega)
      · exact Or.inr h

theorem sorted_mergeSort_nat (l : List Nat) :
    (l.mergeSort (fun a b => decide (a ≤ b))).Pairwise (· ≤ ·) := by
  have := List.pairwise_mergeSort (le := fun (a b : Nat) => decide (a ≤ b))
    (by intro a b c; simp only [decide_eq_true_eq]; omega)
    (by intro a b; simp only [Bool.or_eq_true, decide_eq_true_eq]; omega) l
  exact this.imp (by intro a b h; simpa using h)

theorem coalesce_ne_nil (l : List Nat) (h : l ≠ []) : coalesce l ≠ [] := by
  cases l with
  | nil => exact absurd rfl h
  | cons n rest =>
    simp only [coalesce]
    generalize n = f
    have : ∀ (rest : List Nat) (f l : Nat), coalesceGo f l rest ≠ [] := by
      intro rest
      induction rest with
      | nil => intro f l; simp [coalesceGo]
      | cons m rest ih =>
        intro f l
        simp only [coalesceGo]
        split
        · simp
        · exact ih f m
    exact this rest f f

/-- SimplifyPorts keeps exactly the same set of (numeric and named) destination ports. -/
theorem simplifyPorts_any (ps : List CPort) (conn : Conn) :
    (simplifyPorts ps).any (fun p => cportMatches p conn) = ps.any (fun p => cportMatches p conn) := by
  unfold simplifyPorts
  split
  · rfl
  · dsimp only
    split
    · rfl
    · rw [Bool.eq_iff_iff]
      simp only [List.any_append, Bool.or_eq_true]
      rw [coalesce_any conn _ (sorted_mergeSort_nat _), (List.mergeSort_perm _ _).mem_iff, mem_expandPorts]
      simp only [List.any_eq_true, namedPorts, List.mem_filter, decide_eq_true_eq]
      constructor
      · rintro (⟨p, ⟨hp, _⟩, hm⟩ | ⟨p, hp, hn, h1, h2⟩)
        · exact ⟨p, hp, hm⟩
        · exact ⟨p, hp, by simp [cportMatches, hn, h1, h2]⟩
      · rintro ⟨p, hp, hm⟩
        by_cases hn : p.name = ""
        · right
          simp only [cportMatches, hn, ne_eq, not_true_eq_false, if_false, Bool.and_eq_true,
            decide_eq_true_eq] at hm
          exact ⟨p, hp, hn, hm.1, hm.2⟩
        · left
          exact ⟨p, ⟨hp, hn⟩, hm⟩

theorem simplifyPorts_eq_nil (ps : List CPort) : simplifyPorts ps = [] ↔ ps = [] := by
  unfold simplifyPorts
  split
  · rfl
  · dsimp only
    split
    · rfl
    · rename_i h1 h2
      constructor
      · intro h
        exfalso
        simp only [List.append_eq_nil_iff] at h
        refine coalesce_ne_nil _ ?_ h.2
        intro hnil
        have := (List.mergeSort_perm (expandPorts ps) (fun a b => decide (a ≤ b))).length_eq
        rw [hnil] at this
        simp only [List.length_nil] at this
        omega
      · intro h; subst h; simp at h1


/-! ### one NetworkPolicyPort -/

def validProto (p : Option String) : Prop :=
  p = none ∨ p = some "TCP" ∨ p = some "UDP" ∨ p = some "SCTP"

/-- Kubernetes API validation of a NetworkPolicyPort (ValidateNetworkPolicyPort), slightly
generalised: any name that is not all digits and consists of `[A-Za-z0-9_.-]{1,128}` is accepted. -/
def KPort.valid (kp : KPort) : Prop :=
  validProto kp.proto ∧
  (match kp.port, kp.endPort with
   | none, e => e = none
   | some (.int n), none => 1 ≤ n ∧ n ≤ 65535
   | some (.int n), some e => 1 ≤ n ∧ n ≤ e ∧ e ≤ 65535
   | some (.str s), none => validPortName s = true ∧ allDigits s = false
   | some (.str _), some _ => False)

/-- The port half of `k8sPortMatches`. -/
def k8sPortPart (kp : KPort) (conn : Conn) : Bool :=
  match kp.port with
  | none => true
  | some (.int n) =>
    (match kp.endPort with
     | none => n == (conn.dport : Int)
     | some e => n ≤ (conn.dport : Int) && (conn.dport : Int) ≤ e)
  | some (.str s) => podHasPort conn.dst.ep s conn.proto conn.dport

theorem k8sPortMatches_eq (kp : KPort) (conn : Conn) :
    k8sPortMatches kp conn = ((protoNum (kp.proto.getD "TCP") == some conn.proto) && k8sPortPart kp conn) := by
  unfold k8sPortMatches k8sPortPart
  rfl

theorem dropWhile_cons_props {α : Type} (p : α → Bool) (l : List α) (c : α) (b : List α)
    (h : l.dropWhile p = c :: b) : p c = false ∧ c ∈ l := by
  induction l with
  | nil => simp at h
  | cons a rest ih =>
    simp only [List.dropWhile_cons] at h
    by_cases hp : p a = true
    · simp only [hp, if_true] at h
      have := ih h
      exact ⟨this.1, by simp [this.2]⟩
    · simp only [hp] at h
      simp only [Bool.false_eq_true, if_false, List.cons.injEq] at h
      obtain ⟨rfl, _⟩ := h
      exact ⟨by simpa using hp, by simp⟩

theorem splitRange_none_of_name (l : List Char) (hall : l.all nameChar = true) : splitRange l = none := by
  unfold splitRange
  dsimp only
  split
  · rename_i b hb
    have := dropWhile_cons_props _ _ _ _ hb
    have hc : nameChar ':' = true := List.all_eq_true.1 hall ':' this.2
    exact absurd hc (by decide)
  · rfl

theorem portFromString_name (s : String) (hv : validPortName s = true) (hd : allDigits s = false) :
    portFromString s = some { min := 0, max := 0, name := s } := by
  have hall : s.toList.all nameChar = true := by
    simp only [validPortName, Bool.and_eq_true] at hv
    exact hv.2
  simp [portFromString, hd, splitRange_none_of_name _ hall, namedPort, hv]

theorem name_ne_empty (s : String) (hv : validPortName s = true) : s ≠ "" := by
  intro h
  subst h
  simp [validPortName] at hv

theorem port_conv (kp : KPort) (hv : kp.valid) :
    ∃ cps, k8sPortToCalico kp = some cps ∧
      ∀ conn, ((cps = [] ∨ cps.any (fun p => cportMatches p conn) = true) ↔ k8sPortPart kp conn = true) := by
  obtain ⟨_, hp⟩ := hv
  rcases kp with ⟨proto, port, endPort⟩
  cases port with
  | none => exact ⟨[], by simp [k8sPortToCalico], by intro conn; simp [k8sPortPart]⟩
  | some pv =>
    cases pv with
    | int n =>
      cases endPort with
      | none =>
        simp only at hp
        have hn : ¬ n < 0 := by omega
        have hu : u16 n = some n.toNat := by simp [u16]; omega
        refine ⟨[{ min := n.toNat, max := n.toNat, name := "" }], by simp [k8sPortToCalico, hn, hu], ?_⟩
        intro conn
        simp only [List.cons_ne_nil, false_or, List.any_cons, List.any_nil, Bool.or_false,
          cportMatches_numeric, Bool.and_eq_true, decide_eq_true_eq, k8sPortPart, beq_iff_eq]
        omega
      | some e =>
        simp only at hp
        have hn : ¬ (n < 0 ∨ e < 0) := by omega
        have hu : u16 n = some n.toNat := by simp [u16]; omega
        have hue : u16 e = some e.toNat := by simp [u16]; omega
        have hle : ¬ n.toNat > e.toNat := by omega
        refine ⟨[{ min := n.toNat, max := e.toNat, name := "" }], by simp [k8sPortToCalico, hn, hu, hue, hle], ?_⟩
        intro conn
        simp only [List.cons_ne_nil, false_or, List.any_cons, List.any_nil, Bool.or_false,
          cportMatches_numeric, Bool.and_eq_true, decide_eq_true_eq, k8sPortPart]
        omega
    | str s =>
      cases endPort with
      | some e => simp at hp
      | none =>
        simp only at hp
        refine ⟨[{ min := 0, max := 0, name := s }], by simp [k8sPortToCalico, portFromString_name s hp.1 hp.2], ?_⟩
        intro conn
        have := name_ne_empty s hp.1
        simp [k8sPortPart, cportMatches, this]

/-! ### the protocolPorts map -/

def ppEntryMatches (e : String × List CPort) (conn : Conn) : Prop :=
  protoNum e.1 = some conn.proto ∧ (e.2 = [] ∨ e.2.any (fun p => cportMatches p conn) = true)

def ppMatches (m : List (String × List CPort)) (conn : Conn) : Prop := ∃ e ∈ m, ppEntryMatches e conn

def ppOK (m : List (String × List CPort)) : Prop := ∀ e ∈ m, e.1 = "TCP" ∨ e.1 = "UDP" ∨ e.1 = "SCTP"

theorem ppInsert_ne_nil (m : List (String × List CPort)) (p : String) (ports : List CPort) :
    ppInsert m p ports ≠ [] := by
  cases m with
  | nil => simp [ppInsert]
  | cons e rest =>
    rcases e with ⟨k, v⟩
    simp only [ppInsert]
    split
    · split
      · simp
      · split <;> simp
    · simp

theorem ppInsert_ok (m : List (String × List CPort)) (p : String) (ports : List CPort)
    (hm : ppOK m) (hp : p = "TCP" ∨ p = "UDP" ∨ p = "SCTP") : ppOK (ppInsert m p ports) := by
  induction m with
  | nil => intro e he; simp only [ppInsert, List.mem_singleton] at he; subst he; exact hp
  | cons e rest ih =>
    rcases e with ⟨k, v⟩
    have hk := hm (k, v) (by simp)
    have hrest : ppOK rest := fun x hx => hm x (by simp [hx])
    simp only [ppInsert]
    split
    · split
      · intro x hx
        simp only [List.mem_cons] at hx
        rcases hx with rfl | hx
        · exact hk
        · exact hrest x hx
      · split
        · exact hm
        · intro x hx
          simp only [List.mem_cons] at hx
          rcases hx with rfl | hx
          · exact hk
          · exact hrest x hx
    · intro x hx
      simp only [List.mem_cons] at hx
      rcases hx with rfl | hx
      · exact hk
      · exact ih hrest x hx

theorem ppInsert_matches (m : List (String × List CPort)) (p : String) (ports : List CPort) (conn : Conn) :
    ppMatches (ppInsert m p ports) conn ↔ ppMatches m conn ∨ ppEntryMatches (p, ports) conn := by
  induction m with
  | nil => simp [ppInsert, ppMatches]
  | cons e rest ih =>
    rcases e with ⟨k, v⟩
    have hcons : ∀ (x : String × List CPort) (l : List (String × List CPort)),
        ppMatches (x :: l) conn ↔ ppEntryMatches x conn ∨ ppMatches l conn := by
      intro x l; simp [ppMatches]
    simp only [ppInsert]
    split
    · rename_i hkp
      subst hkp
      split
      · rename_i hemp
        have hports : ports = [] := by simpa using hemp
        subst hports
        rw [hcons, hcons]
        simp only [ppEntryMatches, true_or, and_true]
        constructor
        · rintro (h | h)
          · exact Or.inr h
          · exact Or.inl (Or.inr h)
        · rintro ((h | h) | h)
          · exact Or.inl h.1
          · exact Or.inr h
          · exact Or.inl h
      · rename_i hne
        have hports : ports ≠ [] := by simpa using hne
        split
        · rename_i hv
          have hv' : v = [] := by simpa using hv
          subst hv'
          rw [hcons]
          simp only [ppEntryMatches, true_or, and_true]
          constructor
          · intro h; exact Or.inl h
          · rintro (h | h)
            · exact h
            · exact Or.inl h.1
        · rename_i hv
          have hv' : v ≠ [] := by simpa using hv
          rw [hcons, hcons]
          have happ : v ++ ports ≠ [] := by simp [hv']
          simp only [ppEntryMatches, hv', hports, happ, false_or, List.any_append, Bool.or_eq_true]
          constructor
          · rintro (⟨h1, h2 | h2⟩ | h)
            · exact Or.inl (Or.inl ⟨h1, h2⟩)
            · exact Or.inr ⟨h1, h2⟩
            · exact Or.inl (Or.inr h)
          · rintro ((⟨h1, h2⟩ | h) | ⟨h1, h2⟩)
            · exact Or.inl ⟨h1, Or.inl h2⟩
            · exact Or.inr h
            · exact Or.inl ⟨h1, Or.inr h2⟩
    · rw [hcons, hcons, ih]
      constructor
      · rintro (h | h | h)
        · exact Or.inl (Or.inl h)
        · exact Or.inl (Or.inr h)
        · exact Or.inr h
      · rintro ((h | h) | h)
        · exact Or.inl h
        · exact Or.inr (Or.inl h)
        · exact Or.inr (Or.inr h)

theorem validProto_cases (p : Option String) (h : validProto p) :
    protocolFromString (p.getD "TCP") = p.getD "TCP" ∧
      (p.getD "TCP" = "TCP" ∨ p.getD "TCP" = "UDP" ∨ p.getD "TCP" = "SCTP") := by
  rcases h with rfl | rfl | rfl | rfl <;> exact ⟨by decide, by decide⟩

def bppStep (acc : Option (List (String × List CPort))) (p : KPort) : Option (List (String × List CPort)) :=
  match acc with
  | none => none
  | some m =>
    match k8sPortToCalico p with
    | none => none
    | some cps => some (ppInsert m (protocolFromString (p.proto.getD "TCP")) cps)

theorem buildProtocolPorts_eq (ports : List KPort) :
    buildProtocolPorts ports = ports.foldl bppStep (some []) := rfl

theorem bpp_fold (ports : List KPort) (hv : ∀ kp ∈ ports, kp.valid) :
    ∀ m, ppOK m → ∃ m', ports.foldl bppStep (some m) = some m' ∧ ppOK m' ∧
      (ports ≠ [] → m' ≠ []) ∧
      ∀ conn, (ppMatches m' conn ↔ ppMatches m conn ∨ ∃ kp ∈ ports, k8sPortMatches kp conn = true) := by
  induction ports with
  | nil => intro m hm; exact ⟨m, rfl, hm, by simp, by simp⟩
  | cons kp rest ih =>
    intro m hm
    have hkv := hv kp (by simp)
    obtain ⟨cps, hcps, hsem⟩ := port_conv kp hkv
    obtain ⟨hpf, hpv⟩ := validProto_cases kp.proto hkv.1
    have hm1 : ppOK (ppInsert m (kp.proto.getD "TCP") cps) := ppInsert_ok m _ cps hm hpv
    obtain ⟨m', hf, hok, _, hsem'⟩ := ih (fun x hx => hv x (by simp [hx])) _ hm1
    refine ⟨m', ?_, hok, ?_, ?_⟩
    · simp only [List.foldl_cons, bppStep, hcps, hpf]
      exact hf
    · intro _
      cases rest with
      | nil =>
        simp only [List.foldl_nil, Option.some.injEq] at hf
        rw [← hf]; exact ppInsert_ne_nil _ _ _
      | cons a b => exact (by assumption : _ → m' ≠ []) (by simp)
    · intro conn
      rw [hsem' conn, ppInsert_matches]
      have : ppEntryMatches (kp.proto.getD "TCP", cps) conn ↔ k8sPortMatches kp conn = true := by
        simp only [ppEntryMatches, k8sPortMatches_eq, Bool.and_eq_true, beq_iff_eq, hsem conn]
      rw [this]
      simp only [List.mem_cons, exists_eq_or_imp]
      constructor
      · rintro ((h | h) | h)
        · exact Or.inl h
        · exact Or.inr (Or.inl h)
        · exact Or.inr (Or.inr h)
      · rintro (h | h | h)
        · exact Or.inl (Or.inl h)
        · exact Or.inl (Or.inr h)
        · exact Or.inr h

end CalicoVerif.C29
