import CalicoVerif.Proofs.C16f
namespace CalicoVerif.C16

/-! ### What `writeUpdates` writes -/

theorem nextFreeTemp_name (c : Cfg) : ∀ (fuel : Nat) (F : Felix),
    ∃ k, (Felix.nextFreeTemp c F fuel).2 = c.tempName k := by
  intro fuel
  induction fuel with
  | zero => intro F; exact ⟨F.nextTemp, rfl⟩
  | succ fuel ih =>
    intro F
    unfold Felix.nextFreeTemp
    dsimp only
    split
    · exact ih _
    · exact ⟨F.nextTemp, rfl⟩

theorem createLine_names (t : String) (m : Meta) : (createLine t m).names = [t] := by
  unfold createLine; split <;> rfl

/-- Shape of the lines written for one set.  Either (in place) every line targets the set
itself, only desired members are added and only undesired ones deleted; or (metadata change)
the lines are `create tmp; add tmp ..; swap name tmp` for a temporary set name `tmp`, so that
nothing before the final swap mentions the set itself. -/
theorem writeUpdates_shape {c : Cfg} {ord : List String → List String}
    (hord : ∀ l x, x ∈ ord l → x ∈ l) {F F' : Felix} {n : String} {ls : List Line}
    (h : F.writeUpdates c ord n = some (F', ls)) :
    (∃ t, F.members.get n = some t ∧
      ((∀ l ∈ ls, (l.names = [n]) ∧ (∀ m, l = Line.add n m → m ∈ t.des) ∧ (∀ m, l = Line.del n m → m ∉ t.des)) ∨
       (∃ k body, ls = body ++ [Line.swap n (c.tempName k)] ∧ ∀ l ∈ body, l.names = [c.tempName k]))) := by
  unfold Felix.writeUpdates at h
  split at h
  · rename_i dm t hdm ht
    refine ⟨t, ht, ?_⟩
    dsimp only at h
    split at h
    · -- temp path
      right
      simp only [Option.some.injEq, Prod.mk.injEq] at h
      obtain ⟨k, hk⟩ := nextFreeTemp_name c (F.dp.length + 1) F
      rw [hk] at h
      refine ⟨k, _, h.2.symm, ?_⟩
      intro l hl
      simp only [List.mem_append, List.mem_singleton, List.mem_map] at hl
      rcases hl with rfl | ⟨m, _, rfl⟩
      · exact createLine_names _ _
      · rfl
    · -- in-place path
      left
      simp only [Option.some.injEq, Prod.mk.injEq] at h
      intro l hl
      rw [← h.2] at hl
      simp only [List.mem_append, List.mem_map] at hl
      rcases hl with (hl | ⟨m, hm, rfl⟩) | ⟨m, hm, rfl⟩
      · split at hl
        · simp only [List.mem_singleton] at hl; subst hl
          refine ⟨createLine_names _ _, ?_, ?_⟩ <;> (intro m hm; unfold createLine at hm; split at hm <;> simp at hm)
        · simp at hl
      · refine ⟨rfl, by intro m' hm'; simp at hm', ?_⟩
        intro m' hm'
        simp only [Line.del.injEq, true_and] at hm'; subst hm'
        have := hord _ _ hm
        unfold MT.pendingDel at this
        rw [List.mem_eraseDups] at this
        simpa using (List.mem_filter.1 this).2
      · refine ⟨rfl, ?_, by intro m' hm'; simp at hm'⟩
        intro m' hm'
        simp only [Line.add.injEq, true_and] at hm'; subst hm'
        have := hord _ _ hm
        unfold MT.pendingAdd at this
        rw [List.mem_eraseDups] at this
        exact (List.mem_filter.1 this).1
  · simp at h

end CalicoVerif.C16
