import CalicoVerif.Proofs.C24
/-!
C24 — cache side: within one loop iteration only the LAST crumb minted may carry a changed status, and that
crumb's snapshot has every update consumed in the iteration applied ("status never precedes its updates").
-/
namespace CalicoVerif.C24

/-- key ↦ value (revisions ignored: a skipped no-op keeps the older revision). -/
abbrev VView := Nat → Option Nat

def vmap (kvs : List SU) : VView := fun k => (kvsGet kvs k).bind (·.val)

/-- The datastore applying one update, value-wise. -/
def vapply (m : VView) (u : SU) : VView := fun k => if u.key = k then u.val else m k

def vfold (m : VView) (us : List SU) : VView := us.foldl vapply m

theorem vfold_append (m : VView) (a b : List SU) : vfold m (a ++ b) = vfold (vfold m a) b := by
  simp [vfold, List.foldl_append]

theorem vmap_of_asMap (a b : List SU) (h : asMap a = asMap b) : vmap a = vmap b := by
  funext k
  have := congrFun h k
  simp only [asMap, vmap] at this ⊢
  cases ha : kvsGet a k with
  | none =>
    cases hb : kvsGet b k with
    | none => rfl
    | some y =>
      rw [ha, hb] at this
      simp only [Option.bind_none, Option.bind_some, SU.entry] at this
      cases hy : y.val with
      | none => simp [hy]
      | some v => simp [hy] at this
  | some x =>
    cases hb : kvsGet b k with
    | none =>
      rw [ha, hb] at this
      simp only [Option.bind_none, Option.bind_some, SU.entry] at this
      cases hx : x.val with
      | none => simp [hx]
      | some v => simp [hx] at this
    | some y =>
      rw [ha, hb] at this
      simp only [Option.bind_some, SU.entry] at this ⊢
      cases hx : x.val with
      | none =>
        cases hy : y.val with
        | none => rfl
        | some v => simp [hx, hy] at this
      | some v =>
        cases hy : y.val with
        | none => simp [hx, hy] at this
        | some w =>
          simp only [hx, hy, Option.map_some, Option.some.injEq, Prod.mk.injEq] at this
          rw [this.1]

/-- One update of `publishBreadcrumb`, value-wise: the tree follows the datastore (a skipped no-op changes
nothing because the value is already there). -/
theorem applyOne_vmap (st : List SU × List SU) (u : SU) (hs : Sorted st.1) :
    vmap (applyOne st u).1 = vapply (vmap st.1) u := by
  funext k
  unfold applyOne
  cases hv : u.val with
  | none =>
    simp only [vmap, vapply]
    by_cases hk : u.key = k
    · subst hk; simp [kvsGet_delete_self st.1 u.key hs, hv]
    · have : k ≠ u.key := fun e => hk e.symm
      simp [hk, kvsGet_delete_ne st.1 u.key k this]
  | some v =>
    simp only
    cases hg : kvsGet st.1 u.key with
    | none =>
      simp only [vmap, vapply, kvsGet_insert]
      by_cases hk : u.key = k <;> simp [hk, hv]
    | some old =>
      simp only
      by_cases hn : wouldBeNoOp u old = true
      · simp only [hn, if_true, vmap, vapply]
        by_cases hk : u.key = k
        · subst hk
          simp only [wouldBeNoOp, Bool.and_eq_true, beq_iff_eq] at hn
          simp [hg, ← hn.1, hv]
        · simp [hk]
      · simp only [hn, vmap, vapply, Bool.false_eq_true, if_false]
        rw [kvsGet_insert]
        by_cases hk : u.key = k <;> simp [hk, hv]

theorem foldl_applyOne_vmap (us : List SU) (st : List SU × List SU) (hs : Sorted st.1) :
    vmap (us.foldl applyOne st).1 = vfold (vmap st.1) us := by
  induction us generalizing st with
  | nil => rfl
  | cons u us ih =>
    simp only [List.foldl_cons, vfold]
    rw [ih _ (applyOne_spec st u hs).1, applyOne_vmap st u hs]
    rfl

/-- What one `publishBreadcrumb` does to the observables of this file. -/
structure PubOK (c c' : Cache) : Prop where
  /-- the tree advanced by exactly the chunk taken off `pendingUpdates` -/
  vals : vfold (vmap c'.kvs) c'.pendingUpdates = vfold (vmap c.kvs) c.pendingUpdates
  shorter : c.pendingUpdates ≠ [] → 0 < c.maxBatch → c'.pendingUpdates.length < c.pendingUpdates.length
  nil : c.pendingUpdates = [] → c'.pendingUpdates = []
  /-- crumbs pushed behind the current one are old ones or the previous current one -/
  older : ∀ x ∈ c'.older, x ∈ c.older ∨ x = c.cur
  /-- a changed status is only given when nothing of the batch is left pending -/
  status : c'.cur.status ≠ c.cur.status → c'.pendingUpdates = [] ∧ c'.cur.status = c.pendingStatus
  /-- with nothing left pending the current crumb carries the pending status -/
  final : c'.pendingUpdates = [] → c.pendingUpdates.length ≤ c.maxBatch → c'.cur.status = c.pendingStatus
  same : c'.maxBatch = c.maxBatch ∧ c'.pendingStatus = c.pendingStatus ∧ c'.inputQ = c.inputQ

theorem publishBreadcrumb_pub {c : Cache} (h : CacheInv c) (ts : Nat) : PubOK c (publishBreadcrumb c ts) := by
  unfold publishBreadcrumb
  simp only
  by_cases hbig : c.pendingUpdates.length > c.maxBatch
  · -- a full chunk, more to come: status untouched
    simp only [hbig, decide_true, Bool.not_true, Bool.false_and, Bool.false_or, if_true, if_false,
      Bool.false_eq_true]
    have hv := foldl_applyOne_vmap (c.pendingUpdates.take c.maxBatch) (c.kvs, []) h.sorted
    have hsplit : c.pendingUpdates = c.pendingUpdates.take c.maxBatch ++ c.pendingUpdates.drop c.maxBatch :=
      (List.take_append_drop _ _).symm
    split
    · refine ⟨?_, ?_, ?_, ?_, ?_, ?_, ⟨rfl, rfl, rfl⟩⟩
      · show vfold (vmap _) (c.pendingUpdates.drop c.maxBatch) = _
        rw [hv]; conv => rhs; rw [hsplit, vfold_append]
      · intro _ hm; show (c.pendingUpdates.drop c.maxBatch).length < _; rw [List.length_drop]; omega
      · intro hn; rw [hn] at hbig; simp at hbig
      · intro x hx
        simp only [List.mem_append, List.mem_singleton] at hx
        exact hx
      · intro hne; exact absurd rfl hne
      · intro _ hle; omega
    · refine ⟨?_, ?_, ?_, ?_, ?_, ?_, ⟨rfl, rfl, rfl⟩⟩
      · show vfold (vmap _) (c.pendingUpdates.drop c.maxBatch) = _
        rw [hv]; conv => rhs; rw [hsplit, vfold_append]
      · intro _ hm; show (c.pendingUpdates.drop c.maxBatch).length < _; rw [List.length_drop]; omega
      · intro hn; rw [hn] at hbig; simp at hbig
      · intro x hx; exact Or.inl hx
      · intro hne; exact absurd rfl hne
      · intro _ hle; omega
  · -- the last chunk
    simp only [hbig, decide_false, Bool.not_false, Bool.true_and, if_false, Bool.false_eq_true]
    have hv := foldl_applyOne_vmap c.pendingUpdates (c.kvs, []) h.sorted
    split
    · rename_i hmint
      refine ⟨?_, ?_, ?_, ?_, ?_, ?_, ⟨rfl, rfl, rfl⟩⟩
      · show vfold (vmap _) [] = _
        rw [hv]; rfl
      · intro hne _
        show ([] : List SU).length < _
        cases hp : c.pendingUpdates with
        | nil => exact absurd hp hne
        | cons _ _ => simp
      · intro _; rfl
      · intro x hx
        simp only [List.mem_append, List.mem_singleton] at hx
        exact hx
      · intro hne
        refine ⟨rfl, ?_⟩
        show (if (c.pendingStatus != c.cur.status) = true then c.pendingStatus else c.cur.status) = c.pendingStatus
        split
        · rfl
        · rename_i he; simp only [bne_iff_ne, ne_eq, Decidable.not_not] at he; exact he.symm
      · intro _ _
        show (if (c.pendingStatus != c.cur.status) = true then c.pendingStatus else c.cur.status) = c.pendingStatus
        split
        · rfl
        · rename_i he; simp only [bne_iff_ne, ne_eq, Decidable.not_not] at he; exact he.symm
    · rename_i hmint
      have hst : c.pendingStatus = c.cur.status := by
        simp only [Bool.or_eq_true, not_or, bne_iff_ne, ne_eq, Decidable.not_not] at hmint
        exact hmint.1
      refine ⟨?_, ?_, ?_, ?_, ?_, ?_, ⟨rfl, rfl, rfl⟩⟩
      · show vfold (vmap _) [] = _
        rw [hv]; rfl
      · intro hne _
        show ([] : List SU).length < _
        cases hp : c.pendingUpdates with
        | nil => exact absurd hp hne
        | cons _ _ => simp
      · intro _; rfl
      · intro x hx; exact Or.inl hx
      · intro hne; exact absurd rfl hne
      · intro _ _; exact hst.symm

/-- Invariant of the draining loop relative to the state `b` at the start of `publishBreadcrumbs`. -/
structure DrainInv (b c : Cache) : Prop where
  inv : CacheInv c
  vals : vfold (vmap c.kvs) c.pendingUpdates = vfold (vmap b.kvs) b.pendingUpdates
  older : ∀ x ∈ c.older, x ∈ b.older ∨ x.status = b.cur.status
  status : c.cur.status ≠ b.cur.status → c.pendingUpdates = [] ∧ c.cur.status = b.pendingStatus
  same : c.maxBatch = b.maxBatch ∧ c.pendingStatus = b.pendingStatus ∧ c.inputQ = b.inputQ

theorem DrainInv.step {b c : Cache} (h : DrainInv b c) (ts : Nat) (hcur : c.cur.status = b.cur.status) :
    DrainInv b (publishBreadcrumb c ts) := by
  have p := publishBreadcrumb_pub h.inv ts
  refine ⟨h.inv.publishBreadcrumb ts, p.vals.trans h.vals, ?_, ?_, ?_⟩
  · intro x hx
    rcases p.older x hx with h1 | h1
    · exact h.older x h1
    · right; rw [h1]; exact hcur
  · intro hne
    have := p.status (by rw [hcur]; exact hne)
    exact ⟨this.1, by rw [this.2, h.same.2.1]⟩
  · exact ⟨p.same.1.trans h.same.1, p.same.2.1.trans h.same.2.1, p.same.2.2.trans h.same.2.2⟩

theorem DrainInv.rest {b : Cache} (hmb : 0 < b.maxBatch) :
    ∀ (fuel : Nat) (c : Cache) (ts : Nat), DrainInv b c → c.pendingUpdates.length ≤ fuel →
      DrainInv b (publishRest c ts fuel) ∧ (publishRest c ts fuel).pendingUpdates = [] := by
  intro fuel
  induction fuel with
  | zero =>
    intro c ts h hl
    exact ⟨h, List.length_eq_zero_iff.mp (by simp only [publishRest]; omega)⟩
  | succ n ih =>
    intro c ts h hl
    unfold publishRest
    split
    · rename_i he
      exact ⟨h, by simpa using he⟩
    · rename_i he
      have hne : c.pendingUpdates ≠ [] := by simpa using he
      have hcur : c.cur.status = b.cur.status := by
        by_cases e : c.cur.status = b.cur.status
        · exact e
        · exact absurd (h.status e).1 hne
      have p := publishBreadcrumb_pub h.inv ts
      exact ih _ _ (h.step ts hcur) (by
        have := p.shorter hne (by rw [h.same.1]; exact hmb)
        omega)

/-- **Status never precedes its updates** (cache side).  Let `b` be the cache right after
`fillBatchFromInputQueue` (so `b.pendingUpdates` are the updates consumed in this iteration and
`b.pendingStatus` the last status consumed).  After `publishBreadcrumbs`:
  * nothing is left pending and the tree (value-wise) is the old tree with ALL consumed updates applied;
  * every crumb now behind the current one is an old crumb or still carries the OLD status;
  * hence a changed status can only sit on the current (last) crumb, whose snapshot has every consumed update. -/
theorem publishBreadcrumbs_status {b : Cache} (h : CacheInv b) (hmb : 0 < b.maxBatch) (ts : Nat) :
    let c' := publishBreadcrumbs b ts
    c'.pendingUpdates = [] ∧
    vmap c'.cur.kvs = vfold (vmap b.kvs) b.pendingUpdates ∧
    (∀ x ∈ c'.older, x ∈ b.older ∨ x.status = b.cur.status) ∧
    (c'.cur.status ≠ b.cur.status → c'.cur.status = b.pendingStatus) := by
  intro c'
  have h0 : DrainInv b b := ⟨h, rfl, fun x hx => Or.inl hx, fun hne => absurd rfl hne, ⟨rfl, rfl, rfl⟩⟩
  have h1 := h0.step ts rfl
  have hr := DrainInv.rest hmb (publishBreadcrumb b ts).pendingUpdates.length (publishBreadcrumb b ts)
    (if (publishBreadcrumb b ts).cur.seq = b.cur.seq then ts else ts + 1) h1 (Nat.le_refl _)
  have hc' : c' = publishRest (publishBreadcrumb b ts)
      (if (publishBreadcrumb b ts).cur.seq = b.cur.seq then ts else ts + 1)
      (publishBreadcrumb b ts).pendingUpdates.length := rfl
  rw [hc']
  obtain ⟨d, hnil⟩ := hr
  refine ⟨hnil, ?_, d.older, fun hne => (d.status hne).2⟩
  have := d.vals
  rw [hnil] at this
  rw [← vmap_of_asMap _ _ d.inv.cur_view]
  exact this

end CalicoVerif.C24
