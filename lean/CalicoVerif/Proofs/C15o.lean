import CalicoVerif.Proofs.C15n
set_option linter.unusedSimpArgs false
namespace CalicoVerif.C15

theorem load_desired (t : T) (K : Kernel) (x : String) : (t.load K).desiredChain x = t.desiredChain x := by
  obtain ⟨t2, hrel, hload, _⟩ := load_desc t K
  rw [hload]
  simp only [T.desiredChain, T.refd, hrel.refc, hrel.chains]
  rfl

theorem load_ours (t : T) (K : Kernel) (x : String) : (t.load K).ours x = t.ours x := by
  obtain ⟨t2, hrel, hload, _⟩ := load_desc t K
  rw [hload]
  show t2.ours x = t.ours x
  exact hrel.ours x

/-- `loadDataplaneState` preserves the invariant: a Felix chain that the scan leaves clean has, in the table
just read, exactly the hashes Felix wants (or is absent when it is not wanted). -/
theorem TInv.load {t : T} (h : TInv t) (K : Kernel) : TInv (t.load K) := by
  obtain ⟨t2, hrel, hload, ht2⟩ := load_desc t K
  have hdirty : (t.load K).dirty = t2.dirty := by rw [hload]
  have hdirtyIA : (t.load K).dirtyIA = t2.dirtyIA := by rw [hload]
  have hview : (t.load K).dpHashes = readHashes K := by rw [hload]
  refine ⟨?_, by rw [hdirty]; exact hrel.nodup h.nodup, ?_⟩
  · intro c hours hcd
    rw [load_ours] at hours
    rw [load_desired, hview]
    rw [hdirty] at hcd
    have hcd0 : c ∉ t.dirty := fun h' => hcd (hrel.mono c h')
    have hc := h.cache c hours hcd0
    have hIA := h.iaForeign
    generalize ht1 : (sortS t.dpHashes.keys.eraseDups).foldl (T.knownStep (readHashes K)) t = t1 at ht2
    have hrel1 : ScanRel t t1 := by rw [← ht1]; exact fold_rel _ (knownStep_rel _) _ t
    have hrel12 : ScanRel t1 t2 := by rw [ht2]; exact fold_rel _ (unknownStep_rel _) _ t1
    have hcd1 : c ∉ t1.dirty := fun h' => hcd (hrel12.mono c h')
    by_cases hh : t.dpHashes.has c = true
    · have hmemL : c ∈ sortS t.dpHashes.keys.eraseDups := by
        rw [mem_sortS, List.mem_eraseDups]; exact (has_keys _ _).1 hh
      have hk := known_fold_clean (readHashes K) c _ t hours hmemL (by rw [ht1]; exact hcd1) (hIA c hours)
      rw [hc] at hk
      cases hd : t.desiredChain c with
      | none => rw [hd] at hc; simp [Map.has, hc] at hh
      | some ch =>
        rw [hd] at hk
        simpa using hk
    · have hnone : t.dpHashes.get c = none := by
        simp only [Map.has] at hh
        cases hg : t.dpHashes.get c with
        | none => rfl
        | some v => simp [hg] at hh
      rw [hnone] at hc
      cases hd : t.desiredChain c with
      | some ch => rw [hd] at hc; simp at hc
      | none =>
        simp only [Option.map_none]
        cases hkc : (readHashes K).get c with
        | none => rfl
        | some rs =>
          exfalso
          have hmemL : c ∈ sortS (readHashes K).keys.eraseDups := by
            rw [mem_sortS, List.mem_eraseDups]
            apply (has_keys _ _).1
            simp [Map.has, hkc]
          have := unknown_fold_clean (readHashes K) c _ t1 (by rw [hrel1.ours]; exact hours) hmemL
            (by rw [← ht2]; exact hcd) (fun h' => hIA c hours ((hrel1.iaOurs c hours).1 h'))
          rw [hrel1.dpHashes] at this
          exact hh this
  · intro c hours hm
    rw [load_ours] at hours
    rw [hdirtyIA] at hm
    exact h.iaForeign c hours ((hrel.iaOurs c hours).1 hm)

/-! ### The cache update of a successful `applyUpdates` -/

def commitStep (m : Map (List String)) (p : String × Option (List String)) : Map (List String) :=
  match p.2 with | some h => m.set p.1 h | none => m.erase p.1

theorem commit_dp (t : T) (newH : Map (Option (List String))) (newFull : Map (List FR)) :
    (t.commit newH newFull).dpHashes = newH.foldl commitStep t.dpHashes := rfl

theorem commitFold_other (c : String) : ∀ (L : Map (Option (List String))) (m : Map (List String)),
    (∀ p ∈ L, p.1 ≠ c) → (L.foldl commitStep m).get c = m.get c := by
  intro L
  induction L with
  | nil => intro m _; rfl
  | cons p L ih =>
    intro m h
    simp only [List.foldl]
    rw [ih _ (fun q hq => h q (List.mem_cons_of_mem _ hq))]
    have hp : p.1 ≠ c := h p List.mem_cons_self
    unfold commitStep
    split
    · rw [Map.get_set]; simp [Ne.symm hp]
    · rw [Map.get_erase]; simp [Ne.symm hp]

theorem commitFold_all (c : String) (v : Option (List String)) : ∀ (L : Map (Option (List String))) (m : Map (List String)),
    (∀ p ∈ L, p.1 = c → p.2 = v) → (∃ p ∈ L, p.1 = c) → (L.foldl commitStep m).get c = v := by
  intro L
  induction L with
  | nil => intro m _ h; obtain ⟨p, hp, _⟩ := h; simp at hp
  | cons p L ih =>
    intro m hall hex
    simp only [List.foldl]
    by_cases hL : ∃ q ∈ L, q.1 = c
    · exact ih _ (fun q hq => hall q (List.mem_cons_of_mem _ hq)) hL
    · have hpc : p.1 = c := by
        obtain ⟨q, hq, hqc⟩ := hex
        rcases List.mem_cons.1 hq with rfl | hq
        · exact hqc
        · exact absurd ⟨q, hq, hqc⟩ hL
      rw [commitFold_other c L _ (fun q hq hqc => hL ⟨q, hq, hqc⟩)]
      have hv := hall p List.mem_cons_self hpc
      unfold commitStep
      rw [hv]
      cases v with
      | none => dsimp only; rw [Map.get_erase]; simp [hpc]
      | some h => dsimp only; rw [Map.get_set]; simp [hpc]

end CalicoVerif.C15
