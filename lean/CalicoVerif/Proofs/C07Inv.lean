import CalicoVerif.Proofs.C07Events
/-! C07 helper lemmas: the match set equals direct evaluation after every operation. -/
namespace CalicoVerif.C07
open CalicoVerif.C06

/-! ### association lists -/

def KeysNodup {α β} (l : List (α × β)) : Prop := (l.map (·.1)).Nodup

section assoc
variable {α β : Type} [DecidableEq α]

theorem lookup_erase (k k' : α) (l : List (α × β)) :
    lookup k (erase k' l) = if k = k' then none else lookup k l := by
  induction l with
  | nil => simp [erase, lookup]
  | cons kv rest ih =>
    obtain ⟨a, b⟩ := kv
    unfold erase at ih ⊢
    by_cases h : a = k'
    · subst h
      simp only [List.filter_cons, ne_eq, not_true_eq_false, decide_false, Bool.false_eq_true, if_false, ih, lookup]
      by_cases hk : k = a
      · simp [hk]
      · have : ¬ a = k := fun e => hk e.symm
        simp [hk, this]
    · simp only [List.filter_cons, ne_eq, h, not_false_eq_true, decide_true, if_true, lookup, ih]
      by_cases hk : k = k'
      · have : ¬ a = k := fun e => h (e.trans hk)
        subst hk
        simp [this]
      · simp [hk]

theorem lookup_insert (k k' : α) (v : β) (l : List (α × β)) :
    lookup k (insert k' v l) = if k' = k then some v else lookup k l := by
  unfold insert
  rw [lookup, lookup_erase]
  by_cases h : k' = k
  · simp [h]
  · have : ¬ k = k' := fun e => h e.symm
    simp [h, this]

theorem keys_erase_sub (k' : α) (l : List (α × β)) : ∀ a ∈ (erase k' l).map (·.1), a ∈ l.map (·.1) ∧ a ≠ k' := by
  intro a ha
  simp only [erase, List.mem_map, List.mem_filter] at ha
  obtain ⟨kv, ⟨hm, hne⟩, rfl⟩ := ha
  exact ⟨List.mem_map.mpr ⟨kv, hm, rfl⟩, by simpa using hne⟩

theorem keysNodup_erase (k' : α) {l : List (α × β)} (h : KeysNodup l) : KeysNodup (erase k' l) := by
  unfold KeysNodup erase at *
  induction l with
  | nil => simp
  | cons kv rest ih =>
    simp only [List.map_cons, List.nodup_cons] at h
    simp only [List.filter_cons]
    split
    · simp only [List.map_cons, List.nodup_cons]
      refine ⟨fun hm => h.1 ?_, ih h.2⟩
      exact (keys_erase_sub k' rest _ hm).1
    · exact ih h.2

theorem keysNodup_insert (k' : α) (v : β) {l : List (α × β)} (h : KeysNodup l) : KeysNodup (insert k' v l) := by
  unfold KeysNodup insert
  simp only [List.map_cons, List.nodup_cons]
  exact ⟨fun hm => (keys_erase_sub k' l _ hm).2 rfl, keysNodup_erase k' h⟩

theorem lookup_none_of_not_mem {k : α} : ∀ {l : List (α × β)}, k ∉ l.map (·.1) → lookup k l = none
  | [], _ => rfl
  | (a, b) :: rest, h => by
    simp only [List.map_cons, List.mem_cons, not_or] at h
    have : ¬ a = k := fun e => h.1 e.symm
    simp [lookup, this, lookup_none_of_not_mem h.2]

theorem lookup_filter_of_keysNodup (p : α × β → Bool) (k : α) : ∀ {l : List (α × β)}, KeysNodup l →
    lookup k (l.filter p) = match lookup k l with
      | some v => if p (k, v) then some v else none
      | none => none
  | [], _ => rfl
  | (a, b) :: rest, h => by
    unfold KeysNodup at h
    simp only [List.map_cons, List.nodup_cons] at h
    have ih := lookup_filter_of_keysNodup p k (l := rest) h.2
    simp only [List.filter_cons]
    by_cases hak : a = k
    · subst hak
      have hn : lookup a rest = none := lookup_none_of_not_mem h.1
      by_cases hp : p (a, b) = true
      · simp [hp, lookup]
      · simp [hp, ih, hn, lookup]
    · by_cases hp : p (a, b) = true
      · simp [hp, lookup, hak, ih]
      · simp [hp, lookup, hak, ih]

end assoc

/-! ### effective labels only depend on the parents map -/

theorem firstParent_congr {st1 st2 : Idx} (k : Str) : ∀ (ps : List Str),
    (∀ p ∈ ps, lookup p st1.parents = lookup p st2.parents) → firstParent st1 k ps = firstParent st2 k ps
  | [], _ => rfl
  | p :: ps, h => by
    simp only [firstParent, parentLabels, h p (List.mem_cons_self ..)]
    rw [firstParent_congr k ps (fun q hq => h q (List.mem_cons_of_mem _ hq))]

theorem effLabels_congr {st1 st2 : Idx} (it : Item)
    (h : ∀ p ∈ it.parents, lookup p st1.parents = lookup p st2.parents) : effLabels st1 it = effLabels st2 it := by
  funext k
  simp only [effLabels, firstParent_congr k it.parents h]

/-! ### membership after the scans -/

theorem mem_storeMatch (ms : MS) (s i : Nat) (q : Nat × Nat) :
    q ∈ (storeMatch ms s i).1 ↔ q = (s, i) ∨ q ∈ ms := by
  unfold storeMatch
  by_cases h : hasMatch ms s i = true
  · simp only [h, if_true]
    constructor
    · exact Or.inr
    · rintro (rfl | h')
      · exact (hasMatch_iff ..).mp h
      · exact h'
  · simp [h]

theorem mem_deleteMatch (ms : MS) (s i : Nat) (q : Nat × Nat) :
    q ∈ (deleteMatch ms s i).1 ↔ q ≠ (s, i) ∧ q ∈ ms := by
  unfold deleteMatch
  by_cases h : hasMatch ms s i = true
  · simp only [h, if_true, List.mem_filter, decide_eq_true_eq]; exact And.comm
  · simp only [h]
    constructor
    · intro hq; exact ⟨fun e => h ((hasMatch_iff ..).mpr (e ▸ hq)), hq⟩
    · exact And.right

theorem mem_updateMatches (st : Idx) (ms : MS) (s : Nat) (n : Node) (i : Nat) (it : Item) (q : Nat × Nat) :
    q ∈ (updateMatches st ms s n i it).1 ↔
      (q = (s, i) ∧ n.eval (effLabels st it) = true) ∨ (q ≠ (s, i) ∧ q ∈ ms) := by
  unfold updateMatches
  by_cases h : n.eval (effLabels st it) = true
  · simp only [h, if_true, mem_storeMatch]
    by_cases hq : q = (s, i) <;> simp [hq]
  · rw [if_neg h, mem_deleteMatch]
    simp [h]

theorem mem_scanSelectors (st : Idx) (i : Nat) (it : Item) : ∀ (sels : List (Nat × Node)), KeysNodup sels →
    ∀ (ms : MS) (q : Nat × Nat), q ∈ (scanSelectors st i it sels ms).1 ↔
      (q.2 = i ∧ ∃ n, lookup q.1 sels = some n ∧ n.eval (effLabels st it) = true) ∨
      ((q.2 ≠ i ∨ lookup q.1 sels = none) ∧ q ∈ ms)
  | [], _, ms, q => by simp [scanSelectors, lookup]
  | (s, n) :: rest, h, ms, q => by
    unfold KeysNodup at h
    simp only [List.map_cons, List.nodup_cons] at h
    have hs : lookup s rest = none := lookup_none_of_not_mem h.1
    simp only [scanSelectors]
    rw [mem_scanSelectors st i it rest h.2, mem_updateMatches]
    obtain ⟨q1, q2⟩ := q
    simp only [lookup, Prod.mk.injEq]
    by_cases h1 : s = q1
    · subst h1
      by_cases h2 : q2 = i
      · subst h2; simp [hs]
      · simp [hs, h2]
    · have h1' : ¬ q1 = s := fun e => h1 e.symm
      simp [h1, h1']

theorem mem_scanItems (st : Idx) (s : Nat) (n : Node) : ∀ (items : List (Nat × Item)), KeysNodup items →
    ∀ (ms : MS) (q : Nat × Nat), q ∈ (scanItems st s n items ms).1 ↔
      (q.1 = s ∧ ∃ it, lookup q.2 items = some it ∧ n.eval (effLabels st it) = true) ∨
      ((q.1 ≠ s ∨ lookup q.2 items = none) ∧ q ∈ ms)
  | [], _, ms, q => by simp [scanItems, lookup]
  | (i, it) :: rest, h, ms, q => by
    unfold KeysNodup at h
    simp only [List.map_cons, List.nodup_cons] at h
    have hs : lookup i rest = none := lookup_none_of_not_mem h.1
    simp only [scanItems]
    rw [mem_scanItems st s n rest h.2, mem_updateMatches]
    obtain ⟨q1, q2⟩ := q
    simp only [lookup, Prod.mk.injEq]
    by_cases h1 : i = q2
    · subst h1
      by_cases h2 : q1 = s
      · subst h2; simp [hs]
      · simp [hs, h2]
    · have h1' : ¬ q2 = i := fun e => h1 e.symm
      simp [h1, h1']

theorem mem_flushItems (st : Idx) (hsels : KeysNodup st.sels) : ∀ (items : List (Nat × Item)), KeysNodup items →
    ∀ (ms : MS) (q : Nat × Nat), q ∈ (flushItems st items ms).1 ↔
      (∃ it n, lookup q.2 items = some it ∧ lookup q.1 st.sels = some n ∧ n.eval (effLabels st it) = true) ∨
      ((lookup q.2 items = none ∨ lookup q.1 st.sels = none) ∧ q ∈ ms)
  | [], _, ms, q => by simp [flushItems, lookup]
  | (i, it) :: rest, h, ms, q => by
    unfold KeysNodup at h
    simp only [List.map_cons, List.nodup_cons] at h
    have hs : lookup i rest = none := lookup_none_of_not_mem h.1
    simp only [flushItems]
    rw [mem_flushItems st hsels rest h.2, mem_scanSelectors st i it st.sels hsels]
    obtain ⟨q1, q2⟩ := q
    simp only [lookup]
    by_cases h1 : i = q2
    · subst h1
      cases hl : lookup q1 st.sels with
      | none => simp [hs]
      | some n => simp [hs]
    · have h1' : ¬ q2 = i := fun e => h1 e.symm
      simp [h1, h1']

/-! ### the invariant -/

/-- The index state is consistent: unique keys, duplicate-free match list, and a
pair is matching exactly when both ends exist and the selector evaluates to true
on the item's effective labels. -/
structure Inv (st : Idx) : Prop where
  selsNodup : KeysNodup st.sels
  itemsNodup : KeysNodup st.items
  matchedNodup : st.matched.Nodup
  sound : ∀ q : Nat × Nat, q ∈ st.matched ↔
    ∃ n it, lookup q.1 st.sels = some n ∧ lookup q.2 st.items = some it ∧ n.eval (effLabels st it) = true

theorem inv_empty : Inv {} := by
  refine ⟨?_, ?_, ?_, ?_⟩ <;> simp [KeysNodup, lookup]

end CalicoVerif.C07
