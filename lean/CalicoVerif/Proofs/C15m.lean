import CalicoVerif.Proofs.C15l
set_option linter.unusedSimpArgs false
namespace CalicoVerif.C15

theorem foreign_filter (rs : List KRule) :
    rs.filter (fun r => !((rs.filter (fun r => !r.isForeign)).contains r)) = foreignSub rs := by
  unfold foreignSub
  apply List.filter_congr
  intro r hr
  by_cases hf : r.isForeign = true
  · have : ¬ r ∈ rs.filter (fun r => !r.isForeign) := by
      intro h; have := (List.mem_filter.1 h).2; simp [hf] at this
    simp [this, hf]
  · have hf' : r.isForeign = false := by simpa using hf
    have : r ∈ rs.filter (fun r => !r.isForeign) := List.mem_filter.2 ⟨hr, by simp [hf']⟩
    simp [this, hf']

theorem filter_all_chain (ls : List RLine) (c : String) (h : ∀ l ∈ ls, l.chain = c) :
    ls.filter (fun l => l.chain == c) = ls := by
  apply List.filter_eq_self.2
  intro l hl; simp [h l hl]

/-- **apply_converges, hook rules**: one `Apply` iteration that re-reads the table and rewrites the hooks of the
shared chain `c` (it is in `dirtyInsertAppend` and its hashes are not what they should be): afterwards the chain
holds Felix's insert rules at the configured end (top in insert mode, after the other software's rules in append
mode) in the configured order, then — always last — the append rules, and the rules of other software exactly as
they were, in the same order.  Every stale Felix rule (unknown hash, old-style insert) is gone. -/
theorem hooks_rewritten (t : T) (K K' : Kernel) {lines newH newFull} (c : String) (rs : List KRule)
    (hkeys : K.keys.Nodup) (hno : t.ours c = false) (hne : c ≠ "")
    (hdirtyOurs : ∀ x ∈ t.dirty, t.ours x = true) (hnodupIA : t.dirtyIA.Nodup)
    (hK : K.get c = some rs) (hhash : HashNonEmpty rs)
    (hplan : (t.load K).plan = some (lines, newH, newFull)) (hres : krestore K lines = some K')
    (hcIA : c ∈ (t.load K).dirtyIA)
    (hnot : (some (rs.map KRule.hash) == some (t.expectedIA c (numEmpty (rs.map KRule.hash)))) = false) :
    K'.get c = some
      (if t.insertMode then ((t.ins.get c).getD []).map DRule.k ++ foreignSub rs ++ ((t.app.get c).getD []).map DRule.k
       else foreignSub rs ++ ((t.ins.get c).getD []).map DRule.k ++ ((t.app.get c).getD []).map DRule.k) := by
  obtain ⟨t2, hrel, hload, _⟩ := load_desc t K
  have hcd : c ∉ (t.load K).dirty := by
    rw [hload]
    intro h
    rcases hrel.dirtyNew c h with h' | h'
    · have := hdirtyOurs c h'; rw [hno] at this; exact absurd this (by simp)
    · rw [hno] at h'; exact absurd h' (by simp)
  have hnia : (t.load K).dirtyIA.Nodup := by rw [hload]; exact hrel.nodupIA hnodupIA
  obtain ⟨Ks', hp1, hp2⟩ := krestore_proj c lines K K K' rfl hres
  rw [plan_proj_ia hplan hnia c hne hcd] at hp1
  simp only [hcIA, if_true] at hp1
  rw [← hp2]
  -- compute the lines for c
  have hexp : (t.load K).expectedIA c = t.expectedIA c := by
    funext n; rw [hload]; simp only [T.expectedIA, hrel.ins, hrel.app, hrel.insertMode]
  have hdp : (t.load K).dpHashes.get c = some (rs.map KRule.hash) := by
    rw [hload]; simp only [readHashes_get, hK, Option.map_some]
  have hfull : ((t.load K).fullRules.get c).getD [] = if rs.any (fun r => !r.isForeign) then rs.map (toFR c) else [] := by
    rw [hload]
    simp only [readFull_get t2 K hkeys c, hK]
    have : t2.ours c = false := by rw [hrel.ours]; exact hno
    simp only [this, Bool.not_false, Bool.true_and]
    split <;> simp_all
  have hdel : delLines c (rs.map KRule.hash) (((t.load K).fullRules.get c).getD []) =
      some ((rs.filter (fun r => !r.isForeign)).map (RLine.delVal c)) := by
    rw [hfull]
    split
    · exact delLines_aligned c rs hhash
    · rename_i hany
      have hall : ∀ r ∈ rs, r.isForeign = true := by
        intro r hr
        simp only [List.any_eq_true, not_exists, not_and, Bool.not_eq_true, Bool.not_eq_false'] at hany
        simpa using hany r hr
      have h1 : delLines c (rs.map KRule.hash) [] = some [] := by
        apply delLines_allEmpty
        intro h hh
        obtain ⟨r, hr, rfl⟩ := List.mem_map.1 hh
        exact (hhash r hr).2 (hall r hr)
      rw [h1]
      have : rs.filter (fun r => !r.isForeign) = [] := by
        apply List.filter_eq_nil_iff.2
        intro r hr; simp [hall r hr]
      rw [this]; rfl
  have hia : (t.load K).iaLines c = some
      ((rs.filter (fun r => !r.isForeign)).map (RLine.delVal c) ++
        (if t.insertMode then (((t.ins.get c).getD []).reverse.map (fun r => RLine.insert c r.k))
         else ((t.ins.get c).getD []).map (fun r => RLine.append c r.k)) ++
        ((t.app.get c).getD []).map (fun r => RLine.append c r.k),
       some ((t.load K).expectedIA c (numEmpty (rs.map KRule.hash)),
        (if t.insertMode then ((t.ins.get c).getD []).map (fun r => FR.i c r.k) ++ ((t.load K).fullRules.get c).getD []
         else ((t.load K).fullRules.get c).getD [] ++ ((t.ins.get c).getD []).map (fun r => FR.a c r.k)) ++
        ((t.app.get c).getD []).map (fun r => FR.a c r.k))) := by
    unfold T.iaLines
    simp only [hdp, Option.getD_some, hexp, hnot, Bool.false_eq_true, if_false, hdel]
    rw [hload]
    simp only [hrel.ins, hrel.app, hrel.insertMode]
  rw [hia] at hp1
  simp only [iaLinesOf] at hp1
  rw [filter_all_chain] at hp1
  · -- run the lines
    rw [krestore_append, krestore_append] at hp1
    cases h1 : krestore K ((rs.filter (fun r => !r.isForeign)).map (RLine.delVal c)) with
    | none => rw [h1] at hp1; simp at hp1
    | some K1 =>
      rw [h1] at hp1
      simp only [Option.bind_some] at hp1
      obtain ⟨g1, _⟩ := krestore_delVals c _ K K1 rs hK h1
      rw [foreign_filter] at g1
      by_cases hmode : t.insertMode = true
      · simp only [hmode, if_true] at hp1 ⊢
        cases h2 : krestore K1 (((t.ins.get c).getD []).reverse.map (fun r => RLine.insert c r.k)) with
        | none => rw [h2] at hp1; simp at hp1
        | some K2 =>
          rw [h2] at hp1
          simp only [Option.bind_some] at hp1
          have h2' : krestore K1 ((((t.ins.get c).getD []).reverse.map DRule.k).map (RLine.insert c)) = some K2 := by
            rw [List.map_map]; exact h2
          obtain ⟨g2, _⟩ := krestore_inserts c _ K1 K2 _ g1 h2'
          have hp1' : krestore K2 ((((t.app.get c).getD []).map DRule.k).map (RLine.append c)) = some Ks' := by
            rw [List.map_map]; exact hp1
          obtain ⟨g3, _⟩ := krestore_appends c _ K2 Ks' _ g2 hp1'
          rw [g3]; simp [List.map_reverse]
      · have hmode' : t.insertMode = false := by simpa using hmode
        simp only [hmode', Bool.false_eq_true, if_false] at hp1 ⊢
        cases h2 : krestore K1 (((t.ins.get c).getD []).map (fun r => RLine.append c r.k)) with
        | none => rw [h2] at hp1; simp at hp1
        | some K2 =>
          rw [h2] at hp1
          simp only [Option.bind_some] at hp1
          have h2' : krestore K1 ((((t.ins.get c).getD []).map DRule.k).map (RLine.append c)) = some K2 := by
            rw [List.map_map]; exact h2
          obtain ⟨g2, _⟩ := krestore_appends c _ K1 K2 _ g1 h2'
          have hp1' : krestore K2 ((((t.app.get c).getD []).map DRule.k).map (RLine.append c)) = some Ks' := by
            rw [List.map_map]; exact hp1
          obtain ⟨g3, _⟩ := krestore_appends c _ K2 Ks' _ g2 hp1'
          rw [g3]
  · intro l hl
    simp only [List.mem_append, List.mem_map] at hl
    rcases hl with (⟨r, _, rfl⟩ | hl) | ⟨r, _, rfl⟩
    · rfl
    · split at hl
      · obtain ⟨r, _, rfl⟩ := List.mem_map.1 hl; rfl
      · obtain ⟨r, _, rfl⟩ := List.mem_map.1 hl; rfl
    · rfl

end CalicoVerif.C15
