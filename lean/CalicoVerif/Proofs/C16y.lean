import CalicoVerif.Proofs.C16x
set_option linter.unusedSimpArgs false
namespace CalicoVerif.C16

/-- What a successful `ApplyUpdates` that began with a full resync establishes. -/
structure ConvPost (w w' : W) : Prop where
  cfg : w'.cfg = w.cfg
  allMeta : w'.F.allMeta = w.F.allMeta
  desired : w'.F.desired = w.F.desired
  filter : w'.F.filter = w.F.filter
  fullReq : w'.F.fullReq = false
  desKeep : ∀ n des, w.F.allMeta.has n = true → Tracked w.F n des → Tracked w'.F n des
  exact : ∀ n, w.F.desired.has n = true → Exact w'.F w'.K n
  cov : Cov w.cfg w'.F w'.K
  dpOwned : ∀ b, w'.F.dp.has b = true → w.cfg.owns b = true
  qOwned : (∀ x ∈ w'.F.qMust, w.cfg.owns x = true) ∧ (∀ x ∈ w'.F.qBg, w.cfg.owns x = true)

theorem ConvPost.of_wpres {a b c : W} (h1 : WPres a b) (h2 : ConvPost b c) : ConvPost a c := by
  refine ⟨h2.cfg.trans h1.cfg, h2.allMeta.trans h1.pres.1.1, h2.desired.trans h1.pres.1.2.1,
    h2.filter.trans h1.pres.1.2.2.1, h2.fullReq, ?_, ?_, ?_, ?_, ?_⟩
  · intro n des ha ht
    exact h2.desKeep n des (by rw [h1.pres.1.1]; exact ha) (h1.pres.2 n des ha ht)
  · intro n hn; exact h2.exact n (by rw [h1.pres.1.2.1]; exact hn)
  · rw [← h1.cfg]; exact h2.cov
  · rw [← h1.cfg]; exact h2.dpOwned
  · rw [← h1.cfg]; exact h2.qOwned

theorem applyLoop_converges : ∀ (fuel att : Nat) (rerr : Bool) (w : W), CfgOK w.cfg → DesOK w.cfg w.F →
    w.F.fullReq = true → (W.applyLoop fuel att rerr w).2 = true → ConvPost w (W.applyLoop fuel att rerr w).1 := by
  intro fuel
  induction fuel with
  | zero => intro att rerr w _ _ _ h; simp [W.applyLoop] at h
  | succ fuel ih =>
    intro att rerr w hc hok hfull h
    unfold W.applyLoop at h ⊢
    simp only [hfull, Bool.true_or, if_true, Bool.true_and] at h ⊢
    have hwp1 := tryResync_wpres w
    have hpost1 := fullResync_post w hok hfull
    generalize w.tryResync = r1 at h hwp1 hpost1 ⊢
    obtain ⟨w1, rerr1⟩ := r1
    dsimp only at h hwp1 hpost1 ⊢
    have hok1 : DesOK w1.cfg w1.F := by rw [hwp1.cfg]; exact hok.pres hwp1.pres
    have hfull1 : w1.F.fullReq = true := by rw [hwp1.pres.1.2.2.2]; exact hfull
    have hc1 : CfgOK w1.cfg := by rw [hwp1.cfg]; exact hc
    split
    · -- resync failed, transient: retry
      rename_i hcond
      rw [if_pos hcond] at h
      have := ih (att + 1) rerr1 { w1 with sleeps := w1.sleeps + 1 } hc1 hok1 hfull1 h
      exact ConvPost.of_wpres (b := { w1 with sleeps := w1.sleeps + 1 }) ⟨hwp1.cfg, hwp1.pres⟩ this
    · rename_i hcond
      rw [if_neg hcond] at h
      have htd := tryTempDeletions_TD w1
      generalize w1.tryTempDeletions = w2 at h htd ⊢
      have hwp2 : WPres w w2 := WPres.trans hwp1 htd.wpres
      have hc2 : CfgOK w2.cfg := by rw [hwp2.cfg]; exact hc
      have hwp3 := tryUpdates_wpres w2 w2.F.dirtyForUpdate
      have hupd := tryUpdates_post w2 hc2
      generalize w2.tryUpdates w2.F.dirtyForUpdate = r3 at h hwp3 hupd ⊢
      obtain ⟨w3, uerr⟩ := r3
      dsimp only at h hwp3 hupd ⊢
      have hwp13 : WPres w w3 := WPres.trans hwp2 hwp3
      split
      · rename_i hdead; rw [if_pos hdead] at h; simp at h
      · rename_i hdead
        rw [if_neg hdead] at h
        have hfull3 : w3.F.fullReq = true := by rw [hwp13.pres.1.2.2.2]; exact hfull
        generalize hw4 : (if (uerr && !decide (att < 5)) = true then ({ w3 with F := { w3.F with fullReq := true } } : W) else w3) = w4 at h ⊢
        have hwp34 : WPres w3 w4 := by
          rw [← hw4]
          split
          · exact ⟨rfl, Pres.of_members ⟨rfl, rfl, rfl, by simp [hfull3]⟩ rfl⟩
          · exact WPres.refl w3
        have hwp14 : WPres w w4 := WPres.trans hwp13 hwp34
        split
        · rename_i hre
          rw [if_pos hre] at h
          have hok4 : DesOK w4.cfg w4.F := by rw [hwp14.cfg]; exact hok.pres hwp14.pres
          have hfull4 : w4.F.fullReq = true := by rw [hwp14.pres.1.2.2.2]; exact hfull
          have hc4 : CfgOK w4.cfg := by rw [hwp14.cfg]; exact hc
          have := ih (att + 1) rerr1 { w4 with sleeps := w4.sleeps + 1 } hc4 hok4 hfull4 h
          exact ConvPost.of_wpres (b := { w4 with sleeps := w4.sleeps + 1 }) ⟨hwp14.cfg, hwp14.pres⟩ this
        · -- success
          rename_i hre
          simp only [Bool.or_eq_true, not_or, Bool.not_eq_true] at hre
          obtain ⟨hr1, hu⟩ := hre
          subst hr1; subst hu
          have hw43 : w4 = w3 := by rw [← hw4]; simp
          subst hw43
          have rp := hpost1 rfl
          -- the view after the temp clean-up
          have hinv2 : WInv w2.cfg w2.F w2.K := by
            rw [htd.cfg]
            have := htd.winv (by rw [hwp1.cfg]; exact rp.winv)
            rw [hwp1.cfg] at this ⊢; exact this
          have hdo2 : DirtyOK w2.F := htd.dirtyOK rp.dirtyOK
          have up := hupd hinv2 hdo2 rfl
          have hcov2 : Cov w.cfg w2.F w2.K := by
            have := htd.cov (by rw [hwp1.cfg]; exact rp.cov)
            rw [hwp1.cfg] at this; exact this
          refine ⟨hwp13.cfg, hwp13.pres.1.1, hwp13.pres.1.2.1, hwp13.pres.1.2.2.1, rfl, hwp13.pres.2, ?_, ?_, ?_, ?_⟩
          · intro n hn
            have hn2 : w2.F.desired.has n = true := by rw [hwp2.pres.1.2.1]; exact hn
            obtain ⟨dm, t, k, e1, e2, e3, e4, e5⟩ := up.exact n hn2
            exact ⟨dm, t, k, e1, e2, e3, e4, e5⟩
          · intro b hown hb
            have hb' : w4.K.has b = true := hb
            show w4.F.dp.has b = true
            rcases up.covK b hb' with h' | h'
            · exact up.covDp b (hcov2 b hown h')
            · exact h'
          · intro b hb
            have hb' : w4.F.dp.has b = true := hb
            rcases up.dpNew b hb' with h' | h' | h'
            · exact rp.dpOwned b (htd.dpSub b h')
            · rw [hwp2.pres.1.2.1] at h'; exact hok.owned b h'
            · rw [hwp2.cfg] at h'; exact hc.tempOwned b h'
          · refine ⟨?_, ?_⟩
            · intro x hx
              have hx' : x ∈ w4.F.qMust := hx
              rw [up.queues.1] at hx'
              exact rp.qOwned.1 x (htd.qSub.1 x hx')
            · intro x hx
              have hx' : x ∈ w4.F.qBg := hx
              rw [up.queues.2.1] at hx'
              exact rp.qOwned.2 x (htd.qSub.2 x hx')

end CalicoVerif.C16
