import CalicoVerif.Proofs.C17b
set_option linter.unusedSimpArgs false
namespace CalicoVerif.C17

theorem filter_get_nodup {α : Type} (P : String × α → Bool) : ∀ (K : Map α), K.keys.Nodup → ∀ c : String,
    Map.get (K.filter P) c = (match Map.get K c with | some r => if P (c, r) then some r else none | none => none) := by
  intro K
  induction K with
  | nil => intro _ c; rfl
  | cons p K ih =>
    intro hn c
    obtain ⟨a, b⟩ := p
    simp only [Map.keys, List.map_cons, List.nodup_cons] at hn
    have ih' := ih hn.2 c
    simp only [Map.get] at ih' ⊢
    by_cases hca : c = a
    · subst hca
      simp only [List.lookup, beq_self_eq_true, List.filter_cons]
      split
      · simp [List.lookup]
      · -- c is not a key of the rest
        have : ∀ (L : Map α), c ∉ L.map (·.1) → List.lookup c (L.filter P) = none := by
          intro L
          induction L with
          | nil => intro _; rfl
          | cons q L ihL =>
            intro hq
            simp only [List.map_cons, List.mem_cons, not_or] at hq
            simp only [List.filter_cons]
            split
            · simp only [List.lookup]
              have : (c == q.1) = false := by simp [hq.1]
              simp only [this]; exact ihL hq.2
            · exact ihL hq.2
        exact this K hn.1
    · have : (c == a) = false := by simp [hca]
      simp only [List.lookup, this, List.filter_cons]
      split
      · simp only [List.lookup, this]; exact ih'
      · exact ih'

theorem mem_sortS {x : String} {l : List String} : x ∈ sortS l ↔ x ∈ l := List.mem_mergeSort

theorem has_keys {α : Type} (m : Map α) (n : String) : m.has n = true ↔ n ∈ m.keys := by
  induction m with
  | nil => simp [Map.has, Map.get, Map.keys, List.lookup]
  | cons p m ih =>
    obtain ⟨a, b⟩ := p
    simp only [Map.has, Map.get, Map.keys, List.lookup, List.map_cons, List.mem_cons] at ih ⊢
    by_cases h : n = a
    · subst h; simp
    · have : (n == a) = false := by simp [h]
      simp only [this, h, false_or]
      exact ih

/-- The part of `attemptApply` after the resync: delete pass then update pass. -/
def W.passes (w : W) : W × Bool :=
  ((w.deletePass).1.updatePass.1, (w.deletePass).2 || (w.deletePass).1.updatePass.2)

/-- Felix's view of its own routes is the kernel's: every route in the view is in the kernel, and every
kernel route that passes `routeIsOurs` is in the view. -/
def ViewExact (w : W) : Prop :=
  (∀ c r, w.t.dp.get c = some r → w.K.get c = some r) ∧
  (∀ c r, w.K.get c = some r → w.t.owns r = true → w.t.dp.get c = some r)

theorem desiredKeys_of_desired (t : RT) (c : String) (r : KRoute) (h : t.desired c = some r) : c ∈ t.desiredKeys := by
  unfold RT.desiredKeys
  rw [← has_keys]
  unfold RT.desired at h
  simp [Map.has, h]

/-- From an exact view, the two passes (no error, no interface queued) leave exactly the desired routes among
the routes Felix owns or wants. -/
theorem passes_converge (w : W) (hv : ViewExact w) (hok : w.passes.2 = false) (hrs : w.passes.1.t.rescan = []) :
    (∀ c r, w.t.desired c = some r → w.passes.1.K.get c = some r) ∧
    (∀ c r, w.t.desired c = none → w.passes.1.K.get c = some r → w.t.owns r = false) ∧
    SameWants w.passes.1.t w.t := by
  unfold W.passes at hok hrs ⊢
  simp only [Bool.or_eq_false_iff] at hok
  obtain ⟨hok1, hok2⟩ := hok
  dsimp only at hrs ⊢
  unfold W.deletePass at hok1 hok2 hrs ⊢
  generalize hD : sortS ((w.t.dp.keys.filter (fun k => (w.t.desired k).isNone)).eraseDups) = D at hok1 hok2 hrs ⊢
  obtain ⟨_, d2, d3, d4, d5, d6, _⟩ := delFold_ok D (w, false) hok1
  generalize hw1 : (D.foldl W.delStep (w, false)).1 = w1 at hok2 hrs d2 d3 d4 d5 d6 ⊢
  dsimp only at d2 d3 d4 d5 d6
  unfold W.updatePass at hok2 hrs ⊢
  generalize hU : sortS (w1.t.desiredKeys.filter (fun k => w1.t.desired k != w1.t.dp.get k)) = U at hok2 hrs ⊢
  obtain ⟨_, _, u2, u3, u4, _, _⟩ := updFold_ok U (w1, false) hok2 hrs
  dsimp only at u2 u3 u4
  have hdes1 : ∀ c, w1.t.desired c = w.t.desired c := fun c => desired_congr d4 c
  have hK1 : ∀ c, w1.K.get c = if c ∈ D then none else w.K.get c := by intro c; rw [d2]; exact foldl_erase_get D w.K c
  have hP1 : ∀ c, w1.t.dp.get c = if c ∈ D then none else w.t.dp.get c := by intro c; rw [d3]; exact foldl_erase_get D w.t.dp c
  have hmemD : ∀ c, c ∈ D ↔ (w.t.dp.has c = true ∧ w.t.desired c = none) := by
    intro c
    rw [← hD, mem_sortS, List.mem_eraseDups, List.mem_filter, ← has_keys]
    simp
  refine ⟨?_, ?_, ⟨u4.1.trans d4.1, u4.2.1.trans d4.2.1, u4.2.2.1.trans d4.2.2.1, u4.2.2.2.trans d4.2.2.2⟩⟩
  · intro c r hd
    rw [u2 c, hdes1 c, hd]
    by_cases hcU : c ∈ U
    · simp [hcU]
    · simp only [hcU, if_false]
      -- not rewritten: the view already had it
      have hcD : c ∉ D := by rw [hmemD]; rintro ⟨_, h'⟩; rw [hd] at h'; simp at h'
      have hnu : ¬ (w1.t.desired c != w1.t.dp.get c) = true := by
        intro hne
        apply hcU
        rw [← hU, mem_sortS]
        exact List.mem_filter.2 ⟨desiredKeys_of_desired w1.t c r (by rw [hdes1]; exact hd), hne⟩
      have heq : w1.t.dp.get c = some r := by
        have : w1.t.desired c = w1.t.dp.get c := by simpa using hnu
        rw [← this, hdes1]; exact hd
      rw [hP1 c] at heq
      simp only [hcD, if_false] at heq
      rw [hK1 c]; simp only [hcD, if_false]
      exact hv.1 c r heq
  · intro c r hd hk
    rw [u2 c, hdes1 c, hd] at hk
    have hk1 : w1.K.get c = some r := by
      by_cases hcU : c ∈ U <;> simpa [hcU] using hk
    rw [hK1 c] at hk1
    by_cases hcD : c ∈ D
    · simp [hcD] at hk1
    · simp only [hcD, if_false] at hk1
      cases ho : w.t.owns r with
      | false => rfl
      | true =>
        exfalso
        have := hv.2 c r hk1 ho
        apply hcD
        rw [hmemD]
        exact ⟨by simp [Map.has, this], hd⟩

end CalicoVerif.C17
