import CalicoVerif.Proofs.C12Bridge
import CalicoVerif.Proofs.C11GuardPorts
/-!
C12 — the bridge between the two reference semantics (`Model/Policy.ruleMatches` / `C09.endpointVerdict`
and the C11 reference), generic in the rule translation, and its instance for rules with ALL
non-CIDR criteria (protocol, ports, named ports, IP sets, ICMP and their negations).
-/
namespace CalicoVerif.C12
open CalicoVerif.C11

/-- What the tier/profile bridge needs from a rule translation `tr` on a class `Ok` of rules. -/
structure RuleBridge (env9 : Netfilter.Env) (pkt9 : Netfilter.Packet) (env : Env) (p : Pkt)
    (tr : C11.Rule → Policy.Rule) (Ok : C11.Rule → Prop) : Prop where
  act : ∀ r, Ok r → ActLit r.action ∧ (tr r).action = r.action
  mat : ∀ r, Ok r → Policy.ruleMatches env9 (C08.setNameFor false) (tr r) pkt9 =
      (match filterRule env.c.v6 r with
       | none => false
       | some fr => C11.ruleMatch env p .dest fr)

section
variable {env9 : Netfilter.Env} {pkt9 : Netfilter.Packet} {env : Env} {p : Pkt}
  {tr : C11.Rule → Policy.Rule} {Ok : C11.Rule → Prop}

theorem policyOutcome_bridgeG (hb : RuleBridge env9 pkt9 env p tr Ok) :
    ∀ rs : List C11.Rule, (∀ r ∈ rs, Ok r) →
      C09.policyOutcome env9 false pkt9 (rs.map tr) = toOut (evalRules env p .dest rs) := by
  intro rs
  induction rs with
  | nil => intro _; rfl
  | cons r rs ih =>
    intro h
    have ih' := ih (fun q hq => h q (List.mem_cons_of_mem _ hq))
    have hc := h r (List.mem_cons_self)
    have hm := hb.mat r hc
    obtain ⟨hact, hta⟩ := hb.act r hc
    simp only [List.map_cons, C09.policyOutcome, evalRules, hm]
    cases hf : filterRule env.c.v6 r with
    | none => simp only [Bool.false_eq_true, if_false]; exact ih'
    | some fr =>
      simp only
      by_cases hx : C11.ruleMatch env p .dest fr = true
      · simp only [hx, if_true]
        rw [hta]
        rcases hact with h | h | h | h | h <;> rw [h] <;> simp [Policy.parseAction, actOf, asciiLower, toOut, ih'] <;> decide
      · simp only [hx, Bool.false_eq_true, if_false]; exact ih'

/-- Per-policy outcomes under the Model/Policy reference, for a translation `tr`. -/
def outsG (env9 : Netfilter.Env) (pkt9 : Netfilter.Packet) (tr : C11.Rule → Policy.Rule) (ps : List Policy) :
    List C09.PolOutcome :=
  ps.map (fun pol => C09.policyOutcome env9 false pkt9 (pol.rules.map tr))

def PoliciesOkG (Ok : C11.Rule → Prop) (ps : List Policy) : Prop := ∀ pol ∈ ps, ∀ r ∈ pol.rules, Ok r

theorem find_bridgeG (hb : RuleBridge env9 pkt9 env p tr Ok) :
    ∀ ps : List Policy, PoliciesOkG Ok ps →
      (outsG env9 pkt9 tr ps).find? (· ≠ .noMatch) =
        (match evalPolicies env p .dest ps with
         | .noMatch => none
         | d => some (toOut d)) := by
  intro ps
  induction ps with
  | nil => intro _; rfl
  | cons pol ps ih =>
    intro h
    have ih' := ih (fun q hq => h q (List.mem_cons_of_mem _ hq))
    have h1 := policyOutcome_bridgeG hb pol.rules (h pol (List.mem_cons_self))
    simp only [outsG, List.map_cons, List.find?_cons, h1, evalPolicies]
    simp only [outsG] at ih'
    cases evalRules env p .dest pol.rules with
    | noMatch => simpa [toOut, -List.find?_map] using ih'
    | allow => simp [toOut]
    | deny => simp [toOut]
    | pass => simp [toOut]

theorem tierResult_bridgeG (hb : RuleBridge env9 pkt9 env p tr Ok) (t : Tier) (hne : t.policies ≠ [])
    (hc : PoliciesOkG Ok t.policies) :
    C09.tierResult (outsG env9 pkt9 tr t.policies) (t.endAction == .pass) =
      (match evalPolicies env p .dest t.policies with
       | .allow => .allow
       | .deny => .deny
       | .pass => .nextTier
       | .noMatch => if t.endAction == .pass then .nextTier else .deny) := by
  have hf := find_bridgeG hb t.policies hc
  have hemp : (outsG env9 pkt9 tr t.policies).isEmpty = false := by
    cases hq : t.policies with
    | nil => exact absurd hq hne
    | cons _ _ => simp [outsG]
  unfold C09.tierResult
  rw [hf]
  cases evalPolicies env p .dest t.policies <;> simp [toOut, hemp]

def TiersOkG (Ok : C11.Rule → Prop) (ts : List Tier) : Prop := ∀ t ∈ ts, t.policies ≠ [] ∧ PoliciesOkG Ok t.policies

def ProfilesOkG (Ok : C11.Rule → Prop) (ps : List Policy) : Prop :=
  PoliciesOkG Ok ps ∧ ∀ pol ∈ ps, ∀ r ∈ pol.rules, actOf r.action ≠ .pass

theorem evalRules_ne_pass_dest (env : Env) (p : Pkt) :
    ∀ rs : List C11.Rule, (∀ r ∈ rs, actOf r.action ≠ .pass) → evalRules env p .dest rs ≠ .pass := by
  intro rs
  induction rs with
  | nil => intro _; simp [evalRules]
  | cons r rs ihr =>
    intro hh
    have ihr' := ihr (fun q hq => hh q (List.mem_cons_of_mem _ hq))
    have hr := hh r (List.mem_cons_self)
    simp only [evalRules]
    cases filterRule env.c.v6 r with
    | none => exact ihr'
    | some fr =>
      simp only
      by_cases hm : C11.ruleMatch env p .dest fr = true
      · simp only [hm, if_true]; cases ha : actOf r.action <;> simp_all
      · simp only [hm, Bool.false_eq_true, if_false]; exact ihr'

theorem profilesVerdict_bridgeG (hb : RuleBridge env9 pkt9 env p tr Ok) :
    ∀ ps : List Policy, ProfilesOkG Ok ps →
      C09.profilesVerdict (outsG env9 pkt9 tr ps) =
        toV9 (match evalProfiles true env p ps with | .allow => Verdict.allow | _ => .deny) := by
  intro ps
  induction ps with
  | nil => intro _; rfl
  | cons pr ps ih =>
    intro h
    have ih' := ih ⟨fun q hq => h.1 q (List.mem_cons_of_mem _ hq), fun q hq => h.2 q (List.mem_cons_of_mem _ hq)⟩
    have h1 := policyOutcome_bridgeG hb pr.rules (h.1 pr (List.mem_cons_self))
    have hnp := evalRules_ne_pass_dest env p pr.rules (h.2 pr (List.mem_cons_self))
    simp only [outsG, List.map_cons, h1, evalProfiles]
    simp only [outsG] at ih'
    cases he2 : evalRules env p .dest pr.rules <;> simp_all [toOut, C09.profilesVerdict, toV9]

/-- **The two references agree**, for any rule translation with a `RuleBridge`. -/
theorem endpointVerdict_bridgeG (hb : RuleBridge env9 pkt9 env p tr Ok) (profiles : List Policy)
    (hprof : ProfilesOkG Ok profiles) :
    ∀ ts : List Tier, TiersOkG Ok ts →
      C09.endpointVerdict (ts.map (fun t => (outsG env9 pkt9 tr t.policies, t.endAction == .pass)))
          (outsG env9 pkt9 tr profiles) =
        toV9 (match evalTiers env p .dest ts with
          | .allow => Verdict.allow
          | .deny => .deny
          | _ => (match evalProfiles true env p profiles with | .allow => .allow | _ => .deny)) := by
  intro ts
  induction ts with
  | nil =>
    intro _
    simp only [List.map_nil, C09.endpointVerdict, evalTiers]
    exact profilesVerdict_bridgeG hb profiles hprof
  | cons t ts ih =>
    intro h
    have ih' := ih (fun q hq => h q (List.mem_cons_of_mem _ hq))
    obtain ⟨hne, hc⟩ := h t (List.mem_cons_self)
    have ht := tierResult_bridgeG hb t hne hc
    simp only [List.map_cons, C09.endpointVerdict, ht, evalTiers]
    cases evalPolicies env p .dest t.policies with
    | allow => rfl
    | deny => rfl
    | pass => exact ih'
    | noMatch =>
      cases hea : t.endAction <;> simp [toV9] <;> first | exact ih' | rfl

end


/-! ### The instance: every criterion except CIDRs -/

/-- How IP sets are named on the two sides. -/
structure Names where
  set : Nat → String

def trIcmp : C11.Icmp → Policy.IcmpMatch
  | .none => .none
  | .type t => .type t.toNat
  | .typeCode t c => .typeCode t.toNat c.toNat

def trPR (r : C11.PortRange) : Netfilter.PortRange := ⟨r.first.toNat, r.last.toNat⟩

/-- C11 rule (no CIDRs) → Model/Policy rule. -/
def trRuleF (N : Names) (r : C11.Rule) : Policy.Rule :=
  { action := r.action, ipVersion := r.ipVersion,
    protocol := r.protocol.map trP, notProtocol := r.notProtocol.map trP,
    srcPorts := r.srcPorts.map trPR, dstPorts := r.dstPorts.map trPR,
    notSrcPorts := r.notSrcPorts.map trPR, notDstPorts := r.notDstPorts.map trPR,
    srcNamedPortIpSetIds := r.srcNamedPortIpSetIds.map N.set, dstNamedPortIpSetIds := r.dstNamedPortIpSetIds.map N.set,
    notSrcNamedPortIpSetIds := r.notSrcNamedPortIpSetIds.map N.set,
    notDstNamedPortIpSetIds := r.notDstNamedPortIpSetIds.map N.set,
    srcIpSetIds := r.srcIpSetIds.map N.set, dstIpSetIds := r.dstIpSetIds.map N.set,
    notSrcIpSetIds := r.notSrcIpSetIds.map N.set, notDstIpSetIds := r.notDstIpSetIds.map N.set,
    dstIpPortSetIds := r.dstIpPortSetIds.map N.set,
    icmp := trIcmp r.icmp, notIcmp := trIcmp r.notIcmp }

/-- The two environments and packet views describe the same packet and the same IP sets (IPv4). -/
structure EnvRel (N : Names) (env9 : Netfilter.Env) (pkt9 : Netfilter.Packet) (env : Env) (p : Pkt) : Prop where
  v4 : env.c.v6 = false
  pv4 : pkt9.v6 = false
  protoTab : EnvProto env9
  proto : pkt9.proto = p.proto.toNat
  sport : pkt9.sport = p.sport.toNat
  dport : pkt9.dport = p.postDport.toNat
  icmpT : pkt9.icmpType = p.icmpW.toNat % 256
  icmpC : pkt9.icmpCode = p.icmpW.toNat / 256
  setS : ∀ id, env9.inIPSet (C08.setNameFor false (N.set id)) pkt9.src =
    env.member id (keyAddr false p.src) p.sport p.proto
  setD : ∀ id, env9.inIPSet (C08.setNameFor false (N.set id)) pkt9.dst =
    env.member id (keyAddr false p.postDst) p.postDport p.proto
  psetS : ∀ id, env9.inIPPortSet (C08.setNameFor false (N.set id)) pkt9.src pkt9.proto pkt9.sport =
    env.member id (keyAddr false p.src) p.sport p.proto
  psetD : ∀ id, env9.inIPPortSet (C08.setNameFor false (N.set id)) pkt9.dst pkt9.proto pkt9.dport =
    env.member id (keyAddr false p.postDst) p.postDport p.proto

def IcmpNN : C11.Icmp → Prop
  | .none => True
  | .type t => 0 ≤ t
  | .typeCode t c => 0 ≤ t ∧ 0 ≤ c

/-- A rule of the extended common fragment: every criterion except CIDRs, as the API validates them
(numeric ports only with a port protocol, ICMP criteria only with protocol ICMP, at most one
destination IP set). -/
structure RuleFull (r : C11.Rule) : Prop where
  act : ActLit r.action
  p1 : ProtoNumOK r.protocol
  p2 : ProtoNumOK r.notProtocol
  noNet : r.ipVersion = 0 ∧ r.srcNet = [] ∧ r.notSrcNet = [] ∧ r.dstNet = [] ∧ r.notDstNet = []
  ports : ∀ pr ∈ r.srcPorts ++ r.notSrcPorts ++ r.dstPorts ++ r.notDstPorts, PortOK pr
  portProto : r.srcPorts ++ r.notSrcPorts ++ r.dstPorts ++ r.notDstPorts ≠ [] →
    ∃ pr k, r.protocol = some pr ∧ protoNumberRef pr = some k ∧ (k = 6 ∨ k = 17 ∨ k = 132)
  icmpProto : (r.icmp ≠ .none ∨ r.notIcmp ≠ .none) → ∃ pr, r.protocol = some pr ∧ protoNumberRef pr = some 1
  icmpNN : IcmpNN r.icmp ∧ IcmpNN r.notIcmp
  dst1 : r.dstIpSetIds.length ≤ 1

theorem filterRule_noNet (v6 : Bool) (r : C11.Rule)
    (h : r.ipVersion = 0 ∧ r.srcNet = [] ∧ r.notSrcNet = [] ∧ r.dstNet = [] ∧ r.notDstNet = []) :
    filterRule v6 r = some r := by
  obtain ⟨h0, h1, h2, h3, h4⟩ := h
  cases r
  simp only at h0 h1 h2 h3 h4
  subst h0 h1 h2 h3 h4
  simp [filterRule, filterNets]

theorem inRanges_bridge (rs : List C11.PortRange) (hok : ∀ r ∈ rs, PortOK r) (v : BitVec 16) :
    Netfilter.inRanges (rs.map trPR) v.toNat = rs.any (portIn v) := by
  induction rs with
  | nil => rfl
  | cons r rs ih =>
    have := ih (fun q hq => hok q (List.mem_cons_of_mem _ hq))
    obtain ⟨h0, h1, h2⟩ := hok r List.mem_cons_self
    simp only [Netfilter.inRanges, List.map_cons, List.any_cons] at this ⊢
    rw [this]
    congr 1
    obtain ⟨f, hf⟩ : ∃ f : Nat, r.first = (f : Int) := ⟨r.first.toNat, by omega⟩
    obtain ⟨l, hl⟩ : ∃ l : Nat, r.last = (l : Int) := ⟨r.last.toNat, by omega⟩
    simp only [trPR, portIn, hf, hl, Int.toNat_natCast]
    rw [Bool.eq_iff_iff]
    simp only [Bool.and_eq_true, decide_eq_true_eq]
    constructor <;> intro h <;> constructor <;> omega

theorem icmp_bridge {N : Names} {env9 : Netfilter.Env} {pkt9 : Netfilter.Packet} {env : Env} {p : Pkt}
    (he : EnvRel N env9 pkt9 env p) (ic : C11.Icmp) (hnn : IcmpNN ic) :
    (pkt9.proto = 1 → Policy.icmpMatches pkt9 (trIcmp ic) = icmpIs p ic) ∧
    (pkt9.proto = 1 → Policy.notIcmpMatches pkt9 (trIcmp ic) = (ic == .none || !icmpIs p ic)) := by
  have hi : pkt9.proto = 1 → Policy.isIcmpPkt pkt9 = true := by
    intro h; simp [Policy.isIcmpPkt, he.pv4, h]
  cases ic with
  | none => exact ⟨fun _ => rfl, fun _ => rfl⟩
  | type t =>
    have ht : 0 ≤ t := hnn
    have e : (pkt9.icmpType == t.toNat % 256) = ((p.icmpW.toNat % 256 : Int) == t % 256) := by
      rw [he.icmpT, Bool.eq_iff_iff]; simp only [beq_iff_eq]; omega
    refine ⟨fun h => ?_, fun h => ?_⟩
    · simp [trIcmp, Policy.icmpMatches, icmpIs, hi h, e]
    · simp [trIcmp, Policy.notIcmpMatches, icmpIs, hi h, e]
  | typeCode t c =>
    obtain ⟨ht, hc⟩ : 0 ≤ t ∧ 0 ≤ c := hnn
    have e1 : (pkt9.icmpType == t.toNat % 256) = ((p.icmpW.toNat % 256 : Int) == t % 256) := by
      rw [he.icmpT, Bool.eq_iff_iff]; simp only [beq_iff_eq]; omega
    have hw : p.icmpW.toNat < 65536 := p.icmpW.isLt
    have e2 : (pkt9.icmpCode == c.toNat % 256) = ((p.icmpW.toNat / 256 : Int) == c % 256) := by
      rw [he.icmpC, Bool.eq_iff_iff]; simp only [beq_iff_eq]; omega
    refine ⟨fun h => ?_, fun h => ?_⟩
    · simp [trIcmp, Policy.icmpMatches, icmpIs, hi h, e1, e2]
    · simp [trIcmp, Policy.notIcmpMatches, icmpIs, hi h, e1, e2]


theorem all_map_eq {α β : Type} (f : α → β) (g : β → Bool) (h : α → Bool) (l : List α) (e : ∀ x, g (f x) = h x) :
    (l.map f).all g = l.all h := by
  induction l with
  | nil => rfl
  | cons x xs ih => simp only [List.map_cons, List.all_cons, e x, ih]

theorem any_map_eq {α β : Type} (f : α → β) (g : β → Bool) (h : α → Bool) (l : List α) (e : ∀ x, g (f x) = h x) :
    (l.map f).any g = l.any h := by
  induction l with
  | nil => rfl
  | cons x xs ih => simp only [List.map_cons, List.any_cons, e x, ih]

/-- positive port criterion -/
theorem portsPos_bridge (env9 : Netfilter.Env) (N : Names) (rs : List C11.PortRange) (named : List Nat)
    (hok : ∀ r ∈ rs, PortOK r) (proto9 a9 : Nat) (v : BitVec 16) (mem : Nat → Bool)
    (hm : ∀ id, env9.inIPPortSet (C08.setNameFor false (N.set id)) a9 proto9 v.toNat = mem id)
    (hpp : rs ≠ [] → Netfilter.isPortProto proto9 = true) :
    Policy.portsMatch env9 (C08.setNameFor false) (rs.map trPR) (named.map N.set) proto9 a9 v.toNat =
      ((rs.isEmpty && named.isEmpty) || (rs.any (portIn v) || named.any mem)) := by
  unfold Policy.portsMatch
  rw [inRanges_bridge rs hok v, any_map_eq N.set _ mem named hm]
  cases rs with
  | nil => simp
  | cons r rs' => simp [hpp (by simp)]

/-- negated port criterion (numeric ranges and named-port sets are two criteria in Model/Policy) -/
theorem portsNeg_bridge (env9 : Netfilter.Env) (N : Names) (rs : List C11.PortRange) (named : List Nat)
    (hok : ∀ r ∈ rs, PortOK r) (proto9 a9 : Nat) (v : BitVec 16) (mem : Nat → Bool)
    (hm : ∀ id, env9.inIPPortSet (C08.setNameFor false (N.set id)) a9 proto9 v.toNat = mem id)
    (hpp : rs ≠ [] → Netfilter.isPortProto proto9 = true) :
    (((rs.map trPR).isEmpty || (Netfilter.isPortProto proto9 && !Netfilter.inRanges (rs.map trPR) v.toNat)) &&
      (named.map N.set).all (fun id => !env9.inIPPortSet (C08.setNameFor false id) a9 proto9 v.toNat)) =
      !((!(rs.isEmpty && named.isEmpty)) && (rs.any (portIn v) || named.any mem)) := by
  rw [inRanges_bridge rs hok v, all_map_eq N.set _ (fun id => !mem id) named (fun id => by rw [hm id])]
  have hall : named.all (fun id => !mem id) = !named.any mem := by
    induction named with
    | nil => rfl
    | cons x xs ih => simp only [List.all_cons, List.any_cons, ih, Bool.not_or]
  rw [hall]
  cases rs with
  | nil => cases named <;> simp
  | cons r rs' =>
    simp only [List.map_cons, List.isEmpty_cons, Bool.false_or, hpp (by simp), Bool.true_and, Bool.false_and,
      Bool.not_false, Bool.not_or]

/-- at most one destination IP set: "every set" = "some set" -/
theorem dst1_bridge (ids : List Nat) (f : Nat → Bool) (h : ids.length ≤ 1) : ids.all f = (ids.isEmpty || ids.any f) := by
  cases ids with
  | nil => rfl
  | cons x xs =>
    cases xs with
    | nil => simp
    | cons y ys => simp only [List.length_cons] at h; omega


/-- the negated-protocol clause of `Policy.otherMatch` -/
def notProto9 (env9 : Netfilter.Env) (q : Option Netfilter.Proto) (n : Nat) : Bool :=
  match q with
  | none => true
  | some q => !Netfilter.protoIs env9 (Policy.protoTrunc q) n

theorem protoIs_k {p : Pkt} {pr : C11.Proto} {k : Nat} (hk : protoNumberRef pr = some k) (h : C11.protoIs p pr = true) :
    p.proto.toNat = k := by
  simp only [C11.protoIs, hk, beq_iff_eq] at h
  exact h

/-- **Same match decision under both references**, every criterion except CIDRs. -/
theorem ruleMatches_full {N : Names} {env9 : Netfilter.Env} {pkt9 : Netfilter.Packet} {env : Env} {p : Pkt}
    (he : EnvRel N env9 pkt9 env p) (r : C11.Rule) (hr : RuleFull r) :
    Policy.ruleMatches env9 (C08.setNameFor false) (trRuleF N r) pkt9 = C11.ruleMatch env p .dest r := by
  obtain ⟨h0, hn1, hn2, hn3, hn4⟩ := hr.noNet
  -- the protocol criterion, and what it implies
  have hB1 : Policy.protoOK env9 (trRuleF N r) pkt9 = r.protocol.all (C11.protoIs p) := by
    simp only [Policy.protoOK, trRuleF]
    cases hp : r.protocol with
    | none => rfl
    | some a =>
      have := hr.p1; rw [hp] at this
      simp only [Option.map_some, Option.all_some, he.proto]
      exact protoIs_bridge env9 he.protoTab p a this
  have hB2 : notProto9 env9 (r.notProtocol.map trP) pkt9.proto =
      r.notProtocol.all (fun x => !C11.protoIs p x) := by
    cases hp : r.notProtocol with
    | none => rfl
    | some a =>
      have := hr.p2; rw [hp] at this
      simp only [notProto9, Option.map_some, Option.all_some, he.proto]
      rw [protoIs_bridge env9 he.protoTab p a this]
  by_cases hA1 : r.protocol.all (C11.protoIs p) = true
  · -- ports need a port protocol, ICMP needs ICMP: both follow from the protocol criterion
    have hpp : r.srcPorts ++ r.notSrcPorts ++ r.dstPorts ++ r.notDstPorts ≠ [] → Netfilter.isPortProto pkt9.proto = true := by
      intro hne
      obtain ⟨pr, k, hp, hk, hk3⟩ := hr.portProto hne
      rw [hp] at hA1
      have := protoIs_k hk (by simpa using hA1)
      rw [he.proto, this]
      rcases hk3 with e | e | e <;> rw [e] <;> rfl
    have hic : (r.icmp ≠ .none ∨ r.notIcmp ≠ .none) → pkt9.proto = 1 := by
      intro hne
      obtain ⟨pr, hp, hk⟩ := hr.icmpProto hne
      rw [hp] at hA1
      rw [he.proto]; exact protoIs_k hk (by simpa using hA1)
    have hok := hr.ports
    simp only [List.mem_append] at hok
    -- ports
    have q1 := portsPos_bridge env9 N r.srcPorts r.srcNamedPortIpSetIds (fun x hx => hok x (by simp [hx])) pkt9.proto pkt9.src
      p.sport (fun id => env.member id (keyAddr false p.src) p.sport p.proto) (fun id => by rw [← he.sport]; exact he.psetS id)
      (fun hne => hpp (by simp [hne]))
    have q2 := portsPos_bridge env9 N r.dstPorts r.dstNamedPortIpSetIds (fun x hx => hok x (by simp [hx])) pkt9.proto pkt9.dst
      p.postDport (fun id => env.member id (keyAddr false p.postDst) p.postDport p.proto)
      (fun id => by rw [← he.dport]; exact he.psetD id) (fun hne => hpp (by simp [hne]))
    have q3 := portsNeg_bridge env9 N r.notSrcPorts r.notSrcNamedPortIpSetIds (fun x hx => hok x (by simp [hx])) pkt9.proto
      pkt9.src p.sport (fun id => env.member id (keyAddr false p.src) p.sport p.proto)
      (fun id => by rw [← he.sport]; exact he.psetS id) (fun hne => hpp (by simp [hne]))
    have q4 := portsNeg_bridge env9 N r.notDstPorts r.notDstNamedPortIpSetIds (fun x hx => hok x (by simp [hx])) pkt9.proto
      pkt9.dst p.postDport (fun id => env.member id (keyAddr false p.postDst) p.postDport p.proto)
      (fun id => by rw [← he.dport]; exact he.psetD id) (fun hne => hpp (by simp [hne]))
    rw [← he.sport] at q1 q3
    rw [← he.dport] at q2 q4
    -- IP sets
    have s1 := all_map_eq N.set (fun id => env9.inIPSet (C08.setNameFor false id) pkt9.src)
      (fun id => env.member id (keyAddr false p.src) p.sport p.proto) r.srcIpSetIds he.setS
    have s2 := all_map_eq N.set (fun id => !env9.inIPSet (C08.setNameFor false id) pkt9.src)
      (fun id => !env.member id (keyAddr false p.src) p.sport p.proto) r.notSrcIpSetIds (fun id => by rw [he.setS id])
    have s3 := all_map_eq N.set (fun id => env9.inIPSet (C08.setNameFor false id) pkt9.dst)
      (fun id => env.member id (keyAddr false p.postDst) p.postDport p.proto) r.dstIpSetIds he.setD
    rw [dst1_bridge _ _ hr.dst1] at s3
    have s4 := all_map_eq N.set (fun id => !env9.inIPSet (C08.setNameFor false id) pkt9.dst)
      (fun id => !env.member id (keyAddr false p.postDst) p.postDport p.proto) r.notDstIpSetIds (fun id => by rw [he.setD id])
    have s5 := all_map_eq N.set (fun id => env9.inIPPortSet (C08.setNameFor false id) pkt9.dst pkt9.proto pkt9.dport)
      (fun id => env.member id (keyAddr false p.postDst) p.postDport p.proto) r.dstIpPortSetIds he.psetD
    -- ICMP
    have i1 : Policy.icmpMatches pkt9 (trIcmp r.icmp) = icmpIs p r.icmp := by
      by_cases hi : r.icmp = .none
      · rw [hi]; rfl
      · exact (icmp_bridge he r.icmp hr.icmpNN.1).1 (hic (Or.inl hi))
    have i2 : Policy.notIcmpMatches pkt9 (trIcmp r.notIcmp) = (r.notIcmp == .none || !icmpIs p r.notIcmp) := by
      by_cases hi : r.notIcmp = .none
      · rw [hi]; rfl
      · exact (icmp_bridge he r.notIcmp hr.icmpNN.2).2 (hic (Or.inr hi))
    -- assemble
    have hL : Policy.ruleMatches env9 (C08.setNameFor false) (trRuleF N r) pkt9 =
        (Policy.protoOK env9 (trRuleF N r) pkt9 &&
          Policy.portsMatch env9 (C08.setNameFor false) (r.srcPorts.map trPR) (r.srcNamedPortIpSetIds.map N.set) pkt9.proto pkt9.src pkt9.sport &&
          Policy.portsMatch env9 (C08.setNameFor false) (r.dstPorts.map trPR) (r.dstNamedPortIpSetIds.map N.set) pkt9.proto pkt9.dst pkt9.dport &&
          ((r.srcIpSetIds.map N.set).all (fun id => env9.inIPSet (C08.setNameFor false id) pkt9.src) &&
           (r.dstIpSetIds.map N.set).all (fun id => env9.inIPSet (C08.setNameFor false id) pkt9.dst) &&
           (r.dstIpPortSetIds.map N.set).all (fun id => env9.inIPPortSet (C08.setNameFor false id) pkt9.dst pkt9.proto pkt9.dport) &&
           Policy.icmpMatches pkt9 (trIcmp r.icmp) &&
           notProto9 env9 (r.notProtocol.map trP) pkt9.proto &&
           (r.notSrcIpSetIds.map N.set).all (fun id => !env9.inIPSet (C08.setNameFor false id) pkt9.src) &&
           (((r.notSrcPorts.map trPR).isEmpty || (Netfilter.isPortProto pkt9.proto && !Netfilter.inRanges (r.notSrcPorts.map trPR) pkt9.sport)) &&
            (r.notSrcNamedPortIpSetIds.map N.set).all (fun id => !env9.inIPPortSet (C08.setNameFor false id) pkt9.src pkt9.proto pkt9.sport)) &&
           (r.notDstIpSetIds.map N.set).all (fun id => !env9.inIPSet (C08.setNameFor false id) pkt9.dst) &&
           (((r.notDstPorts.map trPR).isEmpty || (Netfilter.isPortProto pkt9.proto && !Netfilter.inRanges (r.notDstPorts.map trPR) pkt9.dport)) &&
            (r.notDstNamedPortIpSetIds.map N.set).all (fun id => !env9.inIPPortSet (C08.setNameFor false id) pkt9.dst pkt9.proto pkt9.dport)) &&
           Policy.notIcmpMatches pkt9 (trIcmp r.notIcmp))) := by
      simp only [Policy.ruleMatches, Policy.netsMatch, Policy.posNetOK, Policy.negNetOK, Policy.familyOK, Policy.restMatch,
        Policy.otherMatch, trRuleF, h0, hn1, hn2, hn3, hn4, notProto9]
      cases r.notProtocol <;> simp [Bool.and_assoc]
    rw [hL, hB1, hB2, q1, q2, q3, q4, s1, s2, s3, s4, s5, i1, i2]
    simp only [C11.ruleMatch, he.v4, hn1, hn2, hn3, hn4, Pkt.addr, Pkt.port, List.isEmpty_nil, Bool.true_or, List.all_nil,
      Bool.and_true, Bool.true_and]
    ac_rfl
  · -- the protocol criterion fails on both sides
    have hA1' : r.protocol.all (C11.protoIs p) = false := by simpa using hA1
    have hR : C11.ruleMatch env p .dest r = false := by
      simp only [C11.ruleMatch, hA1', Bool.false_and]
    rw [hR]
    simp only [Policy.ruleMatches, Policy.restMatch, hB1, hA1', Bool.false_and, Bool.and_false]


/-- The rule bridge for the extended fragment. -/
theorem ruleBridge_full {N : Names} {env9 : Netfilter.Env} {pkt9 : Netfilter.Packet} {env : Env} {p : Pkt}
    (he : EnvRel N env9 pkt9 env p) : RuleBridge env9 pkt9 env p (trRuleF N) RuleFull := by
  refine ⟨fun r hr => ⟨hr.act, rfl⟩, fun r hr => ?_⟩
  rw [filterRule_noNet env.c.v6 r hr.noNet]
  exact ruleMatches_full he r hr

/-- The protocol-only bridge is an instance as well. -/
theorem ruleBridge_common (env9 : Netfilter.Env) (he : EnvProto env9) (pkt9 : Netfilter.Packet) (env : Env) (p : Pkt)
    (hv : pkt9.v6 = false) (hpr : pkt9.proto = p.proto.toNat) : RuleBridge env9 pkt9 env p trRule RuleCommon := by
  refine ⟨fun r hr => ⟨hr.act, rfl⟩, fun r hr => ?_⟩
  rw [filterRule_protoOnly env.c.v6 r hr.po]
  exact ruleMatches_bridge env9 he (C08.setNameFor false) pkt9 env p hv hpr r hr

end CalicoVerif.C12
