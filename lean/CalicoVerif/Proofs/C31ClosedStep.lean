import CalicoVerif.Proofs.C31Closed
/-! C31 — every step's burst is guarded on every channel, hence every prefix of every stream is closed. -/
namespace CalicoVerif.C31

theorem msgsOf_broadcast_mem (m : Msg) (eps : AMap EpInfo) (c : Nat) : ∀ x ∈ msgsOf (broadcast m eps) c, x = m := by
  intro x hx
  simp only [msgsOf, broadcast, List.mem_filterMap] at hx
  obtain ⟨e, ⟨kv, _, hkv⟩, he⟩ := hx
  cases ho : kv.2.output with
  | none => simp [ho] at hkv
  | some c0 =>
    simp only [ho, Option.map_some, Option.some.injEq] at hkv
    subst hkv
    by_cases hc : c0 = c
    · simp only [hc, if_true, Option.some.injEq] at he; exact he.symm
    · simp [hc] at he

theorem hexI_of {p : Proc} (hg : Good p) {w : Nat} {ei : EpInfo} {v : View} (hok : EpOK p w ei v) :
    ∀ x ∈ ei.syncedIP, (p.ipsets.get x).isSome :=
  fun x hx => needed_isSome hg.polRefs hg.profRefs ((hok.exact.ipsets x).1 hx)

theorem hexP_of {p : Proc} (hg : Good p) {w : Nat} {ei : EpInfo} {v : View} (hok : EpOK p w ei v) (hm : (w, ei) ∈ p.eps) :
    (∀ id ∈ ei.syncedPol, (p.pols.get id).isSome) ∧ (∀ id ∈ ei.syncedProf, (p.profs.get id).isSome) := by
  cases he : ei.ep with
  | none =>
    refine ⟨fun id hid => ?_, fun id hid => ?_⟩
    · have := (hok.exact.pols id).1 hid; rw [he] at this; simp [epPols] at this
    · have := (hok.exact.profs id).1 hid; rw [he] at this; simp [epProfs] at this
  | some e =>
    obtain ⟨_, _, c, d⟩ := hg.epRefs (w, ei) hm e he
    refine ⟨fun id hid => c id ?_, fun id hid => d id ?_⟩
    · have := (hok.exact.pols id).1 hid; rw [he] at this; exact this
    · have := (hok.exact.profs id).1 hid; rw [he] at this; exact this

/-- a loop over the updateable endpoints whose per-endpoint bursts are guarded -/
theorem each_guarded {p : Proc} {cl : List Nat} {evs new : List Ev} {f : EpInfo → Option (EpInfo × List Msg)} {eps' : AMap EpInfo}
    (hch : ChanInv p cl) (hs : Streams p evs) (hf : KeepsAll f) (h : eachUpdateable f p.eps = some (eps', new))
    (hG : ∀ w ei ei' ms v, EpOK p w ei v → (w, ei) ∈ p.eps → f ei = some (ei', ms) → Guarded v ms) :
    ∀ c, Guarded (viewOf evs c) (msgsOf new c) := by
  intro c
  obtain ⟨_, hchans, hev⟩ := each_chan hf.keeps h
  by_cases hc : c ∈ chans p.eps
  · rw [← hchans] at hc
    obtain ⟨kv', hkv', ho'⟩ := mem_chans.1 hc
    obtain ⟨ei, hm, ho, _, _, _, hsome⟩ := each_lift hf hch.nodup h kv' hkv'
    rw [ho] at ho'
    obtain ⟨ms, hfe, hmsgs⟩ := hsome c ho'
    rw [hmsgs]
    exact hG kv'.1 ei kv'.2 ms _ (hs (kv'.1, ei) hm c ho') hm hfe
  · rw [msgsOf_nil_of_notin (fun e he hec => hc (by rw [← hec]; exact (hev e he).2))]
    trivial

theorem trivial_guard_bcast {m : Msg} (hm : m.kind = .sa ∨ m.kind = .ns ∨ m.kind = .sync) : ∀ v, guard v m := by
  intro v
  cases m <;> simp_all [Msg.kind, guard]

theorem bcast_guarded (m : Msg) (hm : m.kind = .sa ∨ m.kind = .ns ∨ m.kind = .sync) (eps : AMap EpInfo) (v : View) (c : Nat) :
    Guarded v (msgsOf (broadcast m eps) c) :=
  guarded_of_trivial (fun x hx => by rw [msgsOf_broadcast_mem m eps c x hx]; exact trivial_guard_bcast hm) v

theorem msgsOf_evsFor (o : Option Nat) (ms : List Msg) (c : Nat) : msgsOf (evsFor o ms) c = if o = some c then ms else [] := by
  cases o with
  | none => simp [evsFor, msgsOf]
  | some c0 =>
    by_cases h : c0 = c
    · subst h; simp [evsFor, msgsOf_tag]
    · have : ¬ (some c0 = some c) := fun e => h (Option.some.inj e)
      simp only [evsFor, this, if_false]; exact msgsOf_tag_ne h ms

/-- **every step's burst is guarded on every channel** -/
theorem step_guarded {p p' : Proc} {evs new : List Ev} {op : Op} (hi : Inv p evs) (hpre : Pre p op)
    (hs : step p op = some (p', new)) : ∀ c, Guarded (viewOf evs c) (msgsOf new c) := by
  obtain ⟨⟨cl, hch⟩, hg, hst, hb⟩ := hi
  intro c
  cases op with
  | inSync =>
    simp only [step, handleInSync, Option.some.injEq] at hs
    by_cases h1 : p.inSync = true
    · simp only [h1, if_true, Prod.mk.injEq] at hs; obtain ⟨_, rfl⟩ := hs; trivial
    · simp only [h1, Bool.false_eq_true, if_false, Prod.mk.injEq] at hs; obtain ⟨_, rfl⟩ := hs
      exact bcast_guarded _ (Or.inr (Or.inr rfl)) _ _ _
  | sa id x =>
    simp only [step, Option.some.injEq, Prod.mk.injEq] at hs; obtain ⟨_, rfl⟩ := hs
    exact bcast_guarded _ (Or.inl rfl) _ _ _
  | saRm id =>
    simp only [step, Option.some.injEq, Prod.mk.injEq] at hs; obtain ⟨_, rfl⟩ := hs
    exact bcast_guarded _ (Or.inl rfl) _ _ _
  | ns id x =>
    simp only [step, Option.some.injEq, Prod.mk.injEq] at hs; obtain ⟨_, rfl⟩ := hs
    exact bcast_guarded _ (Or.inr (Or.inl rfl)) _ _ _
  | nsRm id =>
    simp only [step, Option.some.injEq, Prod.mk.injEq] at hs; obtain ⟨_, rfl⟩ := hs
    exact bcast_guarded _ (Or.inr (Or.inl rfl)) _ _ _
  | polRm id => simp only [step, Option.some.injEq, Prod.mk.injEq] at hs; obtain ⟨_, rfl⟩ := hs; trivial
  | profRm id => simp only [step, Option.some.injEq, Prod.mk.injEq] at hs; obtain ⟨_, rfl⟩ := hs; trivial
  | ipRm id => simp only [step, Option.some.injEq, Prod.mk.injEq] at hs; obtain ⟨_, rfl⟩ := hs; trivial
  | pol id r =>
    simp only [step, handlePolUpdate] at hs
    split at hs
    · cases hs
    · next eps' evs' he =>
      simp only [Option.some.injEq, Prod.mk.injEq] at hs; obtain ⟨_, rfl⟩ := hs
      exact each_guarded hch hst (refreshOne_keepsAll _ _ _ _) he
        (fun w ei ei' ms v hok _ hf => refreshPol_guarded hok (hexI_of hg hok) hf) c
  | prof id r =>
    simp only [step, handleProfUpdate] at hs
    split at hs
    · cases hs
    · next eps' evs' he =>
      simp only [Option.some.injEq, Prod.mk.injEq] at hs; obtain ⟨_, rfl⟩ := hs
      exact each_guarded hch hst (refreshOne_keepsAll _ _ _ _) he
        (fun w ei ei' ms v hok _ hf => refreshProf_guarded hok (hexI_of hg hok) hf) c
  | ipset id ms =>
    simp only [step, handleIPUpdate] at hs
    cases hget : p.ipsets.get id with
    | none => simp only [hget, Option.some.injEq, Prod.mk.injEq] at hs; obtain ⟨_, rfl⟩ := hs; trivial
    | some cur =>
      simp only [hget] at hs
      split at hs
      · cases hs
      · next eps' evs' he =>
        simp only [Option.some.injEq, Prod.mk.injEq] at hs; obtain ⟨_, rfl⟩ := hs
        exact each_guarded hch hst (ipUpdOne_keepsAll _ _ _) he (fun w ei ei' ms' v _ _ hf => ipUpdOne_guarded hf v) c
  | ipDelta id a d =>
    simp only [step, handleIPDelta] at hs
    cases hd : deltaStore p id a d with
    | none => simp only [hd] at hs; cases hs
    | some p1 =>
      simp only [hd] at hs
      have hp1 := deltaStore_eps hd
      split at hs
      · cases hs
      · next eps' evs' he =>
        simp only [Option.some.injEq, Prod.mk.injEq] at hs; obtain ⟨_, rfl⟩ := hs
        rw [hp1.1] at he
        exact each_guarded hch hst (ipDeltaOne_keepsAll _ _ _ _) he (fun w ei ei' ms' v _ _ hf => ipDeltaOne_guarded hf v) c
  | ep w e =>
    simp only [step, handleEpUpdate] at hs
    cases hm : maybeSync p w (epForUpdate p w e) with
    | none => simp only [hm] at hs; cases hs
    | some r =>
      obtain ⟨ei', ms⟩ := r
      simp only [hm, Option.some.injEq, Prod.mk.injEq] at hs; obtain ⟨_, rfl⟩ := hs
      rw [msgsOf_evsFor]
      by_cases hoc : ei'.output = some c
      · simp only [hoc, if_true]
        have hout := maybeSync_output hm
        rw [hout.1] at hoc
        unfold epForUpdate at hoc hm
        cases hgw : p.eps.get w with
        | none => simp [hgw] at hoc
        | some ei =>
          simp only [hgw] at hoc hm
          have hmem := AMap.mem_of_get hgw
          have hok := hst (w, ei) hmem c hoc
          obtain ⟨hP, hF⟩ := hexP_of hg hok hmem
          exact maybeSync_guarded (ei := { ei with ep := some e }) (e := e) (c := c)
            ⟨hok.core.pols, hok.core.profs, hok.core.ipsets⟩ rfl hoc (fun x hx => hexI_of hg hok x hx) hP hF hm
      · simp only [hoc, if_false]; trivial
  | epRm w =>
    simp only [step, handleEpRemove] at hs
    cases hgw : p.eps.get w with
    | none => simp only [hgw] at hs; cases hs
    | some ei =>
      simp only [hgw, Option.some.injEq, Prod.mk.injEq] at hs; obtain ⟨_, rfl⟩ := hs
      rw [msgsOf_append, msgsOf_closeEv, List.append_nil, msgsOf_evsFor]
      split
      · exact ⟨trivial, trivial⟩
      · trivial
  | leave w uid =>
    have : msgsOf new c = [] := by
      simp only [step, handleLeave] at hs
      cases hgw : p.eps.get w with
      | none => simp only [hgw, Option.some.injEq, Prod.mk.injEq] at hs; obtain ⟨_, rfl⟩ := hs; rfl
      | some ei =>
        simp only [hgw] at hs
        by_cases hu : (ei.joinUID != uid) = true
        · simp only [hu, if_true, Option.some.injEq, Prod.mk.injEq] at hs; obtain ⟨_, rfl⟩ := hs; rfl
        · simp only [hu] at hs
          cases ho : ei.output with
          | none => simp only [ho] at hs; cases hs
          | some c0 =>
            simp only [ho, Option.some.injEq, Prod.mk.injEq] at hs; obtain ⟨_, rfl⟩ := hs
            by_cases h : c0 = c <;> simp [msgsOf, h]
    rw [this]; trivial
  | join w uid =>
    simp only [step, handleJoin] at hs
    cases hm : maybeSync p w { joinOld p w with joinUID := uid, output := some p.nextCh, syncedPol := [], syncedProf := [], syncedIP := [] } with
    | none => simp only [hm] at hs; cases hs
    | some r =>
      obtain ⟨ei', ms⟩ := r
      simp only [hm, Option.some.injEq, Prod.mk.injEq] at hs; obtain ⟨_, rfl⟩ := hs
      rw [msgsOf_append, msgsOf_closeEv, List.nil_append]
      by_cases hc : p.nextCh = c
      · subst hc
        rw [msgsOf_tag]
        have hempty : viewOf evs p.nextCh = View.empty := by
          unfold viewOf
          rw [msgsOf_nil_of_notin (fun e he => Nat.ne_of_lt (hb e he))]; rfl
        rw [hempty]
        have g1 : Guarded View.empty ms := by
          cases hep : (joinOld p w).ep with
          | none =>
            have : maybeSync p w { joinOld p w with joinUID := uid, output := some p.nextCh, syncedPol := [], syncedProf := [], syncedIP := [] }
                = some ({ joinOld p w with joinUID := uid, output := some p.nextCh, syncedPol := [], syncedProf := [], syncedIP := [] }, []) := by
              unfold maybeSync; simp only [hep]
            rw [this] at hm
            simp only [Option.some.injEq, Prod.mk.injEq] at hm
            obtain ⟨_, rfl⟩ := hm
            trivial
          | some e =>
            exact maybeSync_guarded (c := p.nextCh)
              (ei := { joinOld p w with joinUID := uid, output := some p.nextCh, syncedPol := [], syncedProf := [], syncedIP := [] })
              ⟨fun id => by simp [View.empty], fun id => by simp [View.empty], fun x => by simp [View.empty]⟩ hep rfl
              (fun x hx => by simp at hx) (fun x hx => by simp at hx) (fun x hx => by simp at hx) hm
        refine guarded_append (guarded_append (guarded_append g1 ?_) ?_) ?_
        · refine guarded_of_trivial (fun x hx v => ?_) _
          simp only [List.mem_map] at hx; obtain ⟨kv, _, rfl⟩ := hx; trivial
        · refine guarded_of_trivial (fun x hx v => ?_) _
          simp only [List.mem_map] at hx; obtain ⟨kv, _, rfl⟩ := hx; trivial
        · refine guarded_of_trivial (fun x hx v => ?_) _
          by_cases hsy : p.inSync = true <;> simp [hsy] at hx
          subst hx; trivial
      · rw [msgsOf_tag_ne hc]; trivial

/-- every channel's stream so far keeps the client closed after each of its messages -/
def ClosedAll (evs : List Ev) : Prop := ∀ c, ClosedAlong View.empty (msgsOf evs c)

theorem closedAll_nil : ClosedAll [] := by
  intro c
  exact ⟨fun w e h => by simp [View.empty] at h, fun w e h => by simp [View.empty] at h,
    fun id r h => by simp [View.empty] at h, fun id r h => by simp [View.empty] at h⟩

theorem closedAll_step {p p' : Proc} {evs new : List Ev} {op : Op} (hi : Inv p evs) (hca : ClosedAll evs) (hpre : Pre p op)
    (hs : step p op = some (p', new)) : ClosedAll (evs ++ new) := by
  intro c
  rw [msgsOf_append]
  refine closedAlong_append (hca c) ?_
  exact closedAlong_of_guarded (closedAlong_last (hca c)) (step_guarded hi hpre hs c)

theorem valid_closedAll {p p' : Proc} {ops : List Op} {pre evs : List Ev} (hi : Inv p pre) (hca : ClosedAll pre)
    (hv : Valid p ops p' evs) : ClosedAll (pre ++ evs) := by
  induction hv generalizing pre with
  | nil p => rw [List.append_nil]; exact hca
  | cons hpre hs _ ih =>
    rw [← List.append_assoc]
    exact ih (step_inv hi hpre hs) (closedAll_step hi hca hpre hs)

end CalicoVerif.C31
