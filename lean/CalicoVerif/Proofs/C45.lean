import CalicoVerif.Model.C45
/-!
C45 — helper lemmas for `CalicoVerif.Props.C45` (core Lean only).

Plan: an inductive invariant `Inv` of reachable rings (entries are a permutation
of the virtual nodes of the keys in `members`; pending deletes are members;
`sorted` ⇒ entries sorted), the effect of every operation on the live member
map `Ring.live`, and "sorted + permutation ⇒ equal" for the entry order, so
that after the sweep and sort inside `Lookup` the entry table is a function of
the live key SET only.
-/
namespace CalicoVerif.C45

variable {V : Type}

/-! ### association lists (Go maps) -/

def keys (m : List (Key × V)) : List Key := m.map (·.1)

theorem mget_isSome_iff (m : List (Key × V)) (k : Key) : (mget m k).isSome ↔ k ∈ keys m := by
  induction m with
  | nil => simp [mget, keys]
  | cons kv rest ih =>
    obtain ⟨k', v'⟩ := kv
    simp only [mget, keys, List.map_cons, List.mem_cons]
    by_cases h : k' = k
    · simp [h]
    · have : ¬ k = k' := fun e => h e.symm
      simp only [h, if_false, this, false_or]
      exact ih

theorem mget_none_iff (m : List (Key × V)) (k : Key) : mget m k = none ↔ k ∉ keys m := by
  rw [← mget_isSome_iff]; cases mget m k <;> simp

theorem mget_mset (m : List (Key × V)) (k k' : Key) (v : V) :
    mget (mset m k v) k' = if k = k' then some v else mget m k' := by
  induction m with
  | nil => simp [mset, mget]
  | cons kv rest ih =>
    obtain ⟨k0, v0⟩ := kv
    simp only [mset]
    by_cases h0 : k0 = k
    · subst h0
      by_cases h1 : k0 = k' <;> simp [mget, h1]
    · simp only [h0, if_false, mget, ih]
      by_cases h1 : k0 = k'
      · have : ¬ k = k' := fun e => h0 (h1.trans e.symm)
        simp [h1, this]
      · simp [h1]

theorem keys_mset_of_mem (m : List (Key × V)) (k : Key) (v : V) (h : k ∈ keys m) :
    keys (mset m k v) = keys m := by
  induction m with
  | nil => simp [keys] at h
  | cons kv rest ih =>
    obtain ⟨k0, v0⟩ := kv
    simp only [mset]
    by_cases h0 : k0 = k
    · simp [h0, keys]
    · simp only [h0, if_false, keys, List.map_cons, List.cons.injEq, true_and]
      have : k ∈ keys rest := by
        simp only [keys, List.map_cons, List.mem_cons] at h
        rcases h with h | h
        · exact absurd h.symm h0
        · exact h
      exact ih this

theorem keys_mset_of_not_mem (m : List (Key × V)) (k : Key) (v : V) (h : k ∉ keys m) :
    keys (mset m k v) = keys m ++ [k] := by
  induction m with
  | nil => simp [keys, mset]
  | cons kv rest ih =>
    obtain ⟨k0, v0⟩ := kv
    simp only [keys, List.map_cons, List.mem_cons, not_or] at h
    have h0 : ¬ k0 = k := fun e => h.1 e.symm
    simp only [mset, h0, if_false, keys, List.map_cons, List.cons_append, List.cons.injEq, true_and]
    exact ih h.2

theorem mget_filter_key (m : List (Key × V)) (p : Key → Bool) (k : Key) :
    mget (m.filter (fun kv => p kv.1)) k = if p k then mget m k else none := by
  induction m with
  | nil => simp [mget]
  | cons kv rest ih =>
    obtain ⟨k0, v0⟩ := kv
    simp only [List.filter_cons]
    by_cases h0 : k0 = k
    · subst h0
      by_cases hp : p k0 = true
      · simp [hp, mget]
      · have hp' : p k0 = false := by simpa using hp
        simp only [hp', Bool.false_eq_true, if_false, ih]
    · by_cases hp : p k0 = true
      · simp [hp, mget, h0, ih]
      · have hp' : p k0 = false := by simpa using hp
        simp [hp', mget, h0, ih]

theorem keys_filter_key (m : List (Key × V)) (p : Key → Bool) :
    keys (m.filter (fun kv => p kv.1)) = (keys m).filter p := by
  induction m with
  | nil => rfl
  | cons kv rest ih =>
    simp only [List.filter_cons, keys, List.map_cons]
    by_cases hp : p kv.1 = true
    · simp only [hp, if_true, List.map_cons]; exact congrArg _ ih
    · have hp' : p kv.1 = false := by simpa using hp
      simp only [hp', Bool.false_eq_true, if_false]; exact ih

/-! ### the entry order is a linear order -/

theorem Key.le_total (a b : Key) : a ≤ b ∨ b ≤ a := List.le_total a b
theorem Key.le_antisymm {a b : Key} (h1 : a ≤ b) (h2 : b ≤ a) : a = b := List.le_antisymm h1 h2
theorem Key.le_trans {a b c : Key} (h1 : a ≤ b) (h2 : b ≤ c) : a ≤ c := List.le_trans h1 h2

theorem Entry.le_total (a b : Entry) : (Entry.le a b || Entry.le b a) = true := by
  simp only [Entry.le, Bool.or_eq_true, Bool.and_eq_true, decide_eq_true_eq]
  rcases Nat.lt_trichotomy a.hash b.hash with h | h | h
  · exact Or.inl (Or.inl h)
  · rcases Key.le_total a.key b.key with hk | hk
    · exact Or.inl (Or.inr ⟨h, hk⟩)
    · exact Or.inr (Or.inr ⟨h.symm, hk⟩)
  · exact Or.inr (Or.inl h)

theorem Entry.le_trans (a b c : Entry) (h1 : Entry.le a b = true) (h2 : Entry.le b c = true) :
    Entry.le a c = true := by
  simp only [Entry.le, Bool.or_eq_true, Bool.and_eq_true, decide_eq_true_eq] at *
  rcases h1 with h1 | ⟨h1, k1⟩
  · rcases h2 with h2 | ⟨h2, _⟩
    · exact Or.inl (by omega)
    · exact Or.inl (by omega)
  · rcases h2 with h2 | ⟨h2, k2⟩
    · exact Or.inl (by omega)
    · exact Or.inr ⟨by omega, Key.le_trans k1 k2⟩

theorem Entry.le_antisymm {a b : Entry} (h1 : Entry.le a b = true) (h2 : Entry.le b a = true) :
    a = b := by
  simp only [Entry.le, Bool.or_eq_true, Bool.and_eq_true, decide_eq_true_eq] at *
  obtain ⟨ha, ka⟩ := a
  obtain ⟨hb, kb⟩ := b
  simp only at h1 h2
  rcases h1 with h1 | ⟨h1, k1⟩
  · rcases h2 with h2 | ⟨h2, _⟩ <;> omega
  · rcases h2 with h2 | ⟨_, k2⟩
    · omega
    · rw [h1, Key.le_antisymm k1 k2]

/-- Two lists sorted by a total antisymmetric order that are permutations of
each other are equal. -/
theorem sorted_perm_eq : ∀ {l1 l2 : List Entry},
    l1.Pairwise (fun a b => Entry.le a b = true) → l2.Pairwise (fun a b => Entry.le a b = true) →
    l1.Perm l2 → l1 = l2
  | [], l2, _, _, hp => (List.Perm.eq_nil hp.symm).symm
  | a :: l1, [], _, _, hp => by have := List.Perm.eq_nil hp; simp at this
  | a :: l1, b :: l2, h1, h2, hp => by
    rw [List.pairwise_cons] at h1 h2
    have hab : a = b := by
      have ha : a ∈ b :: l2 := hp.mem_iff.1 (by simp)
      have hb : b ∈ a :: l1 := hp.mem_iff.2 (by simp)
      simp only [List.mem_cons] at ha hb
      rcases ha with ha | ha
      · exact ha
      · rcases hb with hb | hb
        · exact hb.symm
        · exact Entry.le_antisymm (h1.1 b hb) (h2.1 a ha)
    subst hab
    rw [sorted_perm_eq h1.2 h2.2 hp.cons_inv]

theorem mergeSort_sorted (l : List Entry) :
    (l.mergeSort Entry.le).Pairwise (fun a b => Entry.le a b = true) :=
  List.pairwise_mergeSort Entry.le_trans Entry.le_total l


/-! ### the invariant of reachable rings -/

/-- Virtual nodes of a list of keys, in key order. -/
def vnodes (H : List Nat → Nat) (R : Nat) (ks : List Key) : List Entry :=
  ks.flatMap (replicaEntries H R)

theorem mem_replicaEntries {H : List Nat → Nat} {R : Nat} {k : Key} {e : Entry}
    (h : e ∈ replicaEntries H R k) : e.key = k := by
  simp only [replicaEntries, List.mem_map] at h
  obtain ⟨i, -, rfl⟩ := h
  rfl

theorem mem_vnodes {H : List Nat → Nat} {R : Nat} {ks : List Key} {e : Entry}
    (h : e ∈ vnodes H R ks) : e.key ∈ ks := by
  simp only [vnodes, List.mem_flatMap] at h
  obtain ⟨k, hk, he⟩ := h
  rw [mem_replicaEntries he]; exact hk

theorem vnodes_filter (H : List Nat → Nat) (R : Nat) (ks : List Key) (p : Key → Bool) :
    (vnodes H R ks).filter (fun e => p e.key) = vnodes H R (ks.filter p) := by
  induction ks with
  | nil => rfl
  | cons k rest ih =>
    simp only [vnodes, List.flatMap_cons, List.filter_append] at ih ⊢
    rw [ih]
    by_cases hp : p k = true
    · have : (replicaEntries H R k).filter (fun e => p e.key) = replicaEntries H R k := by
        rw [List.filter_eq_self]; intro e he; rw [mem_replicaEntries he]; exact hp
      simp [hp, this]
    · have hp' : p k = false := by simpa using hp
      have : (replicaEntries H R k).filter (fun e => p e.key) = [] := by
        rw [List.filter_eq_nil_iff]; intro e he; rw [mem_replicaEntries he]; simp [hp']
      simp [hp', this]

theorem vnodes_ne_nil {H : List Nat → Nat} {R : Nat} {ks : List Key} (hR : 1 ≤ R) (hk : ks ≠ []) :
    vnodes H R ks ≠ [] := by
  cases ks with
  | nil => exact absurd rfl hk
  | cons k rest =>
    intro h
    have : replicaEntries H R k = [] := by
      simp only [vnodes, List.flatMap_cons, List.append_eq_nil_iff] at h; exact h.1
    simp only [replicaEntries, List.map_eq_nil_iff, List.range_eq_nil] at this
    omega

structure Inv (H : List Nat → Nat) (r : Ring V) : Prop where
  nodupKeys : (keys r.members).Nodup
  nodupDel : r.deleted.Nodup
  delSub : ∀ k ∈ r.deleted, k ∈ keys r.members
  perm : r.entries.Perm (vnodes H r.replicas (keys r.members))
  sorted : r.sorted = true → r.entries.Pairwise (fun a b => Entry.le a b = true)
  pos : 1 ≤ r.replicas ∧ 1 ≤ r.probes

theorem inv_new (H : List Nat → Nat) {R P : Int} {r : Ring V} (h : Ring.new R P = some r) :
    Inv H r ∧ r.replicas = R.toNat ∧ r.probes = P.toNat ∧ ∀ k, r.live k = none := by
  unfold Ring.new at h
  split at h
  · simp at h
  · next hc =>
    simp only [Option.some.injEq] at h
    subst h
    refine ⟨⟨by simp [keys], by simp, by simp, by simp [keys, vnodes], by simp, ?_⟩, rfl, rfl, ?_⟩
    · simp only; omega
    · intro k; simp [Ring.live, mget]

theorem inv_insert (H : List Nat → Nat) {r : Ring V} (hi : Inv H r) (k : Key) (v : V) :
    Inv H (r.insert H k v) := by
  unfold Ring.insert
  by_cases hd : k ∈ r.deleted
  · have hk : k ∈ keys r.members := hi.delSub k hd
    simp only [hd, if_true]
    refine ⟨?_, ?_, ?_, ?_, hi.sorted, hi.pos⟩
    · show (keys (mset r.members k v)).Nodup
      rw [keys_mset_of_mem _ _ _ hk]; exact hi.nodupKeys
    · exact List.Pairwise.filter _ hi.nodupDel
    · intro k' hk'
      show k' ∈ keys (mset r.members k v)
      rw [keys_mset_of_mem _ _ _ hk]
      exact hi.delSub k' (List.mem_filter.1 hk').1
    · show r.entries.Perm (vnodes H r.replicas (keys (mset r.members k v)))
      rw [keys_mset_of_mem _ _ _ hk]; exact hi.perm
  · simp only [hd, if_false]
    by_cases hm : (mget r.members k).isSome = true
    · have hk : k ∈ keys r.members := (mget_isSome_iff _ _).1 hm
      simp only [hm, if_true]
      refine ⟨?_, hi.nodupDel, ?_, ?_, hi.sorted, hi.pos⟩
      · show (keys (mset r.members k v)).Nodup
        rw [keys_mset_of_mem _ _ _ hk]; exact hi.nodupKeys
      · intro k' hk'
        show k' ∈ keys (mset r.members k v)
        rw [keys_mset_of_mem _ _ _ hk]; exact hi.delSub k' hk'
      · show r.entries.Perm (vnodes H r.replicas (keys (mset r.members k v)))
        rw [keys_mset_of_mem _ _ _ hk]; exact hi.perm
    · have hk : k ∉ keys r.members := fun h => hm ((mget_isSome_iff _ _).2 h)
      simp only [hm, Bool.false_eq_true, if_false]
      refine ⟨?_, hi.nodupDel, ?_, ?_, by simp, hi.pos⟩
      · show (keys (mset r.members k v)).Nodup
        rw [keys_mset_of_not_mem _ _ _ hk, List.nodup_append]
        refine ⟨hi.nodupKeys, by simp, ?_⟩
        intro a ha b hb
        simp only [List.mem_singleton] at hb
        subst hb
        intro e; subst e; exact hk ha
      · intro k' hk'
        show k' ∈ keys (mset r.members k v)
        rw [keys_mset_of_not_mem _ _ _ hk]
        exact List.mem_append_left _ (hi.delSub k' hk')
      · show (r.entries ++ replicaEntries H r.replicas k).Perm
          (vnodes H r.replicas (keys (mset r.members k v)))
        rw [keys_mset_of_not_mem _ _ _ hk]
        simp only [vnodes, List.flatMap_append, List.flatMap_cons, List.flatMap_nil, List.append_nil]
        exact List.Perm.append_right _ hi.perm

theorem inv_remove (H : List Nat → Nat) {r : Ring V} (hi : Inv H r) (k : Key) :
    Inv H (r.remove k) := by
  unfold Ring.remove
  by_cases hm : (mget r.members k).isNone = true
  · simp only [hm, if_true]; exact hi
  · simp only [hm, Bool.false_eq_true, if_false]
    by_cases hd : k ∈ r.deleted
    · simp only [hd, if_true]; exact hi
    · simp only [hd, if_false]
      have hk : k ∈ keys r.members := by
        rw [← mget_isSome_iff]
        cases h : mget r.members k with
        | none => simp [h] at hm
        | some _ => rfl
      refine ⟨hi.nodupKeys, ?_, ?_, hi.perm, hi.sorted, hi.pos⟩
      · show (k :: r.deleted).Nodup
        rw [List.nodup_cons]; exact ⟨hd, hi.nodupDel⟩
      · intro k' hk'
        simp only [List.mem_cons] at hk'
        rcases hk' with rfl | hk'
        · exact hk
        · exact hi.delSub k' hk'

/-- The sweep, without the `len(deletedKeys) > 0` shortcut (which changes nothing). -/
theorem sweep_eq (r : Ring V) :
    r.sweep = { r with entries := r.entries.filter (fun e => !(r.deleted.contains e.key)),
                       members := r.members.filter (fun kv => !(r.deleted.contains kv.1)),
                       deleted := [] } := by
  unfold Ring.sweep
  by_cases h : r.deleted.length > 0
  · simp only [h, if_true]
  · have hd : r.deleted = [] := by
      cases hdel : r.deleted with
      | nil => rfl
      | cons a l => rw [hdel] at h; simp at h
    simp only [h, if_false]
    have h1 : r.entries.filter (fun e => !(r.deleted.contains e.key)) = r.entries := by
      rw [List.filter_eq_self]; intro a _; simp [hd]
    have h2 : r.members.filter (fun kv => !(r.deleted.contains kv.1)) = r.members := by
      rw [List.filter_eq_self]; intro a _; simp [hd]
    rw [h1, h2]
    cases r
    simp only at hd
    simp [hd]

theorem inv_sweep (H : List Nat → Nat) {r : Ring V} (hi : Inv H r) : Inv H r.sweep := by
  rw [sweep_eq]
  have hk : keys (r.members.filter (fun kv => !(r.deleted.contains kv.1))) =
      (keys r.members).filter (fun k => !(r.deleted.contains k)) :=
    keys_filter_key r.members (fun k => !(r.deleted.contains k))
  refine ⟨?_, by simp, by simp, ?_, ?_, hi.pos⟩
  · show (keys (r.members.filter _)).Nodup
    rw [hk]; exact List.Pairwise.filter _ hi.nodupKeys
  · show (r.entries.filter _).Perm (vnodes H r.replicas (keys (r.members.filter _)))
    rw [hk, ← vnodes_filter]
    exact List.Perm.filter _ hi.perm
  · intro hs
    exact List.Pairwise.filter _ (hi.sorted hs)

theorem inv_sort (H : List Nat → Nat) {r : Ring V} (hi : Inv H r) :
    Inv H r.sort ∧ r.sort.sorted = true := by
  unfold Ring.sort
  by_cases hs : r.sorted = true
  · simp only [hs, Bool.not_true, Bool.false_eq_true, if_false]; exact ⟨hi, trivial⟩
  · have hs' : r.sorted = false := by simpa using hs
    simp only [hs', Bool.not_false, if_true, and_true]
    refine ⟨hi.nodupKeys, hi.nodupDel, hi.delSub, ?_, ?_, hi.pos⟩
    · exact (List.mergeSort_perm _ _).trans hi.perm
    · intro _; exact mergeSort_sorted _

theorem sort_fields (r : Ring V) : r.sort.members = r.members ∧ r.sort.deleted = r.deleted ∧
    r.sort.replicas = r.replicas ∧ r.sort.probes = r.probes := by
  unfold Ring.sort; split <;> simp

theorem sweep_fields (r : Ring V) : r.sweep.deleted = [] ∧ r.sweep.replicas = r.replicas ∧
    r.sweep.probes = r.probes := by
  rw [sweep_eq]; simp

/-! ### effect of the operations on the live member map -/

theorem live_insert (H : List Nat → Nat) (r : Ring V) (k k' : Key) (v : V) :
    (r.insert H k v).live k' = if k' = k then some v else r.live k' := by
  unfold Ring.insert
  by_cases hd : k ∈ r.deleted
  · simp only [hd, if_true, Ring.live, List.mem_filter, mget_mset]
    by_cases hk : k' = k
    · subst hk; simp
    · have : ¬ k = k' := fun e => hk e.symm
      simp [hk, this]
  · simp only [hd, if_false]
    by_cases hk : k' = k
    · subst hk
      split <;> simp [Ring.live, hd, mget_mset]
    · have : ¬ k = k' := fun e => hk e.symm
      split <;> simp [Ring.live, mget_mset, this]

theorem live_remove (r : Ring V) (k k' : Key) :
    (r.remove k).live k' = if k' = k then none else r.live k' := by
  unfold Ring.remove
  by_cases hm : (mget r.members k).isNone = true
  · simp only [hm, if_true]
    by_cases hk : k' = k
    · subst hk
      have : mget r.members k' = none := by simpa using hm
      simp [Ring.live, this]
    · simp [hk]
  · simp only [hm, Bool.false_eq_true, if_false]
    by_cases hd : k ∈ r.deleted
    · simp only [hd, if_true]
      by_cases hk : k' = k
      · subst hk; simp [Ring.live, hd]
      · simp [hk]
    · simp only [hd, if_false, Ring.live, List.mem_cons]
      by_cases hk : k' = k
      · simp [hk]
      · simp [hk]

theorem live_sweep (r : Ring V) (k : Key) : r.sweep.live k = r.live k := by
  rw [sweep_eq]
  simp only [Ring.live, List.not_mem_nil, if_false]
  rw [mget_filter_key r.members (fun k => !(r.deleted.contains k)) k]
  by_cases hd : k ∈ r.deleted <;> simp [hd]

theorem live_sort (r : Ring V) (k : Key) : r.sort.live k = r.live k := by
  unfold Ring.sort; split <;> rfl

theorem lookup_state (H : List Nat → Nat) (r : Ring V) (q : Key) :
    (r.lookup H q).1 = r ∨ (r.lookup H q).1 = r.sweep.sort := by
  unfold Ring.lookup
  split
  · exact Or.inl rfl
  · exact Or.inr rfl

theorem inv_step (H : List Nat → Nat) {r : Ring V} (hi : Inv H r) (op : Op V) :
    Inv H (r.step H op) := by
  cases op with
  | insert k v => exact inv_insert H hi k v
  | remove k => exact inv_remove H hi k
  | lookup q =>
    rcases lookup_state H r q with h | h
    · simp only [Ring.step, h]; exact hi
    · simp only [Ring.step, h]; exact (inv_sort H (inv_sweep H hi)).1

theorem live_lookup (H : List Nat → Nat) (r : Ring V) (q k : Key) :
    (r.lookup H q).1.live k = r.live k := by
  rcases lookup_state H r q with h | h
  · rw [h]
  · rw [h, live_sort, live_sweep]

theorem step_fields (H : List Nat → Nat) (r : Ring V) (op : Op V) :
    (r.step H op).replicas = r.replicas ∧ (r.step H op).probes = r.probes := by
  cases op with
  | insert k v =>
    simp only [Ring.step, Ring.insert]
    split
    · simp
    · split <;> simp
  | remove k =>
    simp only [Ring.step, Ring.remove]
    split
    · simp
    · split <;> simp
  | lookup q =>
    rcases lookup_state H r q with h | h
    · simp only [Ring.step, h, and_self]
    · simp only [Ring.step, h]
      rw [(sort_fields _).2.2.1, (sort_fields _).2.2.2, (sweep_fields _).2.1, (sweep_fields _).2.2]
      exact ⟨rfl, rfl⟩

theorem inv_run (H : List Nat → Nat) : ∀ (ops : List (Op V)) {r : Ring V}, Inv H r →
    Inv H (r.run H ops) ∧ (r.run H ops).replicas = r.replicas ∧ (r.run H ops).probes = r.probes
  | [], r, hi => ⟨hi, rfl, rfl⟩
  | op :: ops, r, hi => by
    have := inv_run H ops (inv_step H hi op)
    simp only [Ring.run, List.foldl_cons] at this ⊢
    rw [(step_fields H r op).1, (step_fields H r op).2] at this
    exact this


/-! ### Len, the canonical entry table, and the probe loop -/

/-- Keys of the live members, in `members` order. -/
def liveKeys (r : Ring V) : List Key := (keys r.members).filter (fun k => !(r.deleted.contains k))

theorem mem_liveKeys (r : Ring V) (k : Key) : k ∈ liveKeys r ↔ (r.live k).isSome = true := by
  simp only [liveKeys, List.mem_filter, Ring.live, Bool.not_eq_true', List.contains_eq_mem,
    decide_eq_false_iff_not]
  by_cases hd : k ∈ r.deleted
  · simp [hd]
  · simp [hd, mget_isSome_iff]

theorem length_filter_split (l : List Key) (p : Key → Bool) :
    l.length = (l.filter p).length + (l.filter (fun x => !p x)).length := by
  induction l with
  | nil => rfl
  | cons a l ih =>
    simp only [List.filter_cons, List.length_cons]
    cases p a <;> simp <;> omega

theorem len_eq (H : List Nat → Nat) {r : Ring V} (hi : Inv H r) :
    r.len = ((liveKeys r).length : Int) := by
  have hperm : ((keys r.members).filter (fun k => r.deleted.contains k)).Perm r.deleted := by
    rw [List.perm_ext_iff_of_nodup (List.Pairwise.filter _ hi.nodupKeys) hi.nodupDel]
    intro a
    simp only [List.mem_filter, List.contains_eq_mem, decide_eq_true_eq]
    exact ⟨fun h => h.2, fun h => ⟨hi.delSub a h, h⟩⟩
  have h1 := length_filter_split (keys r.members) (fun k => r.deleted.contains k)
  have h2 := hperm.length_eq
  have h3 : (keys r.members).length = r.members.length := by simp [keys]
  unfold Ring.len liveKeys
  omega

theorem len_zero_iff (H : List Nat → Nat) {r : Ring V} (hi : Inv H r) :
    r.len = 0 ↔ ∀ k, r.live k = none := by
  rw [len_eq H hi]
  constructor
  · intro h k
    have hnil : liveKeys r = [] := List.eq_nil_of_length_eq_zero (by omega)
    have : k ∉ liveKeys r := by rw [hnil]; simp
    rw [mem_liveKeys] at this
    cases hl : r.live k with
    | none => rfl
    | some v => rw [hl] at this; simp at this
  · intro h
    have : liveKeys r = [] := by
      cases hk : liveKeys r with
      | nil => rfl
      | cons a l =>
        have : a ∈ liveKeys r := by rw [hk]; simp
        rw [mem_liveKeys, h a] at this; simp at this
    rw [this]; rfl

/-- After sweep + sort, the entry table and the member map are functions of
the live member map (and `replicas`) only. -/
theorem canon (H : List Nat → Nat) {r1 r2 : Ring V} (hi1 : Inv H r1) (hi2 : Inv H r2)
    (hd1 : r1.deleted = []) (hd2 : r2.deleted = []) (hs1 : r1.sorted = true) (hs2 : r2.sorted = true)
    (hR : r1.replicas = r2.replicas) (hl : ∀ k, r1.live k = r2.live k) :
    r1.entries = r2.entries ∧ ∀ k, mget r1.members k = mget r2.members k := by
  have hm : ∀ k, mget r1.members k = mget r2.members k := by
    intro k
    have := hl k
    simpa [Ring.live, hd1, hd2] using this
  refine ⟨?_, hm⟩
  have hkeys : (keys r1.members).Perm (keys r2.members) := by
    rw [List.perm_ext_iff_of_nodup hi1.nodupKeys hi2.nodupKeys]
    intro a
    rw [← mget_isSome_iff, ← mget_isSome_iff, hm a]
  apply sorted_perm_eq (hi1.sorted hs1) (hi2.sorted hs2)
  refine hi1.perm.trans (List.Perm.trans ?_ hi2.perm.symm)
  rw [hR]
  exact List.Perm.flatMap_right _ hkeys

theorem searchIdx_le (E : List Entry) (p : Nat) : searchIdx E p ≤ E.length := by
  induction E with
  | nil => simp [searchIdx]
  | cons e rest ih =>
    simp only [searchIdx, List.length_cons]
    split <;> omega

/-- On a non-empty entry table the probe loop never indexes out of range. -/
theorem probeStep_ok (H : List Nat → Nat) {E : List Entry} (q : Key) (d i j : Nat) (hi : i < E.length) :
    ∃ d' i', probeStep H E q (some (d, i)) j = some (d', i') ∧ i' < E.length := by
  have hle := searchIdx_le E (saltedHash H q j)
  have hidx : (if searchIdx E (saltedHash H q j) = E.length then 0 else searchIdx E (saltedHash H q j))
      < E.length := by split <;> omega
  simp only [probeStep]
  generalize (if searchIdx E (saltedHash H q j) = E.length then 0
    else searchIdx E (saltedHash H q j)) = idx at hidx ⊢
  rw [List.getElem?_eq_getElem hidx]
  by_cases hlt : (E[idx].hash + 2 ^ 64 - saltedHash H q j) % 2 ^ 64 < d
  · exact ⟨(E[idx].hash + 2 ^ 64 - saltedHash H q j) % 2 ^ 64, idx, by simp only [hlt, if_true], hidx⟩
  · exact ⟨d, i, by simp only [hlt, if_false], hi⟩

theorem fold_ok (H : List Nat → Nat) {E : List Entry} (q : Key) : ∀ (js : List Nat) (d i : Nat),
    i < E.length → ∃ d' i', js.foldl (probeStep H E q) (some (d, i)) = some (d', i') ∧ i' < E.length
  | [], d, i, hi => ⟨d, i, rfl, hi⟩
  | j :: js, d, i, hi => by
    obtain ⟨d1, i1, h1, hi1⟩ := probeStep_ok H q d i j hi
    simp only [List.foldl_cons, h1]
    exact fold_ok H q js d1 i1 hi1

theorem lookup_eq (H : List Nat → Nat) (r : Ring V) (q : Key) :
    (r.lookup H q).2 = if r.len = 0 then Res.absent else
      lookupRes H r.sweep.sort.entries r.sweep.sort.probes (mget r.sweep.sort.members) q := by
  unfold Ring.lookup
  by_cases h : r.len = 0 <;> simp [h]

theorem lookupRes_owner (H : List Nat → Nat) {E : List Entry} (hE : E ≠ []) (P : Nat)
    (mg : Key → Option V) (q : Key) : ∃ e ∈ E, lookupRes H E P mg q = .owner (mg e.key) := by
  have hpos : 0 < E.length := List.length_pos_iff.2 hE
  obtain ⟨d, i, hf, hi⟩ := fold_ok H q (List.range P) (2 ^ 64 - 1) 0 hpos
  refine ⟨E[i], List.getElem_mem hi, ?_⟩
  simp only [lookupRes, hf, List.getElem?_eq_getElem hi]


theorem lookupRes_ne_absent (H : List Nat → Nat) (E : List Entry) (P : Nat) (mg : Key → Option V)
    (q : Key) : lookupRes H E P mg q ≠ .absent := by
  unfold lookupRes
  split
  · simp
  · split <;> simp

/-- State reached inside `Lookup` after sweep and sort, with everything the proofs need. -/
theorem swept (H : List Nat → Nat) {r : Ring V} (hi : Inv H r) :
    Inv H r.sweep.sort ∧ r.sweep.sort.deleted = [] ∧ r.sweep.sort.sorted = true ∧
      r.sweep.sort.replicas = r.replicas ∧ r.sweep.sort.probes = r.probes ∧
      ∀ k, r.sweep.sort.live k = r.live k := by
  obtain ⟨h1, h2⟩ := inv_sort H (inv_sweep H hi)
  obtain ⟨f1, f2, f3, f4⟩ := sort_fields r.sweep
  obtain ⟨g1, g2, g3⟩ := sweep_fields r
  refine ⟨h1, by rw [f2, g1], h2, by rw [f3, g2], by rw [f4, g3], ?_⟩
  intro k; rw [live_sort, live_sweep]

/-! ### building a ring from a list of members -/

theorem live_insertAll (H : List Nat → Nat) : ∀ (kvs : List (Key × V)) (r : Ring V) (k : Key),
    (keys kvs).Nodup →
    (r.run H (insertAll kvs)).live k = if k ∈ keys kvs then mget kvs k else r.live k
  | [], r, k, _ => by simp [insertAll, Ring.run, keys]
  | (k0, v0) :: rest, r, k, hn => by
    simp only [keys, List.map_cons, List.nodup_cons] at hn
    have ih := live_insertAll H rest (r.insert H k0 v0) k hn.2
    simp only [insertAll, Ring.run, List.map_cons, List.foldl_cons, Ring.step] at ih ⊢
    rw [ih, live_insert]
    simp only [keys, List.map_cons, List.mem_cons, mget]
    by_cases hk : k = k0
    · subst hk
      have : k ∉ List.map (fun x => x.fst) rest := hn.1
      simp [this]
    · have : ¬ k0 = k := fun e => hk e.symm
      by_cases hm : k ∈ List.map (fun x => x.fst) rest
      · simp [hk, this, hm]
      · simp [hk, hm]


/-! ### `Ring.live` is the specified member set -/

theorem live_step (H : List Nat → Nat) (r : Ring V) (op : Op V) :
    (r.step H op).live = Op.apply r.live op := by
  funext k
  cases op with
  | insert k0 v => simp only [Ring.step, Op.apply, live_insert]
  | remove k0 => simp only [Ring.step, Op.apply, live_remove]
  | lookup q => simp only [Ring.step, Op.apply, live_lookup]

theorem live_run (H : List Nat → Nat) : ∀ (ops : List (Op V)) (r : Ring V),
    (r.run H ops).live = ops.foldl Op.apply r.live
  | [], r => rfl
  | op :: ops, r => by
    have := live_run H ops (r.step H op)
    simp only [Ring.run, List.foldl_cons] at this ⊢
    rw [this, live_step]

end CalicoVerif.C45
