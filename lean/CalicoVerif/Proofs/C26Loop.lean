import CalicoVerif.Proofs.C26Machine
/-!
C26 — the resync loop always ends (with the fuel `runCall` passes), and when it ends after a full resync
the cache holds exactly one of the scripted successful lists, converted.
-/
namespace CalicoVerif.C26

/-! ### termination -/

theorem listStep_go_ok (wc : WC) (kvs : List KV) (lrev : Nat) (h : lrev ≠ 0) :
    (listStep wc (.ok kvs lrev)).2.2 = true := by
  simp [listStep, h]

theorem listStep_nogo_not_ok (wc : WC) (lo : ListOut) (h : (listStep wc lo).2.2 = false) :
    ∀ kvs lrev, lo = .ok kvs lrev → lrev = 0 := by
  intro kvs lrev e
  subst e
  by_cases c : lrev = 0
  · exact c
  · rw [listStep_go_ok wc kvs lrev c] at h; cases h

theorem watchStep_done_ok (wc : WC) (full : Bool) : (watchStep wc full .ok).2.2 = true := rfl

theorem resyncLoop_some (fin : List KV × Nat) (hfin : fin.2 ≠ 0) :
    ∀ (fuel : Nat) (wc : WC) (full : Bool) (lists : List ListOut) (watches : List WatchOut),
      lists.length + watches.length < fuel → (resyncLoop fin fuel wc full lists watches).isSome = true := by
  intro fuel
  induction fuel with
  | zero => intro wc full lists watches h; omega
  | succ n ih =>
    intro wc full lists watches hlen
    unfold resyncLoop
    simp only
    -- the watch part, common to both branches
    have watchPart : ∀ (w : WC) (f : Bool) (ls : List ListOut), ls.length ≤ lists.length →
        (if (watchStep w f (watches.headD WatchOut.ok)).2.2 = true then
            some (watchStep w f (watches.headD WatchOut.ok)).1
          else resyncLoop fin n (watchStep w f (watches.headD WatchOut.ok)).1
            (watchStep w f (watches.headD WatchOut.ok)).2.1 ls watches.tail).isSome = true := by
      intro w f ls hls
      split
      · rfl
      · rename_i hnd
        cases watches with
        | nil => exact absurd (watchStep_done_ok w f) hnd
        | cons wo ws =>
          apply ih
          simp only [List.tail_cons, List.length_cons] at hlen ⊢
          omega
    by_cases hf : (full || decide (wc.rev = 0)) = true
    · simp only [hf, if_true]
      by_cases hgo : (listStep wc (lists.headD (ListOut.ok fin.1 fin.2))).2.2 = true
      · simp only [hgo, Bool.not_true, Bool.false_eq_true, if_false]
        exact watchPart _ _ _ (by simp)
      · have hgo' : (listStep wc (lists.headD (ListOut.ok fin.1 fin.2))).2.2 = false := by simpa using hgo
        simp only [hgo', Bool.not_false, if_true]
        cases lists with
        | nil =>
          exact absurd (listStep_nogo_not_ok wc _ hgo' fin.1 fin.2 rfl) hfin
        | cons l ls =>
          apply ih
          simp only [List.tail_cons, List.length_cons] at hlen ⊢
          omega
    · simp only [hf, Bool.false_eq_true, if_false, Bool.not_true]
      exact watchPart _ _ _ (Nat.le_refl _)

/-! ### procMode never changes -/

theorem sendDels_mode (wc : WC) : wc.sendDels.procMode = wc.procMode := by
  unfold WC.sendDels
  generalize sortKeys (keysOf wc.res) = ks
  induction ks generalizing wc with
  | nil => rfl
  | cons k ks ih => simp only [List.foldl_cons]; rw [ih, send_procMode]

theorem sendDeletionsForAll_mode (wc : WC) : wc.sendDeletionsForAll.procMode = wc.procMode := by
  unfold WC.sendDeletionsForAll WC.clearAll
  show wc.leaveWaitIfAny.sendDels.procMode = _
  rw [sendDels_mode]
  unfold WC.leaveWaitIfAny
  split
  · exact send_procMode _ _
  · rfl

theorem handleConverted_mode (wc : WC) (kv : KV) : (wc.handleConverted kv).procMode = wc.procMode := by
  unfold WC.handleConverted WC.handleDeleted WC.handleAddMod
  split
  · simp only
    split
    · show (WC.send _ _).procMode = _; rw [send_procMode, markAsValid_procMode]
    · exact markAsValid_procMode _ _
  · simp only
    split
    · split
      · exact markAsValid_procMode _ _
      · show (WC.send _ _).procMode = _; rw [send_procMode, markAsValid_procMode]
    · show (WC.send _ _).procMode = _; rw [send_procMode, markAsValid_procMode]

theorem handleWatchListEvent_mode (wc : WC) (kv : KV) : (wc.handleWatchListEvent kv).procMode = wc.procMode := by
  unfold WC.handleWatchListEvent
  simp only
  split
  · rw [handleConverted_mode]
  · have : ∀ (c : List KV) (w : WC), (c.foldl WC.handleConverted w).procMode = w.procMode := by
      intro c
      induction c with
      | nil => intro w; rfl
      | cons x xs ih => intro w; simp only [List.foldl_cons]; rw [ih, handleConverted_mode]
    split
    · rw [send_procMode, this]
    · rw [this]

theorem sweep_mode (wc : WC) : wc.sweep.procMode = wc.procMode := by
  unfold WC.sweep
  split
  · split
    · rfl
    · show (WC.send _ _).procMode = _; rw [send_procMode]
  · rfl

theorem finishResync_mode (wc : WC) : wc.finishResync.procMode = wc.procMode := by
  unfold WC.finishResync
  rw [send_procMode, sweep_mode, leaveWait_mode]

theorem processList_mode (wc : WC) (kvs : List KV) : (wc.processList kvs).procMode = wc.procMode := by
  unfold WC.processList
  rw [finishResync_mode]
  have : ∀ (c : List KV) (w : WC), (c.foldl WC.handleWatchListEvent w).procMode = w.procMode := by
    intro c
    induction c with
    | nil => intro w; rfl
    | cons x xs ih => intro w; simp only [List.foldl_cons]; rw [ih, handleWatchListEvent_mode]
  rw [this]
  show wc.listSucceeded.leaveWait.procMode = _
  rw [leaveWait_mode]; rfl

theorem listStep_mode (wc : WC) (lo : ListOut) : (listStep wc lo).1.procMode = wc.procMode := by
  unfold listStep
  simp only
  cases lo with
  | notFound =>
    simp only [WC.onListNotFound]
    show wc.beginFull.finishResync.procMode = _
    rw [finishResync_mode, beginFull_mode]
  | expired => simp only [WC.onListExpired]; exact beginFull_mode wc
  | other e =>
    simp only [WC.onListOther]
    split
    · split
      · rw [sendDeletionsForAll_mode, send_procMode]; exact beginFull_mode wc
      · rw [send_procMode]; exact beginFull_mode wc
    · exact beginFull_mode wc
  | ok kvs lrev =>
    simp only
    split
    · show (wc.beginFull.processList kvs).procMode = _; rw [processList_mode, beginFull_mode]
    · show (wc.beginFull.processList kvs).procMode = _; rw [processList_mode, beginFull_mode]

theorem watchStep_same (wc : WC) (full : Bool) (wo : WatchOut) :
    (watchStep wc full wo).1.procMode = wc.procMode ∧ (watchStep wc full wo).1.res = wc.res ∧
      (watchStep wc full wo).1.old = wc.old := by
  unfold watchStep
  cases wo with
  | ok => exact ⟨rfl, rfl, rfl⟩
  | expired => exact ⟨rfl, rfl, rfl⟩
  | connRefused e => simp only; split <;> exact ⟨rfl, rfl, rfl⟩
  | notSupported => exact ⟨rfl, rfl, rfl⟩
  | other => exact ⟨rfl, rfl, rfl⟩

/-! ### which list the cache holds when the watch is created -/

/-- The cache holds exactly one of the lists `cs`, converted. -/
def IsListView (mode : Nat) (cs : List (List KV)) (wc : WC) : Prop :=
  ∃ L ∈ cs, ∀ k, view wc k = (L.flatMap (convert mode)).foldl applyKV emptyView k

theorem IsListView.of_eq {mode : Nat} {cs : List (List KV)} {wc w : WC} (h : IsListView mode cs wc)
    (hr : w.res = wc.res) (ho : w.old = wc.old) : IsListView mode cs w := by
  obtain ⟨L, hL, hv⟩ := h
  refine ⟨L, hL, fun k => ?_⟩
  rw [← hv k]
  simp [view, oldLookup, hr, ho]

theorem listStep_listed {m0 : View} {st0 : Nat} {wc : WC} (h : Good m0 st0 wc) (lo : ListOut)
    (hgo : (listStep wc lo).2.2 = true) :
    ∃ kvs lrev, lo = .ok kvs lrev ∧
      ∀ k, view (listStep wc lo).1 k = (kvs.flatMap (convert wc.procMode)).foldl applyKV emptyView k := by
  cases lo with
  | notFound => simp [listStep] at hgo
  | expired => simp [listStep] at hgo
  | other e => simp [listStep] at hgo
  | ok kvs lrev =>
    refine ⟨kvs, lrev, rfl, ?_⟩
    have l := processList_ok (beginFull_good h) kvs
    intro k
    have lv := l.view k
    rw [beginFull_mode] at lv
    rw [← lv]
    unfold listStep
    simp only
    split
    · simp [view, oldLookup]
    · simp [view, oldLookup]

/-- If a full resync is owed when the loop starts (or the cache already holds a listed view), then when the
watch is finally created — after ANY scripted sequence of List and Watch failures — the cache holds exactly one
of the successfully listed snapshots, converted. -/
theorem resyncLoop_listed {m0 : View} {st0 : Nat} (fin : List KV × Nat) (mode : Nat) (cs : List (List KV))
    (hfin : fin.1 ∈ cs) :
    ∀ (fuel : Nat) (wc : WC) (full : Bool) (lists : List ListOut) (watches : List WatchOut),
      Good m0 st0 wc → (wc.status = stWait → full = true ∨ wc.rev = 0) → wc.procMode = mode →
      (∀ kvs r, ListOut.ok kvs r ∈ lists → kvs ∈ cs) →
      (IsListView mode cs wc ∨ full = true ∨ wc.rev = 0) →
      ∀ w, resyncLoop fin fuel wc full lists watches = some w → IsListView mode cs w ∧ w.procMode = mode := by
  intro fuel
  induction fuel with
  | zero => intro wc full lists watches _ _ _ _ _ w hw; simp [resyncLoop] at hw
  | succ n ih =>
    intro wc full lists watches hg ho hm hcs hq w hw
    unfold resyncLoop at hw
    simp only at hw
    have htail : ∀ kvs r, ListOut.ok kvs r ∈ lists.tail → kvs ∈ cs :=
      fun kvs r hmem => hcs kvs r (List.mem_of_mem_tail hmem)
    -- after the watch step
    have watchPart : ∀ (w1 : WC) (f : Bool) (ls : List ListOut), Good m0 st0 w1 → w1.status ≠ stWait →
        w1.procMode = mode → IsListView mode cs w1 → (∀ kvs r, ListOut.ok kvs r ∈ ls → kvs ∈ cs) →
        (if (watchStep w1 f (watches.headD WatchOut.ok)).2.2 = true then
            some (watchStep w1 f (watches.headD WatchOut.ok)).1
          else resyncLoop fin n (watchStep w1 f (watches.headD WatchOut.ok)).1
            (watchStep w1 f (watches.headD WatchOut.ok)).2.1 ls watches.tail) = some w →
        IsListView mode cs w ∧ w.procMode = mode := by
      intro w1 f ls g1 hs1 hm1 hl1 hls hw1
      obtain ⟨pm, rs, ol⟩ := watchStep_same w1 f (watches.headD WatchOut.ok)
      have hwk := watchStep_ok g1 f (watches.headD WatchOut.ok)
      have hl2 : IsListView mode cs (watchStep w1 f (watches.headD WatchOut.ok)).1 := hl1.of_eq rs ol
      split at hw1
      · simp only [Option.some.injEq] at hw1
        subst hw1
        exact ⟨hl2, by rw [pm]; exact hm1⟩
      · exact ih _ _ _ _ hwk.1 (fun c => by rw [hwk.2] at c; exact absurd c hs1) (by rw [pm]; exact hm1) hls
          (Or.inl hl2) w hw1
    by_cases hf : (full || decide (wc.rev = 0)) = true
    · simp only [hf, if_true] at hw
      have hls := listStep_ok hg (lists.headD (ListOut.ok fin.1 fin.2))
      have hmode : (listStep wc (lists.headD (ListOut.ok fin.1 fin.2))).1.procMode = mode := by
        rw [listStep_mode]; exact hm
      by_cases hgo : (listStep wc (lists.headD (ListOut.ok fin.1 fin.2))).2.2 = true
      · simp only [hgo, Bool.not_true, Bool.false_eq_true, if_false] at hw
        obtain ⟨kvs, lrev, elo, hv⟩ := listStep_listed hg _ hgo
        have hmem : kvs ∈ cs := by
          cases lists with
          | nil =>
            simp only [List.headD_nil, ListOut.ok.injEq] at elo
            rw [← elo.1]; exact hfin
          | cons l ls =>
            simp only [List.headD_cons] at elo
            exact hcs kvs lrev (by rw [elo]; exact List.mem_cons_self ..)
        have hl : IsListView mode cs (listStep wc (lists.headD (ListOut.ok fin.1 fin.2))).1 :=
          ⟨kvs, hmem, fun k => by rw [hv k, hm]⟩
        exact watchPart _ _ _ hls.good (hls.go hgo) hmode hl htail hw
      · have hgo' : (listStep wc (lists.headD (ListOut.ok fin.1 fin.2))).2.2 = false := by simpa using hgo
        simp only [hgo', Bool.not_false, if_true] at hw
        -- every non-continuing list outcome leaves `performFullResync` set
        have hfull : (listStep wc (lists.headD (ListOut.ok fin.1 fin.2))).2.1 = true := by
          revert hgo'
          unfold listStep
          simp only
          cases lists.headD (ListOut.ok fin.1 fin.2) with
          | notFound => intro _; rfl
          | expired => intro _; rfl
          | other e => intro _; rfl
          | ok kvs lrev =>
            simp only
            split
            · intro _; rfl
            · intro c; cases c
        exact ih _ _ _ _ hls.good hls.owed hmode htail (Or.inr (Or.inl hfull)) w hw
    · simp only [hf, Bool.false_eq_true, if_false, Bool.not_true] at hw
      have hnf : full = false ∧ wc.rev ≠ 0 := by
        simp only [Bool.or_eq_true, decide_eq_true_eq, not_or] at hf
        exact ⟨by simpa using hf.1, hf.2⟩
      have hl : IsListView mode cs wc := by
        rcases hq with h1 | h1 | h1
        · exact h1
        · rw [hnf.1] at h1; cases h1
        · exact absurd h1 hnf.2
      have hs : wc.status ≠ stWait := by
        intro c
        rcases ho c with h1 | h1
        · rw [hnf.1] at h1; cases h1
        · exact absurd h1 hnf.2
      exact watchPart _ _ _ hg hs hm hl hcs hw

end CalicoVerif.C26
