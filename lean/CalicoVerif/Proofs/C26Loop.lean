import CalicoVerif.Proofs.C26Machine
/-!
C26 — the resync loop always ends (with the fuel `runCall` passes), and when it ends after a full resync
the cache holds exactly one of the scripted successful lists, converted.
-/
namespace CalicoVerif.C26

/-! ### termination -/

theorem listStep_go_ok (wc : WC) (kvs : List KV) (lrev : Nat) (h : lrev ≠ 0) :
    (listStep wc (.ok kvs lrev)).2.2 = true := by
  simp [listStep, h]

theorem listStep_nogo_not_ok (wc : WC) (lo : ListOut) (h : (listStep wc lo).2.2 = false) :
    ∀ kvs lrev, lo = .ok kvs lrev → lrev = 0 := by
  intro kvs lrev e
  subst e
  by_cases c : lrev = 0
  · exact c
  · rw [listStep_go_ok wc kvs lrev c] at h; cases h

theorem watchStep_done_ok (wc : WC) (full : Bool) : (watchStep wc full .ok).2.2 = true := rfl

theorem resyncLoop_some (fin : List KV × Nat) (hfin : fin.2 ≠ 0) :
    ∀ (fuel : Nat) (wc : WC) (full : Bool) (lists : List ListOut) (watches : List WatchOut),
      lists.length + watches.length < fuel → (resyncLoop fin fuel wc full lists watches).isSome = true := by
  intro fuel
  induction fuel with
  | zero => intro wc full lists watches h; omega
  | succ n ih =>
    intro wc full lists watches hlen
    unfold resyncLoop
    simp only
    by_cases hstop : ((full || decide (wc.rev = 0)) && (lists.headD (ListOut.ok fin.1 fin.2)).isPollStop) = true
    · simp only [hstop, if_true, Option.isSome_some]
    have hstop' : ((full || decide (wc.rev = 0)) && (lists.headD (ListOut.ok fin.1 fin.2)).isPollStop) = false := by
      simpa using hstop
    simp only [hstop', Bool.false_eq_true, if_false]
    -- the watch part, common to both branches
    have watchPart : ∀ (w : WC) (f : Bool) (ls : List ListOut), ls.length ≤ lists.length →
        (if (watchStep w f (watches.headD WatchOut.ok)).2.2 = true then
            some (watchStep w f (watches.headD WatchOut.ok)).1
          else resyncLoop fin n (watchStep w f (watches.headD WatchOut.ok)).1
            (watchStep w f (watches.headD WatchOut.ok)).2.1 ls watches.tail).isSome = true := by
      intro w f ls hls
      split
      · rfl
      · rename_i hnd
        cases watches with
        | nil => exact absurd (watchStep_done_ok w f) hnd
        | cons wo ws =>
          apply ih
          simp only [List.tail_cons, List.length_cons] at hlen ⊢
          omega
    by_cases hf : (full || decide (wc.rev = 0)) = true
    · simp only [hf, if_true]
      by_cases hgo : (listStep wc (lists.headD (ListOut.ok fin.1 fin.2))).2.2 = true
      · simp only [hgo, Bool.not_true, Bool.false_eq_true, if_false]
        exact watchPart _ _ _ (by simp)
      · have hgo' : (listStep wc (lists.headD (ListOut.ok fin.1 fin.2))).2.2 = false := by simpa using hgo
        simp only [hgo', Bool.not_false, if_true]
        cases lists with
        | nil =>
          exact absurd (listStep_nogo_not_ok wc _ hgo' fin.1 fin.2 rfl) hfin
        | cons l ls =>
          apply ih
          simp only [List.tail_cons, List.length_cons] at hlen ⊢
          omega
    · simp only [hf, Bool.false_eq_true, if_false, Bool.not_true]
      exact watchPart _ _ _ (Nat.le_refl _)

/-! ### proc never changes -/

theorem sendDels_mode (wc : WC) : wc.sendDels.proc = wc.proc := by
  unfold WC.sendDels
  generalize sortKeys (keysOf wc.res) = ks
  induction ks generalizing wc with
  | nil => rfl
  | cons k ks ih => simp only [List.foldl_cons]; rw [ih, send_proc]

theorem sendDeletionsForAll_mode (wc : WC) : wc.sendDeletionsForAll.proc = wc.proc := by
  unfold WC.sendDeletionsForAll WC.clearAll
  show wc.leaveWaitIfAny.sendDels.proc = _
  rw [sendDels_mode]
  unfold WC.leaveWaitIfAny
  split
  · exact send_proc _ _
  · rfl

theorem handleConverted_mode (wc : WC) (kv : KV) : (wc.handleConverted kv).proc = wc.proc := by
  unfold WC.handleConverted WC.handleDeleted WC.handleAddMod
  split
  · simp only
    split
    · show (WC.send _ _).proc = _; rw [send_proc, markAsValid_proc]
    · exact markAsValid_proc _ _
  · simp only
    split
    · split
      · exact markAsValid_proc _ _
      · show (WC.send _ _).proc = _; rw [send_proc, markAsValid_proc]
    · show (WC.send _ _).proc = _; rw [send_proc, markAsValid_proc]

theorem handleWatchListEvent_mode (wc : WC) (kv : KV) : (wc.handleWatchListEvent kv).proc = wc.proc := by
  have fold : ∀ (c : List KV) (w : WC), (c.foldl WC.handleConverted w).proc = w.proc := by
    intro c
    induction c with
    | nil => intro w; rfl
    | cons x xs ih => intro w; simp only [List.foldl_cons]; rw [ih, handleConverted_mode]
  unfold WC.handleWatchListEvent
  simp only
  split
  · rw [send_proc, fold]
  · rw [fold]

theorem sweep_mode (wc : WC) : wc.sweep.proc = wc.proc := by
  unfold WC.sweep
  split
  · split
    · rfl
    · show (WC.send _ _).proc = _; rw [send_proc]
  · rfl

theorem finishResync_mode (wc : WC) : wc.finishResync.proc = wc.proc := by
  unfold WC.finishResync
  rw [send_proc, sweep_mode, leaveWait_mode]

theorem processList_mode (wc : WC) (kvs : List KV) : (wc.processList kvs).proc = wc.proc := by
  unfold WC.processList
  rw [finishResync_mode]
  have : ∀ (c : List KV) (w : WC), (c.foldl WC.handleWatchListEvent w).proc = w.proc := by
    intro c
    induction c with
    | nil => intro w; rfl
    | cons x xs ih => intro w; simp only [List.foldl_cons]; rw [ih, handleWatchListEvent_mode]
  rw [this]
  show wc.listSucceeded.leaveWait.proc = _
  rw [leaveWait_mode]; rfl

theorem listStep_mode (wc : WC) (lo : ListOut) : (listStep wc lo).1.proc = wc.proc := by
  unfold listStep
  simp only
  cases lo with
  | notFound =>
    simp only [WC.onListNotFound]
    show wc.beginFull.notifyConverter.finishResync.proc = _
    rw [finishResync_mode, notifyConverter_proc, beginFull_mode]
  | pollStop =>
    simp only
    show (wc.beginFull.notifyConverter.processList []).proc = _
    rw [processList_mode, notifyConverter_proc, beginFull_mode]
  | expired => simp only [WC.onListExpired]; exact beginFull_mode wc
  | other e =>
    simp only [WC.onListOther]
    split
    · split
      · rw [sendDeletionsForAll_mode, send_proc]; exact beginFull_mode wc
      · rw [send_proc]; exact beginFull_mode wc
    · exact beginFull_mode wc
  | ok kvs lrev =>
    simp only
    split
    · show (wc.beginFull.notifyConverter.processList kvs).proc = _
      rw [processList_mode, notifyConverter_proc, beginFull_mode]
    · show (wc.beginFull.notifyConverter.processList kvs).proc = _
      rw [processList_mode, notifyConverter_proc, beginFull_mode]

theorem watchStep_same (wc : WC) (full : Bool) (wo : WatchOut) :
    (watchStep wc full wo).1.proc = wc.proc ∧ (watchStep wc full wo).1.res = wc.res ∧
      (watchStep wc full wo).1.old = wc.old ∧ (watchStep wc full wo).1.pst = wc.pst := by
  unfold watchStep
  cases wo with
  | ok => exact ⟨rfl, rfl, rfl, rfl⟩
  | expired => exact ⟨rfl, rfl, rfl, rfl⟩
  | connRefused e => simp only; split <;> exact ⟨rfl, rfl, rfl, rfl⟩
  | notSupported => exact ⟨rfl, rfl, rfl, rfl⟩
  | other => exact ⟨rfl, rfl, rfl, rfl⟩

/-! ### which list the cache holds right after a successful List step -/

theorem listStep_listed {m0 : View} {st0 : Nat} {wc : WC} (h : Good m0 st0 wc) (lo : ListOut)
    (hgo : (listStep wc lo).2.2 = true) :
    ∃ kvs lrev, lo = .ok kvs lrev ∧
      (∀ k, view (listStep wc lo).1 k = (convSeq wc.proc [] kvs).foldl applyKV emptyView k) ∧
      (listStep wc lo).1.pst = convState wc.proc [] kvs := by
  cases lo with
  | notFound => simp [listStep] at hgo
  | expired => simp [listStep] at hgo
  | other e => simp [listStep] at hgo
  | pollStop => simp [listStep] at hgo
  | ok kvs lrev =>
    refine ⟨kvs, lrev, rfl, ?_, ?_⟩
    · have l := processList_ok (notifyConverter_good (beginFull_good h)) kvs
      intro k
      have lv := l.view k
      rw [notifyConverter_proc, notifyConverter_pst, beginFull_mode] at lv
      rw [← lv]
      unfold listStep
      simp only
      split
      · simp [view, oldLookup]
      · simp [view, oldLookup]
    · have l := processList_ok (notifyConverter_good (beginFull_good h)) kvs
      have lp := l.pst
      rw [notifyConverter_proc, notifyConverter_pst, beginFull_mode] at lp
      rw [← lp]
      unfold listStep
      simp only
      split <;> rfl

/-- The terminal polling List leaves the cache empty (conversion of the empty list) with a fresh processor state. -/
theorem listStep_pollStop_view {m0 : View} {st0 : Nat} {wc : WC} (h : Good m0 st0 wc) :
    (∀ k, view (listStep wc .pollStop).1 k = (convSeq wc.proc [] []).foldl applyKV emptyView k) ∧
      (listStep wc .pollStop).1.pst = convState wc.proc [] [] := by
  have l := processList_ok (notifyConverter_good (beginFull_good h)) []
  constructor
  · intro k
    have lv := l.view k
    rw [notifyConverter_proc, notifyConverter_pst, beginFull_mode] at lv
    rw [← lv]
    unfold listStep
    simp [view, oldLookup]
  · have lp := l.pst
    rw [notifyConverter_proc, notifyConverter_pst, beginFull_mode] at lp
    rw [← lp]
    rfl

end CalicoVerif.C26
