import CalicoVerif.Proofs.C31Handlers
/-! C31 — the whole-history invariant: every joined endpoint's client is `EpOK`, the stores respect the
calculation graph's contract, and no event has been seen on a channel not yet handed out. -/
namespace CalicoVerif.C31

/-- `p'` has the same stores as `p` (it may differ in `eps` / `nextCh`) -/
def SameStores (p p' : Proc) : Prop :=
  p'.pols = p.pols ∧ p'.profs = p.profs ∧ p'.ipsets = p.ipsets ∧ p'.sas = p.sas ∧ p'.nss = p.nss ∧ p'.inSync = p.inSync

theorem EpOK.congr {p p' : Proc} {w : Nat} {ei : EpInfo} {v : View} (h : SameStores p p') (hok : EpOK p w ei v) :
    EpOK p' w ei v := by
  obtain ⟨h1, h2, h3, h4, h5, h6⟩ := h
  refine ⟨⟨fun k => by rw [h1]; exact hok.core.pols k, fun k => by rw [h2]; exact hok.core.profs k,
    fun x => by rw [h3]; exact hok.core.ipsets x⟩, ⟨hok.exact.pols, hok.exact.profs, fun x => ?_⟩, hok.ep,
    fun k => by rw [h4]; exact hok.sas k, fun k => by rw [h5]; exact hok.nss k, by rw [h6]; exact hok.inSync⟩
  rw [hok.exact.ipsets x]
  exact (neededIP_congr (fun _ _ => by rw [h2]) (fun _ _ => by rw [h1]) x).symm

/-- every joined endpoint's client is in step with the Processor -/
def Streams (p : Proc) (evs : List Ev) : Prop :=
  ∀ kv ∈ p.eps, ∀ c, kv.2.output = some c → EpOK p kv.1 kv.2 (viewOf evs c)

/-- no event on a channel that has not been handed out yet -/
def Bound (p : Proc) (evs : List Ev) : Prop := ∀ e ∈ evs, e.1 < p.nextCh

structure Inv (p : Proc) (evs : List Ev) : Prop where
  chan : ∃ cl, ChanInv p cl
  good : Good p
  streams : Streams p evs
  bound : Bound p evs

/-! ### the three shapes of a step -/

/-- a step that sends nothing and keeps `eps` -/
theorem streams_quiet {p p' : Proc} {evs : List Ev} (hs : Streams p evs) (heps : p'.eps = p.eps)
    (hok : ∀ kv ∈ p.eps, ∀ v, EpOK p kv.1 kv.2 v → EpOK p' kv.1 kv.2 v) : Streams p' (evs ++ []) := by
  intro kv hkv c ho
  rw [heps] at hkv
  rw [List.append_nil]
  exact hok kv hkv _ (hs kv hkv c ho)

/-- a broadcast of one message -/
theorem streams_broadcast {p p' : Proc} {cl : List Nat} {evs : List Ev} (hch : ChanInv p cl) (hs : Streams p evs) (m : Msg)
    (heps : p'.eps = p.eps) (hok : ∀ w ei v, EpOK p w ei v → EpOK p' w ei (applyMsgs v [m])) :
    Streams p' (evs ++ broadcast m p.eps) := by
  intro kv hkv c ho
  rw [heps] at hkv
  rw [viewOf_append, msgsOf_broadcast hch.nodup m hkv ho]
  exact hok _ _ _ (hs kv hkv c ho)

/-- a loop over the updateable endpoints -/
theorem streams_each {p p1 p' : Proc} {cl : List Nat} {evs new : List Ev} {f : EpInfo → Option (EpInfo × List Msg)}
    {eps' : AMap EpInfo} (hch : ChanInv p cl) (hs : Streams p evs) (hf : KeepsAll f)
    (h : eachUpdateable f p.eps = some (eps', new)) (heps : p'.eps = eps') (hst : SameStores p1 p')
    (hok : ∀ w ei ei' ms v, EpOK p w ei v → f ei = some (ei', ms) → EpOK p1 w ei' (applyMsgs v ms)) :
    Streams p' (evs ++ new) := by
  intro kv' hkv' c ho
  rw [heps] at hkv'
  obtain ⟨ei, hm, ho', _, _, _, hsome⟩ := each_lift hf hch.nodup h kv' hkv'
  rw [ho'] at ho
  obtain ⟨ms, hfe, hmsgs⟩ := hsome c ho
  rw [viewOf_append, hmsgs]
  exact (hok kv'.1 ei kv'.2 ms _ (hs (kv'.1, ei) hm c ho) hfe).congr hst

/-! ### `Good` under store changes -/

theorem Good.of_eps {p p' : Proc} (hg : Good p) (hst : SameStores p p')
    (heps : ∀ kv' ∈ p'.eps, ∀ e, kv'.2.ep = some e → ∃ kv ∈ p.eps, kv.2.ep = some e) : Good p' := by
  obtain ⟨h1, h2, h3, h4, h5, _⟩ := hst
  refine ⟨fun kv' hkv' e he => ?_, ?_, ?_, by rw [h4]; exact hg.sasK, by rw [h5]; exact hg.nssK⟩
  · obtain ⟨kv, hkv, hke⟩ := heps kv' hkv' e he
    rw [h1, h2]; exact hg.epRefs kv hkv e hke
  · rw [h1, h3]; exact hg.polRefs
  · rw [h2, h3]; exact hg.profRefs

theorem each_eps {f : EpInfo → Option (EpInfo × List Msg)} (hf : KeepsAll f) {eps eps' : AMap EpInfo} {new : List Ev}
    (hn : (chans eps).Nodup) (h : eachUpdateable f eps = some (eps', new)) :
    ∀ kv' ∈ eps', ∀ e, kv'.2.ep = some e → ∃ kv ∈ eps, kv.2.ep = some e := by
  intro kv' hkv' e he
  obtain ⟨ei, hm, _, hep, _⟩ := each_lift hf hn h kv' hkv'
  exact ⟨(kv'.1, ei), hm, by rw [← hep]; exact he⟩

theorem bound_each {p : Proc} {cl : List Nat} {evs new : List Ev} {f : EpInfo → Option (EpInfo × List Msg)} {eps' : AMap EpInfo}
    (hch : ChanInv p cl) (hb : Bound p evs) (hf : KeepsAll f) (h : eachUpdateable f p.eps = some (eps', new))
    {p' : Proc} (hn : p'.nextCh = p.nextCh) : Bound p' (evs ++ new) := by
  intro e he
  rw [hn]
  rcases List.mem_append.1 he with he | he
  · exact hb e he
  · exact (hch.live _ ((each_chan hf.keeps h).2.2 e he).2).1

theorem bound_broadcast {p : Proc} {cl : List Nat} {evs : List Ev} (hch : ChanInv p cl) (hb : Bound p evs) (m : Msg)
    {p' : Proc} (hn : p'.nextCh = p.nextCh) : Bound p' (evs ++ broadcast m p.eps) := by
  intro e he
  rw [hn]
  rcases List.mem_append.1 he with he | he
  · exact hb e he
  · exact (hch.live _ (broadcast_chan m p.eps e he).2).1

theorem refreshOne_keepsAll (p : Proc) (b : Bool) (id : Nat) (m : Msg) : KeepsAll (refreshOne p b id m) := by
  intro ei ei' ms h
  unfold refreshOne at h
  by_cases hl : (epList b ei.ep).contains id = true
  · simp only [hl, if_true] at h
    cases h1 : ipSync p ei with
    | none => simp only [h1] at h; cases h
    | some r1 =>
      obtain ⟨ei1, adds, dels⟩ := r1
      simp only [h1, Option.some.injEq, Prod.mk.injEq] at h
      obtain ⟨rfl, _⟩ := h
      have a := markSynced_output b ei1 id
      have c := ipSync_output h1
      exact ⟨a.1.trans c.1, a.2.1.trans c.2.1, a.2.2.trans c.2.2.1⟩
  · simp only [hl] at h
    simp at h; obtain ⟨rfl, _⟩ := h; exact ⟨rfl, rfl, rfl⟩

theorem ipUpdOne_keepsAll (p : Proc) (id : Nat) (ms : List Nat) : KeepsAll (ipUpdOne p id ms) := by
  intro ei ei' ms' h
  unfold ipUpdOne at h
  cases h1 : referencesIP p ei id with
  | none => simp only [h1] at h; cases h
  | some b => cases b <;> (simp [h1] at h; obtain ⟨rfl, _⟩ := h; exact ⟨rfl, rfl, rfl⟩)

theorem ipDeltaOne_keepsAll (p : Proc) (id : Nat) (a d : List Nat) : KeepsAll (ipDeltaOne p id a d) := by
  intro ei ei' ms' h
  unfold ipDeltaOne at h
  cases h1 : referencesIP p ei id with
  | none => simp only [h1] at h; cases h
  | some b => cases b <;> (simp [h1] at h; obtain ⟨rfl, _⟩ := h; exact ⟨rfl, rfl, rfl⟩)

/-! ### join -/

theorem join_epok {p p' : Proc} {w uid : Nat} {evs : List Ev}
    (hsa : p.sas.NodupKeys) (hns : p.nss.NodupKeys)
    (h : step p (.join w uid) = some (p', evs)) :
    ∃ ei', p'.eps.get w = some ei' ∧ ei'.output = some p.nextCh ∧
      EpOK p' w ei' (applyMsgs View.empty (msgsOf evs p.nextCh)) ∧ (∀ x, x ∈ ei'.syncedIP → (p.ipsets.get x).isSome) ∧
      p' = { p with eps := p.eps.set w ei', nextCh := p.nextCh + 1 } ∧ ei'.ep = (joinOld p w).ep ∧
      ∃ ms', evs = closeEv (joinOld p w).output ++ tag p.nextCh ms' := by
  simp only [step, handleJoin] at h
  cases hm : maybeSync p w { joinOld p w with joinUID := uid, output := some p.nextCh, syncedPol := [], syncedProf := [], syncedIP := [] } with
  | none => simp only [hm] at h; cases h
  | some r =>
    obtain ⟨ei', ms⟩ := r
    simp only [hm, Option.some.injEq, Prod.mk.injEq] at h
    obtain ⟨rfl, rfl⟩ := h
    have hout := maybeSync_output hm
    refine ⟨ei', AMap.get_set_eq _ _ _, hout.1, ?_⟩
    suffices hh : EpOK { p with eps := p.eps.set w ei', nextCh := p.nextCh + 1 } w ei'
        (applyMsgs View.empty (msgsOf (closeEv (joinOld p w).output ++
          tag p.nextCh (ms ++ p.sas.map (fun kv => Msg.saUpd kv.1 kv.2) ++ p.nss.map (fun kv => Msg.nsUpd kv.1 kv.2) ++
            (if p.inSync then [Msg.inSync] else []))) p.nextCh)) ∧
        (∀ x, x ∈ ei'.syncedIP → (p.ipsets.get x).isSome) from ⟨hh.1, hh.2, rfl, hout.2.1, _, rfl⟩
    rw [msgsOf_append, msgsOf_closeEv, msgsOf_tag, List.nil_append]
    simp only [applyMsgs_append]
    -- the burst of maybeSync from the empty client
    have hcore0 : Core p { joinOld p w with joinUID := uid, output := some p.nextCh, syncedPol := [], syncedProf := [], syncedIP := [] } View.empty :=
      ⟨fun id => by simp [View.empty], fun id => by simp [View.empty], fun x => by simp [View.empty]⟩
    have hburst : Core p ei' (applyMsgs View.empty ms) ∧ Exact p ei' ∧
        (applyMsgs View.empty ms).ep = ei'.ep.map (fun e => (w, e)) ∧ (applyMsgs View.empty ms).sas = View.empty.sas ∧
        (applyMsgs View.empty ms).nss = View.empty.nss ∧ (applyMsgs View.empty ms).inSync = false ∧
        (∀ x, x ∈ ei'.syncedIP → (p.ipsets.get x).isSome) := by
      cases hep : (joinOld p w).ep with
      | none =>
        have : maybeSync p w { joinOld p w with joinUID := uid, output := some p.nextCh, syncedPol := [], syncedProf := [], syncedIP := [] }
            = some ({ joinOld p w with joinUID := uid, output := some p.nextCh, syncedPol := [], syncedProf := [], syncedIP := [] }, []) := by
          unfold maybeSync; simp only [hep]
        rw [this] at hm
        simp only [Option.some.injEq, Prod.mk.injEq] at hm
        obtain ⟨rfl, rfl⟩ := hm
        refine ⟨hcore0, ⟨fun id => by simp [hep, epPols], fun id => by simp [hep, epProfs], fun x => ?_⟩, by simp [applyMsgs, View.empty, hep],
          rfl, rfl, rfl, fun x hx => by simp at hx⟩
        simp only [List.not_mem_nil, false_iff, hep, neededIP, epProfs, epPols]
        rintro (⟨_, h1, _⟩ | ⟨_, h1, _⟩) <;> simp at h1
      | some e =>
        obtain ⟨c1, x1, ep1, sa1, ns1, sy1, ex1⟩ := maybeSync_core (c := p.nextCh) hcore0 hep rfl hm
        refine ⟨c1, x1, by rw [ep1, hout.2.1]; simp [hep], sa1, ns1, sy1, fun x hx => ex1 x hx (by simp)⟩
    obtain ⟨c1, x1, ep1, sa1, ns1, sy1, ex1⟩ := hburst
    generalize applyMsgs View.empty ms = v1 at *
    obtain ⟨kS, vS⟩ := saUpd_view p.sas hsa v1
    have fS := frame_kind kS v1
    generalize applyMsgs v1 (p.sas.map (fun kv => Msg.saUpd kv.1 kv.2)) = v2 at *
    obtain ⟨kN, vN⟩ := nsUpd_view p.nss hns v2
    have fN := frame_kind kN v2
    generalize applyMsgs v2 (p.nss.map (fun kv => Msg.nsUpd kv.1 kv.2)) = v3 at *
    have kY : ∀ m ∈ (if p.inSync then [Msg.inSync] else []), m.kind = .sync := by
      intro m hm'; by_cases hs : p.inSync = true <;> simp [hs] at hm'; subst hm'; rfl
    have fY := frame_kind kY v3
    have hcore3 : Core p ei' (applyMsgs v3 (if p.inSync then [Msg.inSync] else [])) :=
      ⟨fun id => by rw [fY.2.1 (by decide), fN.2.1 (by decide), fS.2.1 (by decide)]; exact c1.pols id,
       fun id => by rw [fY.2.2.1 (by decide), fN.2.2.1 (by decide), fS.2.2.1 (by decide)]; exact c1.profs id,
       fun x => by rw [fY.2.2.2.1 (by decide), fN.2.2.2.1 (by decide), fS.2.2.2.1 (by decide)]; exact c1.ipsets x⟩
    refine ⟨⟨⟨hcore3.pols, hcore3.profs, hcore3.ipsets⟩, ⟨x1.pols, x1.profs, x1.ipsets⟩, ?_, fun id => ?_, fun id => ?_, ?_⟩, ex1⟩
    · rw [fY.1 (by decide), fN.1 (by decide), fS.1 (by decide)]; exact ep1
    · show _ = p.sas.get id
      rw [fY.2.2.2.2.1 (by decide), fN.2.2.2.2.1 (by decide), vS id, sa1]
      cases p.sas.get id <;> rfl
    · show _ = p.nss.get id
      rw [fY.2.2.2.2.2.1 (by decide), vN id, fS.2.2.2.2.2.1 (by decide), ns1]
      cases p.nss.get id <;> rfl
    · show _ = p.inSync
      by_cases hs : p.inSync = true
      · simp [hs, applyMsgs, applyMsg]
      · simp only [Bool.not_eq_true] at hs
        rw [hs]
        simp only [Bool.false_eq_true, if_false, applyMsgs, List.foldl_nil]
        rw [fN.2.2.2.2.2.2 (by decide), fS.2.2.2.2.2.2 (by decide), sy1]


end CalicoVerif.C31
