import CalicoVerif.Model.C40
/-! C40 — helper lemmas about `runRules` / `runChain`. -/
namespace CalicoVerif.C40

theorem runRules_nil (cs : Chains) (f : Nat) (p : Pkt) : runRules cs f [] p = .fall p := by
  simp [runRules, runRulesWith]

theorem runRules_cons_nomatch (cs : Chains) (f : Nat) (r : Rule) (rs : List Rule) (p : Pkt)
    (h : r.matches p = false) : runRules cs f (r :: rs) p = runRules cs f rs p := by
  simp [runRules, runRulesWith, h]

theorem runRules_cons_accept (cs : Chains) (f : Nat) (r : Rule) (rs : List Rule) (p : Pkt)
    (h : r.matches p = true) (ha : r.action = .accept) : runRules cs f (r :: rs) p = .accept := by
  simp [runRules, runRulesWith, h, ha]

theorem runRules_cons_drop (cs : Chains) (f : Nat) (r : Rule) (rs : List Rule) (p : Pkt)
    (h : r.matches p = true) (ha : r.action = .drop) : runRules cs f (r :: rs) p = .drop := by
  simp [runRules, runRulesWith, h, ha]

theorem runRules_cons_jump (cs : Chains) (f : Nat) (r : Rule) (rs : List Rule) (p : Pkt) (c : String)
    (h : r.matches p = true) (ha : r.action = .jump c) :
    runRules cs f (r :: rs) p = (match runChain cs f c p with | .fall p' => runRules cs f rs p' | v => v) := by
  simp only [runRules, runRulesWith, h, ha, if_true]
  cases runChain cs f c p <;> rfl

theorem runRules_cons_goto (cs : Chains) (f : Nat) (r : Rule) (rs : List Rule) (p : Pkt) (c : String)
    (h : r.matches p = true) (ha : r.action = .goto c) :
    runRules cs f (r :: rs) p = runChain cs f c p := by
  simp [runRules, runRulesWith, h, ha]

theorem runRules_cons_clear (cs : Chains) (f : Nat) (r : Rule) (rs : List Rule) (p : Pkt) (m : Nat)
    (h : r.matches p = true) (ha : r.action = .clearMark m) :
    runRules cs f (r :: rs) p = runRules cs f rs { p with mark := clearBits p.mark m } := by
  simp [runRules, runRulesWith, h, ha]

theorem runChain_succ (cs : Chains) (f : Nat) (c : String) (p : Pkt) (rs : List Rule) (h : cs c = some rs) :
    runChain cs (f + 1) c p = runRules cs f rs p := by
  simp [runChain, runRules, h]

/-- a prefix of non-matching rules is skipped. -/
theorem runRules_skip (cs : Chains) (f : Nat) (pre rest : List Rule) (p : Pkt)
    (h : ∀ r ∈ pre, r.matches p = false) : runRules cs f (pre ++ rest) p = runRules cs f rest p := by
  induction pre with
  | nil => rfl
  | cons r pre ih =>
    rw [List.cons_append, runRules_cons_nomatch _ _ _ _ _ (h r List.mem_cons_self)]
    exact ih (fun x hx => h x (List.mem_cons_of_mem _ hx))

/-- a list of ACCEPT rules accepts as soon as one of them matches. -/
theorem runRules_all_accept (cs : Chains) (f : Nat) (rs : List Rule) (p : Pkt)
    (hall : ∀ r ∈ rs, r.action = .accept) (hex : ∃ r ∈ rs, r.matches p = true) :
    runRules cs f rs p = .accept := by
  induction rs with
  | nil => obtain ⟨r, hr, _⟩ := hex; simp at hr
  | cons r rs ih =>
    by_cases hm : r.matches p = true
    · exact runRules_cons_accept _ _ _ _ _ hm (hall r List.mem_cons_self)
    · have hm' : r.matches p = false := by simpa using hm
      rw [runRules_cons_nomatch _ _ _ _ _ hm']
      apply ih (fun x hx => hall x (List.mem_cons_of_mem _ hx))
      obtain ⟨r', hr', hmr⟩ := hex
      rcases List.mem_cons.1 hr' with h | h
      · subst h; rw [hmr] at hm'; cases hm'
      · exact ⟨r', h, hmr⟩


theorem runRules_cons_notrack (cs : Chains) (f : Nat) (r : Rule) (rs : List Rule) (p : Pkt)
    (ha : r.action = .notrack) : runRules cs f (r :: rs) p = runRules cs f rs p := by
  by_cases h : r.matches p = true
  · simp [runRules, runRulesWith, h, ha]
  · have h' : r.matches p = false := by simpa using h
    exact runRules_cons_nomatch cs f r rs p h'

theorem runRules_cons_ret (cs : Chains) (f : Nat) (r : Rule) (rs : List Rule) (p : Pkt)
    (h : r.matches p = true) (ha : r.action = .ret) : runRules cs f (r :: rs) p = .fall p := by
  simp [runRules, runRulesWith, h, ha]

/-! ### mark bits -/

theorem testBit_clearBits (x m i : Nat) : (clearBits x m).testBit i = (x.testBit i && !m.testBit i) := by
  unfold clearBits
  rw [Nat.testBit_xor, Nat.testBit_and]
  cases x.testBit i <;> cases m.testBit i <;> rfl

theorem and_two_pow_cleared (x m b : Nat) (hm : m.testBit b = true) : clearBits x m &&& 2 ^ b = 0 := by
  apply Nat.eq_of_testBit_eq
  intro i
  rw [Nat.testBit_and, testBit_clearBits, Nat.testBit_two_pow, Nat.zero_testBit]
  by_cases h : b = i
  · subst h; simp [hm]
  · simp [h]

theorem markSet_cleared (p : Pkt) (m b : Nat) (hm : m.testBit b = true) :
    (Crit.markSet (2 ^ b)).holds { p with mark := clearBits p.mark m } = false := by
  simp only [Crit.holds, and_two_pow_cleared _ _ _ hm]
  have : (0 : Nat) ≠ 2 ^ b := Nat.ne_of_lt (Nat.two_pow_pos b)
  simp [this]

theorem markClear_cleared (p : Pkt) (m b : Nat) (hm : m.testBit b = true) :
    (Crit.markClear (2 ^ b)).holds { p with mark := clearBits p.mark m } = true := by
  simp [Crit.holds, and_two_pow_cleared _ _ _ hm]

/-- a terminal verdict other than DROP, or falling through (to the rest of the hook / the user's rules). -/
def NotDropped (r : Res) : Prop := r = .accept ∨ ∃ q, r = .fall q

/-- a run of rules whose action is the configured allow action (ACCEPT or RETURN): either one of
them fires (not a drop) or evaluation continues with the rest. -/
theorem allow_rules (cs : Chains) (f : Nat) (a : Action) (ha : a = .accept ∨ a = .ret) (rs rest : List Rule) (p : Pkt)
    (hall : ∀ r ∈ rs, r.action = a) :
    NotDropped (runRules cs f (rs ++ rest) p) ∨ runRules cs f (rs ++ rest) p = runRules cs f rest p := by
  induction rs with
  | nil => exact Or.inr rfl
  | cons r rs ih =>
    have hr := hall r List.mem_cons_self
    by_cases hm : r.matches p = true
    · left
      rcases ha with ha | ha
      · rw [List.cons_append, runRules_cons_accept cs f r _ p hm (hr.trans ha)]; exact Or.inl rfl
      · rw [List.cons_append, runRules_cons_ret cs f r _ p hm (hr.trans ha)]; exact Or.inr ⟨p, rfl⟩
    · have hm' : r.matches p = false := by simpa using hm
      rw [List.cons_append, runRules_cons_nomatch cs f r _ p hm']
      exact ih (fun x hx => hall x (List.mem_cons_of_mem _ hx))


theorem runRules_cons_setMark (cs : Chains) (f : Nat) (r : Rule) (rs : List Rule) (p : Pkt) (m : Nat)
    (h : r.matches p = true) (ha : r.action = .setMark m) :
    runRules cs f (r :: rs) p = runRules cs f rs { p with mark := p.mark ||| m } := by
  simp [runRules, runRulesWith, h, ha]

theorem single_allow_notdropped (cs : Chains) (f : Nat) (r : Rule) (q : Pkt)
    (ha : r.action = .accept ∨ r.action = .ret) : NotDropped (runRules cs f [r] q) := by
  rcases allow_rules cs f r.action ha [r] [] q (by intro x hx; simp at hx; subst hx; rfl) with h | h
  · simpa using h
  · right; exact ⟨q, by simpa [runRules_nil] using h⟩

/-- a matching head rule whose action is ACCEPT or RETURN. -/
theorem head_allow_notdropped (cs : Chains) (f : Nat) (r : Rule) (rs : List Rule) (p : Pkt)
    (hm : r.matches p = true) (ha : r.action = .accept ∨ r.action = .ret) : NotDropped (runRules cs f (r :: rs) p) := by
  rcases ha with ha | ha
  · rw [runRules_cons_accept cs f r rs p hm ha]; exact Or.inl rfl
  · rw [runRules_cons_ret cs f r rs p hm ha]; exact Or.inr ⟨p, rfl⟩

theorem and_two_pow_eq_iff (m b : Nat) : (m &&& 2 ^ b == 2 ^ b) = m.testBit b := by
  cases h : m.testBit b with
  | true =>
    have : m &&& 2 ^ b = 2 ^ b := by
      apply Nat.eq_of_testBit_eq
      intro i
      rw [Nat.testBit_and, Nat.testBit_two_pow]
      by_cases e : b = i
      · subst e; simp [h]
      · simp [e]
    simp [this]
  | false =>
    have : m &&& 2 ^ b = 0 := by
      apply Nat.eq_of_testBit_eq
      intro i
      rw [Nat.testBit_and, Nat.testBit_two_pow, Nat.zero_testBit]
      by_cases e : b = i
      · subst e; simp [h]
      · simp [e]
    have hne : (0 : Nat) ≠ 2 ^ b := Nat.ne_of_lt (Nat.two_pow_pos b)
    simp [this, hne]

theorem testBit_or_two_pow (m b : Nat) : (m ||| 2 ^ b).testBit b = true := by
  rw [Nat.testBit_or, Nat.testBit_two_pow]; simp

theorem testBit_or_keep (m z b : Nat) (h : m.testBit b = true) : (m ||| z).testBit b = true := by
  rw [Nat.testBit_or, h]; rfl

end CalicoVerif.C40
