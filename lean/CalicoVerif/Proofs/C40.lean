import CalicoVerif.Model.C40
/-! C40 — helper lemmas about `runRules` / `runChain`. -/
namespace CalicoVerif.C40

theorem runRules_nil (cs : Chains) (f : Nat) (p : Pkt) : runRules cs f [] p = .fall p := by
  simp [runRules, runRulesWith]

theorem runRules_cons_nomatch (cs : Chains) (f : Nat) (r : Rule) (rs : List Rule) (p : Pkt)
    (h : r.matches p = false) : runRules cs f (r :: rs) p = runRules cs f rs p := by
  simp [runRules, runRulesWith, h]

theorem runRules_cons_accept (cs : Chains) (f : Nat) (r : Rule) (rs : List Rule) (p : Pkt)
    (h : r.matches p = true) (ha : r.action = .accept) : runRules cs f (r :: rs) p = .accept := by
  simp [runRules, runRulesWith, h, ha]

theorem runRules_cons_drop (cs : Chains) (f : Nat) (r : Rule) (rs : List Rule) (p : Pkt)
    (h : r.matches p = true) (ha : r.action = .drop) : runRules cs f (r :: rs) p = .drop := by
  simp [runRules, runRulesWith, h, ha]

theorem runRules_cons_jump (cs : Chains) (f : Nat) (r : Rule) (rs : List Rule) (p : Pkt) (c : String)
    (h : r.matches p = true) (ha : r.action = .jump c) :
    runRules cs f (r :: rs) p = (match runChain cs f c p with | .fall p' => runRules cs f rs p' | v => v) := by
  simp only [runRules, runRulesWith, h, ha, if_true]
  cases runChain cs f c p <;> rfl

theorem runRules_cons_goto (cs : Chains) (f : Nat) (r : Rule) (rs : List Rule) (p : Pkt) (c : String)
    (h : r.matches p = true) (ha : r.action = .goto c) :
    runRules cs f (r :: rs) p = runChain cs f c p := by
  simp [runRules, runRulesWith, h, ha]

theorem runRules_cons_clear (cs : Chains) (f : Nat) (r : Rule) (rs : List Rule) (p : Pkt) (m : Nat)
    (h : r.matches p = true) (ha : r.action = .clearMark m) :
    runRules cs f (r :: rs) p = runRules cs f rs { p with mark := clearBits p.mark m } := by
  simp [runRules, runRulesWith, h, ha]

theorem runChain_succ (cs : Chains) (f : Nat) (c : String) (p : Pkt) (rs : List Rule) (h : cs c = some rs) :
    runChain cs (f + 1) c p = runRules cs f rs p := by
  simp [runChain, runRules, h]

/-- a prefix of non-matching rules is skipped. -/
theorem runRules_skip (cs : Chains) (f : Nat) (pre rest : List Rule) (p : Pkt)
    (h : ∀ r ∈ pre, r.matches p = false) : runRules cs f (pre ++ rest) p = runRules cs f rest p := by
  induction pre with
  | nil => rfl
  | cons r pre ih =>
    rw [List.cons_append, runRules_cons_nomatch _ _ _ _ _ (h r List.mem_cons_self)]
    exact ih (fun x hx => h x (List.mem_cons_of_mem _ hx))

/-- a list of ACCEPT rules accepts as soon as one of them matches. -/
theorem runRules_all_accept (cs : Chains) (f : Nat) (rs : List Rule) (p : Pkt)
    (hall : ∀ r ∈ rs, r.action = .accept) (hex : ∃ r ∈ rs, r.matches p = true) :
    runRules cs f rs p = .accept := by
  induction rs with
  | nil => obtain ⟨r, hr, _⟩ := hex; simp at hr
  | cons r rs ih =>
    by_cases hm : r.matches p = true
    · exact runRules_cons_accept _ _ _ _ _ hm (hall r List.mem_cons_self)
    · have hm' : r.matches p = false := by simpa using hm
      rw [runRules_cons_nomatch _ _ _ _ _ hm']
      apply ih (fun x hx => hall x (List.mem_cons_of_mem _ hx))
      obtain ⟨r', hr', hmr⟩ := hex
      rcases List.mem_cons.1 hr' with h | h
      · subst h; rw [hmr] at hm'; cases hm'
      · exact ⟨r', h, hmr⟩

end CalicoVerif.C40
