import CalicoVerif.Proofs.C15r
set_option linter.unusedSimpArgs false
namespace CalicoVerif.C15

/-- Name-space discipline of the table state, for a predicate `Q` on chain names ("is Felix's"): every dirty chain
satisfies `Q`, and so does every chain that a rule of a chain Felix was given, or a hook rule, jumps to. -/
structure DInv (Q : String → Prop) (t : T) : Prop where
  dirty : ∀ x ∈ t.dirty, Q x
  refs : ∀ c ch, t.chains.get c = some ch → ∀ x ∈ refsOf ch.rules, Q x
  ins : ∀ c, ∀ x ∈ refsOf ((t.ins.get c).getD []), Q x
  app : ∀ c, ∀ x ∈ refsOf ((t.app.get c).getD []), Q x

/-- What the refcount cascades may change, seen from `DInv`. -/
structure DStep (Q : String → Prop) (a b : T) : Prop where
  chains : b.chains = a.chains
  ins : b.ins = a.ins
  app : b.app = a.app
  dirty : ∀ x ∈ b.dirty, x ∈ a.dirty ∨ Q x

theorem DStep.refl (Q : String → Prop) (a : T) : DStep Q a a := ⟨rfl, rfl, rfl, fun _ h => Or.inl h⟩
theorem DStep.trans {Q : String → Prop} {a b c : T} (h1 : DStep Q a b) (h2 : DStep Q b c) : DStep Q a c :=
  ⟨h2.chains.trans h1.chains, h2.ins.trans h1.ins, h2.app.trans h1.app, fun x hx => by
    rcases h2.dirty x hx with h | h
    · exact h1.dirty x h
    · exact Or.inr h⟩

theorem DInv.step {Q : String → Prop} {a b : T} (h : DInv Q a) (s : DStep Q a b) : DInv Q b :=
  ⟨fun x hx => by rcases s.dirty x hx with h' | h'; exact h.dirty x h'; exact h',
   fun c ch hc => h.refs c ch (by rw [← s.chains]; exact hc),
   fun c => by rw [s.ins]; exact h.ins c, fun c => by rw [s.app]; exact h.app c⟩

/-- Folding a cascade over names that all satisfy `Q`, when each single cascade is a `DStep` as long as the
chains' references satisfy `Q` (which no cascade changes). -/
theorem DStep.fold {Q : String → Prop} (step : T → String → T)
    (hstep : ∀ t x, Q x → (∀ c ch, t.chains.get c = some ch → ∀ y ∈ refsOf ch.rules, Q y) → DStep Q t (step t x)) :
    ∀ (L : List String) (t : T), (∀ x ∈ L, Q x) →
      (∀ c ch, t.chains.get c = some ch → ∀ y ∈ refsOf ch.rules, Q y) → DStep Q t (L.foldl step t) := by
  intro L
  induction L with
  | nil => intro t _ _; exact DStep.refl Q t
  | cons x L ih =>
    intro t hL hr
    have s1 := hstep t x (hL x List.mem_cons_self) hr
    exact s1.trans (ih _ (fun y hy => hL y (List.mem_cons_of_mem _ hy))
      (fun c ch hc => hr c ch (by rw [← s1.chains]; exact hc)))

theorem incref_dstep {Q : String → Prop} : ∀ (f : Nat) (t : T) (n : String), Q n →
    (∀ c ch, t.chains.get c = some ch → ∀ y ∈ refsOf ch.rules, Q y) → DStep Q t (T.incref f t n) := by
  intro f
  induction f with
  | zero => intro t n _ _; exact DStep.refl Q t
  | succ f ih =>
    intro t n hn hr
    unfold T.incref
    dsimp only
    split
    · have s1 : DStep Q t { t with refc := t.refc.set n ((t.refc.get n).getD 0 + 1), dirty := sAdd t.dirty n } :=
        ⟨rfl, rfl, rfl, fun x hx => by
          rcases mem_sAdd.1 hx with h | rfl
          · exact Or.inl h
          · exact Or.inr hn⟩
      refine s1.trans ?_
      cases hch : t.chains.get n with
      | none => exact DStep.refl Q _
      | some ch =>
        dsimp only
        exact DStep.fold _ (fun t x hx hr' => ih t x hx hr') _ _ (hr n ch hch) hr
    · exact ⟨rfl, rfl, rfl, fun _ h => Or.inl h⟩

theorem decref_dstep {Q : String → Prop} : ∀ (f : Nat) (t : T) (n : String), Q n →
    (∀ c ch, t.chains.get c = some ch → ∀ y ∈ refsOf ch.rules, Q y) → DStep Q t (T.decref f t n) := by
  intro f
  induction f with
  | zero => intro t n _ _; exact DStep.refl Q t
  | succ f ih =>
    intro t n hn hr
    unfold T.decref
    split
    · have last : ∀ t1 : T, DStep Q t1 { t1 with refc := t1.refc.erase n, dirty := sAdd t1.dirty n } := fun t1 =>
        ⟨rfl, rfl, rfl, fun x hx => by
          rcases mem_sAdd.1 hx with h | rfl
          · exact Or.inl h
          · exact Or.inr hn⟩
      cases hch : t.chains.get n with
      | none => exact last t
      | some ch =>
        dsimp only
        exact (DStep.fold _ (fun t x hx hr' => ih t x hx hr') _ _ (hr n ch hch) hr).trans (last _)
    · exact ⟨rfl, rfl, rfl, fun _ h => Or.inl h⟩

theorem maybeIncref_dstep {Q : String → Prop} (t : T) (name : String) (rules : List DRule) (hq : ∀ x ∈ refsOf rules, Q x)
    (hr : ∀ c ch, t.chains.get c = some ch → ∀ y ∈ refsOf ch.rules, Q y) : DStep Q t (t.maybeIncref name rules) := by
  unfold T.maybeIncref
  split
  · exact DStep.fold _ (fun t x hx hr' => incref_dstep fuel t x hx hr') _ _ hq hr
  · exact DStep.refl Q t

theorem maybeDecref_dstep {Q : String → Prop} (t : T) (name : String) (rules : List DRule) (hq : ∀ x ∈ refsOf rules, Q x)
    (hr : ∀ c ch, t.chains.get c = some ch → ∀ y ∈ refsOf ch.rules, Q y) : DStep Q t (t.maybeDecref name rules) := by
  unfold T.maybeDecref
  split
  · exact DStep.fold _ (fun t x hx hr' => decref_dstep fuel t x hx hr') _ _ hq hr
  · exact DStep.refl Q t

theorem DInv.invalidate {Q : String → Prop} {t : T} (h : DInv Q t) : DInv Q t.invalidate := ⟨h.dirty, h.refs, h.ins, h.app⟩

/-- Last step of `UpdateChain`/`RemoveChainByName`. -/
theorem DInv.setChain {Q : String → Prop} {t : T} (h : DInv Q t) (name : String) (hn : Q name) (cs : Map Chain)
    (hcs : ∀ c ch, cs.get c = some ch → ∀ y ∈ refsOf ch.rules, Q y) :
    DInv Q (if ({ t with chains := cs } : T).refd name then ({ { t with chains := cs } with dirty := sAdd t.dirty name } : T).invalidate
            else { t with chains := cs }) := by
  split
  · refine ⟨?_, hcs, h.ins, h.app⟩
    intro x hx
    rcases mem_sAdd.1 hx with h' | rfl
    · exact h.dirty x h'
    · exact hn
  · exact ⟨h.dirty, hcs, h.ins, h.app⟩

theorem DInv.updateChain {Q : String → Prop} {t : T} (h : DInv Q t) (name : String) (ch : Chain) (hn : Q name)
    (hch : ∀ x ∈ refsOf ch.rules, Q x) : DInv Q (t.updateChain name ch) := by
  unfold T.updateChain
  dsimp only
  have s1 : DStep Q t (if ch.force then T.incref fuel t name else t) := by
    split
    · exact incref_dstep _ _ _ hn h.refs
    · exact DStep.refl Q t
  have h1 := h.step s1
  generalize (if ch.force then T.incref fuel t name else t) = t1 at h1 ⊢
  have hset : ∀ (t2 : T), DInv Q t2 → ∀ c ch', (t2.chains.set name ch).get c = some ch' → ∀ y ∈ refsOf ch'.rules, Q y := by
    intro t2 h2 c ch' hc
    rw [Map.get_set] at hc
    split at hc
    · simp only [Option.some.injEq] at hc; rw [← hc]; exact hch
    · exact h2.refs c ch' hc
  cases hold : t1.chains.get name with
  | none =>
    dsimp only
    have h2 := h1.step (maybeIncref_dstep t1 name ch.rules hch h1.refs)
    exact h2.setChain name hn _ (hset _ h2)
  | some old =>
    dsimp only
    have hold' := h1.refs name old hold
    have s2 : DStep Q t1 (if old.force then T.decref fuel t1 name else t1) := by
      split
      · exact decref_dstep _ _ _ hn h1.refs
      · exact DStep.refl Q t1
    have h2 := h1.step s2
    have h3 := h2.step (maybeIncref_dstep _ name ch.rules hch h2.refs)
    have h4 := h3.step (maybeDecref_dstep _ name old.rules hold' h3.refs)
    exact h4.setChain name hn _ (hset _ h4)

theorem DInv.removeChain {Q : String → Prop} {t : T} (h : DInv Q t) (name : String) (hn : Q name) : DInv Q (t.removeChain name) := by
  unfold T.removeChain
  cases hold : t.chains.get name with
  | none => exact h
  | some old =>
    dsimp only
    have hold' := h.refs name old hold
    have s2 : DStep Q t (if old.force then T.decref fuel t name else t) := by
      split
      · exact decref_dstep _ _ _ hn h.refs
      · exact DStep.refl Q t
    have h2 := h.step s2
    have h4 := h2.step (maybeDecref_dstep _ name old.rules hold' h2.refs)
    refine h4.setChain name hn _ ?_
    intro c ch' hc
    rw [Map.get_erase] at hc
    split at hc
    · simp at hc
    · exact h4.refs c ch' hc

theorem DInv.setInserts {Q : String → Prop} {t : T} (h : DInv Q t) (c : String) (rules : List DRule)
    (hq : ∀ x ∈ refsOf rules, Q x) : DInv Q (t.setInserts c rules) := by
  unfold T.setInserts
  dsimp only
  have h0 : DInv Q ({ t with ins := t.ins.set c rules, dirtyIA := sAdd t.dirtyIA c } : T) := by
    refine ⟨h.dirty, h.refs, ?_, h.app⟩
    intro c' x hx
    have hx' : x ∈ refsOf (((t.ins.set c rules).get c').getD []) := hx
    rw [Map.get_set] at hx'
    split at hx'
    · exact hq x hx'
    · exact h.ins c' x hx'
  have h1 := h0.step (maybeIncref_dstep _ c rules hq h0.refs)
  exact (h1.step (maybeDecref_dstep _ c _ (h.ins c) h1.refs)).invalidate

theorem DInv.setAppends {Q : String → Prop} {t : T} (h : DInv Q t) (c : String) (rules : List DRule)
    (hq : ∀ x ∈ refsOf rules, Q x) : DInv Q (t.setAppends c rules) := by
  unfold T.setAppends
  dsimp only
  have h0 : DInv Q ({ t with app := t.app.set c rules, dirtyIA := sAdd t.dirtyIA c } : T) := by
    refine ⟨h.dirty, h.refs, h.ins, ?_⟩
    intro c' x hx
    have hx' : x ∈ refsOf (((t.app.set c rules).get c').getD []) := hx
    rw [Map.get_set] at hx'
    split at hx'
    · exact hq x hx'
    · exact h.app c' x hx'
  have h1 := h0.step (maybeIncref_dstep _ c rules hq h0.refs)
  exact (h1.step (maybeDecref_dstep _ c _ (h.app c) h1.refs)).invalidate

theorem DInv.load {t : T} (h : DInv (fun x => t.ours x = true) t) (K : Kernel) :
    DInv (fun x => t.ours x = true) (t.load K) := by
  obtain ⟨t2, hrel, hload, _⟩ := load_desc t K
  rw [hload]
  refine ⟨?_, ?_, ?_, ?_⟩
  · intro x hx
    have hx' : x ∈ t2.dirty := hx
    rcases hrel.dirtyNew x hx' with h' | h'
    · exact h.dirty x h'
    · exact h'
  · intro c ch hc
    have hc' : t2.chains.get c = some ch := hc
    rw [hrel.chains] at hc'; exact h.refs c ch hc'
  · intro c
    show ∀ x ∈ refsOf ((t2.ins.get c).getD []), _
    rw [hrel.ins]; exact h.ins c
  · intro c
    show ∀ x ∈ refsOf ((t2.app.get c).getD []), _
    rw [hrel.app]; exact h.app c

theorem DInv.commit {Q : String → Prop} {t : T} (h : DInv Q t) (newH : Map (Option (List String))) (newFull : Map (List FR)) :
    DInv Q (t.commit newH newFull) := ⟨fun x hx => by simp [T.commit] at hx, h.refs, h.ins, h.app⟩

theorem DInv.new (Q : String → Prop) (P : List String) (m : Bool) : DInv Q (T.new P m) := by
  refine ⟨fun x hx => by simp [T.new] at hx, fun c ch hc => by simp [T.new, Map.get] at hc, ?_, ?_⟩
  · intro c x hx
    have : ((T.new P m).ins.get c).getD [] = [] := by
      simp only [T.new, Map.get, kernelChains, List.map, List.lookup]
      split <;> (try split) <;> (try split) <;> rfl
    rw [this] at hx; simp [refsOf] at hx
  · intro c x hx
    have : ((T.new P m).app.get c).getD [] = [] := by
      simp only [T.new, Map.get, kernelChains, List.map, List.lookup]
      split <;> (try split) <;> (try split) <;> rfl
    rw [this] at hx; simp [refsOf] at hx

end CalicoVerif.C15
