import CalicoVerif.Model.C35
/-!
C35 — helper lemmas for `CalicoVerif.Props.C35` (core Lean only).

Structure:
* `positions`: membership, strict ascent, `positions (orBits L) = L`.
* allocation: `Mgr.nextBlock`/`Mgr.run` expressed over the list of positions
  that are still free (`(positions mask).drop numBitsAllocated`).
* number ↔ mark: both loops expressed over the quotient `number / 2^i`.
-/
namespace CalicoVerif.C35

/-! ### positions -/

theorem mem_positionsBelow {mask w p : Nat} :
    p ∈ positionsBelow mask w ↔ p < w ∧ mask.testBit p = true := by
  induction w with
  | zero => simp [positionsBelow]
  | succ w ih =>
    simp only [positionsBelow, List.mem_append, ih]
    by_cases h : mask.testBit w = true
    · simp only [h, if_true, List.mem_singleton]
      constructor
      · rintro (⟨h1, h2⟩ | rfl)
        · exact ⟨by omega, h2⟩
        · exact ⟨by omega, h⟩
      · rintro ⟨h1, h2⟩
        by_cases hp : p = w
        · exact Or.inr hp
        · exact Or.inl ⟨by omega, h2⟩
    · have hf : mask.testBit w = false := by simpa using h
      simp only [hf, Bool.false_eq_true, if_false, List.not_mem_nil, or_false]
      constructor
      · rintro ⟨h1, h2⟩; exact ⟨by omega, h2⟩
      · rintro ⟨h1, h2⟩
        have : p ≠ w := by rintro rfl; exact h h2
        exact ⟨by omega, h2⟩

theorem mem_positions {mask p : Nat} : p ∈ positions mask ↔ p < 32 ∧ mask.testBit p = true :=
  mem_positionsBelow

theorem positionsBelow_sorted (mask w : Nat) : (positionsBelow mask w).Pairwise (· < ·) := by
  induction w with
  | zero => simp [positionsBelow]
  | succ w ih =>
    simp only [positionsBelow]
    rw [List.pairwise_append]
    refine ⟨ih, ?_, ?_⟩
    · split <;> simp
    · intro a ha b hb
      have h1 := (mem_positionsBelow.1 ha).1
      split at hb
      · simp at hb; omega
      · simp at hb

theorem positions_sorted (mask : Nat) : (positions mask).Pairwise (· < ·) :=
  positionsBelow_sorted mask 32

/-- `positionsBelow` only looks at the bits below `w`. -/
theorem positionsBelow_congr {a b w : Nat} (h : ∀ p, p < w → a.testBit p = b.testBit p) :
    positionsBelow a w = positionsBelow b w := by
  induction w with
  | zero => rfl
  | succ w ih =>
    simp only [positionsBelow]
    rw [ih (fun p hp => h p (by omega)), h w (by omega)]

/-- `uint32(mask)`: only the low 32 bits of the mask matter. -/
theorem positions_mod (mask : Nat) : positions (mask % 2 ^ 32) = positions mask := by
  apply positionsBelow_congr
  intro p hp
  rw [Nat.testBit_mod_two_pow]
  simp [hp]

theorem popcount_le (mask : Nat) : popcount mask ≤ 32 := by
  have : ∀ w, (positionsBelow mask w).length ≤ w := by
    intro w
    induction w with
    | zero => simp [positionsBelow]
    | succ w ih =>
      simp only [positionsBelow, List.length_append]
      split <;> simp <;> omega
  exact this 32

/-- Two strictly ascending lists with the same members are equal. -/
theorem sorted_ext : ∀ {l1 l2 : List Nat}, l1.Pairwise (· < ·) → l2.Pairwise (· < ·) →
    (∀ x, x ∈ l1 ↔ x ∈ l2) → l1 = l2
  | [], [], _, _, _ => rfl
  | [], b :: l2, _, _, h => by have := (h b).2 (by simp); simp at this
  | a :: l1, [], _, _, h => by have := (h a).1 (by simp); simp at this
  | a :: l1, b :: l2, h1, h2, h => by
    rw [List.pairwise_cons] at h1 h2
    have hab : a = b := by
      have ha := (h a).1 (by simp)
      have hb := (h b).2 (by simp)
      simp only [List.mem_cons] at ha hb
      rcases ha with ha | ha
      · exact ha
      · rcases hb with hb | hb
        · exact hb.symm
        · have := h1.1 b hb; have := h2.1 a ha; omega
    subst hab
    congr 1
    apply sorted_ext h1.2 h2.2
    intro x
    constructor
    · intro hx
      have := (h x).1 (by simp [hx])
      simp only [List.mem_cons] at this
      rcases this with rfl | this
      · have := h1.1 x hx; omega
      · exact this
    · intro hx
      have := (h x).2 (by simp [hx])
      simp only [List.mem_cons] at this
      rcases this with rfl | this
      · have := h2.1 x hx; omega
      · exact this

/-! ### orBits -/

theorem testBit_orBits (L : List Nat) (x : Nat) : (orBits L).testBit x = decide (x ∈ L) := by
  induction L with
  | nil => simp [orBits]
  | cons p ps ih =>
    simp only [orBits, Nat.testBit_or, Nat.testBit_two_pow, ih, List.mem_cons]
    by_cases h : p = x
    · subst h; simp
    · have : ¬ x = p := fun e => h e.symm
      simp [h, this]

/-- The set bits of `orBits L`, listed in ascending order, are `L` itself when
`L` is strictly ascending and below 32: in particular `popcount (orBits L) = L.length`. -/
theorem positions_orBits {L : List Nat} (hs : L.Pairwise (· < ·)) (hb : ∀ x ∈ L, x < 32) :
    positions (orBits L) = L := by
  apply sorted_ext (positions_sorted _) hs
  intro x
  rw [mem_positions, testBit_orBits]
  constructor
  · rintro ⟨_, h⟩; simpa using h
  · intro h; exact ⟨hb x h, by simpa using h⟩

theorem orBits_append (L1 L2 : List Nat) : orBits (L1 ++ L2) = orBits L1 ||| orBits L2 := by
  induction L1 with
  | nil => simp [orBits]
  | cons p ps ih => simp [orBits, ih, Nat.or_assoc]

theorem orBits_and_mask {L : List Nat} {mask : Nat} (h : ∀ x ∈ L, mask.testBit x = true) :
    orBits L &&& mask = orBits L := by
  apply Nat.eq_of_testBit_eq
  intro i
  rw [Nat.testBit_and, testBit_orBits]
  by_cases hi : i ∈ L
  · simp [hi, h i hi]
  · simp [hi]

theorem orBits_disjoint {L1 L2 : List Nat} (h : ∀ x ∈ L1, x ∉ L2) : orBits L1 &&& orBits L2 = 0 := by
  apply Nat.eq_of_testBit_eq
  intro i
  rw [Nat.testBit_and, testBit_orBits, testBit_orBits, Nat.zero_testBit]
  by_cases hi : i ∈ L1
  · simp [hi, h i hi]
  · simp [hi]


/-! ### allocation: refinement to "take a prefix of the free positions" -/

/-- Positions of the mask that have not been handed out yet. -/
def Mgr.rem (m : Mgr) : List Nat := (positions m.mask).drop m.numBitsAllocated

/-- Invariant of `MarkBitsManager`: allocated + free = number of mask bits. -/
def Mgr.WF (m : Mgr) : Prop := m.numBitsAllocated + m.numFreeBits = popcount m.mask

theorem Mgr.new_mask (mask : Nat) : (Mgr.new mask).mask = mask % 2 ^ 32 := rfl

theorem Mgr.new_rem (mask : Nat) : (Mgr.new mask).rem = positions mask := by
  simp [Mgr.rem, Mgr.new, positions_mod]

theorem Mgr.new_WF (mask : Nat) : (Mgr.new mask).WF := by
  simp [Mgr.WF, Mgr.new, popcount]

theorem rem_length (m : Mgr) (h : m.WF) : m.rem.length = m.numFreeBits := by
  unfold Mgr.WF popcount at h
  simp only [Mgr.rem, List.length_drop]
  omega

theorem nextSingle_nil {m : Mgr} (h : m.rem = []) : m.nextSingle = (m, none) := by
  have : (positions m.mask)[m.numBitsAllocated]? = none := by
    rw [← List.head?_drop]; simp [Mgr.rem] at h; simp [h]
  simp [Mgr.nextSingle, nthMark, this]

/-- State after a successful `NextSingleBitMark`. -/
def Mgr.succ (m : Mgr) : Mgr :=
  { m with numFreeBits := m.numFreeBits - 1, numBitsAllocated := m.numBitsAllocated + 1 }

theorem Mgr.succ_mask (m : Mgr) : m.succ.mask = m.mask := rfl
theorem Mgr.succ_alloc (m : Mgr) : m.succ.numBitsAllocated = m.numBitsAllocated + 1 := rfl
theorem Mgr.succ_free (m : Mgr) : m.succ.numFreeBits = m.numFreeBits - 1 := rfl

theorem nextSingle_cons {m : Mgr} {p : Nat} {rest : List Nat} (h : m.rem = p :: rest) :
    m.nextSingle = (m.succ, some (2 ^ p)) := by
  have : (positions m.mask)[m.numBitsAllocated]? = some p := by
    rw [← List.head?_drop]; unfold Mgr.rem at h; rw [h]; rfl
  simp [Mgr.nextSingle, nthMark, this, Mgr.succ]

theorem rem_succ {m : Mgr} {p : Nat} {rest : List Nat} (h : m.rem = p :: rest) :
    m.succ.rem = rest := by
  unfold Mgr.rem at h ⊢
  rw [Mgr.succ_mask, Mgr.succ_alloc, ← List.drop_drop, h]; rfl

theorem succ_WF {m : Mgr} {p : Nat} {rest : List Nat} (h : m.WF) (hr : m.rem = p :: rest) :
    m.succ.WF := by
  have hlen := rem_length m h
  rw [hr] at hlen
  simp only [List.length_cons] at hlen
  unfold Mgr.WF at h ⊢
  rw [Mgr.succ_mask, Mgr.succ_alloc, Mgr.succ_free]
  omega

/-- `NextBlockBitsMark` takes the first `min size free` free positions. -/
theorem nextBlock_spec : ∀ (size : Nat) (m : Mgr) (mark alloc : Nat), m.WF →
    ∃ m', m.nextBlock size mark alloc =
        (m', mark ||| orBits (m.rem.take size), alloc + (m.rem.take size).length) ∧
      m'.WF ∧ m'.mask = m.mask ∧ m'.rem = m.rem.drop size ∧
      m'.numBitsAllocated = m.numBitsAllocated + (m.rem.take size).length
  | 0, m, mark, alloc, h => ⟨m, by simp [Mgr.nextBlock, orBits], h, rfl, by simp, by simp⟩
  | size + 1, m, mark, alloc, h => by
    cases hr : m.rem with
    | nil =>
      refine ⟨m, ?_, h, rfl, by simp [hr], by simp⟩
      simp [Mgr.nextBlock, nextSingle_nil hr, orBits]
    | cons p rest =>
      obtain ⟨m', e, hwf, hmask, hrem, hcnt⟩ :=
        nextBlock_spec size m.succ (mark ||| 2 ^ p) (alloc + 1) (succ_WF h hr)
      rw [rem_succ hr] at e hrem hcnt
      rw [Mgr.succ_mask] at hmask
      rw [Mgr.succ_alloc] at hcnt
      refine ⟨m', ?_, hwf, hmask, ?_, ?_⟩
      · simp only [Mgr.nextBlock, nextSingle_cons hr]
        rw [e]
        simp only [List.take_succ_cons, orBits, List.length_cons, Nat.or_assoc]
        congr 2
        omega
      · rw [hrem]; simp
      · rw [hcnt]
        simp only [List.take_succ_cons, List.length_cons]; omega

/-- Size requested by an operation (`NextSingleBitMark` asks for one bit). -/
def AllocOp.size : AllocOp → Nat
  | .single => 1
  | .block k => k

/-- The event an operation produces when it is given the positions `t`. -/
def evOf : AllocOp → List Nat → Event
  | .single, t => .single (t.head?.map (2 ^ ·))
  | .block k, t => .block k (orBits t) t.length

/-- Specification of an allocation history: every operation takes the first
`size` free positions (fewer if not enough are left). -/
def specRun (rem : List Nat) : List AllocOp → List Event
  | [] => []
  | op :: ops => evOf op (rem.take op.size) :: specRun (rem.drop op.size) ops

theorem step_spec (m : Mgr) (op : AllocOp) (h : m.WF) :
    (m.step op).2 = evOf op (m.rem.take op.size) ∧ (m.step op).1.WF ∧
      (m.step op).1.mask = m.mask ∧ (m.step op).1.rem = m.rem.drop op.size ∧
      (m.step op).1.numBitsAllocated = m.numBitsAllocated + (m.rem.take op.size).length := by
  cases op with
  | single =>
    cases hr : m.rem with
    | nil =>
      simp only [Mgr.step, nextSingle_nil hr, evOf, AllocOp.size]
      exact ⟨by simp, h, trivial, by simp [hr], by simp⟩
    | cons p rest =>
      simp only [Mgr.step, nextSingle_cons hr, evOf, AllocOp.size]
      refine ⟨by simp, succ_WF h hr, Mgr.succ_mask m, ?_, ?_⟩
      · rw [rem_succ hr]; simp
      · rw [Mgr.succ_alloc]; simp
  | block k =>
    obtain ⟨m', e, hwf, hmask, hrem, hcnt⟩ := nextBlock_spec k m 0 0 h
    simp only [Mgr.step, e, evOf, AllocOp.size]
    exact ⟨by simp, hwf, hmask, hrem, hcnt⟩

theorem evOf_count (op : AllocOp) (rem : List Nat) :
    (evOf op (rem.take op.size)).count = (rem.take op.size).length := by
  cases op with
  | single => cases rem <;> simp [evOf, AllocOp.size, Event.count]
  | block k => simp [evOf, Event.count]

theorem evOf_mark (op : AllocOp) (rem : List Nat) :
    (evOf op (rem.take op.size)).mark = orBits (rem.take op.size) := by
  cases op with
  | single => cases rem <;> simp [evOf, AllocOp.size, Event.mark, orBits]
  | block k => simp [evOf, Event.mark]

/-- The real allocation history refines the specification. -/
theorem run_spec : ∀ (ops : List AllocOp) (m : Mgr), m.WF →
    (m.run ops).2 = specRun m.rem ops ∧ (m.run ops).1.WF ∧ (m.run ops).1.mask = m.mask ∧
      (m.run ops).1.numBitsAllocated = m.numBitsAllocated + (((m.run ops).2).map Event.count).sum
  | [], m, h => ⟨rfl, h, rfl, by simp [Mgr.run]⟩
  | op :: ops, m, h => by
    obtain ⟨he, hwf, hmask, hrem, hcnt⟩ := step_spec m op h
    obtain ⟨ie, iwf, imask, icnt⟩ := run_spec ops (m.step op).1 hwf
    refine ⟨?_, iwf, by simp only [Mgr.run]; rw [imask, hmask], ?_⟩
    · simp only [Mgr.run, specRun]; rw [ie, he, hrem]
    · simp only [Mgr.run, List.map_cons, List.sum_cons]
      rw [icnt, hcnt, he, evOf_count]; omega

theorem specRun_count_sum : ∀ (ops : List AllocOp) (rem : List Nat),
    ((specRun rem ops).map Event.count).sum = min (ops.map AllocOp.size).sum rem.length
  | [], rem => by simp [specRun]
  | op :: ops, rem => by
    simp only [specRun, List.map_cons, List.sum_cons, evOf_count, specRun_count_sum ops,
      List.length_take, List.length_drop]
    omega

/-- Main list-level fact: along a history every event's bits are a sublist of
the free positions, and different events use disjoint positions. -/
theorem specRun_disjoint : ∀ (ops : List AllocOp) (rem : List Nat), rem.Pairwise (· < ·) →
    (∀ e ∈ specRun rem ops, ∃ t, t.Sublist rem ∧ e.mark = orBits t) ∧
      (specRun rem ops).Pairwise (fun e1 e2 => e1.mark &&& e2.mark = 0)
  | [], rem, _ => by simp [specRun]
  | op :: ops, rem, hs => by
    have hsplit : rem.take op.size ++ rem.drop op.size = rem := List.take_append_drop _ _
    have hs' := hs
    rw [← hsplit, List.pairwise_append] at hs'
    obtain ⟨ih1, ih2⟩ := specRun_disjoint ops (rem.drop op.size) hs'.2.1
    simp only [specRun]
    constructor
    · intro e he
      rcases List.mem_cons.1 he with rfl | he
      · exact ⟨_, List.take_sublist _ _, evOf_mark op rem⟩
      · obtain ⟨t, ht, hm⟩ := ih1 e he
        exact ⟨t, ht.trans (List.drop_sublist _ _), hm⟩
    · rw [List.pairwise_cons]
      refine ⟨?_, ih2⟩
      intro e he
      obtain ⟨t, ht, hm⟩ := ih1 e he
      rw [evOf_mark, hm]
      apply orBits_disjoint
      intro x hx hxt
      have := hs'.2.2 x hx x (ht.subset hxt)
      omega


/-! ### number ↔ mark -/

theorem and_two_pow (n i : Nat) : n &&& 2 ^ i = if n.testBit i then 2 ^ i else 0 := by
  apply Nat.eq_of_testBit_eq
  intro j
  rw [Nat.testBit_and, Nat.testBit_two_pow]
  by_cases hij : i = j
  · subst hij
    by_cases hb : n.testBit i = true
    · simp [hb]
    · have : n.testBit i = false := by simpa using hb
      simp [this]
  · by_cases hb : n.testBit i = true
    · simp [hb, hij]
    · have : n.testBit i = false := by simpa using hb
      simp [this, hij]

/-- The mark `MapNumberToMark` builds from the quotient `q = number / 2^i`:
bit `j` of `q` selects position `ps[j]`. -/
def markOf : List Nat → Nat → Nat
  | [], _ => 0
  | p :: ps, q => (if q % 2 = 1 then 2 ^ p else 0) ||| markOf ps (q / 2)

/-- The number `MapMarkToNumber` builds: bit `j` is set iff `mark` has bit `ps[j]`. -/
def numOf (mark : Nat) : List Nat → Nat
  | [] => 0
  | p :: ps => (if mark.testBit p then 1 else 0) + 2 * numOf mark ps

theorem numToMarkLoop_eq : ∀ (ps : List Nat) (i q mark : Nat),
    numToMarkLoop ps i (2 ^ i * q) mark =
      (2 ^ (i + ps.length) * (q / 2 ^ ps.length), mark ||| markOf ps q)
  | [], i, q, mark => by simp [numToMarkLoop, markOf]
  | p :: ps, i, q, mark => by
    have htb : (2 ^ i * q).testBit i = decide (q % 2 = 1) := by
      rw [Nat.testBit_two_pow_mul]; simp [Nat.testBit_zero]
    have hdiv : q / 2 / 2 ^ ps.length = q / 2 ^ (ps.length + 1) := by
      rw [Nat.div_div_eq_div_mul, Nat.pow_succ, Nat.mul_comm]
    have hexp : i + 1 + ps.length = i + (ps.length + 1) := by omega
    simp only [numToMarkLoop, and_two_pow, htb, List.length_cons]
    by_cases hq : q % 2 = 1
    · have hpos : 2 ^ i > 0 := Nat.pow_pos (by omega)
      have hnum : 2 ^ i * q - 2 ^ i = 2 ^ (i + 1) * (q / 2) := by
        have h2 : q = 2 * (q / 2) + 1 := by omega
        have : 2 ^ i * q = 2 ^ (i + 1) * (q / 2) + 2 ^ i := by
          rw [Nat.pow_succ, Nat.mul_assoc, ← Nat.mul_succ]; congr 1
        omega
      simp only [hq, decide_true, if_true, hpos, hnum]
      rw [numToMarkLoop_eq ps (i + 1) (q / 2), hdiv, hexp]
      simp [markOf, hq, Nat.or_assoc]
    · have hnum : 2 ^ i * q = 2 ^ (i + 1) * (q / 2) := by
        have h2 : q = 2 * (q / 2) := by omega
        rw [Nat.pow_succ, Nat.mul_assoc]; congr 1
      simp only [hq, decide_false, Bool.false_eq_true, if_false, Nat.lt_irrefl]
      rw [hnum, numToMarkLoop_eq ps (i + 1) (q / 2), hdiv, hexp]
      simp [markOf, hq]

/-- Closed form of `MapNumberToMark`. -/
theorem mapNumberToMark_eq (mask : Nat) (n : Int) :
    mapNumberToMark mask n =
      if (n % (2 ^ 32 : Int)).toNat < 2 ^ popcount mask
      then some (markOf (positions mask) (n % (2 ^ 32 : Int)).toNat) else none := by
  simp only [mapNumberToMark, W, popcount]
  generalize (n % (2 ^ 32 : Int)).toNat = q
  have h := numToMarkLoop_eq (positions mask) 0 q 0
  simp only [Nat.pow_zero, Nat.one_mul, Nat.zero_add, Nat.zero_or] at h
  rw [h]
  have hp : 0 < 2 ^ (positions mask).length := Nat.pow_pos (by omega)
  by_cases hlt : q < 2 ^ (positions mask).length
  · simp [hlt, Nat.div_eq_of_lt hlt]
  · have h1 : 0 < q / 2 ^ (positions mask).length := Nat.div_pos (by omega) hp
    have h2 : 0 < 2 ^ (positions mask).length * (q / 2 ^ (positions mask).length) :=
      Nat.mul_pos hp h1
    simp [hlt, h2]

theorem testBit_markOf_mem : ∀ (ps : List Nat) (q x : Nat), (markOf ps q).testBit x = true → x ∈ ps
  | [], q, x, h => by simp [markOf] at h
  | p :: ps, q, x, h => by
    simp only [markOf, Nat.testBit_or, Bool.or_eq_true] at h
    rcases h with h | h
    · split at h
      · rw [Nat.testBit_two_pow] at h; simp at h; simp [h]
      · simp at h
    · exact List.mem_cons_of_mem _ (testBit_markOf_mem ps _ x h)

/-- Marks built by `MapNumberToMark` lie inside the mask. -/
theorem markOf_and_mask {ps : List Nat} {mask : Nat} (q : Nat) (h : ∀ x ∈ ps, mask.testBit x = true) :
    markOf ps q &&& mask = markOf ps q := by
  apply Nat.eq_of_testBit_eq
  intro i
  rw [Nat.testBit_and]
  by_cases hi : (markOf ps q).testBit i = true
  · simp [hi, h i (testBit_markOf_mem ps q i hi)]
  · have : (markOf ps q).testBit i = false := by simpa using hi
    simp [this]

theorem markToNumLoop_eq (mark : Nat) : ∀ (ps : List Nat) (i num : Nat),
    markToNumLoop mark ps i num = num + 2 ^ i * numOf mark ps
  | [], i, num => by simp [markToNumLoop, numOf]
  | p :: ps, i, num => by
    simp only [markToNumLoop, numOf]
    split
    · rw [markToNumLoop_eq mark ps, Nat.mul_add, Nat.pow_succ]
      simp only [Nat.mul_one, Nat.mul_assoc, Nat.add_assoc]
    · rw [markToNumLoop_eq mark ps, Nat.pow_succ]
      simp only [Nat.mul_assoc, Nat.zero_add]

theorem numOf_congr {a b : Nat} : ∀ {ps : List Nat}, (∀ x ∈ ps, a.testBit x = b.testBit x) →
    numOf a ps = numOf b ps
  | [], _ => rfl
  | p :: ps, h => by
    simp only [numOf]
    rw [h p (by simp), numOf_congr (fun x hx => h x (by simp [hx]))]

theorem numOf_lt (mark : Nat) : ∀ (ps : List Nat), numOf mark ps < 2 ^ ps.length
  | [] => by simp [numOf]
  | p :: ps => by
    have := numOf_lt mark ps
    simp only [numOf, List.length_cons, Nat.pow_succ]
    split <;> omega

/-- number → mark → number over the positions list. -/
theorem numOf_markOf : ∀ (ps : List Nat) (q : Nat), ps.Pairwise (· < ·) →
    numOf (markOf ps q) ps = q % 2 ^ ps.length
  | [], q, _ => by simp [numOf, Nat.mod_one]
  | p :: ps, q, hs => by
    rw [List.pairwise_cons] at hs
    have hp : (markOf ps (q / 2)).testBit p = false := by
      cases hb : (markOf ps (q / 2)).testBit p with
      | false => rfl
      | true => have := hs.1 p (testBit_markOf_mem ps _ p hb); omega
    have hcong : numOf (markOf (p :: ps) q) ps = numOf (markOf ps (q / 2)) ps := by
      apply numOf_congr
      intro x hx
      have : p ≠ x := by have := hs.1 x hx; omega
      simp only [markOf, Nat.testBit_or]
      split <;> simp [this]
    have hbit : (markOf (p :: ps) q).testBit p = decide (q % 2 = 1) := by
      simp only [markOf, Nat.testBit_or, hp, Bool.or_false]
      split <;> simp [*]
    simp only [numOf, hcong, hbit, numOf_markOf ps (q / 2) hs.2, List.length_cons]
    have hmod : q % 2 ^ (ps.length + 1) = q % 2 + 2 * (q / 2 % 2 ^ ps.length) := by
      rw [Nat.pow_succ, Nat.mul_comm, Nat.mod_mul]
    rw [hmod]
    by_cases hq : q % 2 = 1
    · simp [hq]
    · have : q % 2 = 0 := by omega
      simp [this]

/-- mark → number → mark over the positions list. -/
theorem testBit_markOf_numOf (mark : Nat) : ∀ (ps : List Nat) (x : Nat),
    (markOf ps (numOf mark ps)).testBit x = (decide (x ∈ ps) && mark.testBit x)
  | [], x => by simp [markOf]
  | p :: ps, x => by
    have hmod : ((if mark.testBit p = true then 1 else 0) + 2 * numOf mark ps) % 2 =
        if mark.testBit p = true then 1 else 0 := by split <;> omega
    have hdiv : ((if mark.testBit p = true then 1 else 0) + 2 * numOf mark ps) / 2 = numOf mark ps := by
      split <;> omega
    simp only [markOf, numOf, hmod, hdiv, Nat.testBit_or, testBit_markOf_numOf mark ps x,
      List.mem_cons]
    by_cases hxp : x = p
    · subst hxp
      by_cases hb : mark.testBit x = true
      · simp [hb]
      · have : mark.testBit x = false := by simpa using hb
        simp [this]
    · have : ¬ p = x := fun e => hxp e.symm
      by_cases hb : mark.testBit p = true
      · simp [hb, hxp, this]
      · have hb' : mark.testBit p = false := by simpa using hb
        simp [hb', hxp]

end CalicoVerif.C35
