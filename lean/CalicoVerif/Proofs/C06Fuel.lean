import CalicoVerif.Proofs.C06Validate
import CalicoVerif.Proofs.C06Parse
/-! C06 helper lemmas: the model's `fuel` totalisation is never observable — neither
the tokenizer nor the parser (with the fuel `tokenize` / `parse` give them) ever
returns `Err.fuel`. -/
namespace CalicoVerif.C06

/-! ### tokenizer -/

theorem cutIdentifier_ne_fuel (s : Str) : cutIdentifier s ≠ .error .fuel := by
  simp only [cutIdentifier]
  split
  · simp
  · split <;> simp

theorem cutQuoted_ne_fuel (q : Char) (s : Str) : cutQuoted q s ≠ .error .fuel := by
  unfold cutQuoted
  split <;> simp

theorem nextOperator_ne_fuel (s : Str) : nextOperator s ≠ .error .fuel := by
  unfold nextOperator
  repeat' split
  all_goals simp

theorem nextWord_ne_fuel (s : Str) : nextWord s ≠ .error .fuel := by
  unfold nextWord
  split
  · split
    · rename_i e he
      intro h
      injection h with h; subst h
      exact cutIdentifier_ne_fuel _ he
    · split <;> simp
  · split
    · split <;> simp
    · split
      · split <;> simp
      · split
        · simp
        · rename_i e he
          intro h
          injection h with h; subst h
          exact cutIdentifier_ne_fuel _ he

theorem nextToken_ne_fuel (l : Bool) (c : Char) (cs : Str) : nextToken l c cs ≠ .error .fuel := by
  unfold nextToken
  by_cases h1 : c = '('
  · rw [if_pos h1]; simp
  rw [if_neg h1]
  by_cases h2 : c = ')'
  · rw [if_pos h2]; simp
  rw [if_neg h2]
  by_cases h3 : c = '"'
  · rw [if_pos h3]
    cases hq : cutQuoted '"' cs with
    | error e =>
      intro h; injection h with h; subst h
      exact cutQuoted_ne_fuel _ _ hq
    | ok p => intro h; cases h
  rw [if_neg h3]
  by_cases h4 : c = '\''
  · rw [if_pos h4]
    cases hq : cutQuoted '\'' cs with
    | error e =>
      intro h; injection h with h; subst h
      exact cutQuoted_ne_fuel _ _ hq
    | ok p => intro h; cases h
  rw [if_neg h4]
  by_cases h5 : c = '{'
  · rw [if_pos h5]; simp
  rw [if_neg h5]
  by_cases h6 : c = '}'
  · rw [if_pos h6]; simp
  rw [if_neg h6]
  by_cases h7 : c = ','
  · rw [if_pos h7]; simp
  rw [if_neg h7]
  by_cases h8 : c = '='
  · rw [if_pos h8]; split <;> simp
  rw [if_neg h8]
  by_cases h9 : c = '!'
  · rw [if_pos h9]; split <;> simp
  rw [if_neg h9]
  by_cases h10 : c = '&'
  · rw [if_pos h10]; split <;> simp
  rw [if_neg h10]
  by_cases h11 : c = '|'
  · rw [if_pos h11]; split <;> simp
  rw [if_neg h11]
  cases l with
  | true => exact nextOperator_ne_fuel _
  | false => exact nextWord_ne_fuel _

theorem tokenizeFrom_ne_fuel : ∀ (fuel : Nat) (l : Bool) (s : Str), s.length < fuel →
    tokenizeFrom fuel l s ≠ .error .fuel
  | 0, _, _, h => by omega
  | fuel + 1, l, s, h => by
    rw [tokenizeFrom]
    split
    · simp
    · split
      · rename_i e he
        intro hh
        injection hh with hh; subst hh
        exact nextToken_ne_fuel _ _ _ he
      · rename_i tok rest _
        split
        · simp
        · rename_i hlen
          have ih := tokenizeFrom_ne_fuel fuel tok.isLabel rest (by omega)
          split
          · rename_i e he
            intro hh
            injection hh with hh; subst hh
            exact ih he
          · simp

/-- MAIN: `Tokenize` never runs out of (model) fuel. -/
theorem tokenize_ne_fuel_aux (s : Str) : tokenize s ≠ .error .fuel :=
  tokenizeFrom_ne_fuel _ _ _ (Nat.lt_succ_self _)

/-! ### parser -/

theorem stripNots_length : ∀ (toks : List Token) (b : Bool), (stripNots toks b).2.length ≤ toks.length
  | [], _ => by simp [stripNots]
  | t :: ts, b => by
    cases t <;> simp only [stripNots, List.length_cons, Nat.le_refl]
    have := stripNots_length ts (!b)
    omega

theorem parseSetValues_length : ∀ (toks : List Token), (parseSetValues toks).2.length ≤ toks.length
  | [] => by simp [parseSetValues]
  | [t] => by cases t <;> simp [parseSetValues]
  | t :: u :: ts => by
    cases t with
    | str v =>
      cases u with
      | comma =>
        have := parseSetValues_length ts
        simp only [parseSetValues, List.length_cons]
        omega
      | _ => simp [parseSetValues]
    | _ => simp [parseSetValues]

theorem parseLabelOp_ok {l : Str} {rest : List Token} :
    parseLabelOp l rest ≠ .error .fuel ∧
    ∀ n rem, parseLabelOp l rest = .ok (n, rem) → rem.length < rest.length := by
  unfold parseLabelOp
  split
  · simp
  · simp
  · rename_i op t2 rem0
    have hset := parseSetValues_length rem0
    cases op <;> simp only [] <;> (try (constructor <;> simp; done))
    all_goals
      cases t2 <;> simp only [] <;> (try (constructor <;> simp; done))
    all_goals
      first
      | (constructor
         · simp
         · intro n rem h
           injection h with h; injection h with h1 h2; subst h2
           simp only [List.length_cons]; omega)
      | (generalize hps : parseSetValues rem0 = ps at hset
         obtain ⟨vals, rem1⟩ := ps
         simp only [] at hset ⊢
         split
         · constructor
           · simp
           · intro n rem h
             injection h with h; injection h with h1 h2; subst h2
             simp only [List.length_cons] at hset ⊢; omega
         · constructor <;> simp)

/-- What the loops need from the operation parser on token lists of length ≤ `bound`. -/
def OpOK (op : List Token → PResult) (bound : Nat) : Prop :=
  ∀ toks : List Token, toks.length ≤ bound →
    op toks ≠ .error .fuel ∧ ∀ n rem, op toks = .ok (n, rem) → rem.length < toks.length

theorem andRest_ok {op : List Token → PResult} {bound : Nat} (hop : OpOK op bound) :
    ∀ (fuel : Nat) (toks : List Token), toks.length ≤ fuel → toks.length ≤ bound →
      andRest op fuel toks ≠ .error .fuel ∧
      ∀ ns rem, andRest op fuel toks = .ok (ns, rem) → rem.length ≤ toks.length := by
  intro fuel
  induction fuel with
  | zero =>
    intro toks h1 _
    have : toks = [] := List.length_eq_zero_iff.mp (by omega)
    subst this
    simp [andRest]
  | succ fuel ih =>
    intro toks h1 h2
    unfold andRest
    split
    · rename_i f rem0 heq
      have hf : f = fuel := by omega
      subst hf
      simp only [List.length_cons] at h1 h2
      have ho := hop rem0 (by omega)
      split
      · rename_i e he
        exact ⟨fun h => by injection h with h; subst h; exact ho.1 he, fun _ _ h => by cases h⟩
      · rename_i n rem' he
        have hlt := ho.2 n rem' he
        have ih' := ih rem' (by omega) (by omega)
        split
        · rename_i e he2
          exact ⟨fun h => by injection h with h; subst h; exact ih'.1 he2, fun _ _ h => by cases h⟩
        · rename_i ns rem'' he2
          refine ⟨by simp, ?_⟩
          intro ns' rem h
          injection h with h; injection h with h3 h4; subst h4
          have := ih'.2 ns rem'' he2
          simp only [List.length_cons]; omega
    · rename_i heq; cases heq
    · exact ⟨by simp, fun ns rem h => by injection h with h; injection h with h3 h4; subst h4; exact Nat.le_refl _⟩

theorem parseAndWith_ok {op : List Token → PResult} {bound : Nat} (hop : OpOK op bound) (fuel : Nat) :
    OpOK (parseAndWith op fuel) (min fuel bound) := by
  intro toks hlen
  have h1 : toks.length ≤ fuel := by omega
  have h2 : toks.length ≤ bound := by omega
  unfold parseAndWith
  have ho := hop toks h2
  split
  · rename_i e he
    exact ⟨fun h => by injection h with h; subst h; exact ho.1 he, fun _ _ h => by cases h⟩
  · rename_i n rem he
    have hlt := ho.2 n rem he
    have hr := andRest_ok hop fuel rem (by omega) (by omega)
    split
    · rename_i e he2
      exact ⟨fun h => by injection h with h; subst h; exact hr.1 he2, fun _ _ h => by cases h⟩
    · rename_i ns rem' he2
      refine ⟨by simp, ?_⟩
      intro n' rem'' h
      injection h with h; injection h with h3 h4; subst h4
      have := hr.2 ns rem' he2
      omega

theorem orRest_ok {op : List Token → PResult} {bound : Nat} (hop : OpOK op bound) (fuelAnd : Nat) :
    ∀ (fuel : Nat) (toks : List Token), toks.length ≤ fuel → toks.length ≤ min fuelAnd bound →
      orRest op fuelAnd fuel toks ≠ .error .fuel ∧
      ∀ ns rem, orRest op fuelAnd fuel toks = .ok (ns, rem) → rem.length ≤ toks.length := by
  intro fuel
  induction fuel with
  | zero =>
    intro toks h1 _
    have : toks = [] := List.length_eq_zero_iff.mp (by omega)
    subst this
    simp [orRest]
  | succ fuel ih =>
    intro toks h1 h2
    unfold orRest
    split
    · rename_i f rem0 heq
      have hf : f = fuel := by omega
      subst hf
      simp only [List.length_cons] at h1 h2
      have ho := parseAndWith_ok hop fuelAnd rem0 (by omega)
      split
      · rename_i e he
        exact ⟨fun h => by injection h with h; subst h; exact ho.1 he, fun _ _ h => by cases h⟩
      · rename_i n rem' he
        have hlt := ho.2 n rem' he
        have ih' := ih rem' (by omega) (by omega)
        split
        · rename_i e he2
          exact ⟨fun h => by injection h with h; subst h; exact ih'.1 he2, fun _ _ h => by cases h⟩
        · rename_i ns rem'' he2
          refine ⟨by simp, ?_⟩
          intro ns' rem h
          injection h with h; injection h with h3 h4; subst h4
          have := ih'.2 ns rem'' he2
          simp only [List.length_cons]; omega
    · rename_i heq; cases heq
    · exact ⟨by simp, fun ns rem h => by injection h with h; injection h with h3 h4; subst h4; exact Nat.le_refl _⟩

theorem parseOrWith_ok {op : List Token → PResult} {bound : Nat} (hop : OpOK op bound) (fuel : Nat) :
    OpOK (parseOrWith op fuel) (min fuel bound) := by
  intro toks hlen
  unfold parseOrWith
  have ho := parseAndWith_ok hop fuel toks hlen
  split
  · rename_i e he
    exact ⟨fun h => by injection h with h; subst h; exact ho.1 he, fun _ _ h => by cases h⟩
  · rename_i n rem he
    have hlt := ho.2 n rem he
    have hr := orRest_ok hop fuel fuel rem (by omega) (by omega)
    split
    · rename_i e he2
      exact ⟨fun h => by injection h with h; subst h; exact hr.1 he2, fun _ _ h => by cases h⟩
    · rename_i ns rem' he2
      refine ⟨by simp, ?_⟩
      intro n' rem'' h
      injection h with h; injection h with h3 h4; subst h4
      have := hr.2 ns rem' he2
      omega

theorem opCore_ok {fuel : Nat} (ih : OpOK (parseOperation fuel) fuel) (toks' : List Token)
    (hlen : toks'.length ≤ fuel + 1) :
    opCore fuel toks' ≠ .error .fuel ∧ ∀ n rem, opCore fuel toks' = .ok (n, rem) → rem.length < toks'.length := by
  unfold opCore
  split
  · exact ⟨by simp, fun n rem' h => by injection h with h; injection h with h3 h4; subst h4; simp⟩
  · exact ⟨by simp, fun n rem' h => by injection h with h; injection h with h3 h4; subst h4; simp⟩
  · exact ⟨by simp, fun n rem' h => by injection h with h; injection h with h3 h4; subst h4; simp⟩
  · rename_i l rest
    have := parseLabelOp_ok (l := l) (rest := rest)
    exact ⟨this.1, fun n rem h => by have := this.2 n rem h; simp only [List.length_cons]; omega⟩
  · rename_i rest
    simp only [List.length_cons] at hlen
    have ho := parseOrWith_ok ih fuel rest (by simp; omega)
    split
    · rename_i e he
      exact ⟨fun h => by injection h with h; subst h; exact ho.1 he, fun _ _ h => by cases h⟩
    · rename_i n rem he
      have hlt := ho.2 n rem he
      split
      · rename_i rem'
        refine ⟨by simp, ?_⟩
        intro n' rem'' h
        injection h with h; injection h with h3 h4; subst h4
        simp only [List.length_cons] at hlt ⊢; omega
      · exact ⟨by simp, fun _ _ h => by cases h⟩
  · exact ⟨by simp, fun _ _ h => by cases h⟩

theorem parseOperation_ok : ∀ fuel : Nat, OpOK (parseOperation fuel) fuel := by
  intro fuel
  induction fuel with
  | zero =>
    intro toks h
    have : toks = [] := List.length_eq_zero_iff.mp (by omega)
    subst this
    simp [parseOperation]
  | succ fuel ih =>
    intro toks hlen
    cases toks with
    | nil => simp [parseOperation]
    | cons t ts =>
      rw [parseOperation_succ, opFrom]
      have hs := stripNots_length (t :: ts) false
      have hc := opCore_ok ih (stripNots (t :: ts) false).2 (by omega)
      split
      · rename_i e he
        exact ⟨fun h => by injection h with h; subst h; exact hc.1 he, fun _ _ h => by cases h⟩
      · rename_i n rem he
        refine ⟨by simp, ?_⟩
        intro n' rem' h
        injection h with h; injection h with h3 h4; subst h4
        have := hc.2 n rem he
        omega

/-- MAIN: `Parse` never runs out of (model) fuel. -/
theorem parse_ne_fuel_aux (s : Str) : parse s ≠ .error .fuel := by
  unfold parse
  split
  · rename_i e he
    intro h; injection h with h; subst h
    exact tokenize_ne_fuel_aux s he
  · rename_i tokens _
    split
    · simp
    · have ho := parseOrWith_ok (parseOperation_ok tokens.length) tokens.length tokens (by simp)
      unfold parseOrExpression
      split
      · rename_i e he
        intro h; injection h with h; subst h
        exact ho.1 he
      · split <;> simp

/-- MAIN: nor does `Validate`. -/
theorem validate_ne_fuel_aux (s : Str) : validate s ≠ .error .fuel := by
  rw [validate_eq_parse]
  have := parse_ne_fuel_aux s
  cases hp : parse s with
  | error e => rw [hp] at this; simpa using this
  | ok t => simp

end CalicoVerif.C06
